import RTV.Model.DateFront
/-!
Soundness of the symbolic evaluation of `RTV.DateFront.matchK` (the C06 front end):

* `Refines O O'`: every question `O` answers, `O'` answers the same way.  `matchK_mono`: then every KNOWN outcome of the
  matcher under `O` (with any continuation) is its outcome under `O'` — by induction on the regex, for all continuations
  related the same way; `searchO_mono`, `stepO_mono`, `parseBasicO_mono` lift it to `regex.search` and to the loop.
* `Conc A s`: the concrete string `s` is drawn from the abstract string `A` (candidates per position);
  `abs_refines_conc`: then `absO asciiTables A` refines `conc T s`, for every engine table `T` that agrees with the
  ASCII tables below 128 (`AsciiAgree`) when all candidates are below 128.
* `parseBasicO_of_steps`: the loop answers the first accepting regex when the earlier ones reject.
-/
namespace RTV.DateFront
open RTV.Re RTV.Py

/-- every question `O` answers, `O'` answers the same way -/
structure Refines (O O' : Oracle) : Prop where
  size : O.size = O'.size
  cls : ∀ p items neg b, O.cls p items neg = some b → O'.cls p items neg = some b
  word : ∀ p b, O.word p = some b → O'.word p = some b
  nl : ∀ p b, O.nl p = some b → O'.nl p = some b

/-- `x'` is `x` wherever `x` is known -/
def RLe (x x' : R) : Prop := x ≠ .unk → x' = x

def KLe (k k' : Kont) : Prop := ∀ j e, RLe (k j e) (k' j e)

theorem RLe.refl (x : R) : RLe x x := fun _ => rfl
theorem KLe.refl (k : Kont) : KLe k k := fun _ _ => RLe.refl _

theorem orElse_mono {a a' : R} {b b' : Unit → R} (ha : RLe a a') (hb : RLe (b ()) (b' ())) :
    RLe (orElse a b) (orElse a' b') := by
  intro hk
  cases a with
  | unk => simp [orElse] at hk
  | fail =>
    have := ha (by simp); subst this
    simp only [orElse] at hk ⊢
    exact hb hk
  | found j e =>
    have := ha (by simp); subst this
    rfl

theorem ob_mono {o o' : Option Bool} {t t' f f' : Unit → R} (ho : ∀ b, o = some b → o' = some b)
    (ht : RLe (t ()) (t' ())) (hf : RLe (f ()) (f' ())) : RLe (ob o t f) (ob o' t' f') := by
  intro hk
  cases o with
  | none => simp [ob] at hk
  | some b =>
    rw [ho b rfl]
    cases b
    · simp only [ob] at hk ⊢; exact hf hk
    · simp only [ob] at hk ⊢; exact ht hk

theorem repK_mono {f f' : Kont → Nat → Env → R} (g : Bool)
    (hf : ∀ k k' i e, KLe k k' → RLe (f k i e) (f' k' i e)) :
    ∀ mx mn k k' i e, KLe k k' → RLe (repK f g mx mn k i e) (repK f' g mx mn k' i e) := by
  intro mx
  induction mx with
  | zero =>
    intro mn k k' i e hk
    by_cases h : mn = 0
    · simp only [repK, h, if_true]; exact hk i e
    · simp only [repK, h, if_false]; exact RLe.refl _
  | succ mx ih =>
    intro mn k k' i e hk
    by_cases h : mn = 0
    · subst h
      have h1 : RLe (f (fun j e' => repK f g mx 0 k j e') i e) (f' (fun j e' => repK f' g mx 0 k' j e') i e) :=
        hf _ _ i e (fun j e' => ih 0 k k' j e' hk)
      cases g
      · simp only [repK, if_true, Bool.false_eq_true, if_false]
        exact orElse_mono (hk i e) h1
      · simp only [repK, if_true]
        exact orElse_mono h1 (hk i e)
    · simp only [repK, h, if_false]
      exact hf _ _ i e (fun j e' => ih (mn - 1) k k' j e' hk)

theorem anyK_mono {f f' : Nat → R} (hf : ∀ s, RLe (f s) (f' s)) : ∀ l, RLe (anyK f l) (anyK f' l) := by
  intro l
  induction l with
  | nil => exact RLe.refl _
  | cons x xs ih => simp only [anyK]; exact orElse_mono (hf x) ih

theorem wordAtO_mono {O O' : Oracle} (h : Refines O O') (i : Nat) (b : Bool) (hb : wordAtO O i = some b) :
    wordAtO O' i = some b := by
  unfold wordAtO at hb ⊢
  rw [← h.size]
  by_cases hi : i < O.size
  · simp only [hi, if_true] at hb ⊢; exact h.word i b hb
  · simp only [hi, if_false] at hb ⊢; exact hb

theorem isWordBO_mono {O O' : Oracle} (h : Refines O O') (i : Nat) (b : Bool) (hb : isWordBO O i = some b) :
    isWordBO O' i = some b := by
  unfold isWordBO at hb ⊢
  by_cases hi : i > 0
  · simp only [hi, if_true] at hb ⊢
    cases ha : wordAtO O (i - 1) with
    | none => simp [ha] at hb
    | some a =>
      rw [wordAtO_mono h _ _ ha]
      cases hc : wordAtO O i with
      | none => simp [ha, hc] at hb
      | some c => rw [wordAtO_mono h _ _ hc]; simpa [ha, hc] using hb
  · simp only [hi, if_false] at hb ⊢
    cases hc : wordAtO O i with
    | none => simp [hc] at hb
    | some c => rw [wordAtO_mono h _ _ hc]; simpa [hc] using hb

theorem eolO_mono {O O' : Oracle} (h : Refines O O') (i : Nat) (b : Bool) (hb : eolO O i = some b) :
    eolO O' i = some b := by
  unfold eolO at hb ⊢
  rw [← h.size]
  by_cases h1 : i = O.size
  · simp only [h1, if_true] at hb ⊢; exact hb
  · simp only [h1, if_false] at hb ⊢
    by_cases h2 : i + 1 = O.size
    · simp only [h2, if_true] at hb ⊢; exact h.nl i b hb
    · simp only [h2, if_false] at hb ⊢; exact hb

/-- Monotonicity of the matcher in the oracle: a known outcome under `O` is the outcome under every refinement. -/
theorem matchK_mono {O O' : Oracle} (h : Refines O O') (r : RE) :
    ∀ k k' i e, KLe k k' → RLe (matchK O r k i e) (matchK O' r k' i e) := by
  induction r with
  | eps => intro k k' i e hk; simp only [matchK]; exact hk i e
  | cls items neg =>
    intro k k' i e hk
    simp only [matchK, ← h.size]
    by_cases hi : i < O.size
    · simp only [hi, if_true]
      exact ob_mono (h.cls i items neg) (hk _ _) (RLe.refl _)
    · simp only [hi, if_false]; exact RLe.refl _
  | seq a b iha ihb =>
    intro k k' i e hk
    simp only [matchK]
    exact iha _ _ i e (fun j e' => ihb k k' j e' hk)
  | alt a b iha ihb =>
    intro k k' i e hk
    simp only [matchK]
    exact orElse_mono (iha k k' i e hk) (ihb k k' i e hk)
  | rep a mn mx g ih =>
    intro k k' i e hk
    simp only [matchK]
    exact repK_mono g ih mx mn k k' i e hk
  | repU a mn g ih =>
    intro k k' i e hk
    simp only [matchK, ← h.size]
    exact repK_mono g ih _ mn k k' i e hk
  | grp n a ih =>
    intro k k' i e hk
    simp only [matchK]
    exact ih _ _ i e (fun j e' => hk j _)
  | wordB =>
    intro k k' i e hk
    simp only [matchK]
    exact ob_mono (isWordBO_mono h i) (hk _ _) (RLe.refl _)
  | nwordB =>
    intro k k' i e hk
    simp only [matchK]
    exact ob_mono (isWordBO_mono h i) (RLe.refl _) (hk _ _)
  | bol =>
    intro k k' i e hk
    simp only [matchK]
    by_cases hi : i = 0
    · simp only [hi, if_true]; exact hk _ _
    · simp only [hi, if_false]; exact RLe.refl _
  | eol =>
    intro k k' i e hk
    simp only [matchK]
    exact ob_mono (eolO_mono h i) (hk _ _) (RLe.refl _)
  | eos =>
    intro k k' i e hk
    simp only [matchK, ← h.size]
    by_cases hi : i = O.size
    · simp only [hi, if_true]; exact hk _ _
    · simp only [hi, if_false]; exact RLe.refl _
  | look ahead neg a ih =>
    intro k k' i e hk
    cases ahead
    · -- look-behind
      simp only [matchK]
      have hin : RLe (anyK (fun s => matchK O a (fun j _ => if j = i then R.found j [] else R.fail) s e) (List.range (i + 1)))
          (anyK (fun s => matchK O' a (fun j _ => if j = i then R.found j [] else R.fail) s e) (List.range (i + 1))) :=
        anyK_mono (fun s => ih _ _ s e (KLe.refl _)) _
      intro hknown
      cases hx : anyK (fun s => matchK O a (fun j _ => if j = i then R.found j [] else R.fail) s e) (List.range (i + 1)) with
      | unk => simp [hx] at hknown
      | fail =>
        rw [hin (by simp [hx]), hx]
        simp only [hx] at hknown ⊢
        cases neg
        · rfl
        · simp only [if_true] at hknown ⊢; exact hk i e hknown
      | found j e' =>
        rw [hin (by simp [hx]), hx]
        simp only [hx] at hknown ⊢
        cases neg
        · simp only [Bool.false_eq_true, if_false] at hknown ⊢; exact hk i e hknown
        · rfl
    · -- look-ahead
      simp only [matchK]
      have hin : RLe (matchK O a (fun j _ => R.found j []) i e) (matchK O' a (fun j _ => R.found j []) i e) :=
        ih _ _ i e (KLe.refl _)
      intro hknown
      cases hx : matchK O a (fun j _ => R.found j []) i e with
      | unk => simp [hx] at hknown
      | fail =>
        rw [hin (by simp [hx]), hx]
        simp only [hx] at hknown ⊢
        cases neg
        · rfl
        · simp only [if_true] at hknown ⊢; exact hk i e hknown
      | found j e' =>
        rw [hin (by simp [hx]), hx]
        simp only [hx] at hknown ⊢
        cases neg
        · simp only [Bool.false_eq_true, if_false] at hknown ⊢; exact hk i e hknown
        · rfl

theorem searchFromO_mono {O O' : Oracle} (h : Refines O O') (r : RE) :
    ∀ fuel pos x, searchFromO O r fuel pos = some x → searchFromO O' r fuel pos = some x := by
  intro fuel
  induction fuel with
  | zero => intro pos x hx; simpa [searchFromO] using hx
  | succ fuel ih =>
    intro pos x hx
    simp only [searchFromO, ← h.size] at hx ⊢
    by_cases hp : pos > O.size
    · simp only [hp, if_true] at hx ⊢; exact hx
    · simp only [hp, if_false] at hx ⊢
      have hm := matchK_mono h r (fun j e => R.found j e) (fun j e => R.found j e) pos [] (KLe.refl _)
      cases hy : matchK O r (fun j e => R.found j e) pos [] with
      | unk => simp [hy] at hx
      | fail => rw [hm (by simp [hy]), hy]; simp only [hy] at hx ⊢; exact ih _ _ hx
      | found j e => rw [hm (by simp [hy]), hy]; simp only [hy] at hx ⊢; exact hx

theorem searchO_mono {O O' : Oracle} (h : Refines O O') (r : RE) (x : Option MatchG) (hx : searchO O r = some x) :
    searchO O' r = some x := by
  unfold searchO at hx ⊢
  rw [← h.size]
  exact searchFromO_mono h r _ _ _ hx

theorem stepO_mono {OT OT' OP OP' : Oracle} (hT : Refines OT OT') (hP : Refines OP OP') (n : Nat) (r : RE)
    (x : Option (Bool × MatchG)) (hx : stepO OT OP n r = some x) : stepO OT' OP' n r = some x := by
  unfold stepO at hx ⊢
  rw [← hT.size]
  cases h1 : searchO OT r with
  | none => simp [h1] at hx
  | some m1 =>
    rw [searchO_mono hT r _ h1]
    cases m1 with
    | some m => simpa [h1] using hx
    | none =>
      simp only [h1] at hx ⊢
      cases h2 : searchO OP r with
      | none => simp [h2] at hx
      | some m2 => rw [searchO_mono hP r _ h2]; simpa [h2] using hx

theorem parseBasicO_mono {OT OT' OP OP' : Oracle} (hT : Refines OT OT') (hP : Refines OP OP') (n : Nat) :
    ∀ (rs : List (Option RE)) (k : Nat) (x : Option Hit), parseBasicO OT OP n rs k = some x →
      parseBasicO OT' OP' n rs k = some x := by
  intro rs
  induction rs with
  | nil => intro k x hx; simpa [parseBasicO] using hx
  | cons r rest ih =>
    intro k x hx
    cases r with
    | none => simp [parseBasicO] at hx
    | some r =>
      simp only [parseBasicO] at hx ⊢
      cases h1 : stepO OT OP n r with
      | none => simp [h1] at hx
      | some s1 =>
        rw [stepO_mono hT hP n r _ h1]
        cases s1 with
        | none => simp only [h1] at hx ⊢; exact ih _ _ hx
        | some pm => simpa [h1] using hx

/-- the loop answers the first accepting regex when all earlier ones reject -/
theorem parseBasicO_of_steps (OT OP : Oracle) (n : Nat) :
    ∀ (rs : List (Option RE)) (k0 idx : Nat) (r : RE) (p : Bool) (m : MatchG),
      (∀ j, j < idx → ∃ rj, rs[j]? = some (some rj) ∧ stepO OT OP n rj = some none) →
      rs[idx]? = some (some r) → stepO OT OP n r = some (some (p, m)) →
      parseBasicO OT OP n rs k0 = some (some ⟨k0 + idx, p, m⟩) := by
  intro rs
  induction rs with
  | nil => intro k0 idx r p m _ h; simp at h
  | cons r0 rest ih =>
    intro k0 idx r p m hrej hget hacc
    cases idx with
    | zero =>
      simp only [List.getElem?_cons_zero, Option.some.injEq] at hget
      subst hget
      simp [parseBasicO, hacc]
    | succ idx =>
      obtain ⟨rj, h0, hs0⟩ := hrej 0 (by omega)
      simp only [List.getElem?_cons_zero, Option.some.injEq] at h0
      subst h0
      simp only [parseBasicO, hs0]
      have := ih (k0 + 1) idx r p m (fun j hj => by simpa using hrej (j + 1) (by omega)) (by simpa using hget) hacc
      rw [this]
      congr 3
      omega

end RTV.DateFront
