import RTV.Lemmas.ReBounds
import RTV.Gen.RegexIndex
/-!
# `findAll` and empty matches

`RTV.Re.findAll` (Model/Re.lean) continues **one position further** after an empty match. Python's `re.finditer`
and `regex.finditer` (observed: CPython 3.12 `re`, `regex` 2026.9.10, version 0 and version 1 behaviour alike) do
something else: after an empty match at `pos` the next attempt starts **at `pos` again** but may not be empty at
`pos` — the engine backtracks into the remaining alternatives and reports the first *non-empty* end, and only if there
is none moves on to `pos + 1` (`'|a'` on `'a'` gives `(0,0) (0,1) (1,1)`, the model's `findAll` gives `(0,0) (1,1)`).
So `findAll` is `finditer` only for patterns whose first-priority match is never empty while a non-empty one exists.

This file makes that precise instead of changing `findAll` (five lemma files and every sequence / number model are
built on its recursion):

* `findAllPy` — the iteration the libraries perform (the `must_advance` rule), total, by fuel;
* `ends_progress` — `nullable` (the syntactic test of Model/Re.lean) is sound: a pattern that is not `nullable`
  has no empty match, anywhere, in any string;
* `findAll_nonempty` — … so `findAll` never sees an empty match for it (the `j ≤ pos` branch is dead code);
* `findAll_eq_findAllPy` — for every pattern that is not `nullable`, and for the empty pattern `eps` (the Spanish /
  French / Portuguese / Italian / Dutch `AmbiguityFiltersDict` value `''`), `findAll` **is** `findAllPy`;
* the witnesses at the end: `findAllPy` reproduces the libraries' answers on nullable patterns where `findAll` does
  not.

The premise is checked on every run for every pattern the translators emit for `findAll`: the translators
(`harness/translate/regexes.py`, `numregex.py`, `numcjk.py`) refuse a nullable pattern (Python side, raises) and
emit `theorem …_finditer_safe : … = true := by decide` next to the generated lists (`RTV/Gen/RegexIndex.lean`,
`NumRegexIndex.lean`, `NumCjkZh/Ja.lean`), which the driver imports — a nullable pattern breaks the build of
every check.
-/
namespace RTV.Re
variable {T : Tables} {s : Array Nat}

/-! ### `nullable` is sound -/

theorem repEnds_progress (f : Nat → List Nat) (g : Bool)
    (hb : ∀ i j, j ∈ f i → i ≤ j ∧ (i ≤ s.size → j ≤ s.size)) (hf : ∀ i j, j ∈ f i → i < j) (mx : Nat) :
    ∀ mn i j, 0 < mn → j ∈ repEnds f g mx mn i → i < j := by
  cases mx with
  | zero => intro mn i j hmn h; have := (mem_repEnds_zero.1 h).1; omega
  | succ mx =>
    intro mn i j hmn h
    rcases mem_repEnds_succ.1 h with ⟨k, hk, hj⟩ | ⟨h0, _⟩
    · have a := hf i k hk
      have b := (repEnds_bounds (s := s) f g hb mx (mn - 1) k j hj).1
      omega
    · omega

/-- A pattern that is not `nullable` consumes at least one character in every match. -/
theorem ends_progress (r : RE) (h : nullable r = false) : ∀ i j, j ∈ ends T s r i → i < j := by
  induction r with
  | eps => simp [nullable] at h
  | cls items neg => intro i j hj; obtain ⟨_, _, rfl⟩ := mem_cls.1 hj; omega
  | seq a b iha ihb =>
    intro i j hj
    obtain ⟨k, hk, hj⟩ := mem_seq.1 hj
    have x := (ends_bounds a i k hk).1
    have y := (ends_bounds b k j hj).1
    simp only [nullable, Bool.and_eq_false_iff] at h
    rcases h with h | h
    · have := iha h i k hk; omega
    · have := ihb h k j hj; omega
  | alt a b iha ihb =>
    intro i j hj
    simp only [nullable, Bool.or_eq_false_iff] at h
    rcases mem_alt.1 hj with hj | hj
    · exact iha h.1 i j hj
    · exact ihb h.2 i j hj
  | rep a mn mx g ih =>
    intro i j hj
    simp only [nullable, Bool.or_eq_false_iff, beq_eq_false_iff_ne, ne_eq] at h
    rw [ends] at hj
    exact repEnds_progress _ g (ends_bounds a) (ih h.2) mx mn i j (by omega) hj
  | repU a mn g ih =>
    intro i j hj
    simp only [nullable, Bool.or_eq_false_iff, beq_eq_false_iff_ne, ne_eq] at h
    rw [ends] at hj
    exact repEnds_progress _ g (ends_bounds a) (ih h.2) _ mn i j (by omega) hj
  | grp n a ih => intro i j hj; simp only [nullable] at h; exact ih h i j (mem_grp.1 hj)
  | wordB => simp [nullable] at h
  | nwordB => simp [nullable] at h
  | bol => simp [nullable] at h
  | eol => simp [nullable] at h
  | eos => simp [nullable] at h
  | look ahead neg a _ => simp [nullable] at h

/-- For a pattern that is not `nullable`, `findAll` never reports (never even sees) an empty match. -/
theorem findAll_nonempty {r : RE} (h : nullable r = false) : ∀ p ∈ findAll T s r, p.1 < p.2 :=
  fun p hp => ends_progress r h p.1 p.2 (findAll_sound p hp)

/-! ### the iteration `finditer` performs -/

/-- `finditer` as `re` / `regex` run it: `adv` = the previous match was empty and ended here, so an empty match at
`pos` is refused and the engine backtracks to the first end in priority order that is not `pos`. -/
def findAllPyFrom (T : Tables) (s : Array Nat) (r : RE) : Nat → Nat → Bool → List (Nat × Nat)
  | 0, _, _ => []
  | fuel + 1, pos, adv =>
    if pos > s.size then []
    else match (ends T s r pos).find? (fun j => !(adv && j == pos)) with
      | some j => (pos, j) :: findAllPyFrom T s r fuel j (j == pos)
      | none => findAllPyFrom T s r fuel (pos + 1) false

/-- every step either moves `pos` forward or turns `adv` on at the same `pos`: `2 * size + 4` steps suffice -/
def findAllPy (T : Tables) (s : Array Nat) (r : RE) : List (Nat × Nat) := findAllPyFrom T s r (2 * s.size + 4) 0 false

/-- The patterns on which the two iterations agree: whenever the first-priority match at a position is empty, every
match at that position is empty. -/
def EmptyFinal (T : Tables) (s : Array Nat) (r : RE) : Prop :=
  ∀ pos, firstEnd T s r pos = some pos → ∀ j ∈ ends T s r pos, j = pos

theorem find?_true {α} (l : List α) : l.find? (fun _ => true) = l.head? := by cases l <;> simp

theorem findAllFrom_eq_py {r : RE} (hE : EmptyFinal T s r) :
    ∀ f1 pos f2, s.size + 1 - pos < f1 → 2 * (s.size + 1 - pos) < f2 →
      findAllFrom T s r f1 pos = findAllPyFrom T s r f2 pos false := by
  intro f1
  induction f1 with
  | zero => intro pos f2 h; omega
  | succ f1 ih =>
    intro pos f2 h1 h2
    obtain ⟨f2, rfl⟩ : ∃ k, f2 = k + 1 := ⟨f2 - 1, by omega⟩
    rw [findAllFrom, findAllPyFrom]
    by_cases hp : pos > s.size
    · simp [hp]
    · simp only [hp, if_false, Bool.false_and, Bool.not_false, find?_true]
      cases hf : firstEnd T s r pos with
      | none =>
        rw [firstEnd] at hf
        simp only [hf]
        exact ih (pos + 1) f2 (by omega) (by omega)
      | some j =>
        have hge := (ends_bounds r pos j (firstEnd_mem hf)).1
        rw [firstEnd] at hf
        simp only [hf]
        by_cases hj : j ≤ pos
        · have hjp : j = pos := by omega
          subst hjp
          simp only [Nat.le_refl, if_true, beq_self_eq_true]
          obtain ⟨f2, rfl⟩ : ∃ k, f2 = k + 1 := ⟨f2 - 1, by omega⟩
          rw [findAllPyFrom]
          have hnone : (ends T s r j).find? (fun k => !(true && k == j)) = none := by
            rw [List.find?_eq_none]
            intro k hk
            have := hE j (by rw [firstEnd]; exact hf) k hk
            simp [this]
          simp only [hp, if_false, hnone]
          rw [ih (j + 1) f2 (by omega) (by omega)]
        · have hne : (j == pos) = false := by simp; omega
          simp only [hj, if_false, hne]
          rw [ih j f2 (by omega) (by omega)]

theorem findAll_eq_findAllPy_of_emptyFinal {r : RE} (hE : EmptyFinal T s r) : findAll T s r = findAllPy T s r :=
  findAllFrom_eq_py hE _ 0 _ (by omega) (by omega)

theorem emptyFinal_of_not_nullable {r : RE} (h : nullable r = false) : EmptyFinal T s r := by
  intro pos hf
  have := ends_progress r h pos pos (firstEnd_mem hf)
  omega

theorem emptyFinal_eps : EmptyFinal T s .eps := by
  intro pos _ j hj
  exact mem_eps.1 hj

/-- the test the generated guards evaluate: not `nullable`, or the empty pattern -/
def finditerSafe (r : RE) : Bool := !nullable r || decide (r = .eps)

/-- **For every pattern the generated guards admit, the model's `findAll` is the libraries' `finditer`.** -/
theorem findAll_eq_findAllPy {r : RE} (h : finditerSafe r = true) : findAll T s r = findAllPy T s r := by
  simp only [finditerSafe, Bool.or_eq_true, Bool.not_eq_true', decide_eq_true_eq] at h
  rcases h with h | h
  · exact findAll_eq_findAllPy_of_emptyFinal (emptyFinal_of_not_nullable h)
  · subst h; exact findAll_eq_findAllPy_of_emptyFinal emptyFinal_eps

/-- **Every pattern `harness/translate/regexes.py` emits** (the sequence, phone, URL, GUID and boolean regexes of the
working tree, re-translated on every run): on every string, with the tables of the running engine, the model's
`findAll` is the libraries' `finditer`. The premise is the generated, kernel-checked `allRegexes_finditer_safe`. -/
theorem translated_findAll_is_finditer : ∀ p ∈ RTV.Gen.allRegexes, ∀ s : Array Nat,
    findAll RTV.Gen.reTables s p.2 = findAllPy RTV.Gen.reTables s p.2 := by
  intro p hp s
  have := List.all_eq_true.1 RTV.Gen.allRegexes_finditer_safe p hp
  exact findAll_eq_findAllPy (by simp [finditerSafe, this])

/-! ### witnesses: the libraries' answers on nullable patterns (observed with `re` of CPython 3.12 and `regex`
2026.9.10, `[m.span() for m in finditer(p, s)]`), reproduced by `findAllPy`, not by `findAll` -/

private def a : RE := .cls [.range 97 97] false
private def b : RE := .cls [.range 98 98] false

/-- `'|a'` on `'a'` → `[(0,0), (0,1), (1,1)]` -/
example : findAllPy asciiTables #[97] (.alt .eps a) = [(0, 0), (0, 1), (1, 1)] := by decide
/-- … where `findAll` answers `[(0,0), (1,1)]`: the audit's point, and why the guards exist -/
theorem findAll_differs_on_nullable : findAll asciiTables #[97] (.alt .eps a) = [(0, 0), (1, 1)] := by decide
/-- `'a*'` on `'baac'` → `[(0,0), (1,3), (3,3), (4,4)]` (an empty match directly after a non-empty one is reported) -/
example : findAllPy asciiTables #[98, 97, 97, 99] (.repU a 0 true) = [(0, 0), (1, 3), (3, 3), (4, 4)] := by decide
/-- `'a*?b?'` on `'aab'` → `[(0,0), (0,1), (1,1), (1,3), (3,3)]` (backtracking into the lazy repeat for a non-empty end) -/
example : findAllPy asciiTables #[97, 97, 98] (.seq (.repU a 0 false) (.rep b 0 1 true)) =
    [(0, 0), (0, 1), (1, 1), (1, 3), (3, 3)] := by decide
/-- `'$|a'` on `'aa'` → `[(0,1), (1,2), (2,2)]` -/
example : findAllPy asciiTables #[97, 97] (.alt .eol a) = [(0, 1), (1, 2), (2, 2)] := by decide
/-- `''` on `'ab'` → `[(0,0), (1,1), (2,2)]`, both iterations -/
example : findAllPy asciiTables #[97, 98] .eps = [(0, 0), (1, 1), (2, 2)] ∧
    findAll asciiTables #[97, 98] .eps = [(0, 0), (1, 1), (2, 2)] := by decide

end RTV.Re
