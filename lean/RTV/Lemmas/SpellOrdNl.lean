import RTV.Model.SpellEu
import RTV.Model.NumCfg
/-! Dutch ordinals below 1000 (`spellOrdEu nlOrd`) against `getIntValue` with the regenerated Dutch maps: kernel
evaluation in chunks of 100, then the case split over the chunk index. Guard (what the faithful model gets right): none. -/
namespace RTV.Num

def nlOrdGuard (_ : Nat) : Bool := true

def nlOrdCheck (n : Nat) : Bool :=
  n == 0 || !nlOrdGuard n || decide (getIntValue true asciiDigits nl.lang (spellOrdEu nlOrd n).2 = .ok n)

def nlOrdChunk (k : Nat) : Bool := (List.range 100).all fun i => nlOrdCheck (100 * k + i)

theorem nl_o0 : nlOrdChunk 0 = true := by decide +kernel
theorem nl_o1 : nlOrdChunk 1 = true := by decide +kernel
theorem nl_o2 : nlOrdChunk 2 = true := by decide +kernel
theorem nl_o3 : nlOrdChunk 3 = true := by decide +kernel
theorem nl_o4 : nlOrdChunk 4 = true := by decide +kernel
theorem nl_o5 : nlOrdChunk 5 = true := by decide +kernel
theorem nl_o6 : nlOrdChunk 6 = true := by decide +kernel
theorem nl_o7 : nlOrdChunk 7 = true := by decide +kernel
theorem nl_o8 : nlOrdChunk 8 = true := by decide +kernel
theorem nl_o9 : nlOrdChunk 9 = true := by decide +kernel

theorem nl_ochunks (k : Nat) (hk : k < 10) : nlOrdChunk k = true := by
  match k, hk with
  | 0, _ => exact nl_o0
  | 1, _ => exact nl_o1
  | 2, _ => exact nl_o2
  | 3, _ => exact nl_o3
  | 4, _ => exact nl_o4
  | 5, _ => exact nl_o5
  | 6, _ => exact nl_o6
  | 7, _ => exact nl_o7
  | 8, _ => exact nl_o8
  | 9, _ => exact nl_o9
  | k + 10, h => omega

theorem nl_ord_all (n : Nat) (h1 : 1 ≤ n) (h : n < 1000) (hg : nlOrdGuard n = true) :
    getIntValue true asciiDigits nl.lang (spellOrdEu nlOrd n).2 = .ok n := by
  have hc := nl_ochunks (n / 100) (by omega)
  simp only [nlOrdChunk, List.all_eq_true, List.mem_range] at hc
  have := hc (n % 100) (Nat.mod_lt _ (by decide))
  have e : 100 * (n / 100) + n % 100 = n := Nat.div_add_mod n 100
  rw [e] at this
  have hz : (n == 0) = false := by simp; omega
  simpa [nlOrdCheck, hg, hz] using this

end RTV.Num
