import RTV.Model.DtExtract
/-! Helper definitions (hypothesis bundles) and lemmas for `RTV.Props.C01DtExtract`. -/
namespace RTV.DtExtract
open RTV.Py RTV.Span

/-- a property of an optional fact (`True` when absent). -/
def optP {α : Type} (o : Option α) (p : α → Prop) : Prop :=
  match o with
  | some a => p a
  | none => True

instance {α : Type} (o : Option α) (p : α → Prop) [∀ a, Decidable (p a)] : Decidable (optP o p) := by
  unfold optP; cases o <;> infer_instance

theorem optP_some {α : Type} {o : Option α} {p : α → Prop} (h : optP o p) {a : α} (ha : o = some a) : p a := by
  subst ha; exact h

/-- the facts of one validated `basic_regex_match` match are what the engine can produce on a text of length `n`:
the first occurrence of the matched text is not after the match, the relative-term match lies in `source[0:idx]`. -/
def BasicOK (n : Int) (f : BasicFact) : Prop :=
  0 ≤ f.idx ∧ f.idx ≤ f.m.s ∧ f.m.In n ∧ optP f.rel (fun c => c.In f.idx)

instance (n : Int) (f : BasicFact) : Decidable (BasicOK n f) := by unfold BasicOK; infer_instance

/-- `year_suffix.match(affix)` is a `regex.match`: anchored at 0, inside the affix. -/
def YearOK (L : Int) (y : YearIdx) : Prop := optP y.m (fun m => m.s = 0 ∧ m.In L)

instance (L : Int) (y : YearIdx) : Decidable (YearOK L y) := by unfold YearOK; infer_instance

/-- facts of `extend_with_week_day_and_year(si, ei, …)` on a text of length `n`; the last conjunct is the guard: the
year extension and the week-day-in-suffix extension do not BOTH fire (both are measured from the same old suffix). -/
def ExtOK (n si ei : Int) (e : ExtFacts) : Prop :=
  YearOK (n - ei) e.y1 ∧ optP e.wdEnd (fun m => m.In si) ∧ optP e.wdStart (fun m => m.In (n - ei)) ∧
  ((getYearIndex e.y1 false).1 = 0 ∨ e.wdEnd.isSome ∨ e.wdStart.isNone ∨ e.agree = false)

instance (n si ei : Int) (e : ExtFacts) : Decidable (ExtOK n si ei e) := by unfold ExtOK; infer_instance

theorem getYearIndex_suffix (L : Int) (y : YearIdx) (h : YearOK L y) :
    (getYearIndex y false).2 = true ∧ 0 ≤ (getYearIndex y false).1 ∧ (getYearIndex y false).1 ≤ L ∨
    (L < 0 ∧ y.m = none ∧ (getYearIndex y false).2 = true ∧ (getYearIndex y false).1 = 0) := by
  unfold getYearIndex
  cases hm : y.m with
  | none =>
    by_cases hL : 0 ≤ L
    · left; simp; exact hL
    · right; simp; omega
  | some m =>
    left
    have := optP_some h hm
    obtain ⟨h0, _, h2, h3⟩ := this
    simp [h0]
    split <;> omega

theorem extendWdYear_bounds (n si ei : Int) (e : ExtFacts) (h0 : 0 ≤ si) (h1 : si ≤ ei) (h2 : ei ≤ n)
    (h : ExtOK n si ei e) :
    0 ≤ (extendWdYear si ei e).1 ∧ (extendWdYear si ei e).1 ≤ si ∧ ei ≤ (extendWdYear si ei e).2 ∧
      (extendWdYear si ei e).2 ≤ n := by
  obtain ⟨hy, hwe, hws, hg⟩ := h
  have hyi := getYearIndex_suffix (n - ei) e.y1 hy
  have hsucc : (getYearIndex e.y1 false).2 = true := by
    rcases hyi with h | h
    · exact h.1
    · exact h.2.2.1
  have hb : 0 ≤ (getYearIndex e.y1 false).1 ∧ (getYearIndex e.y1 false).1 ≤ n - ei := by
    rcases hyi with h | h
    · exact ⟨h.2.1, h.2.2⟩
    · omega
  unfold extendWdYear
  simp only [hsucc, Bool.not_true, Bool.false_and, Bool.false_eq_true, ↓reduceIte]
  cases hwe' : e.wdEnd with
  | some m =>
    have hm := optP_some hwe hwe'
    obtain ⟨a, b, c⟩ := hm
    simp only
    split <;> (refine ⟨?_, ?_, ?_, ?_⟩ <;> simp only <;> omega)
  | none =>
    cases hws' : e.wdStart with
    | some m =>
      have hm := optP_some hws hws'
      obtain ⟨a, b, c⟩ := hm
      simp only
      split
      · -- the week day in the suffix is used: the guard says the year index is 0
        rename_i hag
        have hz : (getYearIndex e.y1 false).1 = 0 := by
          rcases hg with h | h | h | h
          · exact h
          · simp [hwe'] at h
          · simp [hws'] at h
          · simp [hag] at h
        refine ⟨?_, ?_, ?_, ?_⟩ <;> simp only <;> omega
      · refine ⟨?_, ?_, ?_, ?_⟩ <;> simp only <;> omega
    | none =>
      simp only
      refine ⟨?_, ?_, ?_, ?_⟩ <;> omega

/-- everything `number_with_month` sees for one number result is what the engine / the number extractors can
produce on a text of length `n`. -/
def NwmOK (n : Int) (f : NwmFacts) : Prop :=
  0 ≤ f.start ∧ 0 ≤ f.len ∧ f.start + f.len ≤ n ∧
  optP f.monthEnd (fun m => m.In f.start ∧ ExtOK n m.s (m.s + (m.e - m.s) + f.len) f.ext1) ∧
  (∀ x ∈ f.forThe, x.1.In n ∧ 0 ≤ x.2.1 ∧ x.2.1 ≤ x.1.e - x.1.s) ∧
  (∀ x ∈ f.wdDom, x.1.In n) ∧ (∀ m ∈ f.wdDay, m.In n) ∧
  0 ≤ f.spaceLen ∧ f.spaceLen ≤ n - (f.start + f.len) ∧
  optP f.relMonth (fun m => m.In (n - (f.start + f.len) - f.spaceLen)) ∧
  optP f.prefixArt (fun m => m.In f.start) ∧
  optP f.weekDay (fun m => m.In (n - (f.start + f.len) - f.spaceLen)) ∧
  optP f.ofMonth (fun m => m.In (n - (f.start + f.len)) ∧ ExtOK n f.start (f.start + f.len + (m.e - m.s)) f.ext2)

theorem mem_filterMap_tok {α : Type} (l : List α) (g : α → Option Tok) (P : Tok → Prop)
    (h : ∀ x ∈ l, ∀ t, g x = some t → P t) : ∀ t ∈ l.filterMap g, P t := by
  intro t ht
  rw [List.mem_filterMap] at ht
  obtain ⟨x, hx, hg⟩ := ht
  exact h x hx t hg

theorem nwmFront_inside (n : Int) (f : NwmFacts) (h : NwmOK n f) : ∀ t ∈ (nwmFront f).1, t.Inside n := by
  obtain ⟨h0, h1, h2, hme, hft, hwd, hwdd, hs0, hs1, hrm, hpa, hwk, _⟩ := h
  unfold nwmFront
  split
  · intro t ht; cases ht
  · cases hm : f.monthEnd with
    | some m =>
      obtain ⟨hmi, hext⟩ := optP_some hme hm
      obtain ⟨a, b, c⟩ := hmi
      have hb := extendWdYear_bounds n m.s (m.s + (m.e - m.s) + f.len) f.ext1 a (by omega) (by omega) hext
      intro t ht
      simp only [List.mem_singleton] at ht
      subst ht
      unfold Tok.Inside
      simp only
      omega
    | none =>
      simp only
      split
      · apply mem_filterMap_tok
        intro x hx t ht
        split at ht
        · cases ht
          obtain ⟨⟨a, b, c⟩, d, e⟩ := hft x hx
          unfold Tok.Inside; simp only; omega
        · cases ht
      · split
        · apply mem_filterMap_tok
          intro x hx t ht
          split at ht
          · cases ht
            obtain ⟨a, b, c⟩ := hwd x hx
            exact ⟨a, b, c⟩
          · cases ht
        · split
          · apply mem_filterMap_tok
            intro m hx t ht
            split at ht
            · cases ht
              obtain ⟨a, b, c⟩ := hwdd m hx
              exact ⟨a, b, c⟩
            · cases ht
          · intro t ht
            simp only [List.mem_append] at ht
            rcases ht with ht | ht
            · cases hr : f.relMonth with
              | none => simp [hr] at ht
              | some m =>
                obtain ⟨a, b, c⟩ := optP_some hrm hr
                simp only [hr] at ht
                split at ht
                · simp only [List.mem_singleton] at ht
                  subst ht
                  cases hp : f.prefixArt with
                  | none => unfold Tok.Inside; simp only; omega
                  | some p =>
                    obtain ⟨a', b', c'⟩ := optP_some hpa hp
                    unfold Tok.Inside; simp only; omega
                · cases ht
            · cases hw : f.weekDay with
              | none => simp [hw] at ht
              | some m =>
                obtain ⟨a, b, c⟩ := optP_some hwk hw
                simp only [hw] at ht
                split at ht
                · simp only [List.mem_singleton] at ht
                  subst ht
                  unfold Tok.Inside; simp only; omega
                · cases ht

/-- `get_ago_later_index(after, …, True)` yields an index inside `after`; the term indices are whatever they are
(the code itself tests `er.start >= index`). -/
def AgoOK (n : Int) (f : AgoFacts) : Prop :=
  f.er.In n ∧ (f.ago.1.matched = true → 0 ≤ f.ago.1.index ∧ f.ago.1.index ≤ n - (f.er.start + f.er.len)) ∧
  (f.later.1.matched = true → 0 ≤ f.later.1.index ∧ f.later.1.index ≤ n - (f.er.start + f.er.len))

theorem agoLaterNew_inside' (n : Int) (f : AgoFacts) (h : AgoOK n f) : ∀ t ∈ agoLaterNew n f, t.Inside n := by
  obtain ⟨⟨e0, e1, e2⟩, ha, hl⟩ := h
  have term : ∀ (index : Int) (unit : Bool), 0 < index →
      ∀ t ∈ (if (!unit && decide (f.er.start ≥ index)) = true then
        [(⟨f.er.start - index, f.er.start + f.er.len⟩ : Tok)] else []), t.Inside n := by
    intro index unit hi t ht
    split at ht
    · rename_i hc
      simp only [Bool.and_eq_true, decide_eq_true_eq] at hc
      simp only [List.mem_singleton] at ht
      subst ht
      unfold Tok.Inside; simp only; omega
    · cases ht
  unfold agoLaterNew
  simp only
  by_cases hpos : f.er.start + f.er.len ≤ n
  · simp only [hpos, ↓reduceIte]
    by_cases hc1 : (f.ago.1.matched && !(f.isTime && f.ago.2)) = true
    · simp only [hc1, ↓reduceIte]
      simp only [Bool.and_eq_true] at hc1
      have := ha hc1.1
      intro t ht
      simp only [List.mem_singleton] at ht
      subst ht
      unfold Tok.Inside; simp only; omega
    · simp only [hc1, Bool.false_eq_true, ↓reduceIte]
      by_cases hc2 : (f.later.1.matched && !(f.isTime && f.later.2)) = true
      · simp only [hc2, ↓reduceIte]
        simp only [Bool.and_eq_true] at hc2
        have := hl hc2.1
        intro t ht
        simp only [List.mem_singleton] at ht
        subst ht
        unfold Tok.Inside; simp only; omega
      · simp only [hc2, Bool.false_eq_true, ↓reduceIte]
        split
        · rename_i hi
          exact term _ _ hi
        · split
          · rename_i hi
            exact term _ _ hi
          · intro t ht; cases ht
  · simp only [hpos, ↓reduceIte]
    intro t ht; cases ht

theorem relDurLoop_inside' (n : Int) (ds : List DurFact) (acc : List Tok) (hacc : ∀ t ∈ acc, t.Inside n)
    (h : ∀ d ∈ ds, AgoOK n d.ago) : ∀ t ∈ relDurLoop n ds acc, t.Inside n := by
  induction ds generalizing acc with
  | nil => simpa [relDurLoop] using hacc
  | cons d rest ih =>
    unfold relDurLoop
    split
    · exact hacc
    · split
      · apply ih
        · intro t ht
          simp only [agoLater, List.mem_append] at ht
          have hn := agoLaterNew_inside' n d.ago (h d (by simp))
          rcases ht with (ht | ht) | (ht | ht)
          · exact hacc t ht
          · exact hn t ht
          · exact hacc t ht
          · exact hn t ht
        · intro d' hd'; exact h d' (by simp [hd'])
      · exact ih acc hacc (fun d' hd' => h d' (by simp [hd']))

/-! ### merge_multiple_duration -/

/-- extractions are inside the text and ordered (they come out of `merge_all_tokens`). -/
def MmSorted (n : Int) : List MmItem → Prop
  | [] => True
  | [a] => a.ent.In n
  | a :: b :: rest => a.ent.In n ∧ a.ent.start + a.ent.len ≤ b.ent.start ∧ MmSorted n (b :: rest)

theorem MmSorted_tail (n : Int) (a : MmItem) (l : List MmItem) (h : MmSorted n (a :: l)) : MmSorted n l := by
  cases l with
  | nil => trivial
  | cons b rest => exact h.2.2

theorem MmSorted_head (n : Int) (a : MmItem) (l : List MmItem) (h : MmSorted n (a :: l)) : a.ent.In n := by
  cases l with
  | nil => exact h
  | cons b rest => exact h.1

/-- every element of a sorted list starts at or after the end of the head. -/
theorem MmSorted_after (n : Int) (a : MmItem) (l : List MmItem) (h : MmSorted n (a :: l)) :
    ∀ b ∈ l, a.ent.start + a.ent.len ≤ b.ent.start ∧ b.ent.In n := by
  induction l generalizing a with
  | nil => intro b hb; cases hb
  | cons c rest ih =>
    intro b hb
    obtain ⟨ha, hac, hrest⟩ := h
    simp only [List.mem_cons] at hb
    rcases hb with rfl | hb
    · exact ⟨hac, MmSorted_head n b rest hrest⟩
    · have := ih c hrest b hb
      have hc := MmSorted_head n c rest hrest
      obtain ⟨c0, c1, c2⟩ := hc
      exact ⟨by omega, this.2⟩

theorem mmScan_spec (n : Int) (lo : Int) (cur k : Nat) (last : Ent) (l : List MmItem)
    (hl : last.In n) (hlo : lo ≤ last.start + last.len)
    (hs : ∀ b ∈ l, lo ≤ b.ent.start ∧ b.ent.In n) (hsort : ∀ a, MmSorted n (a :: l) → True) :
    (mmScan cur k last l).2.1.In n ∧ lo ≤ (mmScan cur k last l).2.1.start + (mmScan cur k last l).2.1.len ∧
      (∀ b ∈ (mmScan cur k last l).2.2, b ∈ l) := by
  induction l generalizing cur k last with
  | nil => simp [mmScan]; exact ⟨hl, hlo⟩
  | cons it rest ih =>
    unfold mmScan
    have hit := hs it (by simp)
    split
    · split
      · split
        · rename_i v _ _
          have := ih (if v < cur then v else cur) (k + 1) it.ent hit.2 (by obtain ⟨a, b, c⟩ := hit.2; omega)
            (fun b hb => hs b (by simp [hb])) (fun _ _ => trivial)
          exact ⟨this.1, this.2.1, fun b hb => by simp [this.2.2 b hb]⟩
        · exact ⟨hl, hlo, fun b hb => hb⟩
      · exact ⟨hl, hlo, fun b hb => hb⟩
    · exact ⟨hl, hlo, fun b hb => hb⟩

theorem mmScan_suffix (cur k : Nat) (last : Ent) (l : List MmItem) :
    ∃ pre, l = pre ++ (mmScan cur k last l).2.2 := by
  induction l generalizing cur k last with
  | nil => exact ⟨[], by simp [mmScan]⟩
  | cons it rest ih =>
    unfold mmScan
    split
    · split
      · split
        · rename_i v _ _
          obtain ⟨pre, hp⟩ := ih (if v < cur then v else cur) (k + 1) it.ent
          exact ⟨it :: pre, by simp only [List.cons_append]; congr 1⟩
        · exact ⟨[], rfl⟩
      · exact ⟨[], rfl⟩
    · exact ⟨[], rfl⟩

theorem MmSorted_suffix (n : Int) (pre l : List MmItem) (h : MmSorted n (pre ++ l)) : MmSorted n l := by
  induction pre with
  | nil => exact h
  | cons a rest ih => exact ih (MmSorted_tail n a _ h)

theorem mmGo_inside (n : Int) (fuel : Nat) (l : List MmItem) (h : MmSorted n l) : ∀ e ∈ mmGo fuel l, e.In n := by
  induction fuel generalizing l with
  | zero => intro e he; simp [mmGo] at he
  | succ fuel ih =>
    cases l with
    | nil => intro e he; simp [mmGo] at he
    | cons it rest =>
      unfold mmGo
      cases hu : it.unit with
      | none => simp only; exact ih rest (MmSorted_tail n it rest h)
      | some v =>
        simp only
        have hit := MmSorted_head n it rest h
        have hafter := MmSorted_after n it rest h
        have hspec := mmScan_spec n (it.ent.start + it.ent.len) v 0 it.ent rest hit (by omega)
          (fun b hb => hafter b hb) (fun _ _ => trivial)
        obtain ⟨pre, hpre⟩ := mmScan_suffix v 0 it.ent rest
        have hrest : MmSorted n (mmScan v 0 it.ent rest).2.2 := by
          have h1 := MmSorted_tail n it rest h
          rw [hpre] at h1
          exact MmSorted_suffix n pre _ h1
        intro e he
        simp only [List.mem_cons] at he
        rcases he with rfl | he
        · split
          · obtain ⟨a, b, c⟩ := hspec.1
            obtain ⟨a', b', c'⟩ := hit
            have := hspec.2.1
            unfold Ent.In; simp only; omega
          · exact hit
        · exact ih _ hrest e he

end RTV.DtExtract
