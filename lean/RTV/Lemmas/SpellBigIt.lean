import RTV.Lemmas.SpellBigG
import RTV.Lemmas.SpellIt
/-! Italian: the side facts of the guarded lift `top_value` for every group 1..999 (kernel evaluation on the regenerated
maps in chunks of 100): in last position and in front of a scale noun the stand-alone form (guard: no accented `-tré`),
in front of `-mila` the compound form (`ventitremila`, no guard); the scale-word table (`milione`, `miliardo`, `bilione`,
all regular: `un` + noun are two tokens and the noun is an end word); the lift to every `n < 10^15` under `itBigGuard`. -/
namespace RTV.Num
open RTV.Py

def itAll (_ : Nat) : Bool := true

def itTChunk (j : Nat) : Bool :=
  (List.range 100).all fun i =>
    (100 * j + i == 0 || !itGuard (100 * j + i) ||
      (lastFact itTop it.lang (100 * j + i) &&
        (decide (100 * j + i < 2) || multSFact itTop it.lang (100 * j + i)))) &&
    (decide (100 * j + i < 2) || multKFact itTop it.lang (100 * j + i))

theorem it_t0 : itTChunk 0 = true := by decide +kernel
theorem it_t1 : itTChunk 1 = true := by decide +kernel
theorem it_t2 : itTChunk 2 = true := by decide +kernel
theorem it_t3 : itTChunk 3 = true := by decide +kernel
theorem it_t4 : itTChunk 4 = true := by decide +kernel
theorem it_t5 : itTChunk 5 = true := by decide +kernel
theorem it_t6 : itTChunk 6 = true := by decide +kernel
theorem it_t7 : itTChunk 7 = true := by decide +kernel
theorem it_t8 : itTChunk 8 = true := by decide +kernel
theorem it_t9 : itTChunk 9 = true := by decide +kernel

theorem it_tchunks (j : Nat) (hj : j < 10) : itTChunk j = true := by
  match j, hj with
  | 0, _ => exact it_t0
  | 1, _ => exact it_t1
  | 2, _ => exact it_t2
  | 3, _ => exact it_t3
  | 4, _ => exact it_t4
  | 5, _ => exact it_t5
  | 6, _ => exact it_t6
  | 7, _ => exact it_t7
  | 8, _ => exact it_t8
  | 9, _ => exact it_t9
  | j + 10, h => omega

theorem it_tfacts (x : Nat) (h1 : 1 ≤ x) (h2 : x < 1000) :
    (itGuard x = true → lastFact itTop it.lang x = true ∧ (2 ≤ x → multSFact itTop it.lang x = true)) ∧
    (2 ≤ x → multKFact itTop it.lang x = true) := by
  have hc := it_tchunks (x / 100) (by omega)
  simp only [itTChunk, List.all_eq_true, List.mem_range] at hc
  have := hc (x % 100) (Nat.mod_lt _ (by decide))
  have e : 100 * (x / 100) + x % 100 = x := Nat.div_add_mod x 100
  rw [e] at this
  have hz : (x == 0) = false := by simp; omega
  simp only [hz, Bool.false_or, Bool.and_eq_true, Bool.or_eq_true, Bool.not_eq_true', decide_eq_true_eq] at this
  obtain ⟨a, b⟩ := this
  refine ⟨fun hg => ?_, fun h2' => ?_⟩
  · rcases a with a | ⟨a1, a2⟩
    · rw [hg] at a; cases a
    · refine ⟨a1, fun h2' => ?_⟩
      rcases a2 with a2 | a2
      · omega
      · exact a2
  · rcases b with b | b
    · omega
    · exact b

theorem it_word_mila : lookup it.lang.round itTop.wordK = some 1000 := by decide +kernel
theorem it_word_mille : lookup it.lang.round [109, 105, 108, 108, 101] = some 1000 := by decide +kernel

theorem it_topHyps : TopHyps itTop it.lang itGuard itAll itGuard where
  zero := it_all 0 (by decide) rfl
  last := fun u h1 h2 hg => ((it_tfacts u h1 h2).1 hg).1
  multK := fun k h1 h2 _ => (it_tfacts k (by omega) h2).2 h1
  multS := fun g h1 h2 hg => ((it_tfacts g (by omega) h2).1 hg).2 h1
  wordK := it_word_mila
  oneK := ⟨_, rfl, it_word_mille⟩

theorem it_scales : scales2OK it.lang 1000000000000000 itScales = true := by decide +kernel

/-- the exact guard: neither the last group nor a multiplier of `milioni` / `miliardi` / `bilioni` ends in an accented
`-tré` (23, 33, …, 93 as last two digits); the multiplier of `-mila` is free (`ventitremila`) -/
def itBigGuard (n : Nat) : Bool :=
  itGuard (n % 1000) && itGuard (n / 1000000 % 1000) && itGuard (n / 1000000000 % 1000) && itGuard (n / 1000000000000)

/-- **Italian**, every `n < 10^15` under the guard -/
theorem it_big (n : Nat) (hn : n < 1000000000000000) (hg : itBigGuard n = true) :
    getIntValue true asciiDigits it.lang (spellTop itTop itScales n).2 = .ok n := by
  simp only [itBigGuard, Bool.and_eq_true] at hg
  obtain ⟨⟨⟨gu, gm⟩, gb⟩, gt⟩ := hg
  refine top_value itTop it.lang itGuard itAll itGuard 1000000000000000 itScales it_topHyps it_scales n hn ?_
  have e1 : n % 1000000000000 / 1000000000 = n / 1000000000 % 1000 := by omega
  have e2 : n % 1000000000000 % 1000000000 / 1000000 = n / 1000000 % 1000 := by omega
  have e3 : n % 1000000000000 % 1000000000 % 1000000 % 1000 = n % 1000 := by omega
  simp only [restGuard, lowGuard, itScales, itAll, e1, e2, e3, Bool.or_true, Bool.and_true, Bool.and_eq_true,
    Bool.or_eq_true, decide_eq_true_eq, beq_iff_eq]
  exact ⟨Or.inr gt, Or.inr gb, Or.inr gm, Or.inr gu⟩

end RTV.Num
