import RTV.Model.SpellEu
import RTV.Model.NumCfg
/-! German ordinals below 1000 (`spellOrdEu deOrd`) against `getIntValue` with the regenerated German maps: kernel
evaluation in chunks of 100, then the case split over the chunk index. Guard (what the faithful model gets right): none. -/
namespace RTV.Num

def deOrdGuard (_ : Nat) : Bool := true

def deOrdCheck (n : Nat) : Bool :=
  n == 0 || !deOrdGuard n || decide (getIntValue true asciiDigits de.lang (spellOrdEu deOrd n).2 = .ok n)

def deOrdChunk (k : Nat) : Bool := (List.range 100).all fun i => deOrdCheck (100 * k + i)

theorem de_o0 : deOrdChunk 0 = true := by decide +kernel
theorem de_o1 : deOrdChunk 1 = true := by decide +kernel
theorem de_o2 : deOrdChunk 2 = true := by decide +kernel
theorem de_o3 : deOrdChunk 3 = true := by decide +kernel
theorem de_o4 : deOrdChunk 4 = true := by decide +kernel
theorem de_o5 : deOrdChunk 5 = true := by decide +kernel
theorem de_o6 : deOrdChunk 6 = true := by decide +kernel
theorem de_o7 : deOrdChunk 7 = true := by decide +kernel
theorem de_o8 : deOrdChunk 8 = true := by decide +kernel
theorem de_o9 : deOrdChunk 9 = true := by decide +kernel

theorem de_ochunks (k : Nat) (hk : k < 10) : deOrdChunk k = true := by
  match k, hk with
  | 0, _ => exact de_o0
  | 1, _ => exact de_o1
  | 2, _ => exact de_o2
  | 3, _ => exact de_o3
  | 4, _ => exact de_o4
  | 5, _ => exact de_o5
  | 6, _ => exact de_o6
  | 7, _ => exact de_o7
  | 8, _ => exact de_o8
  | 9, _ => exact de_o9
  | k + 10, h => omega

theorem de_ord_all (n : Nat) (h1 : 1 ≤ n) (h : n < 1000) (hg : deOrdGuard n = true) :
    getIntValue true asciiDigits de.lang (spellOrdEu deOrd n).2 = .ok n := by
  have hc := de_ochunks (n / 100) (by omega)
  simp only [deOrdChunk, List.all_eq_true, List.mem_range] at hc
  have := hc (n % 100) (Nat.mod_lt _ (by decide))
  have e : 100 * (n / 100) + n % 100 = n := Nat.div_add_mod n 100
  rw [e] at this
  have hz : (n == 0) = false := by simp; omega
  simpa [deOrdCheck, hg, hz] using this

end RTV.Num
