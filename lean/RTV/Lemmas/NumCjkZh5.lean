import RTV.Lemmas.NumCjk
/-! kernel evaluation of the typed `get_int_value` walk (int / binary64), numerals 5000..5999 -/
namespace RTV.NumCjk
theorem zh_l50 : zhLoopChunk 50 = true := by decide +kernel
theorem zh_l51 : zhLoopChunk 51 = true := by decide +kernel
theorem zh_l52 : zhLoopChunk 52 = true := by decide +kernel
theorem zh_l53 : zhLoopChunk 53 = true := by decide +kernel
theorem zh_l54 : zhLoopChunk 54 = true := by decide +kernel
theorem zh_l55 : zhLoopChunk 55 = true := by decide +kernel
theorem zh_l56 : zhLoopChunk 56 = true := by decide +kernel
theorem zh_l57 : zhLoopChunk 57 = true := by decide +kernel
theorem zh_l58 : zhLoopChunk 58 = true := by decide +kernel
theorem zh_l59 : zhLoopChunk 59 = true := by decide +kernel
end RTV.NumCjk
