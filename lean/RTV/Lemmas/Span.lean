import RTV.Model.Span
/-! Helper lemmas for `RTV.Model.Span` (C01, C12). -/
namespace RTV.Span
open RTV.Py

/-! ## runs -/

/-- invariant of the scan loop: every emitted run is non-empty, inside `[0, n]`, ends after the current
position, starts at the pending `start` (only if the current position is marked) or after the current position;
consecutive runs are separated by at least one unmarked position. -/
theorem runsGo_spec (f : Nat → Bool) (n : Nat) :
    ∀ fuel i start, i + fuel = n → start ≤ i →
      (∀ p ∈ runsGo f n fuel i start, 0 < p.2 ∧ p.1 + p.2 ≤ n ∧ i < p.1 + p.2 ∧
          ((p.1 = start ∧ f i = true) ∨ i < p.1)) ∧
      (runsGo f n fuel i start).Pairwise (fun a b => a.1 + a.2 < b.1) := by
  intro fuel
  induction fuel with
  | zero => intro i start _ _; simp [runsGo]
  | succ fuel ih =>
    intro i start hn hs
    unfold runsGo
    by_cases hfi : f i = true
    · simp only [hfi, Bool.not_true, Bool.false_eq_true, ↓reduceIte]
      by_cases hemit : (i + 1 == n || !f (i + 1)) = true
      · simp only [hemit, ↓reduceIte]
        have ih' := ih (i + 1) start (by omega) (by omega)
        have hrest : ∀ q ∈ runsGo f n fuel (i + 1) start, i + 1 < q.1 := by
          intro q hq
          simp only [Bool.or_eq_true, beq_iff_eq, Bool.not_eq_true'] at hemit
          rcases hemit with h | h
          · have : fuel = 0 := by omega
            subst this
            simp [runsGo] at hq
          · have := (ih'.1 q hq).2.2.2
            rcases this with ⟨_, h2⟩ | h2
            · rw [h] at h2; cases h2
            · exact h2
        constructor
        · intro p hp
          simp only [List.mem_cons] at hp
          rcases hp with rfl | hp
          · refine ⟨by simp; omega, by simp; omega, by simp; omega, Or.inl ⟨rfl, by first | exact hfi | trivial⟩⟩
          · have h1 := ih'.1 p hp
            have h2 := hrest p hp
            exact ⟨h1.1, h1.2.1, by omega, Or.inr (by omega)⟩
        · rw [List.pairwise_cons]
          refine ⟨?_, ih'.2⟩
          intro q hq
          have := hrest q hq
          simp only
          omega
      · simp only [hemit, Bool.false_eq_true, ↓reduceIte]
        have ih' := ih (i + 1) start (by omega) (by omega)
        simp only [Bool.or_eq_true, beq_iff_eq, Bool.not_eq_true', not_or, Bool.not_eq_false] at hemit
        refine ⟨?_, ih'.2⟩
        intro p hp
        have h1 := ih'.1 p hp
        refine ⟨h1.1, h1.2.1, by omega, ?_⟩
        rcases h1.2.2.2 with ⟨h2, _⟩ | h2
        · exact Or.inl ⟨h2, by first | exact hfi | trivial⟩
        · exact Or.inr (by omega)
    · simp only [Bool.not_eq_true] at hfi
      simp only [hfi, Bool.not_false, ↓reduceIte]
      have ih' := ih (i + 1) (i + 1) (by omega) (by omega)
      refine ⟨?_, ih'.2⟩
      intro p hp
      have h1 := ih'.1 p hp
      refine ⟨h1.1, h1.2.1, by omega, Or.inr ?_⟩
      rcases h1.2.2.2 with ⟨h2, _⟩ | h2 <;> omega

theorem runs_bounds (f : Nat → Bool) (n : Nat) :
    ∀ p ∈ runs f n, 0 < p.2 ∧ p.1 + p.2 ≤ n :=
  fun p hp => let h := (runsGo_spec f n n 0 0 (by omega) (by omega)).1 p hp; ⟨h.1, h.2.1⟩

theorem runs_separated (f : Nat → Bool) (n : Nat) :
    (runs f n).Pairwise (fun a b => a.1 + a.2 < b.1) :=
  (runsGo_spec f n n 0 0 (by omega) (by omega)).2


/-! ## sweeps -/

theorem filterAmbiguity_sublist (ambs : List (List (Nat × Nat))) (ers : List ER) :
    (filterAmbiguity ambs ers).Sublist ers := by
  unfold filterAmbiguity
  induction ambs generalizing ers with
  | nil => simp
  | cons a rest ih =>
    simp only [List.foldl_cons]
    exact (ih _).trans List.filter_sublist

/-- what `numExtract` makes of one run -/
def numOne (sp : Nat → Bool) (src : Str) (ms : List M) (neg : Nat → Option (Nat × Nat)) (p : Nat × Nat) : Option ER :=
  match srcMatch ms p.1 p.2 with
  | none => none
  | some m =>
    match neg p.1 with
    | some (a, b) => some ⟨a, p.2 + b - a, strip sp (sl src a (p.2 + b - a)), m.tag⟩
    | none => some ⟨p.1, p.2, strip sp (sl src p.1 p.2), m.tag⟩

theorem numExtract_sublist (sp : Nat → Bool) (src : Str) (ms : List M) (neg : Nat → Option (Nat × Nat))
    (ambs : List (List (Nat × Nat))) :
    (numExtract sp src ms neg ambs).Sublist ((runs (matchedAt ms) src.length).filterMap (numOne sp src ms neg)) := by
  unfold numExtract
  split
  · simp
  · refine (filterAmbiguity_sublist _ _).trans ?_
    have : ∀ (l₁ l₂ : List ER), l₁ = l₂ → l₁.Sublist l₂ := fun _ _ h => h ▸ List.Sublist.refl _
    apply this
    congr 1

/-- the negative-term search looks at `source[0:start]`: a match lies inside it. -/
def NegInside (neg : Nat → Option (Nat × Nat)) : Prop := ∀ s a b, neg s = some (a, b) → a ≤ b ∧ b ≤ s

/-- the negative-term match does not reach back into an earlier run of matched characters. -/
def NegClear (neg : Nat → Option (Nat × Nat)) (rs : List (Nat × Nat)) : Prop :=
  ∀ s a b, neg s = some (a, b) → ∀ p ∈ rs, p.1 + p.2 ≤ s → p.1 + p.2 ≤ a

theorem numOne_span (sp : Nat → Bool) (src : Str) (ms : List M) (neg : Nat → Option (Nat × Nat))
    (hneg : NegInside neg) (p : Nat × Nat) (hp : 0 < p.2 ∧ p.1 + p.2 ≤ src.length) (e : ER)
    (he : numOne sp src ms neg p = some e) :
    0 < e.len ∧ e.start + e.len ≤ p.1 + p.2 ∧ e.start ≤ p.1 ∧ e.text = strip sp (sl src e.start e.len) ∧
      (neg p.1 = none → e.start = p.1 ∧ e.len = p.2) ∧ (∀ a b, neg p.1 = some (a, b) → e.start = a) := by
  unfold numOne at he
  split at he
  · cases he
  · split at he
    · rename_i a b hab
      have := hneg _ _ _ hab
      cases he
      refine ⟨by simp; omega, by simp; omega, by simp; omega, rfl, ?_, ?_⟩
      · intro h; rw [h] at hab; cases hab
      · intro a' b' h; rw [h] at hab; cases hab; rfl
    · rename_i hnone
      cases he
      refine ⟨hp.1, by simp, by simp, rfl, fun _ => ⟨rfl, rfl⟩, ?_⟩
      intro a b h; rw [h] at hnone; cases hnone

/-- what the sequence / IP sweeps make of one run -/
def seqOne (sp : Nat → Bool) (src : Str) (ms : List M) (p : Nat × Nat) : Option ER :=
  match srcMatch ms p.1 p.2 with
  | none => none
  | some m => some ⟨p.1, p.2, strip sp (sl src p.1 p.2), m.tag⟩

theorem seqOne_span (sp : Nat → Bool) (src : Str) (ms : List M) (p : Nat × Nat) (e : ER)
    (he : seqOne sp src ms p = some e) :
    e.start = p.1 ∧ e.len = p.2 ∧ e.text = strip sp (sl src p.1 p.2) ∧
      ∃ m ∈ ms, m.start = p.1 ∧ m.len = p.2 ∧ m.tag = e.tag := by
  unfold seqOne at he
  split at he
  · cases he
  · rename_i m hm
    cases he
    refine ⟨rfl, rfl, rfl, m, ?_⟩
    unfold srcMatch at hm
    have h1 := List.mem_of_find?_eq_some hm
    have h2 := List.find?_some hm
    simp only [Bool.and_eq_true, beq_iff_eq] at h2
    exact ⟨h1, h2.1, h2.2, rfl⟩

theorem seqExtract_eq (sp : Nat → Bool) (src : Str) (ms : List M) :
    seqExtract sp src ms = if src.isEmpty then [] else (runs (matchedAt ms) src.length).filterMap (seqOne sp src ms) := by
  unfold seqExtract
  split
  · rfl
  · congr 1

theorem ipExtractWith_eq (sp : Nat → Bool) (skip : Nat → Nat → Bool) (src : Str) (ms : List M) :
    ipExtractWith sp skip src ms = if src.isEmpty then [] else
      (runs (matchedAt ms) src.length).filterMap (fun p => if skip p.1 p.2 then none else seqOne sp src ms p) := by
  unfold ipExtractWith
  split
  · rfl
  · congr 1

/-- generic: a `filterMap` over separated runs whose outputs stay inside their run is pairwise disjoint
(in order, with the later one starting at or after the earlier one's end). -/
theorem pairwise_filterMap_runs (rs : List (Nat × Nat)) (g : Nat × Nat → Option ER)
    (hsep : rs.Pairwise (fun a b => a.1 + a.2 < b.1))
    (hg : ∀ p ∈ rs, ∀ e, g p = some e → e.start + e.len ≤ p.1 + p.2)
    (hlo : ∀ p ∈ rs, ∀ q ∈ rs, p.1 + p.2 < q.1 → ∀ e, g q = some e → p.1 + p.2 ≤ e.start) :
    (rs.filterMap g).Pairwise (fun a b => a.start + a.len ≤ b.start) := by
  rw [List.pairwise_filterMap]
  have : rs.Pairwise (fun a b => a ∈ rs ∧ b ∈ rs ∧ a.1 + a.2 < b.1) := by
    rw [List.pairwise_iff_forall_sublist] at hsep ⊢
    intro a b hab
    have ha : a ∈ rs := hab.subset (by simp)
    have hb : b ∈ rs := hab.subset (by simp)
    exact ⟨ha, hb, hsep hab⟩
  refine this.imp ?_
  intro a b ⟨ha, hb, hlt⟩ ea hea eb heb
  have h1 := hg a ha ea hea
  have h2 := hlo a ha b hb hlt eb heb
  omega


/-! ## merge_all_tokens -/

/-- merged tokens are strictly ordered by start and each ends before the next starts -/
def TkOrd (a b : Tk) : Prop := a.start < b.start ∧ a.stop ≤ b.start

theorem mergeInto_spec (t : Tk) (ht : t.start ≤ t.stop) :
    ∀ merged : List Tk, merged.Pairwise TkOrd → (∀ m ∈ merged, m.start ≤ t.start ∧ m.start ≤ m.stop) →
      (mergeInto merged t).1.Pairwise TkOrd ∧
      (∀ x ∈ (mergeInto merged t).1, x ∈ merged ∨ (x = t ∧ ∃ m' ∈ merged, m'.start = t.start)) ∧
      ((mergeInto merged t).2 = true → ∀ x ∈ (mergeInto merged t).1, x.start < t.start ∧ x.stop ≤ t.start) := by
  intro merged
  induction merged with
  | nil => intro _ _; simp [mergeInto]
  | cons m rest ih =>
    intro hpw hb
    rw [List.pairwise_cons] at hpw
    have hm := hb m (by simp)
    unfold mergeInto
    simp only
    split
    · -- one of the three conditions fired at `m`
      rename_i hc
      refine ⟨?_, ?_, by simp⟩
      · split
        · rename_i h3
          simp only [Bool.and_eq_true, decide_eq_true_eq] at h3
          rw [List.pairwise_cons]
          refine ⟨?_, hpw.2⟩
          intro y hy
          have h1 := hpw.1 y hy
          have h2 := hb y (by simp [hy])
          unfold TkOrd at h1 ⊢
          omega
        · rw [List.pairwise_cons]; exact hpw
      · intro x hx
        split at hx
        · rename_i h3
          simp only [Bool.and_eq_true, decide_eq_true_eq] at h3
          simp only [List.mem_cons] at hx
          rcases hx with rfl | hx
          · exact Or.inr ⟨rfl, m, by simp, by omega⟩
          · exact Or.inl (by simp [hx])
        · exact Or.inl hx
    · rename_i hc
      simp only [Bool.or_eq_true, Bool.and_eq_true, decide_eq_true_eq, not_or, not_and, Nat.not_le, Nat.not_lt] at hc
      have ih' := ih hpw.2 (fun y hy => hb y (by simp [hy]))
      refine ⟨?_, ?_, ?_⟩
      · rw [List.pairwise_cons]
        refine ⟨?_, ih'.1⟩
        intro y hy
        rcases ih'.2.1 y hy with h | ⟨rfl, m', hm', hs⟩
        · exact hpw.1 y h
        · have := hpw.1 m' hm'
          unfold TkOrd at this ⊢
          omega
      · intro x hx
        simp only [List.mem_cons] at hx
        rcases hx with rfl | hx
        · exact Or.inl (by simp)
        · rcases ih'.2.1 x hx with h | ⟨rfl, m', hm', hs⟩
          · exact Or.inl (by simp [h])
          · exact Or.inr ⟨rfl, m', by simp [hm'], hs⟩
      · intro hadd x hx
        simp only [List.mem_cons] at hx
        rcases hx with rfl | hx
        · omega
        · exact ih'.2.2 hadd x hx

/-- invariant of the outer loop -/
def TkInv (merged : List Tk) (bound : Nat) : Prop :=
  merged.Pairwise TkOrd ∧ ∀ m ∈ merged, m.start ≤ bound ∧ m.start ≤ m.stop

theorem mergeStep_inv (merged : List Tk) (t : Tk) (ht : t.start ≤ t.stop) (h : TkInv merged t.start) :
    TkInv (mergeStep merged t) t.start := by
  have hs := mergeInto_spec t ht merged h.1 h.2
  unfold mergeStep
  simp only
  have hmem : ∀ x ∈ (mergeInto merged t).1, x.start ≤ t.start ∧ x.start ≤ x.stop := by
    intro x hx
    rcases hs.2.1 x hx with h1 | ⟨rfl, _⟩
    · exact h.2 x h1
    · omega
  split
  · rename_i hadd
    refine ⟨?_, ?_⟩
    · rw [List.pairwise_append]
      refine ⟨hs.1, by simp, ?_⟩
      intro a ha b hb
      simp only [List.mem_singleton] at hb
      subst hb
      exact hs.2.2 hadd a ha
    · intro x hx
      simp only [List.mem_append, List.mem_singleton] at hx
      rcases hx with hx | rfl
      · exact hmem x hx
      · omega
  · exact ⟨hs.1, hmem⟩

theorem foldl_mergeStep_inv (l : List Tk) (hl : l.Pairwise (fun a b => a.start ≤ b.start))
    (hv : ∀ t ∈ l, t.start ≤ t.stop) :
    ∀ acc bound, TkInv acc bound → (∀ t ∈ l, bound ≤ t.start) → ∃ b', TkInv (l.foldl mergeStep acc) b' := by
  induction l with
  | nil => intro acc bound h _; exact ⟨bound, h⟩
  | cons t rest ih =>
    intro acc bound h hb
    rw [List.pairwise_cons] at hl
    simp only [List.foldl_cons]
    have h1 : TkInv acc t.start := ⟨h.1, fun m hm => ⟨Nat.le_trans (h.2 m hm).1 (hb t (by simp)), (h.2 m hm).2⟩⟩
    exact ih hl.2 (fun x hx => hv x (by simp [hx])) _ t.start (mergeStep_inv acc t (hv t (by simp)) h1)
      (fun x hx => hl.1 x hx)

theorem mem_insertTk (t x : Tk) (l : List Tk) : x ∈ insertTk t l ↔ x = t ∨ x ∈ l := by
  induction l with
  | nil => simp [insertTk]
  | cons y r ih =>
    unfold insertTk
    split
    · simp only [List.mem_cons, ih]
      constructor
      · rintro (h | h | h)
        · exact Or.inr (Or.inl h)
        · exact Or.inl h
        · exact Or.inr (Or.inr h)
      · rintro (h | h | h)
        · exact Or.inr (Or.inl h)
        · exact Or.inl h
        · exact Or.inr (Or.inr h)
    · simp [List.mem_cons]

theorem insertTk_sorted (t : Tk) (l : List Tk) (h : l.Pairwise (fun a b => a.start ≤ b.start)) :
    (insertTk t l).Pairwise (fun a b => a.start ≤ b.start) := by
  induction l with
  | nil => simp [insertTk]
  | cons y r ih =>
    rw [List.pairwise_cons] at h
    unfold insertTk
    split
    · rename_i hle
      rw [List.pairwise_cons]
      refine ⟨?_, ih h.2⟩
      intro z hz
      rcases (mem_insertTk t z r).1 hz with rfl | hz
      · exact hle
      · exact h.1 z hz
    · rename_i hgt
      rw [List.pairwise_cons, List.pairwise_cons]
      refine ⟨?_, h⟩
      intro z hz
      simp only [List.mem_cons] at hz
      rcases hz with rfl | hz
      · omega
      · have := h.1 z hz; omega

theorem sortTokens_spec (ts : List Tk) :
    (sortTokens ts).Pairwise (fun a b => a.start ≤ b.start) ∧ ∀ t, t ∈ sortTokens ts ↔ t ∈ ts := by
  unfold sortTokens
  have : ∀ (l acc : List Tk), acc.Pairwise (fun a b => a.start ≤ b.start) →
      (l.foldl (fun acc t => insertTk t acc) acc).Pairwise (fun a b => a.start ≤ b.start) ∧
      ∀ t, t ∈ l.foldl (fun acc t => insertTk t acc) acc ↔ t ∈ acc ∨ t ∈ l := by
    intro l
    induction l with
    | nil => intro acc h; simp [h]
    | cons x r ih =>
      intro acc h
      simp only [List.foldl_cons]
      have := ih (insertTk x acc) (insertTk_sorted x acc h)
      refine ⟨this.1, ?_⟩
      intro t
      rw [this.2 t, mem_insertTk]
      simp only [List.mem_cons]
      constructor
      · rintro ((h | h) | h)
        · exact Or.inr (Or.inl h)
        · exact Or.inl h
        · exact Or.inr (Or.inr h)
      · rintro (h | h | h)
        · exact Or.inl (Or.inr h)
        · exact Or.inl (Or.inl h)
        · exact Or.inr h
  have h := this ts [] (by simp)
  exact ⟨h.1, by intro t; rw [h.2 t]; simp⟩

theorem sortTokens_sorted (ts : List Tk) : (sortTokens ts).Pairwise (fun a b => a.start ≤ b.start) :=
  (sortTokens_spec ts).1

theorem mem_sortTokens (ts : List Tk) (t : Tk) : t ∈ sortTokens ts ↔ t ∈ ts := (sortTokens_spec ts).2 t

theorem mergeTokens_inv (ts : List Tk) (hv : ∀ t ∈ ts, t.start ≤ t.stop) : ∃ b, TkInv (mergeTokens ts) b := by
  unfold mergeTokens
  exact foldl_mergeStep_inv (sortTokens ts) (sortTokens_sorted ts)
    (fun t ht => hv t ((mem_sortTokens ts t).1 ht)) [] 0 ⟨by simp, by simp⟩ (by simp)


/-! ## overlap / cover / add_to -/

theorem overlap_iff (a b : ER) : overlap a b = true ↔ a.start < b.start + b.len ∧ b.start < a.start + a.len := by
  unfold overlap ER.end
  simp only [Bool.and_eq_true, Bool.not_eq_true', decide_eq_false_iff_not]
  omega

theorem not_overlap_iff_disjoint (a b : ER) : overlap a b = false ↔ Disjoint a b := by
  have := overlap_iff a b
  unfold Disjoint
  cases h : overlap a b
  · simp only [true_iff]
    rw [h] at this
    simp only [Bool.false_eq_true, false_iff] at this
    omega
  · rw [h] at this
    simp only [true_iff] at this
    simp only [Bool.true_eq_false, false_iff]
    omega

theorem Disjoint.symm {a b : ER} (h : Disjoint a b) : Disjoint b a := by
  unfold Disjoint at *; omega

/-- `d.cover(v)` says that `v` strictly covers `d` -/
theorem cover_iff (d v : ER) : cover d v = true ↔
    (v.start < d.start ∧ d.start + d.len ≤ v.start + v.len) ∨ (v.start ≤ d.start ∧ d.start + d.len < v.start + v.len) := by
  unfold cover ER.end
  simp only [Bool.or_eq_true, Bool.and_eq_true, decide_eq_true_eq]
  omega

theorem insertAtFirst_mem (p : ER → Bool) (v : ER) (l : List ER) (x : ER) (hx : x ∈ insertAtFirst p v l) :
    x = v ∨ (x ∈ l ∧ p x = false) := by
  induction l with
  | nil => simp [insertAtFirst] at hx
  | cons d r ih =>
    unfold insertAtFirst at hx
    split at hx
    · simp only [List.mem_cons, List.mem_filter, Bool.not_eq_true'] at hx
      rcases hx with rfl | ⟨h1, h2⟩
      · exact Or.inl rfl
      · exact Or.inr ⟨by simp [h1], h2⟩
    · rename_i hpd
      simp only [List.mem_cons] at hx
      rcases hx with rfl | hx
      · exact Or.inr ⟨by simp, by simpa using hpd⟩
      · rcases ih hx with h | ⟨h1, h2⟩
        · exact Or.inl h
        · exact Or.inr ⟨by simp [h1], h2⟩

theorem insertAtFirst_pairwise (p : ER → Bool) (v : ER) (l : List ER) (hl : l.Pairwise Disjoint)
    (hv : ∀ d ∈ l, p d = false → Disjoint d v) : (insertAtFirst p v l).Pairwise Disjoint := by
  induction l with
  | nil => simp [insertAtFirst]
  | cons d r ih =>
    rw [List.pairwise_cons] at hl
    unfold insertAtFirst
    split
    · rw [List.pairwise_cons]
      refine ⟨?_, hl.2.sublist List.filter_sublist⟩
      intro y hy
      simp only [List.mem_filter, Bool.not_eq_true'] at hy
      exact (hv y (by simp [hy.1]) hy.2).symm
    · rename_i hpd
      rw [List.pairwise_cons]
      refine ⟨?_, ih hl.2 (fun x hx => hv x (by simp [hx]))⟩
      intro y hy
      rcases insertAtFirst_mem p v r y hy with rfl | ⟨h1, _⟩
      · exact hv d (by simp) (by simpa using hpd)
      · exact hl.1 y h1

theorem addOne_disjoint (skip : ER → Bool) (dst : List ER) (v : ER) (hd : dst.Pairwise Disjoint)
    (hn : NoCrossing dst v) : (addOne skip dst v).Pairwise Disjoint := by
  unfold addOne
  split
  · exact hd
  · split
    · rename_i hnone
      simp only [Bool.not_eq_true', List.any_eq_false] at hnone
      rw [List.pairwise_append]
      refine ⟨hd, by simp, ?_⟩
      intro a ha b hb
      simp only [List.mem_singleton] at hb
      subst hb
      have := hnone a ha
      exact (not_overlap_iff_disjoint a b).1 (by simpa using this)
    · split
      · rename_i hsome
        simp only [List.any_eq_true, Bool.and_eq_true] at hsome
        apply insertAtFirst_pairwise _ _ _ hd
        intro d hd' hp
        have hall := hn (by obtain ⟨x, hx, h1, h2⟩ := hsome; exact ⟨x, hx, h1, h2⟩) d hd'
        apply (not_overlap_iff_disjoint d v).1
        cases ho : overlap d v
        · rfl
        · have := hall ho
          simp [ho, this] at hp
      · exact hd

theorem addTo_disjoint (skip : ER → Bool) (src : List ER) :
    ∀ dst, dst.Pairwise Disjoint → NoCrossingAll skip dst src → (addTo skip dst src).Pairwise Disjoint := by
  induction src with
  | nil => intro dst h _; simpa [addTo] using h
  | cons v rest ih =>
    intro dst hd hn
    unfold addTo
    simp only [List.foldl_cons]
    have h1 : (addOne skip dst v).Pairwise Disjoint := by
      cases hs : skip v
      · exact addOne_disjoint skip dst v hd (hn.1 hs)
      · unfold addOne; simp [hs, hd]
    exact ih _ h1 hn.2

/-! ## NumberWithUnit `b_add` filter -/

/-- a later result never contains (or equals) an earlier one -/
def NoContain (a b : MR) : Prop := ¬ (b.start ≤ a.start ∧ b.stop ≥ a.stop)

theorem nwuAdd_pairwise (acc : List MR) (m : MR) (h : acc.Pairwise NoContain) : (nwuAdd acc m).Pairwise NoContain := by
  unfold nwuAdd
  split
  · rename_i hb
    unfold bAdd at hb
    simp only [Bool.not_eq_true', List.any_eq_false, Bool.and_eq_true, decide_eq_true_eq] at hb
    rw [List.pairwise_append]
    refine ⟨h, by simp, ?_⟩
    intro a ha b hb'
    simp only [List.mem_singleton] at hb'
    subst hb'
    exact hb a ha
  · exact h

theorem foldl_nwuAdd_pairwise (l : List MR) : ∀ acc, acc.Pairwise NoContain → (l.foldl nwuAdd acc).Pairwise NoContain := by
  induction l with
  | nil => intro acc h; exact h
  | cons m rest ih => intro acc h; exact ih _ (nwuAdd_pairwise acc m h)

theorem nwuParseGo_pairwise (items : List (List MR)) :
    ∀ prs acc, acc.Pairwise NoContain → (nwuParseGo items prs acc).Pairwise NoContain := by
  induction items with
  | nil => intro prs acc h; exact h
  | cons it rest ih => intro prs acc h; exact ih _ _ (foldl_nwuAdd_pairwise _ _ h)


/-- neither result contains (or equals) the other -/
def NoNesting (a b : MR) : Prop :=
  ¬ (b.start ≤ a.start ∧ b.stop ≥ a.stop) ∧ ¬ (a.start ≤ b.start ∧ a.stop ≥ b.stop)

theorem nwuAddSym_pairwise (acc : List MR) (m : MR) (h : acc.Pairwise NoNesting) : (nwuAddSym acc m).Pairwise NoNesting := by
  unfold nwuAddSym
  split
  · rename_i hb
    unfold bAddSym at hb
    simp only [Bool.not_eq_true', List.any_eq_false, Bool.or_eq_true, Bool.and_eq_true, decide_eq_true_eq, not_or] at hb
    rw [List.pairwise_append]
    refine ⟨h, by simp, ?_⟩
    intro a ha b hb'
    simp only [List.mem_singleton] at hb'
    subst hb'
    exact hb a ha
  · exact h

theorem nwuParseGoSym_pairwise (items : List (List MR)) :
    ∀ prs acc, acc.Pairwise NoNesting → (nwuParseGoSym items prs acc).Pairwise NoNesting := by
  induction items with
  | nil => intro prs acc h; exact h
  | cons it rest ih =>
    intro prs acc h
    apply ih
    have : ∀ (l : List MR) (acc : List MR), acc.Pairwise NoNesting → (l.foldl nwuAddSym acc).Pairwise NoNesting := by
      intro l
      induction l with
      | nil => intro acc h; exact h
      | cons m r ih2 => intro acc h; exact ih2 _ (nwuAddSym_pairwise acc m h)
    exact this _ _ h

/-! ## percentage: position map -/

theorem maskGo_spec (own : Nat → Option Nat) (tok : Str) (n : Nat) :
    ∀ (rest : Str) (i : Nat) (prev : Option (Option Nat)), i + rest.length = n →
      (∀ c ∈ maskGo own tok i rest prev, i ≤ c.2 ∧ c.2 < n) ∧
      ((maskGo own tok i rest prev).map (·.2)).Pairwise (· ≤ ·) := by
  intro rest
  induction rest with
  | nil => intro i prev _; simp [maskGo]
  | cons c r ih =>
    intro i prev hn
    simp only [List.length_cons] at hn
    have ih' := fun pv => ih (i + 1) pv (by omega)
    have hcons : ∀ pv, (∀ x ∈ (c, i) :: maskGo own tok (i + 1) r pv, i ≤ x.2 ∧ x.2 < n) ∧
        (((c, i) :: maskGo own tok (i + 1) r pv).map (·.2)).Pairwise (· ≤ ·) := by
      intro pv
      refine ⟨?_, ?_⟩
      · intro x hx
        simp only [List.mem_cons] at hx
        rcases hx with rfl | hx
        · simp; omega
        · have := (ih' pv).1 x hx; omega
      · simp only [List.map_cons, List.pairwise_cons]
        refine ⟨?_, (ih' pv).2⟩
        intro y hy
        simp only [List.mem_map] at hy
        obtain ⟨x, hx, rfl⟩ := hy
        have := (ih' pv).1 x hx; omega
    have hskip : ∀ pv, (∀ x ∈ maskGo own tok (i + 1) r pv, i ≤ x.2 ∧ x.2 < n) := by
      intro pv x hx
      have := (ih' pv).1 x hx; omega
    have htok : ∀ pv, (∀ x ∈ tok.map (fun t => (t, i)) ++ maskGo own tok (i + 1) r pv, i ≤ x.2 ∧ x.2 < n) ∧
        ((tok.map (fun t => (t, i)) ++ maskGo own tok (i + 1) r pv).map (·.2)).Pairwise (· ≤ ·) := by
      intro pv
      refine ⟨?_, ?_⟩
      · intro x hx
        simp only [List.mem_append, List.mem_map] at hx
        rcases hx with ⟨t, _, rfl⟩ | hx
        · simp; omega
        · exact hskip pv x hx
      · simp only [List.map_append, List.map_map, List.pairwise_append]
        refine ⟨?_, (ih' pv).2, ?_⟩
        · rw [List.pairwise_map]
          exact List.pairwise_of_forall (by intro a b; simp)
        · intro a ha b hb
          simp only [List.mem_map, Function.comp] at ha hb
          obtain ⟨t, _, rfl⟩ := ha
          obtain ⟨x, hx, rfl⟩ := hb
          have := (ih' pv).1 x hx; omega
    unfold maskGo
    simp only
    split
    · split
      · exact hcons _
      · exact ⟨hskip _, (ih' _).2⟩
    · split
      · exact hcons _
      · exact htok _

theorem maskNumbers_spec (src : Str) (nums : List ER) (tok : Str) :
    (maskNumbers src nums tok).2.length = (maskNumbers src nums tok).1.length + 1 ∧
    (maskNumbers src nums tok).2.Pairwise (· ≤ ·) ∧ ∀ x ∈ (maskNumbers src nums tok).2, x ≤ src.length := by
  have h := maskGo_spec (owner nums) tok src.length src 0 none (by simp)
  unfold maskNumbers
  simp only
  refine ⟨by simp, ?_, ?_⟩
  · rw [List.pairwise_append]
    refine ⟨h.2, by simp, ?_⟩
    intro a ha b hb
    simp only [List.mem_map] at ha
    simp only [List.mem_singleton] at hb
    obtain ⟨x, hx, rfl⟩ := ha
    have := h.1 x hx; omega
  · intro x hx
    simp only [List.mem_append, List.mem_map, List.mem_singleton] at hx
    rcases hx with ⟨y, hy, rfl⟩ | rfl
    · have := h.1 y hy; omega
    · exact Nat.le_refl _

theorem pairwise_le_get (l : List Nat) (h : l.Pairwise (· ≤ ·)) (i j : Nat) (hij : i ≤ j) (a b : Nat)
    (ha : l[i]? = some a) (hb : l[j]? = some b) : a ≤ b := by
  by_cases heq : i = j
  · subst heq; rw [ha] at hb; cases hb; exact Nat.le_refl _
  · rw [List.pairwise_iff_getElem] at h
    rw [List.getElem?_eq_some_iff] at ha hb
    obtain ⟨hi, rfl⟩ := ha
    obtain ⟨hj, rfl⟩ := hb
    exact h i j hi hj (by omega)


theorem restore_spec (sp : Nat → Bool) (origin : Str) (pm : List Nat) (hpm : pm.Pairwise (· ≤ ·))
    (hhi : ∀ x ∈ pm, x ≤ origin.length) (e : ER) (he : e.start + e.len < pm.length) :
    ∃ os oe, pm[e.start]? = some os ∧ pm[e.start + e.len]? = some oe ∧ os ≤ oe ∧ oe ≤ origin.length ∧
      restore sp origin pm e = ⟨os, oe - os, strip sp (sl origin os (oe - os)), e.tag⟩ := by
  have h1 : e.start < pm.length := by omega
  refine ⟨pm[e.start], pm[e.start + e.len], by simp [h1], by simp [he], ?_, ?_, ?_⟩
  · exact pairwise_le_get pm hpm e.start (e.start + e.len) (by omega) _ _ (by simp [h1]) (by simp [he])
  · exact hhi _ (List.getElem_mem _)
  · unfold restore
    simp [h1, he]

/-- the list `pctExtract` maps `restore` over -/
def pctRaw (sp : Nat → Bool) (masked : Str) (ms : List M) : List ER :=
  (runs (matchedAt ms) masked.length).map fun (start, length) =>
    (⟨start, length, strip sp (sl masked start length), 0⟩ : ER)

theorem pctExtract_eq (sp : Nat → Bool) (origin : Str) (nums : List ER) (tok : Str) (ms : List M) :
    pctExtract sp origin nums tok ms =
      (pctRaw sp (maskNumbers origin nums tok).1 ms).map (restore sp origin (maskNumbers origin nums tok).2) := by
  rfl

theorem pctRaw_spec (sp : Nat → Bool) (masked : Str) (ms : List M) :
    (∀ e ∈ pctRaw sp masked ms, 0 < e.len ∧ e.start + e.len ≤ masked.length) ∧
    (pctRaw sp masked ms).Pairwise (fun a b => a.start + a.len < b.start) := by
  unfold pctRaw
  refine ⟨?_, ?_⟩
  · intro e he
    simp only [List.mem_map] at he
    obtain ⟨p, hp, rfl⟩ := he
    exact runs_bounds _ _ p hp
  · rw [List.pairwise_map]
    exact runs_separated _ _

theorem pctExtract_ordered (sp : Nat → Bool) (origin : Str) (nums : List ER) (tok : Str) (ms : List M) :
    (pctExtract sp origin nums tok ms).Pairwise (fun a b => a.start + a.len ≤ b.start) := by
  rw [pctExtract_eq]
  have hm := maskNumbers_spec origin nums tok
  have hr := pctRaw_spec sp (maskNumbers origin nums tok).1 ms
  rw [List.pairwise_map]
  have : (pctRaw sp (maskNumbers origin nums tok).1 ms).Pairwise
      (fun a b => a ∈ pctRaw sp (maskNumbers origin nums tok).1 ms ∧ b ∈ pctRaw sp (maskNumbers origin nums tok).1 ms ∧
        a.start + a.len < b.start) := by
    have h2 := hr.2
    rw [List.pairwise_iff_forall_sublist] at h2 ⊢
    intro a b hab
    exact ⟨hab.subset (by simp), hab.subset (by simp), h2 hab⟩
  refine this.imp ?_
  intro a b ⟨ha, hb, hlt⟩
  obtain ⟨osa, oea, _, ha2, ha3, _, hra⟩ := restore_spec sp origin _ hm.2.1 hm.2.2 a (by have := (hr.1 a ha).2; omega)
  obtain ⟨osb, oeb, hb1, _, hb3, _, hrb⟩ := restore_spec sp origin _ hm.2.1 hm.2.2 b (by have := (hr.1 b hb).2; omega)
  rw [hra, hrb]
  simp only
  have := pairwise_le_get _ hm.2.1 (a.start + a.len) b.start (by omega) _ _ ha2 hb1
  omega

/-! ## C01 helpers -/

theorem mergeInto_mem (t : Tk) : ∀ (merged : List Tk) (x : Tk), x ∈ (mergeInto merged t).1 → x ∈ merged ∨ x = t := by
  intro merged
  induction merged with
  | nil => intro x hx; simp [mergeInto] at hx
  | cons m rest ih =>
    intro x hx
    unfold mergeInto at hx
    simp only at hx
    split at hx
    · split at hx
      · simp only [List.mem_cons] at hx
        rcases hx with rfl | hx
        · exact Or.inr rfl
        · exact Or.inl (by simp [hx])
      · exact Or.inl hx
    · simp only [List.mem_cons] at hx
      rcases hx with rfl | hx
      · exact Or.inl (by simp)
      · rcases ih x hx with h | h
        · exact Or.inl (by simp [h])
        · exact Or.inr h

theorem mergeStep_mem (merged : List Tk) (t x : Tk) (hx : x ∈ mergeStep merged t) : x ∈ merged ∨ x = t := by
  unfold mergeStep at hx
  simp only at hx
  split at hx
  · simp only [List.mem_append, List.mem_singleton] at hx
    rcases hx with hx | rfl
    · exact mergeInto_mem t merged x hx
    · exact Or.inr rfl
  · exact mergeInto_mem t merged x hx

theorem mergeTokens_mem (ts : List Tk) (x : Tk) (hx : x ∈ mergeTokens ts) : x ∈ ts := by
  unfold mergeTokens at hx
  have : ∀ (l acc : List Tk), x ∈ l.foldl mergeStep acc → x ∈ acc ∨ x ∈ l := by
    intro l
    induction l with
    | nil => intro acc h; exact Or.inl h
    | cons t r ih =>
      intro acc h
      simp only [List.foldl_cons] at h
      rcases ih _ h with h | h
      · rcases mergeStep_mem acc t x h with h | rfl
        · exact Or.inl h
        · exact Or.inr (by simp)
      · exact Or.inr (by simp [h])
  rcases this _ _ hx with h | h
  · simp at h
  · exact (mem_sortTokens ts x).1 h

theorem filterMap_runs_mem (rs : List (Nat × Nat)) (g : Nat × Nat → Option ER) (e : ER)
    (he : e ∈ rs.filterMap g) : ∃ p ∈ rs, g p = some e := by
  simpa [List.mem_filterMap] using he

end RTV.Span
