import RTV.Model.SpellCjk
import RTV.Model.NumCfg
/-! CJK integer walk (`cjkIntValue`, `zhCjk`) on the numerals `spellZh n`: definitions shared by the chunk files. -/
namespace RTV.Num

def zhGuard (_ : Nat) : Bool := true

def zhCheck (n : Nat) : Bool := !zhGuard n || cjkIntValue asciiDigits zhCjk (spellZh n) == n

def zhChunk (k : Nat) : Bool := (List.range 100).all fun i => zhCheck (100 * k + i)

end RTV.Num
