import RTV.Lemmas.SpecRun
/-! Kernel evaluation of the spec cases (C19 through the model), family `URL (Chinese configuration), first half`. -/
namespace RTV.Seq
set_option maxRecDepth 100000
theorem spec_url_zh_a_fast : urlSpecOK fastSeqEnv true (RTV.Gen.specCases_urlZh.take 21) = true := by decide +kernel
end RTV.Seq
