import RTV.Lemmas.ThousandEu
import RTV.Lemmas.SpellNl
/-! Dutch: the side facts of `thousand_lift` for every multiplier / remainder 1..999 (kernel evaluation in chunks of
100; only the few forms that differ from the stand-alone numeral are evaluated through `getIntValue`), and the lift. -/
namespace RTV.Num

def nlKChunk (j : Nat) : Bool :=
  (List.range 100).all fun i =>
    100 * j + i == 0 || (multFact nlBig nl.lang (100 * j + i) && restFact nlBig nl.lang (100 * j + i))

theorem nl_k0 : nlKChunk 0 = true := by decide +kernel
theorem nl_k1 : nlKChunk 1 = true := by decide +kernel
theorem nl_k2 : nlKChunk 2 = true := by decide +kernel
theorem nl_k3 : nlKChunk 3 = true := by decide +kernel
theorem nl_k4 : nlKChunk 4 = true := by decide +kernel
theorem nl_k5 : nlKChunk 5 = true := by decide +kernel
theorem nl_k6 : nlKChunk 6 = true := by decide +kernel
theorem nl_k7 : nlKChunk 7 = true := by decide +kernel
theorem nl_k8 : nlKChunk 8 = true := by decide +kernel
theorem nl_k9 : nlKChunk 9 = true := by decide +kernel

theorem nl_kchunks (j : Nat) (hj : j < 10) : nlKChunk j = true := by
  match j, hj with
  | 0, _ => exact nl_k0
  | 1, _ => exact nl_k1
  | 2, _ => exact nl_k2
  | 3, _ => exact nl_k3
  | 4, _ => exact nl_k4
  | 5, _ => exact nl_k5
  | 6, _ => exact nl_k6
  | 7, _ => exact nl_k7
  | 8, _ => exact nl_k8
  | 9, _ => exact nl_k9
  | j + 10, h => omega

theorem nl_kfacts (n : Nat) (h1 : 1 ≤ n) (h2 : n < 1000) :
    multFact nlBig nl.lang n = true ∧ restFact nlBig nl.lang n = true := by
  have hc := nl_kchunks (n / 100) (by omega)
  simp only [nlKChunk, List.all_eq_true, List.mem_range] at hc
  have := hc (n % 100) (Nat.mod_lt _ (by decide))
  have e : 100 * (n / 100) + n % 100 = n := Nat.div_add_mod n 100
  rw [e] at this
  have hz : (n == 0) = false := by simp; omega
  simpa [hz] using this

theorem nl_thousand_word : lookup nl.lang.round nlBig.thousand = some 1000 := by decide +kernel

theorem nl_lift (n : Nat) (h1 : 1000 ≤ n) (h2 : n < 1000000) :
    getIntValue true asciiDigits nl.lang (spellEuBig nlBig n).2 = .ok n :=
  thousand_lift nlBig nl.lang nl_thousand_word (fun n h => nl_all n h rfl)
    (fun k a b => (nl_kfacts k a b).1) (fun u a b => (nl_kfacts u a b).2) n h1 h2

end RTV.Num
