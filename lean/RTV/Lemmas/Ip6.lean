import RTV.Lemmas.Re
import RTV.Lemmas.Guid
import RTV.Gen.Regexes
/-!
Language lemmas for the regenerated `BaseIp.Ipv6Regex` (compiled with IGNORECASE) and the RFC 4291 specification
(text forms without an embedded IPv4 part) in positional form.
-/
namespace RTV.Re

/-! ### repeats of an arbitrary body -/

/-- `n`-fold composition of a step relation on positions -/
def Iter (R : Nat → Nat → Prop) : Nat → Nat → Nat → Prop
  | 0, i, k => k = i
  | n + 1, i, k => ∃ m, R i m ∧ Iter R n m k

theorem Iter_congr {R R' : Nat → Nat → Prop} (h : ∀ i k, R i k ↔ R' i k) (n : Nat) :
    ∀ i k, Iter R n i k ↔ Iter R' n i k := by
  induction n with
  | zero => intro i k; simp [Iter]
  | succ n ih => intro i k; simp only [Iter, h, ih]

/-- `a{mn,mx}` followed by `c`: some `n` in range iterations of `a`, then `c` (greedy or lazy alike). -/
theorem seq_rep_iter {T : Tables} {s : Array Nat} {a c : RE} {g : Bool} {j : Nat} (mx : Nat) :
    ∀ mn i, j ∈ ends T s (.seq (.rep a mn mx g) c) i ↔
      ∃ n, mn ≤ n ∧ n ≤ mx ∧ ∃ k, Iter (fun i k => k ∈ ends T s a i) n i k ∧ j ∈ ends T s c k := by
  induction mx with
  | zero =>
    intro mn i
    rw [seq_rep_zero]
    constructor
    · rintro ⟨rfl, h⟩; exact ⟨0, by omega, by omega, i, rfl, h⟩
    · rintro ⟨n, h1, h2, k, h3, h4⟩
      have : n = 0 := by omega
      subst this
      simp only [Iter] at h3; subst h3
      exact ⟨by omega, h4⟩
  | succ mx ih =>
    intro mn i
    rw [seq_rep_succ, mem_seq]
    constructor
    · rintro (⟨m, hm, h⟩ | ⟨rfl, h⟩)
      · obtain ⟨n, h1, h2, k, h3, h4⟩ := (ih _ _).1 h
        exact ⟨n + 1, by omega, by omega, k, ⟨m, hm, h3⟩, h4⟩
      · exact ⟨0, by omega, by omega, i, rfl, h⟩
    · rintro ⟨n, h1, h2, k, h3, h4⟩
      cases n with
      | zero => simp only [Iter] at h3; subst h3; exact .inr ⟨by omega, h4⟩
      | succ n =>
        obtain ⟨m, hm, h3⟩ := h3
        exact .inl ⟨m, hm, (ih _ _).2 ⟨n, by omega, by omega, k, h3, h4⟩⟩

/-! ### hextets -/

/-- `[0-9a-fA-F]` under IGNORECASE as the translator emits it -/
def hexC : RE := .cls [.range 48 57, .range 65 70, .range 97 102, .range 65 70, .range 97 102] false

theorem clsTest_hexC {T : Tables} {c : Nat} :
    clsTest T [.range 48 57, .range 65 70, .range 97 102, .range 65 70, .range 97 102] false c = true ↔ isHexI c := by
  simp [clsTest, Item.test, isHexI]; omega

theorem hexC_pos {T : Tables} :
    ∀ x, clsTest T [.range 48 57, .range 65 70, .range 97 102, .range 65 70, .range 97 102] false x = true → 0 < x := by
  intro x h; have := clsTest_hexC.1 h; unfold isHexI at this; omega

/-- `([0-9a-fA-F]{1,4})` as group `g` -/
def hx (g : Nat) : RE := .grp g (.seq (.rep (.seq hexC .eps) 1 4 true) .eps)

/-- `s[i:j]` is 1–4 hex digits -/
def HextetAt (s : Array Nat) (i j : Nat) : Prop := ∃ n, 1 ≤ n ∧ n ≤ 4 ∧ RunAt isHexI s i n ∧ j = i + n

theorem seq_hx {T : Tables} {s : Array Nat} {g i j : Nat} {c : RE} :
    j ∈ ends T s (.seq (hx g) c) i ↔ ∃ k, HextetAt s i k ∧ j ∈ ends T s c k := by
  unfold hx hexC HextetAt
  rw [seq_grp, seq_seq, seq_rep_cls hexC_pos]
  simp only [seq_eps, clsTest_hexC]
  constructor
  · rintro ⟨n, h1, h2, h3, h4⟩; exact ⟨i + n, ⟨n, h1, h2, h3, rfl⟩, h4⟩
  · rintro ⟨k, ⟨n, h1, h2, h3, rfl⟩, h4⟩; exact ⟨n, h1, h2, h3, h4⟩

def colon : RE := .cls [.range 58 58] false

/-- `(h:)` as group `g`, `(:h)` as group `g` -/
def hcolon (g : Nat) : RE := .grp g (.seq (hx (g + 1)) (.seq colon .eps))
def colonh (g : Nat) : RE := .grp g (.seq colon (.seq (hx (g + 1)) .eps))

/-- one `h:` step / one `:h` step on positions -/
def HC (s : Array Nat) (i k : Nat) : Prop := ∃ m, HextetAt s i m ∧ code s m = 58 ∧ k = m + 1
def CH (s : Array Nat) (i k : Nat) : Prop := code s i = 58 ∧ HextetAt s (i + 1) k

theorem mem_hcolon {T : Tables} {s : Array Nat} {g i k : Nat} :
    k ∈ ends T s (.seq (hcolon g) .eps) i ↔ HC s i k := by
  unfold hcolon HC colon
  simp only [seq_grp, seq_seq, seq_eps, seq_hx, seq_range (by decide : 0 < 58), mem_eps]
  constructor
  · rintro ⟨m, h1, h2, h3, rfl⟩; exact ⟨m, h1, by omega, rfl⟩
  · rintro ⟨m, h1, h2, rfl⟩; exact ⟨m, h1, by omega, by omega, rfl⟩

theorem mem_colonh {T : Tables} {s : Array Nat} {g i k : Nat} :
    k ∈ ends T s (.seq (colonh g) .eps) i ↔ CH s i k := by
  unfold colonh CH colon
  simp only [seq_grp, seq_seq, seq_eps, seq_hx, seq_range (by decide : 0 < 58), mem_eps]
  constructor
  · rintro ⟨h1, h2, k', h3, rfl⟩; exact ⟨by omega, h3⟩
  · rintro ⟨h1, h3⟩; exact ⟨by omega, by omega, k, h3, rfl⟩

/-- `(h:){mn,mx}` then `c` -/
theorem seq_rep_hcolon {T : Tables} {s : Array Nat} {g mn mx i j : Nat} {c : RE} {gr : Bool} :
    j ∈ ends T s (.seq (.rep (.seq (hcolon g) .eps) mn mx gr) c) i ↔
      ∃ n, mn ≤ n ∧ n ≤ mx ∧ ∃ k, Iter (HC s) n i k ∧ j ∈ ends T s c k := by
  rw [seq_rep_iter]
  simp only [Iter_congr (fun i k => mem_hcolon (T := T) (s := s) (g := g) (i := i) (k := k))]

theorem seq_rep_colonh {T : Tables} {s : Array Nat} {g mn mx i j : Nat} {c : RE} {gr : Bool} :
    j ∈ ends T s (.seq (.rep (.seq (colonh g) .eps) mn mx gr) c) i ↔
      ∃ n, mn ≤ n ∧ n ≤ mx ∧ ∃ k, Iter (CH s) n i k ∧ j ∈ ends T s c k := by
  rw [seq_rep_iter]
  simp only [Iter_congr (fun i k => mem_colonh (T := T) (s := s) (g := g) (i := i) (k := k))]

/-! ### the shape of `Ipv6Regex` -/

/-- `((h:){k}((:h){1,7-k}))` with groups `G …` -/
def ellK (G k : Nat) : RE :=
  .grp G (.seq (.rep (.seq (hcolon (G + 1)) .eps) k k true)
    (.seq (.grp (G + 3) (.seq (.rep (.seq (colonh (G + 4)) .eps) 1 (7 - k) true) .eps)) .eps))

def basic6 : RE := .grp 3 (.seq (.rep (.seq (hcolon 4) .eps) 7 7 true) (.seq (hx 6) .eps))
def ell1 : RE := .grp 7 (.seq colon (.seq (.rep (.seq (colonh 8) .eps) 1 7 true) .eps))
def ell8 : RE := .grp 46 (.seq (.rep (.seq (hcolon 47) .eps) 7 7 true) (.seq (.grp 49 (.seq colon .eps)) .eps))

def merged6 : RE :=
  .grp 2 (.seq (.alt (.seq basic6 .eps) (.alt (.seq ell1 .eps) (.alt (.seq (ellK 10 1) .eps)
    (.alt (.seq (ellK 16 2) .eps) (.alt (.seq (ellK 22 3) .eps) (.alt (.seq (ellK 28 4) .eps)
    (.alt (.seq (ellK 34 5) .eps) (.alt (.seq (ellK 40 6) .eps) (.seq ell8 .eps))))))))) .eps)

def other6 : RE :=
  .grp 50 (.seq (.alt (.seq .nwordB (.seq colon (.seq colon (.seq .nwordB .eps))))
    (.alt (.seq .nwordB (.seq colon (.seq (.rep (.seq (colonh 51) .eps) 1 7 true) (.seq .wordB .eps))))
      (.seq .wordB (.seq (.rep (.seq (hcolon 53) .eps) 1 7 true) (.seq colon (.seq .nwordB .eps)))))) .eps)

def ipv6RE : RE :=
  .seq (.alt (.seq (.grp 1 (.seq .wordB (.seq merged6 (.seq .wordB .eps)))) .eps) (.seq other6 .eps)) .eps

/-- the tie to the working tree -/
theorem gen_ipv6 : RTV.Gen.ipv6Regex = ipv6RE := by decide

end RTV.Re

namespace RTV.Re

/-- Exactly what `Ipv6Regex` accepts from `i` to `j`, boundaries included. -/
def V6Match (T : Tables) (s : Array Nat) (i j : Nat) : Prop :=
  (isWordB T s i = true ∧ isWordB T s j = true ∧
    ((∃ k, Iter (HC s) 7 i k ∧ HextetAt s k j) ∨
     (code s i = 58 ∧ ∃ b, 1 ≤ b ∧ b ≤ 7 ∧ Iter (CH s) b (i + 1) j) ∨
     (∃ a b, 1 ≤ a ∧ a ≤ 6 ∧ 1 ≤ b ∧ a + b ≤ 7 ∧ ∃ k, Iter (HC s) a i k ∧ Iter (CH s) b k j) ∨
     (∃ k, Iter (HC s) 7 i k ∧ code s k = 58 ∧ j = k + 1))) ∨
  (isWordB T s i = false ∧ code s i = 58 ∧ code s (i + 1) = 58 ∧ isWordB T s (i + 2) = false ∧ j = i + 2) ∨
  (isWordB T s i = false ∧ code s i = 58 ∧ isWordB T s j = true ∧ ∃ b, 1 ≤ b ∧ b ≤ 7 ∧ Iter (CH s) b (i + 1) j) ∨
  (isWordB T s i = true ∧ ∃ a, 1 ≤ a ∧ a ≤ 7 ∧ ∃ k, Iter (HC s) a i k ∧ code s k = 58 ∧
    isWordB T s (k + 1) = false ∧ j = k + 1)

theorem ipv6RE_lang {T : Tables} (s : Array Nat) (i j : Nat) :
    j ∈ ends T s ipv6RE i ↔ V6Match T s i j := by
  unfold ipv6RE merged6 other6 basic6 ell1 ell8 ellK colon V6Match
  simp only [seq_grp, seq_seq, seq_eps, seq_alt, seq_wordB, seq_nwordB, seq_hx, seq_rep_hcolon, seq_rep_colonh,
    seq_range (by decide : 0 < 58), mem_eps, Nat.reduceSub, Nat.reduceAdd, Nat.add_assoc]
  constructor
  · rintro (⟨hi, h⟩ | ⟨hi, c1, c2, c3, c4, hj, rfl⟩ | ⟨hi, c1, c2, b, b1, b2, k, hk, hj, rfl⟩ |
      ⟨hi, a, a1, a2, k, hk, c1, c2, hj, rfl⟩)
    · rcases h with ⟨n, n1, n2, k, hk, k1, hh, hj, rfl⟩ | ⟨c1, c2, b, b1, b2, k, hk, hj, rfl⟩ |
        ⟨a, a1, a2, k, hk, b, b1, b2, k1, hk1, hj, rfl⟩ | ⟨a, a1, a2, k, hk, b, b1, b2, k1, hk1, hj, rfl⟩ |
        ⟨a, a1, a2, k, hk, b, b1, b2, k1, hk1, hj, rfl⟩ | ⟨a, a1, a2, k, hk, b, b1, b2, k1, hk1, hj, rfl⟩ |
        ⟨a, a1, a2, k, hk, b, b1, b2, k1, hk1, hj, rfl⟩ | ⟨a, a1, a2, k, hk, b, b1, b2, k1, hk1, hj, rfl⟩ |
        ⟨n, n1, n2, k, hk, c1, c2, hj, rfl⟩
      · have : n = 7 := by omega
        subst this; exact .inl ⟨hi, hj, .inl ⟨k, hk, hh⟩⟩
      · exact .inl ⟨hi, hj, .inr (.inl ⟨by omega, b, b1, b2, hk⟩)⟩
      all_goals first
        | exact .inl ⟨hi, hj, .inr (.inr (.inl ⟨a, b, by omega, by omega, b1, by omega, k, hk, hk1⟩))⟩
        | (have : n = 7 := by omega
           subst this; exact .inl ⟨hi, hj, .inr (.inr (.inr ⟨k, hk, by omega, rfl⟩))⟩)
    · exact .inr (.inl ⟨hi, by omega, by omega, hj, rfl⟩)
    · exact .inr (.inr (.inl ⟨hi, by omega, hj, b, b1, b2, hk⟩))
    · exact .inr (.inr (.inr ⟨hi, a, a1, a2, k, hk, by omega, hj, rfl⟩))
  · rintro (⟨hi, hj, h⟩ | ⟨hi, c1, c2, hj, rfl⟩ | ⟨hi, c1, hj, b, b1, b2, hk⟩ | ⟨hi, a, a1, a2, k, hk, c1, hj, rfl⟩)
    · refine .inl ⟨hi, ?_⟩
      rcases h with ⟨k, hk, hh⟩ | ⟨c1, b, b1, b2, hk⟩ | ⟨a, b, a1, a2, b1, ab, k, hk, hk1⟩ | ⟨k, hk, c1, rfl⟩
      · exact .inl ⟨7, by omega, by omega, k, hk, j, hh, hj, rfl⟩
      · exact .inr (.inl ⟨by omega, by omega, b, b1, b2, j, hk, hj, rfl⟩)
      · have : a = 1 ∨ a = 2 ∨ a = 3 ∨ a = 4 ∨ a = 5 ∨ a = 6 := by omega
        rcases this with rfl | rfl | rfl | rfl | rfl | rfl
        · exact .inr (.inr (.inl ⟨_, by omega, by omega, k, hk, b, b1, by omega, j, hk1, hj, rfl⟩))
        · exact .inr (.inr (.inr (.inl ⟨_, by omega, by omega, k, hk, b, b1, by omega, j, hk1, hj, rfl⟩)))
        · exact .inr (.inr (.inr (.inr (.inl ⟨_, by omega, by omega, k, hk, b, b1, by omega, j, hk1, hj, rfl⟩))))
        · exact .inr (.inr (.inr (.inr (.inr (.inl ⟨_, by omega, by omega, k, hk, b, b1, by omega, j, hk1, hj, rfl⟩)))))
        · exact .inr (.inr (.inr (.inr (.inr (.inr (.inl
            ⟨_, by omega, by omega, k, hk, b, b1, by omega, j, hk1, hj, rfl⟩))))))
        · exact .inr (.inr (.inr (.inr (.inr (.inr (.inr (.inl
            ⟨_, by omega, by omega, k, hk, b, b1, by omega, j, hk1, hj, rfl⟩)))))))
      · exact .inr (.inr (.inr (.inr (.inr (.inr (.inr (.inr
            ⟨7, by omega, by omega, k, hk, by omega, by omega, hj, rfl⟩)))))))
    · exact .inr (.inl ⟨hi, by omega, by omega, by omega, by omega, hj, rfl⟩)
    · exact .inr (.inr (.inl ⟨hi, by omega, by omega, b, b1, b2, j, hk, hj, rfl⟩))
    · exact .inr (.inr (.inr ⟨hi, a, a1, a2, k, hk, by omega, by omega, hj, rfl⟩))

end RTV.Re

namespace RTV.Re

/-! ### RFC 4291 §2.2 text forms 1 and 2 (no embedded IPv4), positional -/

/-- the part before `::` … : `a ≥ 1` groups each followed by `:` (the last `:` is the first of `::`), or a lone `:` -/
def LeftAt (s : Array Nat) (i a k : Nat) : Prop := (a = 0 ∧ code s i = 58 ∧ k = i + 1) ∨ (1 ≤ a ∧ Iter (HC s) a i k)
/-- … and after it: `b ≥ 1` groups each preceded by `:`, or a lone `:` -/
def RightAt (s : Array Nat) (k b j : Nat) : Prop := (b = 0 ∧ code s k = 58 ∧ j = k + 1) ∨ (1 ≤ b ∧ Iter (CH s) b k j)

/-- `s[i:j]` is an IPv6 address text: eight hextets separated by `:`, or `a` hextets, `::`, `b` hextets with
`a + b ≤ 7` (`::` stands for at least one zero group). -/
def V6At (s : Array Nat) (i j : Nat) : Prop :=
  (∃ k, Iter (HC s) 7 i k ∧ HextetAt s k j) ∨ (∃ a b k, a + b ≤ 7 ∧ LeftAt s i a k ∧ RightAt s k b j)

theorem V6Match_sound {T : Tables} {s : Array Nat} {i j : Nat} (h : V6Match T s i j) : V6At s i j := by
  rcases h with ⟨_, _, h⟩ | ⟨_, c1, c2, _, rfl⟩ | ⟨_, c1, _, b, b1, b2, hk⟩ | ⟨_, a, a1, a2, k, hk, c1, _, rfl⟩
  · rcases h with ⟨k, hk, hh⟩ | ⟨c1, b, b1, b2, hk⟩ | ⟨a, b, a1, a2, b1, ab, k, hk, hk1⟩ | ⟨k, hk, c1, rfl⟩
    · exact .inl ⟨k, hk, hh⟩
    · exact .inr ⟨0, b, i + 1, by omega, .inl ⟨rfl, c1, rfl⟩, .inr ⟨b1, hk⟩⟩
    · exact .inr ⟨a, b, k, ab, .inr ⟨a1, hk⟩, .inr ⟨b1, hk1⟩⟩
    · exact .inr ⟨7, 0, k, by omega, .inr ⟨by omega, hk⟩, .inl ⟨rfl, c1, rfl⟩⟩
  · exact .inr ⟨0, 0, i + 1, by omega, .inl ⟨rfl, c1, rfl⟩, .inl ⟨rfl, c2, rfl⟩⟩
  · exact .inr ⟨0, b, i + 1, by omega, .inl ⟨rfl, c1, rfl⟩, .inr ⟨b1, hk⟩⟩
  · exact .inr ⟨a, 0, k, by omega, .inr ⟨a1, hk⟩, .inl ⟨rfl, c1, rfl⟩⟩

theorem HextetAt_first {s : Array Nat} {i j : Nat} (h : HextetAt s i j) : isHexI (code s i) := by
  obtain ⟨n, n1, _, r, _⟩ := h
  simpa using r 0 (by omega)

theorem HextetAt_last {s : Array Nat} {i j : Nat} (h : HextetAt s i j) : 0 < j ∧ isHexI (code s (j - 1)) := by
  obtain ⟨n, n1, _, r, rfl⟩ := h
  refine ⟨by omega, ?_⟩
  have := r (n - 1) (by omega)
  rwa [show i + (n - 1) = i + n - 1 by omega] at this

theorem Iter_HC_first {s : Array Nat} {a i k : Nat} (ha : 1 ≤ a) (h : Iter (HC s) a i k) : isHexI (code s i) := by
  cases a with
  | zero => omega
  | succ n => obtain ⟨m, ⟨m', hh, _, _⟩, _⟩ := h; exact HextetAt_first hh

theorem Iter_CH_last {s : Array Nat} (b : Nat) : ∀ {k j : Nat}, 1 ≤ b → Iter (CH s) b k j →
    0 < j ∧ isHexI (code s (j - 1)) := by
  induction b with
  | zero => intro k j hb; omega
  | succ n ih =>
    intro k j _ h
    obtain ⟨m, hm, h⟩ := h
    cases n with
    | zero => simp only [Iter] at h; subst h; exact HextetAt_last hm.2
    | succ n' => exact ih (by omega) h

/-- no word character touches `[i, j)` from outside -/
def Delim (T : Tables) (s : Array Nat) (i j : Nat) : Prop :=
  (i = 0 ∨ wordAt T s (i - 1) = false) ∧ wordAt T s j = false

theorem wordB_left {T : Tables} {s : Array Nat} {i : Nat} (h : i = 0 ∨ wordAt T s (i - 1) = false) :
    isWordB T s i = wordAt T s i := by
  unfold isWordB
  rcases h with rfl | h
  · simp
  · simp [h]

theorem wordB_right {T : Tables} {s : Array Nat} {j : Nat} (h : wordAt T s j = false) (hj : 0 < j) :
    isWordB T s j = wordAt T s (j - 1) := by
  unfold isWordB; simp [h, hj]

theorem wordAt_hex {T : Tables} (hwx : ∀ c, isHexI c → T.word c = true) {s : Array Nat} {i : Nat}
    (h : isHexI (code s i)) : wordAt T s i = true := by
  unfold wordAt
  have : i < s.size := code_lt_size (by unfold isHexI at h; omega)
  simp [this, hwx _ h]

theorem wordAt_colon {T : Tables} (hc : T.word 58 = false) {s : Array Nat} {i : Nat}
    (h : code s i = 58) : wordAt T s i = false := by
  unfold wordAt; simp [h, hc]

theorem V6At_complete {T : Tables} (hwx : ∀ c, isHexI c → T.word c = true) (hc : T.word 58 = false)
    {s : Array Nat} {i j : Nat} (hd : Delim T s i j) (h : V6At s i j) : V6Match T s i j := by
  obtain ⟨dl, dr⟩ := hd
  have bl := wordB_left dl
  rcases h with ⟨k, hk, hh⟩ | ⟨a, b, k, ab, hl, hr⟩
  · have l := HextetAt_last hh
    refine .inl ⟨?_, ?_, .inl ⟨k, hk, hh⟩⟩
    · rw [bl]; exact wordAt_hex hwx (Iter_HC_first (by omega) hk)
    · rw [wordB_right dr l.1]; exact wordAt_hex hwx l.2
  · rcases hl with ⟨rfl, c1, rfl⟩ | ⟨a1, hk⟩ <;> rcases hr with ⟨rfl, c2, rfl⟩ | ⟨b1, hk1⟩
    · refine .inr (.inl ⟨?_, c1, c2, ?_, rfl⟩)
      · rw [bl]; exact wordAt_colon hc c1
      · rw [wordB_right dr (by omega)]; exact wordAt_colon hc (by simpa using c2)
    · have l := Iter_CH_last b b1 hk1
      refine .inr (.inr (.inl ⟨?_, c1, ?_, b, b1, by omega, hk1⟩))
      · rw [bl]; exact wordAt_colon hc c1
      · rw [wordB_right dr l.1]; exact wordAt_hex hwx l.2
    · refine .inr (.inr (.inr ⟨?_, a, a1, by omega, k, hk, c2, ?_, rfl⟩))
      · rw [bl]; exact wordAt_hex hwx (Iter_HC_first a1 hk)
      · rw [wordB_right dr (by omega)]; exact wordAt_colon hc (by simpa using c2)
    · have l := Iter_CH_last b b1 hk1
      refine .inl ⟨?_, ?_, .inr (.inr (.inl ⟨a, b, a1, by omega, b1, ab, k, hk, hk1⟩))⟩
      · rw [bl]; exact wordAt_hex hwx (Iter_HC_first a1 hk)
      · rw [wordB_right dr l.1]; exact wordAt_hex hwx l.2

end RTV.Re
