import RTV.Lemmas.SpellBig
import RTV.Lemmas.SpellNlK
/-! Dutch: the side facts of `huge_value` for every multiplier 1..999 in front of a scale noun (kernel evaluation on
the regenerated maps in chunks of 100; only the forms that differ from the stand-alone numeral, and the forms behind the
Portuguese connector, are evaluated through `getIntValue`), the scale-word table, and the lift to every n < 10^15. -/
namespace RTV.Num

def nlHChunk (j : Nat) : Bool :=
  (List.range 100).all fun i => 100 * j + i == 0 || hiFact nlHuge nl.lang (100 * j + i)

theorem nl_h0 : nlHChunk 0 = true := by decide +kernel
theorem nl_h1 : nlHChunk 1 = true := by decide +kernel
theorem nl_h2 : nlHChunk 2 = true := by decide +kernel
theorem nl_h3 : nlHChunk 3 = true := by decide +kernel
theorem nl_h4 : nlHChunk 4 = true := by decide +kernel
theorem nl_h5 : nlHChunk 5 = true := by decide +kernel
theorem nl_h6 : nlHChunk 6 = true := by decide +kernel
theorem nl_h7 : nlHChunk 7 = true := by decide +kernel
theorem nl_h8 : nlHChunk 8 = true := by decide +kernel
theorem nl_h9 : nlHChunk 9 = true := by decide +kernel

theorem nl_hchunks (j : Nat) (hj : j < 10) : nlHChunk j = true := by
  match j, hj with
  | 0, _ => exact nl_h0
  | 1, _ => exact nl_h1
  | 2, _ => exact nl_h2
  | 3, _ => exact nl_h3
  | 4, _ => exact nl_h4
  | 5, _ => exact nl_h5
  | 6, _ => exact nl_h6
  | 7, _ => exact nl_h7
  | 8, _ => exact nl_h8
  | 9, _ => exact nl_h9
  | j + 10, h => omega

theorem nl_hfacts (g : Nat) (h1 : 1 ≤ g) (h2 : g < 1000) : hiFact nlHuge nl.lang g = true := by
  have hc := nl_hchunks (g / 100) (by omega)
  simp only [nlHChunk, List.all_eq_true, List.mem_range] at hc
  have := hc (g % 100) (Nat.mod_lt _ (by decide))
  have e : 100 * (g / 100) + g % 100 = g := Nat.div_add_mod g 100
  rw [e] at this
  have hz : (g == 0) = false := by simp; omega
  simpa [hz] using this

theorem nl_scales : scalesOK nl.lang 1000 1000000000000000 nlHuge.scales = true := by decide +kernel

theorem nl_conn_word : nlHuge.big.eRule = true → lookup nl.lang.round [101] = none := by decide +kernel

theorem nl_hugeHyps : HugeHyps nlHuge nl.lang 1000 :=
  hugeHyps_narrow nlHuge nl.lang rfl (fun n h => nl_all n h rfl) nl_thousand_word nl_kfacts
    (fun r hr => sub1e6_of' nlBig nl.lang (fun n h => nl_all n h rfl) nl_lift r hr) nl_conn_word nl_hfacts

/-- every numeral below 10^15 (guard: see `huge_value`) -/
theorem nl_huge (n : Nat) (hn : n < 1000000000000000)
    (hg : ¬ (nlHuge.big.eRule = true ∧ nlHuge.big.omitOne = true ∧ n % 1000000 = 1000 ∧ 1000000 ≤ n)) :
    getIntValue true asciiDigits nl.lang (spellHuge nlHuge n).2 = .ok n :=
  huge_value nlHuge nl.lang 1000 1000000000000000 nl_hugeHyps nl_scales n hn hg

end RTV.Num
