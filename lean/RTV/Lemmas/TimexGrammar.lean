import RTV.Lemmas.Timex
/-!
The TIMEX grammar used by the C14 theorems (and by the end-to-end C15 theorems, which carry facts through
`format → parse`): well-formed strings `WF` with digits as parameters, `render`, the canonical form `norm`, and the
evaluation lemmas `format (parse (render w)) = render (norm w)`, `parse (render (norm w)) = parse (render w)` per
pattern family, for every configuration satisfying `CfgOK`.
-/
namespace RTV.Timex
open RTV.Py RTV.Cal
set_option linter.unusedSimpArgs false
set_option linter.unusedVariables false

/-! ## the grammar -/

abbrev Dg := Fin 10
/-- the ASCII digit character of a digit -/
def dch (d : Dg) : Nat := 48 + d.val

inductive Season | SP | SU | FA | WI
inductive Pod | DT | NI | MO | AF | EV
def seasonStr : Season → Str
  | .SP => [83, 80] | .SU => [83, 85] | .FA => [70, 65] | .WI => [87, 73]
def podStr : Pod → Str
  | .DT => [68, 84] | .NI => [78, 73] | .MO => [77, 79] | .AF => [65, 70] | .EV => [69, 86]

/-- the twelve date patterns, digits as parameters -/
inductive DateForm
  | date (y1 y2 y3 y4 m1 m2 d1 d2 : Dg)
  | weekday (w : Dg)
  | openyear (m1 m2 d1 d2 : Dg)
  | year (y1 y2 y3 y4 : Dg)
  | yearmonth (y1 y2 y3 y4 m1 m2 : Dg)
  | season (s : Season)
  | yearseason (y1 y2 y3 y4 : Dg) (s : Season)
  | week (y1 y2 y3 y4 w1 w2 : Dg)
  | weekend (y1 y2 y3 y4 w1 w2 : Dg)
  | month (m1 m2 : Dg)
  | monthweek (m1 m2 w1 w2 : Dg)
  | monthweekday (m1 m2 w d : Dg)

/-- the four time patterns -/
inductive TimeForm
  | h (h1 h2 : Dg)
  | hm (h1 h2 m1 m2 : Dg)
  | hms (h1 h2 m1 m2 s1 s2 : Dg)
  | pod (p : Pod)

def renderD : DateForm → Str
  | .date y1 y2 y3 y4 m1 m2 d1 d2 => [dch y1, dch y2, dch y3, dch y4, 45, dch m1, dch m2, 45, dch d1, dch d2]
  | .weekday w => [88, 88, 88, 88, 45, 87, 88, 88, 45, dch w]
  | .openyear m1 m2 d1 d2 => [88, 88, 88, 88, 45, dch m1, dch m2, 45, dch d1, dch d2]
  | .year y1 y2 y3 y4 => [dch y1, dch y2, dch y3, dch y4]
  | .yearmonth y1 y2 y3 y4 m1 m2 => [dch y1, dch y2, dch y3, dch y4, 45, dch m1, dch m2]
  | .season s => seasonStr s
  | .yearseason y1 y2 y3 y4 s => [dch y1, dch y2, dch y3, dch y4, 45] ++ seasonStr s
  | .week y1 y2 y3 y4 w1 w2 => [dch y1, dch y2, dch y3, dch y4, 45, 87, dch w1, dch w2]
  | .weekend y1 y2 y3 y4 w1 w2 => [dch y1, dch y2, dch y3, dch y4, 45, 87, dch w1, dch w2, 45, 87, 69]
  | .month m1 m2 => [88, 88, 88, 88, 45, dch m1, dch m2]
  | .monthweek m1 m2 w1 w2 => [88, 88, 88, 88, 45, dch m1, dch m2, 45, 87, dch w1, dch w2]
  | .monthweekday m1 m2 w d => [88, 88, 88, 88, 45, dch m1, dch m2, 45, 87, 88, 88, 45, dch w, 45, dch d]

def renderT : TimeForm → Str
  | .h h1 h2 => [84, dch h1, dch h2]
  | .hm h1 h2 m1 m2 => [84, dch h1, dch h2, 58, dch m1, dch m2]
  | .hms h1 h2 m1 m2 s1 s2 => [84, dch h1, dch h2, 58, dch m1, dch m2, 58, dch s1, dch s2]
  | .pod p => 84 :: podStr p

/-- a well-formed TIMEX of the families C14 names: a date form, a time form, a date + time combination, or
`PRESENT_REF` (durations: see `duration_int_roundtrip`) -/
inductive WF
  | d (f : DateForm)
  | t (g : TimeForm)
  | dt (f : DateForm) (g : TimeForm)
  | present

def render : WF → Str
  | .d f => renderD f
  | .t g => renderT g
  | .dt f g => renderD f ++ renderT g
  | .present => sPresentRef

/-- canonical form of a time: trailing `:00` parts are not printed (`T05:00` and `T05` have the same fields) -/
def normT : TimeForm → TimeForm
  | .hm h1 h2 m1 m2 => if m1 = 0 ∧ m2 = 0 then .h h1 h2 else .hm h1 h2 m1 m2
  | .hms h1 h2 m1 m2 s1 s2 =>
    if s1 = 0 ∧ s2 = 0 then (if m1 = 0 ∧ m2 = 0 then .h h1 h2 else .hm h1 h2 m1 m2) else .hms h1 h2 m1 m2 s1 s2
  | g => g

def norm : WF → WF
  | .t g => .t (normT g)
  | .dt f g => .dt f (normT g)
  | w => w

/-- the date forms that combine with a time of day or a part of day: `YYYY-MM-DD`, `XXXX-MM-DD`, `XXXX-WXX-d` -/
def Combinable : DateForm → Prop
  | .date .. => True
  | .openyear .. => True
  | .weekday w => w.val ≠ 0
  | _ => False

/-- in-range fields, as far as the formatter depends on them: a year / open month that stands alone is not zero,
a weekday is not zero; a time of day or part of day combines with full dates, open-year dates and weekdays. -/
def InRange : WF → Prop
  | .d (.year y1 y2 y3 y4) => ¬ (y1.val = 0 ∧ y2.val = 0 ∧ y3.val = 0 ∧ y4.val = 0)
  | .d (.month m1 m2) => ¬ (m1.val = 0 ∧ m2.val = 0)
  | .d (.weekday w) => w.val ≠ 0
  | .dt f _ => Combinable f
  | _ => True

section

theorem dv_dch (cfg : Cfg) (hc : CfgOK cfg) (d : Dg) : cfg.dv (dch d) = some d.val := hc.dv.1 d.val d.isLt
theorem isDig_dch (cfg : Cfg) (hc : CfgOK cfg) (d : Dg) : isDig cfg.dv (dch d) = true := by
  simp [isDig, dv_dch cfg hc d]
theorem dch_ne (d : Dg) (c : Nat) (h : c < 48 ∨ 57 < c) : (dch d = c) = False := by
  have := d.isLt
  unfold dch; simp; omega
theorem ne_dch (d : Dg) (c : Nat) (h : c < 48 ∨ 57 < c) : (c = dch d) = False := by
  have := d.isLt
  unfold dch; simp; omega

theorem fixed2_dg (a b : Dg) : fixedFormat (some (.int ((0 * 10 + a.val) * 10 + b.val : Nat))) 2 = [dch a, dch b] := by
  have := a.isLt; have := b.isLt
  have e1 : ((0 * 10 + a.val) * 10 + b.val) / 10 = a.val := by omega
  have e2 : ((0 * 10 + a.val) * 10 + b.val) % 10 = b.val := by omega
  rw [fixed2 _ (by omega), e1, e2]; rfl
theorem fixed4_dg (a b c d : Dg) :
    fixedFormat (some (.int ((((0 * 10 + a.val) * 10 + b.val) * 10 + c.val) * 10 + d.val : Nat))) 4 =
      [dch a, dch b, dch c, dch d] := by
  have := a.isLt; have := b.isLt; have := c.isLt; have := d.isLt
  have e1 : ((((0 * 10 + a.val) * 10 + b.val) * 10 + c.val) * 10 + d.val) / 1000 = a.val := by omega
  have e2 : ((((0 * 10 + a.val) * 10 + b.val) * 10 + c.val) * 10 + d.val) / 100 % 10 = b.val := by omega
  have e3 : ((((0 * 10 + a.val) * 10 + b.val) * 10 + c.val) * 10 + d.val) / 10 % 10 = c.val := by omega
  have e4 : ((((0 * 10 + a.val) * 10 + b.val) * 10 + c.val) * 10 + d.val) % 10 = d.val := by omega
  rw [fixed4 _ (by omega), e1, e2, e3, e4]; rfl
theorem str1_dg (a : Dg) : optStr (some (.int ((0 * 10 + a.val : Nat)))) = [dch a] := by
  have := a.isLt
  have e : 0 * 10 + a.val = a.val := by omega
  simp only [optStr, Num.str]; rw [istr_nat, nstr_lt10 _ (by omega), e]; rfl

/-- evaluation of parse ∘ render and of format on the resulting fields -/
theorem parse_renderD (cfg : Cfg) (hc : CfgOK cfg) (f : DateForm) :
    parse cfg (renderD f) = Timex.assign cfg.dv {} (extract cfg.dv cfg.date (renderD f)) := by
  have h88 := hc.dv.2 88 (by decide)
  cases f <;> (try rename_i s) <;> (try cases s) <;>
    simp [parse, parseInto, extractDateTime, renderD, sPresentRef, indexOf, dch_ne, ne_dch, seasonStr, podStr]

theorem fixed2_dg' (a b : Dg) : fixedFormat (some (.int ((a.val : Int) * 10 + (b.val : Int)))) 2 = [dch a, dch b] := by
  have e : ((a.val : Int) * 10 + (b.val : Int)) = (((0 * 10 + a.val) * 10 + b.val : Nat) : Int) := by omega
  rw [e, fixed2_dg]
theorem fixed4_dg' (a b c d : Dg) :
    fixedFormat (some (.int ((((a.val : Int) * 10 + (b.val : Int)) * 10 + (c.val : Int)) * 10 + (d.val : Int)))) 4 =
      [dch a, dch b, dch c, dch d] := by
  have e : ((((a.val : Int) * 10 + (b.val : Int)) * 10 + (c.val : Int)) * 10 + (d.val : Int)) =
      (((((0 * 10 + a.val) * 10 + b.val) * 10 + c.val) * 10 + d.val : Nat) : Int) := by omega
  rw [e, fixed4_dg]
theorem str1_dg' (a : Dg) : optStr (some (.int (a.val : Int))) = [dch a] := by
  have e : (a.val : Int) = ((0 * 10 + a.val : Nat) : Int) := by omega
  rw [e, str1_dg]

theorem format_parse_D (cfg : Cfg) (hc : CfgOK cfg) (f : DateForm) (hr : InRange (.d f)) :
    formatT (parse cfg (renderD f)) = .ok (renderD f) := by
  have h88 : isDig cfg.dv 88 = false := by simp [isDig, hc.dv.2 88 (by decide)]
  have h45 : isDig cfg.dv 45 = false := by simp [isDig, hc.dv.2 45 (by decide)]
  have h87 : isDig cfg.dv 87 = false := by simp [isDig, hc.dv.2 87 (by decide)]
  have h83 : isDig cfg.dv 83 = false := by simp [isDig, hc.dv.2 83 (by decide)]
  have h70 : isDig cfg.dv 70 = false := by simp [isDig, hc.dv.2 70 (by decide)]
  rw [parse_renderD cfg hc, hc.date]
  cases f
  case season s => cases s <;> simp [extract, stdDate, xxxx, seasons, firstSome, matchItems, renderD, startsWith,
      seasonStr, Timex.assign, h88, h45, h87, h83, h70, formatT, formatFuel, infer, isDate, isDateRange, isDuration,
      isTime, isDefinite, truthyO, truthyS, formatDateRange, bind, Except.bind, pure, Except.pure]
  case yearseason y1 y2 y3 y4 s => cases s <;> simp [extract, stdDate, xxxx, seasons, firstSome, matchItems, renderD,
      isDig_dch cfg hc, startsWith, dch_ne, ne_dch, seasonStr, Timex.assign, parseNatDv, dv_dch cfg hc, h88, h45, h87,
      h83, h70, formatT, formatFuel, infer, isDate, isDateRange, isDuration, isTime, isDefinite, truthyO, truthyS,
      Num.truthy, formatDateRange, bind, Except.bind, pure, Except.pure, fixed4_dg']
  all_goals (try simp only [InRange] at hr)
  all_goals
    simp [extract, stdDate, xxxx, seasons, firstSome, matchItems, renderD, isDig_dch cfg hc, startsWith, dch_ne, ne_dch,
      seasonStr, Timex.assign, parseNatDv, dv_dch cfg hc, h88, h45, h87, h83, h70,
      formatT, formatFuel, infer, isDate, isDateRange, isDuration, isTime, isDefinite, truthyO, truthyS, Num.truthy,
      formatDate, formatDateRange, andChainNotNone, sXXXX, sWXX, bind, Except.bind, pure, Except.pure,
      fixed2_dg', fixed4_dg', str1_dg', hr]
  all_goals omega

theorem parse_renderT (cfg : Cfg) (hc : CfgOK cfg) (g : TimeForm) :
    parse cfg (renderT g) = Timex.assign cfg.dv {} (dictMerge (extract cfg.dv cfg.date []) (extract cfg.dv cfg.time (renderT g))) := by
  cases g <;> (try rename_i p; cases p) <;>
    simp [parse, parseInto, extractDateTime, renderT, sPresentRef, indexOf, dch_ne, ne_dch, podStr]

theorem extract_date_nil (cfg : Cfg) (hc : CfgOK cfg) : extract cfg.dv cfg.date [] = [] := by
  rw [hc.date]
  simp [extract, stdDate, xxxx, seasons, firstSome, matchItems, startsWith]

theorem format_parse_T (cfg : Cfg) (hc : CfgOK cfg) (g : TimeForm) :
    formatT (parse cfg (renderT g)) = .ok (renderT (normT g)) := by
  have h58 : isDig cfg.dv 58 = false := by simp [isDig, hc.dv.2 58 (by decide)]
  rw [parse_renderT cfg hc, extract_date_nil cfg hc, hc.time]
  cases g
  case pod p => cases p <;> simp [extract, stdTime, partsOfDay, firstSome, matchItems, renderT, startsWith, podStr,
      dictMerge, dictSet, Timex.assign, formatT, formatFuel, infer, isDate, isDateRange, isDuration, isTime,
      isDefinite, truthyO, truthyS, formatTimeRange, normT, bind, Except.bind, pure, Except.pure, isDig, hc.dv.2]
  case h h1 h2 =>
    simp [extract, stdTime, firstSome, matchItems, renderT, isDig_dch cfg hc, dictMerge, dictSet, Timex.assign,
      parseNatDv, dv_dch cfg hc, Timex.setHour, formatT, formatFuel, infer, isDate, isDateRange, isDuration, isTime,
      isDefinite, truthyO, truthyS, formatTime, eq0, Num.eqInt, Num.scaled, pow10, Timex.hour, Timex.minute,
      Timex.second, normT, bind, Except.bind, pure, Except.pure, fixed2_dg']
  case hm h1 h2 m1 m2 =>
    by_cases hz : m1.val = 0 ∧ m2.val = 0
    · have e1 : m1 = 0 := Fin.ext hz.1
      have e2 : m2 = 0 := Fin.ext hz.2
      subst e1 e2
      simp [extract, stdTime, firstSome, matchItems, renderT, isDig_dch cfg hc, dictMerge, dictSet, Timex.assign,
        parseNatDv, dv_dch cfg hc, Timex.setHour, Timex.setMinute, formatT, formatFuel, infer, isDate, isDateRange,
        isDuration, isTime, isDefinite, truthyO, truthyS, formatTime, eq0, Num.eqInt, Num.scaled, pow10, Timex.hour,
        Timex.minute, Timex.second, normT, bind, Except.bind, pure, Except.pure, fixed2_dg', h58, dch_ne, ne_dch]
    · have hz' : ¬ (m1 = 0 ∧ m2 = 0) := fun h => hz ⟨by simp [h.1], by simp [h.2]⟩
      have hne : ¬ ((m1.val : Int) * 10 + (m2.val : Int) = 0) := by omega
      simp [extract, stdTime, firstSome, matchItems, renderT, isDig_dch cfg hc, dictMerge, dictSet, Timex.assign,
        parseNatDv, dv_dch cfg hc, Timex.setHour, Timex.setMinute, formatT, formatFuel, infer, isDate, isDateRange,
        isDuration, isTime, isDefinite, truthyO, truthyS, formatTime, eq0, Num.eqInt, Num.scaled, pow10, Timex.hour,
        Timex.minute, Timex.second, normT, bind, Except.bind, pure, Except.pure, fixed2_dg', h58, dch_ne, ne_dch,
        hz', hne]
  case hms h1 h2 m1 m2 s1 s2 =>
    by_cases hs : s1.val = 0 ∧ s2.val = 0
    · have e1 : s1 = 0 := Fin.ext hs.1
      have e2 : s2 = 0 := Fin.ext hs.2
      subst e1 e2
      by_cases hz : m1.val = 0 ∧ m2.val = 0
      · have e1 : m1 = 0 := Fin.ext hz.1
        have e2 : m2 = 0 := Fin.ext hz.2
        subst e1 e2
        simp [extract, stdTime, firstSome, matchItems, renderT, isDig_dch cfg hc, dictMerge, dictSet, Timex.assign,
        parseNatDv, dv_dch cfg hc, Timex.setHour, Timex.setMinute, Timex.setSecond, formatT, formatFuel, infer, isDate,
        isDateRange, isDuration, isTime, isDefinite, truthyO, truthyS, formatTime, eq0, Num.eqInt, Num.scaled, pow10,
        Timex.hour, Timex.minute, Timex.second, normT, bind, Except.bind, pure, Except.pure, fixed2_dg', h58, dch_ne,
        ne_dch]
      · have hz' : ¬ (m1 = 0 ∧ m2 = 0) := fun h => hz ⟨by simp [h.1], by simp [h.2]⟩
        have hne : ¬ ((m1.val : Int) * 10 + (m2.val : Int) = 0) := by omega
        simp [extract, stdTime, firstSome, matchItems, renderT, isDig_dch cfg hc, dictMerge, dictSet, Timex.assign,
        parseNatDv, dv_dch cfg hc, Timex.setHour, Timex.setMinute, Timex.setSecond, formatT, formatFuel, infer, isDate,
        isDateRange, isDuration, isTime, isDefinite, truthyO, truthyS, formatTime, eq0, Num.eqInt, Num.scaled, pow10,
        Timex.hour, Timex.minute, Timex.second, normT, bind, Except.bind, pure, Except.pure, fixed2_dg', h58, dch_ne,
        ne_dch, hz', hne]
    · have hs' : ¬ (s1 = 0 ∧ s2 = 0) := fun h => hs ⟨by simp [h.1], by simp [h.2]⟩
      have hne : ¬ ((s1.val : Int) * 10 + (s2.val : Int) = 0) := by omega
      simp [extract, stdTime, firstSome, matchItems, renderT, isDig_dch cfg hc, dictMerge, dictSet, Timex.assign,
        parseNatDv, dv_dch cfg hc, Timex.setHour, Timex.setMinute, Timex.setSecond, formatT, formatFuel, infer, isDate,
        isDateRange, isDuration, isTime, isDefinite, truthyO, truthyS, formatTime, eq0, Num.eqInt, Num.scaled, pow10,
        Timex.hour, Timex.minute, Timex.second, normT, bind, Except.bind, pure, Except.pure, fixed2_dg', h58, dch_ne,
        ne_dch, hs', hne]

/-- a time and its canonical form have the same field values (`T05:00` ≡ `T05`: `hour = 5` makes
`minute = second = 0`) -/
theorem parse_normT (cfg : Cfg) (hc : CfgOK cfg) (g : TimeForm) :
    parse cfg (renderT (normT g)) = parse cfg (renderT g) := by
  have h58 : isDig cfg.dv 58 = false := by simp [isDig, hc.dv.2 58 (by decide)]
  rw [parse_renderT cfg hc, parse_renderT cfg hc, extract_date_nil cfg hc, hc.time]
  cases g
  case pod p => rfl
  case h h1 h2 => rfl
  case hm h1 h2 m1 m2 =>
    by_cases hz : m1.val = 0 ∧ m2.val = 0
    · have e1 : m1 = 0 := Fin.ext hz.1
      have e2 : m2 = 0 := Fin.ext hz.2
      subst e1 e2
      simp [extract, stdTime, firstSome, matchItems, renderT, isDig_dch cfg hc, dictMerge, dictSet, Timex.assign,
        parseNatDv, dv_dch cfg hc, Timex.setHour, Timex.setMinute, Timex.setSecond, normT, h58, dch_ne, ne_dch]
    · have hz' : ¬ (m1 = 0 ∧ m2 = 0) := fun h => hz ⟨by simp [h.1], by simp [h.2]⟩
      simp [normT, hz']
  case hms h1 h2 m1 m2 s1 s2 =>
    by_cases hs : s1.val = 0 ∧ s2.val = 0
    · have e1 : s1 = 0 := Fin.ext hs.1
      have e2 : s2 = 0 := Fin.ext hs.2
      subst e1 e2
      by_cases hz : m1.val = 0 ∧ m2.val = 0
      · have e1 : m1 = 0 := Fin.ext hz.1
        have e2 : m2 = 0 := Fin.ext hz.2
        subst e1 e2
        simp [extract, stdTime, firstSome, matchItems, renderT, isDig_dch cfg hc, dictMerge, dictSet, Timex.assign,
        parseNatDv, dv_dch cfg hc, Timex.setHour, Timex.setMinute, Timex.setSecond, normT, h58, dch_ne, ne_dch]
      · have hz' : ¬ (m1 = 0 ∧ m2 = 0) := fun h => hz ⟨by simp [h.1], by simp [h.2]⟩
        simp [extract, stdTime, firstSome, matchItems, renderT, isDig_dch cfg hc, dictMerge, dictSet, Timex.assign,
        parseNatDv, dv_dch cfg hc, Timex.setHour, Timex.setMinute, Timex.setSecond, normT, h58, dch_ne, ne_dch, hz']
    · have hs' : ¬ (s1 = 0 ∧ s2 = 0) := fun h => hs ⟨by simp [h.1], by simp [h.2]⟩
      simp [normT, hs']

theorem normT_idem (g : TimeForm) : normT (normT g) = normT g := by
  cases g <;> simp [normT] <;> (repeat' split) <;> simp_all [normT]

end

/-! ## date + time combinations -/

theorem parse_renderDT (cfg : Cfg) (hc : CfgOK cfg) (f : DateForm) (g : TimeForm) (hf : Combinable f) :
    parse cfg (renderD f ++ renderT g) =
      Timex.assign cfg.dv {} (dictMerge (extract cfg.dv cfg.date (renderD f)) (extract cfg.dv cfg.time (renderT g))) := by
  cases f <;> simp only [Combinable] at hf <;> cases g <;> (try rename_i p; cases p) <;>
    simp [parse, parseInto, extractDateTime, renderD, renderT, sPresentRef, indexOf, dch_ne, ne_dch, podStr]

theorem format_parse_DT (cfg : Cfg) (hc : CfgOK cfg) (f : DateForm) (g : TimeForm) (hf : Combinable f) :
    formatT (parse cfg (renderD f ++ renderT g)) = .ok (renderD f ++ renderT (normT g)) := by
  have h88 : isDig cfg.dv 88 = false := by simp [isDig, hc.dv.2 88 (by decide)]
  have h45 : isDig cfg.dv 45 = false := by simp [isDig, hc.dv.2 45 (by decide)]
  have h87 : isDig cfg.dv 87 = false := by simp [isDig, hc.dv.2 87 (by decide)]
  have h58 : isDig cfg.dv 58 = false := by simp [isDig, hc.dv.2 58 (by decide)]
  rw [parse_renderDT cfg hc f g hf, hc.date, hc.time]
  cases g
  case pod p =>
    cases f <;> simp only [Combinable] at hf <;> cases p <;>
      (try (have hw : ¬ ((‹Dg›.val : Int) = 0) := by omega)) <;>
      simp [extract, stdDate, stdTime, xxxx, seasons, partsOfDay, firstSome, matchItems, renderD, renderT,
      isDig_dch cfg hc, startsWith, dch_ne, ne_dch, podStr, dictMerge, dictSet, Timex.assign, parseNatDv, dv_dch cfg hc,
      h88, h45, h87, h58, Timex.setHour, Timex.setMinute, Timex.setSecond, formatT, formatFuel, infer, isDate,
      isDateRange, isDuration, isTime, isDefinite, truthyO, truthyS, Num.truthy, formatDate, formatTime,
      formatTimeRange, andChainNotNone, eq0, Num.eqInt, Num.scaled, pow10, Timex.hour, Timex.minute, Timex.second,
      sXXXX, sWXX, normT, bind, Except.bind, pure, Except.pure, fixed2_dg', fixed4_dg', str1_dg', isDig, hc.dv.2, hf]
  case h h1 h2 =>
    cases f <;> simp only [Combinable] at hf <;>
      simp [extract, stdDate, stdTime, xxxx, seasons, partsOfDay, firstSome, matchItems, renderD, renderT,
      isDig_dch cfg hc, startsWith, dch_ne, ne_dch, podStr, dictMerge, dictSet, Timex.assign, parseNatDv, dv_dch cfg hc,
      h88, h45, h87, h58, Timex.setHour, Timex.setMinute, Timex.setSecond, formatT, formatFuel, infer, isDate,
      isDateRange, isDuration, isTime, isDefinite, truthyO, truthyS, Num.truthy, formatDate, formatTime,
      formatTimeRange, andChainNotNone, eq0, Num.eqInt, Num.scaled, pow10, Timex.hour, Timex.minute, Timex.second,
      sXXXX, sWXX, normT, bind, Except.bind, pure, Except.pure, fixed2_dg', fixed4_dg', str1_dg', isDig, hc.dv.2, hf]
  case hm h1 h2 m1 m2 =>
    by_cases hz : m1.val = 0 ∧ m2.val = 0
    · have e1 : m1 = 0 := Fin.ext hz.1
      have e2 : m2 = 0 := Fin.ext hz.2
      subst e1 e2
      cases f <;> simp only [Combinable] at hf <;>
        simp [extract, stdDate, stdTime, xxxx, seasons, partsOfDay, firstSome, matchItems, renderD, renderT,
      isDig_dch cfg hc, startsWith, dch_ne, ne_dch, podStr, dictMerge, dictSet, Timex.assign, parseNatDv, dv_dch cfg hc,
      h88, h45, h87, h58, Timex.setHour, Timex.setMinute, Timex.setSecond, formatT, formatFuel, infer, isDate,
      isDateRange, isDuration, isTime, isDefinite, truthyO, truthyS, Num.truthy, formatDate, formatTime,
      formatTimeRange, andChainNotNone, eq0, Num.eqInt, Num.scaled, pow10, Timex.hour, Timex.minute, Timex.second,
      sXXXX, sWXX, normT, bind, Except.bind, pure, Except.pure, fixed2_dg', fixed4_dg', str1_dg', isDig, hc.dv.2, hf]
    · have hz' : ¬ (m1 = 0 ∧ m2 = 0) := fun h => hz ⟨by simp [h.1], by simp [h.2]⟩
      have hne : ¬ ((m1.val : Int) * 10 + (m2.val : Int) = 0) := by omega
      cases f <;> simp only [Combinable] at hf <;>
        simp [extract, stdDate, stdTime, xxxx, seasons, partsOfDay, firstSome, matchItems, renderD, renderT,
      isDig_dch cfg hc, startsWith, dch_ne, ne_dch, podStr, dictMerge, dictSet, Timex.assign, parseNatDv, dv_dch cfg hc,
      h88, h45, h87, h58, Timex.setHour, Timex.setMinute, Timex.setSecond, formatT, formatFuel, infer, isDate,
      isDateRange, isDuration, isTime, isDefinite, truthyO, truthyS, Num.truthy, formatDate, formatTime,
      formatTimeRange, andChainNotNone, eq0, Num.eqInt, Num.scaled, pow10, Timex.hour, Timex.minute, Timex.second,
      sXXXX, sWXX, normT, bind, Except.bind, pure, Except.pure, fixed2_dg', fixed4_dg', str1_dg', isDig, hc.dv.2, hf, hz', hne]
  case hms h1 h2 m1 m2 s1 s2 =>
    by_cases hs : s1.val = 0 ∧ s2.val = 0
    · have e1 : s1 = 0 := Fin.ext hs.1
      have e2 : s2 = 0 := Fin.ext hs.2
      subst e1 e2
      by_cases hz : m1.val = 0 ∧ m2.val = 0
      · have e1 : m1 = 0 := Fin.ext hz.1
        have e2 : m2 = 0 := Fin.ext hz.2
        subst e1 e2
        cases f <;> simp only [Combinable] at hf <;>
          simp [extract, stdDate, stdTime, xxxx, seasons, partsOfDay, firstSome, matchItems, renderD, renderT,
      isDig_dch cfg hc, startsWith, dch_ne, ne_dch, podStr, dictMerge, dictSet, Timex.assign, parseNatDv, dv_dch cfg hc,
      h88, h45, h87, h58, Timex.setHour, Timex.setMinute, Timex.setSecond, formatT, formatFuel, infer, isDate,
      isDateRange, isDuration, isTime, isDefinite, truthyO, truthyS, Num.truthy, formatDate, formatTime,
      formatTimeRange, andChainNotNone, eq0, Num.eqInt, Num.scaled, pow10, Timex.hour, Timex.minute, Timex.second,
      sXXXX, sWXX, normT, bind, Except.bind, pure, Except.pure, fixed2_dg', fixed4_dg', str1_dg', isDig, hc.dv.2, hf]
      · have hz' : ¬ (m1 = 0 ∧ m2 = 0) := fun h => hz ⟨by simp [h.1], by simp [h.2]⟩
        have hne : ¬ ((m1.val : Int) * 10 + (m2.val : Int) = 0) := by omega
        cases f <;> simp only [Combinable] at hf <;>
          simp [extract, stdDate, stdTime, xxxx, seasons, partsOfDay, firstSome, matchItems, renderD, renderT,
      isDig_dch cfg hc, startsWith, dch_ne, ne_dch, podStr, dictMerge, dictSet, Timex.assign, parseNatDv, dv_dch cfg hc,
      h88, h45, h87, h58, Timex.setHour, Timex.setMinute, Timex.setSecond, formatT, formatFuel, infer, isDate,
      isDateRange, isDuration, isTime, isDefinite, truthyO, truthyS, Num.truthy, formatDate, formatTime,
      formatTimeRange, andChainNotNone, eq0, Num.eqInt, Num.scaled, pow10, Timex.hour, Timex.minute, Timex.second,
      sXXXX, sWXX, normT, bind, Except.bind, pure, Except.pure, fixed2_dg', fixed4_dg', str1_dg', isDig, hc.dv.2, hf, hz', hne]
    · have hs' : ¬ (s1 = 0 ∧ s2 = 0) := fun h => hs ⟨by simp [h.1], by simp [h.2]⟩
      have hne : ¬ ((s1.val : Int) * 10 + (s2.val : Int) = 0) := by omega
      cases f <;> simp only [Combinable] at hf <;>
        simp [extract, stdDate, stdTime, xxxx, seasons, partsOfDay, firstSome, matchItems, renderD, renderT,
      isDig_dch cfg hc, startsWith, dch_ne, ne_dch, podStr, dictMerge, dictSet, Timex.assign, parseNatDv, dv_dch cfg hc,
      h88, h45, h87, h58, Timex.setHour, Timex.setMinute, Timex.setSecond, formatT, formatFuel, infer, isDate,
      isDateRange, isDuration, isTime, isDefinite, truthyO, truthyS, Num.truthy, formatDate, formatTime,
      formatTimeRange, andChainNotNone, eq0, Num.eqInt, Num.scaled, pow10, Timex.hour, Timex.minute, Timex.second,
      sXXXX, sWXX, normT, bind, Except.bind, pure, Except.pure, fixed2_dg', fixed4_dg', str1_dg', isDig, hc.dv.2, hf, hs', hne]

/-- a date + time and its canonical form have the same field values -/
theorem parse_norm_DT (cfg : Cfg) (hc : CfgOK cfg) (f : DateForm) (g : TimeForm) (hf : Combinable f) :
    parse cfg (renderD f ++ renderT (normT g)) = parse cfg (renderD f ++ renderT g) := by
  have h88 : isDig cfg.dv 88 = false := by simp [isDig, hc.dv.2 88 (by decide)]
  have h45 : isDig cfg.dv 45 = false := by simp [isDig, hc.dv.2 45 (by decide)]
  have h87 : isDig cfg.dv 87 = false := by simp [isDig, hc.dv.2 87 (by decide)]
  have h58 : isDig cfg.dv 58 = false := by simp [isDig, hc.dv.2 58 (by decide)]
  rw [parse_renderDT cfg hc f _ hf, parse_renderDT cfg hc f g hf, hc.date, hc.time]
  cases g
  case pod p => rfl
  case h h1 h2 => rfl
  case hm h1 h2 m1 m2 =>
    by_cases hz : m1.val = 0 ∧ m2.val = 0
    · have e1 : m1 = 0 := Fin.ext hz.1
      have e2 : m2 = 0 := Fin.ext hz.2
      subst e1 e2
      cases f <;> simp only [Combinable] at hf <;>
        simp [extract, stdDate, stdTime, xxxx, firstSome, matchItems, renderD, renderT, isDig_dch cfg hc, startsWith, dch_ne,
        ne_dch, dictMerge, dictSet, Timex.assign, parseNatDv, dv_dch cfg hc, h88, h45, h87, h58, Timex.setHour,
        Timex.setMinute, Timex.setSecond, normT, isDig, hc.dv.2]
    · have hz' : ¬ (m1 = 0 ∧ m2 = 0) := fun h => hz ⟨by simp [h.1], by simp [h.2]⟩
      simp [normT, hz']
  case hms h1 h2 m1 m2 s1 s2 =>
    by_cases hs : s1.val = 0 ∧ s2.val = 0
    · have e1 : s1 = 0 := Fin.ext hs.1
      have e2 : s2 = 0 := Fin.ext hs.2
      subst e1 e2
      by_cases hz : m1.val = 0 ∧ m2.val = 0
      · have e1 : m1 = 0 := Fin.ext hz.1
        have e2 : m2 = 0 := Fin.ext hz.2
        subst e1 e2
        cases f <;> simp only [Combinable] at hf <;>
          simp [extract, stdDate, stdTime, xxxx, firstSome, matchItems, renderD, renderT, isDig_dch cfg hc, startsWith, dch_ne,
        ne_dch, dictMerge, dictSet, Timex.assign, parseNatDv, dv_dch cfg hc, h88, h45, h87, h58, Timex.setHour,
        Timex.setMinute, Timex.setSecond, normT, isDig, hc.dv.2]
      · have hz' : ¬ (m1 = 0 ∧ m2 = 0) := fun h => hz ⟨by simp [h.1], by simp [h.2]⟩
        cases f <;> simp only [Combinable] at hf <;>
          simp [extract, stdDate, stdTime, xxxx, firstSome, matchItems, renderD, renderT, isDig_dch cfg hc, startsWith, dch_ne,
        ne_dch, dictMerge, dictSet, Timex.assign, parseNatDv, dv_dch cfg hc, h88, h45, h87, h58, Timex.setHour,
        Timex.setMinute, Timex.setSecond, normT, isDig, hc.dv.2, hz']
    · have hs' : ¬ (s1 = 0 ∧ s2 = 0) := fun h => hs ⟨by simp [h.1], by simp [h.2]⟩
      simp [normT, hs']


end RTV.Timex
