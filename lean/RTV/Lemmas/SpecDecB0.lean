import RTV.Lemmas.SpecRun
/-! Kernel evaluation of the spec cases (C19 through the model), family `ip_zh, code before the Resolution.type fix`. -/
namespace RTV.Seq
set_option maxRecDepth 100000
theorem spec_ip_zh_prefix_fast : ipPreFixOK fastSeqEnv true RTV.Gen.specCases_ipZh = true := by decide +kernel
end RTV.Seq
