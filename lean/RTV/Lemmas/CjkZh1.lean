import RTV.Lemmas.CjkZhBase
/-! kernel evaluation, chunks 25..49 (numerals 2500..4999) -/
namespace RTV.Num
theorem zh_c25 : zhChunk 25 = true := by decide +kernel
theorem zh_c26 : zhChunk 26 = true := by decide +kernel
theorem zh_c27 : zhChunk 27 = true := by decide +kernel
theorem zh_c28 : zhChunk 28 = true := by decide +kernel
theorem zh_c29 : zhChunk 29 = true := by decide +kernel
theorem zh_c30 : zhChunk 30 = true := by decide +kernel
theorem zh_c31 : zhChunk 31 = true := by decide +kernel
theorem zh_c32 : zhChunk 32 = true := by decide +kernel
theorem zh_c33 : zhChunk 33 = true := by decide +kernel
theorem zh_c34 : zhChunk 34 = true := by decide +kernel
theorem zh_c35 : zhChunk 35 = true := by decide +kernel
theorem zh_c36 : zhChunk 36 = true := by decide +kernel
theorem zh_c37 : zhChunk 37 = true := by decide +kernel
theorem zh_c38 : zhChunk 38 = true := by decide +kernel
theorem zh_c39 : zhChunk 39 = true := by decide +kernel
theorem zh_c40 : zhChunk 40 = true := by decide +kernel
theorem zh_c41 : zhChunk 41 = true := by decide +kernel
theorem zh_c42 : zhChunk 42 = true := by decide +kernel
theorem zh_c43 : zhChunk 43 = true := by decide +kernel
theorem zh_c44 : zhChunk 44 = true := by decide +kernel
theorem zh_c45 : zhChunk 45 = true := by decide +kernel
theorem zh_c46 : zhChunk 46 = true := by decide +kernel
theorem zh_c47 : zhChunk 47 = true := by decide +kernel
theorem zh_c48 : zhChunk 48 = true := by decide +kernel
theorem zh_c49 : zhChunk 49 = true := by decide +kernel
end RTV.Num
