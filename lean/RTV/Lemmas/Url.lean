import RTV.Model.SeqEnv
import RTV.Lemmas.Seq
import RTV.Lemmas.ReCap
import RTV.Lemmas.SpecRun
import RTV.Gen.UrlGrammar
/-! `BaseURLExtractor`: what every reported entity is (for any regexes, TLD list and text), and the comparison used for
the explicit URL grammar. -/
namespace RTV.Url
open RTV.Py RTV.Re RTV.Match RTV.Seq

theorem filterM?_mem {α : Type} (p : α → Option Bool) : ∀ (l r : List α), filterM? p l = some r →
    ∀ x ∈ r, x ∈ l ∧ p x = some true := by
  intro l
  induction l with
  | nil => intro r h x hx; simp [filterM?] at h; subst h; simp at hx
  | cons y ys ih =>
    intro r h x hx
    simp only [filterM?, bind, Option.bind] at h
    cases hy : p y with
    | none => simp [hy] at h
    | some b =>
      cases hr : filterM? p ys with
      | none => simp [hy, hr] at h
      | some r' =>
        simp [hy, hr, pure] at h
        subst h
        by_cases hb : b = true
        · subst hb
          simp at hx
          rcases hx with rfl | hx
          · exact ⟨by simp, hy⟩
          · have := ih r' hr x hx; exact ⟨by simp [this.1], this.2⟩
        · have hb' : b = false := by simpa using hb
          subst hb'
          simp at hx
          have := ih r' hr x hx; exact ⟨by simp [this.1], this.2⟩

theorem findAllCap_match {T : Tables} {s : Array Nat} {g : Nat} {r : RE} {a b : Nat} {c : Cap}
    (h : (a, b, c) ∈ findAllCap T s g r) : Matches T r s a b := by
  have hm : (a, b) ∈ (findAllCap T s g r).map (fun p => (p.1, p.2.1)) := List.mem_map.2 ⟨(a, b, c), h, rfl⟩
  rw [findAllCap_spans] at hm
  exact findAll_sound _ hm

/-- the three ways a URL entity can come about -/
inductive Origin (E : UrlEnv) (s : Str) (a b : Nat) : Prop
  | ip (hm : Matches E.T E.ipUrl s.toArray a b) (ht : ambiguousTime E (sliceI s a b) = false)
  | url (c : Cap) (hm : Matches E.T E.url s.toArray a b) (hc : (a, b, c) ∈ findAllCap E.T s.toArray E.gTld E.url)
      (hl : tldListed E (capText s c) = some true) (ht : ambiguousTime E (sliceI s a b) = false)
  | url2 (c : Cap) (hm : Matches E.T E.url2 s.toArray a b) (hc : (a, b, c) ∈ findAllCap E.T s.toArray E.gTld2 E.url2)
      (hl : tldListed E (capText s c) = some true) (ht : ambiguousTime E (sliceI s a b) = false)

theorem validTld_true {E : UrlEnv} {s : Str} {m : Nat × Nat × Cap} (h : validTld E s m = some true) :
    tldListed E (capText s m.2.2) = some true ∧ ambiguousTime E (sliceI s m.1 m.2.1) = false := by
  unfold validTld at h
  cases hl : tldListed E (capText s m.2.2) with
  | none => simp [hl] at h
  | some l =>
    simp [hl] at h
    by_cases ha : ambiguousTime E (sliceI s m.1 m.2.1) = true
    · simp [ha] at h
    · simp [ha] at h
      exact ⟨by rw [h], by simpa using ha⟩

/-- C13 (URL, soundness of the extractor): every entity `BaseURLExtractor.extract` reports has exactly the span of a
match of one of its three regexes that passed `_is_valid_match`: an IP-URL match, or a match whose `Tld` group is a
listed TLD (through the `StringMatcher` model of C16) — and in both cases not an ambiguous time term (`7.am`). -/
theorem url_reported_valid (E : UrlEnv) (s : Str) (ers : List ER) (h : urlExtract E s = some ers) :
    ∀ r ∈ ers, ∃ b, r.len = b - r.start ∧ r.data = "Url" ∧ Origin E s r.start b := by
  intro r hr
  unfold urlExtract at h
  cases hv : validMatches E s with
  | none => simp [hv] at h
  | some ms =>
    simp [hv] at h
    subst h
    unfold seqSweep at hr
    split at hr
    · simp at hr
    · obtain ⟨b, hm, hl⟩ := sweepGo_mem _ _ _ _ _ _ _ r hr
      refine ⟨b, hl, ?_⟩
      unfold validMatches at hv
      simp only [bind, Option.bind, pure] at hv
      cases hb : filterM? (validTld E s) (findAllCap E.T s.toArray E.gTld E.url) with
      | none => simp [hb] at hv
      | some bs =>
        cases hc : filterM? (validTld E s) (findAllCap E.T s.toArray E.gTld2 E.url2) with
        | none => simp [hb, hc] at hv
        | some cs =>
          simp only [hb, hc] at hv
          injection hv with hv
          subst hv
          simp only [List.mem_append] at hm
          rcases hm with (hm | hm) | hm
          · have t := tagged_mem hm
            have hf := List.mem_filter.1 t.1
            refine ⟨t.2, .ip (findAll_sound _ hf.1) ?_⟩
            have := hf.2
            unfold validIp at this
            simpa using this
          · have t := tagged_mem hm
            obtain ⟨m, hmem, he⟩ := List.mem_map.1 t.1
            obtain ⟨a', b', c'⟩ := m
            simp at he
            obtain ⟨rfl, rfl⟩ := he
            have fm := filterM?_mem _ _ _ hb _ hmem
            have vt := validTld_true fm.2
            exact ⟨t.2, .url c' (findAllCap_match fm.1) fm.1 vt.1 vt.2⟩
          · have t := tagged_mem hm
            obtain ⟨m, hmem, he⟩ := List.mem_map.1 t.1
            obtain ⟨a', b', c'⟩ := m
            simp at he
            obtain ⟨rfl, rfl⟩ := he
            have fm := filterM?_mem _ _ _ hc _ hmem
            have vt := validTld_true fm.2
            exact ⟨t.2, .url2 c' (findAllCap_match fm.1) fm.1 vt.1 vt.2⟩

end RTV.Url

namespace RTV.Seq
open RTV.Py

/-- the grammar comparison: the model reports exactly one entity — the URL, at its place, value = text -/
def urlOK (E : SeqEnv) (fam : List (Str × Nat × Str)) : Bool :=
  fam.all fun c =>
    urlModelRun E c.1 == [(ofString "url", c.2.1, (c.2.1 : Int) + c.2.2.length - 1, c.2.2, c.2.2)]

end RTV.Seq
