import RTV.Model.SpellEu
import RTV.Model.NumCfg
/-! Spanish ordinals below 1000 (`spellOrdEu esOrd`) against `getIntValue` with the regenerated Spanish maps: kernel
evaluation in chunks of 100, then the case split over the chunk index. Guard (what the faithful model gets right): the 17th of every hundred (`decimoséptimo` is not a key of the Spanish OrdinalNumberMap). -/
namespace RTV.Num

def esOrdGuard (n : Nat) : Bool := !(n % 100 == 17)

def esOrdCheck (n : Nat) : Bool :=
  n == 0 || !esOrdGuard n || decide (getIntValue true asciiDigits es.lang (spellOrdEu esOrd n).2 = .ok n)

def esOrdChunk (k : Nat) : Bool := (List.range 100).all fun i => esOrdCheck (100 * k + i)

theorem es_o0 : esOrdChunk 0 = true := by decide +kernel
theorem es_o1 : esOrdChunk 1 = true := by decide +kernel
theorem es_o2 : esOrdChunk 2 = true := by decide +kernel
theorem es_o3 : esOrdChunk 3 = true := by decide +kernel
theorem es_o4 : esOrdChunk 4 = true := by decide +kernel
theorem es_o5 : esOrdChunk 5 = true := by decide +kernel
theorem es_o6 : esOrdChunk 6 = true := by decide +kernel
theorem es_o7 : esOrdChunk 7 = true := by decide +kernel
theorem es_o8 : esOrdChunk 8 = true := by decide +kernel
theorem es_o9 : esOrdChunk 9 = true := by decide +kernel

theorem es_ochunks (k : Nat) (hk : k < 10) : esOrdChunk k = true := by
  match k, hk with
  | 0, _ => exact es_o0
  | 1, _ => exact es_o1
  | 2, _ => exact es_o2
  | 3, _ => exact es_o3
  | 4, _ => exact es_o4
  | 5, _ => exact es_o5
  | 6, _ => exact es_o6
  | 7, _ => exact es_o7
  | 8, _ => exact es_o8
  | 9, _ => exact es_o9
  | k + 10, h => omega

theorem es_ord_all (n : Nat) (h1 : 1 ≤ n) (h : n < 1000) (hg : esOrdGuard n = true) :
    getIntValue true asciiDigits es.lang (spellOrdEu esOrd n).2 = .ok n := by
  have hc := es_ochunks (n / 100) (by omega)
  simp only [esOrdChunk, List.all_eq_true, List.mem_range] at hc
  have := hc (n % 100) (Nat.mod_lt _ (by decide))
  have e : 100 * (n / 100) + n % 100 = n := Nat.div_add_mod n 100
  rw [e] at this
  have hz : (n == 0) = false := by simp; omega
  simpa [esOrdCheck, hg, hz] using this

end RTV.Num
