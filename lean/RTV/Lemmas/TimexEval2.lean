import RTV.Lemmas.TimexEval
import RTV.Lemmas.TimexGrammar
/-! End-to-end lemmas for `TimexRangeResolver.evaluate` (C15): the shape of the intermediate TIMEX strings
(`YYYY-MM-DD` + optional time of day), their re-parsing, and the four stages on such strings. -/
namespace RTV.Timex
open RTV.Py RTV.Cal
set_option linter.unusedSimpArgs false
set_option linter.unusedVariables false

/-- the time-of-day text `TimexFormat.format_time` prints for a `__time` -/
def fmtTime : Option Time → Str
  | none => []
  | some tm => formatTime { time := some tm }

/-- a definite date with an optional time of day -/
def dateTimex (d : Date) (tmo : Option Time) : Timex := { Timex.fromDate d with time := tmo }

theorem format_dateTimex (d : Date) (hv : d.valid = true) (tmo : Option Time) :
    formatT (dateTimex d tmo) = .ok (isoDateStr d ++ fmtTime tmo) := by
  obtain ⟨hy, hm, hd⟩ := valid_bounds d hv
  cases tmo with
  | none =>
    simpa [dateTimex, fmtTime, Timex.fromDate] using format_fromDate d hv
  | some tm =>
    simp [formatT, formatFuel, dateTimex, Timex.fromDate, infer, isDate, isDateRange, isDuration, isTime, isDefinite,
      truthyO, truthyS, formatDate, andChainNotNone, fixed4 d.y hy, fixed2 d.m hm, fixed2 d.d hd, isoDateStr, d2, d4,
      fmtTime, formatTime, Timex.hour, Timex.minute, Timex.second, bind, Except.bind, pure, Except.pure]

theorem toInt_int (i : Int) : (Num.int i).toInt = i := by
  simp [Num.toInt, Num.scaled, pow10]

/-- the candidate families of C15: weekday, month-day (each with or without a time of day), time of day -/
inductive CandKind : Timex → Prop
  | weekday (k : Int) (tmo : Option Time) : CandKind { dayOfWeek := some (.int k), time := tmo }
  | monthday (m dd : Int) (tmo : Option Time) :
      CandKind { month := some (.int m), dayOfMonth := some (.int dd), time := tmo }
  | timeonly (tm : Time) : CandKind { time := some tm }
  /-- a definite date (with or without a time): what stage 1 makes of a duration candidate and a datetime
  constraint; stage 2 treats it as a month-day (the year is overwritten by the years of the range) -/
  | definite (y m dd : Int) (tmo : Option Time) :
      CandKind { year := some (.int y), month := some (.int m), dayOfMonth := some (.int dd), time := tmo }

/-- `d` is an instance of the candidate `t`: same weekday / same month and day, and the candidate's time if it has one -/
def Instance (t : Timex) (d : Date) (tmo : Option Time) : Prop :=
  (∀ k, t.dayOfWeek = some (.int k) → (isoWeekdayOrd d.ord : Int) = k) ∧
  (∀ m dd, t.month = some (.int m) → t.dayOfMonth = some (.int dd) → (d.m : Int) = m ∧ (d.d : Int) = dd) ∧
  (∀ tm, t.time = some tm → tmo = some tm)

theorem candKind_nodur (t : Timex) (h : CandKind t) : (infer t).duration = false := by
  cases h <;> simp [infer, isDuration]

/-- stage 2 on one candidate and one range: every result is `YYYY-MM-DD` + the candidate's own time text, for a
valid date inside the range that is an instance of the candidate -/
theorem resolveCand_sound (t : Timex) (hk : CandKind t) (c : DateRange) (hc1 : 1 ≤ c.s) (hc2 : c.e ≤ maxOrd + 1)
    (x : List Str) (h : resolveDateAgainstConstraint t c = .ok x) :
    ∀ s ∈ x, ∃ d : Date, d.valid = true ∧ c.s ≤ d.ord ∧ d.ord < c.e ∧ Instance t d t.time ∧
      s = isoDateStr d ++ fmtTime t.time := by
  cases hk with
  | timeonly tm =>
    simp [resolveDateAgainstConstraint, andChainNotNone, pure, Except.pure] at h
    subst h; intro s hs; cases hs
  | weekday k tmo =>
    have heq : resolveDateAgainstConstraint { dayOfWeek := some (.int k), time := tmo } c =
        (do let ds ← datesMatchingDay (k - 1) c.s c.e
            ds.mapM fun o => formatT (dateTimex (Date.ofOrd o) tmo)) := by
      simp [resolveDateAgainstConstraint, andChainNotNone, dateTimex, Timex.fromDate, bind, Except.bind, pure, Except.pure]
    rw [heq] at h
    simp only [bind, Except.bind] at h
    cases hd : datesMatchingDay (k - 1) c.s c.e with
    | error e => simp [hd] at h
    | ok ds =>
      simp only [hd] at h
      intro s hs
      obtain ⟨o, ho, hf⟩ := (mapM_ok_mem _ ds x h s).mp hs
      have hsp := (datesMatchingDay_spec _ _ _ _ hd o).mp ho
      have hoo := ord_ofOrd o (by omega) (by omega)
      rw [format_dateTimex _ hoo.2] at hf
      cases hf
      refine ⟨Date.ofOrd o, hoo.2, by rw [hoo.1]; exact hsp.1, by rw [hoo.1]; exact hsp.2.1, ⟨?_, ?_, ?_⟩, rfl⟩
      · intro k' hk'
        simp at hk'; subst hk'
        rw [hoo.1]; unfold isoWeekdayOrd; have := hsp.2.2; unfold weekdayOrd at this; push_cast at this ⊢; omega
      · intro m dd hm; simp at hm
      · intro tm htm; exact htm
  | monthday m dd tmo =>
    intro s hs
    obtain ⟨yy, d, hd, h1, h2, hf⟩ := resolveMonthDay_sound _ c x (by simp [andChainNotNone]) h s hs
    simp only [dateFromTimex, toInt_int] at hd
    have hmk := hd
    unfold mkDate at hmk
    simp only at hmk
    split at hmk
    · rename_i hpos
      split at hmk
      · simp only [pure, Except.pure] at hmk
        cases hmk
        rename_i hv
        have e : ({ month := some (.int m), dayOfMonth := some (.int dd), time := tmo, year := some (.int (yy : Int)) } : Timex) =
            dateTimex ⟨(yy : Int).toNat, m.toNat, dd.toNat⟩ tmo := by
          simp [dateTimex, Timex.fromDate]
          omega
        rw [e, format_dateTimex _ hv] at hf
        cases hf
        refine ⟨_, hv, h1, h2, ⟨?_, ?_, ?_⟩, rfl⟩
        · intro k hk; simp at hk
        · intro m' dd' hm' hdd'
          simp at hm' hdd'; subst hm' hdd'
          simp; omega
        · intro tm htm; exact htm
      · cases hmk
    · cases hmk
  | definite y m dd tmo =>
    intro s hs
    obtain ⟨yy, d, hd, h1, h2, hf⟩ := resolveMonthDay_sound _ c x (by simp [andChainNotNone]) h s hs
    simp only [dateFromTimex, toInt_int] at hd
    have hmk := hd
    unfold mkDate at hmk
    simp only at hmk
    split at hmk
    · rename_i hpos
      split at hmk
      · simp only [pure, Except.pure] at hmk
        cases hmk
        rename_i hv
        have e : ({ month := some (.int m), dayOfMonth := some (.int dd), time := tmo, year := some (.int (yy : Int)) } : Timex) =
            dateTimex ⟨(yy : Int).toNat, m.toNat, dd.toNat⟩ tmo := by
          simp [dateTimex, Timex.fromDate]
          omega
        rw [e, format_dateTimex _ hv] at hf
        cases hf
        refine ⟨_, hv, h1, h2, ⟨?_, ?_, ?_⟩, rfl⟩
        · intro k hk; simp at hk
        · intro m' dd' hm' hdd'
          simp at hm' hdd'; subst hm' hdd'
          simp; omega
        · intro tm htm; exact htm
      · cases hmk
    · cases hmk

/-! ## re-parsing the intermediate strings -/

/-- the `i`-th decimal digit of `n` -/
def dg (n i : Nat) : Dg := ⟨n / 10 ^ i % 10, Nat.mod_lt _ (by decide)⟩

/-- a time of day as the patterns produce it: three `int`s below 100 -/
def ClockT (tm : Time) : Prop := ∃ h m s : Nat, h < 100 ∧ m < 100 ∧ s < 100 ∧ tm = ⟨.int h, .int m, .int s⟩

def dateForm (d : Date) : DateForm :=
  .date (dg d.y 3) (dg d.y 2) (dg d.y 1) (dg d.y 0) (dg d.m 1) (dg d.m 0) (dg d.d 1) (dg d.d 0)

def hmsForm (h m s : Nat) : TimeForm := .hms (dg h 1) (dg h 0) (dg m 1) (dg m 0) (dg s 1) (dg s 0)

theorem isoDateStr_render (d : Date) (hy : d.y < 10000) (hm : d.m < 100) (hd : d.d < 100) :
    isoDateStr d = renderD (dateForm d) := by
  have e1 : d.y / 1000 % 10 = d.y / 1000 := by omega
  have e2 : d.m / 10 % 10 = d.m / 10 := by omega
  have e3 : d.d / 10 % 10 = d.d / 10 := by omega
  simp [isoDateStr, renderD, dateForm, dg, dch, d2, d4, e1, e2, e3]

theorem fmtTime_render (h m s : Nat) (hh : h < 100) (hm : m < 100) (hs : s < 100) :
    fmtTime (some ⟨.int h, .int m, .int s⟩) = renderT (normT (hmsForm h m s)) := by
  have eh : h / 10 % 10 = h / 10 := by omega
  have em : m / 10 % 10 = m / 10 := by omega
  have es : s / 10 % 10 = s / 10 := by omega
  have z2 : fixedFormat (some (.int 0)) 2 = [48, 48] := by decide
  by_cases h1 : m = 0 <;> by_cases h2 : s = 0
  · subst h1 h2
    simp [fmtTime, formatTime, Timex.hour, Timex.minute, Timex.second, eq0, Num.eqInt, Num.scaled, pow10, fixed2 h hh,
      hmsForm, normT, dg, renderT, dch, eh]
  · subst h1
    have : ¬ (s < 10 ∧ s % 10 = 0) := by omega
    simp [fmtTime, formatTime, Timex.hour, Timex.minute, Timex.second, eq0, Num.eqInt, Num.scaled, pow10, fixed2 h hh,
      fixed2 s hs, z2, hmsForm, normT, dg, renderT, dch, eh, es, h2, this]
  · subst h2
    have : ¬ (m < 10 ∧ m % 10 = 0) := by omega
    simp [fmtTime, formatTime, Timex.hour, Timex.minute, Timex.second, eq0, Num.eqInt, Num.scaled, pow10, fixed2 h hh,
      fixed2 m hm, hmsForm, normT, dg, renderT, dch, eh, em, h1, this]
  · have : ¬ (s < 10 ∧ s % 10 = 0) := by omega
    simp [fmtTime, formatTime, Timex.hour, Timex.minute, Timex.second, eq0, Num.eqInt, Num.scaled, pow10, fixed2 h hh,
      fixed2 m hm, fixed2 s hs, hmsForm, normT, dg, renderT, dch, eh, em, es, h1, h2, this]

theorem parse_date_fields (cfg : Cfg) (hc : CfgOK cfg) (y1 y2 y3 y4 m1 m2 d1 d2 : Dg) :
    parse cfg (renderD (.date y1 y2 y3 y4 m1 m2 d1 d2)) =
      { year := some (.int ((((y1.val * 10 + y2.val) * 10 + y3.val) * 10 + y4.val : Nat) : Int)),
        month := some (.int ((m1.val * 10 + m2.val : Nat) : Int)),
        dayOfMonth := some (.int ((d1.val * 10 + d2.val : Nat) : Int)) } := by
  rw [parse_renderD cfg hc, hc.date]
  simp [extract, stdDate, firstSome, matchItems, renderD, isDig_dch cfg hc, Timex.assign, parseNatDv, dv_dch cfg hc]

theorem parse_date_hms_fields (cfg : Cfg) (hc : CfgOK cfg) (y1 y2 y3 y4 m1 m2 d1 d2 h1 h2 mi1 mi2 s1 s2 : Dg) :
    parse cfg (renderD (.date y1 y2 y3 y4 m1 m2 d1 d2) ++ renderT (.hms h1 h2 mi1 mi2 s1 s2)) =
      { year := some (.int ((((y1.val * 10 + y2.val) * 10 + y3.val) * 10 + y4.val : Nat) : Int)),
        month := some (.int ((m1.val * 10 + m2.val : Nat) : Int)),
        dayOfMonth := some (.int ((d1.val * 10 + d2.val : Nat) : Int)),
        time := some ⟨.int ((h1.val * 10 + h2.val : Nat) : Int), .int ((mi1.val * 10 + mi2.val : Nat) : Int),
                      .int ((s1.val * 10 + s2.val : Nat) : Int)⟩ } := by
  have h58 : isDig cfg.dv 58 = false := by simp [isDig, hc.dv.2 58 (by decide)]
  rw [parse_renderDT cfg hc _ _ (by simp [Combinable]), hc.date, hc.time]
  simp [extract, stdDate, stdTime, firstSome, matchItems, renderD, renderT, isDig_dch cfg hc, dictMerge, dictSet,
    Timex.assign, parseNatDv, dv_dch cfg hc, Timex.setHour, Timex.setMinute, Timex.setSecond, h58, dch_ne, ne_dch]

/-- **re-parsing**: the string stage 2/3 hands on, `YYYY-MM-DD` + optional time text, parses back to exactly the
definite date with that time -/
theorem reparse (cfg : Cfg) (hc : CfgOK cfg) (d : Date) (hv : d.valid = true) (tmo : Option Time)
    (hclk : ∀ tm, tmo = some tm → ClockT tm) : parse cfg (isoDateStr d ++ fmtTime tmo) = dateTimex d tmo := by
  obtain ⟨hy, hm, hd⟩ := valid_bounds d hv
  rw [isoDateStr_render d hy hm hd]
  cases tmo with
  | none =>
    simp only [fmtTime, List.append_nil, dateForm]
    rw [parse_date_fields cfg hc]
    simp only [dateTimex, Timex.fromDate, dg]
    have e1 : ((d.y / 10 ^ 3 % 10 * 10 + d.y / 10 ^ 2 % 10) * 10 + d.y / 10 ^ 1 % 10) * 10 + d.y / 10 ^ 0 % 10 = d.y := by omega
    have e2 : d.m / 10 ^ 1 % 10 * 10 + d.m / 10 ^ 0 % 10 = d.m := by omega
    have e3 : d.d / 10 ^ 1 % 10 * 10 + d.d / 10 ^ 0 % 10 = d.d := by omega
    simp only [e1, e2, e3]
  | some tm =>
    obtain ⟨h, m, s, hh, hmm, hs, rfl⟩ := hclk tm rfl
    rw [fmtTime_render h m s hh hmm hs, parse_norm_DT cfg hc _ _ (by simp [dateForm, Combinable])]
    simp only [dateForm, hmsForm]
    rw [parse_date_hms_fields cfg hc]
    simp only [dateTimex, Timex.fromDate, dg]
    have e1 : ((d.y / 10 ^ 3 % 10 * 10 + d.y / 10 ^ 2 % 10) * 10 + d.y / 10 ^ 1 % 10) * 10 + d.y / 10 ^ 0 % 10 = d.y := by omega
    have e2 : d.m / 10 ^ 1 % 10 * 10 + d.m / 10 ^ 0 % 10 = d.m := by omega
    have e3 : d.d / 10 ^ 1 % 10 * 10 + d.d / 10 ^ 0 % 10 = d.d := by omega
    have e4 : h / 10 ^ 1 % 10 * 10 + h / 10 ^ 0 % 10 = h := by omega
    have e5 : m / 10 ^ 1 % 10 * 10 + m / 10 ^ 0 % 10 = m := by omega
    have e6 : s / 10 ^ 1 % 10 * 10 + s / 10 ^ 0 % 10 = s := by omega
    simp only [e1, e2, e3, e4, e5, e6]

/-! ## stages 3 and 4 on such strings -/

/-- `s` is `YYYY-MM-DD` + optional time text of a valid date and a clock-like time -/
def Desc (s : Str) (d : Date) (tmo : Option Time) : Prop :=
  d.valid = true ∧ (∀ tm, tmo = some tm → ClockT tm) ∧ s = isoDateStr d ++ fmtTime tmo

theorem setAll (t : Timex) (tm : Time) :
    ((t.setHour (some tm.hour)).setMinute (some tm.minute)).setSecond (some tm.second) = { t with time := some tm } := by
  cases ht : t.time <;> simp [Timex.setHour, Timex.setMinute, Timex.setSecond, ht]

theorem infer_dateTimex (d : Date) (tmo : Option Time) :
    (infer (dateTimex d tmo)).date = true ∧ (infer (dateTimex d tmo)).time = tmo.isSome ∧
      (infer (dateTimex d tmo)).timerange = false := by
  cases tmo <;> simp [infer, dateTimex, Timex.fromDate, isDate, isTime, isDuration]

/-- the inner loop of stage 3 (one dated candidate without a time, all constraint times) -/
theorem innerTimes (d : Date) : ∀ (times : List Time) (st : Timex × List Str) (res : Timex × List Str) (tmo0 : Option Time),
    st.1 = dateTimex d tmo0 →
    times.foldlM (fun (st : Timex × List Str) tm => do
        let t' := ((st.1.setHour (some tm.hour)).setMinute (some tm.minute)).setSecond (some tm.second)
        let v ← formatT t'
        pure (t', st.2 ++ [v])) st = .ok res →
    ∀ v, v ∈ res.2 ↔ (v ∈ st.2 ∨ ∃ tm ∈ times, formatT (dateTimex d (some tm)) = .ok v) := by
  intro times
  induction times with
  | nil =>
    intro st res tmo0 h1 h2 v
    simp [List.foldlM, pure, Except.pure] at h2
    subst h2; simp
  | cons tm rest ih =>
    intro st res tmo0 h1 h2 v
    simp only [List.foldlM, bind, Except.bind] at h2
    have e : ((st.1.setHour (some tm.hour)).setMinute (some tm.minute)).setSecond (some tm.second) = dateTimex d (some tm) := by
      rw [setAll, h1]; rfl
    rw [e] at h2
    cases hf : formatT (dateTimex d (some tm)) with
    | error er => simp [hf] at h2
    | ok w =>
      simp only [hf, pure, Except.pure] at h2
      have := ih (dateTimex d (some tm), st.2 ++ [w]) res (some tm) rfl h2 v
      rw [this]
      simp only [List.mem_append, List.mem_cons, List.not_mem_nil, or_false]
      constructor
      · rintro ((h | h) | ⟨tm', h, hh⟩)
        · exact Or.inl h
        · exact Or.inr ⟨tm, Or.inl rfl, by rw [hf, h]⟩
        · exact Or.inr ⟨tm', Or.inr h, hh⟩
      · rintro (h | ⟨tm', h | h, hh⟩)
        · exact Or.inl (Or.inl h)
        · subst h; rw [hf] at hh; cases hh; exact Or.inl (Or.inr rfl)
        · exact Or.inr ⟨tm', h, hh⟩

theorem foldlM_append_mem' {α β : Type} (G : List β → α → R (List β)) (f : α → R (List β))
    (hG : ∀ acc x, G acc x = (do let r ← f x; pure (acc ++ r))) (l : List α) (init out : List β)
    (h : l.foldlM G init = .ok out) :
    ∀ s, s ∈ out ↔ (s ∈ init ∨ ∃ x ∈ l, ∃ r, f x = .ok r ∧ s ∈ r) := by
  have : G = fun acc x => (do let r ← f x; pure (acc ++ r)) := by funext acc x; exact hG acc x
  subst this
  exact foldlM_append_mem f l init out h

/-- the loop body of `resolve_by_time_constraints` -/
def stepG (cfg : Cfg) (times : List Time) : List Str → Str → R (List Str) := fun acc c => do
    let t := parse cfg c
    let ty := infer t
    if ty.date && !ty.time then
      let (_, out) ← times.foldlM (fun (st : Timex × List Str) tm => do
        let t' := ((st.1.setHour (some tm.hour)).setMinute (some tm.minute)).setSecond (some tm.second)
        let v ← formatT t'
        return (t', st.2 ++ [v])) (t, [])
      return acc ++ out
    else
      let v ← formatT t
      return acc ++ [v]

theorem resolveByTimeConstraints_eq (cfg : Cfg) (cands : List Str) (tcs : List Timex) :
    resolveByTimeConstraints cfg cands tcs =
      (let times := (tcs.filter fun t => (infer t).time).map timeFromTimex
       if times.isEmpty then pure cands else do
         let res ← cands.foldlM (stepG cfg times) []
         pure (removeDuplicates res)) := rfl

/-- what the loop body contributes for one string -/
def contribG (cfg : Cfg) (times : List Time) (c : Str) : R (List Str) := do
  let t := parse cfg c
  if (infer t).date && !(infer t).time then do
    let r ← times.foldlM (fun (st : Timex × List Str) tm => do
      let t' := ((st.1.setHour (some tm.hour)).setMinute (some tm.minute)).setSecond (some tm.second)
      let v ← formatT t'
      pure (t', st.2 ++ [v])) (t, [])
    pure r.2
  else do
    let v ← formatT t
    pure [v]

theorem stepG_eq (cfg : Cfg) (times : List Time) (acc : List Str) (c : Str) :
    stepG cfg times acc c = (do let r ← contribG cfg times c; pure (acc ++ r)) := by
  unfold stepG contribG
  simp only [bind, Except.bind, pure, Except.pure]
  split
  · cases List.foldlM (m := R) _ (parse cfg c, ([] : List Str)) times <;> rfl
  · cases formatT (parse cfg c) <;> rfl

/-- **stage 3** (`resolve_by_time_constraints`): a dated string keeps its date; it keeps its own time if it has one,
otherwise it gets the time of one of the constraints that carry a time -/
theorem timeStage_sound (cfg : Cfg) (hc : CfgOK cfg) (b : List Str) (tcs : List Timex) (c : List Str)
    (hb : ∀ s ∈ b, ∃ d tmo, Desc s d tmo)
    (hclk : ∀ t ∈ tcs, (infer t).time = true → ClockT (timeFromTimex t))
    (h : resolveByTimeConstraints cfg b tcs = .ok c) :
    ∀ s' ∈ c, ∃ s ∈ b, ∃ d tmo tmo', Desc s d tmo ∧ Desc s' d tmo' ∧ (∀ tm, tmo = some tm → tmo' = some tm) := by
  rw [resolveByTimeConstraints_eq] at h
  simp only at h
  split at h
  · simp only [pure, Except.pure] at h; cases h
    intro s' hs'
    obtain ⟨d, tmo, hd⟩ := hb s' hs'
    exact ⟨s', hs', d, tmo, tmo, hd, hd, fun _ h => h⟩
  · simp only [bind, Except.bind] at h
    cases hres : b.foldlM (stepG cfg ((tcs.filter fun t => (infer t).time).map timeFromTimex)) [] with
    | error e => simp [hres] at h
    | ok res =>
      simp only [hres, pure, Except.pure] at h
      cases h
      intro s' hs'
      rw [mem_removeDuplicates] at hs'
      have hm := (foldlM_append_mem' _ _ (stepG_eq cfg _) b [] res hres s').mp hs'
      simp only [List.not_mem_nil, false_or] at hm
      obtain ⟨s, hs, r, hr, hsr⟩ := hm
      obtain ⟨d, tmo, hd⟩ := hb s hs
      refine ⟨s, hs, d, tmo, ?_⟩
      have hp : parse cfg s = dateTimex d tmo := by rw [hd.2.2]; exact reparse cfg hc d hd.1 tmo hd.2.1
      have hi := infer_dateTimex d tmo
      unfold contribG at hr
      simp only [hp, hi.1, hi.2.1, Bool.true_and] at hr
      cases tmo with
      | some tm =>
        simp only [Option.isSome_some, Bool.not_true, Bool.false_eq_true, if_false, bind, Except.bind] at hr
        rw [format_dateTimex d hd.1] at hr
        simp only [pure, Except.pure] at hr
        cases hr
        simp at hsr
        exact ⟨some tm, hd, by rw [hsr]; exact ⟨hd.1, hd.2.1, rfl⟩, fun _ h => h⟩
      | none =>
        simp only [Option.isSome_none, Bool.not_false, if_true, bind, Except.bind] at hr
        cases hfold : List.foldlM (fun (st : Timex × List Str) tm => do
            let t' := ((st.1.setHour (some tm.hour)).setMinute (some tm.minute)).setSecond (some tm.second)
            let v ← formatT t'
            pure (t', st.2 ++ [v])) (dateTimex d none, [])
            ((tcs.filter fun t => (infer t).time).map timeFromTimex) with
        | error e =>
          simp only [bind, Except.bind, pure, Except.pure] at hfold hr
          simp [hfold] at hr
        | ok st' =>
          have hin := innerTimes d _ (dateTimex d none, []) st' none rfl hfold s'
          simp only [bind, Except.bind, pure, Except.pure] at hfold hr
          simp only [hfold] at hr
          cases hr
          have := hin.mp hsr
          simp only [List.not_mem_nil, false_or] at this
          obtain ⟨tm, htm, hf⟩ := this
          rw [format_dateTimex d hd.1] at hf
          cases hf
          obtain ⟨t, ht, rfl⟩ := List.mem_map.mp htm
          have htt := (List.mem_filter.mp ht)
          have hck := hclk t htt.1 (by simpa using htt.2)
          refine ⟨some (timeFromTimex t), hd, ⟨hd.1, ?_, rfl⟩, fun tm h => by cases h⟩
          intro tm' h'; cases h'; exact hck

theorem collapseTimes_ne_nil (fuel : Nat) (rs out : List TimeRange) (h : collapseTimes fuel rs = .ok out)
    (hne : rs ≠ []) : out.isEmpty = false := by
  unfold collapseTimes at h
  cases hl : collapseLoop TimeRange.isOverlapping TimeRange.collapseOverlapping fuel rs with
  | none => simp [hl] at h
  | some l =>
    simp only [hl, pure, Except.pure] at h
    cases h
    have := sortBy_ne_nil (fun r : TimeRange => r.s) l (collapseLoop_ne_nil _ _ _ _ _ hl hne)
    cases hs : sortBy (fun r : TimeRange => r.s) l with
    | nil => exact absurd hs this
    | cons a r => rfl

/-- the loop body of `resolve_by_timerange_constraints` -/
def stepH (cfg : Cfg) (collapsed : List TimeRange) : List Str → Str → R (List Str) := fun acc c => do
    let t := parse cfg c
    let ty := infer t
    if ty.timerange then
      let r ← resolveTimerage cfg t collapsed
      return acc ++ r
    else if ty.time then
      let r ← resolveTime t collapsed
      return acc ++ r
    else return acc

theorem resolveByTimerangeConstraints_eq (cfg : Cfg) (fuel : Nat) (cands : List Str) (tcs : List Timex) :
    resolveByTimerangeConstraints cfg fuel cands tcs =
      (do let ranges ← (tcs.filter fun t => (infer t).timerange).mapM (timerangeFromTimex cfg)
          let collapsed ← collapseTimes fuel ranges
          if collapsed.isEmpty then pure cands else do
            let res ← cands.foldlM (stepH cfg collapsed) []
            pure (removeDuplicates res)) := rfl

def contribH (cfg : Cfg) (collapsed : List TimeRange) (c : Str) : R (List Str) :=
  let t := parse cfg c
  if (infer t).timerange then resolveTimerage cfg t collapsed
  else if (infer t).time then resolveTime t collapsed
  else pure []

theorem stepH_eq (cfg : Cfg) (collapsed : List TimeRange) (acc : List Str) (c : Str) :
    stepH cfg collapsed acc c = (do let r ← contribH cfg collapsed c; pure (acc ++ r)) := by
  unfold stepH contribH
  simp only [bind, Except.bind, pure, Except.pure]
  split
  · cases resolveTimerage cfg (parse cfg c) collapsed <;> rfl
  · split
    · cases resolveTime (parse cfg c) collapsed <;> rfl
    · simp

/-- **stage 4** (`resolve_by_timerange_constraints`) on dated strings: nothing new appears, and when time ranges are
supplied every surviving string has a time of day inside one of the SUPPLIED time ranges -/
theorem timerangeStage_sound (cfg : Cfg) (hc : CfgOK cfg) (fuel : Nat) (c : List Str) (tcs : List Timex)
    (out : List Str) (tranges : List TimeRange)
    (hcd : ∀ s ∈ c, ∃ d tmo, Desc s d tmo)
    (hr : (tcs.filter fun t => (infer t).timerange).mapM (timerangeFromTimex cfg) = .ok tranges)
    (h : resolveByTimerangeConstraints cfg fuel c tcs = .ok out) :
    ∀ s ∈ out, s ∈ c ∧ (tranges ≠ [] → ∃ tm ms, ∃ tr0 ∈ tranges, (parse cfg s).time = some tm ∧
      msOf tm.hour tm.minute tm.second = .ok ms ∧ tr0.s ≤ ms ∧ ms < tr0.e) := by
  rw [resolveByTimerangeConstraints_eq, hr] at h
  simp only [bind, Except.bind] at h
  cases hcol : collapseTimes fuel tranges with
  | error e => simp [hcol] at h
  | ok collapsed =>
    simp only [hcol] at h
    split at h
    · rename_i hemp
      simp only [pure, Except.pure] at h; cases h
      intro s hs
      refine ⟨hs, fun hne => ?_⟩
      have := collapseTimes_ne_nil fuel tranges collapsed hcol hne
      rw [this] at hemp; cases hemp
    · cases hres : c.foldlM (stepH cfg collapsed) [] with
      | error e => simp [hres] at h
      | ok res =>
        simp only [hres, pure, Except.pure] at h
        cases h
        intro s hs
        rw [mem_removeDuplicates] at hs
        have hm := (foldlM_append_mem' _ _ (stepH_eq cfg collapsed) c [] res hres s).mp hs
        simp only [List.not_mem_nil, false_or] at hm
        obtain ⟨s0, hs0, r, hr0, hsr⟩ := hm
        obtain ⟨d, tmo, hd⟩ := hcd s0 hs0
        have hp : parse cfg s0 = dateTimex d tmo := by rw [hd.2.2]; exact reparse cfg hc d hd.1 tmo hd.2.1
        have hi := infer_dateTimex d tmo
        unfold contribH at hr0
        simp only [hp, hi.2.2, Bool.false_eq_true, if_false, hi.2.1] at hr0
        cases tmo with
        | none =>
          simp only [Option.isSome_none, Bool.false_eq_true, if_false, pure, Except.pure] at hr0
          cases hr0; cases hsr
        | some tm =>
          simp only [Option.isSome_some, if_true] at hr0
          obtain ⟨k, hk, tm', ms, htm, hms, h1, h2, hf⟩ := resolveTime_sound _ collapsed r hr0 s hsr
          rw [format_dateTimex d hd.1] at hf
          cases hf
          have hss : isoDateStr d ++ fmtTime (some tm) = s0 := hd.2.2.symm
          rw [hss]
          refine ⟨hs0, fun hne => ?_⟩
          obtain ⟨tr0, htr0, h3, h4⟩ := collapseTimes_sound fuel tranges collapsed hcol k hk ms h1 h2
          exact ⟨tm', ms, tr0, htr0, by rw [hp]; exact htm, hms, h3, h4⟩

theorem dateTimex_inj (d1 d2 : Date) (t1 t2 : Option Time) (h : dateTimex d1 t1 = dateTimex d2 t2) :
    d1 = d2 ∧ t1 = t2 := by
  have hy := congrArg Timex.year h
  have hm := congrArg Timex.month h
  have hd := congrArg Timex.dayOfMonth h
  have ht := congrArg Timex.time h
  simp [dateTimex, Timex.fromDate] at hy hm hd ht
  cases d1; cases d2
  simp only [Date.mk.injEq]
  simp only at hy hm hd
  exact ⟨⟨by omega, by omega, by omega⟩, ht⟩

/-! ## stages 1 and 2 for a list of candidates -/

/-- the loop body of `resolve_durations` -/
def stepD (cfg : Cfg) (tcs : List Timex) : List Str → Str → R (List Str) := fun acc c => do
    let t := parse cfg c
    if (infer t).duration then
      let rs ← resolveDuration t tcs
      let ss ← rs.mapM formatT
      return acc ++ ss
    else return acc ++ [c]

theorem resolveDurations_eq (cfg : Cfg) (cands : List Str) (tcs : List Timex) :
    resolveDurations cfg cands tcs = cands.foldlM (stepD cfg tcs) [] := rfl

theorem resolveDurations_nodur (cfg : Cfg) (tcs : List Timex) : ∀ (cands init : List Str),
    (∀ c ∈ cands, (infer (parse cfg c)).duration = false) →
    cands.foldlM (stepD cfg tcs) init = .ok (init ++ cands) := by
  intro cands
  induction cands with
  | nil => intro init _; simp [List.foldlM, pure, Except.pure]
  | cons a rest ih =>
    intro init h
    have ha := h a (by simp)
    have step : stepD cfg tcs init a = .ok (init ++ [a]) := by
      unfold stepD; simp [ha, pure, Except.pure]
    rw [List.foldlM_cons, step]
    simp only [bind, Except.bind]
    have := ih (init ++ [a]) (fun c hc => h c (by simp [hc]))
    simpa using this

theorem collapsed_bounds (fuel : Nat) (ranges collapsed : List DateRange) (hc : collapseDates fuel ranges = .ok collapsed)
    (hb : ∀ r ∈ ranges, 1 ≤ r.s ∧ r.e ≤ maxOrd + 1) : ∀ r ∈ collapsed, 1 ≤ r.s ∧ r.e ≤ maxOrd + 1 := by
  unfold collapseDates at hc
  cases hl : collapseLoop DateRange.isOverlapping DateRange.collapseOverlapping fuel ranges with
  | none => simp [hl] at hc
  | some l =>
    simp only [hl, pure, Except.pure] at hc
    cases hc
    intro r hr'
    rw [mem_sortBy] at hr'
    refine collapseLoop_inv _ _ (fun r => 1 ≤ r.s ∧ r.e ≤ maxOrd + 1) ?_ _ _ _ hl hb r hr'
    intro a b ha hb'
    simp [DateRange.collapseOverlapping]; omega

/-- **stage 2** for a list of candidates of the C15 families and at least one date range: every string it hands on is
`YYYY-MM-DD` + the candidate's own time text, for a valid date inside a SUPPLIED date range that is an instance of
that candidate -/
theorem dateStage_sound (cfg : Cfg) (fuel : Nat) (cands : List Str) (tcs : List Timex) (b : List Str)
    (dranges : List DateRange)
    (hk : ∀ c ∈ cands, CandKind (parse cfg c))
    (h1 : (tcs.filter fun t => (infer t).daterange).mapM daterangeFromTimex = .ok dranges) (hne : dranges ≠ [])
    (h : resolveByDateRangeConstraints cfg fuel cands tcs = .ok b) :
    ∀ s ∈ b, ∃ c ∈ cands, ∃ d : Date, ∃ r0 ∈ dranges, d.valid = true ∧ r0.s ≤ d.ord ∧ d.ord < r0.e ∧
      Instance (parse cfg c) d (parse cfg c).time ∧ s = isoDateStr d ++ fmtTime (parse cfg c).time := by
  have hb : ∀ r ∈ dranges, 1 ≤ r.s ∧ r.e ≤ maxOrd + 1 := by
    intro r hr
    obtain ⟨t, _, ht⟩ := (mapM_ok_mem _ _ _ h1 r).mp hr
    have := daterangeFromTimex_bounds t r ht
    omega
  cases hc : collapseDates fuel dranges with
  | error e =>
    unfold resolveByDateRangeConstraints at h
    simp [h1, hc, bind, Except.bind] at h
  | ok collapsed =>
    have hnn := collapseDates_ne_nil _ _ _ hc hne
    have hcov := collapseDates_sound fuel dranges collapsed hc
    have hcb := collapsed_bounds fuel dranges collapsed hc hb
    intro s hs
    obtain ⟨c, hcm, k, hk', x, hx, hsx⟩ := (dateStage_mem cfg fuel cands tcs b dranges collapsed h1 hc hnn h s).mp hs
    obtain ⟨d, hv, hd1, hd2, hinst, hstr⟩ := resolveCand_sound _ (hk c hcm) k (hcb k hk').1 (hcb k hk').2 x hx s hsx
    obtain ⟨r0, hr0, hr1, hr2⟩ := hcov k hk' d.ord hd1 hd2
    exact ⟨c, hcm, d, r0, hr0, hv, hr1, hr2, hinst, hstr⟩

/-! ## completeness of the month-day branch -/

theorem year_mono (a b : Date) (ha : a.valid = true) (hb : b.valid = true) (h : a.ord ≤ b.ord) : a.y ≤ b.y := by
  by_cases hlt : b.y < a.y
  · have := ord_lt_of_lexLt b a hb ha (Or.inl hlt)
    omega
  · omega

theorem yearsLoop_complete (t : Timex) (c : DateRange) : ∀ (n y : Nat) (out : List Str),
    yearsLoop t c n y = .ok out → ∀ yy : Nat, y ≤ yy → yy < y + n → ∀ d v,
      dateFromTimex { t with year := some (.int yy) } = .ok d → c.s ≤ d.ord → d.ord < c.e →
      formatT { t with year := some (.int yy) } = .ok v → v ∈ out := by
  intro n
  induction n with
  | zero => intro y out h yy h1 h2; omega
  | succ n ih =>
    intro y out h yy h1 h2 d v hd hs he hf
    simp only [yearsLoop, bind, Except.bind] at h
    cases hr : resolveDefiniteAgainstConstraint { t with year := some (.int y) } c with
    | error e => simp [hr] at h
    | ok r =>
      simp only [hr] at h
      cases h2' : yearsLoop t c n (y + 1) with
      | error e => simp [h2'] at h
      | ok rest =>
        simp only [h2', pure, Except.pure] at h
        cases h
        by_cases hy : yy = y
        · subst hy
          unfold resolveDefiniteAgainstConstraint at hr
          simp only [hd, bind, Except.bind, pure, Except.pure, hs, he, and_self, if_true, hf] at hr
          cases hr
          simp
        · exact List.mem_append.mpr (Or.inr (ih (y + 1) rest h2' yy (by omega) (by omega) d v hd hs he hf))

/-- the month-day branch returns the candidate for **every** year in which the date exists and lies in the range -/
theorem resolveMonthDay_complete (t : Timex) (c : DateRange) (out : List Str) (hc1 : 1 ≤ c.s) (hc2 : c.e ≤ maxOrd)
    (hmd : andChainNotNone [t.month, t.dayOfMonth] = true) (h : resolveDateAgainstConstraint t c = .ok out)
    (yy : Nat) (d : Date) (v : Str) (hd : dateFromTimex { t with year := some (.int yy) } = .ok d) (hdy : d.y = yy)
    (hs : c.s ≤ d.ord) (he : d.ord < c.e) (hf : formatT { t with year := some (.int yy) } = .ok v) (hv : v ≠ []) :
    v ∈ out := by
  have hvd := dateFromTimex_valid _ d hd
  have o1 := ord_ofOrd c.s hc1 (by omega)
  have o2 := ord_ofOrd c.e (by omega) hc2
  have y1 := year_mono (Date.ofOrd c.s) d o1.2 hvd (by rw [o1.1]; exact hs)
  have y2 := year_mono d (Date.ofOrd c.e) hvd o2.2 (by rw [o2.1]; omega)
  unfold resolveDateAgainstConstraint at h
  simp only [hmd, if_true, bind, Except.bind] at h
  split at h
  · cases hy : yearsLoop t c ((Date.ofOrd c.e).y + 1 - (Date.ofOrd c.s).y) (Date.ofOrd c.s).y with
    | error e => simp [hy] at h
    | ok r =>
      simp only [hy, pure, Except.pure] at h
      cases h
      rw [List.mem_filter]
      refine ⟨yearsLoop_complete t c _ _ r hy yy (by omega) (by omega) d v hd hs he hf, by simpa using hv⟩
  · cases h

end RTV.Timex
