import RTV.Model.SpellEu
import RTV.Model.NumCfg
/-! Portuguese numerals below 1000 (`spellEu ptSpell`) against `getIntValue` with the regenerated Portuguese maps and the
culture's `resolve_composite_number`: kernel evaluation in chunks of 50 (one declaration per chunk keeps the
kernel's caches small), then the case split over the chunk index. -/
namespace RTV.Num

/-- the numerals the statement is about (exact guard: what the faithful model gets right) -/
def ptGuard (n : Nat) : Bool := true

def ptCheck (n : Nat) : Bool :=
  !ptGuard n || decide (getIntValue true asciiDigits pt.lang (spellEu ptSpell n).2 = .ok n)

def ptChunk (k : Nat) : Bool := (List.range 50).all fun i => ptCheck (50 * k + i)

theorem pt_c0 : ptChunk 0 = true := by decide +kernel
theorem pt_c1 : ptChunk 1 = true := by decide +kernel
theorem pt_c2 : ptChunk 2 = true := by decide +kernel
theorem pt_c3 : ptChunk 3 = true := by decide +kernel
theorem pt_c4 : ptChunk 4 = true := by decide +kernel
theorem pt_c5 : ptChunk 5 = true := by decide +kernel
theorem pt_c6 : ptChunk 6 = true := by decide +kernel
theorem pt_c7 : ptChunk 7 = true := by decide +kernel
theorem pt_c8 : ptChunk 8 = true := by decide +kernel
theorem pt_c9 : ptChunk 9 = true := by decide +kernel
theorem pt_c10 : ptChunk 10 = true := by decide +kernel
theorem pt_c11 : ptChunk 11 = true := by decide +kernel
theorem pt_c12 : ptChunk 12 = true := by decide +kernel
theorem pt_c13 : ptChunk 13 = true := by decide +kernel
theorem pt_c14 : ptChunk 14 = true := by decide +kernel
theorem pt_c15 : ptChunk 15 = true := by decide +kernel
theorem pt_c16 : ptChunk 16 = true := by decide +kernel
theorem pt_c17 : ptChunk 17 = true := by decide +kernel
theorem pt_c18 : ptChunk 18 = true := by decide +kernel
theorem pt_c19 : ptChunk 19 = true := by decide +kernel

theorem pt_chunks (k : Nat) (hk : k < 20) : ptChunk k = true := by
  match k, hk with
  | 0, _ => exact pt_c0
  | 1, _ => exact pt_c1
  | 2, _ => exact pt_c2
  | 3, _ => exact pt_c3
  | 4, _ => exact pt_c4
  | 5, _ => exact pt_c5
  | 6, _ => exact pt_c6
  | 7, _ => exact pt_c7
  | 8, _ => exact pt_c8
  | 9, _ => exact pt_c9
  | 10, _ => exact pt_c10
  | 11, _ => exact pt_c11
  | 12, _ => exact pt_c12
  | 13, _ => exact pt_c13
  | 14, _ => exact pt_c14
  | 15, _ => exact pt_c15
  | 16, _ => exact pt_c16
  | 17, _ => exact pt_c17
  | 18, _ => exact pt_c18
  | 19, _ => exact pt_c19
  | k + 20, h => omega

theorem pt_all (n : Nat) (h : n < 1000) (hg : ptGuard n = true) :
    getIntValue true asciiDigits pt.lang (spellEu ptSpell n).2 = .ok n := by
  have hc := pt_chunks (n / 50) (by omega)
  simp only [ptChunk, List.all_eq_true, List.mem_range] at hc
  have := hc (n % 50) (Nat.mod_lt _ (by decide))
  have e : 50 * (n / 50) + n % 50 = n := Nat.div_add_mod n 50
  rw [e] at this
  simpa [ptCheck, hg] using this

end RTV.Num
