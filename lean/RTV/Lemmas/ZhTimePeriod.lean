import RTV.Lemmas.DtPeriod
import RTV.Lemmas.Holiday
import RTV.Model.ZhTimePeriod
/-!
Helper lemmas for `RTV/Props/C10Zh.lean`: what the functions of `RTV.Model.ZhTimePeriod` compute. The clock-time TIMEX
`THH[:MM[:SS]]` reads back as the seconds since midnight of the `TimeResult`; `build_span` is `luis_time_span` of the
distance modulo one day; a time range whose two clock times differ is a consistent triple.
-/
set_option linter.unusedVariables false
set_option linter.unusedSimpArgs false
namespace RTV.ZhTP
open RTV.Cal RTV.DateUtils RTV.WF RTV.Periods RTV.DtPeriod

/-- a `TimeResult` as the time parser can hand it on for a clock time: hour 0..23, minute / second absent (−1) or
0..59, no second without a minute -/
def TR.ok (t : TR) : Prop :=
  0 ≤ t.hour ∧ t.hour < 24 ∧ -1 ≤ t.minute ∧ t.minute < 60 ∧ -1 ≤ t.second ∧ t.second < 60 ∧ (t.minute = -1 → t.second = -1)

/-- seconds since midnight of the clock time (absent fields count as 0) -/
def secsOf (t : TR) : Nat := (floor0 t.hour * 3600 + floor0 t.minute * 60 + floor0 t.second).toNat

theorem secsOf_lt (t : TR) (h : t.ok) : secsOf t < 86400 := by
  obtain ⟨h1, h2, h3, h4, h5, h6, _⟩ := h
  unfold secsOf floor0
  split <;> split <;> split <;> omega

/-- the distance from `l` to `r` modulo one day -/
def spanSecs (l r : TR) : Nat := (((secsOf r : Int) - secsOf l) % 86400).toNat

theorem spanSecs_lt (l r : TR) : spanSecs l r < 86400 := by unfold spanSecs; omega

theorem z_eq (x : Int) (h : -1 ≤ x) : (if x = -1 then 0 else x) = floor0 x := by
  unfold floor0; split <;> split <;> omega

theorem floor0_bounds (x : Int) (h1 : -1 ≤ x) (h2 : x < 60) : 0 ≤ floor0 x ∧ floor0 x < 60 := by
  unfold floor0; split <;> omega

theorem floor0_nonneg (x : Int) (h : 0 ≤ x) : floor0 x = x := by unfold floor0; split <;> omega

/-- the borrow arithmetic on plain numbers -/
theorem borrow_spec (lh lm ls rh rm rs : Int) (a1 : 0 ≤ lh) (a2 : lh < 24) (a3 : 0 ≤ lm) (a4 : lm < 60) (a5 : 0 ≤ ls) (a6 : ls < 60)
    (b1 : 0 ≤ rh) (b2 : rh < 24) (b3 : 0 ≤ rm) (b4 : rm < 60) (b5 : 0 ≤ rs) (b6 : rs < 60) (d : Int)
    (hd : d = ((rh * 3600 + rm * 60 + rs) - (lh * 3600 + lm * 60 + ls)) % 86400) :
    (if (if (if rs - ls < 0 then rm - lm - 1 else rm - lm) < 0 then rh - lh - 1 else rh - lh) < 0
       then (if (if rs - ls < 0 then rm - lm - 1 else rm - lm) < 0 then rh - lh - 1 else rh - lh) + 24
       else (if (if rs - ls < 0 then rm - lm - 1 else rm - lm) < 0 then rh - lh - 1 else rh - lh)) = d / 3600 ∧
    (if (if rs - ls < 0 then rm - lm - 1 else rm - lm) < 0 then (if rs - ls < 0 then rm - lm - 1 else rm - lm) + 60
       else (if rs - ls < 0 then rm - lm - 1 else rm - lm)) = d % 3600 / 60 ∧
    (if rs - ls < 0 then rs - ls + 60 else rs - ls) = d % 3600 % 60 := by
  subst hd
  by_cases c1 : rs - ls < 0 <;> simp only [c1, if_true, if_false]
  · by_cases c2 : rm - lm - 1 < 0 <;> simp only [c2, if_true, if_false]
    · by_cases c3 : rh - lh - 1 < 0 <;> simp only [c3, if_true, if_false] <;> omega
    · by_cases c3 : rh - lh < 0 <;> simp only [c3, if_true, if_false] <;> omega
  · by_cases c2 : rm - lm < 0 <;> simp only [c2, if_true, if_false]
    · by_cases c3 : rh - lh - 1 < 0 <;> simp only [c3, if_true, if_false] <;> omega
    · by_cases c3 : rh - lh < 0 <;> simp only [c3, if_true, if_false] <;> omega

/-- `build_span`'s borrow arithmetic is the decomposition of the distance modulo one day into hours, minutes, seconds -/
theorem spanParts_spec (l r : TR) (hl : l.ok) (hr : r.ok) :
    spanParts l r = (((spanSecs l r / 3600 : Nat) : Int), ((spanSecs l r % 3600 / 60 : Nat) : Int), ((spanSecs l r % 3600 % 60 : Nat) : Int)) := by
  obtain ⟨a1, a2, a3, a4, a5, a6, _⟩ := hl
  obtain ⟨b1, b2, b3, b4, b5, b6, _⟩ := hr
  have lm := floor0_bounds l.minute a3 a4
  have ls := floor0_bounds l.second a5 a6
  have rm := floor0_bounds r.minute b3 b4
  have rs := floor0_bounds r.second b5 b6
  have key := borrow_spec l.hour (floor0 l.minute) (floor0 l.second) r.hour (floor0 r.minute) (floor0 r.second)
    a1 a2 lm.1 lm.2 ls.1 ls.2 b1 b2 rm.1 rm.2 rs.1 rs.2 _ rfl
  unfold spanParts
  simp only [z_eq _ a3, z_eq _ a5, z_eq _ b3, z_eq _ b5]
  have hs : ((spanSecs l r : Nat) : Int) =
      ((r.hour * 3600 + floor0 r.minute * 60 + floor0 r.second) - (l.hour * 3600 + floor0 l.minute * 60 + floor0 l.second)) % 86400 := by
    unfold spanSecs secsOf
    rw [floor0_nonneg _ a1, floor0_nonneg _ b1]
    omega
  rw [← hs] at key
  have sub1 : ∀ a b : Int, a - b - 1 = a - 1 - b := by intro a b; omega
  rw [Prod.mk.injEq, Prod.mk.injEq]
  refine ⟨?_, ?_, ?_⟩
  · have := key.1; simp only [sub1] at this ⊢; omega
  · have := key.2.1; simp only [sub1] at this ⊢; omega
  · have := key.2.2; omega

theorem buildSpan_eq (l r : TR) (hl : l.ok) (hr : r.ok) : buildSpan l r = luisTimeSpan (spanSecs l r) := by
  have lt := spanSecs_lt l r
  unfold buildSpan
  rw [spanParts_spec l r hl hr]
  unfold luisTimeSpan
  simp only [intStr_natCast]
  have e0 : spanSecs l r / 86400 = 0 := by omega
  have e1 : spanSecs l r % 86400 = spanSecs l r := by omega
  rw [e0, e1]
  have c1 : (((spanSecs l r / 3600 : Nat) : Int) ≠ 0) ↔ (0 > 0 ∨ spanSecs l r / 3600 > 0) := by omega
  have c2 : (((spanSecs l r % 3600 / 60 : Nat) : Int) ≠ 0) ↔ (spanSecs l r % 3600 / 60 > 0) := by omega
  have c3 : (((spanSecs l r % 3600 % 60 : Nat) : Int) ≠ 0) ↔ (spanSecs l r % 3600 % 60 > 0) := by omega
  simp only [c1, c2, c3, Nat.zero_mul, Nat.zero_add]

/-! ### the clock-time TIMEX reads back -/

theorem fmt2_nat (n : Nat) (h : n < 100) : fmt2 (n : Int) = pad2 n := by
  unfold fmt2 pad2w
  rw [if_neg (by omega), Int.toNat_natCast, if_pos h]

theorem parsePoint_T (h m s : Nat) (hh : h < 24) (hm : m < 60) (hs : s < 60) :
    parsePoint ([84] ++ pad2 h) = some (none, some (h * 3600)) ∧
    parsePoint ([84] ++ pad2 h ++ [58] ++ pad2 m) = some (none, some (h * 3600 + m * 60)) ∧
    parsePoint ([84] ++ pad2 h ++ [58] ++ pad2 m ++ [58] ++ pad2 s) = some (none, some (h * 3600 + m * 60 + s)) := by
  refine ⟨?_, ?_, ?_⟩
  · have e := parseTime_formatTime h 0 0 hh (by omega) (by omega)
    simp only [formatTime, pad2, List.cons_append, List.nil_append] at e
    simp [parsePoint, parseDate, timexTime, pad2, e]
  · have e := parseTime_formatTime h m 0 hh hm (by omega)
    simp only [formatTime, pad2, List.cons_append, List.nil_append] at e
    simp [parsePoint, parseDate, timexTime, pad2, e]
  · have e := parseTime_formatTime h m s hh hm hs
    simp only [formatTime, pad2, List.cons_append, List.nil_append] at e
    simp [parsePoint, parseDate, timexTime, pad2, e]

/-- `format_time` of a datetime with these seconds since midnight -/
def fmtSecs (t : Nat) : Str := formatTime (t / 3600) (t / 60 % 60) (t % 60)

/-- `THH[:MM[:SS]]` of a clock time reads back as its seconds since midnight, and holds no comma -/
theorem buildTimex_parse (t : TR) (ht : t.ok) :
    parsePoint (buildTimex t) = some (none, some (secsOf t)) ∧ (∀ c ∈ buildTimex t, c ≠ 44) := by
  obtain ⟨a1, a2, a3, a4, a5, a6, a7⟩ := ht
  obtain ⟨h, hh⟩ : ∃ h : Nat, t.hour = h := ⟨t.hour.toNat, by omega⟩
  have hh24 : h < 24 := by omega
  by_cases cm : t.minute = -1
  · have cs := a7 cm
    have e : buildTimex t = [84] ++ pad2 h := by
      unfold buildTimex
      rw [hh, cm]
      simp [fmt2_nat h (by omega)]
    have v : secsOf t = h * 3600 := by
      unfold secsOf floor0; rw [hh, cm, cs]; simp; split <;> omega
    rw [e, v]
    exact ⟨(parsePoint_T h 0 0 hh24 (by omega) (by omega)).1, by intro c hc; simp [pad2] at hc; omega⟩
  · obtain ⟨m, hm⟩ : ∃ m : Nat, t.minute = m := ⟨t.minute.toNat, by omega⟩
    have hm60 : m < 60 := by omega
    by_cases cs : t.second = -1
    · have e : buildTimex t = [84] ++ pad2 h ++ [58] ++ pad2 m := by
        unfold buildTimex
        rw [hh, hm, cs]
        simp [fmt2_nat h (by omega), fmt2_nat m (by omega)]
      have v : secsOf t = h * 3600 + m * 60 := by
        unfold secsOf floor0; rw [hh, hm, cs]; simp; split <;> split <;> omega
      rw [e, v]
      exact ⟨(parsePoint_T h m 0 hh24 hm60 (by omega)).2.1, by intro c hc; simp [pad2] at hc; omega⟩
    · obtain ⟨s, hs⟩ : ∃ s : Nat, t.second = s := ⟨t.second.toNat, by omega⟩
      have hs60 : s < 60 := by omega
      have e : buildTimex t = [84] ++ pad2 h ++ [58] ++ pad2 m ++ [58] ++ pad2 s := by
        unfold buildTimex
        rw [hh, hm, hs]
        simp [fmt2_nat h (by omega), fmt2_nat m (by omega), fmt2_nat s (by omega)]
      have v : secsOf t = h * 3600 + m * 60 + s := by
        unfold secsOf floor0; rw [hh, hm, hs]; split <;> split <;> split <;> omega
      rw [e, v]
      exact ⟨(parsePoint_T h m s hh24 hm60 hs60).2.2, by intro c hc; simp [pad2] at hc; omega⟩

/-- **a Chinese time range whose two clock times differ is a consistent triple**: `(T…,T…,PT…)` written by `build_timex` /
`build_span` against the two values printed by `format_time` -/
theorem time_triple_ok (l r : TR) (hl : l.ok) (hr : r.ok) (hne : secsOf l ≠ secsOf r) :
    tripleOK (triple (buildTimex l) (buildTimex r) (buildSpan l r)) (some (fmtSecs (secsOf l))) (some (fmtSecs (secsOf r))) = true := by
  have pl := buildTimex_parse l hl
  have pr := buildTimex_parse r hr
  have ll := secsOf_lt l hl
  have lr := secsOf_lt r hr
  rw [buildSpan_eq l r hl hr]
  generalize hn : spanSecs l r = n
  have hnv : (n : Int) = ((secsOf r : Int) - secsOf l) % 86400 := by rw [← hn]; unfold spanSecs; omega
  have hpos : 0 < n := by omega
  have hP : luisTimeSpan n = 80 :: 84 :: (luisTimeSpan n).drop 2 := by simp [luisTimeSpan]
  have hrest : (luisTimeSpan n).drop 2 ≠ [] := by
    intro h
    have := ptSeconds_luisTimeSpan n 0
    rw [h] at this
    simp [ptSeconds] at this
    omega
  have hcP : ∀ x ∈ (luisTimeSpan n).drop 2, x ≠ 44 := fun x hx => luisTimeSpan_no_comma n x (List.mem_of_mem_drop hx)
  have key := tripleOK_PT (buildTimex l) (buildTimex r) ((luisTimeSpan n).drop 2) _ _ (fmtSecs (secsOf l)) (fmtSecs (secsOf r))
    pl.2 pr.2 hcP pl.1 pr.1 rfl rfl n (ptSeconds_luisTimeSpan n _) hrest (by unfold diffSeconds; simp only; rw [hnv])
  rw [← hP] at key
  simpa [triple] using key

/-- … and when they coincide the duration is the bare `PT`, which `tripleOK` rejects -/
theorem time_triple_empty (l r : TR) (hl : l.ok) (hr : r.ok) (he : secsOf l = secsOf r) :
    buildSpan l r = [80, 84] ∧
    tripleOK (triple (buildTimex l) (buildTimex r) (buildSpan l r)) (some (fmtSecs (secsOf l))) (some (fmtSecs (secsOf r))) = false := by
  have pl := buildTimex_parse l hl
  have pr := buildTimex_parse r hr
  have e : buildSpan l r = [80, 84] := by
    rw [buildSpan_eq l r hl hr]
    have : spanSecs l r = 0 := by unfold spanSecs; omega
    rw [this]; decide
  refine ⟨e, ?_⟩
  rw [e]
  have key := tripleOK_PT_eq (buildTimex l) (buildTimex r) [] _ _ (fmtSecs (secsOf l)) (fmtSecs (secsOf r)) pl.2 pr.2
    (by intro c hc; simp at hc) pl.1 pr.1
  have sh : triple (buildTimex l) (buildTimex r) [80, 84] = [40] ++ buildTimex l ++ [44] ++ buildTimex r ++ [44] ++ (80 :: 84 :: []) ++ [41] := by
    simp [triple]
  rw [sh, key]
  simp [ptSeconds, diffSeconds]

/-! ### shapes needed to paste a time range onto a date -/

theorem timexTime_hm (h m : Nat) (hh : h < 24) (hm : m < 60) :
    timexTime (84 :: (pad2 h ++ [58] ++ pad2 m)) = some (formatTime h m 0) ∧ parseTime (formatTime h m 0) = some (h * 3600 + m * 60) := by
  have e := parseTime_formatTime h m 0 hh hm (by omega)
  refine ⟨?_, by simpa using e⟩
  simp only [formatTime, pad2, List.cons_append, List.nil_append] at e
  simp [timexTime, formatTime, pad2, e]

/-- `build_timex` of a clock time: `T` followed by a tail without `T` and without comma that `timexTime` reads as the
seconds since midnight -/
theorem buildTimex_shape (t : TR) (ht : t.ok) :
    ∃ tt f, buildTimex t = 84 :: tt ∧ timexTime (84 :: tt) = some f ∧ parseTime f = some (secsOf t) ∧ 2 ≤ tt.length ∧
      (∀ x ∈ tt, x ≠ 44) ∧ (∀ x ∈ tt, x ≠ 84) := by
  obtain ⟨a1, a2, a3, a4, a5, a6, a7⟩ := ht
  obtain ⟨h, hh⟩ : ∃ h : Nat, t.hour = h := ⟨t.hour.toNat, by omega⟩
  have hh24 : h < 24 := by omega
  by_cases cm : t.minute = -1
  · have cs := a7 cm
    have e : buildTimex t = 84 :: pad2 h := by
      unfold buildTimex
      rw [hh, cm]
      simp [fmt2_nat h (by omega)]
    have v : secsOf t = h * 3600 := by
      unfold secsOf floor0; rw [hh, cm, cs]; simp; split <;> omega
    have k := timexTime_hour h hh24
    refine ⟨pad2 h, _, e, k.1, by rw [v]; exact k.2, by simp [pad2], ?_, ?_⟩ <;>
      (intro c hc; simp [pad2] at hc; omega)
  · obtain ⟨m, hm⟩ : ∃ m : Nat, t.minute = m := ⟨t.minute.toNat, by omega⟩
    have hm60 : m < 60 := by omega
    by_cases cs : t.second = -1
    · have e : buildTimex t = 84 :: (pad2 h ++ [58] ++ pad2 m) := by
        unfold buildTimex
        rw [hh, hm, cs]
        simp [fmt2_nat h (by omega), fmt2_nat m (by omega)]
      have v : secsOf t = h * 3600 + m * 60 := by
        unfold secsOf floor0; rw [hh, hm, cs]; simp; split <;> split <;> omega
      have k := timexTime_hm h m hh24 hm60
      refine ⟨_, _, e, k.1, by rw [v]; exact k.2, by simp [pad2], ?_, ?_⟩ <;>
        (intro c hc; simp [pad2] at hc; omega)
    · obtain ⟨s, hs⟩ : ∃ s : Nat, t.second = s := ⟨t.second.toNat, by omega⟩
      have hs60 : s < 60 := by omega
      have e : buildTimex t = 84 :: formatTime h m s := by
        unfold buildTimex
        rw [hh, hm, hs]
        simp [fmt2_nat h (by omega), fmt2_nat m (by omega), fmt2_nat s (by omega), formatTime]
      have v : secsOf t = h * 3600 + m * 60 + s := by
        unfold secsOf floor0; rw [hh, hm, hs]; split <;> split <;> split <;> omega
      have k := timexTime_hms h m s hh24 hm60 hs60
      refine ⟨_, _, e, k.1, by rw [v]; exact k.2, by simp [formatTime, pad2], ?_, ?_⟩ <;>
        (intro c hc; simp [formatTime, pad2] at hc; omega)

theorem natStr_no_T (n : Nat) : ∀ c ∈ natStr n, c ≠ 84 := by
  intro c hc; have := natStr_digits n c hc; simp [isDigit] at this; omega

/-- what `luis_time_span` writes after `PT` holds no `T` -/
theorem luisTimeSpan_rest_no_T (n : Nat) : ∀ c ∈ (luisTimeSpan n).drop 2, c ≠ 84 := by
  intro c hc
  simp only [luisTimeSpan, List.append_assoc, List.cons_append, List.nil_append, List.drop_succ_cons, List.drop_zero,
    List.mem_append] at hc
  rcases hc with hc | hc | hc
  · split at hc
    · simp only [List.mem_append, List.mem_singleton] at hc; rcases hc with hc | hc
      · exact natStr_no_T _ c hc
      · omega
    · simp at hc
  · split at hc
    · simp only [List.mem_append, List.mem_singleton] at hc; rcases hc with hc | hc
      · exact natStr_no_T _ c hc
      · omega
    · simp at hc
  · split at hc
    · simp only [List.mem_append, List.mem_singleton] at hc; rcases hc with hc | hc
      · exact natStr_no_T _ c hc
      · omega
    · simp at hc

/-- `merge_date_and_time_periods` on a time-range TIMEX `(T<ta>,T<tb>,PT<rest>)` whose three tails hold no further `T`:
the date's TIMEX is put in front of both points, the duration is copied; both ends take the date of the date value -/
theorem mergeDTP_shape (fd pd bt et : DateTime) (dx ta tb rest : Str)
    (ha : ∀ c ∈ ta, c ≠ 84) (hb : ∀ c ∈ tb, c ≠ 84) (hr : ∀ c ∈ rest, c ≠ 84) :
    mergeDateAndTimePeriods fd pd dx (triple (84 :: ta) (84 :: tb) (80 :: 84 :: rest)) bt et =
      .ok (triple (dx ++ 84 :: ta) (dx ++ 84 :: tb) (80 :: 84 :: rest))
        (withTime fd.date (hourOf bt) (minuteOf bt) (secondOf bt)) (withTime fd.date (hourOf et) (minuteOf et) (secondOf et))
        (withTime pd.date (hourOf bt) (minuteOf bt) (secondOf bt)) (withTime pd.date (hourOf et) (minuteOf et) (secondOf et)) := by
  have h1 : ∀ c ∈ ([40] : Str), c ≠ 84 := by intro c hc; simp at hc; omega
  have h2 : ∀ c ∈ ta ++ [44], c ≠ 84 := by
    intro c hc; simp only [List.mem_append, List.mem_singleton] at hc; rcases hc with hc | hc
    · exact ha c hc
    · omega
  have h3 : ∀ c ∈ tb ++ [44, 80], c ≠ 84 := by
    intro c hc; simp only [List.mem_append, List.mem_cons, List.mem_singleton] at hc
    rcases hc with hc | hc | hc | hc
    · exact hb c hc
    · omega
    · omega
    · simp at hc
  have h4 : ∀ c ∈ rest ++ [41], c ≠ 84 := by
    intro c hc; simp only [List.mem_append, List.mem_singleton] at hc; rcases hc with hc | hc
    · exact hr c hc
    · omega
  have sh : triple (84 :: ta) (84 :: tb) (80 :: 84 :: rest) =
      [40] ++ 84 :: ((ta ++ [44]) ++ 84 :: ((tb ++ [44, 80]) ++ 84 :: (rest ++ [41]))) := by simp [triple]
  have sp : WF.splitOn 84 (triple (84 :: ta) (84 :: tb) (80 :: 84 :: rest)) = [[40], ta ++ [44], tb ++ [44, 80], rest ++ [41]] := by
    rw [sh, splitOn_append 84 _ _ h1, splitOn_append 84 _ _ h2, splitOn_append 84 _ _ h3, splitOn_no_sep 84 _ h4]
  unfold mergeDateAndTimePeriods
  simp only [sp]
  simp [triple]

end RTV.ZhTP
