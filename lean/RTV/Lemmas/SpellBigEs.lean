import RTV.Lemmas.SpellBig
import RTV.Lemmas.SpellEsK
/-! Spanish: the side facts of `huge_value` for every multiplier 1..999 in front of a scale noun (kernel evaluation on
the regenerated maps in chunks of 100; only the forms that differ from the stand-alone numeral, and the forms behind the
Portuguese connector, are evaluated through `getIntValue`), the scale-word table, and the lift to every n < 10^15. -/
namespace RTV.Num

def esHChunk (j : Nat) : Bool :=
  (List.range 100).all fun i => 100 * j + i == 0 || hiFact esHuge es.lang (100 * j + i)

theorem es_h0 : esHChunk 0 = true := by decide +kernel
theorem es_h1 : esHChunk 1 = true := by decide +kernel
theorem es_h2 : esHChunk 2 = true := by decide +kernel
theorem es_h3 : esHChunk 3 = true := by decide +kernel
theorem es_h4 : esHChunk 4 = true := by decide +kernel
theorem es_h5 : esHChunk 5 = true := by decide +kernel
theorem es_h6 : esHChunk 6 = true := by decide +kernel
theorem es_h7 : esHChunk 7 = true := by decide +kernel
theorem es_h8 : esHChunk 8 = true := by decide +kernel
theorem es_h9 : esHChunk 9 = true := by decide +kernel

theorem es_hchunks (j : Nat) (hj : j < 10) : esHChunk j = true := by
  match j, hj with
  | 0, _ => exact es_h0
  | 1, _ => exact es_h1
  | 2, _ => exact es_h2
  | 3, _ => exact es_h3
  | 4, _ => exact es_h4
  | 5, _ => exact es_h5
  | 6, _ => exact es_h6
  | 7, _ => exact es_h7
  | 8, _ => exact es_h8
  | 9, _ => exact es_h9
  | j + 10, h => omega

theorem es_hfacts (g : Nat) (h1 : 1 ≤ g) (h2 : g < 1000) : hiFact esHuge es.lang g = true := by
  have hc := es_hchunks (g / 100) (by omega)
  simp only [esHChunk, List.all_eq_true, List.mem_range] at hc
  have := hc (g % 100) (Nat.mod_lt _ (by decide))
  have e : 100 * (g / 100) + g % 100 = g := Nat.div_add_mod g 100
  rw [e] at this
  have hz : (g == 0) = false := by simp; omega
  simpa [hz] using this

theorem es_scales : scalesOK es.lang 1000000 1000000000000000 esHuge.scales = true := by decide +kernel

theorem es_hugeHyps : HugeHyps esHuge es.lang 1000000 :=
  hugeHyps_wide esHuge es.lang rfl rfl (fun n h => es_all n h rfl) es_thousand_word es_kfacts
    (fun r hr => sub1e6_of' esBig es.lang (fun n h => es_all n h rfl) es_lift r hr) es_hfacts

/-- every numeral below 10^15 (guard: see `huge_value`) -/
theorem es_huge (n : Nat) (hn : n < 1000000000000000)
    (hg : ¬ (esHuge.big.eRule = true ∧ esHuge.big.omitOne = true ∧ n % 1000000 = 1000 ∧ 1000000 ≤ n)) :
    getIntValue true asciiDigits es.lang (spellHuge esHuge n).2 = .ok n :=
  huge_value esHuge es.lang 1000000 1000000000000000 es_hugeHyps es_scales n hn hg

end RTV.Num
