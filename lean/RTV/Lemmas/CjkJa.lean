import RTV.Lemmas.CjkJa0
import RTV.Lemmas.CjkJa1
import RTV.Lemmas.CjkJa2
import RTV.Lemmas.CjkJa3
/-! all chunks together: `spellJa n` is read back as `n` for every guarded `n < 10000` -/
namespace RTV.Num

theorem ja_chunks (k : Nat) (hk : k < 100) : jaChunk k = true := by
  match k, hk with
  | 0, _ => exact ja_c0
  | 1, _ => exact ja_c1
  | 2, _ => exact ja_c2
  | 3, _ => exact ja_c3
  | 4, _ => exact ja_c4
  | 5, _ => exact ja_c5
  | 6, _ => exact ja_c6
  | 7, _ => exact ja_c7
  | 8, _ => exact ja_c8
  | 9, _ => exact ja_c9
  | 10, _ => exact ja_c10
  | 11, _ => exact ja_c11
  | 12, _ => exact ja_c12
  | 13, _ => exact ja_c13
  | 14, _ => exact ja_c14
  | 15, _ => exact ja_c15
  | 16, _ => exact ja_c16
  | 17, _ => exact ja_c17
  | 18, _ => exact ja_c18
  | 19, _ => exact ja_c19
  | 20, _ => exact ja_c20
  | 21, _ => exact ja_c21
  | 22, _ => exact ja_c22
  | 23, _ => exact ja_c23
  | 24, _ => exact ja_c24
  | 25, _ => exact ja_c25
  | 26, _ => exact ja_c26
  | 27, _ => exact ja_c27
  | 28, _ => exact ja_c28
  | 29, _ => exact ja_c29
  | 30, _ => exact ja_c30
  | 31, _ => exact ja_c31
  | 32, _ => exact ja_c32
  | 33, _ => exact ja_c33
  | 34, _ => exact ja_c34
  | 35, _ => exact ja_c35
  | 36, _ => exact ja_c36
  | 37, _ => exact ja_c37
  | 38, _ => exact ja_c38
  | 39, _ => exact ja_c39
  | 40, _ => exact ja_c40
  | 41, _ => exact ja_c41
  | 42, _ => exact ja_c42
  | 43, _ => exact ja_c43
  | 44, _ => exact ja_c44
  | 45, _ => exact ja_c45
  | 46, _ => exact ja_c46
  | 47, _ => exact ja_c47
  | 48, _ => exact ja_c48
  | 49, _ => exact ja_c49
  | 50, _ => exact ja_c50
  | 51, _ => exact ja_c51
  | 52, _ => exact ja_c52
  | 53, _ => exact ja_c53
  | 54, _ => exact ja_c54
  | 55, _ => exact ja_c55
  | 56, _ => exact ja_c56
  | 57, _ => exact ja_c57
  | 58, _ => exact ja_c58
  | 59, _ => exact ja_c59
  | 60, _ => exact ja_c60
  | 61, _ => exact ja_c61
  | 62, _ => exact ja_c62
  | 63, _ => exact ja_c63
  | 64, _ => exact ja_c64
  | 65, _ => exact ja_c65
  | 66, _ => exact ja_c66
  | 67, _ => exact ja_c67
  | 68, _ => exact ja_c68
  | 69, _ => exact ja_c69
  | 70, _ => exact ja_c70
  | 71, _ => exact ja_c71
  | 72, _ => exact ja_c72
  | 73, _ => exact ja_c73
  | 74, _ => exact ja_c74
  | 75, _ => exact ja_c75
  | 76, _ => exact ja_c76
  | 77, _ => exact ja_c77
  | 78, _ => exact ja_c78
  | 79, _ => exact ja_c79
  | 80, _ => exact ja_c80
  | 81, _ => exact ja_c81
  | 82, _ => exact ja_c82
  | 83, _ => exact ja_c83
  | 84, _ => exact ja_c84
  | 85, _ => exact ja_c85
  | 86, _ => exact ja_c86
  | 87, _ => exact ja_c87
  | 88, _ => exact ja_c88
  | 89, _ => exact ja_c89
  | 90, _ => exact ja_c90
  | 91, _ => exact ja_c91
  | 92, _ => exact ja_c92
  | 93, _ => exact ja_c93
  | 94, _ => exact ja_c94
  | 95, _ => exact ja_c95
  | 96, _ => exact ja_c96
  | 97, _ => exact ja_c97
  | 98, _ => exact ja_c98
  | 99, _ => exact ja_c99
  | k + 100, h => omega

theorem ja_all (n : Nat) (h : n < 10000) (hg : jaGuard n = true) :
    cjkIntValue asciiDigits jaCjk (spellJa n) = n := by
  have hc := ja_chunks (n / 100) (by omega)
  simp only [jaChunk, List.all_eq_true, List.mem_range] at hc
  have := hc (n % 100) (Nat.mod_lt _ (by decide))
  have e : 100 * (n / 100) + n % 100 = n := Nat.div_add_mod n 100
  rw [e] at this
  simpa [jaCheck, hg] using this

end RTV.Num
