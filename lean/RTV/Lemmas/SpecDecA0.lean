import RTV.Lemmas.SpecRun
/-! Kernel evaluation of the spec cases (C19 through the model), family `ip_en, code before the Resolution.type fix`. -/
namespace RTV.Seq
set_option maxRecDepth 100000
theorem spec_ip_en_prefix_fast : ipPreFixOK fastSeqEnv false RTV.Gen.specCases_ipEn = true := by decide +kernel
end RTV.Seq
