import RTV.Lemmas.Url
/-! Kernel evaluation of the URL grammar family, chunk 0. -/
namespace RTV.Seq
set_option maxRecDepth 100000
theorem url_family0_fast : urlOK fastSeqEnv RTV.Gen.urlFamily0 = true := by decide +kernel
end RTV.Seq
