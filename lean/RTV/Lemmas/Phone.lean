import RTV.Model.Phone
/-! What survives the post-processing loop of `BasePhoneNumberExtractor.extract`, for ANY regex outcome
(`PhoneOracle`), mask list, text and candidate list. -/
namespace RTV.Phone
open RTV.Py RTV.Re RTV.Match RTV.Seq

/-- every result stems from a candidate whose verdict is not `drop`, and passes the mask filter -/
theorem postProcess_origin (O : PhoneOracle) (masks : List (Nat × Nat)) (source : Str) (ers : List ER) (r : ER)
    (h : r ∈ postProcess O masks source ers) :
    ∃ e ∈ ers, r ∈ applyVerdict e (judge O source e) ∧ maskKeep masks r = true := by
  unfold postProcess at h
  obtain ⟨h1, h2⟩ := List.mem_filter.1 h
  obtain ⟨e, he, hr⟩ := List.mem_flatMap.1 h1
  exact ⟨e, he, hr, h2⟩

/-- the digit-count / SSN / suffix / false-positive-prefix conditions every surviving candidate satisfies -/
structure Passed (O : PhoneOracle) (source : Str) (e : ER) : Prop where
  digits : 7 ≤ countDigits O e.text ∨ e.data = "ITPhoneNumber"
  notSsn : O.ssn e.text = false
  suffix : e.start + e.len < source.length → forbiddenSuffixMarkers.contains (source.getD (e.start + e.len) 0) = false
  notFp : ∀ f, O.fpPrefix = some f → f (sliceI source 0 ((e.start : Int) - 1)) = false

theorem judge_not_rejected {O : PhoneOracle} {source : Str} {e : ER} (h : judge O source e ≠ .drop) :
    rejected O source e = false ∧ judge O source e = judgeBoundary O source e := by
  unfold judge at h ⊢
  by_cases hr : rejected O source e = true
  · simp [hr] at h
  · simp [hr]

theorem judge_passed (O : PhoneOracle) (source : Str) (e : ER) (h : judge O source e ≠ .drop) : Passed O source e := by
  have hr := (judge_not_rejected h).1
  unfold rejected at hr
  simp only [Bool.or_eq_false_iff] at hr
  obtain ⟨⟨⟨⟨⟨c1, c1'⟩, _⟩, _⟩, c4⟩, c5⟩ := hr
  refine ⟨?_, c1', ?_, ?_⟩
  · by_cases hd : countDigits O e.text < 7
    · simp [hd] at c1; exact .inr c1
    · exact .inl (by omega)
  · intro hlt; simpa [hlt] using c4
  · intro f hf; simpa [hf] using c5

/-- `keep`: the candidate is reported unchanged, and what stands before it -/
theorem judge_keep (O : PhoneOracle) (source : Str) (e : ER) (h : judge O source e = .keep) :
    e.start = 0 ∨
    (let ch := (index source ((e.start : Int) - 1)).getD 0
     (boundaryMarkers.contains ch = false ∧
        (O.forbiddenPrefix.contains ch = false ∨
          (ch = 58 ∧ O.colonOk (sliceI source 0 ((e.start : Int) - 1)) = true))) ∨
     (ch = 45 ∧ 2 ≤ e.start ∧ O.fmtInd e.text = true ∧ O.isDigit (source.getD (e.start - 2) 0) = false ∧
        O.isLower (source.getD (e.start - 2) 0) = false)) := by
  by_cases h0 : e.start = 0
  · exact .inl h0
  · right
    rw [(judge_not_rejected (by rw [h]; simp)).2] at h
    unfold judgeBoundary at h
    simp only [h0, ne_eq, not_false_eq_true, if_true] at h
    split at h
    · rename_i hb
      split at h
      · rename_i hs
        split at h
        · split at h <;> exact absurd h (by simp)
        · split at h
          · exact absurd h (by simp)
          · rename_i hd hl
            simp only [Bool.and_eq_true, decide_eq_true_eq] at hs
            have hch : (index source ((e.start : Int) - 1)).getD 0 = 45 := by
              have h1 := hs.1.1
              have h2 := hb
              simp [specialBoundaryMarkers, boundaryMarkers] at h1 h2
              omega
            exact .inr ⟨hch, hs.2, hs.1.2, by simpa using hd, by simpa using hl⟩
      · exact absurd h (by simp)
    · rename_i hb
      split at h
      · rename_i hf
        split at h
        · rename_i hc
          split at h
          · rename_i hok
            refine .inl ⟨by simpa using hb, .inr ⟨?_, hok⟩⟩
            simpa [colonMarkers] using hc
          · exact absurd h (by simp)
        · exact absurd h (by simp)
      · rename_i hf
        exact .inl ⟨by simpa using hb, .inl (by simpa using hf)⟩

/-- `respan`: the candidate was preceded by `-`, a digit before it, and an international dialling prefix was found in
what stands before; the entity is re-spanned to start at that prefix -/
theorem judge_respan (O : PhoneOracle) (source : Str) (e : ER) (st len : Nat) (text : Str)
    (h : judge O source e = .respan st len text) :
    ∃ me, O.intl (sliceI source 0 ((e.start : Int) - 1)) = some (st, me) ∧ len = e.len + me - st + 1 ∧
      text = strip O.isSpace (sliceI source st (st + len)) ∧ 2 ≤ e.start ∧
      (index source ((e.start : Int) - 1)).getD 0 = 45 ∧ O.isDigit (source.getD (e.start - 2) 0) = true := by
  rw [(judge_not_rejected (by rw [h]; simp)).2] at h
  unfold judgeBoundary at h
  dsimp only at h
  split at h
  · split at h
    · rename_i hb
      split at h
      · rename_i hs
        split at h
        · rename_i hd
          split at h
          · rename_i ms me hi
            simp only [Verdict.respan.injEq] at h
            obtain ⟨rfl, rfl, rfl⟩ := h
            simp only [Bool.and_eq_true, decide_eq_true_eq] at hs
            have hch : (index source ((e.start : Int) - 1)).getD 0 = 45 := by
              have h1 := hs.1.1
              have h2 := hb
              simp [specialBoundaryMarkers, boundaryMarkers] at h1 h2
              omega
            exact ⟨me, hi, rfl, rfl, hs.2, hch, hd⟩
          · exact absurd h (by simp)
        · split at h <;> exact absurd h (by simp)
      · exact absurd h (by simp)
    · split at h
      · split at h
        · split at h <;> exact absurd h (by simp)
        · exact absurd h (by simp)
      · exact absurd h (by simp)
  · exact absurd h (by simp)

end RTV.Phone

namespace RTV.Phone
open RTV.Py RTV.Seq

theorem sliceI_prefix_length (s : Str) (n : Nat) (h : n ≤ s.length) : (sliceI s 0 (n : Int)).length = n := by
  unfold sliceI
  simp
  omega

/-- C13 (phone, span theorem): for ANY regex outcome, every entity that leaves the post-processing comes from one
candidate `e` of `super().extract`, keeps its tag, lies inside the text whenever `e` does, and is either `e` itself or
`e` extended to the left over an international dialling prefix (`text` recomputed as the stripped slice, the end not
beyond `e`'s end — exactly `e`'s end when the prefix match is anchored at the end of what precedes, as `0(0|11)$` is).
`hint`: a `search` span lies inside the searched string. -/
theorem postProcess_span (O : PhoneOracle) (masks : List (Nat × Nat)) (source : Str) (ers : List ER)
    (hint : ∀ f a b, O.intl f = some (a, b) → a ≤ b ∧ b ≤ f.length)
    (r : ER) (h : r ∈ postProcess O masks source ers) :
    ∃ e ∈ ers, r.data = e.data ∧ Passed O source e ∧
      (r = e ∨
        (∃ me, O.intl (sliceI source 0 ((e.start : Int) - 1)) = some (r.start, me) ∧
          r.start ≤ me ∧ me + 1 ≤ e.start ∧ r.len = e.len + (me - r.start) + 1 ∧
          r.text = strip O.isSpace (sliceI source r.start (r.start + r.len)) ∧
          (e.start + e.len ≤ source.length → r.start + r.len ≤ e.start + e.len ∧
            (me + 1 = e.start → r.start + r.len = e.start + e.len)))) := by
  obtain ⟨e, he, hr, _⟩ := postProcess_origin O masks source ers r h
  refine ⟨e, he, ?_⟩
  cases hv : judge O source e with
  | drop => simp [hv, applyVerdict] at hr
  | keep =>
    simp [hv, applyVerdict] at hr
    subst hr
    exact ⟨rfl, judge_passed O source r (by rw [hv]; simp), .inl rfl⟩
  | respan st len text =>
    simp [hv, applyVerdict] at hr
    subst hr
    obtain ⟨me, hi, hl, ht, h2, _, _⟩ := judge_respan O source e st len text hv
    have hb := hint _ _ _ hi
    refine ⟨rfl, judge_passed O source e (by rw [hv]; simp), .inr ⟨me, hi, hb.1, ?_, ?_, ht, ?_⟩⟩
    · -- me ≤ |front| ≤ e.start - 1
      have hlen : (sliceI source 0 ((e.start : Int) - 1)).length ≤ e.start - 1 := by
        have e1 : ((e.start : Int) - 1) = ((e.start - 1 : Nat) : Int) := by omega
        rw [e1]
        by_cases hle : e.start - 1 ≤ source.length
        · rw [sliceI_prefix_length _ _ hle]; exact Nat.le_refl _
        · unfold sliceI; simp; omega
      show me + 1 ≤ e.start
      have := hb.2
      omega
    · show len = e.len + (me - st) + 1
      have := hb.1
      omega
    · intro hin
      have hlen : (sliceI source 0 ((e.start : Int) - 1)).length = e.start - 1 := by
        have e1 : ((e.start : Int) - 1) = ((e.start - 1 : Nat) : Int) := by omega
        rw [e1]; exact sliceI_prefix_length _ _ (by omega)
      have := hb.1
      have := hb.2
      show st + len ≤ e.start + e.len ∧ (me + 1 = e.start → st + len = e.start + e.len)
      constructor <;> omega

end RTV.Phone
