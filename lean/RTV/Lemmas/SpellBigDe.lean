import RTV.Lemmas.SpellBig
import RTV.Lemmas.SpellDeK
/-! German: the side facts of `huge_value` for every multiplier 1..999 in front of a scale noun (kernel evaluation on
the regenerated maps in chunks of 100; only the forms that differ from the stand-alone numeral, and the forms behind the
Portuguese connector, are evaluated through `getIntValue`), the scale-word table, and the lift to every n < 10^15. -/
namespace RTV.Num

def deHChunk (j : Nat) : Bool :=
  (List.range 100).all fun i => 100 * j + i == 0 || hiFact deHuge de.lang (100 * j + i)

theorem de_h0 : deHChunk 0 = true := by decide +kernel
theorem de_h1 : deHChunk 1 = true := by decide +kernel
theorem de_h2 : deHChunk 2 = true := by decide +kernel
theorem de_h3 : deHChunk 3 = true := by decide +kernel
theorem de_h4 : deHChunk 4 = true := by decide +kernel
theorem de_h5 : deHChunk 5 = true := by decide +kernel
theorem de_h6 : deHChunk 6 = true := by decide +kernel
theorem de_h7 : deHChunk 7 = true := by decide +kernel
theorem de_h8 : deHChunk 8 = true := by decide +kernel
theorem de_h9 : deHChunk 9 = true := by decide +kernel

theorem de_hchunks (j : Nat) (hj : j < 10) : deHChunk j = true := by
  match j, hj with
  | 0, _ => exact de_h0
  | 1, _ => exact de_h1
  | 2, _ => exact de_h2
  | 3, _ => exact de_h3
  | 4, _ => exact de_h4
  | 5, _ => exact de_h5
  | 6, _ => exact de_h6
  | 7, _ => exact de_h7
  | 8, _ => exact de_h8
  | 9, _ => exact de_h9
  | j + 10, h => omega

theorem de_hfacts (g : Nat) (h1 : 1 ≤ g) (h2 : g < 1000) : hiFact deHuge de.lang g = true := by
  have hc := de_hchunks (g / 100) (by omega)
  simp only [deHChunk, List.all_eq_true, List.mem_range] at hc
  have := hc (g % 100) (Nat.mod_lt _ (by decide))
  have e : 100 * (g / 100) + g % 100 = g := Nat.div_add_mod g 100
  rw [e] at this
  have hz : (g == 0) = false := by simp; omega
  simpa [hz] using this

theorem de_scales : scalesOK de.lang 1000 1000000000000000 deHuge.scales = true := by decide +kernel

theorem de_conn_word : deHuge.big.eRule = true → lookup de.lang.round [101] = none := by decide +kernel

theorem de_hugeHyps : HugeHyps deHuge de.lang 1000 :=
  hugeHyps_narrow deHuge de.lang rfl (fun n h => de_all n h rfl) de_thousand_word de_kfacts
    (fun r hr => sub1e6_of' deBig de.lang (fun n h => de_all n h rfl) de_lift r hr) de_conn_word de_hfacts

/-- every numeral below 10^15 (guard: see `huge_value`) -/
theorem de_huge (n : Nat) (hn : n < 1000000000000000)
    (hg : ¬ (deHuge.big.eRule = true ∧ deHuge.big.omitOne = true ∧ n % 1000000 = 1000 ∧ 1000000 ≤ n)) :
    getIntValue true asciiDigits de.lang (spellHuge deHuge n).2 = .ok n :=
  huge_value deHuge de.lang 1000 1000000000000000 de_hugeHyps de_scales n hn hg

end RTV.Num
