import RTV.Model.SeqEnv
import RTV.Lemmas.Choice
import RTV.Gen.SpecCases
/-! C19 through the model: the comparison the repository's spec runner makes, on the model's output, and the equality
of the formula-driven and the table-driven sequence environment. -/
namespace RTV.Seq
open RTV.Py RTV.Re RTV.Match

def ipOK (E : SeqEnv) (zh : Bool) (cases : List (Str × List (Str × Str × Str))) : Bool :=
  cases.all fun c => ipModelRun E zh c.1 == c.2

/-- one GUID result against the spec: type name, text, value; the score only when the spec states one -/
def guidAgree (m : Str × Str × Str × Str) (e : Str × Str × Str × Option Str) : Bool :=
  m.1 == e.1 && m.2.1 == e.2.1 && m.2.2.1 == e.2.2.1 &&
    (match e.2.2.2 with | some s => m.2.2.2 == s | none => true)

def guidOK (E : SeqEnv) (cases : List (Str × List (Str × Str × Str × Option Str))) : Bool :=
  cases.all fun c =>
    let m := guidModelRun E c.1
    m.length == c.2.length && (m.zip c.2).all fun p => guidAgree p.1 p.2

def simpleOK (E : SeqEnv) (re : RE) (typeName : Str) (cases : List (Str × List (Str × Str × Str))) : Bool :=
  cases.all fun c => simpleModelRun E re typeName c.1 == c.2

def urlSpecOK (E : SeqEnv) (zh : Bool) (cases : List (Str × List (Str × Str × Str))) : Bool :=
  cases.all fun c => urlSpecRun E zh c.1 == c.2

theorem all_take_drop {α : Type} (p : α → Bool) (l : List α) (n : Nat) (h1 : (l.take n).all p = true)
    (h2 : (l.drop n).all p = true) : l.all p = true := by
  rw [← List.take_append_drop n l, List.all_append, h1, h2]; rfl

def boolOK (E : RTV.Choice.Env) (cases : List (Str × List (Str × Str × Bool))) : Bool :=
  cases.all fun c => boolModelRun E c.1 == some c.2

theorem fast_chars_ascii : ∀ c, c < 128 →
    (((9 ≤ c && c ≤ 13) || (28 ≤ c && c ≤ 32)) = pyChars.isSpace c ∧ (48 ≤ c && c ≤ 57) = pyChars.isDigit c ∧
      ((65 ≤ c && c ≤ 90) || (97 ≤ c && c ≤ 122)) = pyChars.isAlpha c) := by decide +kernel

theorem charClass_ext (A B : CharClass) (h1 : A.isSpace = B.isSpace) (h2 : A.isDigit = B.isDigit)
    (h3 : A.isAlpha = B.isAlpha) : A = B := by
  cases A; cases B; simp_all

theorem fastChars_eq : fastChars = pyChars := by
  have h := fast_chars_ascii
  apply charClass_ext
  · funext c
    show (if c < 128 then _ else pyChars.isSpace c) = _
    by_cases hc : c < 128
    · rw [if_pos hc]; exact (h c hc).1
    · rw [if_neg hc]
  · funext c
    show (if c < 128 then _ else pyChars.isDigit c) = _
    by_cases hc : c < 128
    · rw [if_pos hc]; exact (h c hc).2.1
    · rw [if_neg hc]
  · funext c
    show (if c < 128 then _ else pyChars.isAlpha c) = _
    by_cases hc : c < 128
    · rw [if_pos hc]; exact (h c hc).2.2
    · rw [if_neg hc]

theorem fastSeqEnv_eq : fastSeqEnv = genSeqEnv := by
  have hl : RTV.Choice.fastLowerC = RTV.Preprocess.lowerFull RTV.Gen.lowerPairs RTV.Gen.lowerExpanding := by
    funext c
    unfold RTV.Choice.fastLowerC
    by_cases hc : c < 128
    · rw [if_pos hc]; exact RTV.Choice.fast_lower_ascii c hc
    · rw [if_neg hc]
  unfold fastSeqEnv genSeqEnv
  rw [RTV.Choice.fastTables_eq, fastChars_eq, hl]

end RTV.Seq
