import RTV.Model.SeqEnv
import RTV.Lemmas.Choice
import RTV.Gen.SpecCases
/-! C19 through the model: the comparison property C19 demands (count, order, type name, text, offsets where given,
every resolution field the case states — more than the repository's runner compares), on the model's output, and the
equality of the formula-driven and the table-driven sequence environment. -/
namespace RTV.Seq
open RTV.Py RTV.Re RTV.Match

/-- one expected entity of a Specs case: TypeName, Text, Start and End when the case states them, and the Resolution
dict as (key, text of the value) pairs (`str` as it is, `bool` as `True`/`False`, `float` as its repr) -/
abbrev SpecExp := Str × Str × Option Nat × Option Int × List (Str × Str)
abbrev SpecCase := Str × List SpecExp

def lookupKey {α : Type} (k : Str) : List (Str × α) → Option α
  | [] => none
  | (k', v) :: r => if k' == k then some v else lookupKey k r

/-- a decimal text `ddd` or `ddd.ddd` (what `repr` gives for the scores the Specs state) as `(n, 10^k)` -/
def parseDec (s : Str) : Option (Nat × Nat) :=
  let go := fun (acc : Option (Nat × Nat × Bool × Nat)) (c : Nat) =>
    match acc with
    | none => none
    | some (n, d, seenDot, digits) =>
      if 48 ≤ c && c ≤ 57 then some (n * 10 + (c - 48), if seenDot then d * 10 else d, seenDot, digits + 1)
      else if c == 46 && !seenDot && digits > 0 then some (n, d, true, digits)
      else none
  match s.foldl go (some (0, 1, false, 0)) with
  | some (n, d, _, digits) => if digits > 0 then some (n, d) else none
  | none => none

/-- the reported value against the text the Specs state: a text is that text; a fraction `num/den` agrees with a
decimal text `p/q` when `|num/den − p/q| ≤ 1e-9` (`den > 0`) -/
def valAgree (m : RVal) (e : Str) : Bool :=
  match m with
  | .text s => s == e
  | .frac num den =>
    match parseDec e with
    | some (p, q) => decide (0 < den) && decide ((num * (q : Int) - (p : Int) * den).natAbs * 1000000000 ≤ den.natAbs * q)
    | none => false

/-- a reported entity against the expected one: type name, text, offsets WHERE GIVEN, and every resolution field the
case states except the keys in `skip` (the model may carry further keys: the Specs of another platform do not list
them) -/
def entAgree (skip : List Str) (m : SpecEnt) (e : SpecExp) : Bool :=
  m.typeName == e.1 && m.text == e.2.1 &&
  (match e.2.2.1 with | some a => m.start == a | none => true) &&
  (match e.2.2.2.1 with | some b => m.stop == b | none => true) &&
  e.2.2.2.2.all fun kv => skip.contains kv.1 ||
    (match lookupKey kv.1 m.res with | some v => valAgree v kv.2 | none => false)

/-- same count, same order, every entity agrees -/
def entsAgree (skip : List Str) (m : List SpecEnt) (e : List SpecExp) : Bool :=
  m.length == e.length && (m.zip e).all fun p => entAgree skip p.1 p.2

/-- every case of the list: the model's entities are the expected ones in every field the case states
(`run q = none`: an exception escapes the recogniser — the case fails) -/
def casesOK (run : Str → Option (List SpecEnt)) (cases : List SpecCase) : Bool :=
  cases.all fun c => match run c.1 with
    | some m => entsAgree [] m c.2
    | none => false

/-- the verdict on a family in which the code (and so the model) reports NO resolution key `k` although the Specs
state one: every case agrees in every other field; every expected entity states `k`; no reported entity has it -/
def casesOKAbsent (k : Str) (run : Str → Option (List SpecEnt)) (cases : List SpecCase) : Bool :=
  cases.all fun c => match run c.1 with
    | none => false
    | some m =>
      entsAgree [k] m c.2 && (c.2.all fun e => (lookupKey k e.2.2.2.2).isSome) &&
      m.all fun x => (lookupKey k x.res).isNone

/-- the verdict on a family in which the code (and so the model) reports another value under the resolution key `k`
than the Specs state: every case agrees in every other field; for every entity the two values of `k` differ -/
def casesOKDiffer (k : Str) (run : Str → Option (List SpecEnt)) (cases : List SpecCase) : Bool :=
  cases.all fun c => match run c.1 with
    | none => false
    | some m =>
      entsAgree [k] m c.2 &&
      (m.zip c.2).all fun p =>
        match lookupKey k p.1.res, lookupKey k p.2.2.2.2.2 with
        | some v, some e => !valAgree v e
        | _, _ => false

theorem casesOK_iff (run : Str → Option (List SpecEnt)) (cases : List SpecCase) :
    casesOK run cases = true ↔ ∀ c ∈ cases, ∃ m, run c.1 = some m ∧ entsAgree [] m c.2 = true := by
  unfold casesOK
  rw [List.all_eq_true]
  constructor
  · intro h c hc
    have := h c hc
    cases hr : run c.1 with
    | none => simp [hr] at this
    | some m => exact ⟨m, rfl, by simpa [hr] using this⟩
  · intro h c hc
    obtain ⟨m, hm, ha⟩ := h c hc
    simp [hm, ha]

theorem casesOKAbsent_spec (k : Str) (run : Str → Option (List SpecEnt)) (cases : List SpecCase)
    (h : casesOKAbsent k run cases = true) :
    ∀ c ∈ cases, ∃ m, run c.1 = some m ∧ entsAgree [k] m c.2 = true ∧
      (∀ e ∈ c.2, (lookupKey k e.2.2.2.2).isSome = true) ∧ ∀ x ∈ m, lookupKey k x.res = none := by
  intro c hc
  have := List.all_eq_true.1 h c hc
  cases hr : run c.1 with
  | none => simp [hr] at this
  | some m =>
    simp only [hr, Bool.and_eq_true, List.all_eq_true] at this
    refine ⟨m, rfl, this.1.1, this.1.2, ?_⟩
    intro x hx
    simpa using this.2 x hx

theorem casesOKDiffer_spec (k : Str) (run : Str → Option (List SpecEnt)) (cases : List SpecCase)
    (h : casesOKDiffer k run cases = true) :
    ∀ c ∈ cases, ∃ m, run c.1 = some m ∧ entsAgree [k] m c.2 = true ∧
      ∀ p ∈ m.zip c.2, ∃ v e, lookupKey k p.1.res = some v ∧ lookupKey k p.2.2.2.2.2 = some e ∧ valAgree v e = false := by
  intro c hc
  have := List.all_eq_true.1 h c hc
  cases hr : run c.1 with
  | none => simp [hr] at this
  | some m =>
    simp only [hr, Bool.and_eq_true, List.all_eq_true] at this
    refine ⟨m, rfl, this.1, ?_⟩
    intro p hp
    have h2 := this.2 p hp
    cases h3 : lookupKey k p.1.res with
    | none => simp [h3] at h2
    | some v =>
      cases h4 : lookupKey k p.2.2.2.2.2 with
      | none => simp [h3, h4] at h2
      | some e => exact ⟨v, e, rfl, rfl, by simpa [h3, h4] using h2⟩

/-- number of expected entities in a family (the `Except` verdicts are about these) -/
def expectedCount (cases : List SpecCase) : Nat := (cases.map fun c => c.2.length).sum

/-- the IP family, code after the `Resolution.type` fix: every stated field -/
def ipOK (E : SeqEnv) (zh : Bool) (cases : List SpecCase) : Bool :=
  casesOK (fun q => some (ipModelRun E zh true q)) cases

/-- the IP family, code before the fix: everything but `type`, which is absent -/
def ipPreFixOK (E : SeqEnv) (zh : Bool) (cases : List SpecCase) : Bool :=
  casesOKAbsent kType (fun q => some (ipModelRun E zh false q)) cases

def guidOK (E : SeqEnv) (cases : List SpecCase) : Bool := casesOK (fun q => some (guidModelRun E q)) cases

def simpleOK (E : SeqEnv) (re : RE) (typeName : Str) (cases : List SpecCase) : Bool :=
  casesOK (fun q => some (simpleModelRun E re typeName q)) cases

def urlSpecOK (E : SeqEnv) (zh : Bool) (cases : List SpecCase) : Bool :=
  casesOK (fun q => some (urlSpecRun E zh q)) cases

/-- the boolean family, code after the `Resolution.score` fix: every stated field (the score within 1e-9) -/
def boolOK (E : RTV.Choice.Env) (cases : List SpecCase) : Bool := casesOK (boolModelRun E) cases

/-- the boolean family, code before the fix: everything but the score, which differs for every entity -/
def boolPreFixOK (E : RTV.Choice.Env) (cases : List SpecCase) : Bool :=
  casesOKDiffer kScore (boolModelRun E) cases

/-- the full statement for a family: for every case the recogniser returns (no exception) entities that agree with the
expected ones in count, order and every field the case states, the resolution keys in `skip` excepted -/
def FamilyAgrees (skip : List Str) (run : Str → Option (List SpecEnt)) (cases : List SpecCase) : Prop :=
  ∀ c ∈ cases, ∃ m, run c.1 = some m ∧ entsAgree skip m c.2 = true

theorem guidOK_spec (E : SeqEnv) (cases : List SpecCase) (h : guidOK E cases = true) :
    FamilyAgrees [] (fun q => some (guidModelRun E q)) cases :=
  (casesOK_iff (fun q => some (guidModelRun E q)) cases).1 h

theorem simpleOK_spec (E : SeqEnv) (re : RE) (typeName : Str) (cases : List SpecCase)
    (h : simpleOK E re typeName cases = true) :
    FamilyAgrees [] (fun q => some (simpleModelRun E re typeName q)) cases :=
  (casesOK_iff (fun q => some (simpleModelRun E re typeName q)) cases).1 h

theorem urlSpecOK_spec (E : SeqEnv) (zh : Bool) (cases : List SpecCase) (h : urlSpecOK E zh cases = true) :
    FamilyAgrees [] (fun q => some (urlSpecRun E zh q)) cases :=
  (casesOK_iff (fun q => some (urlSpecRun E zh q)) cases).1 h

theorem ipOK_spec (E : SeqEnv) (zh : Bool) (cases : List SpecCase) (h : ipOK E zh cases = true) :
    FamilyAgrees [] (fun q => some (ipModelRun E zh true q)) cases :=
  (casesOK_iff (fun q => some (ipModelRun E zh true q)) cases).1 h

theorem boolOK_spec (E : RTV.Choice.Env) (cases : List SpecCase) (h : boolOK E cases = true) :
    FamilyAgrees [] (boolModelRun E) cases := (casesOK_iff (boolModelRun E) cases).1 h

theorem ipPreFixOK_spec (E : SeqEnv) (zh : Bool) (cases : List SpecCase) (h : ipPreFixOK E zh cases = true) :
    FamilyAgrees [kType] (fun q => some (ipModelRun E zh false q)) cases ∧
    ∀ c ∈ cases, (∀ e ∈ c.2, (lookupKey kType e.2.2.2.2).isSome = true) ∧
      ∀ x ∈ ipModelRun E zh false c.1, lookupKey kType x.res = none := by
  constructor
  · intro c hc
    obtain ⟨m, hm, ha, _⟩ := casesOKAbsent_spec _ _ _ h c hc
    exact ⟨m, hm, ha⟩
  · intro c hc
    obtain ⟨m, hm, _, he, hx⟩ := casesOKAbsent_spec _ _ _ h c hc
    cases hm
    exact ⟨he, hx⟩

theorem boolPreFixOK_spec (E : RTV.Choice.Env) (cases : List SpecCase) (h : boolPreFixOK E cases = true) :
    FamilyAgrees [kScore] (boolModelRun E) cases ∧
    ∀ c ∈ cases, ∃ m, boolModelRun E c.1 = some m ∧
      ∀ p ∈ m.zip c.2, ∃ v e, lookupKey kScore p.1.res = some v ∧ lookupKey kScore p.2.2.2.2.2 = some e ∧
        valAgree v e = false := by
  constructor
  · intro c hc
    obtain ⟨m, hm, ha, _⟩ := casesOKDiffer_spec _ _ _ h c hc
    exact ⟨m, hm, ha⟩
  · intro c hc
    obtain ⟨m, hm, _, hd⟩ := casesOKDiffer_spec _ _ _ h c hc
    exact ⟨m, hm, hd⟩

theorem all_take_drop {α : Type} (p : α → Bool) (l : List α) (n : Nat) (h1 : (l.take n).all p = true)
    (h2 : (l.drop n).all p = true) : l.all p = true := by
  rw [← List.take_append_drop n l, List.all_append, h1, h2]; rfl

theorem fast_chars_ascii : ∀ c, c < 128 →
    (((9 ≤ c && c ≤ 13) || (28 ≤ c && c ≤ 32)) = pyChars.isSpace c ∧ (48 ≤ c && c ≤ 57) = pyChars.isDigit c ∧
      ((65 ≤ c && c ≤ 90) || (97 ≤ c && c ≤ 122)) = pyChars.isAlpha c) := by decide +kernel

theorem charClass_ext (A B : CharClass) (h1 : A.isSpace = B.isSpace) (h2 : A.isDigit = B.isDigit)
    (h3 : A.isAlpha = B.isAlpha) : A = B := by
  cases A; cases B; simp_all

theorem fastChars_eq : fastChars = pyChars := by
  have h := fast_chars_ascii
  apply charClass_ext
  · funext c
    show (if c < 128 then _ else pyChars.isSpace c) = _
    by_cases hc : c < 128
    · rw [if_pos hc]; exact (h c hc).1
    · rw [if_neg hc]
  · funext c
    show (if c < 128 then _ else pyChars.isDigit c) = _
    by_cases hc : c < 128
    · rw [if_pos hc]; exact (h c hc).2.1
    · rw [if_neg hc]
  · funext c
    show (if c < 128 then _ else pyChars.isAlpha c) = _
    by_cases hc : c < 128
    · rw [if_pos hc]; exact (h c hc).2.2
    · rw [if_neg hc]

theorem fastSeqEnv_eq : fastSeqEnv = genSeqEnv := by
  have hl : RTV.Choice.fastLowerC = RTV.Preprocess.lowerFull RTV.Gen.lowerPairs RTV.Gen.lowerExpanding := by
    funext c
    unfold RTV.Choice.fastLowerC
    by_cases hc : c < 128
    · rw [if_pos hc]; exact RTV.Choice.fast_lower_ascii c hc
    · rw [if_neg hc]
  unfold fastSeqEnv genSeqEnv
  rw [RTV.Choice.fastTables_eq, fastChars_eq, hl]

end RTV.Seq
