import RTV.Lemmas.Choice
/-! Kernel evaluation of the (affirmative, negative) pairs with a skin-tone modifier, part 1. -/
namespace RTV.Choice
set_option maxRecDepth 100000
theorem both_skin_a_fast : bothSkinOn fastEnv ((alts true).take 10) = true := by decide +kernel
end RTV.Choice
