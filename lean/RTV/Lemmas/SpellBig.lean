import RTV.Lemmas.ThousandEu
import RTV.Lemmas.Spell
/-! From the numerals below 10^6 to every numeral below the top of a culture's scale-word table (`spellHuge`,
`RTV/Model/SpellEu.lean`), structurally: each scale group is one application of the round-number step `good_step`
(a block — optional connector + multiplier —, the scale noun, a good rest), by induction over the list of scale
words; nothing is enumerated above 999. Per culture only decidable side facts about the multipliers 1..999 in front
of a noun (`hiFact`) and about the scale-word table (`scalesOK`) are evaluated by the kernel on the regenerated maps. -/
namespace RTV.Num
open RTV.Py

/-! ### small general facts -/

theorem Inert.mono {round : List (Str × Nat)} {e e' : Nat} {A : List Str} (h : Inert round e A) (he : e ≤ e') :
    Inert round e' A := by
  intro t ht
  rcases h t ht with h0 | ⟨r, h1, h2⟩
  · exact Or.inl h0
  · exact Or.inr ⟨r, h1, by omega⟩

theorem Inert.append {round : List (Str × Nat)} {e : Nat} {A B : List Str} (hA : Inert round e A)
    (hB : Inert round e B) : Inert round e (A ++ B) := by
  intro t ht
  rcases List.mem_append.mp ht with h | h
  · exact hA t h
  · exact hB t h

theorem Inert.nil (round : List (Str × Nat)) (e : Nat) : Inert round e [] := by
  intro t ht; cases ht

theorem Inert.single_none {round : List (Str × Nat)} (e : Nat) {t : Str} (h : lookup round t = none) :
    Inert round e [t] := by
  intro x hx
  simp only [List.mem_cons, List.not_mem_nil, or_false] at hx
  rw [hx]; exact Or.inl h

def roundBelow (c : LangCfg) (B : Nat) (A : List Str) : Bool :=
  A.all fun t => match lookup c.round t with | none => true | some r => decide (r < B)

theorem inert_of_roundBelow {c : LangCfg} {B : Nat} {A : List Str} (h : roundBelow c B A = true) :
    Inert c.round B A := by
  intro t ht
  simp only [roundBelow, List.all_eq_true] at h
  have := h t ht
  cases hl : lookup c.round t with
  | none => exact Or.inl rfl
  | some r => rw [hl] at this; exact Or.inr ⟨r, rfl, by simpa using this⟩

/-- the thousand group as a good rest (the `Good` form of `thousand_group`) -/
theorem thousand_good (tab : DigitTab) (c : LangCfg) (A : List Str) (w : Str) (rest : List Str) (k u F : Nat)
    (hw : lookup c.round w = some 1000)
    (hA : (A = [] ∧ k = 1) ∨ (A ≠ [] ∧ Inert c.round 1000 A ∧ getIntValueF true tab c F A = .ok k))
    (hrest : ∃ e, Good true (getIntValueF true tab c F) c.round rest u e ∧ e ≤ 1000) :
    Good true (getIntValueF true tab c F) c.round (A ++ w :: rest) (1000 * k + u) 1000 := by
  obtain ⟨e, hg, he⟩ := hrest
  rcases hA with ⟨h1, h2⟩ | ⟨h1, h2, h3⟩
  · subst h1; subst h2
    simpa using good_step_empty _ c.round w 1000 rest u e hg he hw
  · exact good_step true _ c.round A w 1000 k rest u e hg he hw h1 h2 h3

/-! ### side facts of a culture's tables -/

/-- side facts about `g` (1..999) in front of a scale noun: not empty, no round word of 10^6 or more, its value (where
the words differ from the stand-alone numeral); for the long scale also as a remainder after the thousand word;
with the Portuguese connector in front, its value, also for the multiplier of the thousand word -/
def hiFact (h : EuHuge) (c : LangCfg) (g : Nat) : Bool :=
  let A := (spellMultHi h g).2
  !A.isEmpty && roundBelow c 1000000 A &&
  (A == (spellEu h.big.base g).2 || okRes (getIntValue true asciiDigits c A) g) &&
  (!h.wide || (decide ((scanR c.round A 1).2 ≤ 1000) &&
      ((scanR c.round A 1).2 != 1 || A.all fun t => (lookup c.round t).isNone))) &&
  (!h.big.eRule || (okRes (getIntValue true asciiDigits c ([101] :: A)) g &&
      ((spellMult h.big g).2 == A || okRes (getIntValue true asciiDigits c ([101] :: (spellMult h.big g).2)) g)))

/-- the scale-word table: both forms of each noun are round words of the stated value, the values descend from `top`
in steps of at most `mb`, are multiples of 10^6, and end at 10^6 -/
def scalesOK (c : LangCfg) (mb : Nat) : Nat → List EuScale → Bool
  | top, [] => top == 1000000
  | top, s :: ss =>
    lookup c.round s.singular == some s.value && lookup c.round s.plural == some s.value &&
    decide (top ≤ s.value * mb) && decide (s.value ≤ top) && decide (1000000 ≤ s.value) &&
    s.value % 1000000 == 0 && scalesOK c mb s.value ss

theorem scalesOK_cons {c : LangCfg} {mb top : Nat} {s : EuScale} {ss : List EuScale}
    (h : scalesOK c mb top (s :: ss) = true) :
    lookup c.round s.singular = some s.value ∧ lookup c.round s.plural = some s.value ∧ top ≤ s.value * mb ∧
      s.value ≤ top ∧ 1000000 ≤ s.value ∧ s.value % 1000000 = 0 ∧ scalesOK c mb s.value ss = true := by
  simpa [scalesOK, and_assoc] using h

/-- what the structural lift needs from a culture -/
structure HugeHyps (h : EuHuge) (c : LangCfg) (mb : Nat) : Prop where
  sub : ∀ n, n < 1000 → getIntValue true asciiDigits c (spellEu h.big.base n).2 = .ok n
  thousand : lookup c.round h.big.thousand = some 1000
  kfacts : ∀ k, 1 ≤ k → k < 1000 → multFact h.big c k = true ∧ restFact h.big c k = true
  low : ∀ r, r < 1000000 → getIntValue true asciiDigits c (spellEuAll h.big r).2 = .ok r
  econn : h.big.eRule = true → lookup c.round [101] = none ∧
    ∀ k, 1 ≤ k → k < 1000 → getIntValue true asciiDigits c ([101] :: (spellMult h.big k).2) = .ok k
  mult : ∀ g, 1 ≤ g → g < mb → (hugeMult h g).2 ≠ [] ∧ Inert c.round 1000000 (hugeMult h g).2 ∧
    getIntValue true asciiDigits c (hugeMult h g).2 = .ok g ∧
    (h.big.eRule = true → getIntValue true asciiDigits c ([101] :: (hugeMult h g).2) = .ok g)

/-! ### the multiplier of the thousand word and the remainder, from `multFact` / `restFact` -/

theorem multPart_facts (b : EuBig) (c : LangCfg)
    (hsub : ∀ n, n < 1000 → getIntValue true asciiDigits c (spellEu b.base n).2 = .ok n)
    (k : Nat) (hk2 : k < 1000) (hf : multFact b c k = true) :
    (spellMult b k).2 ≠ [] ∧ Inert c.round 1000 (spellMult b k).2 ∧
      getIntValue true asciiDigits c (spellMult b k).2 = .ok k := by
  simp only [multFact, Bool.and_eq_true, Bool.not_eq_true', List.all_eq_true, Bool.or_eq_true, beq_iff_eq,
    okRes, decide_eq_true_eq] at hf
  obtain ⟨⟨hne, hin⟩, hval⟩ := hf
  refine ⟨?_, ?_, ?_⟩
  · intro e; rw [e] at hne; simp at hne
  · intro t ht
    have := hin t ht
    cases hl : lookup c.round t with
    | none => exact Or.inl rfl
    | some r => rw [hl] at this; exact Or.inr ⟨r, rfl, by simpa using this⟩
  · rcases hval with he | hv
    · rw [he]; exact hsub _ hk2
    · exact hv

theorem restPart_facts (b : EuBig) (c : LangCfg)
    (hsub : ∀ n, n < 1000 → getIntValue true asciiDigits c (spellEu b.base n).2 = .ok n)
    (u : Nat) (hu2 : u < 1000) (hf : restFact b c u = true) :
    (restPart b u).2 ≠ [] ∧ (scanR c.round (restPart b u).2 1).2 ≤ 1000 ∧
      ((scanR c.round (restPart b u).2 1).2 = 1 → ∀ t ∈ (restPart b u).2, lookup c.round t = none) ∧
      getIntValue true asciiDigits c (restPart b u).2 = .ok u := by
  simp only [restFact, Bool.and_eq_true, Bool.not_eq_true', decide_eq_true_eq, Bool.or_eq_true, bne_iff_ne,
    ne_eq, List.all_eq_true, Option.isNone_iff_eq_none, beq_iff_eq, okRes] at hf
  obtain ⟨⟨⟨hne, hscan⟩, hflat⟩, hval⟩ := hf
  refine ⟨?_, hscan, ?_, ?_⟩
  · intro e; rw [e] at hne; simp at hne
  · intro h1'
    rcases hflat with hx | hx
    · exact absurd h1' hx
    · exact hx
  · rcases hval with he | hv
    · rw [he]; exact hsub _ hu2
    · exact hv

/-- the remainder after the thousand word as a good rest -/
theorem restPart_good (b : EuBig) (c : LangCfg)
    (hsub : ∀ n, n < 1000 → getIntValue true asciiDigits c (spellEu b.base n).2 = .ok n)
    (hk : ∀ k, 1 ≤ k → k < 1000 → multFact b c k = true ∧ restFact b c k = true)
    (u : Nat) (hu2 : u < 1000) (F : Nat) (hF : (restPart b u).2.length + 3 ≤ F) :
    ∃ e, Good true (getIntValueF true asciiDigits c F) c.round (restPart b u).2 u e ∧ e ≤ 1000 := by
  by_cases hu0 : u = 0
  · subst hu0
    exact ⟨1, by simpa [restPart] using good_nil' _ c.round, by omega⟩
  · obtain ⟨hne, hscan, hflat, hval⟩ := restPart_facts b c hsub u hu2 (hk u (by omega) hu2).2
    exact ⟨_, good_of_value asciiDigits c _ u _ F hne hF hval hflat, hscan⟩

/-! ### the remainder below 10^6 after a scale group -/

theorem lowToks_small (b : EuBig) (r : Nat) (h1 : 1 ≤ r) (h2 : r < 1000) :
    (connPart (lowConn b r)).2 ++ (spellEuAll b r).2 = (restPart b r).2 := by
  have hr0 : (r == 0) = false := by simp; omega
  simp only [lowConn, h2, if_true, spellEuAll, restPart, hr0, Bool.false_eq_true, if_false, gConn, connPart]
  split <;> simp

theorem low_good (h : EuHuge) (c : LangCfg) (mb : Nat) (H : HugeHyps h c mb) (r : Nat) (h1 : 1 ≤ r)
    (h2 : r < 1000000) (hg : ¬ (h.big.eRule = true ∧ h.big.omitOne = true ∧ r = 1000)) (F : Nat)
    (hF : ((connPart (lowConn h.big r)).2 ++ (spellEuAll h.big r).2).length + 3 ≤ F) :
    ∃ e, Good true (getIntValueF true asciiDigits c F) c.round
      ((connPart (lowConn h.big r)).2 ++ (spellEuAll h.big r).2) r e ∧ e ≤ 1000 := by
  by_cases hs : r < 1000
  · rw [lowToks_small h.big r h1 hs] at hF ⊢
    exact restPart_good h.big c H.sub H.kfacts r hs F hF
  · have hk1 : 1 ≤ r / 1000 := by omega
    have hk2 : r / 1000 < 1000 := by omega
    have hu2 : r % 1000 < 1000 := Nat.mod_lt _ (by decide)
    have hr : 1000 * (r / 1000) + r % 1000 = r := Nat.div_add_mod r 1000
    have htok : (connPart (lowConn h.big r)).2 ++ (spellEuAll h.big r).2 =
        ((connPart (lowConn h.big r)).2 ++ (multPart h.big (r / 1000)).2) ++
          h.big.thousand :: (restPart h.big (r % 1000)).2 := by
      simp [spellEuAll, hs, spellEuBig]
    rw [htok] at hF ⊢
    have hlen : ((connPart (lowConn h.big r)).2 ++ (multPart h.big (r / 1000)).2 ++
        h.big.thousand :: (restPart h.big (r % 1000)).2).length =
        ((connPart (lowConn h.big r)).2 ++ (multPart h.big (r / 1000)).2).length +
          (restPart h.big (r % 1000)).2.length + 1 := by simp; omega
    have hrest := restPart_good h.big c H.sub H.kfacts (r % 1000) hu2 F (by omega)
    have key := thousand_good asciiDigits c ((connPart (lowConn h.big r)).2 ++ (multPart h.big (r / 1000)).2)
      h.big.thousand (restPart h.big (r % 1000)).2 (r / 1000) (r % 1000) F H.thousand ?_ hrest
    · rw [hr] at key; exact ⟨1000, key, Nat.le_refl _⟩
    · -- the block in front of the thousand word
      obtain ⟨mne, min, mval⟩ := multPart_facts h.big c H.sub (r / 1000) hk2 (H.kfacts _ hk1 hk2).1
      by_cases hc : lowConn h.big r = true
      · -- with the connector
        have hc' := hc
        simp only [lowConn, hs, if_false, Bool.and_eq_true, beq_iff_eq, gConn] at hc'
        obtain ⟨hu0, he, _⟩ := hc'
        obtain ⟨enone, eval⟩ := H.econn he
        by_cases ho : (r / 1000 == 1 && h.big.omitOne) = true
        · exfalso
          simp only [Bool.and_eq_true, beq_iff_eq] at ho
          exact hg ⟨he, ho.2, by omega⟩
        · right
          have hm : (multPart h.big (r / 1000)).2 = (spellMult h.big (r / 1000)).2 := by
            simp [multPart, ho]
          have hcp : (connPart (lowConn h.big r)).2 = [[101]] := by simp [hc, connPart]
          rw [hm, hcp]
          refine ⟨by simp, ?_, ?_⟩
          · exact Inert.append (Inert.single_none 1000 enone) min
          · have := eval (r / 1000) hk1 hk2
            unfold getIntValue at this
            refine getIntValueF_mono true asciiDigits c _ F _ _ this ?_
            rw [hlen, hm, hcp] at hF
            simp at hF ⊢; omega
      · -- without
        have hcp : (connPart (lowConn h.big r)).2 = [] := by simp [hc, connPart]
        rw [hcp, List.nil_append]
        by_cases ho : (r / 1000 == 1 && h.big.omitOne) = true
        · left
          simp only [multPart, ho, if_true]
          simp only [Bool.and_eq_true, beq_iff_eq] at ho
          exact ⟨trivial, ho.1⟩
        · right
          have hm : (multPart h.big (r / 1000)).2 = (spellMult h.big (r / 1000)).2 := by
            simp [multPart, ho]
          rw [hm]
          refine ⟨mne, min, ?_⟩
          unfold getIntValue at mval
          refine getIntValueF_mono true asciiDigits c _ F _ _ mval ?_
          rw [hlen, hm, hcp] at hF
          simp at hF ⊢; omega

/-! ### the induction over the scale words -/

theorem scaleGroup_toks (h : EuHuge) (s : EuScale) (g : Nat) :
    (scaleGroup h s g).2 = (hugeMult h g).2 ++ [scaleNoun h s g] := rfl

/-- what follows a scale group is a good rest worth the remainder, and its scan stays at or below `top` -/
theorem hugeRest_good (h : EuHuge) (c : LangCfg) (mb : Nat) (H : HugeHyps h c mb) :
    ∀ (ss : List EuScale) (top n : Nat), scalesOK c mb top ss = true → n < top →
      ¬ (h.big.eRule = true ∧ h.big.omitOne = true ∧ n % 1000000 = 1000) →
      ∀ F, (hugeRest h ss n).2.length + 3 ≤ F →
      ∃ e, Good true (getIntValueF true asciiDigits c F) c.round (hugeRest h ss n).2 n e ∧ e ≤ top := by
  intro ss
  induction ss with
  | nil =>
    intro top n hs hn hg F hF
    have ht : top = 1000000 := by simpa [scalesOK] using hs
    subst ht
    by_cases h0 : n = 0
    · subst h0
      exact ⟨1, by simpa [hugeRest] using good_nil' _ c.round, by omega⟩
    · have hb : (n == 0) = false := by simp [h0]
      simp only [hugeRest, hb, Bool.false_eq_true, if_false] at hF ⊢
      have hm : n % 1000000 = n := Nat.mod_eq_of_lt hn
      rw [hm] at hg
      obtain ⟨e, g1, g2⟩ := low_good h c mb H n (by omega) hn hg F hF
      exact ⟨e, g1, by omega⟩
  | cons s ss ih =>
    intro top n hs hn hg F hF
    obtain ⟨hsing, hplur, htop, hle, h6, hdiv, hss⟩ := scalesOK_cons hs
    have hpos : 0 < s.value := by omega
    have hmodlt : n % s.value < s.value := Nat.mod_lt _ hpos
    have hmm : n % s.value % 1000000 = n % 1000000 := Nat.mod_mod_of_dvd n (Nat.dvd_of_mod_eq_zero hdiv)
    by_cases hz : n / s.value = 0
    · have hb : (n / s.value == 0) = true := by simp [hz]
      simp only [hugeRest, hb, if_true] at hF ⊢
      have hlt : n < s.value := (Nat.div_eq_zero_iff_lt hpos).mp hz
      have hm : n % s.value = n := Nat.mod_eq_of_lt hlt
      rw [hm] at hF ⊢
      obtain ⟨e, g1, g2⟩ := ih s.value n hss hlt hg F hF
      exact ⟨e, g1, by omega⟩
    · have hb : (n / s.value == 0) = false := by simp [hz]
      simp only [hugeRest, hb, Bool.false_eq_true, if_false] at hF ⊢
      generalize hcn : (n % s.value == 0 && gConn h.big (n / s.value)) = cn at hF ⊢
      have hgl : n / s.value < mb := Nat.div_lt_of_lt_mul (Nat.lt_of_lt_of_le hn htop)
      obtain ⟨mne, min, mval, meval⟩ := H.mult (n / s.value) (Nat.pos_of_ne_zero hz) hgl
      have htoks : (connPart cn).2 ++ (scaleGroup h s (n / s.value)).2 ++ (hugeRest h ss (n % s.value)).2 =
          ((connPart cn).2 ++ (hugeMult h (n / s.value)).2) ++
            scaleNoun h s (n / s.value) :: (hugeRest h ss (n % s.value)).2 := by
        simp [scaleGroup_toks]
      rw [htoks] at hF ⊢
      have hlen : ((connPart cn).2 ++ (hugeMult h (n / s.value)).2 ++
          scaleNoun h s (n / s.value) :: (hugeRest h ss (n % s.value)).2).length =
          ((connPart cn).2 ++ (hugeMult h (n / s.value)).2).length + (hugeRest h ss (n % s.value)).2.length + 1 := by
        simp; omega
      rw [hlen] at hF
      obtain ⟨e0, g0, he0⟩ := ih s.value (n % s.value) hss hmodlt (by rw [hmm]; exact hg) F (by omega)
      have hw : lookup c.round (scaleNoun h s (n / s.value)) = some s.value := by
        unfold scaleNoun; split <;> assumption
      have hblock : (connPart cn).2 ++ (hugeMult h (n / s.value)).2 ≠ [] := by
        intro e
        exact mne (List.append_eq_nil_iff.mp e).2
      have hin : Inert c.round s.value ((connPart cn).2 ++ (hugeMult h (n / s.value)).2) := by
        refine Inert.append ?_ (Inert.mono min h6)
        cases cn
        · simpa [connPart] using Inert.nil c.round s.value
        · have he : h.big.eRule = true := by
            simp only [gConn, Bool.and_eq_true] at hcn
            exact hcn.2.1
          simpa [connPart] using Inert.single_none s.value (H.econn he).1
      have hrec : getIntValueF true asciiDigits c F ((connPart cn).2 ++ (hugeMult h (n / s.value)).2) =
          .ok (n / s.value) := by
        cases cn
        · simp only [connPart, Bool.false_eq_true, if_false, List.nil_append] at hF ⊢
          unfold getIntValue at mval
          exact getIntValueF_mono true asciiDigits c _ F _ _ mval (by omega)
        · have he : h.big.eRule = true := by
            simp only [gConn, Bool.and_eq_true] at hcn
            exact hcn.2.1
          have := meval he
          unfold getIntValue at this
          simp only [connPart, if_true, List.cons_append, List.nil_append, List.length_cons] at hF ⊢
          exact getIntValueF_mono true asciiDigits c _ F _ _ this (by simp only [List.length_cons]; omega)
      have key := good_step true _ c.round _ _ s.value (n / s.value) _ (n % s.value) e0 g0 he0 hw hblock hin hrec
      have hv : s.value * (n / s.value) + n % s.value = n := Nat.div_add_mod n s.value
      rw [hv] at key
      exact ⟨s.value, key, hle⟩

/-- the numeral from its first scale group on: a good list worth `n` whose scan ends at a scale word -/
theorem hugeTop_good (h : EuHuge) (c : LangCfg) (mb : Nat) (H : HugeHyps h c mb) :
    ∀ (ss : List EuScale) (top n : Nat), scalesOK c mb top ss = true → n < top → 1000000 ≤ n →
      ¬ (h.big.eRule = true ∧ h.big.omitOne = true ∧ n % 1000000 = 1000) →
      ∀ F, (hugeTop h ss n).2.length + 2 ≤ F →
      ∃ e, Good true (getIntValueF true asciiDigits c F) c.round (hugeTop h ss n).2 n e ∧ 1000000 ≤ e := by
  intro ss
  induction ss with
  | nil =>
    intro top n hs hn h6
    have ht : top = 1000000 := by simpa [scalesOK] using hs
    omega
  | cons s ss ih =>
    intro top n hs hn hn6 hg F hF
    obtain ⟨hsing, hplur, htop, hle, h6, hdiv, hss⟩ := scalesOK_cons hs
    have hpos : 0 < s.value := by omega
    have hmodlt : n % s.value < s.value := Nat.mod_lt _ hpos
    have hmm : n % s.value % 1000000 = n % 1000000 := Nat.mod_mod_of_dvd n (Nat.dvd_of_mod_eq_zero hdiv)
    by_cases hz : n / s.value = 0
    · have hb : (n / s.value == 0) = true := by simp [hz]
      simp only [hugeTop, hb, if_true] at hF ⊢
      have hlt : n < s.value := (Nat.div_eq_zero_iff_lt hpos).mp hz
      exact ih s.value n hss hlt hn6 hg F hF
    · have hb : (n / s.value == 0) = false := by simp [hz]
      simp only [hugeTop, hb, Bool.false_eq_true, if_false] at hF ⊢
      have hgl : n / s.value < mb := Nat.div_lt_of_lt_mul (Nat.lt_of_lt_of_le hn htop)
      obtain ⟨mne, min, mval, _⟩ := H.mult (n / s.value) (Nat.pos_of_ne_zero hz) hgl
      have htoks : (scaleGroup h s (n / s.value)).2 ++ (hugeRest h ss (n % s.value)).2 =
          (hugeMult h (n / s.value)).2 ++
            scaleNoun h s (n / s.value) :: (hugeRest h ss (n % s.value)).2 := by
        simp [scaleGroup_toks]
      rw [htoks] at hF ⊢
      have hlen : ((hugeMult h (n / s.value)).2 ++
          scaleNoun h s (n / s.value) :: (hugeRest h ss (n % s.value)).2).length =
          (hugeMult h (n / s.value)).2.length + (hugeRest h ss (n % s.value)).2.length + 1 := by
        simp; omega
      have hmlen : 1 ≤ (hugeMult h (n / s.value)).2.length := by
        cases hq : (hugeMult h (n / s.value)).2 with
        | nil => exact absurd hq mne
        | cons a as => simp
      obtain ⟨e0, g0, he0⟩ := hugeRest_good h c mb H ss s.value (n % s.value) hss hmodlt
        (by rw [hmm]; exact hg) F (by omega)
      have hw : lookup c.round (scaleNoun h s (n / s.value)) = some s.value := by
        unfold scaleNoun; split <;> assumption
      have hrec : getIntValueF true asciiDigits c F (hugeMult h (n / s.value)).2 = .ok (n / s.value) := by
        unfold getIntValue at mval
        exact getIntValueF_mono true asciiDigits c _ F _ _ mval (by omega)
      have key := good_step true _ c.round _ _ s.value (n / s.value) _ (n % s.value) e0 g0 he0 hw mne
        (Inert.mono min h6) hrec
      have hv : s.value * (n / s.value) + n % s.value = n := Nat.div_add_mod n s.value
      rw [hv] at key
      exact ⟨s.value, key, h6⟩

theorem hugeTop_small (h : EuHuge) (c : LangCfg) (mb : Nat) :
    ∀ (ss : List EuScale) (top n : Nat), scalesOK c mb top ss = true → n < 1000000 →
      hugeTop h ss n = spellEuAll h.big n := by
  intro ss
  induction ss with
  | nil => intro top n _ _; rfl
  | cons s ss ih =>
    intro top n hs hn
    obtain ⟨_, _, _, _, h6, _, hss⟩ := scalesOK_cons hs
    have hz : n / s.value = 0 := (Nat.div_eq_zero_iff_lt (by omega)).mpr (by omega)
    have hb : (n / s.value == 0) = true := by simp [hz]
    simp only [hugeTop, hb, if_true]
    exact ih s.value n hss hn

/-- **The lift.** Every numeral below the top of the scale-word table is read back as the integer it denotes —
except, in a culture with the connector rule and a bare thousand word, the numerals ending in `… e mil`. -/
theorem huge_value (h : EuHuge) (c : LangCfg) (mb top : Nat) (H : HugeHyps h c mb)
    (hs : scalesOK c mb top h.scales = true) (n : Nat) (hn : n < top)
    (hg : ¬ (h.big.eRule = true ∧ h.big.omitOne = true ∧ n % 1000000 = 1000 ∧ 1000000 ≤ n)) :
    getIntValue true asciiDigits c (spellHuge h n).2 = .ok n := by
  unfold spellHuge
  by_cases h6 : n < 1000000
  · rw [hugeTop_small h c mb h.scales top n hs h6]
    exact H.low n h6
  · have hg' : ¬ (h.big.eRule = true ∧ h.big.omitOne = true ∧ n % 1000000 = 1000) :=
      fun ⟨a, b, d⟩ => hg ⟨a, b, d, by omega⟩
    unfold getIntValue
    obtain ⟨e, g1, g2⟩ := hugeTop_good h c mb H h.scales top n hs hn (by omega) hg'
      ((hugeTop h h.scales n).2.length + 2) (Nat.le_refl _)
    have hne : (hugeTop h h.scales n).2 ≠ [] := by
      intro hnil
      have := g1.1
      rw [hnil] at this
      simp [scanR] at this
      omega
    exact eval_of_good asciiDigits c _ _ n e g1 hne (by omega)

/-! ### the multiplier hypothesis from `hiFact` -/

theorem hi_facts (h : EuHuge) (c : LangCfg)
    (hsub : ∀ n, n < 1000 → getIntValue true asciiDigits c (spellEu h.big.base n).2 = .ok n)
    (g : Nat) (hg2 : g < 1000) (hf : hiFact h c g = true) :
    (spellMultHi h g).2 ≠ [] ∧ Inert c.round 1000000 (spellMultHi h g).2 ∧
      getIntValue true asciiDigits c (spellMultHi h g).2 = .ok g ∧
      (h.wide = true → (scanR c.round (spellMultHi h g).2 1).2 ≤ 1000 ∧
        ((scanR c.round (spellMultHi h g).2 1).2 = 1 → ∀ t ∈ (spellMultHi h g).2, lookup c.round t = none)) ∧
      (h.big.eRule = true → getIntValue true asciiDigits c ([101] :: (spellMultHi h g).2) = .ok g ∧
        getIntValue true asciiDigits c ([101] :: (spellMult h.big g).2) = .ok g) := by
  simp only [hiFact, Bool.and_eq_true, Bool.not_eq_true', Bool.or_eq_true, beq_iff_eq, okRes,
    decide_eq_true_eq, bne_iff_ne, ne_eq, List.all_eq_true, Option.isNone_iff_eq_none] at hf
  obtain ⟨⟨⟨⟨hne, hin⟩, hval⟩, hwide⟩, he⟩ := hf
  refine ⟨?_, inert_of_roundBelow hin, ?_, ?_, ?_⟩
  · intro e; rw [e] at hne; simp at hne
  · rcases hval with he | hv
    · rw [he]; exact hsub _ hg2
    · exact hv
  · intro hw
    rcases hwide with hx | ⟨hs, hflat⟩
    · rw [hw] at hx; cases hx
    · refine ⟨hs, fun h1 => ?_⟩
      rcases hflat with hx | hx
      · exact absurd h1 hx
      · exact hx
  · intro hE
    rcases he with hx | ⟨h1, h2⟩
    · rw [hE] at hx; cases hx
    · refine ⟨h1, ?_⟩
      rcases h2 with hx | hx
      · rw [hx]; exact h1
      · exact hx

/-- short scale: the multipliers are 1..999 -/
theorem hugeHyps_narrow (h : EuHuge) (c : LangCfg) (hwide : h.wide = false)
    (hsub : ∀ n, n < 1000 → getIntValue true asciiDigits c (spellEu h.big.base n).2 = .ok n)
    (hth : lookup c.round h.big.thousand = some 1000)
    (hk : ∀ k, 1 ≤ k → k < 1000 → multFact h.big c k = true ∧ restFact h.big c k = true)
    (hlow : ∀ r, r < 1000000 → getIntValue true asciiDigits c (spellEuAll h.big r).2 = .ok r)
    (he : h.big.eRule = true → lookup c.round [101] = none)
    (hhi : ∀ g, 1 ≤ g → g < 1000 → hiFact h c g = true) : HugeHyps h c 1000 where
  sub := hsub
  thousand := hth
  kfacts := hk
  low := hlow
  econn := fun hE => ⟨he hE, fun k k1 k2 => ((hi_facts h c hsub k k2 (hhi k k1 k2)).2.2.2.2 hE).2⟩
  mult := by
    intro g g1 g2
    obtain ⟨a, b, d, _, e⟩ := hi_facts h c hsub g g2 (hhi g g1 g2)
    have hm : hugeMult h g = spellMultHi h g := by simp [hugeMult, hwide]
    rw [hm]
    exact ⟨a, b, d, fun hE => (e hE).1⟩

/-- long scale (no connector rule): the multipliers are 1..999999, the thousand group inside them by
`thousand_group` -/
theorem hugeHyps_wide (h : EuHuge) (c : LangCfg) (hwide : h.wide = true) (hE : h.big.eRule = false)
    (hsub : ∀ n, n < 1000 → getIntValue true asciiDigits c (spellEu h.big.base n).2 = .ok n)
    (hth : lookup c.round h.big.thousand = some 1000)
    (hk : ∀ k, 1 ≤ k → k < 1000 → multFact h.big c k = true ∧ restFact h.big c k = true)
    (hlow : ∀ r, r < 1000000 → getIntValue true asciiDigits c (spellEuAll h.big r).2 = .ok r)
    (hhi : ∀ g, 1 ≤ g → g < 1000 → hiFact h c g = true) : HugeHyps h c 1000000 where
  sub := hsub
  thousand := hth
  kfacts := hk
  low := hlow
  econn := fun x => by rw [hE] at x; cases x
  mult := by
    intro g g1 g2
    have hm : hugeMult h g = spellMultWide h g := by simp [hugeMult, hwide]
    rw [hm]
    refine ⟨?_, ?_, ?_, fun x => by rw [hE] at x; cases x⟩ <;> by_cases hs : g < 1000
    · simpa [spellMultWide, hs] using (hi_facts h c hsub g hs (hhi g g1 hs)).1
    · simp [spellMultWide, hs]
    · simpa [spellMultWide, hs] using (hi_facts h c hsub g hs (hhi g g1 hs)).2.1
    · -- multiplier of the thousand word, the thousand word, the remainder in multiplier form
      have hk1 : 1 ≤ g / 1000 := by omega
      have hk2 : g / 1000 < 1000 := by omega
      have hu2 : g % 1000 < 1000 := Nat.mod_lt _ (by decide)
      obtain ⟨_, min, _⟩ := multPart_facts h.big c hsub (g / 1000) hk2 (hk _ hk1 hk2).1
      have hmp : Inert c.round 1000000 (multPart h.big (g / 1000)).2 := by
        unfold multPart
        split
        · exact Inert.nil _ _
        · exact Inert.mono min (by omega)
      have hthw : Inert c.round 1000000 [h.big.thousand] := by
        intro t ht
        simp only [List.mem_cons, List.not_mem_nil, or_false] at ht
        rw [ht]; exact Or.inr ⟨1000, hth, by omega⟩
      have hr : Inert c.round 1000000
          (if g % 1000 == 0 then (([] : Str), ([] : List Str))
            else ([32] ++ (spellMultHi h (g % 1000)).1, (spellMultHi h (g % 1000)).2)).2 := by
        split
        · exact Inert.nil _ _
        · rename_i hu
          have hu0 : g % 1000 ≠ 0 := by simpa using hu
          exact (hi_facts h c hsub _ hu2 (hhi _ (by omega) hu2)).2.1
      simpa [spellMultWide, hs] using Inert.append (Inert.append hmp hthw) hr
    · simpa [spellMultWide, hs] using (hi_facts h c hsub g hs (hhi g g1 hs)).2.2.1
    · have hk1 : 1 ≤ g / 1000 := by omega
      have hk2 : g / 1000 < 1000 := by omega
      have hu2 : g % 1000 < 1000 := Nat.mod_lt _ (by decide)
      have hgv : 1000 * (g / 1000) + g % 1000 = g := Nat.div_add_mod g 1000
      obtain ⟨mne, min, mval⟩ := multPart_facts h.big c hsub (g / 1000) hk2 (hk _ hk1 hk2).1
      have htok : (spellMultWide h g).2 = (multPart h.big (g / 1000)).2 ++ h.big.thousand ::
          (if g % 1000 == 0 then (([] : Str), ([] : List Str))
            else ([32] ++ (spellMultHi h (g % 1000)).1, (spellMultHi h (g % 1000)).2)).2 := by
        simp [spellMultWide, hs]
      rw [htok]
      have key := thousand_group asciiDigits c (multPart h.big (g / 1000)).2 h.big.thousand
        (if g % 1000 == 0 then (([] : Str), ([] : List Str))
            else ([32] ++ (spellMultHi h (g % 1000)).1, (spellMultHi h (g % 1000)).2)).2
        (g / 1000) (g % 1000) ((multPart h.big (g / 1000)).2.length + 3)
        ((if g % 1000 == 0 then (([] : Str), ([] : List Str))
            else ([32] ++ (spellMultHi h (g % 1000)).1, (spellMultHi h (g % 1000)).2)).2.length + 3) hth ?_ ?_
      · rw [hgv] at key; exact key
      · unfold multPart
        by_cases ho : (g / 1000 == 1 && h.big.omitOne) = true
        · left
          simp only [ho, if_true]
          simp only [Bool.and_eq_true, beq_iff_eq] at ho
          exact ⟨trivial, ho.1⟩
        · right
          simp only [ho, Bool.false_eq_true, if_false]
          exact ⟨mne, min, mval, Nat.le_refl _⟩
      · by_cases hu0 : g % 1000 = 0
        · left; simp [hu0]
        · right
          have hb : (g % 1000 == 0) = false := by simp [hu0]
          simp only [hb, Bool.false_eq_true, if_false]
          obtain ⟨a, _, d, w, _⟩ := hi_facts h c hsub _ hu2 (hhi _ (by omega) hu2)
          obtain ⟨w1, w2⟩ := w hwide
          exact ⟨a, d, Nat.le_refl _, w1, w2⟩

/-- below 10^6: the numeral below 1000 or the thousand group (as `sub1e6_of` in `Props/C04`) -/
theorem sub1e6_of' (b : EuBig) (c : LangCfg)
    (hsub : ∀ n, n < 1000 → getIntValue true asciiDigits c (spellEu b.base n).2 = .ok n)
    (hbig : ∀ n, 1000 ≤ n → n < 1000000 → getIntValue true asciiDigits c (spellEuBig b n).2 = .ok n)
    (n : Nat) (h : n < 1000000) : getIntValue true asciiDigits c (spellEuAll b n).2 = .ok n := by
  unfold spellEuAll
  split
  · rename_i h1; exact hsub n h1
  · rename_i h1; exact hbig n (by omega) h

end RTV.Num
