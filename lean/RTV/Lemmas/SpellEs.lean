import RTV.Model.SpellEu
import RTV.Model.NumCfg
/-! Spanish numerals below 1000 (`spellEu esSpell`) against `getIntValue` with the regenerated Spanish maps and the
culture's `resolve_composite_number`: kernel evaluation in chunks of 50 (one declaration per chunk keeps the
kernel's caches small), then the case split over the chunk index. -/
namespace RTV.Num

/-- the numerals the statement is about (exact guard: what the faithful model gets right) -/
def esGuard (n : Nat) : Bool := true

def esCheck (n : Nat) : Bool :=
  !esGuard n || decide (getIntValue true asciiDigits es.lang (spellEu esSpell n).2 = .ok n)

def esChunk (k : Nat) : Bool := (List.range 50).all fun i => esCheck (50 * k + i)

theorem es_c0 : esChunk 0 = true := by decide +kernel
theorem es_c1 : esChunk 1 = true := by decide +kernel
theorem es_c2 : esChunk 2 = true := by decide +kernel
theorem es_c3 : esChunk 3 = true := by decide +kernel
theorem es_c4 : esChunk 4 = true := by decide +kernel
theorem es_c5 : esChunk 5 = true := by decide +kernel
theorem es_c6 : esChunk 6 = true := by decide +kernel
theorem es_c7 : esChunk 7 = true := by decide +kernel
theorem es_c8 : esChunk 8 = true := by decide +kernel
theorem es_c9 : esChunk 9 = true := by decide +kernel
theorem es_c10 : esChunk 10 = true := by decide +kernel
theorem es_c11 : esChunk 11 = true := by decide +kernel
theorem es_c12 : esChunk 12 = true := by decide +kernel
theorem es_c13 : esChunk 13 = true := by decide +kernel
theorem es_c14 : esChunk 14 = true := by decide +kernel
theorem es_c15 : esChunk 15 = true := by decide +kernel
theorem es_c16 : esChunk 16 = true := by decide +kernel
theorem es_c17 : esChunk 17 = true := by decide +kernel
theorem es_c18 : esChunk 18 = true := by decide +kernel
theorem es_c19 : esChunk 19 = true := by decide +kernel

theorem es_chunks (k : Nat) (hk : k < 20) : esChunk k = true := by
  match k, hk with
  | 0, _ => exact es_c0
  | 1, _ => exact es_c1
  | 2, _ => exact es_c2
  | 3, _ => exact es_c3
  | 4, _ => exact es_c4
  | 5, _ => exact es_c5
  | 6, _ => exact es_c6
  | 7, _ => exact es_c7
  | 8, _ => exact es_c8
  | 9, _ => exact es_c9
  | 10, _ => exact es_c10
  | 11, _ => exact es_c11
  | 12, _ => exact es_c12
  | 13, _ => exact es_c13
  | 14, _ => exact es_c14
  | 15, _ => exact es_c15
  | 16, _ => exact es_c16
  | 17, _ => exact es_c17
  | 18, _ => exact es_c18
  | 19, _ => exact es_c19
  | k + 20, h => omega

theorem es_all (n : Nat) (h : n < 1000) (hg : esGuard n = true) :
    getIntValue true asciiDigits es.lang (spellEu esSpell n).2 = .ok n := by
  have hc := es_chunks (n / 50) (by omega)
  simp only [esChunk, List.all_eq_true, List.mem_range] at hc
  have := hc (n % 50) (Nat.mod_lt _ (by decide))
  have e : 50 * (n / 50) + n % 50 = n := Nat.div_add_mod n 50
  rw [e] at this
  simpa [esCheck, hg] using this

end RTV.Num
