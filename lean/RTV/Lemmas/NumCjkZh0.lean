import RTV.Lemmas.NumCjk
/-! kernel evaluation of the typed `get_int_value` walk (int / binary64), numerals 0..999 -/
namespace RTV.NumCjk
theorem zh_l0 : zhLoopChunk 0 = true := by decide +kernel
theorem zh_l1 : zhLoopChunk 1 = true := by decide +kernel
theorem zh_l2 : zhLoopChunk 2 = true := by decide +kernel
theorem zh_l3 : zhLoopChunk 3 = true := by decide +kernel
theorem zh_l4 : zhLoopChunk 4 = true := by decide +kernel
theorem zh_l5 : zhLoopChunk 5 = true := by decide +kernel
theorem zh_l6 : zhLoopChunk 6 = true := by decide +kernel
theorem zh_l7 : zhLoopChunk 7 = true := by decide +kernel
theorem zh_l8 : zhLoopChunk 8 = true := by decide +kernel
theorem zh_l9 : zhLoopChunk 9 = true := by decide +kernel
end RTV.NumCjk
