import RTV.Lemmas.Phone
import RTV.Lemmas.ReBounds
import RTV.Lemmas.Seq
import RTV.Model.SeqEnv
/-! The concrete `BasePhoneNumberExtractor.extract` (regenerated regexes): the oracle's hypothesis holds, the candidates
of the sweep lie inside the text, hence so does everything reported. -/
namespace RTV.Seq
open RTV.Py RTV.Re RTV.Match RTV.Phone

theorem searchSpan_bounds (T : Tables) (r : RE) (f : Str) (a b : Nat) (h : searchSpan T r f = some (a, b)) :
    a ≤ b ∧ b ≤ f.length := by
  unfold searchSpan at h
  have hm := List.mem_of_head? h
  have := findAll_bounds (T := T) (s := f.toArray) r (a, b) hm
  simpa using this

theorem sweep_candidate_bounds (K : CharClass) (T : Tables) (source : Str) (rs : List (RE × String)) :
    ∀ e ∈ seqSweep K source (rs.flatMap fun p => tagged p.2 (findAll T source.toArray p.1)),
      e.start + e.len ≤ source.length ∧
      ∃ p ∈ rs, e.data = p.2 ∧ Matches T p.1 source.toArray e.start (e.start + e.len) := by
  intro e he
  unfold seqSweep at he
  split at he
  · simp at he
  · obtain ⟨b, hm, hl⟩ := sweepGo_mem _ _ _ _ _ _ _ e he
    obtain ⟨p, hp, hmem⟩ := List.mem_flatMap.1 hm
    have t := tagged_mem hmem
    have hb := findAll_bounds (T := T) (s := source.toArray) p.1 _ t.1
    simp at hb
    have hse : e.start + e.len = b := by omega
    refine ⟨by omega, p, hp, t.2, ?_⟩
    rw [hse]; exact findAll_sound _ t.1

/-- C13 (phone, end to end on the regenerated regexes): every entity `BasePhoneNumberExtractor.extract` reports lies
inside the text, stems from a candidate that is exactly a match of one of the ten phone regexes (whose tag it
keeps) and that passed the digit-count / SSN / forbidden-suffix / false-positive-prefix filters, and is that
candidate itself or its extension to the left over an international dialling prefix with the same end. -/
theorem phoneExtract_spec (E : SeqEnv) (source : Str) : ∀ r ∈ phoneExtract E source,
    r.start + r.len ≤ source.length ∧
    ∃ e : ER, e.start + e.len ≤ source.length ∧
      (∃ p ∈ phoneRegexes, e.data = p.2 ∧ r.data = p.2 ∧ Matches E.T p.1 source.toArray e.start (e.start + e.len)) ∧
      Passed (phoneOracleOf E) source e ∧
      (r = e ∨ (r.start < e.start ∧ r.start + r.len ≤ e.start + e.len ∧
        r.text = strip E.K.isSpace (sliceI source r.start (r.start + r.len)))) := by
  intro r hr
  unfold phoneExtract at hr
  split at hr
  · simp at hr
  · have hint : ∀ f a b, (phoneOracleOf E).intl f = some (a, b) → a ≤ b ∧ b ≤ f.length :=
      fun f a b h => searchSpan_bounds E.T _ f a b h
    obtain ⟨e, he, hd, hp, hcase⟩ := postProcess_span (phoneOracleOf E) _ source _ hint r hr
    obtain ⟨hin, p, hpm, hpd, hmatch⟩ := sweep_candidate_bounds E.K E.T source phoneRegexes e he
    rcases hcase with rfl | ⟨me, _, h1, h2, h3, h4, h5⟩
    · exact ⟨hin, r, hin, ⟨p, hpm, hpd, hpd, hmatch⟩, hp, .inl rfl⟩
    · have h6 := (h5 hin).1
      exact ⟨by omega, e, hin, ⟨p, hpm, hpd, by rw [hd, hpd], hmatch⟩, hp, .inr ⟨by omega, h6, h4⟩⟩

end RTV.Seq
