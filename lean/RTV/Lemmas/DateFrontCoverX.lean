import RTV.Lemmas.DateFrontCover
import RTV.Model.DateFrontX
/-!
`Lemmas/DateFrontCover` for the other cultures of the C06 contract — three generalisations, same method:

* the reference tables of the symbolic evaluation are `latinTables` (ASCII + the Latin-1 letters as `\w`), the candidates
  may be any code point below 256 (`février`, `août`, `março`, `märz`), and the engine's tables are any `Tables` that
  agrees with `latinTables` below 256 (`LatinAgree`; Props/C06FrontX `retables_latin`: those of the running `regex` module do);
* the DAY group may extend over literal characters that follow the day token (`dext`): German `{d}.` hands
  `match_to_date` the day `5.`, French `1er` the day `1er`, Dutch `{d}e` the day `5e` — those are the keys of the culture's
  `DayOfMonth`;
* the days a layout applies to are a parameter (`days`): `1er` is the text of day 1 only.
-/
namespace RTV.DateFront
open RTV.Re RTV.Py RTV.DtRes

/-! ### the abstract oracle over the Latin-1 reference tables -/

/-- the engine's tables agree with `latinTables` below 256 -/
def LatinAgree (T : Tables) : Prop :=
  ∀ c, c < 256 → T.digit c = latinTables.digit c ∧ T.word c = latinTables.word c ∧ T.space c = latinTables.space c

theorem latinAgree_latin : LatinAgree latinTables := fun _ _ => ⟨rfl, rfl, rfl⟩

theorem itemTest_agreeL {T : Tables} (h : LatinAgree T) (c : Nat) (hc : c < 256) (it : Item) :
    Item.test T c it = Item.test latinTables c it := by
  obtain ⟨h1, h2, h3⟩ := h c hc
  cases it <;> simp [Item.test, h1, h2, h3]

theorem clsTest_agreeL {T : Tables} (h : LatinAgree T) (items : List Item) (neg : Bool) (c : Nat) (hc : c < 256) :
    clsTest T items neg c = clsTest latinTables items neg c := by
  unfold clsTest
  congr 1
  induction items with
  | nil => rfl
  | cons it rest ih => simp [List.any_cons, itemTest_agreeL h c hc it, ih]

/-- every candidate is a code point below 256 -/
def latinAbs (A : AStr) : Bool := A.all fun a => a.all (· < 256)

theorem latinAbs_get {A : AStr} (ha : latinAbs A = true) (p : Nat) (c : Nat) (hc : c ∈ A.getD p []) : c < 256 := by
  unfold latinAbs at ha
  simp only [List.all_eq_true, decide_eq_true_eq] at ha
  by_cases hp : p < A.length
  · have : A.getD p [] = A[p] := by simp [List.getD_eq_getElem?_getD, hp]
    rw [this] at hc
    exact ha _ (List.getElem_mem hp) c hc
  · have : A.getD p [] = [] := by simp [List.getD_eq_getElem?_getD, Nat.le_of_not_lt hp]
    rw [this] at hc
    simp at hc

private theorem abs_queryL {A : AStr} {s : Str} (hc : Conc A s) (p : Nat) (f : Nat → Bool) (b : Bool)
    (hq : allSame ((A.toArray.getD p []).map f) = some b) : p < s.length ∧ f (s.getD p 0) = b := by
  by_cases hp : p < A.length
  · rw [absGet_some hp] at hq
    have hps : p < s.length := by rw [← hc.length]; exact hp
    exact ⟨hps, allSame_some hq _ (List.mem_map.2 ⟨_, hc.get p hps, rfl⟩)⟩
  · rw [absGet_none hp] at hq
    simp [allSame] at hq

/-- The abstract oracle over `latinTables` refines the oracle of every string drawn from the abstract string, for every
engine table that agrees with `latinTables` below 256. -/
theorem abs_refines_concL {T : Tables} (hT : LatinAgree T) {A : AStr} {s : Str} (hc : Conc A s) (ha : latinAbs A = true) :
    Refines (absO latinTables A.toArray) (conc T s.toArray) := by
  refine ⟨by simp [absO, conc, hc.length], ?_, ?_, ?_⟩
  · intro p items neg b hq
    obtain ⟨hps, hv⟩ := abs_queryL hc p (clsTest latinTables items neg) b hq
    have h256 : s.getD p 0 < 256 := latinAbs_get ha p _ (hc.get p hps)
    simp only [conc, code_toArray, clsTest_agreeL hT items neg _ h256, hv]
  · intro p b hq
    obtain ⟨hps, hv⟩ := abs_queryL hc p latinTables.word b hq
    have h256 : s.getD p 0 < 256 := latinAbs_get ha p _ (hc.get p hps)
    simp only [conc, code_toArray, (hT _ h256).2.1, hv]
  · intro p b hq
    obtain ⟨_, hv⟩ := abs_queryL hc p (· == 10) b hq
    simp only [conc, code_toArray, hv]

theorem latinAbs_append {A B : AStr} (ha : latinAbs A = true) (hb : latinAbs B = true) : latinAbs (A ++ B) = true := by
  unfold latinAbs at *
  simp only [List.all_append, ha, hb, Bool.and_self]

theorem latinAbs_sing (pre : Str) (h : pre.all (· < 256) = true) : latinAbs (pre.map fun c => [c]) = true := by
  unfold latinAbs
  simp only [List.all_eq_true, decide_eq_true_eq, List.mem_map, forall_exists_index, and_imp] at h ⊢
  intro a c hc hac x hx
  subst hac
  simp only [List.mem_singleton] at hx
  subst hx
  exact h x hc

/-! ### the day group with its literal suffix -/

/-- the first day token: its offset, the end of the day GROUP (token + the literal characters `dext` that must follow it in
the layout) and the token -/
def spanOfD (len : Tok → Nat) (dext : Str) : List Tok → Nat → Option (Nat × Nat × Tok)
  | [], _ => none
  | t :: L, off =>
    if t.kind = 3 then
      (if L.take dext.length = dext.map Tok.lit then some (off, off + len t + dext.length, t) else none)
    else spanOfD len dext L (off + len t)

theorem spanOfD_congr (len len' : Tok → Nat) (dext : Str) :
    ∀ (L : List Tok) (off : Nat), (∀ t ∈ L, len t = len' t) → spanOfD len dext L off = spanOfD len' dext L off := by
  intro L
  induction L with
  | nil => intro _ _; rfl
  | cons t L ih =>
    intro off h
    simp only [spanOfD, h t (by simp)]
    rw [ih _ (fun t' ht' => h t' (by simp [ht']))]

theorem spanOfD_mem (len : Tok → Nat) (dext : Str) :
    ∀ (L : List Tok) (off a b : Nat) (t : Tok), spanOfD len dext L off = some (a, b, t) → t ∈ L ∧ t.kind = 3 := by
  intro L
  induction L with
  | nil => intro off a b t h; simp [spanOfD] at h
  | cons t0 L ih =>
    intro off a b t h
    simp only [spanOfD] at h
    by_cases hk : t0.kind = 3
    · simp only [hk, if_true] at h
      split at h
      · simp only [Option.some.injEq, Prod.mk.injEq] at h
        obtain ⟨_, _, rfl⟩ := h
        exact ⟨by simp, hk⟩
      · simp at h
    · simp only [hk, if_false] at h
      obtain ⟨h1, h2⟩ := ih _ _ _ _ h
      exact ⟨by simp [h1], h2⟩

theorem renderL_lits (N : Names) (y m d : Nat) : ∀ (e : Str), renderL N (e.map Tok.lit) y m d = e
  | [] => rfl
  | c :: e => by
    have := renderL_lits N y m d e
    simp only [renderL] at this ⊢
    simp only [List.map_cons, List.flatMap_cons, this]
    simp [Tok.render]

theorem renderL_append (N : Names) (y m d : Nat) (A B : List Tok) :
    renderL N (A ++ B) y m d = renderL N A y m d ++ renderL N B y m d := by
  simp [renderL, List.flatMap_append]

/-- slicing the rendered layout at the span of the day group gives the day token's rendering followed by `dext` -/
theorem spanOfD_slice (N : Names) (y m d : Nat) (dext : Str) :
    ∀ (L : List Tok) (pre : Str) (a b : Nat) (t : Tok),
      spanOfD (fun t => (t.render N y m d).length) dext L pre.length = some (a, b, t) →
      ((pre ++ renderL N L y m d).drop a).take (b - a) = t.render N y m d ++ dext := by
  intro L
  induction L with
  | nil => intro pre a b t h; simp [spanOfD] at h
  | cons t0 L ih =>
    intro pre a b t h
    simp only [spanOfD] at h
    by_cases hk : t0.kind = 3
    · simp only [hk, if_true] at h
      split at h
      · rename_i htk
        simp only [Option.some.injEq, Prod.mk.injEq] at h
        obtain ⟨rfl, rfl, rfl⟩ := h
        have hL : L = dext.map Tok.lit ++ L.drop dext.length := by
          conv => lhs; rw [← List.take_append_drop dext.length L, htk]
        have hr : renderL N L y m d = dext ++ renderL N (L.drop dext.length) y m d := by
          conv => lhs; rw [hL, renderL_append, renderL_lits]
        have e : renderL N (t0 :: L) y m d = t0.render N y m d ++ (dext ++ renderL N (L.drop dext.length) y m d) := by
          rw [← hr]; simp [renderL, List.flatMap_cons]
        rw [e]
        have e2 : pre.length + (t0.render N y m d).length + dext.length - pre.length =
            (t0.render N y m d ++ dext).length := by simp; omega
        rw [e2, List.drop_left, ← List.append_assoc, List.take_left]
      · simp at h
    · simp only [hk, if_false] at h
      have := ih (pre ++ t0.render N y m d) a b t (by simpa using h)
      simpa [renderL, List.flatMap_cons, List.append_assoc] using this

/-! ### the Bool checks evaluated by the kernel -/

/-- regex `k` accepts the abstract text of the layout on the text itself; the year / month groups lie exactly on the year /
month tokens, the day group on the day token + `dext`; no `fullyear` group -/
def accOneL (rs : List (Option RE)) (pre : Str) (k : Nat) (L : List Tok) (dext : Str) (ay am ad : AStr) : Bool :=
  let A := absL L ay am ad
  let len : Tok → Nat := fun t => (absTok ay am ad t).length
  latinAbs A && visibleEnds A && pre.all (· < 256) &&
  (spanOf len 1 L 0).isSome && (spanOf len 2 L 0).isSome && (spanOfD len dext L 0).isSome &&
  match rs[k]? with
  | some (some r) =>
    match stepO (absO latinTables A.toArray) (absO latinTables ((pre.map fun c => [c]) ++ A).toArray) pre.length r with
    | some (some (false, mt)) =>
      capOf mt.env 1 == spanPair (spanOf len 1 L 0) && capOf mt.env 2 == spanPair (spanOf len 2 L 0) &&
      capOf mt.env 3 == spanPair (spanOfD len dext L 0) && capOf mt.env 4 == none
    | _ => false
  | _ => false

/-- The front end on a rendered date, when the earlier regexes reject it
(concretely) and regex `k` accepts
with the groups on the tokens (the day group on the day token + `dext`); then `parse_basic_regex_match` hands
`match_to_date` exactly the rendered year / month tokens and the rendered day token followed by `dext`. -/
theorem front_groupsL {T : Tables} (hT : LatinAgree T) {u : Uni} (hu : TextUni u) (N : Names) (rs : List (Option RE))
    (pre : Str) (L : List Tok) (dext : Str) (k : Nat) (y m d : Nat)
    (hrej' : ∀ j, j < k → ∃ rj, rs[j]? = some (some rj) ∧
      stepO (conc T (renderL N L y m d).toArray) (conc T (pre ++ renderL N L y m d).toArray) pre.length rj = some none)
    (hacc : ∃ ay am ad, CoverTok N L y m d ay am ad ∧ accOneL rs pre k L dext ay am ad = true) :
    ∃ h ty tm td, parseBasic T u pre rs (renderL N L y m d) =
        some (some (h, { year := ty.render N y m d, month := tm.render N y m d, day := td.render N y m d ++ dext,
                         fullYear := [] })) ∧
      h.idx = k ∧ ty ∈ L ∧ ty.kind = 1 ∧ tm ∈ L ∧ tm.kind = 2 ∧ td ∈ L ∧ td.kind = 3 := by
  obtain ⟨ay, am, ad, hcov, hk⟩ := hacc
  have hc := conc_layout N y m d ay am ad L hcov
  unfold accOneL at hk
  simp only [Bool.and_eq_true] at hk
  obtain ⟨⟨⟨⟨⟨⟨ha, hv⟩, hpre⟩, hs1⟩, hs2⟩, hs3⟩, hk⟩ := hk
  cases hr : rs[k]? with
  | none => simp [hr] at hk
  | some o =>
  cases o with
  | none => simp [hr] at hk
  | some r =>
  simp only [hr] at hk
  cases hst : stepO (absO latinTables (absL L ay am ad).toArray)
      (absO latinTables ((pre.map fun c => [c]) ++ absL L ay am ad).toArray) pre.length r with
  | none => simp [hst] at hk
  | some o2 =>
  cases o2 with
  | none => simp [hst] at hk
  | some pm =>
  obtain ⟨p, mt⟩ := pm
  cases p with
  | true => simp [hst] at hk
  | false =>
  simp only [hst, Bool.and_eq_true, beq_iff_eq] at hk
  obtain ⟨⟨⟨hg1, hg2⟩, hg3⟩, hg4⟩ := hk
  have hT' := abs_refines_concL hT hc ha
  have hP' := abs_refines_concL hT (Conc.append hc (Conc.sing pre)) (latinAbs_append (latinAbs_sing pre hpre) ha)
  have hstep := stepO_mono hT' hP' _ r _ hst
  have hloop := parseBasicO_of_steps _ _ pre.length rs 0 k r false mt hrej' hr hstep
  have hstrip := strip_conc hu hc hv
  have hlen : ∀ t ∈ L, (absTok ay am ad t).length = (t.render N y m d).length :=
    fun t ht => (conc_tok N y m d ay am ad t (hcov t ht)).length
  have hsp : ∀ g, spanOf (fun t => (absTok ay am ad t).length) g L 0 =
      spanOf (fun t => (t.render N y m d).length) g L 0 := fun g => spanOf_congr _ _ g L 0 hlen
  have hspD : spanOfD (fun t => (absTok ay am ad t).length) dext L 0 =
      spanOfD (fun t => (t.render N y m d).length) dext L 0 := spanOfD_congr _ _ dext L 0 hlen
  rw [hsp 1] at hs1 hg1
  rw [hsp 2] at hs2 hg2
  rw [hspD] at hs3 hg3
  obtain ⟨⟨a1, b1, ty⟩, e1⟩ := Option.isSome_iff_exists.1 hs1
  obtain ⟨⟨a2, b2, tm⟩, e2⟩ := Option.isSome_iff_exists.1 hs2
  obtain ⟨⟨a3, b3, td⟩, e3⟩ := Option.isSome_iff_exists.1 hs3
  have m1 := spanOf_mem _ 1 L 0 a1 b1 ty e1
  have m2 := spanOf_mem _ 2 L 0 a2 b2 tm e2
  have m3 := spanOfD_mem _ dext L 0 a3 b3 td e3
  have sl1 := spanOf_slice N y m d 1 L [] a1 b1 ty (by simpa using e1)
  have sl2 := spanOf_slice N y m d 2 L [] a2 b2 tm (by simpa using e2)
  have sl3 := spanOfD_slice N y m d dext L [] a3 b3 td (by simpa using e3)
  simp only [List.nil_append] at sl1 sl2 sl3
  refine ⟨⟨k, false, mt⟩, ty, tm, td, ?_, rfl, m1.1, m1.2, m2.1, m2.2, m3.1, m3.2⟩
  unfold parseBasic
  simp only [hstrip, hloop, Nat.zero_add]
  simp only [groupsOf, groupText, hg1, hg2, hg3, hg4, e1, e2, e3, spanPair, Option.map_some, Bool.false_eq_true, if_false,
    sl1, sl2, sl3]

/-! ### all dates of the ranges from finitely many abstract texts -/

/-- every year 1900..2099, every month 1..12 and every day of `days`, rendered by the layout's tokens, is drawn from one of
the certificate's abstract strings -/
def coverBL (N : Names) (L : List Tok) (days : List Nat) (c : Cert) : Bool :=
  (List.range 200).all (fun i => c.ys.any fun ay => L.all fun t => t.kind != 1 || concB ay (t.render N (1900 + i) 0 0)) &&
  (List.range 12).all (fun i => c.ms.any fun am => L.all fun t => t.kind != 2 || concB am (t.render N 0 (1 + i) 0)) &&
  days.all (fun dd => c.ds.any fun ad => L.all fun t => t.kind != 3 || concB ad (t.render N 0 0 dd))

def accAllL (rs : List (Option RE)) (pre : Str) (k : Nat) (L : List Tok) (dext : Str) (c : Cert) : Bool :=
  c.ys.all fun ay => c.ms.all fun am => c.ds.all fun ad => accOneL rs pre k L dext ay am ad

/-- acceptance certificates may be evaluated in pieces (the month classes split over several files) -/
theorem accAllL_append (rs : List (Option RE)) (pre : Str) (k : Nat) (L : List Tok) (dext : Str) (ys ds ms1 ms2 : List AStr)
    (h1 : accAllL rs pre k L dext ⟨ys, ms1, ds⟩ = true) (h2 : accAllL rs pre k L dext ⟨ys, ms2, ds⟩ = true) :
    accAllL rs pre k L dext ⟨ys, ms1 ++ ms2, ds⟩ = true := by
  unfold accAllL at *
  simp only [List.all_eq_true, List.mem_append] at *
  intro ay hay am ham ad had
  rcases ham with ham | ham
  · exact h1 ay hay am ham ad had
  · exact h2 ay hay am ham ad had

theorem cover_of_coverBL (N : Names) (L : List Tok) (days : List Nat) (c : Cert) (h : coverBL N L days c = true)
    (y m d : Nat) (hy : 1900 ≤ y ∧ y ≤ 2099) (hm : 1 ≤ m ∧ m ≤ 12) (hd : d ∈ days) :
    ∃ ay, ay ∈ c.ys ∧ ∃ am, am ∈ c.ms ∧ ∃ ad, ad ∈ c.ds ∧ CoverTok N L y m d ay am ad := by
  unfold coverBL at h
  simp only [Bool.and_eq_true, List.all_eq_true, List.any_eq_true, List.mem_range, Bool.or_eq_true, bne_iff_ne, ne_eq,
    concB_iff] at h
  obtain ⟨⟨h1, h2⟩, h3⟩ := h
  obtain ⟨ay, hay, hy'⟩ := h1 (y - 1900) (by omega)
  obtain ⟨am, ham, hm'⟩ := h2 (m - 1) (by omega)
  obtain ⟨ad, had, hd'⟩ := h3 d hd
  have e1 : 1900 + (y - 1900) = y := by omega
  have e2 : 1 + (m - 1) = m := by omega
  rw [e1] at hy'
  rw [e2] at hm'
  refine ⟨ay, hay, am, ham, ad, had, fun t ht => ⟨fun hk => ?_, fun hk => ?_, fun hk => ?_⟩⟩
  · rcases hy' t ht with hh | hh
    · exact absurd hk hh
    · rw [render_kind1 N t hk y m d 0 0]; exact hh
  · rcases hm' t ht with hh | hh
    · exact absurd hk hh
    · rw [render_kind2 N t hk y m d 0 0]; exact hh
  · rcases hd' t ht with hh | hh
    · exact absurd hk hh
    · rw [render_kind3 N t hk y m d 0 0]; exact hh

/-! ### rejection, start position by start position

`regex.search` tries the start positions 0, 1, … in turn; the loop of `parse_basic_regex_match` goes on to the next regex when
the reported match is not the whole text at the expected offset (or there is none, on the text and on prefix + text).  So a
regex is rejected when at EVERY start position of the text and of prefix + text the attempt fails or ends elsewhere
(`badAt`).  Each start position has its own certificate (its own partition of the years / months / days into abstract
texts): a position inside the month token needs the months one by one (the month and day sub-regexes of these cultures are
alternations of literals) but not the days, and so on — the sum over the positions instead of the product. -/

/-- the attempt of regex `r` at start position `p` of the abstract text `A` (`onP`: of prefix + `A`) is known and not an
accepting match; vacuous beyond the end of the text; the text is not longer than `M` -/
def rejAt (r : RE) (pre : Str) (onP : Bool) (M p : Nat) (A : AStr) : Bool :=
  latinAbs A && decide (A.length ≤ M) &&
  if onP then
    decide (pre.length + A.length < p) ||
      badAt pre.length A.length p (attempt (absO latinTables ((pre.map fun c => [c]) ++ A).toArray) r p)
  else
    decide (A.length < p) || badAt 0 A.length p (attempt (absO latinTables A.toArray) r p)

/-- certificates of a rejection: a bound on the text length, the distinct certificates, and per start position of the text
(`tpos`, index = position) and of prefix + text (`ppos`) the number of the certificate used there -/
structure PosCert where
  maxLen : Nat
  certs : List Cert
  tpos : List Nat
  ppos : List Nat

def PosCert.at (pc : PosCert) (l : List Nat) (p : Nat) : Option Cert :=
  match l[p]? with
  | some i => pc.certs[i]?
  | none => none

theorem PosCert.at_mem {pc : PosCert} {l : List Nat} {p : Nat} {c : Cert} (h : pc.at l p = some c) : c ∈ pc.certs := by
  unfold PosCert.at at h
  cases hl : l[p]? with
  | none => simp [hl] at h
  | some i => simp only [hl] at h; exact List.mem_of_getElem? h

def certAll (c : Cert) (f : AStr → AStr → AStr → Bool) : Bool :=
  c.ys.all fun ay => c.ms.all fun am => c.ds.all fun ad => f ay am ad

/-- regex `j` rejects every date of the ranges in layout `L`: every certificate covers the ranges and at every start position
all abstract texts of the certificate used there are rejected -/
def rejPosB (N : Names) (rs : List (Option RE)) (pre : Str) (j : Nat) (L : List Tok) (days : List Nat) (pc : PosCert) : Bool :=
  pre.all (· < 256) && pc.certs.all (coverBL N L days) &&
  match rs[j]? with
  | some (some r) =>
    (List.range (pc.maxLen + 1)).all (fun p =>
      match pc.at pc.tpos p with
      | some c => certAll c fun ay am ad => rejAt r pre false pc.maxLen p (absL L ay am ad)
      | none => false) &&
    (List.range (pre.length + pc.maxLen + 1)).all (fun p =>
      match pc.at pc.ppos p with
      | some c => certAll c fun ay am ad => rejAt r pre true pc.maxLen p (absL L ay am ad)
      | none => false)
  | _ => false

/-- `regex.search` when every start position is known not to give an accepting match -/
theorem searchFromO_bad (O : Oracle) (r : RE) (off n : Nat)
    (h : ∀ p, p ≤ O.size → badAt off n p (attempt O r p) = true) :
    ∀ fuel pos, searchFromO O r fuel pos = some none ∨
      ∃ mt, searchFromO O r fuel pos = some (some mt) ∧ ¬ (mt.start = off ∧ mt.stop - mt.start = n) := by
  intro fuel
  induction fuel with
  | zero => intro pos; left; rfl
  | succ fuel ih =>
    intro pos
    simp only [searchFromO]
    by_cases hp : pos > O.size
    · left; simp [hp]
    · simp only [hp, if_false]
      have hb := h pos (by omega)
      unfold attempt at hb
      cases hm : matchK O r (fun j e => R.found j e) pos [] with
      | unk => simp [hm, badAt] at hb
      | fail => simpa using ih (pos + 1)
      | found j e =>
        right
        refine ⟨⟨pos, j, e⟩, rfl, ?_⟩
        simp only [hm, badAt, Bool.not_eq_true', Bool.and_eq_false_iff, beq_eq_false_iff_ne, ne_eq] at hb
        intro hc
        rcases hb with hb | hb
        · exact hb hc.1
        · exact hb hc.2

/-- the loop body goes on when no start position of the text and of prefix + text gives an accepting match -/
theorem stepO_bad (OT OP : Oracle) (n : Nat) (r : RE)
    (hT : ∀ p, p ≤ OT.size → badAt 0 OT.size p (attempt OT r p) = true)
    (hP : ∀ p, p ≤ OP.size → badAt n OT.size p (attempt OP r p) = true) : stepO OT OP n r = some none := by
  unfold stepO searchO
  rcases searchFromO_bad OT r 0 OT.size hT (OT.size + 1) 0 with h1 | ⟨mt, h1, hb⟩
  · simp only [h1]
    rcases searchFromO_bad OP r n OT.size hP (OP.size + 1) 0 with h2 | ⟨mt, h2, hb⟩
    · simp [h2]
    · simp [h2, hb]
  · simp [h1, hb]

theorem badAt_mono {off n p : Nat} {x x' : R} (h : RLe x x') (hb : badAt off n p x = true) : badAt off n p x' = true := by
  have : x ≠ .unk := by intro e; simp [e, badAt] at hb
  rw [h this]; exact hb

theorem certAll_mem {c : Cert} {f : AStr → AStr → AStr → Bool} (h : certAll c f = true) {ay am ad : AStr}
    (hy : ay ∈ c.ys) (hm : am ∈ c.ms) (hd : ad ∈ c.ds) : f ay am ad = true := by
  unfold certAll at h
  simp only [List.all_eq_true] at h
  exact h ay hy am hm ad hd

/-- concrete consequence of a position-wise rejection certificate: on every date of the ranges the loop body of regex `j`
goes on -/
theorem rejPos_sound {T : Tables} (hT : LatinAgree T) (N : Names) (rs : List (Option RE)) (pre : Str) (j : Nat)
    (L : List Tok) (days : List Nat) (pc : PosCert) (h : rejPosB N rs pre j L days pc = true)
    (y m d : Nat) (hy : 1900 ≤ y ∧ y ≤ 2099) (hm : 1 ≤ m ∧ m ≤ 12) (hd : d ∈ days) :
    ∃ r, rs[j]? = some (some r) ∧
      stepO (conc T (renderL N L y m d).toArray) (conc T (pre ++ renderL N L y m d).toArray) pre.length r = some none := by
  unfold rejPosB at h
  simp only [Bool.and_eq_true] at h
  obtain ⟨⟨hpre, hcovs⟩, h⟩ := h
  simp only [List.all_eq_true] at hcovs
  cases hr : rs[j]? with
  | none => simp [hr] at h
  | some o =>
  cases o with
  | none => simp [hr] at h
  | some r =>
  simp only [hr, Bool.and_eq_true, List.all_eq_true, List.mem_range] at h
  obtain ⟨hTp, hPp⟩ := h
  refine ⟨r, rfl, ?_⟩
  -- what a position certificate gives on this date
  have key : ∀ (c : Cert) (onP : Bool) (p : Nat), coverBL N L days c = true →
      (certAll c fun ay am ad => rejAt r pre onP pc.maxLen p (absL L ay am ad)) = true →
      ∃ A, Conc A (renderL N L y m d) ∧ rejAt r pre onP pc.maxLen p A = true := by
    intro c onP p hc hall
    obtain ⟨ay, hay, am, ham, ad, had, hcov⟩ := cover_of_coverBL N L days c hc y m d hy hm hd
    exact ⟨_, conc_layout N y m d ay am ad L hcov, certAll_mem hall hay ham had⟩
  -- the text is not longer than the bound
  have hlen : (renderL N L y m d).length ≤ pc.maxLen := by
    have h0 := hTp 0 (by omega)
    cases hc0 : pc.at pc.tpos 0 with
    | none => simp [hc0] at h0
    | some c =>
      simp only [hc0] at h0
      obtain ⟨A, hA, hr0⟩ := key c false 0 (hcovs c (PosCert.at_mem hc0)) h0
      unfold rejAt at hr0
      simp only [Bool.and_eq_true, decide_eq_true_eq] at hr0
      rw [← hA.length]; exact hr0.1.2
  apply stepO_bad
  · intro p hp
    have hp' : p ≤ (renderL N L y m d).length := by simpa [conc] using hp
    have h0 := hTp p (by omega)
    cases hc0 : pc.at pc.tpos p with
    | none => simp [hc0] at h0
    | some c =>
      simp only [hc0] at h0
      obtain ⟨A, hA, hr0⟩ := key c false p (hcovs c (PosCert.at_mem hc0)) h0
      unfold rejAt at hr0
      simp only [Bool.and_eq_true, decide_eq_true_eq, Bool.false_eq_true, if_false, Bool.or_eq_true] at hr0
      obtain ⟨⟨hla, _⟩, hr0⟩ := hr0
      rcases hr0 with hr0 | hr0
      · rw [hA.length] at hr0; omega
      · have hsz : (conc T (renderL N L y m d).toArray).size = A.length := by simp [conc, hA.length]
        rw [hsz]
        exact badAt_mono (matchK_mono (abs_refines_concL hT hA hla) r _ _ p [] (KLe.refl _)) hr0
  · intro p hp
    have hp' : p ≤ pre.length + (renderL N L y m d).length := by simpa [conc] using hp
    have h0 := hPp p (by omega)
    cases hc0 : pc.at pc.ppos p with
    | none => simp [hc0] at h0
    | some c =>
      simp only [hc0] at h0
      obtain ⟨A, hA, hr0⟩ := key c true p (hcovs c (PosCert.at_mem hc0)) h0
      unfold rejAt at hr0
      simp only [Bool.and_eq_true, decide_eq_true_eq, if_true, Bool.or_eq_true] at hr0
      obtain ⟨⟨hla, _⟩, hr0⟩ := hr0
      rcases hr0 with hr0 | hr0
      · rw [hA.length] at hr0; omega
      · have hsz : (conc T (renderL N L y m d).toArray).size = A.length := by simp [conc, hA.length]
        rw [hsz]
        have hP' := abs_refines_concL hT (Conc.append hA (Conc.sing pre)) (latinAbs_append (latinAbs_sing pre hpre) hla)
        exact badAt_mono (matchK_mono hP' r _ _ p [] (KLe.refl _)) hr0

/-- The front end on EVERY date of the ranges, in a layout: from one position-wise rejection certificate per earlier regex
and one certificate for the accepting regex, each covering the ranges and each checked by evaluation on its abstract texts. -/
theorem front_allL {T : Tables} (hT : LatinAgree T) {u : Uni} (hu : TextUni u) (N : Names) (rs : List (Option RE))
    (pre : Str) (L : List Tok) (dext : Str) (days : List Nat) (k : Nat) (rc : Nat → PosCert) (ac : Cert)
    (hrej : ∀ j, j < k → rejPosB N rs pre j L days (rc j) = true)
    (hacc : coverBL N L days ac = true ∧ accAllL rs pre k L dext ac = true)
    (y m d : Nat) (hy : 1900 ≤ y ∧ y ≤ 2099) (hm : 1 ≤ m ∧ m ≤ 12) (hd : d ∈ days) :
    ∃ h ty tm td, parseBasic T u pre rs (renderL N L y m d) =
        some (some (h, { year := ty.render N y m d, month := tm.render N y m d, day := td.render N y m d ++ dext,
                         fullYear := [] })) ∧
      h.idx = k ∧ ty ∈ L ∧ ty.kind = 1 ∧ tm ∈ L ∧ tm.kind = 2 ∧ td ∈ L ∧ td.kind = 3 := by
  apply front_groupsL hT hu N rs pre L dext k y m d
  · intro j hj
    exact rejPos_sound hT N rs pre j L days (rc j) (hrej j hj) y m d hy hm hd
  · obtain ⟨hc, hr⟩ := hacc
    obtain ⟨ay, hay, am, ham, ad, had, hcov⟩ := cover_of_coverBL N L days ac hc y m d hy hm hd
    refine ⟨ay, am, ad, hcov, ?_⟩
    unfold accAllL at hr
    simp only [List.all_eq_true] at hr
    exact hr ay hay am ham ad had

/-- the facts `front_allL` needs for one layout of a culture: regex `k` accepts, the earlier ones reject -/
structure LayoutFactsL (N : Names) (rs : List (Option RE)) (pre : Str) (days : List Nat) (L : List Tok) (dext : Str)
    (k : Nat) : Prop where
  rej : ∀ j, j < k → ∃ pc : PosCert, rejPosB N rs pre j L days pc = true
  acc : ∃ c : Cert, coverBL N L days c = true ∧ accAllL rs pre k L dext c = true

/-- from the facts of a layout to the front end on every date of the ranges -/
theorem front_of_facts {T : Tables} (hT : LatinAgree T) {u : Uni} (hu : TextUni u) {N : Names} {rs : List (Option RE)}
    {pre : Str} {days : List Nat} {L : List Tok} {dext : Str} {k : Nat} (hf : LayoutFactsL N rs pre days L dext k)
    (y m d : Nat) (hy : 1900 ≤ y ∧ y ≤ 2099) (hm : 1 ≤ m ∧ m ≤ 12) (hd : d ∈ days) :
    ∃ h ty tm td, parseBasic T u pre rs (renderL N L y m d) =
        some (some (h, { year := ty.render N y m d, month := tm.render N y m d, day := td.render N y m d ++ dext,
                         fullYear := [] })) ∧
      h.idx = k ∧ ty ∈ L ∧ ty.kind = 1 ∧ tm ∈ L ∧ tm.kind = 2 ∧ td ∈ L ∧ td.kind = 3 := by
  obtain ⟨ac, hac⟩ := hf.acc
  have hch : ∃ rc : Nat → PosCert, ∀ j, j < k → rejPosB N rs pre j L days (rc j) = true := by
    classical
    refine ⟨fun j => if hj : j < k then (hf.rej j hj).choose else ⟨0, [], [], []⟩, fun j hj => ?_⟩
    simp only [hj, dif_pos]
    exact (hf.rej j hj).choose_spec
  obtain ⟨rc, hrc⟩ := hch
  exact front_allL hT hu N rs pre L dext days k rc ac hrc hac y m d hy hm hd

/-- the days 1..31 -/
def days31 : List Nat := List.range' 1 31

theorem mem_days31 (d : Nat) : d ∈ days31 ↔ 1 ≤ d ∧ d ≤ 31 := by
  simp [days31, List.mem_range'_1]; omega

end RTV.DateFront
