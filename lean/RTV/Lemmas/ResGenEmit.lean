import RTV.Lemmas.ResGen
import RTV.Model.ResGenEmit
/-! Helper lemmas for C18: the reference emitter and the evaluator of emitted definitions. -/
set_option linter.unusedSimpArgs false
set_option linter.unusedVariables false
namespace RTV.ResGen

/-! ### `str.replace` -/

theorem replaceFuel_fuel (old new : Str) : ∀ f1 f2 s, s.length ≤ f1 → s.length ≤ f2 →
    replaceFuel old new f1 s = replaceFuel old new f2 s := by
  intro f1
  induction f1 with
  | zero =>
    intro f2 s h1 h2
    have : s = [] := List.eq_nil_of_length_eq_zero (by omega)
    subst this
    cases f2 <;> simp [replaceFuel]
  | succ f1 ih =>
    intro f2 s h1 h2
    cases s with
    | nil => cases f2 <;> simp [replaceFuel]
    | cons c rest =>
      cases f2 with
      | zero => simp at h2
      | succ f2 =>
        simp only [replaceFuel]
        by_cases hm : old ≠ [] ∧ (c :: rest).take old.length = old
        · rw [if_pos hm, if_pos hm]
          have hl : 0 < old.length := List.length_pos_iff.mpr hm.1
          have : ((c :: rest).drop old.length).length ≤ rest.length := by
            simp only [List.length_drop, List.length_cons]; omega
          rw [ih f2 _ (by simp only [List.length_cons] at h1; omega) (by simp only [List.length_cons] at h2; omega)]
        · rw [if_neg hm, if_neg hm]
          rw [ih f2 rest (by simp only [List.length_cons] at h1; omega) (by simp only [List.length_cons] at h2; omega)]

theorem replace_nil (old new : Str) : replace [] old new = [] := by simp [replace, replaceFuel]

theorem replace_cons (c : Nat) (s old new : Str) :
    replace (c :: s) old new =
      if old ≠ [] ∧ (c :: s).take old.length = old then new ++ replace ((c :: s).drop old.length) old new
      else c :: replace s old new := by
  unfold replace
  simp only [List.length_cons, replaceFuel]
  split
  · rename_i hm
    have hl : 0 < old.length := List.length_pos_iff.mpr hm.1
    rw [replaceFuel_fuel old new (s.length + 1) (((c :: s).drop old.length).length + 1) _
      (by simp only [List.length_drop, List.length_cons]; omega) (by omega)]
  · rfl

/-- the pattern `{t}` -/
def pat (t : Str) : Str := 123 :: t ++ [125]

theorem replace_cons_ne (c : Nat) (hc : c ≠ 123) (s t new : Str) :
    replace (c :: s) (pat t) new = c :: replace s (pat t) new := by
  rw [replace_cons, if_neg]
  intro h
  have := h.2
  simp [pat] at this
  omega

theorem replace_cons_nomatch (c : Nat) (s t new : Str) (h : ¬ (pat t) <+: (c :: s)) :
    replace (c :: s) (pat t) new = c :: replace s (pat t) new := by
  rw [replace_cons, if_neg]
  intro hm
  exact h (List.prefix_iff_eq_take.mpr hm.2.symm)

theorem replace_match (s t new : Str) : replace (pat t ++ s) (pat t) new = new ++ replace s (pat t) new := by
  have : pat t ++ s = 123 :: (t ++ [125] ++ s) := by simp [pat]
  rw [this, replace_cons, if_pos]
  · congr 2
    rw [← this]
    simp
  · refine ⟨by simp [pat], ?_⟩
    rw [← this]
    simp

theorem replace_append_ne (l s t new : Str) (hl : ∀ c ∈ l, c ≠ 123) :
    replace (l ++ s) (pat t) new = l ++ replace s (pat t) new := by
  induction l with
  | nil => rfl
  | cons c l ih =>
    simp only [List.cons_append]
    rw [replace_cons_ne c (hl c (by simp)), ih (fun x hx => hl x (by simp [hx]))]

/-! ### `scan` -/

def braceFree (t : Str) : Prop := ∀ c ∈ t, c ≠ 123 ∧ c ≠ 125

def fieldAt (refs : List Str) (s : Str) : Option Str := refs.find? (fun r => (r ++ [125]).isPrefixOf s)

theorem scanAux_skip (refs : List Str) : ∀ (s : Str) (k : Nat), scanAux refs k s = scanAux refs 0 (s.drop k) := by
  intro s
  induction s with
  | nil => intro k; cases k <;> simp [scanAux]
  | cons c rest ih =>
    intro k
    cases k with
    | zero => simp
    | succ k => simp only [scanAux, List.drop_succ_cons]; exact ih k

theorem scan_nil (refs : List Str) : scan refs [] = [] := by simp [scan, scanAux]

theorem scan_cons_ne (refs : List Str) (c : Nat) (hc : c ≠ 123) (s : Str) :
    scan refs (c :: s) = .lit c :: scan refs s := by
  simp [scan, scanAux, hc]

theorem scan_brace_none (refs : List Str) (s : Str) (h : fieldAt refs s = none) :
    scan refs (123 :: s) = .lit 123 :: scan refs s := by
  simp only [fieldAt] at h
  simp [scan, scanAux, h]

theorem fieldAt_some {refs : List Str} {s r : Str} (h : fieldAt refs s = some r) :
    r ∈ refs ∧ ∃ s', s = r ++ 125 :: s' := by
  simp only [fieldAt] at h
  refine ⟨List.mem_of_find?_eq_some h, ?_⟩
  have := List.find?_some h
  simp only [List.isPrefixOf_iff_prefix] at this
  obtain ⟨t, ht⟩ := this
  exact ⟨t, by simp [← ht]⟩

theorem scan_brace_some (refs : List Str) (r s' : Str) (h : fieldAt refs (r ++ 125 :: s') = some r) :
    scan refs (123 :: (r ++ 125 :: s')) = .ref r :: scan refs s' := by
  simp only [fieldAt] at h
  simp only [scan, scanAux, if_true, h]
  rw [scanAux_skip]
  simp

/-- the text after the token replacements, item by item -/
def markItem : Item → Str
  | .lit c => if c = 123 then [123, 123] else if c = 125 then [125, 125] else [c]
  | .ref r => 123 :: r ++ [125]

def mark (refs : List Str) (d : Str) : Str := (scan refs d).flatMap markItem

theorem mark_nil (refs : List Str) : mark refs [] = [] := by simp [mark, scan_nil]
theorem mark_cons_other (refs : List Str) (c : Nat) (h1 : c ≠ 123) (h2 : c ≠ 125) (s : Str) :
    mark refs (c :: s) = c :: mark refs s := by
  simp [mark, scan_cons_ne refs c h1, markItem, h1, h2]
theorem mark_cons_close (refs : List Str) (s : Str) : mark refs (125 :: s) = 125 :: 125 :: mark refs s := by
  simp [mark, scan_cons_ne refs 125 (by decide), markItem]
theorem mark_brace_none (refs : List Str) (s : Str) (h : fieldAt refs s = none) :
    mark refs (123 :: s) = 123 :: 123 :: mark refs s := by
  simp [mark, scan_brace_none refs s h, markItem]
theorem mark_brace_some (refs : List Str) (r s' : Str) (h : fieldAt refs (r ++ 125 :: s') = some r) :
    mark refs (123 :: (r ++ 125 :: s')) = 123 :: r ++ 125 :: mark refs s' := by
  simp [mark, scan_brace_some refs r s' h, markItem]

theorem mark_append_free (refs : List Str) (t s : Str) (ht : braceFree t) : mark refs (t ++ s) = t ++ mark refs s := by
  induction t with
  | nil => rfl
  | cons c t ih =>
    have := ht c (by simp)
    simp only [List.cons_append]
    rw [mark_cons_other refs c this.1 this.2, ih (fun x hx => ht x (by simp [hx]))]

/-- a brace-free `t` followed by `}` at the head of the marked text was already there in the definition -/
theorem prefix_of_mark (refs : List Str) : ∀ (t s : Str), braceFree t → (t ++ [125]) <+: mark refs s → (t ++ [125]) <+: s := by
  intro t
  induction t with
  | nil =>
    intro s _ h
    cases s with
    | nil => simp [mark_nil] at h
    | cons c s =>
      by_cases h1 : c = 123
      · subst h1
        cases hf : fieldAt refs s with
        | none => rw [mark_brace_none refs s hf] at h; simp at h
        | some r =>
          obtain ⟨_, s', hs⟩ := fieldAt_some hf
          subst hs
          rw [mark_brace_some refs r s' hf] at h; simp at h
      · by_cases h2 : c = 125
        · subst h2; simp
        · rw [mark_cons_other refs c h1 h2] at h
          simp at h; omega
  | cons a t ih =>
    intro s ht h
    have ha := ht a (by simp)
    cases s with
    | nil => simp [mark_nil] at h
    | cons c s =>
      by_cases h1 : c = 123
      · subst h1
        cases hf : fieldAt refs s with
        | none => rw [mark_brace_none refs s hf] at h; simp at h; omega
        | some r =>
          obtain ⟨_, s', hs⟩ := fieldAt_some hf
          subst hs
          rw [mark_brace_some refs r s' hf] at h; simp at h; omega
      · by_cases h2 : c = 125
        · subst h2; rw [mark_cons_close] at h; simp at h; omega
        · rw [mark_cons_other refs c h1 h2] at h
          simp only [List.cons_append, List.cons_prefix_cons] at h ⊢
          exact ⟨h.1, ih s (fun x hx => ht x (by simp [hx])) h.2⟩

/-- two brace-free names followed by `}`: one is a prefix of the text starting with the other only if they are equal -/
theorem name_prefix_eq : ∀ (t r : Str) (x : Str), braceFree t → braceFree r → (t ++ [125]) <+: (r ++ 125 :: x) → t = r := by
  intro t
  induction t with
  | nil =>
    intro r x _ hr h
    cases r with
    | nil => rfl
    | cons b r => have := hr b (by simp); simp at h; omega
  | cons a t ih =>
    intro r x ht hr h
    cases r with
    | nil => have := ht a (by simp); simp at h; omega
    | cons b r =>
      simp only [List.cons_append, List.cons_prefix_cons] at h
      rw [h.1, ih r x (fun c hc => ht c (by simp [hc])) (fun c hc => hr c (by simp [hc])) h.2]

theorem fieldAt_append (ts : List Str) (t s : Str) :
    fieldAt (ts ++ [t]) s = (fieldAt ts s).or (if (t ++ [125]).isPrefixOf s then some t else none) := by
  simp only [fieldAt, List.find?_append, List.find?_cons, List.find?_nil]
  split <;> simp_all

/-- one token replacement turns the marking for `ts` into the marking for `ts ++ [t]` -/
theorem replace_mark (ts : List Str) (t : Str) (hts : ∀ r ∈ ts, braceFree r) (ht : braceFree t) (hne : t ≠ [])
    (hnot : t ∉ ts) : ∀ (n : Nat) (d : Str), d.length ≤ n → replace (mark ts d) (pat t) t = mark (ts ++ [t]) d := by
  intro n
  induction n with
  | zero =>
    intro d h
    have : d = [] := List.eq_nil_of_length_eq_zero (by omega)
    subst this
    simp [mark_nil, replace_nil]
  | succ n ih =>
    intro d h
    cases d with
    | nil => simp [mark_nil, replace_nil]
    | cons c rest =>
      have hrest : rest.length ≤ n := by simp only [List.length_cons] at h; omega
      by_cases h1 : c = 123
      · subst h1
        cases hf : fieldAt ts rest with
        | some r =>
          obtain ⟨hr, s', hs⟩ := fieldAt_some hf
          subst hs
          have hf' : fieldAt (ts ++ [t]) (r ++ 125 :: s') = some r := by rw [fieldAt_append, hf]; rfl
          rw [mark_brace_some ts r s' hf, mark_brace_some (ts ++ [t]) r s' hf']
          have hrne : t ≠ r := fun e => hnot (e ▸ hr)
          have hbr := hts r hr
          simp only [List.cons_append]
          rw [replace_cons_nomatch]
          · have : r ++ 125 :: mark ts s' = (r ++ [125]) ++ mark ts s' := by simp
            rw [this, replace_append_ne _ _ _ _ (by
              intro c hc
              simp only [List.mem_append, List.mem_singleton] at hc
              rcases hc with hc | hc
              · exact (hbr c hc).1
              · omega)]
            rw [ih s' (by simp only [List.length_append, List.length_cons] at hrest; omega)]
            simp
          · intro hp
            simp only [pat, List.cons_append, List.cons_prefix_cons, true_and] at hp
            exact hrne (name_prefix_eq t r _ ht hbr hp)
        | none =>
          rw [mark_brace_none ts rest hf]
          -- the first of the two braces cannot start a match: the next character is a brace, `t` starts otherwise
          rw [replace_cons_nomatch]
          · by_cases hp : (t ++ [125]) <+: rest
            · obtain ⟨s', hs⟩ := hp
              have hs2 : rest = t ++ 125 :: s' := by rw [← hs]; simp
              subst hs2
              have hf' : fieldAt (ts ++ [t]) (t ++ 125 :: s') = some t := by
                rw [fieldAt_append, hf]
                simp
              rw [mark_brace_some (ts ++ [t]) t s' hf', mark_append_free ts t _ ht, mark_cons_close]
              simp only [List.cons_append]
              have : 123 :: (t ++ 125 :: 125 :: mark ts s') = pat t ++ (125 :: mark ts s') := by simp [pat]
              rw [this, replace_match, replace_cons_ne 125 (by decide),
                ih s' (by simp only [List.length_append, List.length_cons] at hrest; omega)]
            · have hf' : fieldAt (ts ++ [t]) rest = none := by
                rw [fieldAt_append, hf]
                simp only [List.isPrefixOf_iff_prefix, hp, if_false]
                rfl
              rw [mark_brace_none (ts ++ [t]) rest hf', replace_cons_nomatch, ih rest hrest]
              intro hq
              simp only [pat, List.cons_append, List.cons_prefix_cons, true_and] at hq
              exact hp (prefix_of_mark ts t rest ht hq)
          · intro hq
            cases t with
            | nil => exact hne rfl
            | cons a t' =>
              have := ht a (by simp)
              simp only [pat, List.cons_append, List.cons_prefix_cons, true_and] at hq
              omega
      · by_cases h2 : c = 125
        · subst h2
          rw [mark_cons_close, mark_cons_close, replace_cons_ne 125 (by decide), replace_cons_ne 125 (by decide),
            ih rest hrest]
        · rw [mark_cons_other ts c h1 h2, mark_cons_other (ts ++ [t]) c h1 h2, replace_cons_ne c h1, ih rest hrest]

theorem fieldAt_nil (s : Str) : fieldAt [] s = none := rfl

theorem mark_nil_refs (d : Str) :
    mark [] d = replaceChar 125 [125, 125] (replaceChar 123 [123, 123] d) := by
  induction d with
  | nil => simp [mark_nil, replaceChar]
  | cons c d ih =>
    by_cases h1 : c = 123
    · subst h1
      rw [mark_brace_none [] d (fieldAt_nil d), ih]
      simp [replaceChar]
    · by_cases h2 : c = 125
      · subst h2
        rw [mark_cons_close, ih]
        simp [replaceChar]
      · rw [mark_cons_other [] c h1 h2, ih]
        simp [replaceChar, h1, h2]

/-- all token replacements of `sanitize` -/
theorem foldl_replace_mark (d : Str) : ∀ (refs ts : List Str), (∀ r ∈ ts ++ refs, braceFree r ∧ r ≠ []) → (ts ++ refs).Nodup →
    refs.foldl (fun v t => replace v ([123] ++ t ++ [125]) t) (mark ts d) = mark (ts ++ refs) d := by
  intro refs
  induction refs with
  | nil => intro ts _ _; simp
  | cons t rs ih =>
    intro ts hall hnd
    simp only [List.foldl_cons]
    have ht := hall t (by simp)
    have hnot : t ∉ ts := by
      intro hm
      have := List.nodup_append.mp hnd
      exact this.2.2 t hm t (by simp) rfl
    have e : [123] ++ t ++ [125] = pat t := by simp [pat]
    rw [e, replace_mark ts t (fun r hr => (hall r (by simp [hr])).1) ht.1 ht.2 hnot d.length d (Nat.le_refl _)]
    have e2 : ts ++ t :: rs = (ts ++ [t]) ++ rs := by simp
    rw [e2]
    exact ih (ts ++ [t]) (by rw [← e2]; exact hall) (by rw [← e2]; exact hnd)

/-- the JSON escapes and the apostrophe escape, applied last by `sanitize` -/
def esc (s : Str) : Str := replaceChar 39 [92, 39] (jsonEscape s)

theorem esc_append (a b : Str) : esc (a ++ b) = esc a ++ esc b := by simp [esc, jsonEscape, replaceChar]
theorem esc_cons (c : Nat) (s : Str) : esc (c :: s) = esc [c] ++ esc s := esc_append [c] s
theorem esc_nil : esc [] = [] := rfl

theorem sanitize_eq_mark (d : Str) (refs : List Str) (hall : ∀ r ∈ refs, braceFree r ∧ r ≠ []) (hnd : refs.Nodup) :
    sanitize d refs = esc (mark refs d) := by
  unfold sanitize esc
  simp only []
  rw [← mark_nil_refs, foldl_replace_mark d refs [] (by simpa using hall) (by simpa using hnd)]
  simp

/-! ### the literal reader `pStr` on emitted text -/

theorem prepend_nil (x : Option (Str × Str)) : prepend [] x = x := by
  cases x <;> simp [prepend]

theorem prepend_prepend (a b : Str) (x : Option (Str × Str)) : prepend a (prepend b x) = prepend (a ++ b) x := by
  cases x <;> simp [prepend]

theorem isNameChar_facts {c : Nat} (h : isNameChar c = true) :
    c ≠ 123 ∧ c ≠ 125 ∧ c ≠ 39 ∧ c ≠ 34 ∧ c ≠ 92 ∧ 32 ≤ c ∧ c ≠ 10 ∧ c ≠ 13 := by
  simp only [isNameChar, Bool.or_eq_true, Bool.and_eq_true, decide_eq_true_eq] at h
  omega

theorem esc_char_other {c : Nat} (h34 : c ≠ 34) (h92 : c ≠ 92) (h39 : c ≠ 39) (h32 : 32 ≤ c) : esc [c] = [c] := by
  have : c ≠ 10 ∧ c ≠ 13 ∧ c ≠ 9 ∧ c ≠ 8 ∧ c ≠ 12 ∧ ¬ c < 32 := by omega
  simp [esc, jsonEscape, jsonEscapeChar, replaceChar, *]

theorem esc_name (r : Str) (h : ∀ c ∈ r, isNameChar c = true) : esc r = r := by
  induction r with
  | nil => rfl
  | cons c r ih =>
    have f := isNameChar_facts (h c (by simp))
    rw [esc_cons, ih (fun x hx => h x (by simp [hx])), esc_char_other f.2.2.2.1 f.2.2.2.2.1 f.2.2.1 f.2.2.2.2.2.1]
    rfl

theorem esc_open : esc [123] = [123] := by decide
theorem esc_close : esc [125] = [125] := by decide
theorem esc_cons_open (s : Str) : esc (123 :: s) = 123 :: esc s := by rw [esc_cons, esc_open]; rfl
theorem esc_cons_close (s : Str) : esc (125 :: s) = 125 :: esc s := by rw [esc_cons, esc_close]; rfl

/-- one escaped character of the definition is read back as that character (f-string: `c` is not a brace;
plain literal: any `c`) -/
theorem pStr_esc_char (env : Option (Str → Option Str)) (c : Nat) (hb : env.isSome → c ≠ 123 ∧ c ≠ 125) (tl : Str) :
    pStr env 39 .norm (esc [c] ++ tl) = prepend [c] (pStr env 39 .norm tl) := by
  have hb1 : ¬ (env.isSome = true ∧ c = 123) := fun h => (hb h.1).1 h.2
  have hb2 : ¬ (env.isSome = true ∧ c = 125) := fun h => (hb h.1).2 h.2
  by_cases h3 : c = 39
  · subst h3; simp [esc, replaceChar, jsonEscape, jsonEscapeChar, pStr]
  by_cases h4 : c = 34
  · subst h4; simp [esc, replaceChar, jsonEscape, jsonEscapeChar, pStr]
  by_cases h5 : c = 92
  · subst h5; simp [esc, replaceChar, jsonEscape, jsonEscapeChar, pStr]
  by_cases h6 : c = 10
  · subst h6; simp [esc, replaceChar, jsonEscape, jsonEscapeChar, pStr]
  by_cases h7 : c = 13
  · subst h7; simp [esc, replaceChar, jsonEscape, jsonEscapeChar, pStr]
  by_cases h8 : c = 9
  · subst h8; simp [esc, replaceChar, jsonEscape, jsonEscapeChar, pStr]
  by_cases h9 : c = 8
  · subst h9; simp [esc, replaceChar, jsonEscape, jsonEscapeChar, pStr]
  by_cases h10 : c = 12
  · subst h10; simp [esc, replaceChar, jsonEscape, jsonEscapeChar, pStr]
  by_cases h11 : c < 32
  · have a1 := hexVal_hexDigit (c / 16) (by omega)
    have a2 := hexVal_hexDigit (c % 16) (by omega)
    have b1 := hexDigit_ne39 (c / 16) (by omega)
    have b2 := hexDigit_ne39 (c % 16) (by omega)
    have e : c / 16 * 16 + c % 16 = c := by omega
    have h48 : hexVal 48 = some 0 := by decide
    simp [esc, replaceChar, jsonEscape, jsonEscapeChar, pStr, h3, h4, h5, h6, h7, h8, h9, h10, h11, a1, a2, b1, b2, h48, e]
  · rw [esc_char_other h4 h5 h3 (by omega)]
    simp [pStr, h3, h5, h6, h7, hb1, hb2]

theorem pStr_open (e : Str → Option Str) (tl : Str) :
    pStr (some e) 39 .norm (123 :: 123 :: tl) = prepend [123] (pStr (some e) 39 .norm tl) := by simp [pStr]
theorem pStr_close (e : Str → Option Str) (tl : Str) :
    pStr (some e) 39 .norm (125 :: 125 :: tl) = prepend [125] (pStr (some e) 39 .norm tl) := by simp [pStr]

theorem validRefAux_facts : ∀ (r : Str) (b : Bool), validRefAux b r = true →
    (∀ c ∈ r, isNameChar c = true) ∧ (b = true → r ≠ []) := by
  intro r
  induction r with
  | nil => intro b h; cases b <;> simp_all [validRefAux]
  | cons c r ih =>
    intro b h
    cases b with
    | true =>
      simp only [validRefAux, Bool.and_eq_true] at h
      have := ih false h.2
      refine ⟨?_, by simp⟩
      intro x hx
      simp only [List.mem_cons] at hx
      rcases hx with hx | hx
      · subst hx
        have := h.1
        simp only [isIdentStart, Bool.or_eq_true, Bool.and_eq_true, decide_eq_true_eq] at this
        simp only [isNameChar, Bool.or_eq_true, Bool.and_eq_true, decide_eq_true_eq]
        omega
      · exact this.1 x hx
    | false =>
      simp only [validRefAux] at h
      refine ⟨?_, by simp⟩
      intro x hx
      simp only [List.mem_cons] at hx
      by_cases h46 : c = 46
      · subst h46
        simp only [if_true] at h
        rcases hx with hx | hx
        · subst hx; decide
        · exact (ih true h).1 x hx
      · simp only [h46, if_false, Bool.and_eq_true] at h
        rcases hx with hx | hx
        · subst hx
          have := h.1
          simp only [isIdentChar, isIdentStart, Bool.or_eq_true, Bool.and_eq_true, decide_eq_true_eq] at this
          simp only [isNameChar, Bool.or_eq_true, Bool.and_eq_true, decide_eq_true_eq]
          omega
        · exact (ih false h.2).1 x hx

theorem validRef_facts {r : Str} (h : validRef r = true) : (∀ c ∈ r, isNameChar c = true) ∧ r ≠ [] := by
  have := validRefAux_facts r true h
  exact ⟨this.1, this.2 rfl⟩

theorem validRef_braceFree {r : Str} (h : validRef r = true) : braceFree r ∧ r ≠ [] := by
  have := validRef_facts h
  exact ⟨fun c hc => ⟨(isNameChar_facts (this.1 c hc)).1, (isNameChar_facts (this.1 c hc)).2.1⟩, this.2⟩

theorem pStr_field_read (e : Str → Option Str) (tl : Str) : ∀ (r acc : Str), (∀ c ∈ r, isNameChar c = true) →
    pStr (some e) 39 (.field acc) (r ++ 125 :: tl) =
      fieldValue e (acc.reverse ++ r) (pStr (some e) 39 .norm tl) := by
  intro r
  induction r with
  | nil => intro acc _; simp [pStr]
  | cons c r ih =>
    intro acc h
    have f := isNameChar_facts (h c (by simp))
    simp only [List.cons_append, pStr, f.2.1, if_false, h c (by simp), if_true]
    rw [ih (c :: acc) (fun x hx => h x (by simp [hx]))]
    simp

/-- a replacement field `{r}` is read as the value bound to `r` -/
theorem pStr_field (e : Str → Option Str) (r tl : Str) (hr : validRef r = true) :
    pStr (some e) 39 .norm (123 :: (r ++ 125 :: tl)) = (e r).bind fun v => prepend v (pStr (some e) 39 .norm tl) := by
  have f := validRef_facts hr
  cases r with
  | nil => exact absurd rfl f.2
  | cons a r' =>
    have fa := isNameChar_facts (f.1 a (by simp))
    simp only [pStr, List.cons_append, Option.isSome_some, true_and, if_true, fa.1, if_false, f.1 a (by simp)]
    simp only [show (123 : Nat) ≠ 39 by decide, show ¬ ((123 : Nat) = 10 ∨ (123 : Nat) = 13) by decide,
      show (123 : Nat) ≠ 92 by decide, if_false]
    rw [pStr_field_read e tl r' [a] (fun x hx => f.1 x (by simp [hx]))]
    simp [fieldValue, hr]

theorem subst_nil (e : Str → Option Str) (refs : List Str) : subst e refs [] = some [] := by
  simp [subst, scan_nil, substItems]
theorem subst_cons_ne (e : Str → Option Str) (refs : List Str) (c : Nat) (hc : c ≠ 123) (s : Str) :
    subst e refs (c :: s) = (subst e refs s).map (c :: ·) := by
  simp [subst, scan_cons_ne refs c hc, substItems]
theorem subst_brace_none (e : Str → Option Str) (refs : List Str) (s : Str) (h : fieldAt refs s = none) :
    subst e refs (123 :: s) = (subst e refs s).map (123 :: ·) := by
  simp [subst, scan_brace_none refs s h, substItems]
theorem subst_brace_some (e : Str → Option Str) (refs : List Str) (r s' : Str) (h : fieldAt refs (r ++ 125 :: s') = some r) :
    subst e refs (123 :: (r ++ 125 :: s')) = (e r).bind fun v => (subst e refs s').map (v ++ ·) := by
  simp [subst, scan_brace_some refs r s' h, substItems]

theorem prepend_bind (c : Str) (o : Option Str) (X : Option (Str × Str)) :
    prepend c (o.bind fun v => prepend v X) = (o.map (c ++ ·)).bind fun v => prepend v X := by
  cases o <;> cases X <;> simp [prepend]

/-- reading the escaped marking of a definition back gives `subst` -/
theorem pStr_mark (e : Str → Option Str) (refs : List Str) (hall : ∀ r ∈ refs, validRef r = true) (tl : Str) :
    ∀ (n : Nat) (d : Str), d.length ≤ n →
      pStr (some e) 39 .norm (esc (mark refs d) ++ tl) =
        (subst e refs d).bind fun v => prepend v (pStr (some e) 39 .norm tl) := by
  intro n
  induction n with
  | zero =>
    intro d h
    have : d = [] := List.eq_nil_of_length_eq_zero (by omega)
    subst this
    simp [mark_nil, esc_nil, subst_nil, prepend_nil]
  | succ n ih =>
    intro d h
    cases d with
    | nil => simp [mark_nil, esc_nil, subst_nil, prepend_nil]
    | cons c rest =>
      have hrest : rest.length ≤ n := by simp only [List.length_cons] at h; omega
      by_cases h1 : c = 123
      · subst h1
        cases hf : fieldAt refs rest with
        | some r =>
          obtain ⟨hr, s', hs⟩ := fieldAt_some hf
          subst hs
          have hv := hall r hr
          have hn := (validRef_facts hv).1
          rw [mark_brace_some refs r s' hf, subst_brace_some e refs r s' hf]
          have e1 : esc (123 :: r ++ 125 :: mark refs s') = 123 :: (r ++ 125 :: esc (mark refs s')) := by
            simp only [List.cons_append]
            rw [esc_cons_open, esc_append, esc_cons_close, esc_name r hn]
          rw [e1]
          simp only [List.cons_append, List.append_assoc]
          rw [pStr_field e r _ hv, ih s' (by simp only [List.length_append, List.length_cons] at hrest; omega)]
          cases e r with
          | none => rfl
          | some v => simp only [Option.bind_some]; exact prepend_bind v _ _
        | none =>
          rw [mark_brace_none refs rest hf, subst_brace_none e refs rest hf]
          have e1 : esc (123 :: 123 :: mark refs rest) = 123 :: 123 :: esc (mark refs rest) := by
            rw [esc_cons_open, esc_cons_open]
          rw [e1]
          simp only [List.cons_append]
          rw [pStr_open, ih rest hrest]
          exact prepend_bind [123] _ _
      · by_cases h2 : c = 125
        · subst h2
          rw [mark_cons_close, subst_cons_ne e refs 125 (by decide)]
          have e1 : esc (125 :: 125 :: mark refs rest) = 125 :: 125 :: esc (mark refs rest) := by
            rw [esc_cons_close, esc_cons_close]
          rw [e1]
          simp only [List.cons_append]
          rw [pStr_close, ih rest hrest]
          exact prepend_bind [125] _ _
        · rw [mark_cons_other refs c h1 h2, subst_cons_ne e refs c h1, esc_cons, List.append_assoc,
            pStr_esc_char (some e) c (fun _ => ⟨h1, h2⟩), ih rest hrest]
          exact prepend_bind [c] _ _

theorem pStr_end (env : Option (Str → Option Str)) (q : Nat) (tl : Str) : pStr env q .norm (q :: tl) = some ([], tl) := by
  simp [pStr]

/-! ### plain literals: `'…'` (DefaultWriter), `"…"` (dictionary strings), json.dumps items -/

/-- what `sanitize · []` does to the braces -/
def doubleBraces (d : Str) : Str := replaceChar 125 [125, 125] (replaceChar 123 [123, 123] d)

theorem sanitize_nil_esc (d : Str) : sanitize d [] = esc (doubleBraces d) := by
  simp [sanitize, esc, doubleBraces]

theorem pStr_plain_esc (tl : Str) : ∀ x : Str, pStr none 39 .norm (esc x ++ tl) = prepend x (pStr none 39 .norm tl) := by
  intro x
  induction x with
  | nil => simp [esc_nil, prepend_nil]
  | cons c x ih =>
    rw [esc_cons, List.append_assoc, pStr_esc_char none c (by simp), ih, prepend_prepend]
    rfl

theorem doubleBraces_free (d : Str) (h : braceFree d) : doubleBraces d = d := by
  induction d with
  | nil => rfl
  | cons c d ih =>
    have := h c (by simp)
    have ih' := ih (fun x hx => h x (by simp [hx]))
    simp only [doubleBraces, replaceChar] at ih' ⊢
    simp [this.1, this.2, ih']

theorem pStr_encDQ (c : Nat) (h10 : c ≠ 10) (h13 : c ≠ 13) (tl : Str) :
    pStr none 34 .norm (encDQ c ++ tl) = prepend [c] (pStr none 34 .norm tl) := by
  by_cases h1 : c = 92
  · subst h1; simp [encDQ, replaceChar, pStr]
  by_cases h2 : c = 34
  · subst h2; simp [encDQ, replaceChar, pStr]
  simp [encDQ, replaceChar, pStr, h1, h2, h10, h13]

theorem pStr_flatMap_encDQ (tl : Str) : ∀ e : Str, (∀ c ∈ e, c ≠ 10 ∧ c ≠ 13) →
    pStr none 34 .norm (e.flatMap encDQ ++ 34 :: tl) = some (e, tl) := by
  intro e
  induction e with
  | nil => intro _; simp [pStr]
  | cons c e ih =>
    intro h
    have hc := h c (by simp)
    simp only [List.flatMap_cons, List.append_assoc]
    rw [pStr_encDQ c hc.1 hc.2, ih (fun x hx => h x (by simp [hx]))]
    simp [prepend]

theorem hex4_value (c : Nat) (h : c < 65536) :
    ((c / 4096 % 16 * 16 + c / 256 % 16) * 16 + c / 16 % 16) * 16 + c % 16 = c := by omega

theorem pStr_jsonAscii (c : Nat) (h : c < 65536) (tl : Str) :
    pStr none 34 .norm (jsonAsciiChar c ++ tl) = prepend [c] (pStr none 34 .norm tl) := by
  by_cases h4 : c = 34
  · subst h4; simp [jsonAsciiChar, pStr]
  by_cases h5 : c = 92
  · subst h5; simp [jsonAsciiChar, pStr]
  by_cases h6 : c = 10
  · subst h6; simp [jsonAsciiChar, pStr]
  by_cases h7 : c = 13
  · subst h7; simp [jsonAsciiChar, pStr]
  by_cases h8 : c = 9
  · subst h8; simp [jsonAsciiChar, pStr]
  by_cases h9 : c = 8
  · subst h9; simp [jsonAsciiChar, pStr]
  by_cases h10 : c = 12
  · subst h10; simp [jsonAsciiChar, pStr]
  by_cases h11 : 32 ≤ c ∧ c ≤ 126
  · simp [jsonAsciiChar, pStr, h4, h5, h6, h7, h8, h9, h10, h11]
  · have a1 := hexVal_hexDigit (c / 4096 % 16) (by omega)
    have a2 := hexVal_hexDigit (c / 256 % 16) (by omega)
    have a3 := hexVal_hexDigit (c / 16 % 16) (by omega)
    have a4 := hexVal_hexDigit (c % 16) (by omega)
    have e := hex4_value c h
    simp [jsonAsciiChar, hex4, pStr, h4, h5, h6, h7, h8, h9, h10, h11, h, a1, a2, a3, a4, e]

theorem pStr_jsonDumps_body (tl : Str) : ∀ x : Str, (∀ c ∈ x, c < 65536) →
    pStr none 34 .norm (x.flatMap jsonAsciiChar ++ 34 :: tl) = some (x, tl) := by
  intro x
  induction x with
  | nil => intro _; simp [pStr]
  | cons c x ih =>
    intro h
    simp only [List.flatMap_cons, List.append_assoc]
    rw [pStr_jsonAscii c (h c (by simp)), ih (fun y hy => h y (by simp [hy]))]
    simp [prepend]

theorem pJsonItems_join (tl : Str) : ∀ (xs : List Str) (fuel : Nat), xs ≠ [] → xs.length ≤ fuel →
    (∀ x ∈ xs, ∀ c ∈ x, c < 65536) →
    pJsonItems fuel (join [44, 32] (xs.map jsonDumps) ++ 93 :: tl) = some (xs, tl) := by
  intro xs
  induction xs with
  | nil => intro _ h; exact absurd rfl h
  | cons x rest ih =>
    intro fuel _ hf hall
    cases fuel with
    | zero => simp at hf
    | succ fuel =>
      cases rest with
      | nil =>
        simp only [List.map_cons, List.map_nil, join, jsonDumps, List.cons_append, List.nil_append, List.append_assoc,
          pJsonItems]
        rw [pStr_jsonDumps_body _ x (hall x (by simp))]
        rfl
      | cons y r =>
        have := ih fuel (by simp) (by simp only [List.length_cons] at hf ⊢; omega) (fun z hz => hall z (by simp [hz]))
        simp only [List.map_cons, join, jsonDumps, List.cons_append, List.nil_append, List.append_assoc,
          pJsonItems] at this ⊢
        rw [pStr_jsonDumps_body _ x (hall x (by simp))]
        simp only [this]
        rfl

/-! ### raw literals -/

/-- the entry can be written as `r'…'` with its apostrophes escaped: no apostrophe is preceded by an odd number of
backslashes and the entry does not end in an odd number of backslashes (`p` = an unpaired backslash precedes) -/
def rawOKAux : Bool → Str → Bool
  | p, [] => !p
  | p, c :: rest =>
    if c = 39 then !p && rawOKAux false rest
    else if c = 92 then rawOKAux (!p) rest
    else rawOKAux false rest

def rawOK (e : Str) : Bool := rawOKAux false e

theorem pRaw_entry (tl : Str) : ∀ (e : Str) (p : Bool), rawOKAux p e = true → (∀ c ∈ e, c ≠ 10 ∧ c ≠ 13) →
    pRaw 39 p (replaceChar 39 [92, 39] e ++ 39 :: tl) = some (replaceChar 39 [92, 39] e, tl) := by
  intro e
  induction e with
  | nil =>
    intro p h _
    cases p <;> simp_all [rawOKAux, replaceChar, pRaw]
  | cons c e ih =>
    intro p h hn
    have hc := hn c (by simp)
    have hn' : ∀ x ∈ e, x ≠ 10 ∧ x ≠ 13 := fun x hx => hn x (by simp [hx])
    have ih' := fun p h => ih p h hn'
    simp only [replaceChar] at ih' ⊢
    by_cases h1 : c = 39
    · subst h1
      simp only [rawOKAux, if_true, Bool.and_eq_true, Bool.not_eq_true'] at h
      have hp := h.1
      subst hp
      simp [pRaw, ih' false h.2, prepend]
    · by_cases h2 : c = 92
      · subst h2
        simp only [rawOKAux] at h
        cases p with
        | true => simp [pRaw, ih' false (by simpa using h), prepend]
        | false => simp [pRaw, ih' true (by simpa using h), prepend]
      · simp only [rawOKAux, h1, h2, if_false] at h
        cases p with
        | true => simp [pRaw, h1, h2, hc.1, hc.2, ih' false h, prepend]
        | false => simp [pRaw, h1, h2, hc.1, hc.2, ih' false h, prepend]

theorem replaceChar_absent (q : Nat) (new e : Str) (h : ∀ c ∈ e, c ≠ q) : replaceChar q new e = e := by
  induction e with
  | nil => rfl
  | cons c e ih =>
    have hc := h c (by simp)
    have := ih (fun x hx => h x (by simp [hx]))
    simp only [replaceChar] at this ⊢
    simp [hc, this]

/-! ### dictionary entries -/

def valOf : DictVal → Val
  | .scalar s => .str s
  | .list xs => .list xs

def noNewline (s : Str) : Prop := ∀ c ∈ s, c ≠ 10 ∧ c ≠ 13

/-- the entries whose emitted text the evaluator reads back: string-typed key, and a string-typed scalar value or
a sequence value of characters below U+10000; no raw line break -/
def entryOK (keyType valueType : Str) (kv : Str × DictVal) : Prop :=
  toPythonType keyType = tString ∧ noNewline kv.1 ∧
  match kv.2 with
  | .scalar s => toPythonType valueType = tString ∧ noNewline s
  | .list xs => ∀ x ∈ xs, ∀ c ∈ x, c < 65536

theorem pValue_string (stop : Nat) (s tl : Str) (hn : noNewline s) :
    pValue stop (createEntryString s ++ tl) = some (.str s, tl) := by
  rw [createEntry_eq]
  simp only [List.cons_append, List.nil_append, List.append_assoc, pValue]
  rw [pStr_flatMap_encDQ tl s hn]
  rfl

theorem join_length_ge (sep : Str) : ∀ l : List Str, (∀ x ∈ l, 1 ≤ x.length) → l.length ≤ (join sep l).length := by
  intro l
  induction l with
  | nil => intro _; simp [join]
  | cons x r ih =>
    intro h
    cases r with
    | nil => have := h x (by simp); simp [join]; omega
    | cons y r' =>
      have := ih (fun z hz => h z (by simp [hz]))
      have hx := h x (by simp)
      simp only [join, List.length_append, List.length_cons] at this ⊢
      omega

theorem pValue_list (stop : Nat) (vt : Str) (xs : List Str) (tl : Str) (h : ∀ x ∈ xs, ∀ c ∈ x, c < 65536) :
    pValue stop (dictValue vt (.list xs) ++ tl) = some (.list xs, tl) := by
  cases xs with
  | nil => simp [dictValue, join, pValue]
  | cons x r =>
    have hl : (x :: r).length ≤ (join [44, 32] ((x :: r).map jsonDumps)).length := by
      have := join_length_ge [44, 32] ((x :: r).map jsonDumps) (by
        intro y hy
        obtain ⟨z, _, rfl⟩ := List.mem_map.mp hy
        simp [jsonDumps])
      simpa using this
    have hd : ∃ w, join [44, 32] ((x :: r).map jsonDumps) = 34 :: w := by
      cases r with
      | nil => exact ⟨x.flatMap jsonAsciiChar ++ [34], by simp [join, jsonDumps]⟩
      | cons y r' =>
        exact ⟨x.flatMap jsonAsciiChar ++ [34] ++ [44, 32] ++ join [44, 32] ((y :: r').map jsonDumps),
          by simp [join, jsonDumps]⟩
    obtain ⟨w, hw⟩ := hd
    have key := pJsonItems_join tl (x :: r) ((34 :: (w ++ 93 :: tl)).length + 1)
      (by simp) (by rw [hw] at hl; simp only [List.length_cons, List.length_append] at hl ⊢; omega) h
    rw [hw] at key
    simp only [dictValue, List.cons_append, List.nil_append, List.append_assoc]
    rw [hw]
    simp only [List.cons_append, pValue] at key ⊢
    rw [key]
    rfl

theorem pDictEntry_entry (kt vt : Str) (kv : Str × DictVal) (tl : Str) (h : entryOK kt vt kv) :
    pDictEntry (dictEntry kt vt kv ++ tl) = some ((.str kv.1, valOf kv.2), tl) := by
  obtain ⟨k, v⟩ := kv
  obtain ⟨hk, hkn, hv⟩ := h
  simp only [dictEntry, createEntry, hk, if_true, List.cons_append, List.nil_append, List.append_assoc, pDictEntry]
  rw [pValue_string 44 k _ hkn]
  simp only []
  cases v with
  | scalar s =>
    simp only [] at hv
    simp only [dictValue, createEntry, hv.1, if_true]
    rw [pValue_string 41 s _ hv.2]
    rfl
  | list xs =>
    simp only [] at hv
    rw [pValue_list 41 vt xs _ hv]
    rfl

theorem dropWhile_blanks (n : Nat) (x : Str) (hx : x.head? ≠ some 32) :
    (List.replicate n 32 ++ x).dropWhile (· = 32) = x := by
  induction n with
  | zero =>
    cases x with
    | nil => rfl
    | cons c x => simp at hx; simp [List.dropWhile, hx]
  | succ n ih => simp [List.replicate_succ, List.dropWhile, ih]

theorem afterEntry_sep (kv : Val × Val) (name x : Str) (next : Str → Option (List (Val × Val)))
    (hx : x.head? ≠ some 32) : afterEntry kv (dictSep name ++ x) next = (next x).map (kv :: ·) := by
  simp only [dictSep, List.cons_append, List.nil_append, afterEntry]
  rw [dropWhile_blanks _ _ hx]

theorem join_dictEntry_head (sep kt vt : Str) (e : Str × DictVal) (r : List (Str × DictVal)) (tl : Str) :
    (join sep ((e :: r).map (dictEntry kt vt)) ++ tl).head? = some 40 := by
  cases r <;> simp [join, dictEntry]

theorem pDictEntries_join (name kt vt : Str) : ∀ (es : List (Str × DictVal)) (fuel : Nat), es ≠ [] → es.length ≤ fuel →
    (∀ e ∈ es, entryOK kt vt e) →
    pDictEntries fuel (join (dictSep name) (es.map (dictEntry kt vt)) ++ [93, 41]) =
      some (es.map fun kv => (.str kv.1, valOf kv.2)) := by
  intro es
  induction es with
  | nil => intro _ h; exact absurd rfl h
  | cons e r ih =>
    intro fuel _ hf hall
    cases fuel with
    | zero => simp at hf
    | succ fuel =>
      cases r with
      | nil =>
        simp only [List.map_cons, List.map_nil, join, pDictEntries]
        rw [pDictEntry_entry kt vt e _ (hall e (by simp))]
        rfl
      | cons e2 r' =>
        have := ih fuel (by simp) (by simp only [List.length_cons] at hf ⊢; omega) (fun z hz => hall z (by simp [hz]))
        simp only [List.map_cons, join, List.append_assoc, pDictEntries] at this ⊢
        rw [pDictEntry_entry kt vt e _ (hall e (by simp))]
        simp only []
        rw [afterEntry_sep _ _ _ _ (by
          have := join_dictEntry_head (dictSep name) kt vt e2 r' [93, 41]
          simp only [List.map_cons] at this
          rw [this]; decide)]
        rw [this]
        rfl

/-! ### whole definitions -/

theorem takeWhile_name (name r : Str) (h : ∀ c ∈ name, isIdentChar c = true) :
    (name ++ 32 :: r).takeWhile isIdentChar = name := by
  induction name with
  | nil => simp [List.takeWhile, isIdentChar, isIdentStart]
  | cons c n ih => simp [List.takeWhile, h c (by simp), ih (fun x hx => h x (by simp [hx]))]

theorem evalAssign_name (env : Str → Option Str) (name rhs : Str) (h : ∀ c ∈ name, isIdentChar c = true) :
    evalAssign env (name ++ 32 :: 61 :: 32 :: rhs) = (evalRhs env rhs).map fun v => (name, v) := by
  simp only [evalAssign, takeWhile_name name _ h, List.drop_left']

theorem evalDef_name (env : Str → Option Str) (name rhs : Str) (h : ∀ c ∈ name, isIdentChar c = true) :
    evalDef env (name ++ 32 :: 61 :: 32 :: rhs) = (evalRhs env rhs).map fun v => (name, v) := by
  rw [← evalAssign_name env name rhs h]
  cases name with
  | nil => simp [evalDef]
  | cons c n =>
    have hc : c ≠ 10 := by
      intro e
      have := h c (by simp)
      rw [e] at this
      exact absurd this (by decide)
    unfold evalDef
    split
    · rename_i heq
      simp only [List.cons_append, List.cons.injEq] at heq
      exact absurd heq.1 hc
    · rfl

/-! ### lists, whole definition -/

theorem toPythonType_string : toPythonType tString = tString := by decide

theorem arrayEntry_string (e : Str) : arrayEntry tString e = 114 :: 39 :: (replaceChar 39 [92, 39] e ++ [39]) := by
  simp [arrayEntry, toPythonType_string]

theorem pRawItems_join : ∀ (es : List Str) (fuel : Nat), es ≠ [] → es.length ≤ fuel →
    (∀ e ∈ es, rawOK e = true ∧ noNewline e) →
    pRawItems fuel (join [44, 32] (es.map (arrayEntry tString)) ++ [93]) = some (es.map (replaceChar 39 [92, 39])) := by
  intro es
  induction es with
  | nil => intro _ h; exact absurd rfl h
  | cons e r ih =>
    intro fuel _ hf hall
    have he := hall e (by simp)
    cases fuel with
    | zero => simp at hf
    | succ fuel =>
      cases r with
      | nil =>
        simp only [List.map_cons, List.map_nil, join, arrayEntry_string, List.cons_append, List.append_assoc,
          List.nil_append, pRawItems]
        rw [pRaw_entry [93] e false he.1 he.2]
        rfl
      | cons e2 r' =>
        have := ih fuel (by simp) (by simp only [List.length_cons] at hf ⊢; omega) (fun z hz => hall z (by simp [hz]))
        simp only [List.map_cons, join, arrayEntry_string, List.cons_append, List.append_assoc, List.nil_append,
          pRawItems] at this ⊢
        rw [pRaw_entry _ e false he.1 he.2]
        simp only [this]
        rfl

/-! ### the block as it stands in the file -/

theorem splitlinesAux_noBreak : ∀ (s acc : Str), (∀ c ∈ s, isLineBreak c = false) →
    splitlinesAux acc false s = if acc.reverse ++ s = [] then [] else [acc.reverse ++ s] := by
  intro s
  induction s with
  | nil => intro acc _; simp [splitlinesAux]
  | cons c s ih =>
    intro acc h
    have hc := h c (by simp)
    simp only [splitlinesAux, Bool.false_and, hc]
    rw [ih (c :: acc) (fun x hx => h x (by simp [hx]))]
    simp

theorem splitlines_noBreak (s : Str) (h : ∀ c ∈ s, isLineBreak c = false) (hne : s ≠ []) : splitlines s = [s] := by
  rw [splitlines, splitlinesAux_noBreak s [] h]
  simp [hne]

end RTV.ResGen
