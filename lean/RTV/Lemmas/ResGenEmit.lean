import RTV.Lemmas.ResGen
import RTV.Model.ResGenEmit
/-! Helper lemmas for C18: the reference emitter and the evaluator of emitted definitions. -/
set_option linter.unusedSimpArgs false
set_option linter.unusedVariables false
namespace RTV.ResGen

/-! ### `str.replace` -/

theorem replaceFuel_fuel (old new : Str) : ∀ f1 f2 s, s.length ≤ f1 → s.length ≤ f2 →
    replaceFuel old new f1 s = replaceFuel old new f2 s := by
  intro f1
  induction f1 with
  | zero =>
    intro f2 s h1 h2
    have : s = [] := List.eq_nil_of_length_eq_zero (by omega)
    subst this
    cases f2 <;> simp [replaceFuel]
  | succ f1 ih =>
    intro f2 s h1 h2
    cases s with
    | nil => cases f2 <;> simp [replaceFuel]
    | cons c rest =>
      cases f2 with
      | zero => simp at h2
      | succ f2 =>
        simp only [replaceFuel]
        by_cases hm : old ≠ [] ∧ (c :: rest).take old.length = old
        · rw [if_pos hm, if_pos hm]
          have hl : 0 < old.length := List.length_pos_iff.mpr hm.1
          have : ((c :: rest).drop old.length).length ≤ rest.length := by
            simp only [List.length_drop, List.length_cons]; omega
          rw [ih f2 _ (by simp only [List.length_cons] at h1; omega) (by simp only [List.length_cons] at h2; omega)]
        · rw [if_neg hm, if_neg hm]
          rw [ih f2 rest (by simp only [List.length_cons] at h1; omega) (by simp only [List.length_cons] at h2; omega)]

theorem replace_nil (old new : Str) : replace [] old new = [] := by simp [replace, replaceFuel]

theorem replace_cons (c : Nat) (s old new : Str) :
    replace (c :: s) old new =
      if old ≠ [] ∧ (c :: s).take old.length = old then new ++ replace ((c :: s).drop old.length) old new
      else c :: replace s old new := by
  unfold replace
  simp only [List.length_cons, replaceFuel]
  split
  · rename_i hm
    have hl : 0 < old.length := List.length_pos_iff.mpr hm.1
    rw [replaceFuel_fuel old new (s.length + 1) (((c :: s).drop old.length).length + 1) _
      (by simp only [List.length_drop, List.length_cons]; omega) (by omega)]
  · rfl

/-- the pattern `{t}` -/
def pat (t : Str) : Str := 123 :: t ++ [125]

theorem replace_cons_ne (c : Nat) (hc : c ≠ 123) (s t new : Str) :
    replace (c :: s) (pat t) new = c :: replace s (pat t) new := by
  rw [replace_cons, if_neg]
  intro h
  have := h.2
  simp [pat] at this
  omega

theorem replace_cons_nomatch (c : Nat) (s t new : Str) (h : ¬ (pat t) <+: (c :: s)) :
    replace (c :: s) (pat t) new = c :: replace s (pat t) new := by
  rw [replace_cons, if_neg]
  intro hm
  exact h (List.prefix_iff_eq_take.mpr hm.2.symm)

theorem replace_match (s t new : Str) : replace (pat t ++ s) (pat t) new = new ++ replace s (pat t) new := by
  have : pat t ++ s = 123 :: (t ++ [125] ++ s) := by simp [pat]
  rw [this, replace_cons, if_pos]
  · congr 2
    rw [← this]
    simp
  · refine ⟨by simp [pat], ?_⟩
    rw [← this]
    simp

theorem replace_append_ne (l s t new : Str) (hl : ∀ c ∈ l, c ≠ 123) :
    replace (l ++ s) (pat t) new = l ++ replace s (pat t) new := by
  induction l with
  | nil => rfl
  | cons c l ih =>
    simp only [List.cons_append]
    rw [replace_cons_ne c (hl c (by simp)), ih (fun x hx => hl x (by simp [hx]))]

/-! ### `scan` -/

def braceFree (t : Str) : Prop := ∀ c ∈ t, c ≠ 123 ∧ c ≠ 125

def fieldAt (refs : List Str) (s : Str) : Option Str := refs.find? (fun r => (r ++ [125]).isPrefixOf s)

theorem scanAux_skip (refs : List Str) : ∀ (s : Str) (k : Nat), scanAux refs k s = scanAux refs 0 (s.drop k) := by
  intro s
  induction s with
  | nil => intro k; cases k <;> simp [scanAux]
  | cons c rest ih =>
    intro k
    cases k with
    | zero => simp
    | succ k => simp only [scanAux, List.drop_succ_cons]; exact ih k

theorem scan_nil (refs : List Str) : scan refs [] = [] := by simp [scan, scanAux]

theorem scan_cons_ne (refs : List Str) (c : Nat) (hc : c ≠ 123) (s : Str) :
    scan refs (c :: s) = .lit c :: scan refs s := by
  simp [scan, scanAux, hc]

theorem scan_brace_none (refs : List Str) (s : Str) (h : fieldAt refs s = none) :
    scan refs (123 :: s) = .lit 123 :: scan refs s := by
  simp only [fieldAt] at h
  simp [scan, scanAux, h]

theorem fieldAt_some {refs : List Str} {s r : Str} (h : fieldAt refs s = some r) :
    r ∈ refs ∧ ∃ s', s = r ++ 125 :: s' := by
  simp only [fieldAt] at h
  refine ⟨List.mem_of_find?_eq_some h, ?_⟩
  have := List.find?_some h
  simp only [List.isPrefixOf_iff_prefix] at this
  obtain ⟨t, ht⟩ := this
  exact ⟨t, by simp [← ht]⟩

theorem scan_brace_some (refs : List Str) (r s' : Str) (h : fieldAt refs (r ++ 125 :: s') = some r) :
    scan refs (123 :: (r ++ 125 :: s')) = .ref r :: scan refs s' := by
  simp only [fieldAt] at h
  simp only [scan, scanAux, if_true, h]
  rw [scanAux_skip]
  simp

/-- the text after the token replacements, item by item -/
def markItem : Item → Str
  | .lit c => if c = 123 then [123, 123] else if c = 125 then [125, 125] else [c]
  | .ref r => 123 :: r ++ [125]

def mark (refs : List Str) (d : Str) : Str := (scan refs d).flatMap markItem

theorem mark_nil (refs : List Str) : mark refs [] = [] := by simp [mark, scan_nil]
theorem mark_cons_other (refs : List Str) (c : Nat) (h1 : c ≠ 123) (h2 : c ≠ 125) (s : Str) :
    mark refs (c :: s) = c :: mark refs s := by
  simp [mark, scan_cons_ne refs c h1, markItem, h1, h2]
theorem mark_cons_close (refs : List Str) (s : Str) : mark refs (125 :: s) = 125 :: 125 :: mark refs s := by
  simp [mark, scan_cons_ne refs 125 (by decide), markItem]
theorem mark_brace_none (refs : List Str) (s : Str) (h : fieldAt refs s = none) :
    mark refs (123 :: s) = 123 :: 123 :: mark refs s := by
  simp [mark, scan_brace_none refs s h, markItem]
theorem mark_brace_some (refs : List Str) (r s' : Str) (h : fieldAt refs (r ++ 125 :: s') = some r) :
    mark refs (123 :: (r ++ 125 :: s')) = 123 :: r ++ 125 :: mark refs s' := by
  simp [mark, scan_brace_some refs r s' h, markItem]

theorem mark_append_free (refs : List Str) (t s : Str) (ht : braceFree t) : mark refs (t ++ s) = t ++ mark refs s := by
  induction t with
  | nil => rfl
  | cons c t ih =>
    have := ht c (by simp)
    simp only [List.cons_append]
    rw [mark_cons_other refs c this.1 this.2, ih (fun x hx => ht x (by simp [hx]))]

/-- a brace-free `t` followed by `}` at the head of the marked text was already there in the definition -/
theorem prefix_of_mark (refs : List Str) : ∀ (t s : Str), braceFree t → (t ++ [125]) <+: mark refs s → (t ++ [125]) <+: s := by
  intro t
  induction t with
  | nil =>
    intro s _ h
    cases s with
    | nil => simp [mark_nil] at h
    | cons c s =>
      by_cases h1 : c = 123
      · subst h1
        cases hf : fieldAt refs s with
        | none => rw [mark_brace_none refs s hf] at h; simp at h
        | some r =>
          obtain ⟨_, s', hs⟩ := fieldAt_some hf
          subst hs
          rw [mark_brace_some refs r s' hf] at h; simp at h
      · by_cases h2 : c = 125
        · subst h2; simp
        · rw [mark_cons_other refs c h1 h2] at h
          simp at h; omega
  | cons a t ih =>
    intro s ht h
    have ha := ht a (by simp)
    cases s with
    | nil => simp [mark_nil] at h
    | cons c s =>
      by_cases h1 : c = 123
      · subst h1
        cases hf : fieldAt refs s with
        | none => rw [mark_brace_none refs s hf] at h; simp at h; omega
        | some r =>
          obtain ⟨_, s', hs⟩ := fieldAt_some hf
          subst hs
          rw [mark_brace_some refs r s' hf] at h; simp at h; omega
      · by_cases h2 : c = 125
        · subst h2; rw [mark_cons_close] at h; simp at h; omega
        · rw [mark_cons_other refs c h1 h2] at h
          simp only [List.cons_append, List.cons_prefix_cons] at h ⊢
          exact ⟨h.1, ih s (fun x hx => ht x (by simp [hx])) h.2⟩

/-- two brace-free names followed by `}`: one is a prefix of the text starting with the other only if they are equal -/
theorem name_prefix_eq : ∀ (t r : Str) (x : Str), braceFree t → braceFree r → (t ++ [125]) <+: (r ++ 125 :: x) → t = r := by
  intro t
  induction t with
  | nil =>
    intro r x _ hr h
    cases r with
    | nil => rfl
    | cons b r => have := hr b (by simp); simp at h; omega
  | cons a t ih =>
    intro r x ht hr h
    cases r with
    | nil => have := ht a (by simp); simp at h; omega
    | cons b r =>
      simp only [List.cons_append, List.cons_prefix_cons] at h
      rw [h.1, ih r x (fun c hc => ht c (by simp [hc])) (fun c hc => hr c (by simp [hc])) h.2]

end RTV.ResGen
