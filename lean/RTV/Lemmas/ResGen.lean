import RTV.Model.ResGen
/-! Helper lemmas for C18 (resource generator escaping). -/
set_option linter.unusedSimpArgs false
namespace RTV.ResGen

theorem hexVal_hexDigit : ∀ n, n < 16 → hexVal (hexDigit n) = some n := by decide
theorem hexDigit_ne39 : ∀ n, n < 16 → hexDigit n ≠ 39 := by decide

/-- per-character encoding performed by `sanitize · []` -/
def enc (c : Nat) : Str := replaceChar 39 [92, 39] (jsonEscape (replaceChar 125 [125,125] (replaceChar 123 [123,123] [c])))

theorem replaceChar_flatMap (c : Nat) (new : Str) (f : Nat → Str) (s : Str) :
    replaceChar c new (s.flatMap f) = s.flatMap (fun x => replaceChar c new (f x)) := by
  simp [replaceChar, List.flatMap_assoc]

theorem sanitize_nil_eq (d : Str) : sanitize d [] = d.flatMap enc := by
  induction d with
  | nil => simp [sanitize, replaceChar, jsonEscape]
  | cons c d ih =>
    simp only [sanitize, List.foldl_nil, enc, jsonEscape, replaceChar] at ih ⊢
    simp only [List.flatMap_cons, List.flatMap_append, ih]
    simp [enc, replaceChar, jsonEscape]

theorem step (c : Nat) (f : Nat) (tl : Str) :
    evalLit true 39 (f + 1) (enc c ++ tl) = (evalLit true 39 f tl).map (c :: ·) := by
  by_cases h1 : c = 123
  · subst h1; simp [enc, replaceChar, jsonEscape, jsonEscapeChar, evalLit]
  by_cases h2 : c = 125
  · subst h2; simp [enc, replaceChar, jsonEscape, jsonEscapeChar, evalLit]
  by_cases h3 : c = 39
  · subst h3; simp [enc, replaceChar, jsonEscape, jsonEscapeChar, evalLit]
  by_cases h4 : c = 34
  · subst h4; simp [enc, replaceChar, jsonEscape, jsonEscapeChar, evalLit]
  by_cases h5 : c = 92
  · subst h5; simp [enc, replaceChar, jsonEscape, jsonEscapeChar, evalLit]
  by_cases h6 : c = 10
  · subst h6; simp [enc, replaceChar, jsonEscape, jsonEscapeChar, evalLit]
  by_cases h7 : c = 13
  · subst h7; simp [enc, replaceChar, jsonEscape, jsonEscapeChar, evalLit]
  by_cases h8 : c = 9
  · subst h8; simp [enc, replaceChar, jsonEscape, jsonEscapeChar, evalLit]
  by_cases h9 : c = 8
  · subst h9; simp [enc, replaceChar, jsonEscape, jsonEscapeChar, evalLit]
  by_cases h10 : c = 12
  · subst h10; simp [enc, replaceChar, jsonEscape, jsonEscapeChar, evalLit]
  by_cases h11 : c < 32
  · have a1 := hexVal_hexDigit (c / 16) (by omega)
    have a2 := hexVal_hexDigit (c % 16) (by omega)
    have b1 := hexDigit_ne39 (c / 16) (by omega)
    have b2 := hexDigit_ne39 (c % 16) (by omega)
    have e : c / 16 * 16 + c % 16 = c := by omega
    have h48 : hexVal 48 = some 0 := by decide
    simp [enc, replaceChar, jsonEscape, jsonEscapeChar, evalLit, h1, h2, h3, h4, h5, h6, h7, h8, h9, h10, h11, a1, a2, b1, b2, h48, e]
  · simp [enc, replaceChar, jsonEscape, jsonEscapeChar, evalLit, h1, h2, h3, h4, h5, h6, h7, h8, h9, h10, h11]

theorem enc_length_pos (c : Nat) : 0 < (enc c).length := by
  unfold enc replaceChar jsonEscape
  by_cases h1 : c = 123
  · subst h1; simp [jsonEscapeChar]
  by_cases h2 : c = 125
  · subst h2; simp [jsonEscapeChar]
  simp only [List.flatMap_cons, List.flatMap_nil, h1, h2, if_false, List.append_nil]
  unfold jsonEscapeChar
  repeat' split
  all_goals simp
  all_goals (repeat' split)
  all_goals simp

theorem evalLit_flatMap_enc (d : Str) : ∀ fuel, (d.flatMap enc).length + 1 ≤ fuel →
    evalLit true 39 fuel (d.flatMap enc) = some d := by
  induction d with
  | nil => intro fuel h; cases fuel with
    | zero => simp at h
    | succ f => simp [evalLit]
  | cons c d ih =>
    intro fuel h
    cases fuel with
    | zero => simp at h
    | succ f =>
      simp only [List.flatMap_cons]
      rw [step]
      have := enc_length_pos c
      rw [ih f (by simp only [List.flatMap_cons, List.length_append] at h; omega)]
      rfl

/-- per-character encoding performed by `create_entry(·, 'string')` between the quotes -/
def encDQ (c : Nat) : Str := replaceChar 34 [92, 34] (replaceChar 92 [92, 92] [c])

theorem createEntry_eq (e : Str) : createEntryString e = [34] ++ e.flatMap encDQ ++ [34] := by
  simp only [createEntryString, encDQ]
  congr 2
  induction e with
  | nil => simp [replaceChar]
  | cons c e ih =>
    simp only [replaceChar, List.flatMap_cons, List.flatMap_append] at ih ⊢
    rw [ih]
    simp [encDQ, replaceChar]

theorem stepDQ (c : Nat) (hc : c ≠ 10) (f : Nat) (tl : Str) :
    evalLit false 34 (f + 1) (encDQ c ++ tl) = (evalLit false 34 f tl).map (c :: ·) := by
  by_cases h1 : c = 92
  · subst h1; simp [encDQ, replaceChar, evalLit]
  by_cases h2 : c = 34
  · subst h2; simp [encDQ, replaceChar, evalLit]
  simp [encDQ, replaceChar, evalLit, h1, h2, hc]

theorem evalLit_flatMap_encDQ (e : Str) (hn : ∀ c ∈ e, c ≠ 10) : ∀ fuel, (e.flatMap encDQ).length + 1 ≤ fuel →
    evalLit false 34 fuel (e.flatMap encDQ) = some e := by
  induction e with
  | nil => intro fuel h; cases fuel with
    | zero => simp at h
    | succ f => simp [evalLit]
  | cons c e ih =>
    intro fuel h
    cases fuel with
    | zero => simp at h
    | succ f =>
      simp only [List.flatMap_cons]
      rw [stepDQ c (hn c (by simp))]
      have hp : 0 < (encDQ c).length := by
        unfold encDQ replaceChar
        by_cases h1 : c = 92
        · subst h1; simp
        · by_cases h2 : c = 34 <;> simp [h1, h2]
      rw [ih (fun x hx => hn x (by simp [hx])) f (by simp only [List.flatMap_cons, List.length_append] at h; omega)]
      rfl

end RTV.ResGen
