import RTV.Model.SpellEu
import RTV.Model.NumCfg
/-! French numerals below 1000 (`spellEu frSpell`) against `getIntValue` with the regenerated French maps and the
culture's `resolve_composite_number`: kernel evaluation in chunks of 50 (one declaration per chunk keeps the
kernel's caches small), then the case split over the chunk index. -/
namespace RTV.Num

/-- the numerals the statement is about (exact guard: what the faithful model gets right) -/
def frGuard (n : Nat) : Bool := !(n % 100 == 0 && decide (200 ≤ n))

def frCheck (n : Nat) : Bool :=
  !frGuard n || decide (getIntValue true asciiDigits fr.lang (spellEu frSpell n).2 = .ok n)

def frChunk (k : Nat) : Bool := (List.range 50).all fun i => frCheck (50 * k + i)

theorem fr_c0 : frChunk 0 = true := by decide +kernel
theorem fr_c1 : frChunk 1 = true := by decide +kernel
theorem fr_c2 : frChunk 2 = true := by decide +kernel
theorem fr_c3 : frChunk 3 = true := by decide +kernel
theorem fr_c4 : frChunk 4 = true := by decide +kernel
theorem fr_c5 : frChunk 5 = true := by decide +kernel
theorem fr_c6 : frChunk 6 = true := by decide +kernel
theorem fr_c7 : frChunk 7 = true := by decide +kernel
theorem fr_c8 : frChunk 8 = true := by decide +kernel
theorem fr_c9 : frChunk 9 = true := by decide +kernel
theorem fr_c10 : frChunk 10 = true := by decide +kernel
theorem fr_c11 : frChunk 11 = true := by decide +kernel
theorem fr_c12 : frChunk 12 = true := by decide +kernel
theorem fr_c13 : frChunk 13 = true := by decide +kernel
theorem fr_c14 : frChunk 14 = true := by decide +kernel
theorem fr_c15 : frChunk 15 = true := by decide +kernel
theorem fr_c16 : frChunk 16 = true := by decide +kernel
theorem fr_c17 : frChunk 17 = true := by decide +kernel
theorem fr_c18 : frChunk 18 = true := by decide +kernel
theorem fr_c19 : frChunk 19 = true := by decide +kernel

theorem fr_chunks (k : Nat) (hk : k < 20) : frChunk k = true := by
  match k, hk with
  | 0, _ => exact fr_c0
  | 1, _ => exact fr_c1
  | 2, _ => exact fr_c2
  | 3, _ => exact fr_c3
  | 4, _ => exact fr_c4
  | 5, _ => exact fr_c5
  | 6, _ => exact fr_c6
  | 7, _ => exact fr_c7
  | 8, _ => exact fr_c8
  | 9, _ => exact fr_c9
  | 10, _ => exact fr_c10
  | 11, _ => exact fr_c11
  | 12, _ => exact fr_c12
  | 13, _ => exact fr_c13
  | 14, _ => exact fr_c14
  | 15, _ => exact fr_c15
  | 16, _ => exact fr_c16
  | 17, _ => exact fr_c17
  | 18, _ => exact fr_c18
  | 19, _ => exact fr_c19
  | k + 20, h => omega

theorem fr_all (n : Nat) (h : n < 1000) (hg : frGuard n = true) :
    getIntValue true asciiDigits fr.lang (spellEu frSpell n).2 = .ok n := by
  have hc := fr_chunks (n / 50) (by omega)
  simp only [frChunk, List.all_eq_true, List.mem_range] at hc
  have := hc (n % 50) (Nat.mod_lt _ (by decide))
  have e : 50 * (n / 50) + n % 50 = n := Nat.div_add_mod n 50
  rw [e] at this
  simpa [frCheck, hg] using this

end RTV.Num
