import RTV.Model.SpellEu
import RTV.Model.NumCfg
/-! Italian ordinals below 1000 (`spellOrdEu itOrd`) against `getIntValue` with the regenerated Italian maps: kernel
evaluation in chunks of 100, then the case split over the chunk index. Guard (what the faithful model gets right): the 111th / 113th … of every hundred (`centoundicesimo`: the tokeniser takes the cardinal `un` / `tre` first) and the round hundreds from 200 (`duecentesimo` → `due` + `cent` + `e`). -/
namespace RTV.Num

def itOrdGuard (n : Nat) : Bool :=
  !((n % 100 == 11 || n % 100 == 13) && decide (100 ≤ n)) && !(n % 100 == 0 && decide (200 ≤ n))

def itOrdCheck (n : Nat) : Bool :=
  n == 0 || !itOrdGuard n || decide (getIntValue true asciiDigits it.lang (spellOrdEu itOrd n).2 = .ok n)

def itOrdChunk (k : Nat) : Bool := (List.range 100).all fun i => itOrdCheck (100 * k + i)

theorem it_o0 : itOrdChunk 0 = true := by decide +kernel
theorem it_o1 : itOrdChunk 1 = true := by decide +kernel
theorem it_o2 : itOrdChunk 2 = true := by decide +kernel
theorem it_o3 : itOrdChunk 3 = true := by decide +kernel
theorem it_o4 : itOrdChunk 4 = true := by decide +kernel
theorem it_o5 : itOrdChunk 5 = true := by decide +kernel
theorem it_o6 : itOrdChunk 6 = true := by decide +kernel
theorem it_o7 : itOrdChunk 7 = true := by decide +kernel
theorem it_o8 : itOrdChunk 8 = true := by decide +kernel
theorem it_o9 : itOrdChunk 9 = true := by decide +kernel

theorem it_ochunks (k : Nat) (hk : k < 10) : itOrdChunk k = true := by
  match k, hk with
  | 0, _ => exact it_o0
  | 1, _ => exact it_o1
  | 2, _ => exact it_o2
  | 3, _ => exact it_o3
  | 4, _ => exact it_o4
  | 5, _ => exact it_o5
  | 6, _ => exact it_o6
  | 7, _ => exact it_o7
  | 8, _ => exact it_o8
  | 9, _ => exact it_o9
  | k + 10, h => omega

theorem it_ord_all (n : Nat) (h1 : 1 ≤ n) (h : n < 1000) (hg : itOrdGuard n = true) :
    getIntValue true asciiDigits it.lang (spellOrdEu itOrd n).2 = .ok n := by
  have hc := it_ochunks (n / 100) (by omega)
  simp only [itOrdChunk, List.all_eq_true, List.mem_range] at hc
  have := hc (n % 100) (Nat.mod_lt _ (by decide))
  have e : 100 * (n / 100) + n % 100 = n := Nat.div_add_mod n 100
  rw [e] at this
  have hz : (n == 0) = false := by simp; omega
  simpa [itOrdCheck, hg, hz] using this

end RTV.Num
