import RTV.Lemmas.CjkZhBase
/-! kernel evaluation, chunks 75..99 (numerals 7500..9999) -/
namespace RTV.Num
theorem zh_c75 : zhChunk 75 = true := by decide +kernel
theorem zh_c76 : zhChunk 76 = true := by decide +kernel
theorem zh_c77 : zhChunk 77 = true := by decide +kernel
theorem zh_c78 : zhChunk 78 = true := by decide +kernel
theorem zh_c79 : zhChunk 79 = true := by decide +kernel
theorem zh_c80 : zhChunk 80 = true := by decide +kernel
theorem zh_c81 : zhChunk 81 = true := by decide +kernel
theorem zh_c82 : zhChunk 82 = true := by decide +kernel
theorem zh_c83 : zhChunk 83 = true := by decide +kernel
theorem zh_c84 : zhChunk 84 = true := by decide +kernel
theorem zh_c85 : zhChunk 85 = true := by decide +kernel
theorem zh_c86 : zhChunk 86 = true := by decide +kernel
theorem zh_c87 : zhChunk 87 = true := by decide +kernel
theorem zh_c88 : zhChunk 88 = true := by decide +kernel
theorem zh_c89 : zhChunk 89 = true := by decide +kernel
theorem zh_c90 : zhChunk 90 = true := by decide +kernel
theorem zh_c91 : zhChunk 91 = true := by decide +kernel
theorem zh_c92 : zhChunk 92 = true := by decide +kernel
theorem zh_c93 : zhChunk 93 = true := by decide +kernel
theorem zh_c94 : zhChunk 94 = true := by decide +kernel
theorem zh_c95 : zhChunk 95 = true := by decide +kernel
theorem zh_c96 : zhChunk 96 = true := by decide +kernel
theorem zh_c97 : zhChunk 97 = true := by decide +kernel
theorem zh_c98 : zhChunk 98 = true := by decide +kernel
theorem zh_c99 : zhChunk 99 = true := by decide +kernel
end RTV.Num
