import RTV.Model.WellFormed
/-! Helper lemmas for C10 / C11 (formatting and parsing of dates, times, numbers). -/
set_option linter.unusedSimpArgs false
set_option linter.unusedVariables false
namespace RTV.WF
open RTV.Cal

theorem digitsN2_pad2 (n : Nat) (h : n < 100) : digitsN 2 (pad2 n) = some n := by
  have h1 : isDigit (48 + n / 10 % 10) = true := by simp [isDigit]; omega
  have h2 : isDigit (48 + n % 10) = true := by simp [isDigit]; omega
  simp [digitsN, pad2, h1, h2]
  omega

theorem digitsN4_pad4 (y : Nat) (h : y < 10000) : digitsN 4 (pad4 y) = some y := by
  have h1 : isDigit (48 + y / 1000 % 10) = true := by simp [isDigit]; omega
  have h2 : isDigit (48 + y / 100 % 10) = true := by simp [isDigit]; omega
  have h3 : isDigit (48 + y / 10 % 10) = true := by simp [isDigit]; omega
  have h4 : isDigit (48 + y % 10) = true := by simp [isDigit]; omega
  simp [digitsN, pad4, h1, h2, h3, h4]
  omega

theorem valid_bounds (x : Date) (h : x.valid = true) : x.y < 10000 ∧ x.m < 100 ∧ x.d < 100 := by
  simp [Date.valid] at h
  obtain ⟨⟨⟨⟨⟨h1, h2⟩, h3⟩, h4⟩, h5⟩, h6⟩ := h
  refine ⟨by omega, by omega, ?_⟩
  have : daysInMonth x.y x.m ≤ 31 := by
    unfold daysInMonth; split <;> (try split) <;> omega
  omega

theorem parseDate_formatDate (x : Date) (h : x.valid = true) : parseDate (formatDate x) = some x := by
  obtain ⟨hy, hm, hd⟩ := valid_bounds x h
  have e1 := digitsN4_pad4 x.y hy
  have e2 := digitsN2_pad2 x.m hm
  have e3 := digitsN2_pad2 x.d hd
  simp only [pad4] at e1
  simp only [pad2] at e2 e3
  simp only [formatDate, pad4, pad2, List.cons_append, List.nil_append, parseDate, e1, e2, e3]
  simp [h]

theorem parseTime_formatTime (h m s : Nat) (hh : h < 24) (hm : m < 60) (hs : s < 60) :
    parseTime (formatTime h m s) = some (h * 3600 + m * 60 + s) := by
  have e1 := digitsN2_pad2 h (by omega)
  have e2 := digitsN2_pad2 m (by omega)
  have e3 := digitsN2_pad2 s (by omega)
  simp only [pad2] at e1 e2 e3
  simp only [formatTime, pad2, List.cons_append, List.nil_append, parseTime, e1, e2, e3]
  simp [hh, hm, hs]

theorem parseDateTime_format (x : Date) (hv : x.valid = true) (h m s : Nat) (hh : h < 24) (hm : m < 60) (hs : s < 60) :
    parseDateTime (formatDateTime x h m s) = some (x, h * 3600 + m * 60 + s) := by
  have e1 := parseDate_formatDate x hv
  have e2 := parseTime_formatTime h m s hh hm hs
  simp only [formatDate, formatTime, pad4, pad2, List.cons_append, List.nil_append] at e1 e2
  simp only [formatDateTime, formatDate, formatTime, pad4, pad2, List.cons_append, List.nil_append, parseDateTime]
  simp [e1, e2]

def dval (s : Str) : Nat := s.foldl (fun a c => a * 10 + (c - 48)) 0

theorem natDigits_spec : ∀ (fuel n : Nat), n < fuel →
    (natDigits fuel n).all isDigit = true ∧ natDigits fuel n ≠ [] ∧ dval (natDigits fuel n) = n := by
  intro fuel
  induction fuel with
  | zero => intro n h; omega
  | succ f ih =>
    intro n h
    unfold natDigits
    by_cases hn : n < 10
    · simp [hn, isDigit, dval]; omega
    · simp only [hn, if_false]
      have := ih (n / 10) (by omega)
      obtain ⟨h1, h2, h3⟩ := this
      refine ⟨?_, by simp, ?_⟩
      · simp [List.all_append, h1, isDigit]; omega
      · simp only [dval, List.foldl_append, List.foldl_cons, List.foldl_nil]
        simp only [dval] at h3
        rw [h3]; omega

theorem digits_natStr (n : Nat) : digits (natStr n) = some n := by
  obtain ⟨h1, h2, h3⟩ := natDigits_spec (n + 1) n (by omega)
  simp [digits, natStr, h1, h2]
  exact h3

theorem span_all_digits (s : Str) (h : s.all isDigit = true) : spanDigits s = (s, []) := by
  induction s with
  | nil => rfl
  | cons c r ih =>
    simp only [List.all_cons, Bool.and_eq_true] at h
    simp [spanDigits, h.1, ih h.2]

theorem amount_natStr (n : Nat) : amount (natStr n) = some (n, 1) := by
  obtain ⟨h1, h2, h3⟩ := natDigits_spec (n + 1) n (by omega)
  have hs := span_all_digits (natStr n) (by simpa [natStr] using h1)
  simp [amount, hs, digits_natStr]


theorem splitOn_no_sep (sep : Nat) (a : Str) (h : ∀ c ∈ a, c ≠ sep) : splitOn sep a = [a] := by
  induction a with
  | nil => rfl
  | cons c r ih =>
    have hc : c ≠ sep := h c (by simp)
    simp [splitOn, hc, ih (fun x hx => h x (by simp [hx]))]

theorem splitOn_append (sep : Nat) (a rest : Str) (h : ∀ c ∈ a, c ≠ sep) :
    splitOn sep (a ++ sep :: rest) = a :: splitOn sep rest := by
  induction a with
  | nil => simp [splitOn]
  | cons c r ih =>
    have hc : c ≠ sep := h c (by simp)
    simp [splitOn, hc, ih (fun x hx => h x (by simp [hx]))]

theorem formatDate_no_comma (x : Date) : ∀ c ∈ formatDate x, c ≠ 44 := by
  intro c hc
  simp [formatDate, pad4, pad2] at hc
  omega

theorem natStr_digits (n : Nat) : ∀ c ∈ natStr n, isDigit c = true := by
  obtain ⟨h1, _, _⟩ := natDigits_spec (n + 1) n (by omega)
  intro c hc
  exact (List.all_eq_true.mp h1) c (by simpa [natStr] using hc)


theorem spanDigits_append_nondigit (ds : Str) (hall : ds.all isDigit = true) (c : Nat) (hc : isDigit c = false) (rest : Str) :
    spanDigits (ds ++ c :: rest) = (ds, c :: rest) := by
  induction ds with
  | nil => simp [spanDigits, hc]
  | cons d r ih =>
    simp only [List.all_cons, Bool.and_eq_true] at hall
    simp [spanDigits, hall.1, ih hall.2]

theorem natStr_all (n : Nat) : (natStr n).all isDigit = true := (natDigits_spec (n + 1) n (by omega)).1

/-- one `<n><unit>` component in front of an already parsed tail -/
theorem ptSeconds_component (fuel n k : Nat) (u : Nat) (rest : Str) (tail : Nat)
    (hu : (if u = 72 then some 3600 else if u = 77 then some 60 else if u = 83 then some 1 else none) = some k)
    (hud : isDigit u = false) (hu46 : u ≠ 46)
    (ht : ptSeconds fuel rest = some (tail, 1)) :
    ptSeconds (fuel + 1) (natStr n ++ u :: rest) = some (n * k + tail, 1) := by
  have hs := spanDigits_append_nondigit (natStr n) (natStr_all n) u hud rest
  have hne : natStr n ++ u :: rest ≠ [] := by simp
  cases hl : natStr n ++ u :: rest with
  | nil => exact absurd hl hne
  | cons a t =>
    rw [← hl]
    unfold ptSeconds
    rw [hl] 
    simp only
    rw [← hl, hs]
    simp [hu46, digits_natStr, hu, ht]

theorem ptSeconds_nil (f : Nat) : ptSeconds (f + 1) [] = some (0, 1) := by simp [ptSeconds]

theorem ptSeconds_S (f s : Nat) :
    ptSeconds (f + 2) (if s > 0 then natStr s ++ [83] else []) = some (s, 1) := by
  by_cases h : s > 0
  · simp only [h, if_true]
    have := ptSeconds_component (f + 1) s 1 83 [] 0 (by decide) (by decide) (by decide) (ptSeconds_nil f)
    simpa using this
  · have : s = 0 := by omega
    subst this; simp [ptSeconds]

theorem ptSeconds_MS (f m s : Nat) :
    ptSeconds (f + 3) ((if m > 0 then natStr m ++ [77] else []) ++ (if s > 0 then natStr s ++ [83] else [])) = some (m * 60 + s, 1) := by
  by_cases h : m > 0
  · simp only [h, if_true, List.append_assoc, List.singleton_append]
    exact ptSeconds_component (f + 2) m 60 77 _ s (by decide) (by decide) (by decide) (ptSeconds_S f s)
  · have : m = 0 := by omega
    subst this
    simp only [Nat.lt_irrefl, gt_iff_lt, if_false, List.nil_append, Nat.zero_mul, Nat.zero_add]
    exact ptSeconds_S (f + 1) s

theorem ptSeconds_HMS (f hh m s : Nat) (c : Bool) (hc : c = false → hh = 0) :
    ptSeconds (f + 4) ((if c then natStr hh ++ [72] else []) ++
      ((if m > 0 then natStr m ++ [77] else []) ++ (if s > 0 then natStr s ++ [83] else []))) = some (hh * 3600 + (m * 60 + s), 1) := by
  cases c with
  | true =>
    simp only [if_true, List.append_assoc, List.singleton_append]
    exact ptSeconds_component (f + 3) hh 3600 72 _ (m * 60 + s) (by decide) (by decide) (by decide) (ptSeconds_MS f m s)
  | false =>
    have := hc rfl; subst this
    simp only [Bool.false_eq_true, if_false, List.nil_append, Nat.zero_mul, Nat.zero_add]
    exact ptSeconds_MS (f + 1) m s

/-- the H/M/S text `luis_time_span` writes denotes exactly the difference it was given -/
theorem ptSeconds_luisTimeSpan (secs f : Nat) :
    ptSeconds (f + 4) ((luisTimeSpan secs).drop 2) = some (secs, 1) := by
  have key := ptSeconds_HMS f (secs / 86400 * 24 + secs % 86400 / 3600) (secs % 86400 % 3600 / 60) (secs % 86400 % 3600 % 60)
    (decide (secs / 86400 > 0 ∨ secs % 86400 / 3600 > 0)) (by intro h; simp at h; omega)
  have e : (secs / 86400 * 24 + secs % 86400 / 3600) * 3600 + (secs % 86400 % 3600 / 60 * 60 + secs % 86400 % 3600 % 60) = secs := by omega
  rw [e] at key
  simpa [luisTimeSpan, List.append_assoc] using key


end RTV.WF
