import RTV.Lemmas.NumCjk
/-! kernel evaluation of the typed `get_int_value` walk (int / binary64), numerals 4000..4999 -/
namespace RTV.NumCjk
theorem ja_l40 : jaLoopChunk 40 = true := by decide +kernel
theorem ja_l41 : jaLoopChunk 41 = true := by decide +kernel
theorem ja_l42 : jaLoopChunk 42 = true := by decide +kernel
theorem ja_l43 : jaLoopChunk 43 = true := by decide +kernel
theorem ja_l44 : jaLoopChunk 44 = true := by decide +kernel
theorem ja_l45 : jaLoopChunk 45 = true := by decide +kernel
theorem ja_l46 : jaLoopChunk 46 = true := by decide +kernel
theorem ja_l47 : jaLoopChunk 47 = true := by decide +kernel
theorem ja_l48 : jaLoopChunk 48 = true := by decide +kernel
theorem ja_l49 : jaLoopChunk 49 = true := by decide +kernel
end RTV.NumCjk
