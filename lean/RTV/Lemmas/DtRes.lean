import RTV.Model.DtRes
import RTV.Lemmas.Cal
/-!
Helper lemmas for L6 `DtRes` (used by `RTV/Props/C06.lean`, `RTV/Props/C07.lean`). Core tactics only.

* formatting: `fmtD2`, `fmtD4` (shape of `f'{n:02d}'`, `f'{n:04d}'`)
* `Uni.Ascii` (what the theorems assume of the Unicode tables), `IsNum` (a digit string `int()` reads as `n`)
* `splitOn` / `joinWith` algebra, `toPm_hh` (`to_pm` on `[T]hh[:…]`)
* `Clock` (a written digit clock time) and `matchToTime_clock`, `resolveTime_clock`
* dates: `Decodes` (what a layout's groups decode to), `matchToDate_of`, `resolveDate_valid`, `resolveDate_invalid`,
  two-digit-year pivot lemmas
* designators through the `suffix` group: `adjustBySuffix_plain`, `resolveTime_designator`
* ChineseTimeParser: `zhHandle_digit`, `zhPack_digit`, `resolveTimeZh_digit`
* word shift of `merge_date_and_time`: `mergeHour`, `merge_clock_words`, `matchToTime_designator`,
  `resolveDateAtTime_designator`
* `parse_time_of_today`: `parseTimeOfToday_parsed`, `enGetHour_pmWord`, `enGetHour_morning`
* time ranges: `toPm_hh_w`, `toPm_fmtSecs`, `span_sound`, `spanHM_eq`
* `<date> at <time>`: `merge_clock`, `allStrToPm_one` (`all_str_to_pm` on `<prefix>Thh<suffix>`),
  `dtRes_datetime_plain/ampm`, `resolveDateAtTime_clock`
-/
namespace RTV.DtRes
open RTV.Py RTV.Cal
set_option linter.unusedSimpArgs false
set_option linter.unusedVariables false

theorem fmtD2_fin : ∀ n : Fin 100, fmtD 2 (n.val : Int) = [48 + n.val / 10, 48 + n.val % 10] := by decide

theorem fmtD2 (n : Nat) (h : n < 100) : fmtD 2 (n : Int) = [48 + n / 10, 48 + n % 10] := fmtD2_fin ⟨n, h⟩

theorem decAux_succ (f n : Nat) (acc : Str) :
    decAux (f + 1) n acc = if n < 10 then (48 + n) :: acc else decAux f (n / 10) ((48 + n % 10) :: acc) := rfl

theorem fmtD4 (n : Nat) (h1 : 1000 ≤ n) (h2 : n < 10000) :
    fmtD 4 (n : Int) = [48 + n / 1000, 48 + n / 100 % 10, 48 + n / 10 % 10, 48 + n % 10] := by
  have e : n + 1 = (n - 3) + 1 + 1 + 1 + 1 := by omega
  have a : ¬ n < 10 := by omega
  have b : ¬ n / 10 < 10 := by omega
  have c : ¬ n / 10 / 10 < 10 := by omega
  have d : n / 10 / 10 / 10 < 10 := by omega
  have i : ¬ ((n : Int) < 0) := by omega
  simp only [fmtD, i, if_false, Int.toNat_natCast, decStr, e, decAux_succ, a, b, c, d, if_true, zfill]
  have e1 : n / 10 / 10 / 10 = n / 1000 := by omega
  have e2 : n / 10 / 10 % 10 = n / 100 % 10 := by omega
  simp [e1, e2]


/-- What the theorems assume of the interpreter's Unicode tables: ASCII digits are decimal digits with their usual
values, numeric, and not white space. -/
structure Uni.Ascii (u : Uni) : Prop where
  digit : ∀ k, k ≤ 9 → u.digitVal (48 + k) = some k
  numeric : ∀ k, k ≤ 9 → u.isNumericCh (48 + k) = true
  notSpace : ∀ k, k ≤ 9 → u.isSpace (48 + k) = false

/-- `s` is a digit string that `int()` reads as `n` (what a `\d+` group holds). -/
structure IsNum (u : Uni) (s : Str) (n : Nat) : Prop where
  int : pyInt u s = some n
  numeric : isNumericStr u s = true
  nonblank : blank u s = false

theorem blank_nil (u : Uni) : blank u [] = true := by simp [blank, strip, stripLeft]

theorem isNum_two (u : Uni) (ha : u.Ascii) (a b : Nat) (h1 : a ≤ 9) (h2 : b ≤ 9) :
    IsNum u [48 + a, 48 + b] (a * 10 + b) := by
  have s1 := ha.notSpace a h1
  have s2 := ha.notSpace b h2
  constructor
  · simp [pyInt, strip, stripLeft, s1, s2, digitsVal, ha.digit a h1, ha.digit b h2]
  · simp [isNumericStr, ha.numeric a h1, ha.numeric b h2]
  · simp [blank, strip, stripLeft, s1, s2]

theorem isNum_one (u : Uni) (ha : u.Ascii) (a : Nat) (h1 : a ≤ 9) : IsNum u [48 + a] a := by
  have s1 := ha.notSpace a h1
  constructor
  · simp [pyInt, strip, stripLeft, s1, digitsVal, ha.digit a h1]
  · simp [isNumericStr, ha.numeric a h1]
  · simp [blank, strip, stripLeft, s1]

def plainCfg (z : Bool) : TimeCfg :=
  { numbers := [], zeroHourIsNone := z, adjustByPrefix := fun _ a => .ok a, adjustBySuffix := fun _ a => .ok a }

theorem mkDateTime_ok (ref : DT) (hv : ref.date.valid = true) (h m s : Nat) (h24 : h < 24) (m60 : m < 60) (s60 : s < 60) :
    mkDateTime ref.y ref.m ref.d h m s = some ⟨ref.y, ref.m, ref.d, h, m, s⟩ := by
  rw [valid_iff] at hv
  simp only [DT.date] at hv
  unfold mkDateTime
  rw [if_pos]
  · simp
  · simp only [Int.toNat_natCast]
    omega

theorem decode_hms (u : Uni) (cfg : TimeCfg) (hs ms ss : Str) (h m s : Nat)
    (hh : IsNum u hs h) (hm : IsNum u ms m) (hsx : IsNum u ss s) (hz : cfg.zeroHourIsNone = false ∨ 0 < h) :
    decodeFields u cfg { hour := hs, min := ms, sec := ss } =
      .ok (some { hour := h, minute := m, second := s, hasMinute := true, hasSeconds := true }) := by
  have z : (cfg.zeroHourIsNone && ((h : Int) == 0)) = false := by
    rcases hz with hz | hz
    · simp [hz]
    · have : h ≠ 0 := by omega
      simp [this]
  simp [decodeFields, blank_nil, hh.nonblank, hh.numeric, hm.nonblank, hsx.nonblank, intOf, hh.int, hm.int, hsx.int,
    z, bind, Except.bind, pure, Except.pure]


theorem splitOn_ne_nil (sep : Nat) (s : Str) : splitOn sep s ≠ [] := by
  induction s with
  | nil => simp [splitOn]
  | cons c r ih =>
    unfold splitOn
    split
    · simp
    · split <;> simp

theorem splitOn_nosep (sep : Nat) (a : Str) (h : sep ∉ a) : splitOn sep a = [a] := by
  induction a with
  | nil => simp [splitOn]
  | cons c r ih =>
    have hc : c ≠ sep := by intro e; apply h; simp [e]
    have hr : sep ∉ r := by intro e; apply h; simp [e]
    simp [splitOn, ih hr, hc]

theorem splitOn_append (sep : Nat) (a r : Str) (h : sep ∉ a) : splitOn sep (a ++ sep :: r) = a :: splitOn sep r := by
  induction a with
  | nil =>
    simp only [List.nil_append]
    rw [splitOn]
    split
    · rename_i e; exact absurd e (splitOn_ne_nil sep r)
    · rename_i hd tl e; simp [e]
  | cons c a ih =>
    have hc : c ≠ sep := by intro e; apply h; simp [e]
    have hr : sep ∉ a := by intro e; apply h; simp [e]
    simp only [List.cons_append]
    rw [splitOn, ih hr]
    simp [hc]

theorem joinWith_cons_head (sep : Str) (c : Nat) (h : Str) (tl : List Str) :
    joinWith sep ((c :: h) :: tl) = c :: joinWith sep (h :: tl) := by
  cases tl <;> simp [joinWith]

theorem joinWith_splitOn (sep : Nat) (s : Str) : joinWith [sep] (splitOn sep s) = s := by
  induction s with
  | nil => simp [splitOn, joinWith]
  | cons c r ih =>
    rw [splitOn]
    split
    · rename_i e; exact absurd e (splitOn_ne_nil sep r)
    · rename_i hd tl e
      rw [e] at ih
      split
      · rename_i hc; simp [joinWith, ih, hc]
      · rw [joinWith_cons_head, ih]

theorem joinWith_cons_splitOn (sep : Nat) (x t : Str) : joinWith [sep] (x :: splitOn sep t) = x ++ sep :: t := by
  have := splitOn_ne_nil sep t
  cases e : splitOn sep t with
  | nil => exact absurd e this
  | cons hd tl =>
    simp only [joinWith]
    rw [← e, joinWith_splitOn]
    simp


/-- the hour `to_pm` produces -/
def pmHour (h : Nat) : Nat := if h = 12 then 0 else h + 12

theorem d2_no58 (n : Nat) (h : n < 100) : 58 ∉ fmtD 2 (n : Int) := by
  rw [fmtD2 n h]; simp; omega

theorem d2_no84 (n : Nat) (h : n < 100) : 84 ∉ fmtD 2 (n : Int) := by
  rw [fmtD2 n h]; simp; omega

theorem d2_isNum (u : Uni) (ha : u.Ascii) (n : Nat) (h : n < 100) : IsNum u (fmtD 2 (n : Int)) n := by
  rw [fmtD2 n h]
  have := isNum_two u ha (n / 10) (n % 10) (by omega) (by omega)
  have e : n / 10 * 10 + n % 10 = n := by omega
  rwa [e] at this

/-- `to_pm('hh')`, `to_pm('hh:…')`, with or without the leading `T`. -/
theorem toPm_hh (u : Uni) (ha : u.Ascii) (h : Nat) (hh : h < 100) (hw : u.pmWraps = false ∨ h ≤ 12) (t : Bool) (rest : Str)
    (hr : rest = [] ∨ ∃ r, rest = 58 :: r) :
    toPm u ((if t then [84] else []) ++ fmtD 2 (h : Int) ++ rest) =
      some ((if t then [84] else []) ++ fmtD 2 (pmHour h : Int) ++ rest) := by
  have n58 := d2_no58 h hh
  have hint := (d2_isNum u ha h hh).int
  have e2 := fmtD2 h hh
  have nT : startsWith (fmtD 2 (h : Int) ++ rest) [84] = false := by
    rw [e2]; simp [startsWith]; omega
  have hp : (if h = 12 then 0 else if u.pmWraps = true then (h + 12) % 24 else h + 12) = pmHour h := by
    unfold pmHour
    rcases hw with hw | hw
    · simp [hw]
    · split
      · rfl
      · split <;> omega
  rcases hr with rfl | ⟨r, rfl⟩
  · cases t
    · simp only [Bool.false_eq_true, if_false, List.nil_append, List.append_nil] at nT ⊢
      simp [toPm, nT, splitOn_nosep 58 _ n58, hint, joinWith, hp]
    · simp [toPm, startsWith, splitOn_nosep 58 _ n58, hint, joinWith, hp]
  · cases t
    · simp only [Bool.false_eq_true, if_false, List.nil_append] at nT ⊢
      simp [toPm, nT, splitOn_append 58 _ r n58, hint, joinWith_cons_splitOn, hp, sColon]
    · simp [toPm, startsWith, splitOn_append 58 _ r n58, hint, joinWith_cons_splitOn, hp, sColon]

/-! ### a written clock time and what `match_to_time` makes of it -/

/-- A digit clock time as the regexes capture it: hour string, optional minute and second strings, with the numbers
they denote. -/
structure Clock where
  hs : Str
  h : Nat
  ms : Option (Str × Nat) := none
  ss : Option (Str × Nat) := none

def Clock.m (c : Clock) : Nat := (c.ms.map (·.2)).getD 0
def Clock.s (c : Clock) : Nat := (c.ss.map (·.2)).getD 0

structure Clock.WF (u : Uni) (c : Clock) : Prop where
  hour : IsNum u c.hs c.h
  h24 : c.h < 24
  minute : ∀ p, c.ms = some p → IsNum u p.1 p.2 ∧ p.2 < 60
  second : ∀ p, c.ss = some p → IsNum u p.1 p.2 ∧ p.2 < 60

/-- the named groups of the match: `hour`, `min`, `sec` and the am/pm description outcome -/
def Clock.groups (c : Clock) (amD pmD : Bool) : TimeGroups :=
  { hour := c.hs, min := (c.ms.map (·.1)).getD [], sec := (c.ss.map (·.1)).getD [], amDesc := amD, pmDesc := pmD }

/-- `:mm` and `:ss` parts of the TIMEX -/
def Clock.tail (c : Clock) : Str :=
  (match c.ms with | some p => sColon ++ fmtD 2 (p.2 : Int) | none => []) ++
  (match c.ss with | some p => sColon ++ fmtD 2 (p.2 : Int) | none => [])

/-- `T` + two-digit hour + the minute / second parts that were written -/
def Clock.timex (c : Clock) (hh : Nat) : Str := 84 :: fmtD 2 (hh : Int) ++ c.tail

/-- hour after the am / pm adjustment of `match_to_time` -/
def adjHour (h : Nat) (amD pmD : Bool) : Nat :=
  if amD then (if h ≥ 12 then h - 12 else h) else if pmD then (if h < 12 then h + 12 else h) else h

theorem adjHour_lt (h : Nat) (amD pmD : Bool) (h24 : h < 24) : adjHour h amD pmD < 24 := by
  unfold adjHour; split <;> split <;> try split
  all_goals omega

theorem decode_clock (u : Uni) (cfg : TimeCfg) (c : Clock) (amD pmD : Bool) (wf : c.WF u)
    (hz : cfg.zeroHourIsNone = false ∨ 0 < c.h) :
    decodeFields u cfg (c.groups amD pmD) =
      .ok (some { hour := c.h, minute := c.m, second := c.s, hasMinute := c.ms.isSome, hasSeconds := c.ss.isSome }) := by
  obtain ⟨hs, h, ms, ss⟩ := c
  have hh := wf.hour
  have hm := wf.minute
  have hs' := wf.second
  simp only at hh hz hm hs'
  have z : (cfg.zeroHourIsNone && ((h : Int) == 0)) = false := by
    rcases hz with hz | hz
    · simp [hz]
    · have : h ≠ 0 := by omega
      simp [this]
  cases ms with
  | none =>
    cases ss with
    | none =>
      simp [decodeFields, Clock.groups, Clock.m, Clock.s, blank_nil, hh.nonblank, hh.numeric, intOf, hh.int, z, bind,
        Except.bind, pure, Except.pure]
    | some q =>
      have hq := (hs' q rfl).1
      simp [decodeFields, Clock.groups, Clock.m, Clock.s, blank_nil, hh.nonblank, hh.numeric, intOf, hh.int, z, bind,
        Except.bind, pure, Except.pure, hq.nonblank, hq.int]
  | some p =>
    have hp := (hm p rfl).1
    cases ss with
    | none =>
      simp [decodeFields, Clock.groups, Clock.m, Clock.s, blank_nil, hh.nonblank, hh.numeric, intOf, hh.int, z, bind,
        Except.bind, pure, Except.pure, hp.nonblank, hp.int]
    | some q =>
      have hq := (hs' q rfl).1
      simp [decodeFields, Clock.groups, Clock.m, Clock.s, blank_nil, hh.nonblank, hh.numeric, intOf, hh.int, z, bind,
        Except.bind, pure, Except.pure, hq.nonblank, hq.int, hp.nonblank, hp.int]

theorem descAdjust_clock (c : Clock) (amD pmD : Bool) :
    descAdjust (c.groups amD pmD) (c.h : Int) = (((adjHour c.h amD pmD : Nat) : Int), amD, !amD && pmD) := by
  cases amD <;> cases pmD <;> simp [descAdjust, Clock.groups, adjHour] <;> (repeat' split) <;> omega

theorem assembleTime_ok (ref : DT) (hv : ref.date.valid = true) (hh m s : Nat) (hM hS hasAm hasPm : Bool)
    (h24 : hh < 24) (m60 : m < 60) (s60 : s < 60) :
    assembleTime ref hh m s hM hS hasAm hasPm false =
      .ok { success := true,
            timex := (84 :: fmtD 2 (hh : Int)) ++ (if hM then sColon ++ fmtD 2 (m : Int) else []) ++
                     (if hS then sColon ++ fmtD 2 (s : Int) else []),
            comment := if 0 < hh ∧ hh ≤ 12 ∧ hasPm = false ∧ hasAm = false then sAmPm else [],
            future := ⟨ref.y, ref.m, ref.d, hh, m, s⟩, past := ⟨ref.y, ref.m, ref.d, hh, m, s⟩ } := by
  have n24 : ¬ ((hh : Int) = 24) := by omega
  have mk := mkDateTime_ok ref hv hh m s h24 m60 s60
  simp only [assembleTime, n24, if_false, mk]
  cases hM <;> cases hS <;> simp <;> congr 1 <;> simp <;> omega


theorem matchToTime_clock (u : Uni) (cfg : TimeCfg) (c : Clock) (amD pmD : Bool) (ref : DT)
    (wf : c.WF u) (hz : cfg.zeroHourIsNone = false ∨ 0 < c.h) (hv : ref.date.valid = true) :
    matchToTime u cfg (c.groups amD pmD) ref =
      .ok { success := true, timex := c.timex (adjHour c.h amD pmD),
            comment := if 0 < adjHour c.h amD pmD ∧ adjHour c.h amD pmD ≤ 12 ∧ amD = false ∧ pmD = false then sAmPm else [],
            future := ⟨ref.y, ref.m, ref.d, adjHour c.h amD pmD, c.m, c.s⟩,
            past := ⟨ref.y, ref.m, ref.d, adjHour c.h amD pmD, c.m, c.s⟩ } := by
  have a24 := adjHour_lt c.h amD pmD wf.h24
  have m60 : c.m < 60 := by
    unfold Clock.m; cases e : c.ms with
    | none => simp
    | some p => simpa using (wf.minute p e).2
  have s60 : c.s < 60 := by
    unfold Clock.s; cases e : c.ss with
    | none => simp
    | some p => simpa using (wf.second p e).2
  have pf : blank u (c.groups amD pmD).pfx = true := blank_nil u
  have sf : blank u (c.groups amD pmD).sfx = true := blank_nil u
  simp only [matchToTime, decode_clock u cfg c amD pmD wf hz, descAdjust_clock, pf, sf, bind, Except.bind, pure,
    Except.pure, Bool.not_true, Bool.false_eq_true, if_false]
  rw [assembleTime_ok ref hv _ _ _ _ _ _ _ a24 m60 s60]
  congr 2
  · simp only [Clock.timex, Clock.tail, Clock.m, Clock.s]
    cases c.ms <;> cases c.ss <;> simp
  · cases amD <;> cases pmD <;> simp

/-! ### `_date_time_resolution` on a time slot -/

def sTime : Str := DType.name .time

/-- `hh:mm:ss` -/
def hms (hh m s : Nat) : Str := fmtD 2 (hh : Int) ++ sColon ++ fmtD 2 (m : Int) ++ sColon ++ fmtD 2 (s : Int)

theorem hms_eq (hh m s : Nat) (h : hh < 100) : hms hh m s = [48 + hh / 10, 48 + hh % 10, 58] ++ (fmtD 2 (m : Int) ++ sColon ++ fmtD 2 (s : Int)) := by
  simp [hms, fmtD2 hh h, sColon]

theorem sDateMin_eq : sDateMin = [48, 48, 48, 49, 45, 48, 49, 45, 48, 49] := by decide

theorem gen_time (hh m s : Nat) (h : hh < 100) : generateFromResolution (hms hh m s) = some (hms hh m s) := by
  rw [hms_eq hh m s h]
  simp [generateFromResolution, startsWith, sDateMin_eq]

theorem formatTime_eq (y mo d hh m s : Nat) : formatTime ⟨y, mo, d, hh, m, s⟩ = hms hh m s := by
  simp [formatTime, hms]

theorem sAmPm_ne_nil : sAmPm ≠ [] := by decide

/-- an unambiguous time slot resolves to the single value `hh:mm:ss` -/
theorem dtRes_time_plain (u : Uni) (timex : Str) (y mo d hh m s : Nat) (h : hh < 100) :
    dateTimeResolution u (toSlot .time (Res.mk true timex [] ⟨y, mo, d, hh, m, s⟩ ⟨y, mo, d, hh, m, s⟩)) =
      .ok (some [{ timex := timex, type := sTime, value := some (hms hh m s) }]) := by
  simp [dateTimeResolution, toSlot, fmtFor, formatTime_eq, gen_time hh m s h, sTime, Ne.symm sAmPm_ne_nil]

/-- a time slot commented `ampm` resolves to the AM reading and the reading `to_pm` derives from it -/
theorem dtRes_time_ampm (u : Uni) (ha : u.Ascii) (tail : Str) (y mo d hh m s : Nat) (h : hh < 100) (h12 : hh ≤ 12)
    (ht : tail = [] ∨ ∃ r, tail = 58 :: r) :
    dateTimeResolution u (toSlot .time (Res.mk true (84 :: fmtD 2 (hh : Int) ++ tail) sAmPm ⟨y, mo, d, hh, m, s⟩ ⟨y, mo, d, hh, m, s⟩)) =
      .ok (some [{ timex := 84 :: fmtD 2 (hh : Int) ++ tail, type := sTime, value := some (hms hh m s) },
                 { timex := 84 :: fmtD 2 (pmHour hh : Int) ++ tail, type := sTime, value := some (hms (pmHour hh) m s) }]) := by
  have p1 := toPm_hh u ha hh h (Or.inr h12) true tail ht
  have p2 := toPm_hh u ha hh h (Or.inr h12) false (sColon ++ fmtD 2 (m : Int) ++ sColon ++ fmtD 2 (s : Int)) (Or.inr ⟨_, rfl⟩)
  simp only [if_true, Bool.false_eq_true, if_false, List.nil_append, List.singleton_append, List.cons_append] at p1 p2
  have e : hms hh m s = fmtD 2 (hh : Int) ++ (sColon ++ fmtD 2 (m : Int) ++ sColon ++ fmtD 2 (s : Int)) := by simp [hms]
  have e' : hms (pmHour hh) m s = fmtD 2 (pmHour hh : Int) ++ (sColon ++ fmtD 2 (m : Int) ++ sColon ++ fmtD 2 (s : Int)) := by
    simp [hms]
  simp [dateTimeResolution, toSlot, fmtFor, formatTime_eq, gen_time hh m s h, sTime, resolvePm, bind, Except.bind,
    pure, Except.pure, List.mapM_cons, List.mapM_nil]
  rw [e, p2, p1]
  simp [e']

/-! ### the time entity end to end -/

/-- the value entry of a time entity: TIMEX `Thh[:mm[:ss]]`, type `time`, value `hh:mm:ss` -/
def Clock.value (c : Clock) (hh : Nat) : Value :=
  { timex := c.timex hh, type := sTime, value := some (hms hh c.m c.s) }

theorem tail_shape (c : Clock) : c.tail = [] ∨ ∃ r, c.tail = 58 :: r := by
  unfold Clock.tail
  cases c.ms <;> cases c.ss <;> simp [sColon]

theorem resolveTime_clock (u : Uni) (ha : u.Ascii) (cfg : TimeCfg) (c : Clock) (amD pmD : Bool) (ref : DT)
    (wf : c.WF u) (hz : cfg.zeroHourIsNone = false ∨ 0 < c.h) (hv : ref.date.valid = true) :
    resolveTime u cfg (c.groups amD pmD) ref =
      .ok (some (if 0 < adjHour c.h amD pmD ∧ adjHour c.h amD pmD ≤ 12 ∧ amD = false ∧ pmD = false
                 then [c.value (adjHour c.h amD pmD), c.value (pmHour (adjHour c.h amD pmD))]
                 else [c.value (adjHour c.h amD pmD)])) := by
  have a24 := adjHour_lt c.h amD pmD wf.h24
  simp only [resolveTime, matchToTime_clock u cfg c amD pmD ref wf hz hv, bind, Except.bind]
  split
  · rename_i hc
    obtain ⟨_, hle, rfl, rfl⟩ := hc
    have := dtRes_time_ampm u ha c.tail ref.y ref.m ref.d (adjHour c.h false false) c.m c.s (by omega) hle (tail_shape c)
    simpa [Clock.timex, Clock.value] using this
  · rename_i hc
    have := dtRes_time_plain u (c.timex (adjHour c.h amD pmD)) ref.y ref.m ref.d (adjHour c.h amD pmD) c.m c.s (by omega)
    simpa [Clock.value] using this

/-- a concrete `Uni` (ASCII digits and white space only) showing the hypotheses are satisfiable and used for the
concrete witnesses -/
def asciiUni : Uni where
  isSpace c := c == 32 || (9 ≤ c && c ≤ 13)
  isNumericCh c := 48 ≤ c && c ≤ 57
  digitVal c := if 48 ≤ c ∧ c ≤ 57 then some (c - 48) else none

theorem asciiUni_ascii : asciiUni.Ascii := by
  constructor
  · intro k hk; simp [asciiUni]; omega
  · intro k hk; simp [asciiUni]; omega
  · intro k hk; simp [asciiUni]; omega

/-! ### dates -/

def sDate : Str := DType.name .date

/-- `YYYY-MM-DD` -/
def ymd (y mo d : Nat) : Str := fmtD 4 (y : Int) ++ sDash ++ fmtD 2 (mo : Int) ++ sDash ++ fmtD 2 (d : Int)

theorem formatDate_eq (y mo d hh m s : Nat) : formatDate ⟨y, mo, d, hh, m, s⟩ = ymd y mo d := rfl

theorem luisDate_eq (y mo d : Nat) (hy : 1 ≤ y) : luisDate (y : Int) (mo : Int) (d : Int) = ymd y mo d := by
  have : ¬ ((y : Int) = -1) := by omega
  simp [luisDate, this, ymd]

theorem isNum_nonempty (u : Uni) (s : Str) (n : Nat) (h : IsNum u s n) : s.isEmpty = false := by
  cases s with
  | nil => have := h.nonblank; simp [blank_nil] at this
  | cons a b => rfl

theorem mkDate_ok (y mo d : Nat) (hv : (⟨y, mo, d⟩ : Date).valid = true) :
    mkDateTime y mo d 0 0 0 = some ⟨y, mo, d, 0, 0, 0⟩ := by
  have := mkDateTime_ok ⟨y, mo, d, 0, 0, 0⟩ (by simpa [DT.date] using hv) 0 0 0 (by omega) (by omega) (by omega)
  simpa using this

theorem mkDate_bad (y mo d : Nat) (hv : (⟨y, mo, d⟩ : Date).valid = false) (h m s : Int) :
    mkDateTime y mo d h m s = none := by
  have hv' : ¬ ((⟨y, mo, d⟩ : Date).valid = true) := by simp [hv]
  rw [valid_iff] at hv'
  unfold mkDateTime
  rw [if_neg]
  simp only [Int.toNat_natCast]
  simp only at hv'
  omega

theorem safeCreate_valid (y mo d : Nat) (hv : (⟨y, mo, d⟩ : Date).valid = true) :
    safeCreateFromMinValue y mo d = some ⟨y, mo, d, 0, 0, 0⟩ := by
  simp [safeCreateFromMinValue, safeCreateFromValue, isValidDate, mkDate_ok y mo d hv, isValidTime]

theorem safeCreate_invalid (y mo d : Nat) (hv : (⟨y, mo, d⟩ : Date).valid = false) :
    safeCreateFromMinValue y mo d = some minValue := by
  simp [safeCreateFromMinValue, safeCreateFromValue, isValidDate, mkDate_bad y mo d hv]

/-- What a layout's named groups must decode to: the `month` group is a key of `month_of_year` with value `mo`,
the `day` group a key of `day_of_month` with value `d`, no written-out year, the `year` group a digit string read as `y`. -/
structure Decodes (u : Uni) (cfg : DateCfg) (g : DateGroups) (y mo d : Nat) : Prop where
  month : lookup cfg.monthOfYear g.month = some mo
  day : lookup cfg.dayOfMonth g.day = some d
  noWritten : g.fullYear = []
  year : IsNum u g.year y

theorem decodeDate_of (u : Uni) (cfg : DateCfg) (g : DateGroups) (y mo d : Nat) (wy : Int) (h : Decodes u cfg g y mo d) :
    decodeDate u cfg g wy = .ok ((mo : Int), (d : Int), pivotYear cfg y) := by
  simp [decodeDate, h.month, h.day, h.noWritten, isNum_nonempty u _ _ h.year, h.year.numeric, h.year.int]

theorem pivot_four (cfg : DateCfg) (y : Nat) (hy : 100 ≤ y) (hmax : cfg.maxTwoDigitYearFuture ≤ 100) :
    pivotYear cfg y = y := by
  unfold pivotYear
  rw [if_neg (by omega), if_neg (by omega)]

/-- `match_to_date` when the groups decode to year `yr` (after the pivot), month `mo`, day `d`, year ≥ 1. -/
theorem matchToDate_of (u : Uni) (cfg : DateCfg) (g : DateGroups) (y mo d yr : Nat) (wy : Int) (ref : DT)
    (h : Decodes u cfg g y mo d) (hp : pivotYear cfg y = yr) (h1 : 1 ≤ yr) :
    matchToDate u cfg g wy ref =
      .ok { success := true, timex := ymd yr mo d,
            future := (safeCreateFromMinValue yr mo d).getD minValue,
            past := (safeCreateFromMinValue yr mo d).getD minValue } := by
  have n0 : ¬ ((yr : Int) = 0) := by omega
  have n0' : yr ≠ 0 := by omega
  simp [n0', matchToDate, decodeDate_of u cfg g y mo d wy h, hp, bind, Except.bind, pure, Except.pure, n0,
    luisDate_eq yr mo d h1, generateDates]

theorem ymd_eq (y mo d : Nat) (h1 : 1000 ≤ y) (h2 : y < 10000) :
    ymd y mo d = (48 + y / 1000) :: (48 + y / 100 % 10) :: (48 + y / 10 % 10) :: (48 + y % 10) :: 45 ::
      (fmtD 2 (mo : Int) ++ sDash ++ fmtD 2 (d : Int)) := by
  simp [ymd, fmtD4 y h1 h2, sDash]

theorem gen_date (y mo d : Nat) (h1 : 1000 ≤ y) (h2 : y < 10000) :
    generateFromResolution (ymd y mo d) = some (ymd y mo d) := by
  rw [ymd_eq y mo d h1 h2]
  have : ¬ (y / 1000 = 0) := by omega
  simp [generateFromResolution, startsWith, sDateMin_eq, this]

theorem gen_min : generateFromResolution (formatDate minValue) = none := by decide

/-- a valid four-digit-year date slot resolves to the single value `YYYY-MM-DD` -/
theorem dtRes_date (u : Uni) (y mo d : Nat) (h1 : 1000 ≤ y) (h2 : y < 10000) :
    dateTimeResolution u (toSlot .date (Res.mk true (ymd y mo d) [] ⟨y, mo, d, 0, 0, 0⟩ ⟨y, mo, d, 0, 0, 0⟩)) =
      .ok (some [{ timex := ymd y mo d, type := sDate, value := some (ymd y mo d) }]) := by
  simp [dateTimeResolution, toSlot, fmtFor, formatDate_eq, gen_date y mo d h1 h2, sDate, Ne.symm sAmPm_ne_nil]

theorem dtRes_date_invalid (u : Uni) (timex : Str) :
    dateTimeResolution u (toSlot .date (Res.mk true timex [] minValue minValue)) =
      .ok (some [{ timex := timex, type := sDate, value := some sNotResolved }]) := by
  simp [dateTimeResolution, toSlot, fmtFor, gen_min, sDate]


theorem pivot_past (cfg : DateCfg) (yy : Nat) (h100 : yy < 100) (hmin : cfg.minTwoDigitYearPast ≤ yy) :
    pivotYear cfg yy = ((1900 + yy : Nat) : Int) := by
  unfold pivotYear
  rw [if_pos (by omega)]
  omega

theorem pivot_future (cfg : DateCfg) (yy : Nat) (hmin : (yy : Int) < cfg.minTwoDigitYearPast)
    (hmax : (yy : Int) < cfg.maxTwoDigitYearFuture) : pivotYear cfg yy = ((2000 + yy : Nat) : Int) := by
  unfold pivotYear
  rw [if_neg (by omega), if_pos (by omega)]
  omega

theorem pivot_gap (cfg : DateCfg) (yy : Nat) (hmin : (yy : Int) < cfg.minTwoDigitYearPast)
    (hmax : cfg.maxTwoDigitYearFuture ≤ (yy : Int)) : pivotYear cfg yy = (yy : Int) := by
  unfold pivotYear
  rw [if_neg (by omega), if_neg (by omega)]

/-- date entity whose groups decode (after the pivot) to the valid date `yr-mo-d`, 1000 ≤ yr ≤ 9999 -/
theorem resolveDate_valid (u : Uni) (cfg : DateCfg) (g : DateGroups) (y mo d yr : Nat) (wy : Int) (ref : DT)
    (h : Decodes u cfg g y mo d) (hp : pivotYear cfg y = yr) (h1 : 1000 ≤ yr) (h2 : yr < 10000)
    (hv : (⟨yr, mo, d⟩ : Date).valid = true) :
    resolveDate u cfg g wy ref = .ok (some [{ timex := ymd yr mo d, type := sDate, value := some (ymd yr mo d) }]) := by
  simp only [resolveDate, matchToDate_of u cfg g y mo d yr wy ref h hp (by omega), safeCreate_valid yr mo d hv, bind,
    Except.bind, Option.getD_some]
  exact dtRes_date u yr mo d h1 h2

/-- … and to a day that does not exist -/
theorem resolveDate_invalid (u : Uni) (cfg : DateCfg) (g : DateGroups) (y mo d yr : Nat) (wy : Int) (ref : DT)
    (h : Decodes u cfg g y mo d) (hp : pivotYear cfg y = yr) (h1 : 1 ≤ yr)
    (hv : (⟨yr, mo, d⟩ : Date).valid = false) :
    resolveDate u cfg g wy ref = .ok (some [{ timex := ymd yr mo d, type := sDate, value := some sNotResolved }]) := by
  simp only [resolveDate, matchToDate_of u cfg g y mo d yr wy ref h hp h1, safeCreate_invalid yr mo d hv, bind,
    Except.bind, Option.getD_some]
  exact dtRes_date_invalid u (ymd yr mo d)

/-- the number a key starts with (`5th` ↦ 5, `05` ↦ 5, `may` ↦ none): specification of ordinal-suffixed keys -/
def leadingNum (s : Str) : Option Nat :=
  let ds := s.takeWhile (fun c => 48 ≤ c && c ≤ 57)
  if ds.isEmpty then none else some (ds.foldl (fun a c => a * 10 + (c - 48)) 0)


/-! ### `<date> at <time>` -/

def sDateTime : Str := DType.name .datetime

theorem endsWith_mem (s p : Str) (h : endsWith s p = true) : ∀ x ∈ p, x ∈ s := by
  intro x hx
  simp only [endsWith, Bool.and_eq_true, decide_eq_true_eq] at h
  rw [← h.2] at hx
  exact List.mem_of_mem_drop hx

theorem timex_le (c : Clock) (wf60 : c.m < 60 ∧ c.s < 60) (hh : Nat) (h : hh < 100) : ∀ x ∈ c.timex hh, x ≤ 84 := by
  intro x hx
  have hm : ∀ p, c.ms = some p → p.2 = c.m := by intro p e; simp [Clock.m, e]
  have hs : ∀ p, c.ss = some p → p.2 = c.s := by intro p e; simp [Clock.s, e]
  simp only [Clock.timex, Clock.tail, fmtD2 hh h] at hx
  cases em : c.ms with
  | none =>
    cases es : c.ss with
    | none => simp [em, es] at hx; omega
    | some q =>
      have := hs q es
      simp [em, es, sColon, fmtD2 q.2 (by omega)] at hx; omega
  | some p =>
    have := hm p em
    cases es : c.ss with
    | none => simp [em, es, sColon, fmtD2 p.2 (by omega)] at hx; omega
    | some q =>
      have := hs q es
      simp [em, es, sColon, fmtD2 p.2 (by omega), fmtD2 q.2 (by omega)] at hx; omega

theorem timex_not_ampm (c : Clock) (wf60 : c.m < 60 ∧ c.s < 60) (hh : Nat) (h : hh < 100) :
    endsWith (c.timex hh) sAmPm = false := by
  cases e : endsWith (c.timex hh) sAmPm with
  | false => rfl
  | true =>
    have := timex_le c wf60 hh h 109 (endsWith_mem _ _ e 109 (by decide))
    omega

theorem timex_drop3 (c : Clock) (hh : Nat) (h : hh < 100) : (c.timex hh).drop 3 = c.tail := by
  simp [Clock.timex, fmtD2 hh h]

theorem wf_m60 (u : Uni) (c : Clock) (wf : c.WF u) : c.m < 60 ∧ c.s < 60 := by
  constructor
  · unfold Clock.m; cases e : c.ms with
    | none => simp
    | some p => simpa using (wf.minute p e).2
  · unfold Clock.s; cases e : c.ss with
    | none => simp
    | some p => simpa using (wf.second p e).2

/-- `merge_date_and_time` of a resolved date and a decoded clock time (no "morning/afternoon" words in the text) -/
theorem merge_clock (c : Clock) (w60 : c.m < 60 ∧ c.s < 60) (hh : Nat) (h24 : hh < 24) (dtx cm : Str) (y mo d : Nat)
    (hv : (⟨y, mo, d⟩ : Date).valid = true) (tv : DT) (htv : tv.hh = hh ∧ tv.mi = c.m ∧ tv.ss = c.s) :
    mergeDateAndTime (toSlot .date (Res.mk true dtx [] ⟨y, mo, d, 0, 0, 0⟩ ⟨y, mo, d, 0, 0, 0⟩))
        (toSlot .time (Res.mk true (c.timex hh) cm tv tv)) false false =
      .ok (Res.mk true (dtx ++ c.timex hh) (if hh ≤ 12 ∧ cm ≠ [] then sAmPm else []) ⟨y, mo, d, hh, c.m, c.s⟩
        ⟨y, mo, d, hh, c.m, c.s⟩) := by
  obtain ⟨e1, e2, e3⟩ := htv
  have mk := mkDateTime_ok ⟨y, mo, d, 0, 0, 0⟩ (by simpa [DT.date] using hv) hh c.m c.s h24 w60.1 w60.2
  simp only at mk
  have e : 84 :: (fmtD 2 (hh : Int) ++ c.tail) = c.timex hh := rfl
  simp [mergeDateAndTime, toSlot, e1, e2, e3, timex_not_ampm c w60 hh (by omega), timex_drop3 c hh (by omega), mk, e]

theorem formatDateTime_eq (y mo d hh m s : Nat) :
    formatDateTime ⟨y, mo, d, hh, m, s⟩ = ymd y mo d ++ 32 :: hms hh m s := by
  simp [formatDateTime, formatDate_eq, formatTime_eq]

theorem gen_datetime (y mo d hh m s : Nat) (h1 : 1000 ≤ y) (h2 : y < 10000) :
    generateFromResolution (ymd y mo d ++ 32 :: hms hh m s) = some (ymd y mo d ++ 32 :: hms hh m s) := by
  rw [ymd_eq y mo d h1 h2]
  have : ¬ (y / 1000 = 0) := by omega
  simp [generateFromResolution, startsWith, sDateMin_eq, this]

/-- an unambiguous datetime slot resolves to the single value `YYYY-MM-DD hh:mm:ss` -/
theorem dtRes_datetime_plain (u : Uni) (timex : Str) (y mo d hh m s : Nat) (h1 : 1000 ≤ y) (h2 : y < 10000) :
    dateTimeResolution u (toSlot .datetime (Res.mk true timex [] ⟨y, mo, d, hh, m, s⟩ ⟨y, mo, d, hh, m, s⟩)) =
      .ok (some [{ timex := timex, type := sDateTime, value := some (ymd y mo d ++ 32 :: hms hh m s) }]) := by
  simp [dateTimeResolution, toSlot, fmtFor, formatDateTime_eq, gen_datetime y mo d hh m s h1 h2, sDateTime,
    Ne.symm sAmPm_ne_nil]


/-! ### `all_str_to_pm` on `<prefix>Thh<suffix>` -/

theorem go_step_ne (u : Uni) (f : Nat) (prev : Option Nat) (i c : Nat) (r : Str) (hc : c ≠ 84) :
    hourTimeMatches.go u (f + 1) prev i (c :: r) = hourTimeMatches.go u f (some c) (i + 1) r := by
  cases r with
  | nil => simp [hourTimeMatches.go]
  | cons d1 r1 =>
    cases r1 with
    | nil => simp [hourTimeMatches.go]
    | cons d2 r2 => simp [hourTimeMatches.go, hc]

theorem go_no84 (u : Uni) (f : Nat) : ∀ (prev : Option Nat) (i : Nat) (s : Str), 84 ∉ s →
    hourTimeMatches.go u f prev i s = [] := by
  induction f with
  | zero => intro prev i s _; simp [hourTimeMatches.go]
  | succ f ih =>
    intro prev i s hs
    cases s with
    | nil => simp [hourTimeMatches.go]
    | cons c r =>
      have hc : c ≠ 84 := by intro e; apply hs; simp [e]
      have hr : 84 ∉ r := by intro e; apply hs; simp [e]
      rw [go_step_ne u f prev i c r hc]
      exact ih _ _ r hr

def lastOpt (prev : Option Nat) (pre : Str) : Option Nat :=
  match pre.getLast? with
  | some l => some l
  | none => prev

theorem go_skip (u : Uni) (f : Nat) (rest : Str) : ∀ (pre : Str) (prev : Option Nat) (i : Nat), 84 ∉ pre →
    hourTimeMatches.go u (pre.length + f) prev i (pre ++ rest) =
      hourTimeMatches.go u f (lastOpt prev pre) (i + pre.length) rest := by
  intro pre
  induction pre with
  | nil => intro prev i _; simp [lastOpt]
  | cons c pre ih =>
    intro prev i hp
    have hc : c ≠ 84 := by intro e; apply hp; simp [e]
    have hr : 84 ∉ pre := by intro e; apply hp; simp [e]
    have e : (c :: pre).length + f = (pre.length + f) + 1 := by simp; omega
    rw [e, List.cons_append, go_step_ne u _ prev i c _ hc, ih (some c) (i + 1) hr]
    have l : lastOpt (some c) pre = lastOpt prev (c :: pre) := by
      unfold lastOpt
      cases pre with
      | nil => simp
      | cons a b =>
        simp only [List.getLast?_cons_cons]
        have : (a :: b).getLast? = some ((a :: b).getLast (by simp)) := List.getLast?_eq_some_getLast (by simp)
        rw [this]
    rw [l]
    congr 1
    simp; omega

theorem go_hit (u : Uni) (f : Nat) (prev : Option Nat) (i d1 d2 : Nat) (r2 : Str) (hp : prev ≠ some 80)
    (h1 : (u.digitVal d1).isSome = true) (h2 : (u.digitVal d2).isSome = true) :
    hourTimeMatches.go u (f + 1) prev i (84 :: d1 :: d2 :: r2) = (i, i + 3) :: hourTimeMatches.go u f (some d2) (i + 3) r2 := by
  simp [hourTimeMatches.go, hp, h1, h2]

theorem matches_one (u : Uni) (pre post : Str) (d1 d2 : Nat) (hpre : 84 ∉ pre) (hpost : 84 ∉ post)
    (hl : lastOpt none pre ≠ some 80) (h1 : (u.digitVal d1).isSome = true) (h2 : (u.digitVal d2).isSome = true) :
    hourTimeMatches u (pre ++ 84 :: d1 :: d2 :: post) = [(pre.length, pre.length + 3)] := by
  unfold hourTimeMatches
  have e : (pre ++ 84 :: d1 :: d2 :: post).length + 1 = pre.length + ((post.length + 3) + 1) := by simp; omega
  rw [e, go_skip u _ _ pre none 0 hpre, go_hit u _ _ _ d1 d2 post hl h1 h2, go_no84 u _ _ _ post hpost]
  simp

theorem matches_none (u : Uni) (s : Str) (h : 84 ∉ s) : hourTimeMatches u s = [] := by
  unfold hourTimeMatches; exact go_no84 u _ _ _ s h

theorem allStrToPm_one (u : Uni) (pre post : Str) (d1 d2 : Nat) (q : Str) (hpre : 84 ∉ pre) (hpost : 84 ∉ post)
    (hl : lastOpt none pre ≠ some 80) (h1 : (u.digitVal d1).isSome = true) (h2 : (u.digitVal d2).isSome = true)
    (hq : toPm u [84, d1, d2] = some q) :
    allStrToPm u (pre ++ 84 :: d1 :: d2 :: post) = some (pre ++ q ++ post) := by
  have mid : hourTimeMatches u [84, d1, d2] = [(0, 3)] := by
    have := matches_one u [] [] d1 d2 (by simp) (by simp) (by simp [lastOpt]) h1 h2
    simpa using this
  unfold allStrToPm
  rw [matches_one u pre post d1 d2 hpre hpost hl h1 h2]
  have t1 : slice (pre ++ 84 :: d1 :: d2 :: post) 0 pre.length = pre := by simp [slice]
  have t2 : slice (pre ++ 84 :: d1 :: d2 :: post) pre.length (pre.length + 3) = [84, d1, d2] := by simp [slice]
  have t3 : (pre ++ 84 :: d1 :: d2 :: post).drop (pre.length + 3) = post := by
    rw [List.drop_append]; simp
  have t4 : ((pre ++ 84 :: d1 :: d2 :: post).take (pre.length + 3)).isEmpty = false := by
    rw [List.take_append]; simp
  simp only [pmPieces, t1, t2, t3, t4]
  cases pre with
  | nil => simp [mid, hq, matches_none u post hpost]
  | cons a b =>
    have : 84 ∉ a :: b := hpre
    simp [mid, hq, matches_none u post hpost, matches_none u (a :: b) this]


theorem tail_le (c : Clock) (wf60 : c.m < 60 ∧ c.s < 60) : ∀ x ∈ c.tail, x ≤ 58 := by
  intro x hx
  have hm : ∀ p, c.ms = some p → p.2 = c.m := by intro p e; simp [Clock.m, e]
  have hs : ∀ p, c.ss = some p → p.2 = c.s := by intro p e; simp [Clock.s, e]
  simp only [Clock.tail] at hx
  cases em : c.ms with
  | none =>
    cases es : c.ss with
    | none => simp [em, es] at hx
    | some q =>
      have := hs q es
      simp [em, es, sColon, fmtD2 q.2 (by omega)] at hx; omega
  | some p =>
    have := hm p em
    cases es : c.ss with
    | none => simp [em, es, sColon, fmtD2 p.2 (by omega)] at hx; omega
    | some q =>
      have := hs q es
      simp [em, es, sColon, fmtD2 p.2 (by omega), fmtD2 q.2 (by omega)] at hx; omega

theorem ymd_explicit (y mo d : Nat) (h1 : 1000 ≤ y) (h2 : y < 10000) (hm : mo < 100) (hd : d < 100) :
    ymd y mo d = [48 + y / 1000, 48 + y / 100 % 10, 48 + y / 10 % 10, 48 + y % 10, 45, 48 + mo / 10, 48 + mo % 10, 45,
      48 + d / 10, 48 + d % 10] := by
  simp [ymd, fmtD4 y h1 h2, fmtD2 mo hm, fmtD2 d hd, sDash]

theorem hms_explicit (hh m s : Nat) (h : hh < 100) (hm : m < 100) (hs : s < 100) :
    hms hh m s = [48 + hh / 10, 48 + hh % 10, 58, 48 + m / 10, 48 + m % 10, 58, 48 + s / 10, 48 + s % 10] := by
  simp [hms, fmtD2 hh h, fmtD2 m hm, fmtD2 s hs, sColon]

/-- a datetime slot commented `ampm` resolves to the AM reading and the one `to_pm` / `all_str_to_pm` derive -/
theorem dtRes_datetime_ampm (u : Uni) (ha : u.Ascii) (c : Clock) (w60 : c.m < 60 ∧ c.s < 60) (y mo d hh : Nat)
    (h1 : 1000 ≤ y) (h2 : y < 10000) (hmo : mo < 100) (hd : d < 100) (h : hh < 100) (h12 : hh ≤ 12) :
    dateTimeResolution u (toSlot .datetime (Res.mk true (ymd y mo d ++ c.timex hh) sAmPm
        ⟨y, mo, d, hh, c.m, c.s⟩ ⟨y, mo, d, hh, c.m, c.s⟩)) =
      .ok (some [{ timex := ymd y mo d ++ c.timex hh, type := sDateTime, value := some (ymd y mo d ++ 32 :: hms hh c.m c.s) },
                 { timex := ymd y mo d ++ c.timex (pmHour hh), type := sDateTime,
                   value := some (ymd y mo d ++ 32 :: hms (pmHour hh) c.m c.s) }]) := by
  have ye := ymd_explicit y mo d h1 h2 hmo hd
  have he := hms_explicit hh c.m c.s h (by omega) (by omega)
  have y32 : 32 ∉ ymd y mo d := by rw [ye]; simp; omega
  have h32 : 32 ∉ hms hh c.m c.s := by rw [he]; simp; omega
  have y84 : 84 ∉ ymd y mo d := by rw [ye]; simp; omega
  have t84 : 84 ∉ c.tail := by intro hx; have := tail_le c w60 84 hx; omega
  have yl : lastOpt none (ymd y mo d) ≠ some 80 := by rw [ye]; simp [lastOpt]; omega
  have p1 := toPm_hh u ha hh h (Or.inr h12) true [] (Or.inl rfl)
  have p2 := toPm_hh u ha hh h (Or.inr h12) false (sColon ++ fmtD 2 (c.m : Int) ++ sColon ++ fmtD 2 (c.s : Int)) (Or.inr ⟨_, rfl⟩)
  simp only [if_true, Bool.false_eq_true, if_false, List.nil_append, List.singleton_append, List.cons_append,
    List.append_nil] at p1 p2
  have e : hms hh c.m c.s = fmtD 2 (hh : Int) ++ (sColon ++ fmtD 2 (c.m : Int) ++ sColon ++ fmtD 2 (c.s : Int)) := by
    simp [hms]
  have e' : hms (pmHour hh) c.m c.s =
      fmtD 2 (pmHour hh : Int) ++ (sColon ++ fmtD 2 (c.m : Int) ++ sColon ++ fmtD 2 (c.s : Int)) := by simp [hms]
  rw [← e] at p2
  rw [← e'] at p2
  have f2 := fmtD2 hh h
  rw [f2] at p1
  have da := ha.digit (hh / 10) (by omega)
  have db := ha.digit (hh % 10) (by omega)
  have all := allStrToPm_one u (ymd y mo d) c.tail (48 + hh / 10) (48 + hh % 10) _ y84 t84 yl (by simp [da]) (by simp [db]) p1
  have tx : ymd y mo d ++ c.timex hh = ymd y mo d ++ 84 :: (48 + hh / 10) :: (48 + hh % 10) :: c.tail := by
    simp [Clock.timex, f2]
  have sp : splitOn 32 (ymd y mo d ++ 32 :: hms hh c.m c.s) = [ymd y mo d, hms hh c.m c.s] := by
    rw [splitOn_append 32 _ _ y32, splitOn_nosep 32 _ h32]
  have ne : (ymd y mo d ++ c.timex hh).isEmpty = false := by rw [ye]; simp
  simp only [dateTimeResolution, toSlot, fmtFor, formatDateTime_eq, gen_datetime y mo d hh c.m c.s h1 h2, sDateTime,
    if_true, List.isEmpty_cons, Bool.false_eq_true, if_false, ne, resolvePm, sp, p2, tx, all, bind, Except.bind, pure,
    Except.pure, List.mapM_cons, List.mapM_nil]
  simp [Clock.timex, tx]


/-- the value entry of `<date> at <time>`: TIMEX = date TIMEX ++ time TIMEX, value `YYYY-MM-DD hh:mm:ss` -/
def Clock.dtValue (c : Clock) (y mo d hh : Nat) : Value :=
  { timex := ymd y mo d ++ c.timex hh, type := sDateTime, value := some (ymd y mo d ++ 32 :: hms hh c.m c.s) }

theorem resolveDateAtTime_clock (u : Uni) (ha : u.Ascii) (dcfg : DateCfg) (hmax : dcfg.maxTwoDigitYearFuture ≤ 100)
    (dg : DateGroups) (y mo d : Nat) (hdec : Decodes u dcfg dg y mo d) (hy : 1000 ≤ y ∧ y ≤ 9999)
    (hvd : (⟨y, mo, d⟩ : Date).valid = true) (wy : Int) (tcfg : TimeCfg) (c : Clock) (wf : c.WF u) (amD pmD : Bool)
    (hz : tcfg.zeroHourIsNone = false ∨ 0 < c.h) (ref : DT) (hv : ref.date.valid = true) :
    resolveDateAtTime u dcfg dg wy tcfg (c.groups amD pmD) false false ref =
      .ok (some (if 0 < adjHour c.h amD pmD ∧ adjHour c.h amD pmD ≤ 12 ∧ amD = false ∧ pmD = false
                 then [c.dtValue y mo d (adjHour c.h amD pmD), c.dtValue y mo d (pmHour (adjHour c.h amD pmD))]
                 else [c.dtValue y mo d (adjHour c.h amD pmD)])) := by
  have a24 := adjHour_lt c.h amD pmD wf.h24
  have w60 := wf_m60 u c wf
  have hp : pivotYear dcfg y = y := pivot_four dcfg y (by omega) hmax
  have vm := (valid_iff ⟨y, mo, d⟩).1 hvd
  have dim : daysInMonth y mo ≤ 31 := by unfold daysInMonth; split <;> (try split) <;> omega
  simp only at vm
  simp only [resolveDateAtTime, matchToDate_of u dcfg dg y mo d y wy ref hdec hp (by omega), safeCreate_valid y mo d hvd,
    matchToTime_clock u tcfg c amD pmD ref wf hz hv, bind, Except.bind, Option.getD_some]
  rw [merge_clock c w60 _ a24 _ _ y mo d hvd _ ⟨rfl, rfl, rfl⟩]
  simp only []
  split
  · rename_i hc
    obtain ⟨_, h12, rfl, rfl⟩ := hc
    have cnd : (adjHour c.h false false ≤ 12 ∧ sAmPm ≠ []) := ⟨h12, sAmPm_ne_nil⟩
    simp only [cnd, and_self, if_true]
    exact dtRes_datetime_ampm u ha c w60 y mo d _ (by omega) (by omega) (by omega) (by omega) (by omega) h12
  · simp only [ne_eq, not_true_eq_false, and_false, if_false]
    exact dtRes_datetime_plain u _ y mo d _ c.m c.s (by omega) (by omega)


/-! ### am / pm designators that arrive through the `suffix` group (`adjust_by_suffix`) -/

/-- the groups of a digit clock time followed by a designator phrase captured by the `suffix` group -/
def Clock.groupsSfx (c : Clock) (sfx : Str) : TimeGroups :=
  { hour := c.hs, min := (c.ms.map (·.1)).getD [], sec := (c.ss.map (·.1)).getD [], sfx := sfx }

theorem decode_clock_sfx (u : Uni) (cfg : TimeCfg) (c : Clock) (sfx : Str) (wf : c.WF u)
    (hz : cfg.zeroHourIsNone = false ∨ 0 < c.h) :
    decodeFields u cfg (c.groupsSfx sfx) =
      .ok (some { hour := c.h, minute := c.m, second := c.s, hasMinute := c.ms.isSome, hasSeconds := c.ss.isSome }) := by
  have := decode_clock u cfg c false false wf hz
  simpa [decodeFields, Clock.groups, Clock.groupsSfx] using this

/-- a plain am / pm designator: the suffix regex matches the whole suffix, it is not `o'clock`, and neither the lunch
nor the night rule applies -/
structure PlainDesignator (si : SuffixInfo) (pm : Bool) : Prop where
  full : si.full = true
  noOclock : si.oclock = []
  am : si.am.isEmpty = pm
  pmg : si.pm.isEmpty = !pm
  noLunch : si.lunch = false
  noNight : si.night = false

theorem adjustBySuffix_plain (st : SuffixStyle) (si : SuffixInfo) (pm : Bool) (hd : PlainDesignator si pm)
    (hst : st.simple = true ∨ st.elsePm = true ∨ pm = false) (h : Nat) (h1 : 1 ≤ h) (h12 : h ≤ 12) (m : Int) (hM : Bool) :
    ∃ hasAm, adjustBySuffixG st si { hour := h, minute := m, hasMinute := hM } =
      { hour := ((h % 12 + if pm then 12 else 0 : Nat) : Int), minute := m, hasMinute := hM, hasAm := hasAm, hasPm := pm } ∧
      (hasAm = true ∨ pm = true ∨ h = 12) := by
  obtain ⟨f, o, a, p, l, n⟩ := hd
  cases pm
  · -- am
    simp only [Bool.not_false] at p
    skip
    by_cases h12' : h = 12
    · subst h12'
      refine ⟨st.simple, ?_, Or.inr (Or.inr rfl)⟩
      cases hs : st.simple <;> simp [adjustBySuffixG, f, o, a, p, l, n, hs]
    · refine ⟨true, ?_, Or.inl rfl⟩
      have e : h % 12 = h := by omega
      have lt : ¬ ((h : Int) ≥ 12) := by omega
      have lt' : ¬ (12 ≤ h) := by omega
      cases hs : st.simple <;> simp [adjustBySuffixG, f, o, a, p, l, n, hs, lt, lt', e] <;> omega
  · -- pm
    simp only [Bool.not_true] at p
    skip
    refine ⟨false, ?_, Or.inr (Or.inl rfl)⟩
    have hs' : st.simple = true ∨ st.elsePm = true := by
      rcases hst with h | h | h
      · exact Or.inl h
      · exact Or.inr h
      · exact absurd h (by simp)
    by_cases h12' : h = 12
    · subst h12'
      cases hs : st.simple
      · have he : st.elsePm = true := by rcases hs' with h | h; (· simp [hs] at h); exact h
        simp [adjustBySuffixG, f, o, a, p, l, n, hs, he]
      · simp [adjustBySuffixG, f, o, a, p, l, n, hs]
    · have e : h % 12 = h := by omega
      have lt : ((h : Int) < 12) := by omega
      have lt' : (h < 12) := by omega
      cases hs : st.simple
      · have he : st.elsePm = true := by rcases hs' with h | h; (· simp [hs] at h); exact h
        simp [adjustBySuffixG, f, o, a, p, l, n, hs, he, lt, lt', e]
        omega
      · simp [adjustBySuffixG, f, o, a, p, l, n, hs, lt, lt', e]
        omega


theorem descAdjust_sfx (c : Clock) (sfx : Str) (x : Int) : descAdjust (c.groupsSfx sfx) x = (x, false, false) := by
  simp [descAdjust, Clock.groupsSfx]

/-- a digit clock time `h[:mm[:ss]]`, 1 ≤ h ≤ 12, followed by a plain am / pm designator phrase that the culture's
`adjust_by_suffix` handles: exactly one value, `h am ↦ h mod 12`, `h pm ↦ h mod 12 + 12` — provided the suffix style
sets `has_pm` for a plain pm designator (`simple`, or the closing `else` is there); am designators need no proviso. -/
theorem resolveTime_designator (u : Uni) (ha : u.Ascii) (cfg : TimeCfg) (st : SuffixStyle) (si : SuffixInfo) (pm : Bool)
    (hd : PlainDesignator si pm) (hst : st.simple = true ∨ st.elsePm = true ∨ pm = false)
    (hcfg : ∀ s a, cfg.adjustBySuffix s a = .ok (adjustBySuffixG st si a))
    (c : Clock) (wf : c.WF u) (h1 : 1 ≤ c.h) (h12 : c.h ≤ 12) (sfx : Str) (hsfx : blank u sfx = false)
    (ref : DT) (hv : ref.date.valid = true) :
    resolveTime u cfg (c.groupsSfx sfx) ref = .ok (some [c.value (c.h % 12 + if pm then 12 else 0)]) := by
  have w60 := wf_m60 u c wf
  obtain ⟨hasAm, hadj, hflag⟩ := adjustBySuffix_plain st si pm hd hst c.h h1 h12 c.m c.ms.isSome
  have pf : blank u (c.groupsSfx sfx).pfx = true := blank_nil u
  have sf : blank u (c.groupsSfx sfx).sfx = false := hsfx
  have hh24 : c.h % 12 + (if pm then 12 else 0) < 24 := by split <;> omega
  simp only [resolveTime, matchToTime, decode_clock_sfx u cfg c sfx wf (Or.inr (by omega)), descAdjust_sfx, pf, sf, bind,
    Except.bind, pure, Except.pure, Bool.not_true, Bool.not_false, Bool.false_eq_true, if_false, if_true, hcfg, hadj]
  rw [assembleTime_ok ref hv _ _ _ _ _ _ _ hh24 w60.1 w60.2]
  have nc : ¬ (0 < c.h % 12 + (if pm then 12 else 0) ∧ c.h % 12 + (if pm then 12 else 0) ≤ 12 ∧ pm = false ∧ hasAm = false) := by
    rintro ⟨a, b, rfl, rfl⟩
    rcases hflag with h | h | h
    · exact absurd h (by simp)
    · exact absurd h (by simp)
    · simp [h] at a
  simp only [nc, if_false]
  have := dtRes_time_plain u (c.timex (c.h % 12 + (if pm then 12 else 0))) ref.y ref.m ref.d
    (c.h % 12 + (if pm then 12 else 0)) c.m c.s (by omega)
  have et : (84 :: fmtD 2 ((c.h % 12 + (if pm then 12 else 0) : Nat) : Int)) ++ (if c.ms.isSome then sColon ++ fmtD 2 (c.m : Int) else []) ++
      (if c.ss.isSome then sColon ++ fmtD 2 (c.s : Int) else []) = c.timex (c.h % 12 + (if pm then 12 else 0)) := by
    simp only [Clock.timex, Clock.tail, Clock.m, Clock.s]
    cases c.ms <;> cases c.ss <;> simp
  rw [et]
  simpa [Clock.value] using this



/-! ### `ChineseTimeParser` -/

/-- a digit string whose first character is a decimal digit (what `regex.match(r'\d+', s)` tests) -/
def DigitStart (u : Uni) (s : Str) : Prop := ∃ c r, s = c :: r ∧ (u.digitVal c).isSome = true

theorem zhMatchToValue_num (u : Uni) (cfg : ZhCfg) (s : Str) (n : Nat) (h : IsNum u s n) (hd : DigitStart u s) :
    zhMatchToValue u cfg s = .ok (n : Int) := by
  obtain ⟨c, r, rfl, hc⟩ := hd
  simp [zhMatchToValue, h.nonblank, hc, intOf, h.int]

theorem zhMatchToValue_nil (u : Uni) (cfg : ZhCfg) : zhMatchToValue u cfg [] = .ok (-1) := by
  simp [zhMatchToValue, blank_nil]

/-- the `named_entity` values of a Chinese digit clock time `H:MM[:SS]` -/
def Clock.zhGroups (c : Clock) : ZhGroups :=
  { hour := c.hs, min := (c.ms.map (·.1)).getD [], sec := (c.ss.map (·.1)).getD [] }

structure Clock.ZhWF (u : Uni) (c : Clock) : Prop where
  wf : c.WF u
  hasMin : c.ms.isSome = true
  hourD : DigitStart u c.hs
  minD : ∀ p, c.ms = some p → DigitStart u p.1
  secD : ∀ p, c.ss = some p → DigitStart u p.1

theorem zhHandle_digit (u : Uni) (cfg : ZhCfg) (c : Clock) (w : c.ZhWF u) :
    zhHandle u cfg false c.zhGroups = .ok ((c.h : Int), (c.m : Int), (if c.ss.isSome then (c.s : Int) else -1)) := by
  obtain ⟨hs, h, ms, ss⟩ := c
  have hh := zhMatchToValue_num u cfg hs h w.wf.hour w.hourD
  cases ms with
  | none => have := w.hasMin; simp at this
  | some p =>
    have hp := zhMatchToValue_num u cfg p.1 p.2 (w.wf.minute p rfl).1 (w.minD p rfl)
    cases ss with
    | none =>
      simp [zhHandle, Clock.zhGroups, hh, hp, zhMatchToValue_nil, bind, Except.bind, pure, Except.pure, Clock.m, Clock.s]
    | some q =>
      have hq := zhMatchToValue_num u cfg q.1 q.2 (w.wf.second q rfl).1 (w.secD q rfl)
      simp [zhHandle, Clock.zhGroups, hh, hp, hq, bind, Except.bind, pure, Except.pure, Clock.m, Clock.s]

theorem zhPack_digit (u : Uni) (cfg : ZhCfg) (hfix : cfg.ampmAnyHour = false) (c : Clock) (w : c.ZhWF u) (ref : DT)
    (hv : ref.date.valid = true) :
    zhPackTime u cfg c.zhGroups ((c.h : Int), (c.m : Int), (if c.ss.isSome then (c.s : Int) else -1)) ref =
      .ok { success := true, timex := c.timex c.h, comment := if 0 < c.h ∧ c.h ≤ 12 then sAmPm else [],
            future := ⟨ref.y, ref.m, ref.d, c.h, c.m, c.s⟩, past := ⟨ref.y, ref.m, ref.d, c.h, c.m, c.s⟩ } := by
  have w60 := wf_m60 u c w.wf
  have h24 := w.wf.h24
  have vr := (valid_iff ref.date).1 hv
  simp only [DT.date] at vr
  have mk := mkDateTime_ok ref hv c.h c.m c.s h24 w60.1 w60.2
  have mk0 := mkDateTime_ok ref hv c.h c.m 0 h24 w60.1 (by omega)
  have vd : isValidDate ref.y ref.m ref.d = true := by
    have := mkDateTime_ok ref hv 0 0 0 (by omega) (by omega) (by omega)
    simp only [Int.natCast_zero, Int.ofNat_zero] at this
    simp [isValidDate, this]
  have n24 : ¬ ((c.h : Int) = 24) := by omega
  obtain ⟨p, hp⟩ := Option.isSome_iff_exists.1 w.hasMin
  have hpm : p.2 = c.m := by simp [Clock.m, hp]
  have ft : (if 0 < c.m then (c.m : Int) else 0) = (c.m : Int) := by split <;> omega
  have fh : (if 0 < c.h then (c.h : Int) else 0) = (c.h : Int) := by split <;> omega
  have fs : (if 0 < c.s then (c.s : Int) else 0) = (c.s : Int) := by split <;> omega
  have tv : isValidTime (c.h : Int) (c.m : Int) (c.s : Int) = true := by simp [isValidTime]; omega
  have tv0 : isValidTime (c.h : Int) (c.m : Int) 0 = true := by simp [isValidTime]; omega
  have cm : ((0 < c.h ∧ (c.h : Int) ≤ 12) ↔ (0 < c.h ∧ c.h ≤ 12)) := by omega
  cases hs : c.ss with
  | none =>
    have s0 : c.s = 0 := by simp [Clock.s, hs]
    simp only [Int.natCast_zero, Int.ofNat_zero] at mk0
    simp [zhPackTime, Clock.zhGroups, blank_nil, hfix, hs, hp, s0, n24, ft, fh, safeCreateFromMinValue, safeCreateFromValue,
      vd, tv0, mk0, Clock.timex, Clock.tail, hpm, cm]
  | some q =>
    have hqs : q.2 = c.s := by simp [Clock.s, hs]
    have hs0 : ¬ ((c.s : Int) < 0) := by omega
    simp [zhPackTime, Clock.zhGroups, blank_nil, hfix, hs, hp, n24, ft, fh, fs, safeCreateFromMinValue, safeCreateFromValue,
      vd, tv, mk, Clock.timex, Clock.tail, hpm, hqs, cm]

/-- Chinese digit clock time end to end (guarded variant) -/
theorem resolveTimeZh_digit (u : Uni) (ha : u.Ascii) (cfg : ZhCfg) (hfix : cfg.ampmAnyHour = false) (c : Clock)
    (w : c.ZhWF u) (ref : DT) (hv : ref.date.valid = true) :
    resolveTimeZh u cfg false c.zhGroups ref =
      .ok (some (if 1 ≤ c.h ∧ c.h ≤ 12 then [c.value c.h, c.value (pmHour c.h)] else [c.value c.h])) := by
  have h24 := w.wf.h24
  simp only [resolveTimeZh, zhHandle_digit u cfg c w, zhPack_digit u cfg hfix c w ref hv, bind, Except.bind]
  split
  · rename_i hc
    have hc' : 1 ≤ c.h ∧ c.h ≤ 12 := by omega
    simp only [hc', and_self, if_true]
    have := dtRes_time_ampm u ha c.tail ref.y ref.m ref.d c.h c.m c.s (by omega) hc'.2 (tail_shape c)
    simpa [Clock.timex, Clock.value] using this
  · rename_i hc
    have hc' : ¬ (1 ≤ c.h ∧ c.h ≤ 12) := by omega
    simp only [hc', if_false]
    have := dtRes_time_plain u (c.timex c.h) ref.y ref.m ref.d c.h c.m c.s (by omega)
    simpa [Clock.value] using this



/-! ### `ChineseDateParser.match_to_date` -/

/-- What the groups of a Chinese date layout must decode to: the `month` / `day` groups are keys of the tables whose
values (reduced modulo 12 / 31 by `get_month_of_year` / `get_day_of_month`) are `mo` / `d`; the year is either the
digit group `year` read as `y`, or — when that group is blank — the 汉字 year `convert_chinese_year_to_number`
returned (`chsYear = y`). -/
structure DecodesZh (u : Uni) (cfg : DateCfg) (g : DateGroups) (chsYear : Int) (y mo d : Nat) : Prop where
  month : ∃ mv, lookup cfg.monthOfYear g.month = some mv ∧ zhReduce 12 mv = mo
  day : ∃ dv, lookup cfg.dayOfMonth g.day = some dv ∧ zhReduce 31 dv = d
  year : IsNum u g.year y ∨ (blank u g.year = true ∧ chsYear = (y : Int))

theorem decodeDateZh_of (u : Uni) (cfg : DateCfg) (g : DateGroups) (chsYear : Int) (y mo d : Nat)
    (h : DecodesZh u cfg g chsYear y mo d) (hy : 100 ≤ y) :
    decodeDateZh u cfg g chsYear = .ok ((mo : Int), (d : Int), (y : Int)) := by
  obtain ⟨mv, hm, rfl⟩ := h.month
  obtain ⟨dv, hd, rfl⟩ := h.day
  rcases h.year with hn | ⟨hb, hc⟩
  · have a : ¬ ((y : Int) < 100) := by omega
    simp [decodeDateZh, hm, hd, hn.nonblank, hn.numeric, hn.int, a]
  · have a : ¬ (chsYear = -1) := by omega
    simp [decodeDateZh, hm, hd, hb, a, hc]

theorem matchToDateZh_of (u : Uni) (cfg : DateCfg) (g : DateGroups) (chsYear : Int) (y mo d : Nat) (ref : DT)
    (h : DecodesZh u cfg g chsYear y mo d) (hy : 100 ≤ y) :
    matchToDateZh u cfg g chsYear ref =
      .ok { success := true, timex := ymd y mo d,
            future := (safeCreateFromMinValue y mo d).getD minValue,
            past := (safeCreateFromMinValue y mo d).getD minValue } := by
  have n0 : ¬ ((y : Int) = 0) := by omega
  have n0' : y ≠ 0 := by omega
  simp [n0', matchToDateZh, decodeDateZh_of u cfg g chsYear y mo d h hy, bind, Except.bind, pure, Except.pure, n0,
    luisDate_eq y mo d (by omega), generateDates]

theorem resolveDateZh_valid (u : Uni) (cfg : DateCfg) (g : DateGroups) (chsYear : Int) (y mo d : Nat) (ref : DT)
    (h : DecodesZh u cfg g chsYear y mo d) (h1 : 1000 ≤ y) (h2 : y < 10000) (hv : (⟨y, mo, d⟩ : Date).valid = true) :
    resolveDateZh u cfg g chsYear ref = .ok (some [{ timex := ymd y mo d, type := sDate, value := some (ymd y mo d) }]) := by
  simp only [resolveDateZh, matchToDateZh_of u cfg g chsYear y mo d ref h (by omega), safeCreate_valid y mo d hv, bind,
    Except.bind, Option.getD_some]
  exact dtRes_date u y mo d h1 h2



/-! ### `merge_date_and_time` with the morning / afternoon / night words -/

/-- the hour after the "morning / afternoon / night word in the text" step of `merge_date_and_time` -/
def mergeHour (shift pmT amT : Bool) (hh : Nat) : Nat :=
  if shift && pmT && hh < 12 then hh + 12 else if shift && amT && hh ≥ 12 then hh - 12 else hh

theorem mergeHour_lt (shift pmT amT : Bool) (hh : Nat) (h : hh < 24) : mergeHour shift pmT amT hh < 24 := by
  unfold mergeHour
  split
  · rename_i c; simp at c; omega
  · split <;> omega

/-- `merge_date_and_time` of a resolved date and a decoded clock time, for any outcome of the PM / AM word regexes and
either variant of the word shift -/
theorem merge_clock_words (c : Clock) (w60 : c.m < 60 ∧ c.s < 60) (hh : Nat) (h24 : hh < 24) (dtx cm : Str) (y mo d : Nat)
    (hv : (⟨y, mo, d⟩ : Date).valid = true) (tv : DT) (htv : tv.hh = hh ∧ tv.mi = c.m ∧ tv.ss = c.s)
    (pmT amT only : Bool) :
    mergeDateAndTime (toSlot .date (Res.mk true dtx [] ⟨y, mo, d, 0, 0, 0⟩ ⟨y, mo, d, 0, 0, 0⟩))
        (toSlot .time (Res.mk true (c.timex hh) cm tv tv)) pmT amT only =
      .ok (Res.mk true (dtx ++ c.timex (mergeHour (!only || cm == sAmPm) pmT amT hh))
        (if mergeHour (!only || cm == sAmPm) pmT amT hh ≤ 12 ∧ (pmT && amT) = false ∧ cm ≠ [] then sAmPm else [])
        ⟨y, mo, d, mergeHour (!only || cm == sAmPm) pmT amT hh, c.m, c.s⟩
        ⟨y, mo, d, mergeHour (!only || cm == sAmPm) pmT amT hh, c.m, c.s⟩) := by
  obtain ⟨e1, e2, e3⟩ := htv
  have hlt := mergeHour_lt (!only || cm == sAmPm) pmT amT hh h24
  have mk := mkDateTime_ok ⟨y, mo, d, 0, 0, 0⟩ (by simpa [DT.date] using hv) _ c.m c.s hlt w60.1 w60.2
  simp only at mk
  have e : ∀ k, 84 :: (fmtD 2 ((k : Nat) : Int) ++ c.tail) = c.timex k := fun _ => rfl
  have mh : (if ((!only || cm == sAmPm) && pmT && decide (hh < 12)) = true then hh + 12
      else if ((!only || cm == sAmPm) && amT && decide (hh ≥ 12)) = true then hh - 12 else hh) =
      mergeHour (!only || cm == sAmPm) pmT amT hh := by
    simp [mergeHour]
  simp only [mergeDateAndTime, toSlot, if_true, e1, e2, e3, timex_not_ampm c w60 hh (by omega), Bool.false_eq_true, if_false,
    timex_drop3 c hh (by omega), mh, mk, e]
  congr 2
  cases cm <;> cases pmT <;> cases amT <;> simp


/-- `match_to_time` on a digit clock time followed by a plain designator phrase (suffix group) -/
theorem matchToTime_designator (u : Uni) (cfg : TimeCfg) (st : SuffixStyle) (si : SuffixInfo) (pm : Bool)
    (hd : PlainDesignator si pm) (hst : st.simple = true ∨ st.elsePm = true ∨ pm = false)
    (hcfg : ∀ s a, cfg.adjustBySuffix s a = .ok (adjustBySuffixG st si a))
    (c : Clock) (wf : c.WF u) (h1 : 1 ≤ c.h) (h12 : c.h ≤ 12) (sfx : Str) (hsfx : blank u sfx = false)
    (ref : DT) (hv : ref.date.valid = true) :
    matchToTime u cfg (c.groupsSfx sfx) ref =
      .ok (Res.mk true (c.timex (c.h % 12 + if pm then 12 else 0)) []
        ⟨ref.y, ref.m, ref.d, c.h % 12 + (if pm then 12 else 0), c.m, c.s⟩
        ⟨ref.y, ref.m, ref.d, c.h % 12 + (if pm then 12 else 0), c.m, c.s⟩) := by
  have w60 := wf_m60 u c wf
  obtain ⟨hasAm, hadj, hflag⟩ := adjustBySuffix_plain st si pm hd hst c.h h1 h12 c.m c.ms.isSome
  have pf : blank u (c.groupsSfx sfx).pfx = true := blank_nil u
  have sf : blank u (c.groupsSfx sfx).sfx = false := hsfx
  have hh24 : c.h % 12 + (if pm then 12 else 0) < 24 := by split <;> omega
  simp only [matchToTime, decode_clock_sfx u cfg c sfx wf (Or.inr (by omega)), descAdjust_sfx, pf, sf, bind,
    Except.bind, pure, Except.pure, Bool.not_true, Bool.not_false, Bool.false_eq_true, if_false, if_true, hcfg, hadj]
  rw [assembleTime_ok ref hv _ _ _ _ _ _ _ hh24 w60.1 w60.2]
  have nc : ¬ (0 < c.h % 12 + (if pm then 12 else 0) ∧ c.h % 12 + (if pm then 12 else 0) ≤ 12 ∧ pm = false ∧ hasAm = false) := by
    rintro ⟨a, b, rfl, rfl⟩
    rcases hflag with h | h | h
    · exact absurd h (by simp)
    · exact absurd h (by simp)
    · simp [h] at a
  simp only [nc, if_false]
  have et : (84 :: fmtD 2 ((c.h % 12 + (if pm then 12 else 0) : Nat) : Int)) ++ (if c.ms.isSome then sColon ++ fmtD 2 (c.m : Int) else []) ++
      (if c.ss.isSome then sColon ++ fmtD 2 (c.s : Int) else []) = c.timex (c.h % 12 + (if pm then 12 else 0)) := by
    simp only [Clock.timex, Clock.tail, Clock.m, Clock.s]
    cases c.ms <;> cases c.ss <;> simp
  rw [et]

/-- `<date> at <h[:mm[:ss]]> <designator phrase>`: the composed datetime, for any outcome of the PM / AM word regexes of
`merge_date_and_time` and either variant of the word shift. The hour is `mergeHour (!only) …` of the designated hour. -/
theorem resolveDateAtTime_designator (u : Uni) (dcfg : DateCfg) (hmax : dcfg.maxTwoDigitYearFuture ≤ 100)
    (dg : DateGroups) (y mo d : Nat) (hdec : Decodes u dcfg dg y mo d) (hy : 1000 ≤ y ∧ y ≤ 9999)
    (hvd : (⟨y, mo, d⟩ : Date).valid = true) (wy : Int) (tcfg : TimeCfg) (st : SuffixStyle) (si : SuffixInfo) (pm : Bool)
    (hd : PlainDesignator si pm) (hst : st.simple = true ∨ st.elsePm = true ∨ pm = false)
    (hcfg : ∀ s a, tcfg.adjustBySuffix s a = .ok (adjustBySuffixG st si a))
    (c : Clock) (wf : c.WF u) (h1 : 1 ≤ c.h) (h12 : c.h ≤ 12) (sfx : Str) (hsfx : blank u sfx = false)
    (pmT amT only : Bool) (ref : DT) (hv : ref.date.valid = true) :
    resolveDateAtTime u dcfg dg wy tcfg (c.groupsSfx sfx) pmT amT ref only =
      .ok (some [c.dtValue y mo d (mergeHour (!only) pmT amT (c.h % 12 + if pm then 12 else 0))]) := by
  have w60 := wf_m60 u c wf
  have hh24 : c.h % 12 + (if pm then 12 else 0) < 24 := by split <;> omega
  have hp : pivotYear dcfg y = y := pivot_four dcfg y (by omega) hmax
  have ne : (([] : Str) == sAmPm) = false := by decide
  simp only [resolveDateAtTime, matchToDate_of u dcfg dg y mo d y wy ref hdec hp (by omega), safeCreate_valid y mo d hvd,
    matchToTime_designator u tcfg st si pm hd hst hcfg c wf h1 h12 sfx hsfx ref hv, bind, Except.bind, Option.getD_some]
  rw [merge_clock_words c w60 _ hh24 _ _ y mo d hvd _ ⟨rfl, rfl, rfl⟩ pmT amT only]
  simp only [ne, Bool.or_false, ne_eq, not_true_eq_false, and_false, if_false]
  exact dtRes_datetime_plain u _ y mo d _ c.m c.s (by omega) (by omega)



/-! ### `parse_time_of_today` -/

theorem addDays_zero (x : Date) (hv : x.valid = true) : x.addDays 0 = some x := by
  have r := ord_range x hv
  simp [Date.addDays, addDaysOrd, ofOrd_ord x hv]
  omega

/-- `parse_time_of_today` when the time part went through the time parser and the day word carries no `next` / `last`:
the date is the reference date, the hour is `get_hour(word, hour)`. -/
theorem parseTimeOfToday_parsed (u : Uni) (cfg : TodCfg) (c : Clock) (w60 : c.m < 60 ∧ c.s < 60) (hh : Nat) (hh24 : hh < 24) (cm : Str)
    (tv : DT) (htv : tv.hh = hh ∧ tv.mi = c.m ∧ tv.ss = c.s) (ms : Str) (hsw : cfg.getSwiftDay ms = 0)
    (h' : Nat) (hget : cfg.getHour ms hh = h') (h24 : h' < 24) (ref : DT) (hv : ref.date.valid = true) :
    parseTimeOfToday u cfg (.parsed (toSlot .time (Res.mk true (c.timex hh) cm tv tv))) (some ms) ref =
      .ok (Res.mk true (ymd ref.y ref.m ref.d ++ c.timex h') [] ⟨ref.y, ref.m, ref.d, h', c.m, c.s⟩
        ⟨ref.y, ref.m, ref.d, h', c.m, c.s⟩) := by
  obtain ⟨e1, e2, e3⟩ := htv
  have mk := mkDateTime_ok ref hv h' c.m c.s h24 w60.1 w60.2
  have ad := addDays_zero ref.date hv
  have hlt : hh < 100 ∨ True := Or.inr trivial
  have e : 84 :: (fmtD 2 (h' : Int) ++ c.tail) = c.timex h' := rfl
  simp only [DT.date] at ad
  simp [parseTimeOfToday, toSlot, e1, e2, e3, hsw, hget, DT.date, ad, timex_not_ampm c w60 hh (by omega),
    timex_drop3 c hh (by omega), mk, e, formatDate_eq, pure, Except.pure, bind, Except.bind]


theorem enGetSwiftDay_plain (u : Uni) (ms : Str) (hn : startsWith (strip u.isSpace ms) [110, 101, 120, 116] = false)
    (hl : startsWith (strip u.isSpace ms) [108, 97, 115, 116] = false) : enGetSwiftDay u ms = 0 := by
  simp [enGetSwiftDay, hn, hl]

/-- `get_hour` for a day word that is not a `morning` (tonight, this afternoon, this evening): hours 6–11 become pm,
hours ≥ 12 stay; for a `night` word hours below 6 stay am -/
theorem enGetHour_pmWord (u : Uni) (ms : Str) (hm : endsWith (strip u.isSpace ms) [109, 111, 114, 110, 105, 110, 103] = false)
    (h : Nat) (h6 : 6 ≤ h) (h24 : h < 24) : enGetHour u ms (h : Int) = ((if h < 12 then h + 12 else h : Nat) : Int) := by
  have a : ¬ ((h : Int) < 6) := by omega
  simp only [enGetHour, hm, Bool.false_and, Bool.false_eq_true, if_false, Bool.not_false, Bool.true_and]
  by_cases hl : h < 12
  · have : (h : Int) < 12 := by omega
    simp [hl, this, a]
  · have : ¬ ((h : Int) < 12) := by omega
    simp [hl, this]

theorem enGetHour_morning (u : Uni) (ms : Str) (hm : endsWith (strip u.isSpace ms) [109, 111, 114, 110, 105, 110, 103] = true)
    (h : Nat) (h12 : h < 12) : enGetHour u ms (h : Int) = (h : Int) := by
  have : ¬ ((h : Int) ≥ 12) := by omega
  simp [enGetHour, hm, this]



/-! ### time ranges -/

/-- `to_pm('hh:…')` in the variant that wraps modulo 24 -/
theorem toPm_hh_w (u : Uni) (ha : u.Ascii) (hw : u.pmWraps = true) (h : Nat) (hh : h < 24) (rest : Str) :
    toPm u (fmtD 2 (h : Int) ++ 58 :: rest) = some (fmtD 2 (((h + 12) % 24 : Nat) : Int) ++ 58 :: rest) := by
  have n58 := d2_no58 h (by omega)
  have hint := (d2_isNum u ha h (by omega)).int
  have e2 := fmtD2 h (by omega)
  have nT : startsWith (fmtD 2 (h : Int) ++ 58 :: rest) [84] = false := by
    rw [e2]; simp [startsWith]; omega
  have hp : (if h = 12 then 0 else if u.pmWraps = true then (h + 12) % 24 else h + 12) = (h + 12) % 24 := by
    simp only [hw, if_true]; split <;> omega
  simp [toPm, nT, splitOn_append 58 _ rest n58, hint, joinWith_cons_splitOn, hp, sColon]

/-- `format_time` of seconds-from-midnight, spelled out -/
theorem fmtSecs_eq (s : Nat) :
    fmtSecs s = fmtD 2 ((s / 3600 % 24 : Nat) : Int) ++ 58 :: (fmtD 2 ((s / 60 % 60 : Nat) : Int) ++ 58 :: fmtD 2 ((s % 60 : Nat) : Int)) := by
  simp [fmtSecs, formatTime, sColon]

/-- In the wrapping variant the PM reading of a start / end is the same clock time twelve hours later (modulo a day). -/
theorem toPm_fmtSecs (u : Uni) (ha : u.Ascii) (hw : u.pmWraps = true) (s : Nat) :
    toPm u (fmtSecs s) = some (fmtSecs (s + 43200)) := by
  rw [fmtSecs_eq, fmtSecs_eq, toPm_hh_w u ha hw _ (by omega)]
  have a : (s / 3600 % 24 + 12) % 24 = (s + 43200) / 3600 % 24 := by omega
  have b : s / 60 % 60 = (s + 43200) / 60 % 60 := by omega
  have c : s % 60 = (s + 43200) % 60 := by omega
  rw [a, b, c]

/-- the numbers `merge_two_time_points` prints in `PT…H…M` add up to the span -/
def spanHours (diff : Nat) : Nat := diff / 3600
def spanMinutes (diff : Nat) : Nat := diff / 60 % 60

theorem span_sound (diff : Nat) (h : diff % 60 = 0) : spanHours diff * 3600 + spanMinutes diff * 60 = diff := by
  unfold spanHours spanMinutes; omega

theorem spanText_whole (fl : Nat → Str) (secs : Bool) (diff : Nat) (h : diff % 60 = 0) :
    spanText fl secs diff = [80, 84] ++ (if spanHours diff > 0 then decStr (spanHours diff) ++ [72] else []) ++
      (if 0 < spanMinutes diff then decStr (spanMinutes diff) ++ [77] else []) := by
  cases secs <;> simp [spanText, h, spanHours, spanMinutes] <;> (split <;> simp_all)

/-- as found, a span with seconds prints the interpreter's float minutes -/
theorem spanText_float (fl : Nat → Str) (diff : Nat) (h : diff % 60 ≠ 0) :
    spanText fl false diff = [80, 84] ++ (if spanHours diff > 0 then decStr (spanHours diff) ++ [72] else []) ++ (fl diff ++ [77]) := by
  simp [spanText, h, spanHours]

def spanSeconds (diff : Nat) : Nat := diff % 60

theorem span_sound3 (diff : Nat) : spanHours diff * 3600 + spanMinutes diff * 60 + spanSeconds diff = diff := by
  unfold spanHours spanMinutes spanSeconds; omega

/-- repaired variant: integer hours, minutes, seconds -/
theorem spanText_secs (fl : Nat → Str) (diff : Nat) :
    spanText fl true diff = [80, 84] ++ (if spanHours diff > 0 then decStr (spanHours diff) ++ [72] else []) ++
      ((if 0 < spanMinutes diff then decStr (spanMinutes diff) ++ [77] else []) ++
       (if 0 < spanSeconds diff then decStr (spanSeconds diff) ++ [83] else [])) := by
  simp [spanText, spanHours, spanMinutes, spanSeconds]
  split <;> split <;> simp_all

end RTV.DtRes
