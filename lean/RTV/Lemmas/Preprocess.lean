import RTV.Model.Preprocess
/-! Helper lemmas for `RTV.Model.Preprocess` (C01). -/
namespace RTV.Preprocess
open RTV.Py

theorem replaceGo_single_length (x y : Nat) : ∀ (fuel : Nat) (s : Str), (replaceGo [x] [y] fuel s).length = s.length := by
  intro fuel
  induction fuel with
  | zero => intro s; simp [replaceGo]
  | succ fuel ih =>
    intro s
    cases s with
    | nil => simp [replaceGo]
    | cons c r =>
      unfold replaceGo
      split
      · simp [ih]
      · simp [ih]

theorem replace_single_length (s : Str) (x y : Nat) : (replace s [x] [y]).length = s.length := by
  unfold replace
  simp [replaceGo_single_length]

/-- every recode pair replaces one code point by one code point -/
def AllSingle (pairs : List (Str × Str)) : Prop := ∀ p ∈ pairs, p.1.length = 1 ∧ p.2.length = 1

instance (pairs : List (Str × Str)) : Decidable (AllSingle pairs) := by unfold AllSingle; infer_instance

theorem recode_length (pairs : List (Str × Str)) (h : AllSingle pairs) (s : Str) : (recode pairs s).length = s.length := by
  unfold recode
  induction pairs generalizing s with
  | nil => simp
  | cons p rest ih =>
    simp only [List.foldl_cons]
    have hp := h p (by simp)
    rw [ih (fun q hq => h q (by simp [hq]))]
    obtain ⟨a, b⟩ := p
    simp only at hp
    match a, b, hp with
    | [x], [y], _ => exact replace_single_length s x y

theorem lowerWith_length (lowerC : Nat → Str) (h : ∀ c, (lowerC c).length = 1) (s : Str) :
    (lowerWith lowerC s).length = s.length := by
  unfold lowerWith
  induction s with
  | nil => simp
  | cons c r ih => simp [List.flatMap_cons, h c, ih]; omega

theorem applyReverse_length (v : Str) : ∀ (chars : Str) (idx : Nat), idx + v.length ≤ chars.length →
    ∃ r, applyReverse chars idx v = some r ∧ r.length = chars.length := by
  induction v with
  | nil => intro chars idx _; exact ⟨chars, rfl, rfl⟩
  | cons x rest ih =>
    intro chars idx h
    simp only [List.length_cons] at h
    unfold applyReverse
    have : idx < chars.length := by omega
    simp only [this, ↓reduceIte]
    obtain ⟨r, hr, hl⟩ := ih (chars.set idx x) (idx + 1) (by simp; omega)
    exact ⟨r, hr, by simpa using hl⟩

theorem toLowerTermSensitive_length (lowerC : Nat → Str) (h : ∀ c, (lowerC c).length = 1) (s : Str)
    (ms : List (Nat × Nat)) (hm : ∀ m ∈ ms, m.1 ≤ m.2 ∧ m.2 ≤ s.length) :
    ∃ r, toLowerTermSensitive lowerC s ms = some r ∧ r.length = s.length := by
  unfold toLowerTermSensitive
  have : ∀ (ms : List (Nat × Nat)) (acc : Str), (∀ m ∈ ms, m.1 ≤ m.2 ∧ m.2 ≤ s.length) → acc.length = s.length →
      ∃ r, ms.foldl (fun acc m => acc.bind fun chars => applyReverse chars m.1 ((s.drop m.1).take (m.2 - m.1)))
        (some acc) = some r ∧ r.length = s.length := by
    intro ms
    induction ms with
    | nil => intro acc _ ha; exact ⟨acc, rfl, ha⟩
    | cons m rest ih =>
      intro acc hms ha
      simp only [List.foldl_cons, Option.bind_some]
      have hm1 := hms m (by simp)
      obtain ⟨r, hr, hl⟩ := applyReverse_length ((s.drop m.1).take (m.2 - m.1)) acc m.1
        (by simp [List.length_take, List.length_drop]; omega)
      rw [hr]
      exact ih r (fun x hx => hms x (by simp [hx])) (by omega)
  exact this ms _ hm (lowerWith_length lowerC h s)

end RTV.Preprocess
