import RTV.Model.Match
set_option linter.unusedSimpArgs false
set_option linter.unusedVariables false
/-! Helper lemmas for C16 (tokenizers). Property theorems live in `RTV/Props/C16.lean`. -/
namespace RTV.Match
def Cov (toks : List Tok) (j : Nat) : Prop := ∃ t ∈ toks, t.start ≤ j ∧ j < t.start + t.len

theorem cov_cons (t : Tok) (ts : List Tok) (j : Nat) :
    Cov (t :: ts) j ↔ (t.start ≤ j ∧ j < t.start + t.len) ∨ Cov ts j := by
  simp [Cov]
theorem getElem?_cons_sub {c : Nat} {rest : List Nat} {i j : Nat} (h : i < j) :
    (c :: rest)[j - i]? = rest[j - (i+1)]? := by
  have e : j - i = (j - (i+1)) + 1 := by omega
  rw [e]; simp

def Here (sp : Nat → Bool) (rest : List Nat) (i j : Nat) : Prop :=
  j < i ∨ ∃ d, rest[j - i]? = some d ∧ sp d = false

theorem here_tail {sp : Nat → Bool} {rest : List Nat} {c i j : Nat} (h : i < j) :
    Here sp (c :: rest) i j ↔ Here sp rest (i+1) j := by
  unfold Here
  rw [getElem?_cons_sub h]
  have h1 : ¬ j < i + 1 := by omega
  have h2 : ¬ j < i := by omega
  simp [h1, h2]
theorem here_self {sp : Nat → Bool} {rest : List Nat} {c i : Nat} :
    Here sp (c :: rest) i i ↔ sp c = false := by
  simp [Here]
theorem here_lt {sp : Nat → Bool} {rest : List Nat} {i j : Nat} (h : j < i) : Here sp rest i j := Or.inl h

structure Spec (s : List Nat) (sp : Nat → Bool) (i : Nat) (low : Nat) (rest : List Nat)
    (toks : List Tok) : Prop where
  lo : ∀ t ∈ toks, low ≤ t.start
  pos : ∀ t ∈ toks, 0 < t.len
  hi : ∀ t ∈ toks, t.start + t.len ≤ i + rest.length
  txt : ∀ t ∈ toks, t.text = slice s t.start (t.start + t.len)
  ordered : toks.Pairwise (fun a b => a.start + a.len ≤ b.start)
  covers : ∀ j, low ≤ j → j < i + rest.length → (Cov toks j ↔ Here sp rest i j)

theorem not_cov_of_lo {toks : List Tok} {j lo : Nat} (h : ∀ t ∈ toks, lo ≤ t.start) (hj : j < lo) : ¬ Cov toks j := by
  rintro ⟨t, ht, h3, _⟩; have := h t ht; omega

theorem sp_false_of {kind : Option Nat → Bool → Nat → Kind} {sp : Nat → Bool}
    (hsp : ∀ p b c, kind p b c = .space ↔ sp c = true) {p b c} (h : kind p b c ≠ .space) : sp c = false := by
  cases h' : sp c with
  | false => rfl
  | true => exact absurd ((hsp p b c).2 h') h

theorem tokGo_spec (kind : Option Nat → Bool → Nat → Kind) (sp : Nat → Bool)
    (hsp : ∀ p b c, kind p b c = .space ↔ sp c = true) (s : List Nat) :
    ∀ (rest : List Nat) (i : Nat) (prev : Option Nat) (opn : Option Nat),
      (∀ st, opn = some st → st < i) → Spec s sp i (opn.getD i) rest (tokGo kind s i prev opn rest) := by
  intro rest
  induction rest with
  | nil =>
    intro i prev opn hop
    cases opn with
    | none =>
      simp only [Option.getD_none]
      refine ⟨?_, ?_, ?_, ?_, ?_, ?_⟩ <;> simp [tokGo]
      intro j h1 h2; omega
    | some st =>
      have := hop st rfl
      simp only [Option.getD_some]
      refine ⟨?_, ?_, ?_, ?_, ?_, ?_⟩ <;> simp [tokGo]
      · omega
      · omega
      · intro j h1 h2
        have : Here sp [] i j := here_lt h2
        simp [this, Cov]; omega
  | cons c rest ih =>
    intro i prev opn hop
    cases opn with
    | none =>
      cases hk : kind prev false c with
      | space =>
        have hc : sp c = true := (hsp _ _ _).1 hk
        have r : Spec s sp (i+1) (i+1) rest _ := ih (i+1) (some c) none (by simp; try omega)
        simp only [tokGo, Option.isSome_none, hk, Option.getD_none]
        refine ⟨fun t ht => ?_, fun t ht => ?_, fun t ht => ?_, fun t ht => ?_, ?_, fun j h1 h2 => ?_⟩
        · have := r.lo t ht; omega
        · exact r.pos t ht
        · have := r.hi t ht; simp only [List.length_cons]; omega
        · exact r.txt t ht
        · exact r.ordered
        · skip
          by_cases hj : j < i
          · omega
          · by_cases hji : j = i
            · subst hji; have := not_cov_of_lo r.lo (show j < j+1 by omega); simp [here_self, hc, this] <;> omega
            · rw [here_tail (by omega), ← r.covers j (by omega) (by simp only [List.length_cons] at h2; omega)]
      | single =>
        have hc : sp c = false := sp_false_of hsp (by rw [hk]; simp)
        have r : Spec s sp (i+1) (i+1) rest _ := ih (i+1) (some c) none (by simp; try omega)
        simp only [tokGo, Option.isSome_none, hk, Option.getD_none]
        refine ⟨fun t ht => ?_, fun t ht => ?_, fun t ht => ?_, fun t ht => ?_, ?_, fun j h1 h2 => ?_⟩
        all_goals (try (simp only [List.mem_cons] at ht; rcases ht with ht | ht))
        · subst ht; simp <;> omega
        · have := r.lo t ht; omega
        · subst ht; simp <;> omega
        · exact r.pos t ht
        · subst ht; simp <;> omega
        · have := r.hi t ht; simp only [List.length_cons]; omega
        · subst ht; simp <;> (try rfl) <;> omega
        · exact r.txt t ht
        · refine List.Pairwise.cons (fun t ht => ?_) r.ordered
          have := r.lo t ht; simp; omega
        · rw [cov_cons]
          by_cases hj : j < i
          · omega
          · by_cases hji : j = i
            · subst hji; simp [here_self, hc]
            · rw [here_tail (by omega), ← r.covers j (by omega) (by simp only [List.length_cons] at h2; omega)]
              have hB : ¬ (i ≤ j ∧ j < i + 1) := by omega
              simp [hB]
      | glue =>
        have hc : sp c = false := sp_false_of hsp (by rw [hk]; simp)
        have r : Spec s sp (i+1) (i) rest _ := ih (i+1) (some c) (some i) (by simp; try omega)
        simp only [tokGo, Option.isSome_none, hk, Option.getD_none]
        refine ⟨fun t ht => ?_, fun t ht => ?_, fun t ht => ?_, fun t ht => ?_, ?_, fun j h1 h2 => ?_⟩
        · have := r.lo t ht; omega
        · exact r.pos t ht
        · have := r.hi t ht; simp only [List.length_cons]; omega
        · exact r.txt t ht
        · exact r.ordered
        · skip
          by_cases hj : j < i
          · omega
          · by_cases hji : j = i
            · subst hji; rw [r.covers j (by omega) (by simp only [List.length_cons] at h2; omega)]; simp [here_self, hc, Here]
            · rw [here_tail (by omega), ← r.covers j (by omega) (by simp only [List.length_cons] at h2; omega)]
      | splitGlue =>
        have hc : sp c = false := sp_false_of hsp (by rw [hk]; simp)
        have r : Spec s sp (i+1) (i) rest _ := ih (i+1) (some c) (some i) (by simp; try omega)
        simp only [tokGo, Option.isSome_none, hk, Option.getD_none]
        refine ⟨fun t ht => ?_, fun t ht => ?_, fun t ht => ?_, fun t ht => ?_, ?_, fun j h1 h2 => ?_⟩
        · have := r.lo t ht; omega
        · exact r.pos t ht
        · have := r.hi t ht; simp only [List.length_cons]; omega
        · exact r.txt t ht
        · exact r.ordered
        · skip
          by_cases hj : j < i
          · omega
          · by_cases hji : j = i
            · subst hji; rw [r.covers j (by omega) (by simp only [List.length_cons] at h2; omega)]; simp [here_self, hc, Here]
            · rw [here_tail (by omega), ← r.covers j (by omega) (by simp only [List.length_cons] at h2; omega)]
    | some st =>
      have hst := hop st rfl
      cases hk : kind prev true c with
      | space =>
        have hc : sp c = true := (hsp _ _ _).1 hk
        have r : Spec s sp (i+1) (i+1) rest _ := ih (i+1) (some c) none (by simp; try omega)
        simp only [tokGo, Option.isSome_some, hk, Option.getD_some]
        refine ⟨fun t ht => ?_, fun t ht => ?_, fun t ht => ?_, fun t ht => ?_, ?_, fun j h1 h2 => ?_⟩
        all_goals (try (simp only [List.mem_cons] at ht; rcases ht with ht | ht))
        · subst ht; simp <;> omega
        · have := r.lo t ht; omega
        · subst ht; simp <;> omega
        · exact r.pos t ht
        · subst ht; simp <;> omega
        · have := r.hi t ht; simp only [List.length_cons]; omega
        · subst ht; simp <;> (try rfl) <;> omega
        · exact r.txt t ht
        · refine List.Pairwise.cons (fun t ht => ?_) r.ordered
          have := r.lo t ht; simp; omega
        · rw [cov_cons]
          by_cases hj : j < i
          · have := not_cov_of_lo r.lo (show j < i+1 by omega); simp [Here, hj, this] <;> omega
          · by_cases hji : j = i
            · subst hji; have := not_cov_of_lo r.lo (show j < j+1 by omega); simp [here_self, hc, this] <;> omega
            · rw [here_tail (by omega), ← r.covers j (by omega) (by simp only [List.length_cons] at h2; omega)]
              have hA : ¬ (st ≤ j ∧ j < st + (i - st)) := by omega
              simp [hA]
      | single =>
        have hc : sp c = false := sp_false_of hsp (by rw [hk]; simp)
        have r : Spec s sp (i+1) (i+1) rest _ := ih (i+1) (some c) none (by simp; try omega)
        simp only [tokGo, Option.isSome_some, hk, Option.getD_some]
        refine ⟨fun t ht => ?_, fun t ht => ?_, fun t ht => ?_, fun t ht => ?_, ?_, fun j h1 h2 => ?_⟩
        all_goals (try (simp only [List.mem_cons] at ht; rcases ht with ht | ht | ht))
        · subst ht; simp <;> omega
        · subst ht; simp <;> omega
        · have := r.lo t ht; omega
        · subst ht; simp <;> omega
        · subst ht; simp <;> omega
        · exact r.pos t ht
        · subst ht; simp <;> omega
        · subst ht; simp <;> omega
        · have := r.hi t ht; simp only [List.length_cons]; omega
        · subst ht; simp <;> (try rfl) <;> omega
        · subst ht; simp <;> (try rfl) <;> omega
        · exact r.txt t ht
        · refine List.Pairwise.cons (fun t ht => ?_) (List.Pairwise.cons (fun t ht => ?_) r.ordered)
          · simp only [List.mem_cons] at ht; rcases ht with ht | ht
            · subst ht; simp; omega
            · have := r.lo t ht; simp; omega
          · have := r.lo t ht; simp; omega
        · rw [cov_cons, cov_cons]
          by_cases hj : j < i
          · have := not_cov_of_lo r.lo (show j < i+1 by omega); simp [Here, hj, this] <;> omega
          · by_cases hji : j = i
            · subst hji; simp [here_self, hc]
            · rw [here_tail (by omega), ← r.covers j (by omega) (by simp only [List.length_cons] at h2; omega)]
              have hA : ¬ (st ≤ j ∧ j < st + (i - st)) := by omega
              have hB : ¬ (i ≤ j ∧ j < i + 1) := by omega
              simp [hA, hB]
      | glue =>
        have hc : sp c = false := sp_false_of hsp (by rw [hk]; simp)
        have r : Spec s sp (i+1) (st) rest _ := ih (i+1) (some c) (some st) (by simp; try omega)
        simp only [tokGo, Option.isSome_some, hk, Option.getD_some]
        refine ⟨fun t ht => ?_, fun t ht => ?_, fun t ht => ?_, fun t ht => ?_, ?_, fun j h1 h2 => ?_⟩
        · have := r.lo t ht; omega
        · exact r.pos t ht
        · have := r.hi t ht; simp only [List.length_cons]; omega
        · exact r.txt t ht
        · exact r.ordered
        · skip
          by_cases hj : j < i
          · rw [r.covers j (by omega) (by omega)]; simp [Here, hj] <;> omega
          · by_cases hji : j = i
            · subst hji; rw [r.covers j (by omega) (by simp only [List.length_cons] at h2; omega)]; simp [here_self, hc, Here]
            · rw [here_tail (by omega), ← r.covers j (by omega) (by simp only [List.length_cons] at h2; omega)]
      | splitGlue =>
        have hc : sp c = false := sp_false_of hsp (by rw [hk]; simp)
        have r : Spec s sp (i+1) (i) rest _ := ih (i+1) (some c) (some i) (by simp; try omega)
        simp only [tokGo, Option.isSome_some, hk, Option.getD_some]
        refine ⟨fun t ht => ?_, fun t ht => ?_, fun t ht => ?_, fun t ht => ?_, ?_, fun j h1 h2 => ?_⟩
        all_goals (try (simp only [List.mem_cons] at ht; rcases ht with ht | ht))
        · subst ht; simp <;> omega
        · have := r.lo t ht; omega
        · subst ht; simp <;> omega
        · exact r.pos t ht
        · subst ht; simp <;> omega
        · have := r.hi t ht; simp only [List.length_cons]; omega
        · subst ht; simp <;> (try rfl) <;> omega
        · exact r.txt t ht
        · refine List.Pairwise.cons (fun t ht => ?_) r.ordered
          have := r.lo t ht; simp; omega
        · rw [cov_cons]
          by_cases hj : j < i
          · have := not_cov_of_lo r.lo (show j < i by omega); simp [Here, hj, this] <;> omega
          · by_cases hji : j = i
            · subst hji; rw [r.covers j (by omega) (by simp only [List.length_cons] at h2; omega)]; simp [here_self, hc, Here]
            · rw [here_tail (by omega), ← r.covers j (by omega) (by simp only [List.length_cons] at h2; omega)]
              have hA : ¬ (st ≤ j ∧ j < st + (i - st)) := by omega
              simp [hA]

/-! ### Trie -/

def Node.follow : Node → List (List Nat) → Option Node
  | n, [] => some n
  | n, t :: ts => match n.child t with
    | none => none
    | some c => c.follow ts

def valuesAt (n : Node) (p : List (List Nat)) : List (List Nat) :=
  match n.follow p with
  | some m => m.values
  | none => []

def idsOf (dict : List (List (List Nat) × List Nat)) (p : List (List Nat)) : List (List Nat) :=
  (dict.filter (fun e => e.1 = p)).map (·.2)

theorem valuesAt_empty (p : List (List Nat)) : valuesAt Node.empty p = [] := by
  cases p <;> simp [valuesAt, Node.follow, Node.empty, Node.child, Node.children, lookup, Node.values]

theorem valuesAt_nil (n : Node) : valuesAt n [] = n.values := by simp [valuesAt, Node.follow]

theorem valuesAt_cons (n : Node) (t : List Nat) (ts : List (List Nat)) :
    valuesAt n (t :: ts) = match lookup t n.children with
      | none => []
      | some c => valuesAt c ts := by
  simp only [valuesAt, Node.follow, Node.child]
  cases lookup t n.children <;> simp

@[simp] theorem values_mk (v c) : (Node.mk v c).values = v := rfl
@[simp] theorem children_mk (v c) : (Node.mk v c).children = c := rfl

theorem lookup_insChild (f : Node → Node) (cs : List (List Nat × Node)) (t t' : List Nat) :
    lookup t' (insChildWith f cs t) =
      if t = t' then some (f ((lookup t cs).getD Node.empty)) else lookup t' cs := by
  induction cs with
  | nil => simp [insChildWith, lookup]
  | cons kn rest ih =>
    obtain ⟨k, n⟩ := kn
    simp only [insChildWith]
    by_cases hk : k = t
    · subst hk
      simp only [if_true, lookup]
      by_cases h2 : k = t' <;> simp [h2]
    · simp only [hk, if_false, lookup]
      by_cases h2 : k = t'
      · subst h2; simp [hk, Ne.symm hk]
      · simp [h2, ih]

theorem insert_valuesAt (p : List (List Nat)) : ∀ (n : Node) (id : List Nat) (p' : List (List Nat)),
    valuesAt (n.insert p id) p' = valuesAt n p' ++ (if p = p' then [id] else []) := by
  induction p with
  | nil =>
    intro n id p'
    cases p' with
    | nil => simp [Node.insert, valuesAt_nil]
    | cons t' ts' => simp [Node.insert, valuesAt_cons]
  | cons t ts ih =>
    intro n id p'
    cases p' with
    | nil => simp [Node.insert, valuesAt_nil]
    | cons t' ts' =>
      simp only [Node.insert, valuesAt_cons, children_mk, lookup_insChild]
      by_cases h : t = t'
      · subst h
        simp only [if_true, ih]
        cases hl : lookup t n.children with
        | none => simp [valuesAt_empty]
        | some m => simp
      · simp [h]

theorem walk_spec (i : Nat) (q : List (List Nat)) : ∀ (n : Node) (consumed : Nat) (a len : Nat) (ids : List (List Nat)),
    (a, len, ids) ∈ walk i n consumed q ↔
      a = i ∧ ∃ l, l ≤ q.length ∧ len = consumed + l ∧ ∃ m, n.follow (q.take l) = some m ∧ m.isEnd = true ∧ ids = m.values := by
  induction q with
  | nil =>
    intro n consumed a len ids
    simp only [walk]
    constructor
    · intro h
      split at h
      · simp at h; obtain ⟨h1, h2, h3⟩ := h
        exact ⟨h1, 0, by simp, by simpa using h2, n, by simp [Node.follow], ‹_›, h3⟩
      · simp at h
    · rintro ⟨h1, l, hl, h2, m, hm, he, hi⟩
      simp at hl; subst hl
      simp [Node.follow] at hm; subst hm
      simp [he, h1, h2, hi]
  | cons t rest ih =>
    intro n consumed a len ids
    simp only [walk]
    constructor
    · intro h
      have hhere : (a, len, ids) ∈ (if n.isEnd = true then [(i, consumed, n.values)] else []) →
          a = i ∧ ∃ l, l ≤ (t :: rest).length ∧ len = consumed + l ∧ ∃ m, n.follow ((t :: rest).take l) = some m ∧ m.isEnd = true ∧ ids = m.values := by
        intro h
        split at h
        · simp at h; obtain ⟨h1, h2, h3⟩ := h
          exact ⟨h1, 0, by simp, by simpa using h2, n, by simp [Node.follow], ‹_›, h3⟩
        · simp at h
      cases hc : n.child t with
      | none => rw [hc] at h; exact hhere h
      | some c =>
        rw [hc] at h
        simp only [List.mem_append] at h
        rcases h with h | h
        · exact hhere h
        · obtain ⟨h1, l, hl, h2, m, hm, he, hi⟩ := (ih c (consumed+1) a len ids).1 h
          exact ⟨h1, l+1, by simp; omega, by omega, m, by simp [Node.follow, hc, hm], he, hi⟩
    · rintro ⟨h1, l, hl, h2, m, hm, he, hi⟩
      cases l with
      | zero =>
        simp [Node.follow] at hm; subst hm
        have : (a, len, ids) ∈ (if n.isEnd = true then [(i, consumed, n.values)] else []) := by
          simp [he, h1, h2, hi]
        cases hc : n.child t <;> simp [this]
      | succ l =>
        simp only [List.take_succ_cons, Node.follow] at hm
        cases hc : n.child t with
        | none => rw [hc] at hm; simp at hm
        | some c =>
          rw [hc] at hm
          simp only [List.mem_append]
          right
          exact (ih c (consumed+1) a len ids).2 ⟨h1, l, by simp at hl; omega, by omega, m, hm, he, hi⟩

theorem trieFindFrom_spec (root : Node) (q : List (List Nat)) : ∀ (i a len : Nat) (ids : List (List Nat)),
    (a, len, ids) ∈ trieFindFrom root i q ↔
      ∃ k, k < q.length ∧ a = i + k ∧ k + len ≤ q.length ∧
        ∃ m, root.follow ((q.drop k).take len) = some m ∧ m.isEnd = true ∧ ids = m.values := by
  induction q with
  | nil => intro i a len ids; simp [trieFindFrom]
  | cons t rest ih =>
    intro i a len ids
    simp only [trieFindFrom, List.mem_append, walk_spec, ih]
    constructor
    · rintro (⟨h1, l, hl, h2, m, hm, he, hi⟩ | ⟨k, hk, h1, h2, m, hm, he, hi⟩)
      · exact ⟨0, by simp, by omega, by omega, m, by simpa [show len = l by omega] using hm, he, hi⟩
      · exact ⟨k+1, by simp; omega, by omega, by simp; omega, m, by simpa using hm, he, hi⟩
    · rintro ⟨k, hk, h1, h2, m, hm, he, hi⟩
      cases k with
      | zero => left; exact ⟨by omega, len, by omega, by omega, m, by simpa using hm, he, hi⟩
      | succ k => right; exact ⟨k, by simp at hk; omega, by omega, by simp at h2; omega, m, by simpa using hm, he, hi⟩

theorem build_valuesAt (dict : List (List (List Nat) × List Nat)) (p : List (List Nat)) :
    ∀ n : Node, valuesAt (dict.foldl (fun n e => n.insert e.1 e.2) n) p = valuesAt n p ++ idsOf dict p := by
  induction dict with
  | nil => intro n; simp [idsOf]
  | cons e rest ih =>
    intro n
    simp only [List.foldl_cons, ih, insert_valuesAt, idsOf, List.filter_cons]
    by_cases h : e.1 = p <;> simp [h]

/-! ### plain-statement helpers for `StringMatcher.find` (C16(f)–(h)) -/

/-- What the matcher theorems need of a token list of `q`: every token is non-empty and inside `q`, tokens are in
order and do not overlap. Both tokenizers deliver it for every string (`tokenizeSimple_ok`, `tokenizeNWU_ok` in
`RTV/Props/C16.lean`). -/
structure TokOK (q : List Nat) (toks : List Tok) : Prop where
  pos : ∀ t ∈ toks, 0 < t.len
  hi : ∀ t ∈ toks, t.start + t.len ≤ q.length
  ordered : toks.Pairwise (fun a b => a.start + a.len ≤ b.start)

/-- the `for r in …: result.append(…)` loop of `StringMatcher.find` raises nowhere if no iteration does -/
theorem mapM_option_isSome {α β} (f : α → Option β) (l : List α) (h : ∀ a ∈ l, (f a).isSome = true) :
    (l.mapM f).isSome = true := by
  induction l with
  | nil => simp
  | cons a rest ih =>
    have ha := h a (by simp)
    have hr := ih (fun b hb => h b (by simp [hb]))
    obtain ⟨x, hx⟩ := Option.isSome_iff_exists.1 ha
    obtain ⟨xs, hxs⟩ := Option.isSome_iff_exists.1 hr
    simp [List.mapM_cons, hx, hxs]

/-- … and then its results are exactly the images of the loop's inputs -/
theorem mapM_option_mem {α β} (f : α → Option β) : ∀ (l : List α) (rs : List β), l.mapM f = some rs →
    ∀ r, r ∈ rs ↔ ∃ a ∈ l, f a = some r := by
  intro l
  induction l with
  | nil => intro rs h r; simp at h; subst h; simp
  | cons a rest ih =>
    intro rs h r
    simp only [List.mapM_cons] at h
    cases ha : f a with
    | none => simp [ha] at h
    | some x =>
      cases hr : rest.mapM f with
      | none => simp [ha, hr] at h
      | some xs =>
        simp [ha, hr] at h
        subst h
        have := ih xs hr r
        simp only [List.mem_cons, this]
        constructor
        · rintro (h1 | ⟨b, hb, hfb⟩)
          · exact ⟨a, Or.inl rfl, by rw [ha, h1]⟩
          · exact ⟨b, Or.inr hb, hfb⟩
        · rintro ⟨b, (hb | hb), hfb⟩
          · subst hb; rw [ha] at hfb; left; exact (Option.some.inj hfb).symm
          · right; exact ⟨b, hb, hfb⟩

theorem ordered_getElem_le (toks : List Tok) (h : toks.Pairwise (fun a b => a.start + a.len ≤ b.start))
    (i j : Nat) (hij : i < j) (hj : j < toks.length) :
    (toks[i]'(by omega)).start + (toks[i]'(by omega)).len ≤ (toks[j]'hj).start := by
  rw [List.pairwise_iff_getElem] at h
  exact h i j (by omega) hj hij

/-- Python `q[a : a + (b - a)]` for `0 ≤ a ≤ b ≤ len(q)` is the plain slice: no clamping, no negative index. -/
theorem sliceInt_nat (q : List Nat) (a b : Nat) (hab : a ≤ b) (hb : b ≤ q.length) :
    sliceInt q (a : Int) ((a : Int) + ((b : Int) - a)) = (q.drop a).take (b - a) := by
  have e : (a : Int) + ((b : Int) - a) = b := by omega
  rw [e]
  simp only [sliceInt, slice]
  have h1 : ¬ ((a : Int) < 0) := by omega
  have h2 : ¬ ((b : Int) < 0) := by omega
  have h3 : min (a : Int) (q.length : Int) = a := by omega
  have h4 : min (b : Int) (q.length : Int) = b := by omega
  simp [h1, h2, h3, h4]

end RTV.Match
