import RTV.Lemmas.NumCjk
/-! kernel evaluation of the typed `get_int_value` walk (int / binary64), numerals 3000..3999 -/
namespace RTV.NumCjk
theorem zh_l30 : zhLoopChunk 30 = true := by decide +kernel
theorem zh_l31 : zhLoopChunk 31 = true := by decide +kernel
theorem zh_l32 : zhLoopChunk 32 = true := by decide +kernel
theorem zh_l33 : zhLoopChunk 33 = true := by decide +kernel
theorem zh_l34 : zhLoopChunk 34 = true := by decide +kernel
theorem zh_l35 : zhLoopChunk 35 = true := by decide +kernel
theorem zh_l36 : zhLoopChunk 36 = true := by decide +kernel
theorem zh_l37 : zhLoopChunk 37 = true := by decide +kernel
theorem zh_l38 : zhLoopChunk 38 = true := by decide +kernel
theorem zh_l39 : zhLoopChunk 39 = true := by decide +kernel
end RTV.NumCjk
