import RTV.Lemmas.Format
import RTV.Lemmas.Dec
/-! `CultureInfo.format` in positional notation reads back as the value and carries no trailing zeros: the exact
shape of `str(Decimal)` (integer digits, point, fraction digits), what the two `rstrip`s leave, and a reader for the
result. -/
namespace RTV.Dec
open RTV.Py

/-- value of a string of ASCII digits -/
def valOfChars (cs : Str) : Nat := cs.foldl (fun a c => a * 10 + (c - 48)) 0

def IsDigits (cs : Str) : Prop := ∀ c ∈ cs, 48 ≤ c ∧ c ≤ 57

theorem foldl_val (cs : Str) (a : Nat) :
    cs.foldl (fun a c => a * 10 + (c - 48)) a = a * 10 ^ cs.length + valOfChars cs := by
  induction cs generalizing a with
  | nil => simp [valOfChars]
  | cons c r ih =>
    simp only [List.foldl_cons, List.length_cons, valOfChars]
    rw [ih, ih (0 * 10 + (c - 48))]
    rw [Nat.pow_succ]
    simp only [Nat.zero_mul, Nat.zero_add]
    rw [Nat.add_mul, Nat.add_assoc, Nat.mul_assoc, Nat.mul_comm 10 (10 ^ r.length)]

theorem val_append (A B : Str) : valOfChars (A ++ B) = valOfChars A * 10 ^ B.length + valOfChars B := by
  unfold valOfChars
  rw [List.foldl_append, foldl_val B]
  rfl

theorem val_zeros (k : Nat) : valOfChars (List.replicate k 48) = 0 := by
  induction k with
  | zero => rfl
  | succ k ih =>
    rw [List.replicate_succ]
    have := val_append [48] (List.replicate k 48)
    simp only [List.singleton_append] at this
    rw [this, ih]
    simp [valOfChars]

theorem digitsAux_val (fuel n : Nat) (acc : Str) (hf : n < fuel) :
    valOfChars (digitsAux fuel n acc) = n * 10 ^ acc.length + valOfChars acc := by
  induction fuel generalizing n acc with
  | zero => omega
  | succ f ih =>
    unfold digitsAux
    split
    · have := val_append [48 + n] acc
      simp only [List.singleton_append] at this
      rw [this]
      simp [valOfChars]
    · rename_i h10
      rw [ih (n / 10) _ (by omega)]
      have := val_append [48 + n % 10] acc
      simp only [List.singleton_append] at this
      rw [this]
      simp only [List.length_cons, valOfChars, List.foldl_cons, List.foldl_nil, Nat.zero_mul, Nat.zero_add,
        Nat.add_sub_cancel_left]
      rw [Nat.pow_succ]
      have hdm := Nat.div_add_mod n 10
      generalize 10 ^ acc.length = P
      generalize List.foldl (fun a c => a * 10 + (c - 48)) 0 acc = V
      calc n / 10 * (P * 10) + (n % 10 * P + V) = (10 * (n / 10) + n % 10) * P + V := by
            rw [Nat.add_mul, Nat.mul_comm P 10, ← Nat.mul_assoc, Nat.mul_comm (n / 10) 10, Nat.add_assoc]
        _ = n * P + V := by rw [hdm]

theorem digitsOf_val (n : Nat) : valOfChars (digitsOf n) = n := by
  unfold digitsOf
  rw [digitsAux_val (n + 1) n [] (by omega)]
  simp [valOfChars]

theorem digitsAux_ne_nil (fuel n : Nat) (acc : Str) (hf : 0 < fuel) : digitsAux fuel n acc ≠ [] := by
  induction fuel generalizing n acc with
  | zero => omega
  | succ f ih =>
    unfold digitsAux
    split
    · simp
    · cases f with
      | zero => simp [digitsAux]
      | succ g => exact ih _ _ (by omega)

theorem digitsOf_ne_nil (n : Nat) : digitsOf n ≠ [] := digitsAux_ne_nil _ _ _ (by omega)

/-! ### `rstrip` -/

theorem dropWhile_append_stop (p : Nat → Bool) (X : Str) (y : Nat) (Y : Str) (hy : p y = false) :
    (X ++ y :: Y).dropWhile p = X.dropWhile p ++ y :: Y := by
  induction X with
  | nil => simp [List.dropWhile, hy]
  | cons x r ih =>
    simp only [List.cons_append, List.dropWhile_cons]
    split
    · exact ih
    · rfl

/-- `rstrip(x)` stops at a character `y ≠ x` -/
theorem rstrip_append_stop (x : Nat) (A : Str) (y : Nat) (F : Str) (hy : y ≠ x) :
    rstripChar x (A ++ y :: F) = A ++ y :: rstripChar x F := by
  unfold rstripChar
  have : (A ++ y :: F).reverse = F.reverse ++ y :: A.reverse := by simp
  rw [this, dropWhile_append_stop _ _ _ _ (by simp [hy])]
  simp

theorem takeWhile_all (p : Nat → Bool) (l : Str) : ∀ c ∈ l.takeWhile p, p c = true := by
  induction l with
  | nil => simp
  | cons a r ih =>
    intro c hc
    simp only [List.takeWhile_cons] at hc
    split at hc
    · simp only [List.mem_cons] at hc
      rcases hc with e | e
      · subst e; assumption
      · exact ih c e
    · simp at hc

theorem rstrip_spec (x : Nat) (s : Str) :
    ∃ z, s = rstripChar x s ++ List.replicate z x ∧ (rstripChar x s).getLast? ≠ some x := by
  unfold rstripChar
  have h := List.takeWhile_append_dropWhile (p := fun c => c == x) (l := s.reverse)
  generalize hT : (s.reverse.takeWhile fun c => c == x) = T at h
  generalize hD : (s.reverse.dropWhile fun c => c == x) = D at h
  have hrep : T = List.replicate T.length x := by
    apply List.eq_replicate_of_mem
    intro c hc
    rw [← hT] at hc
    simpa using takeWhile_all _ _ c hc
  refine ⟨T.length, ?_, ?_⟩
  · have e1 : s = D.reverse ++ T.reverse := by
      rw [← List.reverse_append, h, List.reverse_reverse]
    have e2 : T.reverse = List.replicate T.length x := by
      have := congrArg List.reverse hrep
      rw [List.reverse_replicate] at this
      exact this
    rw [e2] at e1
    exact e1
  · rw [List.getLast?_reverse]
    intro hh
    have := List.head?_dropWhile_not (fun c => c == x) s.reverse
    rw [hD, hh] at this
    simp at this

theorem rstrip_id (x : Nat) (s : Str) (h : s.getLast? ≠ some x) : rstripChar x s = s := by
  unfold rstripChar
  cases hr : s.reverse with
  | nil =>
    have : s = [] := List.reverse_eq_nil_iff.mp hr
    subst this; rfl
  | cons a t =>
    have ha : s.getLast? = some a := by
      rw [← List.head?_reverse, hr]; rfl
    have : (a == x) = false := by
      simp; intro e; subst e; exact h ha
    simp only [List.dropWhile_cons, this, Bool.false_eq_true, if_false]
    rw [← hr, List.reverse_reverse]

/-! ### the exact shape of `str(Decimal)` in positional notation -/

theorem isDigits_append {A B : Str} (ha : IsDigits A) (hb : IsDigits B) : IsDigits (A ++ B) := by
  intro c hc
  rcases List.mem_append.mp hc with h | h
  · exact ha c h
  · exact hb c h

theorem isDigits_zeros (k : Nat) : IsDigits (List.replicate k 48) := by
  intro c hc
  have := List.eq_of_mem_replicate hc
  subst this
  exact ⟨by decide, by decide⟩

theorem parts_shape (ds : Str) (hds : IsDigits ds) (hne : ds ≠ []) (e : Int) (he : e ≤ 0) :
    ∃ I F, (if e + (ds.length : Int) ≤ 0 then (([48] : Str), 46 :: (List.replicate (-(e + (ds.length : Int))).toNat 48 ++ ds))
        else if e + (ds.length : Int) ≥ (ds.length : Int) then
          (ds ++ List.replicate (e + (ds.length : Int) - (ds.length : Int)).toNat 48, [])
        else (ds.take (e + (ds.length : Int)).toNat, 46 :: ds.drop (e + (ds.length : Int)).toNat)) =
      (I, if e = 0 then [] else 46 :: F) ∧
      IsDigits I ∧ IsDigits F ∧ I ≠ [] ∧ valOfChars (I ++ F) = valOfChars ds ∧ F.length = (-e).toNat ∧
      (e = 0 → F = []) := by
  have hL : 1 ≤ ds.length := by
    cases ds with
    | nil => exact absurd rfl hne
    | cons a r => simp
  split
  · rename_i h1
    have hne0 : e ≠ 0 := by omega
    refine ⟨[48], List.replicate (-(e + (ds.length : Int))).toNat 48 ++ ds, by simp [hne0], ?_, ?_, by simp, ?_, ?_,
      fun h => absurd h hne0⟩
    · intro c hc; simp at hc; subst hc; exact ⟨by decide, by decide⟩
    · exact isDigits_append (isDigits_zeros _) hds
    · rw [val_append, val_append, val_zeros]
      simp [valOfChars]
    · simp only [List.length_append, List.length_replicate]; omega
  · split
    · rename_i h1 h2
      have h0 : e = 0 := by omega
      subst h0
      refine ⟨ds, [], by simp, hds, by intro c hc; simp at hc, hne, by simp, by simp, fun _ => rfl⟩
    · rename_i h1 h2
      have hne0 : e ≠ 0 := by omega
      refine ⟨ds.take (e + (ds.length : Int)).toNat, ds.drop (e + (ds.length : Int)).toNat, by simp [hne0], ?_, ?_, ?_,
        by rw [List.take_append_drop], ?_, fun h => absurd h hne0⟩
      · intro c hc; exact hds c (List.mem_of_mem_take hc)
      · intro c hc; exact hds c (List.mem_of_mem_drop hc)
      · intro hnil
        have := congrArg List.length hnil
        simp only [List.length_take, List.length_nil] at this
        omega
      · simp only [List.length_drop]; omega

/-- `str(Decimal)`, exponent ≤ 0 and adjusted exponent ≥ −6: sign, integer digits, and — iff the exponent is negative —
a point followed by exactly `−exp` fraction digits; all digits together are the coefficient. -/
theorem toStr_shape (d : Dec) (he : d.exp ≤ 0) (hadj : d.exp + ((digitsOf d.coeff).length : Int) > -6) :
    ∃ I F, toStr d = (if d.neg then [45] else []) ++ I ++ (if d.exp = 0 then [] else 46 :: F) ∧
      IsDigits I ∧ IsDigits F ∧ I ≠ [] ∧ valOfChars (I ++ F) = d.coeff ∧ F.length = (-d.exp).toNat ∧
      (d.exp = 0 → F = []) := by
  obtain ⟨I, F, hp, h1, h2, h3, h4, h5, h6⟩ :=
    parts_shape (digitsOf d.coeff) (digitsOf_digits d.coeff) (digitsOf_ne_nil d.coeff) d.exp he
  refine ⟨I, F, ?_, h1, h2, h3, by rw [h4, digitsOf_val], h5, h6⟩
  unfold toStr
  simp only
  have hc : (decide (d.exp ≤ 0) && decide (d.exp + ((digitsOf d.coeff).length : Int) > -6)) = true := by
    simp [he, hadj]
  simp only [hc, if_true, BEq.rfl, List.append_nil]
  rw [hp]

/-! ### what `CultureInfo.format` leaves -/

theorem rstrip_snoc (x : Nat) (s : Str) : rstripChar x (s ++ [x]) = rstripChar x s := by
  unfold rstripChar
  simp

theorem getLast_digits (A : Str) (hA : IsDigits A) (hne : A ≠ []) (pre : Str) (x : Nat) (hx : x < 48) :
    (pre ++ A).getLast? ≠ some x := by
  intro h
  have hne' : pre ++ A ≠ [] := by simp [hne]
  rw [List.getLast?_eq_some_getLast hne'] at h
  have : (pre ++ A).getLast hne' = A.getLast hne := List.getLast_append_of_ne_nil _ hne
  rw [this] at h
  have hm := hA _ (List.getLast_mem hne)
  have : A.getLast hne = x := by simpa using h
  omega

/-- The formatted string before the marks are changed: sign, integer digits, and — only if a non-zero fraction digit
remains — the point and the fraction digits without trailing zeros. `z` zeros were dropped. -/
theorem format_shape (lf : Option (Nat × Nat)) (d : Dec) (he : d.exp ≤ 0)
    (hadj : d.exp + ((digitsOf d.coeff).length : Int) > -6) :
    ∃ I F' z, format lf d = changeMarks lf ((if d.neg then [45] else []) ++ I ++ (if F' = [] then [] else 46 :: F')) ∧
      IsDigits I ∧ I ≠ [] ∧ IsDigits F' ∧ F'.getLast? ≠ some 48 ∧
      valOfChars (I ++ F') * 10 ^ z = d.coeff ∧ F'.length + z = (-d.exp).toNat := by
  obtain ⟨I, F, hs, hI, hF, hIne, hval, hlen, hF0⟩ := toStr_shape d he hadj
  have hp := toStr_plain d he hadj
  unfold format formatStr
  simp only
  have h1 : (toStr d).map (fun c => if c == 101 then 69 else c) = toStr d := by
    have : ∀ c ∈ toStr d, (fun c => if c == 101 then 69 else c) c = id c := by
      intro c hc
      rcases hp c hc with ⟨a, b⟩ | h | h
      · have : (c == 101) = false := by simp; omega
        simp [this]
      · subst h; rfl
      · subst h; rfl
    rw [List.map_congr_left this, List.map_id]
  rw [h1]
  have hsignI : ∀ c ∈ (if d.neg then [45] else []) ++ I, c ≠ 46 ∧ c ≠ 69 := by
    intro c hc
    rcases List.mem_append.mp hc with h | h
    · split at h <;> simp at h; subst h; exact ⟨by decide, by decide⟩
    · have := hI c h; omega
  by_cases h0 : d.exp = 0
  · -- integer: nothing to strip
    have hF' := hF0 h0
    subst hF'
    simp only [h0, if_true, List.append_nil] at hs
    have hno46 : (toStr d).contains 46 = false := by
      rw [hs]; simp only [List.contains_eq_mem, decide_eq_false_iff_not]
      intro h; exact (hsignI 46 h).1 rfl
    have hE : (69 : Nat) ∉ toStr d := by rw [hs]; intro h; exact (hsignI 69 h).2 rfl
    simp only [hno46, Bool.false_eq_true, if_false]
    rw [contains_false _ [69, 45] 69 [45] rfl hE]
    simp only [Bool.false_eq_true, if_false]
    rw [contains_false _ [69, 43] 69 [43] rfl hE]
    simp only [Bool.false_eq_true, if_false]
    refine ⟨I, [], 0, by simp [hs], hI, hIne, by intro c hc; simp at hc, by simp, by simpa using hval, by
      simp only [List.length_nil] at hlen ⊢; omega⟩
  · simp only [h0, if_false] at hs
    have hs' : toStr d = ((if d.neg then [45] else []) ++ I) ++ 46 :: F := by rw [hs]
    have hyes : (toStr d).contains 46 = true := by rw [hs']; simp
    simp only [hyes, if_true]
    rw [hs', rstrip_append_stop 48 _ 46 F (by decide)]
    obtain ⟨z, hz, hlast⟩ := rstrip_spec 48 F
    generalize hF'def : rstripChar 48 F = F' at hz hlast
    have hF' : IsDigits F' := by
      intro c hc; apply hF; rw [hz]; exact List.mem_append_left _ hc
    have hvalz : valOfChars (I ++ F') * 10 ^ z = d.coeff := by
      rw [← hval, hz, ← List.append_assoc, val_append (I ++ F'), val_zeros]
      simp
    have hlenz : F'.length + z = (-d.exp).toNat := by
      rw [← hlen, hz]; simp
    -- the second rstrip
    have hstrip2 : rstripChar 46 (((if d.neg then [45] else []) ++ I) ++ 46 :: F') =
        (if d.neg then [45] else []) ++ I ++ (if F' = [] then [] else 46 :: F') := by
      by_cases hnil : F' = []
      · subst hnil
        simp only [if_true, List.append_nil]
        rw [rstrip_snoc]
        exact rstrip_id 46 _ (getLast_digits I hI hIne _ 46 (by decide))
      · simp only [hnil, if_false]
        apply rstrip_id
        have := getLast_digits F' hF' hnil (((if d.neg then [45] else []) ++ I) ++ [46]) 46 (by decide)
        simpa using this
    rw [hstrip2]
    have hE : (69 : Nat) ∉ (if d.neg then [45] else []) ++ I ++ (if F' = [] then [] else 46 :: F') := by
      intro h
      rcases List.mem_append.mp h with h | h
      · exact (hsignI 69 h).2 rfl
      · split at h
        · simp at h
        · simp only [List.mem_cons] at h
          rcases h with h | h
          · omega
          · have := hF' 69 h; omega
    rw [contains_false _ [69, 45] 69 [45] rfl hE]
    simp only [Bool.false_eq_true, if_false]
    rw [contains_false _ [69, 43] 69 [43] rfl hE]
    simp only [Bool.false_eq_true, if_false]
    exact ⟨I, F', z, rfl, hI, hIne, hF', hlast, hvalz, hlenz⟩

/-! ### reading the resolution string back -/

/-- A reader for resolution strings in positional notation with decimal mark `dm`: (negative?, all digits as a
number, number of fraction digits) — the value is `± digits / 10^scale`. -/
def readPlain (dm : Nat) (s : Str) : Bool × Nat × Nat :=
  let neg := s.head? == some 45
  let body := if neg then s.drop 1 else s
  let ip := body.takeWhile (· != dm)
  let fr := (body.dropWhile (· != dm)).drop 1
  (neg, valOfChars (ip ++ fr), fr.length)

theorem takeWhile_append_stop (p : Nat → Bool) (A : Str) (y : Nat) (B : Str) (hA : ∀ c ∈ A, p c = true)
    (hy : p y = false) : (A ++ y :: B).takeWhile p = A ∧ (A ++ y :: B).dropWhile p = y :: B := by
  induction A with
  | nil => simp [List.takeWhile, List.dropWhile, hy]
  | cons a r ih =>
    have ha := hA a (by simp)
    obtain ⟨i1, i2⟩ := ih (fun c hc => hA c (by simp [hc]))
    simp [List.takeWhile_cons, List.dropWhile_cons, ha, i1, i2]

theorem takeWhile_all_id (p : Nat → Bool) (A : Str) (hA : ∀ c ∈ A, p c = true) :
    A.takeWhile p = A ∧ A.dropWhile p = [] := by
  induction A with
  | nil => simp
  | cons a r ih =>
    have ha := hA a (by simp)
    obtain ⟨i1, i2⟩ := ih (fun c hc => hA c (by simp [hc]))
    simp [List.takeWhile_cons, List.dropWhile_cons, ha, i1, i2]

/-- the decimal mark a long format writes -/
def markOf (lf : Option (Nat × Nat)) : Nat := match lf with | some (dm, _) => dm | none => 46

theorem changeMarks_digits (lf : Option (Nat × Nat)) (A : Str) (hA : ∀ c ∈ A, (48 ≤ c ∧ c ≤ 57) ∨ c = 45) :
    changeMarks lf A = A := by
  unfold changeMarks
  cases lf with
  | none => rfl
  | some p =>
    obtain ⟨dm, tm⟩ := p
    simp only
    have : ∀ c ∈ A, (fun c => if c == 46 then dm else if c == 44 then tm else c) c = id c := by
      intro c hc
      have e1 : (c == 46) = false := by rcases hA c hc with h | h <;> simp <;> omega
      have e2 : (c == 44) = false := by rcases hA c hc with h | h <;> simp <;> omega
      simp [e1, e2]
    rw [List.map_congr_left this, List.map_id]

theorem changeMarks_append (lf : Option (Nat × Nat)) (A B : Str) :
    changeMarks lf (A ++ B) = changeMarks lf A ++ changeMarks lf B := by
  unfold changeMarks
  cases lf with
  | none => rfl
  | some p => simp

theorem changeMarks_point (lf : Option (Nat × Nat)) (B : Str) :
    changeMarks lf (46 :: B) = markOf lf :: changeMarks lf B := by
  unfold changeMarks markOf
  cases lf with
  | none => rfl
  | some p => simp

/-- **`CultureInfo.format` reads back as the value and has no trailing zeros.** For a decimal with exponent ≤ 0 and
adjusted exponent ≥ −6 and a decimal mark that is neither a digit nor `-`: reading the formatted string gives the
sign of `d`, and digits `M` with scale `k` such that `M / 10^k = coeff · 10^exp` (cross-multiplied); and if a
fraction is printed (`k > 0`) its last digit is not `0`. -/
theorem format_reads_back (lf : Option (Nat × Nat)) (d : Dec) (he : d.exp ≤ 0)
    (hadj : d.exp + ((digitsOf d.coeff).length : Int) > -6) (hdm : markOf lf < 48 ∧ markOf lf ≠ 45) :
    ∃ M k, readPlain (markOf lf) (format lf d) = (d.neg, M, k) ∧
      M * 10 ^ (-d.exp).toNat = d.coeff * 10 ^ k ∧ (0 < k → M % 10 ≠ 0) := by
  obtain ⟨I, F', z, hfmt, hI, hIne, hF', hlast, hval, hlen⟩ := format_shape lf d he hadj
  obtain ⟨i0, It, hIe⟩ : ∃ i0 It, I = i0 :: It := by
    cases I with
    | nil => exact absurd rfl hIne
    | cons a r => exact ⟨a, r, rfl⟩
  have hi0 : 48 ≤ i0 ∧ i0 ≤ 57 := hI i0 (by simp [hIe])
  -- the string after the marks are changed
  have hstr : format lf d = (if d.neg then [45] else []) ++ (I ++ (if F' = [] then [] else markOf lf :: F')) := by
    rw [hfmt, List.append_assoc, changeMarks_append, changeMarks_append]
    rw [changeMarks_digits lf (if d.neg then [45] else []) (by
      intro c hc; split at hc <;> simp at hc; exact Or.inr hc)]
    rw [changeMarks_digits lf I (fun c hc => Or.inl (hI c hc))]
    by_cases hn : F' = []
    · simp [hn, changeMarks_digits lf [] (by simp)]
    · simp only [hn, if_false]
      rw [changeMarks_point, changeMarks_digits lf F' (fun c hc => Or.inl (hF' c hc))]
  have hpI : ∀ c ∈ I, (c != markOf lf) = true := by
    intro c hc; have := hI c hc; simp; omega
  have hbody : ∀ body, body = I ++ (if F' = [] then [] else markOf lf :: F') →
      body.takeWhile (· != markOf lf) = I ∧ (body.dropWhile (· != markOf lf)).drop 1 = F' := by
    intro body hb
    subst hb
    by_cases hn : F' = []
    · simp only [hn, if_true, List.append_nil]
      obtain ⟨a, b⟩ := takeWhile_all_id _ I hpI
      exact ⟨a, by rw [b]; rfl⟩
    · simp only [hn, if_false]
      obtain ⟨a, b⟩ := takeWhile_append_stop (· != markOf lf) I (markOf lf) F' hpI (by simp)
      exact ⟨a, by rw [b]; rfl⟩
  refine ⟨valOfChars (I ++ F'), F'.length, ?_, ?_, ?_⟩
  · rw [hstr]
    unfold readPlain
    cases hneg : d.neg
    · have hh : ((([] : Str) ++ (I ++ if F' = [] then [] else markOf lf :: F')).head? == some 45) = false := by
        rw [hIe]; simp; omega
      simp only [Bool.false_eq_true, if_false, hh]
      obtain ⟨a, b⟩ := hbody _ rfl
      simp only [List.nil_append]
      rw [a, b]
    · have hh : (([45] ++ (I ++ if F' = [] then [] else markOf lf :: F')).head? == some 45) = true := by simp
      simp only [if_true, hh]
      obtain ⟨a, b⟩ := hbody _ rfl
      simp only [List.cons_append, List.nil_append, List.drop_succ_cons, List.drop_zero] at a b ⊢
      rw [a, b]
  · rw [← hlen, Nat.pow_add, ← Nat.mul_assoc, Nat.mul_right_comm, hval]
  · intro hk
    have hn : F' ≠ [] := by intro h; rw [h] at hk; simp at hk
    have hd := List.dropLast_concat_getLast hn
    have hl := hF' _ (List.getLast_mem hn)
    have hl48 : F'.getLast hn ≠ 48 := by
      intro h
      apply hlast
      rw [List.getLast?_eq_some_getLast hn, h]
    rw [← hd, ← List.append_assoc, val_append]
    simp only [List.length_singleton, Nat.pow_one, valOfChars, List.foldl_cons, List.foldl_nil, Nat.zero_mul,
      Nat.zero_add]
    omega

theorem val_lt (cs : Str) (h : IsDigits cs) : valOfChars cs < 10 ^ cs.length := by
  induction cs with
  | nil => simp [valOfChars]
  | cons c r ih =>
    have hr : IsDigits r := fun x hx => h x (by simp [hx])
    have hc := h c (by simp)
    have hi := ih hr
    have := val_append [c] r
    simp only [List.singleton_append] at this
    rw [this]
    simp only [valOfChars, List.foldl_cons, List.foldl_nil, Nat.zero_mul, Nat.zero_add, List.length_cons, Nat.pow_succ]
    have h9 : (c - 48) * 10 ^ r.length ≤ 9 * 10 ^ r.length := Nat.mul_le_mul_right _ (by omega)
    simp only [valOfChars] at hi
    omega

theorem coeff_lt_digits (n : Nat) : n < 10 ^ (digitsOf n).length := by
  have := val_lt (digitsOf n) (digitsOf_digits n)
  rwa [digitsOf_val] at this

/-- a value of at least 10^-6 has adjusted exponent ≥ −6 -/
theorem adjusted_of_value (coeff : Nat) (exp : Int) (numer scale : Nat) (he : exp ≤ 0)
    (hv : coeff * 10 ^ scale = numer * 10 ^ (-exp).toNat) (hge : 10 ^ scale ≤ numer * 10 ^ 6) :
    exp + ((digitsOf coeff).length : Int) > -6 := by
  have hL := coeff_lt_digits coeff
  generalize (digitsOf coeff).length = L at *
  generalize hE : (-exp).toNat = E at hv
  have hEe : exp = -(E : Int) := by omega
  rw [hEe]
  rcases Nat.lt_or_ge E (L + 6) with h | h
  · omega
  · exfalso
    obtain ⟨t, ht⟩ := Nat.exists_eq_add_of_le h
    have h1 : coeff * 10 ^ scale < 10 ^ L * 10 ^ scale := Nat.mul_lt_mul_of_pos_right hL (pow10_pos _)
    have h2 : 10 ^ scale * 10 ^ L ≤ numer * 10 ^ 6 * 10 ^ L := Nat.mul_le_mul_right _ hge
    have h3 : numer * 10 ^ 6 * 10 ^ L ≤ numer * 10 ^ E := by
      rw [ht, Nat.mul_assoc, ← Nat.pow_add]
      apply Nat.mul_le_mul_left
      apply pow10_le
      omega
    rw [hv, Nat.mul_comm (10 ^ L)] at h1
    omega

end RTV.Dec
