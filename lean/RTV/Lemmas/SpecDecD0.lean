import RTV.Lemmas.SpecRun
/-! Kernel evaluation of the spec cases (C19 through the model), family `bool, code before the Resolution.score fix`. -/
namespace RTV.Seq
set_option maxRecDepth 100000
theorem spec_bool_prefix_fast : boolPreFixOK RTV.Choice.fastEnvPreFix3 RTV.Gen.specCases_bool = true := by decide +kernel
end RTV.Seq
