import RTV.Model.SpellEu
import RTV.Model.NumCfg
/-! French ordinals below 1000 (`spellOrdEu frOrd`) against `getIntValue` with the regenerated French maps: kernel
evaluation in chunks of 100, then the case split over the chunk index. Guard (what the faithful model gets right): none. -/
namespace RTV.Num

def frOrdGuard (_ : Nat) : Bool := true

def frOrdCheck (n : Nat) : Bool :=
  n == 0 || !frOrdGuard n || decide (getIntValue true asciiDigits fr.lang (spellOrdEu frOrd n).2 = .ok n)

def frOrdChunk (k : Nat) : Bool := (List.range 100).all fun i => frOrdCheck (100 * k + i)

theorem fr_o0 : frOrdChunk 0 = true := by decide +kernel
theorem fr_o1 : frOrdChunk 1 = true := by decide +kernel
theorem fr_o2 : frOrdChunk 2 = true := by decide +kernel
theorem fr_o3 : frOrdChunk 3 = true := by decide +kernel
theorem fr_o4 : frOrdChunk 4 = true := by decide +kernel
theorem fr_o5 : frOrdChunk 5 = true := by decide +kernel
theorem fr_o6 : frOrdChunk 6 = true := by decide +kernel
theorem fr_o7 : frOrdChunk 7 = true := by decide +kernel
theorem fr_o8 : frOrdChunk 8 = true := by decide +kernel
theorem fr_o9 : frOrdChunk 9 = true := by decide +kernel

theorem fr_ochunks (k : Nat) (hk : k < 10) : frOrdChunk k = true := by
  match k, hk with
  | 0, _ => exact fr_o0
  | 1, _ => exact fr_o1
  | 2, _ => exact fr_o2
  | 3, _ => exact fr_o3
  | 4, _ => exact fr_o4
  | 5, _ => exact fr_o5
  | 6, _ => exact fr_o6
  | 7, _ => exact fr_o7
  | 8, _ => exact fr_o8
  | 9, _ => exact fr_o9
  | k + 10, h => omega

theorem fr_ord_all (n : Nat) (h1 : 1 ≤ n) (h : n < 1000) (hg : frOrdGuard n = true) :
    getIntValue true asciiDigits fr.lang (spellOrdEu frOrd n).2 = .ok n := by
  have hc := fr_ochunks (n / 100) (by omega)
  simp only [frOrdChunk, List.all_eq_true, List.mem_range] at hc
  have := hc (n % 100) (Nat.mod_lt _ (by decide))
  have e : 100 * (n / 100) + n % 100 = n := Nat.div_add_mod n 100
  rw [e] at this
  have hz : (n == 0) = false := by simp; omega
  simpa [frOrdCheck, hg, hz] using this

end RTV.Num
