import RTV.Lemmas.CjkJaBase
/-! kernel evaluation, chunks 0..24 (numerals 0..2499) -/
namespace RTV.Num
theorem ja_c0 : jaChunk 0 = true := by decide +kernel
theorem ja_c1 : jaChunk 1 = true := by decide +kernel
theorem ja_c2 : jaChunk 2 = true := by decide +kernel
theorem ja_c3 : jaChunk 3 = true := by decide +kernel
theorem ja_c4 : jaChunk 4 = true := by decide +kernel
theorem ja_c5 : jaChunk 5 = true := by decide +kernel
theorem ja_c6 : jaChunk 6 = true := by decide +kernel
theorem ja_c7 : jaChunk 7 = true := by decide +kernel
theorem ja_c8 : jaChunk 8 = true := by decide +kernel
theorem ja_c9 : jaChunk 9 = true := by decide +kernel
theorem ja_c10 : jaChunk 10 = true := by decide +kernel
theorem ja_c11 : jaChunk 11 = true := by decide +kernel
theorem ja_c12 : jaChunk 12 = true := by decide +kernel
theorem ja_c13 : jaChunk 13 = true := by decide +kernel
theorem ja_c14 : jaChunk 14 = true := by decide +kernel
theorem ja_c15 : jaChunk 15 = true := by decide +kernel
theorem ja_c16 : jaChunk 16 = true := by decide +kernel
theorem ja_c17 : jaChunk 17 = true := by decide +kernel
theorem ja_c18 : jaChunk 18 = true := by decide +kernel
theorem ja_c19 : jaChunk 19 = true := by decide +kernel
theorem ja_c20 : jaChunk 20 = true := by decide +kernel
theorem ja_c21 : jaChunk 21 = true := by decide +kernel
theorem ja_c22 : jaChunk 22 = true := by decide +kernel
theorem ja_c23 : jaChunk 23 = true := by decide +kernel
theorem ja_c24 : jaChunk 24 = true := by decide +kernel
end RTV.Num
