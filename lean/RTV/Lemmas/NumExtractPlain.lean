import RTV.Lemmas.NumExtractLit
/-!
First reported match of `NumbersWithPlaceHolder` / `DoubleDecimalPointRegex` (the cultures whose regex is
`numbersWithPlaceHolderOf` / `doubleDecimalPointOf` of its own projections) on a plain integer / plain decimal of ANY
length, and the generic extraction theorems for these two shapes.
-/
namespace RTV.NumExtract
open RTV.Py RTV.Re RTV.Span RTV.Num

variable {T : Tables} {s : Array Nat}

local macro "nrm" : tactic =>
  `(tactic| try simp only [ends_seq_grp, ends_seq_seq, ends_seq_alt, ends_seq_eps])

/-- `b2` lets a match through exactly at a word boundary -/
def GateAt (T : Tables) (s : Array Nat) (b2 : RE) (a : Nat) : Prop :=
  ∀ C, ends T s (.seq b2 C) a = if isWordB T s a then ends T s C a else []

theorem gate_boundaryWith (lb2 : Option RE) (hlb : ∀ b, lb2 = some b → headS [.digit] b = true) {a : Nat}
    (hl : LeftCtx T s a) : GateAt T s (boundaryWith lb2) a := by
  intro C
  cases lb2 with
  | none => exact ends_lookbehind_wordB C a
  | some b =>
    unfold boundaryWith afterBoundary
    simp only
    nrm
    rw [ends_lookbehind_wordB]
    split
    · nrm
      rw [ends_notAfter _ _ (hlb b rfl) hl.noDigit]
      nrm
    · rfl

theorem ends_signPrefixOf (hT : TablesOK T) (lb1 b2 C : RE) (hlb : headS [.digit] lb1 = true) {a : Nat} (neg : Bool)
    (hl : LeftCtx T s a) (hg : GateAt T s b2 a)
    (hs : neg = true → code s a = 45) (hd : isDig (code s (a + if neg then 1 else 0))) :
    ends T s (.seq (signPrefixOf lb1 b2) C) a = ends T s C (a + if neg then 1 else 0) := by
  unfold signPrefixOf chr
  nrm
  rw [ends_notAfter _ _ hlb hl.noDigit]
  rw [hg]
  cases neg with
  | true =>
    have hs' := hs rfl
    simp only [↓reduceIte] at hd ⊢
    nrm
    rw [ends_seq_cls_yes _ (chr_step (T := T) (by omega) hs').1 (chr_step (T := T) (by omega) hs').2]
    nrm
    rw [ends_blanks_none _ (fun _ => hT.dsp _ hd.1 hd.2)]
    nrm
    have hw : isWordB T s a = false := by
      unfold isWordB
      rw [wordAt_before hT hl]
      simp [wordAt, hs', hT.w45]
    simp [hw]
  | false =>
    simp only [Bool.false_eq_true, ↓reduceIte, Nat.add_zero] at hd ⊢
    nrm
    rw [ends_seq_cls_no _ (chr_no (by unfold isDig at hd; omega))]
    have hw : isWordB T s a = true := by
      unfold isWordB
      rw [wordAt_before hT hl]
      simp [wordAt, isDig_lt hd, hT.wrd _ hd.1 hd.2]
    simp [hw]

/-- a negative look-ahead whose body must begin with a mark passes at the right context -/
theorem ends_neg_lookahead_pass (F : List Item) (nla C : RE) (hh : headS F nla = true)
    (hF : clsTest T F false 32 = false) {e : Nat} (hr : RightCtx s e) :
    ends T s (.seq (.look true true nla) C) e = ends T s C e := by
  rw [ends_seq_lookahead]
  have : ends T s nla e = [] := ends_nil_of_head hh (fun hlt => by
    rcases hr with h | h
    · omega
    · rw [h]; exact hF)
  simp [this]

/-- positions of a plain integer: sign?, `n ≥ 1` digits -/
structure PlainAt (s : Array Nat) (neg : Bool) (a n : Nat) : Prop where
  sign : neg = true → code s a = 45
  hn : 1 ≤ n
  digits : ∀ t, t < n → isDig (code s (a + (if neg then 1 else 0) + t))

/-- positions of a plain decimal: sign?, `n ≥ 1` digits, the mark `d`, `f ≥ 1` digits -/
structure DecimalAt (s : Array Nat) (d : Nat) (neg : Bool) (a n f : Nat) : Prop where
  int : PlainAt s neg a n
  mark : code s (a + (if neg then 1 else 0) + n) = d
  hf : 1 ≤ f
  frac : ∀ t, t < f → isDig (code s (a + (if neg then 1 else 0) + n + 1 + t))

/-- side conditions on the parts of a regex read off by the projections -/
structure PartsOK (T : Tables) (lb1 : RE) (lb2 : Option RE) (F : List Item) (nla ph : RE) : Prop where
  lb1 : headS [.digit] lb1 = true
  lb2 : ∀ b, lb2 = some b → headS [.digit] b = true
  nla : headS F nla = true
  f32 : clsTest T F false 32 = false
  ph : IsPlaceHolder ph

theorem plain_first (hT : TablesOK T) {lb1 : RE} {lb2 : Option RE} {F : List Item} {nla ph : RE}
    (hp : PartsOK T lb1 lb2 F nla ph) {neg : Bool} {a n : Nat} (hl : LeftCtx T s a) (lit : PlainAt s neg a n)
    (hr : RightCtx s (a + (if neg then 1 else 0) + n)) :
    firstEnd T s (numbersWithPlaceHolderOf lb1 (boundaryWith lb2) nla ph) a = some (a + (if neg then 1 else 0) + n) := by
  unfold firstEnd numbersWithPlaceHolderOf
  rw [ends_signPrefixOf hT _ _ _ hp.lb1 neg hl (gate_boundaryWith lb2 hp.lb2 hl) lit.sign
    (by simpa using lit.digits 0 lit.hn)]
  have digits := lit.digits
  generalize a + (if neg then 1 else 0) = a0 at *
  obtain ⟨r, hrr⟩ := ends_digits1 hT (.seq (.look true true nla) (.seq (.look true false (.seq ph .eps)) .eps)) lit.hn digits
    (fun hlt => by have := right_not_digit hT hr hlt; simpa [clsTest, Item.test] using this)
  rw [hrr, ends_neg_lookahead_pass F nla _ hp.nla hp.f32 hr]
  rw [lookahead_placeholder hT hp.ph _ (by have := lit.hn; omega) (by
    have : a0 + n - 1 = a0 + (n - 1) := by have := lit.hn; omega
    rw [this]; exact digits (n - 1) (by have := lit.hn; omega)) hr]
  simp [ends]

theorem decimal_first (hT : TablesOK T) {lb1 : RE} {lb2 : Option RE} {F : List Item} {nla ph : RE}
    (hp : PartsOK T lb1 lb2 F nla ph) {marks : List Item} {d : Nat} (hd0 : 0 < d)
    (hdm : clsTest T marks false d = true) (hdd : T.digit d = false)
    {neg : Bool} {a n f : Nat} (hl : LeftCtx T s a) (lit : DecimalAt s d neg a n f)
    (hr : RightCtx s (a + (if neg then 1 else 0) + n + 1 + f)) :
    firstEnd T s (doubleDecimalPointOf lb1 (boundaryWith lb2) marks nla ph) a =
      some (a + (if neg then 1 else 0) + n + 1 + f) := by
  unfold firstEnd doubleDecimalPointOf
  rw [ends_signPrefixOf hT _ _ _ hp.lb1 neg hl (gate_boundaryWith lb2 hp.lb2 hl) lit.int.sign
    (by simpa using lit.int.digits 0 lit.int.hn)]
  have digits := lit.int.digits
  have mark := lit.mark
  have frac := lit.frac
  generalize a + (if neg then 1 else 0) = a0 at *
  obtain ⟨r, hrr⟩ := ends_digits1 hT
    (.seq (.cls marks false) (.seq digits1 (.seq (.look true true nla) (.seq (.look true false (.seq ph .eps)) .eps))))
    lit.int.hn digits (fun _ => by rw [mark]; exact hdd)
  rw [hrr]
  rw [ends_seq_cls_yes _ (code_lt_size (by omega)) (by rw [mark]; exact hdm)]
  obtain ⟨r2, hr2⟩ := ends_digits1 hT (.seq (.look true true nla) (.seq (.look true false (.seq ph .eps)) .eps)) lit.hf frac
    (fun hlt => by have := right_not_digit hT hr hlt; simpa [clsTest, Item.test] using this)
  rw [hr2, ends_neg_lookahead_pass F nla _ hp.nla hp.f32 hr]
  rw [lookahead_placeholder hT hp.ph _ (by omega) (by
    have : a0 + n + 1 + f - 1 = a0 + n + 1 + (f - 1) := by have := lit.hf; omega
    rw [this]; exact frac (f - 1) (by have := lit.hf; omega)) hr]
  simp [ends]

/-! ### from lists -/

def plainIntText (neg : Bool) (ds : List Nat) : Str := signText neg ++ digitChars ds
def plainDecText (d : Nat) (neg : Bool) (ds F : List Nat) : Str := plainIntText neg ds ++ d :: digitChars F

theorem length_plainIntText (neg : Bool) (ds : List Nat) :
    (plainIntText neg ds).length = (if neg then 1 else 0) + ds.length := by
  simp [plainIntText, length_signText, digitChars]

theorem length_plainDecText (d : Nat) (neg : Bool) (ds F : List Nat) :
    (plainDecText d neg ds F).length = (if neg then 1 else 0) + ds.length + 1 + F.length := by
  simp [plainDecText, length_plainIntText, digitChars]; omega

theorem plainAt_of_list (pre tail : Str) (neg : Bool) (ds : List Nat) (hn : 1 ≤ ds.length) (hd : ∀ x ∈ ds, x < 10) :
    PlainAt (pre ++ plainIntText neg ds ++ tail).toArray neg pre.length ds.length := by
  have hs : (signText neg).length = if neg then 1 else 0 := length_signText neg
  refine ⟨fun h => ?_, hn, fun t ht => ?_⟩
  · subst h
    have := code_mid pre (plainIntText true ds) tail 0 (by simp [plainIntText, signText])
    simpa [plainIntText, signText] using this
  · have e : pre ++ plainIntText neg ds ++ tail = (pre ++ signText neg) ++ digitChars ds ++ tail := by
      simp [plainIntText, List.append_assoc]
    rw [e]
    have := code_mid (pre ++ signText neg) (digitChars ds) tail t (by simpa [digitChars] using ht)
    rw [List.length_append, hs] at this
    rw [this]
    exact isDig_digitChars ds hd t ht

theorem decimalAt_of_list (pre tail : Str) (d : Nat) (neg : Bool) (ds F : List Nat) (hn : 1 ≤ ds.length)
    (hd : ∀ x ∈ ds, x < 10) (hF : 1 ≤ F.length) (hFd : ∀ x ∈ F, x < 10) :
    DecimalAt (pre ++ plainDecText d neg ds F ++ tail).toArray d neg pre.length ds.length F.length := by
  have hlen := length_plainIntText neg ds
  have e1 : pre ++ plainDecText d neg ds F ++ tail = pre ++ plainIntText neg ds ++ (d :: digitChars F ++ tail) := by
    simp [plainDecText, List.append_assoc]
  refine ⟨?_, ?_, hF, fun t ht => ?_⟩
  · rw [e1]; exact plainAt_of_list pre _ neg ds hn hd
  · rw [e1]
    have := code_after (pre ++ plainIntText neg ds) (d :: digitChars F ++ tail)
    simp only [List.length_append, hlen] at this
    have e : pre.length + (if neg = true then 1 else 0) + ds.length =
        pre.length + ((if neg = true then 1 else 0) + ds.length) := by omega
    rw [e, this]; simp
  · have e2 : pre ++ plainDecText d neg ds F ++ tail = (pre ++ plainIntText neg ds ++ [d]) ++ digitChars F ++ tail := by
      simp [plainDecText, List.append_assoc]
    rw [e2]
    have := code_mid (pre ++ plainIntText neg ds ++ [d]) (digitChars F) tail t (by simpa [digitChars] using ht)
    simp only [List.length_append, hlen, List.length_singleton] at this
    have e : pre.length + (if neg = true then 1 else 0) + ds.length + 1 + t =
        pre.length + ((if neg = true then 1 else 0) + ds.length) + 1 + t := by omega
    rw [e, this]
    exact isDig_digitChars F hFd t ht

/-- a plain integer in a carrier: ONE result, the WHOLE literal, for every `FamilyOK` family that contains a regex of
the `numbersWithPlaceHolderOf` form -/
theorem extract_plainInt (hT : TablesOK T) (sp : Nat → Bool) (hsp : ∀ c, isDig c → sp c = false)
    (fam : List (Nat × RE)) (hfam : FamilyOK fam = true) {lb1 : RE} {lb2 : Option RE} {F : List Item} {nla ph : RE}
    (hp : PartsOK T lb1 lb2 F nla ph) {idx : Nat}
    (hidx : (idx, numbersWithPlaceHolderOf lb1 (boundaryWith lb2) nla ph) ∈ fam)
    (pre post : Str) (hpre : PreOK T pre) {fol : Str → Bool} (hpost : PostOK T fol post) (neg : Bool) (ds : List Nat)
    (hn : 1 ≤ ds.length) (hd : ∀ x ∈ ds, x < 10)
    (ng : Nat → Option (Nat × Nat)) (ambs : List (List (Nat × Nat)))
    (hq : Quiet ng ambs pre.length (pre.length + (plainIntText neg ds).length)) :
    ∃ tag, tag ∈ fam.map (·.1) ∧
      numExtract sp (pre ++ plainIntText neg ds ++ post) (matchesOf T (pre ++ plainIntText neg ds ++ post).toArray fam) ng ambs =
        [⟨pre.length, (plainIntText neg ds).length, strip sp (plainIntText neg ds), tag⟩] := by
  have hlen := length_plainIntText neg ds
  have lit := plainAt_of_list pre post neg ds hn hd
  have hl := leftCtx_of_pre pre (plainIntText neg ds ++ post) hpre
  rw [← List.append_assoc] at hl
  have hr := rightCtx_of_post (pre ++ plainIntText neg ds) post hpost
  have hee : (pre ++ plainIntText neg ds).length = pre.length + (if neg then 1 else 0) + ds.length := by
    rw [List.length_append, hlen]; omega
  rw [hee] at hr
  have hfirst := plain_first hT hp hl lit hr
  have hpre' := pre_inert_pos pre (plainIntText neg ds ++ post) hpre
  rw [← List.append_assoc] at hpre'
  have hpost' := post_noDigit_pos (pre ++ plainIntText neg ds) post hpost
  rw [hee] at hpost'
  have hdig := lit.digits 0 hn
  obtain ⟨tag, htag, heq⟩ := extract_single (T := T) sp (pre ++ plainIntText neg ds ++ post) fam ng ambs hfam
    (a := pre.length) (e := pre.length + (if neg then 1 else 0) + ds.length)
    (by omega) (by simp [hlen]; omega) hpre' hpost'
    (code (pre ++ plainIntText neg ds ++ post).toArray (pre.length + (if neg then 1 else 0) + 0))
    (by rw [code_toArray]; exact getD_mem _ _ (by simp [hlen]; omega))
    (hsp _ hdig) ⟨_, hidx, hfirst⟩ hq.noNeg (by
      have := hq.noAmb
      rw [hlen] at this
      intro amb h1 p h2
      have := this amb h1 p h2
      omega)
  refine ⟨tag, htag, ?_⟩
  rw [heq]
  have e1 : pre.length + (if neg then 1 else 0) + ds.length - pre.length = (plainIntText neg ds).length := by
    rw [hlen]; omega
  rw [e1, sl_mid]

/-- a plain decimal in a carrier: ONE result, the WHOLE literal, for every `FamilyOK` family that contains a regex of
the `doubleDecimalPointOf` form whose mark class contains the literal's decimal mark -/
theorem extract_plainDec (hT : TablesOK T) (sp : Nat → Bool) (hsp : ∀ c, isDig c → sp c = false)
    (fam : List (Nat × RE)) (hfam : FamilyOK fam = true) {lb1 : RE} {lb2 : Option RE} {F : List Item} {nla ph : RE}
    (hp : PartsOK T lb1 lb2 F nla ph) {marks : List Item} {d : Nat} (hd0 : 0 < d)
    (hdm : clsTest T marks false d = true) (hdd : T.digit d = false) {idx : Nat}
    (hidx : (idx, doubleDecimalPointOf lb1 (boundaryWith lb2) marks nla ph) ∈ fam)
    (pre post : Str) (hpre : PreOK T pre) {fol : Str → Bool} (hpost : PostOK T fol post) (neg : Bool) (ds Fr : List Nat)
    (hn : 1 ≤ ds.length) (hd : ∀ x ∈ ds, x < 10) (hF : 1 ≤ Fr.length) (hFd : ∀ x ∈ Fr, x < 10)
    (ng : Nat → Option (Nat × Nat)) (ambs : List (List (Nat × Nat)))
    (hq : Quiet ng ambs pre.length (pre.length + (plainDecText d neg ds Fr).length)) :
    ∃ tag, tag ∈ fam.map (·.1) ∧
      numExtract sp (pre ++ plainDecText d neg ds Fr ++ post)
        (matchesOf T (pre ++ plainDecText d neg ds Fr ++ post).toArray fam) ng ambs =
        [⟨pre.length, (plainDecText d neg ds Fr).length, strip sp (plainDecText d neg ds Fr), tag⟩] := by
  have hlen := length_plainDecText d neg ds Fr
  have lit := decimalAt_of_list pre post d neg ds Fr hn hd hF hFd
  have hl := leftCtx_of_pre pre (plainDecText d neg ds Fr ++ post) hpre
  rw [← List.append_assoc] at hl
  have hr := rightCtx_of_post (pre ++ plainDecText d neg ds Fr) post hpost
  have hee : (pre ++ plainDecText d neg ds Fr).length =
      pre.length + (if neg then 1 else 0) + ds.length + 1 + Fr.length := by
    rw [List.length_append, hlen]; omega
  rw [hee] at hr
  have hfirst := decimal_first hT hp hd0 hdm hdd hl lit hr
  have hpre' := pre_inert_pos pre (plainDecText d neg ds Fr ++ post) hpre
  rw [← List.append_assoc] at hpre'
  have hpost' := post_noDigit_pos (pre ++ plainDecText d neg ds Fr) post hpost
  rw [hee] at hpost'
  have hdig := lit.int.digits 0 hn
  obtain ⟨tag, htag, heq⟩ := extract_single (T := T) sp (pre ++ plainDecText d neg ds Fr ++ post) fam ng ambs hfam
    (a := pre.length) (e := pre.length + (if neg then 1 else 0) + ds.length + 1 + Fr.length)
    (by omega) (by simp [hlen]; omega) hpre' hpost'
    (code (pre ++ plainDecText d neg ds Fr ++ post).toArray (pre.length + (if neg then 1 else 0) + 0))
    (by rw [code_toArray]; exact getD_mem _ _ (by simp [hlen]; omega))
    (hsp _ hdig) ⟨_, hidx, hfirst⟩ hq.noNeg (by
      have := hq.noAmb
      rw [hlen] at this
      intro amb h1 p h2
      have := this amb h1 p h2
      omega)
  refine ⟨tag, htag, ?_⟩
  rw [heq]
  have e1 : pre.length + (if neg then 1 else 0) + ds.length + 1 + Fr.length - pre.length =
      (plainDecText d neg ds Fr).length := by rw [hlen]; omega
  rw [e1, sl_mid]

end RTV.NumExtract
