import RTV.Lemmas.SpecRun
/-! Kernel evaluation of the spec cases (C19 through the model), family `URL (English), second half`. -/
namespace RTV.Seq
set_option maxRecDepth 100000
theorem spec_url_en_b_fast : urlSpecOK fastSeqEnv false (RTV.Gen.specCases_urlEn.drop 23) = true := by decide +kernel
end RTV.Seq
