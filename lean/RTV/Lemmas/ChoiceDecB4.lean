import RTV.Lemmas.Choice
/-! Kernel evaluation of the (affirmative, negative) pairs with a skin-tone modifier, part 3. -/
namespace RTV.Choice
set_option maxRecDepth 100000
theorem both_skin_c_fast : bothSkinOn fastEnv (((alts true).drop 10).drop 5) = true := by decide +kernel
end RTV.Choice
