import RTV.Lemmas.Factory
import RTV.Model.Conc
/-! Helper lemmas for `RTV/Props/C02.lean`: the interleaving invariant of `RTV.Model.Conc`. -/
namespace RTV.Conc
open RTV.Py RTV.Factory

/-- Every cached object sits under the key of the constructor call that built it and that constructor is a
registered one. (Under interleaving an entry may be overwritten by an equal-key object: uniqueness of object
identities is not part of this invariant.) -/
def CacheOk (cfg : Cfg) (cache : List (Key × Obj)) : Prop :=
  ∀ k m, (k, m) ∈ cache → k = keyOf m.id ∧ (m.id.type, m.id.culture) ∈ cfg.regs m.id.kind

theorem cacheOk_of_inv {cfg : Cfg} {st : State} (h : Inv cfg st) : CacheOk cfg st.cache :=
  fun k m hm => ⟨(h.wf k m hm).1, (h.wf k m hm).2.1⟩

theorem cacheOk_dictSet {cfg : Cfg} {cache : List (Key × Obj)} (h : CacheOk cfg cache) (k : Key) (m : Obj)
    (hk : k = keyOf m.id) (hr : (m.id.type, m.id.culture) ∈ cfg.regs m.id.kind) : CacheOk cfg (dictSet k m cache) := by
  intro k' m' hm'
  rcases mem_dictSet hm' with h1 | h1
  · injection h1 with h2 h3; subst h2; subst h3; exact ⟨hk, hr⟩
  · exact h k' m' h1

/-- what the thread-local program counter promises -/
def PcOk (cfg : Cfg) (th : Thread) : Prop :=
  match th.pc with
  | .start => True
  | .store k m => ∃ q rest, th.todo = q :: rest ∧ k = keyOf m.id ∧
      (m.id.type, m.id.culture) ∈ cfg.regs m.id.kind ∧ coldReq cfg q = .ok m.id
  | .start2 => ∃ q rest, th.todo = q :: rest ∧ q.fb = true ∧
      tryRoute cfg q.kind q.type q.culture q.options = none

/-- A thread relative to its original request list: it has answered the first `n` requests, each with the
answer that request gets alone on an empty cache. -/
def ThreadOk (cfg : Cfg) (reqs : List Req) (th : Thread) : Prop :=
  (∃ n, th.todo = reqs.drop n ∧ th.outs.map Out.erase = (reqs.take n).map (fun q => exceptE (coldReq cfg q))) ∧
  PcOk cfg th

theorem take_drop_succ {α} (l : List α) (n : Nat) (q : α) (rest : List α) (h : l.drop n = q :: rest) :
    l.take (n + 1) = l.take n ++ [q] ∧ l.drop (n + 1) = rest := by
  induction l generalizing n with
  | nil => simp at h
  | cons a l ih =>
    cases n with
    | zero => simp at h; simp [h.1, h.2]
    | succ n =>
      simp only [List.drop_succ_cons] at h
      obtain ⟨h1, h2⟩ := ih n h
      simp [h1, h2]

theorem finish_ok (cfg : Cfg) (reqs : List Req) (th : Thread) (q : Req) (rest : List Req) (o : Out)
    (hth : ThreadOk cfg reqs th) (htodo : th.todo = q :: rest) (ho : o.erase = exceptE (coldReq cfg q)) :
    ThreadOk cfg reqs (finish th o) := by
  obtain ⟨⟨n, h1, h2⟩, _⟩ := hth
  rw [htodo] at h1
  obtain ⟨t1, t2⟩ := take_drop_succ reqs n q rest h1.symm
  refine ⟨⟨n + 1, ?_, ?_⟩, by simp [PcOk, finish]⟩
  · simp [finish, htodo, t2]
  · simp [finish, h2, t1, ho]

theorem hit_cold (cfg : Cfg) (cache : List (Key × Obj)) (hc : CacheOk cfg cache) (q : Req)
    (hown : Owned cfg q.kind q.type) (m : Obj)
    (hg : dictGet ⟨q.type, q.culture, q.options⟩ cache = some m) : coldReq cfg q = .ok m.id := by
  obtain ⟨hk, hr⟩ := hc _ _ (dictGet_mem hg)
  have hk' : (⟨q.type, q.culture, q.options⟩ : Key) = ⟨m.id.type, some m.id.culture, m.id.options⟩ := hk
  injection hk' with h1 h2 h3
  have hkind : m.id.kind = q.kind := hown _ _ (by rw [h1]; exact hr)
  have hreg : (q.type, m.id.culture) ∈ cfg.regs q.kind := by rw [← hkind, h1]; exact hr
  unfold coldReq
  rw [h2, route_registered cfg q.kind q.type m.id.culture q.fb q.options hreg]
  cases hmid : m.id
  simp_all

theorem route_of_tryRoute_none (cfg : Cfg) (q : Req)
    (h : tryRoute cfg q.kind q.type q.culture q.options = none) :
    coldReq cfg q = route cfg q.kind q.type none q.fb q.options := by
  unfold coldReq
  apply route_unreg
  intro cs hcs hmem
  simp [tryRoute, hcs, hmem] at h

theorem hit2_cold (cfg : Cfg) (cache : List (Key × Obj)) (hc : CacheOk cfg cache) (q : Req)
    (hown : Owned cfg q.kind q.type) (hfb : q.fb = true)
    (hn : tryRoute cfg q.kind q.type q.culture q.options = none) (m : Obj)
    (hg : dictGet ⟨q.type, some cfg.fallback, q.options⟩ cache = some m) : coldReq cfg q = .ok m.id := by
  obtain ⟨hk, hr⟩ := hc _ _ (dictGet_mem hg)
  have hk' : (⟨q.type, some cfg.fallback, q.options⟩ : Key) = ⟨m.id.type, some m.id.culture, m.id.options⟩ := hk
  injection hk' with h1 h2 h3
  injection h2 with h2
  have hkind : m.id.kind = q.kind := hown _ _ (by rw [h1]; exact hr)
  have hreg : (q.type, cfg.fallback) ∈ cfg.regs q.kind := by rw [← hkind, h1, h2]; exact hr
  rw [route_of_tryRoute_none cfg q hn]
  simp only [route, hfb, hreg, decide_true, Bool.and_self, if_true]
  cases hmid : m.id
  simp_all

theorem afterMiss_some (cfg : Cfg) (q : Req) (c : Option Str) (next : Nat) (k : Key) (m : Obj)
    (h : afterMiss cfg q c next = some (k, m)) :
    k = keyOf m.id ∧ (m.id.type, m.id.culture) ∈ cfg.regs m.id.kind ∧
    ∃ cs, c = some cs ∧ (q.type, cs) ∈ cfg.regs q.kind ∧ m.id = ⟨q.kind, q.type, cs, q.options⟩ := by
  unfold afterMiss at h
  cases c with
  | none => simp at h
  | some cs =>
    simp only at h
    split at h
    · injection h with h; injection h with h1 h2
      subst h1; subst h2
      exact ⟨rfl, by assumption, cs, rfl, by assumption, rfl⟩
    · simp at h

theorem afterMiss_none (cfg : Cfg) (q : Req) (c : Option Str) (next : Nat)
    (h : afterMiss cfg q c next = none) : tryRoute cfg q.kind q.type c q.options = none := by
  unfold afterMiss at h
  cases c with
  | none => rfl
  | some cs =>
    simp only at h
    split at h
    · simp at h
    · simp [tryRoute, *]

/-- One atomic step of any thread keeps the cache invariant and every thread's invariant. -/
theorem sysStep_ok (cfg : Cfg) (reqs : Nat → List Req) (s : Sys) (i : Nat)
    (hown : ∀ j, ∀ q ∈ reqs j, Owned cfg q.kind q.type)
    (hc : CacheOk cfg s.cache) (ht : ∀ j, ThreadOk cfg (reqs j) (s.threads j)) :
    CacheOk cfg (sysStep cfg s i).cache ∧ ∀ j, ThreadOk cfg (reqs j) ((sysStep cfg s i).threads j) := by
  unfold sysStep
  simp only []
  cases htodo : (s.threads i).todo with
  | nil => exact ⟨hc, ht⟩
  | cons q rest =>
    have hq_mem : q ∈ reqs i := by
      obtain ⟨⟨n, h1, _⟩, _⟩ := ht i
      rw [htodo] at h1
      have : q ∈ (reqs i).drop n := by rw [← h1]; simp
      exact List.mem_of_mem_drop this
    have hqown := hown i q hq_mem
    -- all other threads are untouched
    have others : ∀ (t : Thread), ThreadOk cfg (reqs i) t →
        ∀ j, ThreadOk cfg (reqs j) ((fun j => if j = i then t else s.threads j) j) := by
      intro t hti j
      by_cases hj : j = i
      · subst hj; simpa using hti
      · simpa [hj] using ht j
    simp only
    cases hpc : (s.threads i).pc with
    | start =>
      simp only
      cases hg : dictGet ⟨q.type, q.culture, q.options⟩ s.cache with
      | some m =>
        refine ⟨hc, others _ (finish_ok cfg _ _ q rest _ (ht i) htodo ?_)⟩
        simp [Out.erase, hit_cold cfg s.cache hc q hqown m hg, exceptE]
      | none =>
        simp only
        cases ha : afterMiss cfg q q.culture s.next with
        | some km =>
          obtain ⟨k, m⟩ := km
          obtain ⟨a1, a2, cs, a3, a4, a5⟩ := afterMiss_some cfg q q.culture s.next k m ha
          refine ⟨hc, others _ ⟨by simpa [htodo] using (ht i).1, ?_⟩⟩
          simp only [PcOk]
          refine ⟨q, rest, rfl, a1, a2, ?_⟩
          unfold coldReq
          rw [a3, route_registered cfg q.kind q.type cs q.fb q.options a4, a5]
        | none =>
          have hn := afterMiss_none cfg q q.culture s.next ha
          simp only
          cases hfb : q.fb with
          | true =>
            refine ⟨hc, others _ ⟨by simpa [htodo] using (ht i).1, ?_⟩⟩
            simp only [PcOk]
            exact ⟨q, rest, rfl, hfb, hn⟩
          | false =>
            refine ⟨hc, others _ (finish_ok cfg _ _ q rest _ (ht i) htodo ?_)⟩
            rw [route_of_tryRoute_none cfg q hn]
            simp [Out.erase, route, hfb, exceptE]
    | store k m =>
      have hp := (ht i).2
      simp only [PcOk, hpc] at hp
      obtain ⟨q', rest', h1, h2, h3, h4⟩ := hp
      rw [htodo] at h1
      injection h1 with h1 h1'
      subst h1
      refine ⟨cacheOk_dictSet hc k m h2 h3, others _ (finish_ok cfg _ _ q rest _ (ht i) htodo ?_)⟩
      simp [Out.erase, h4, exceptE]
    | start2 =>
      have hp := (ht i).2
      simp only [PcOk, hpc] at hp
      obtain ⟨q', rest', h1, hfb, hn⟩ := hp
      rw [htodo] at h1
      injection h1 with h1 h1'
      subst h1
      simp only
      cases hg : dictGet ⟨q.type, some cfg.fallback, q.options⟩ s.cache with
      | some m =>
        refine ⟨hc, others _ (finish_ok cfg _ _ q rest _ (ht i) htodo ?_)⟩
        simp [Out.erase, hit2_cold cfg s.cache hc q hqown hfb hn m hg, exceptE]
      | none =>
        simp only
        cases ha : afterMiss cfg q (some cfg.fallback) s.next with
        | some km =>
          obtain ⟨k, m⟩ := km
          obtain ⟨a1, a2, cs, a3, a4, a5⟩ := afterMiss_some cfg q (some cfg.fallback) s.next k m ha
          injection a3 with a3
          subst a3
          refine ⟨hc, others _ ⟨by simpa [htodo] using (ht i).1, ?_⟩⟩
          simp only [PcOk]
          refine ⟨q, rest, rfl, a1, a2, ?_⟩
          rw [route_of_tryRoute_none cfg q hn, a5]
          simp [route, hfb, a4]
        | none =>
          have hn2 := afterMiss_none cfg q (some cfg.fallback) s.next ha
          refine ⟨hc, others _ (finish_ok cfg _ _ q rest _ (ht i) htodo ?_)⟩
          rw [route_of_tryRoute_none cfg q hn]
          have : (q.type, cfg.fallback) ∉ cfg.regs q.kind := by
            intro hmem; simp [tryRoute, hmem] at hn2
          simp [Out.erase, route, this, exceptE]

theorem runSched_ok (cfg : Cfg) (reqs : Nat → List Req) (sched : List Nat) (s : Sys)
    (hown : ∀ j, ∀ q ∈ reqs j, Owned cfg q.kind q.type)
    (hc : CacheOk cfg s.cache) (ht : ∀ j, ThreadOk cfg (reqs j) (s.threads j)) :
    CacheOk cfg (runSched cfg s sched).cache ∧ ∀ j, ThreadOk cfg (reqs j) ((runSched cfg s sched).threads j) := by
  induction sched generalizing s with
  | nil => exact ⟨hc, ht⟩
  | cons i rest ih =>
    obtain ⟨a, b⟩ := sysStep_ok cfg reqs s i hown hc ht
    exact ih (sysStep cfg s i) a b

end RTV.Conc
