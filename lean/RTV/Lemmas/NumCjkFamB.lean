import RTV.Lemmas.NumCjkFam
/-! kernel evaluation: Chinese signs, dozens, spelled percentages -/
namespace RTV.NumCjk
theorem zh_neg_fam : allBelow 50 zhNeg = true := by decide +kernel
theorem zh_dozen_fam : allBelow 50 zhDozen = true := by decide +kernel
theorem zh_percent_fam : allBelow 60 zhPercent = true := by decide +kernel
end RTV.NumCjk
