import RTV.Lemmas.Choice
/-! Kernel evaluation of the same-polarity pairs (words / bare emoji) and the repeated expressions (every alternative) on the regenerated data. -/
namespace RTV.Choice
set_option maxRecDepth 100000
theorem same_polarity_fast : samePolarityOK fastEnv = true := by decide +kernel
theorem repeats_fast : repeatsOK fastEnv = true := by decide +kernel
end RTV.Choice
