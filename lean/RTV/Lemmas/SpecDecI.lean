import RTV.Lemmas.SpecRun
/-! Kernel evaluation of the spec cases (C19 through the model), family `URL (Chinese configuration), second half`. -/
namespace RTV.Seq
set_option maxRecDepth 100000
theorem spec_url_zh_b_fast : urlSpecOK fastSeqEnv true (RTV.Gen.specCases_urlZh.drop 21) = true := by decide +kernel
end RTV.Seq
