import RTV.Model.Re
/-!
Generic membership lemmas for the all-ends matcher `RTV.Re.ends`.  `mem_*` characterise one constructor;
`seq_*` are the existential-free forms used to rewrite a right-nested, `eps`-terminated regex (the translator's
normal form) into a proposition about the code points at `i, i+1, …`.
-/
namespace RTV.Re

variable {T : Tables} {s : Array Nat} {i j : Nat}

theorem mem_eps : j ∈ ends T s .eps i ↔ j = i := by simp [ends]

theorem mem_cls {items : List Item} {neg : Bool} :
    j ∈ ends T s (.cls items neg) i ↔ i < s.size ∧ clsTest T items neg (code s i) = true ∧ j = i + 1 := by
  unfold ends
  split <;> simp_all

theorem mem_seq {a b : RE} : j ∈ ends T s (.seq a b) i ↔ ∃ k, k ∈ ends T s a i ∧ j ∈ ends T s b k := by
  simp [ends, List.mem_flatMap]

theorem mem_alt {a b : RE} : j ∈ ends T s (.alt a b) i ↔ j ∈ ends T s a i ∨ j ∈ ends T s b i := by
  simp [ends]

theorem mem_grp {n : Nat} {a : RE} : j ∈ ends T s (.grp n a) i ↔ j ∈ ends T s a i := by simp [ends]

theorem mem_wordB : j ∈ ends T s .wordB i ↔ isWordB T s i = true ∧ j = i := by
  unfold ends; split <;> simp_all

theorem mem_nwordB : j ∈ ends T s .nwordB i ↔ isWordB T s i = false ∧ j = i := by
  unfold ends; split <;> simp_all

theorem mem_bol : j ∈ ends T s .bol i ↔ i = 0 ∧ j = i := by
  unfold ends; split <;> simp_all

theorem mem_eos : j ∈ ends T s .eos i ↔ i = s.size ∧ j = i := by
  unfold ends; split <;> simp_all

/-- the order of trying does not matter for membership -/
theorem mem_repEnds_zero {f : Nat → List Nat} {g : Bool} {mn : Nat} :
    j ∈ repEnds f g 0 mn i ↔ mn = 0 ∧ j = i := by
  unfold repEnds; split <;> simp_all

theorem mem_repEnds_succ {f : Nat → List Nat} {g : Bool} {mn mx : Nat} :
    j ∈ repEnds f g (mx + 1) mn i ↔ (∃ k, k ∈ f i ∧ j ∈ repEnds f g mx (mn - 1) k) ∨ (mn = 0 ∧ j = i) := by
  rw [repEnds]
  cases g <;> by_cases h : mn = 0 <;> simp [h, List.mem_flatMap, or_comm]

theorem mem_rep_zero {a : RE} {mn : Nat} {g : Bool} : j ∈ ends T s (.rep a mn 0 g) i ↔ mn = 0 ∧ j = i := by
  simp [ends, mem_repEnds_zero]

theorem mem_rep_succ {a : RE} {mn mx : Nat} {g : Bool} :
    j ∈ ends T s (.rep a mn (mx + 1) g) i ↔
      (∃ k, k ∈ ends T s a i ∧ j ∈ ends T s (.rep a (mn - 1) mx g) k) ∨ (mn = 0 ∧ j = i) := by
  simp [ends, mem_repEnds_succ]

/-- greedy and lazy repeats have the same set of ends -/
theorem mem_repEnds_greedy_irrel {f : Nat → List Nat} {mn : Nat} (mx : Nat) :
    ∀ {i}, j ∈ repEnds f true mx mn i ↔ j ∈ repEnds f false mx mn i := by
  induction mx generalizing mn with
  | zero => intro i; simp [mem_repEnds_zero]
  | succ n ih => intro i; simp only [mem_repEnds_succ, ih]

/-! ### existential-free forms for right-nested sequences -/

theorem seq_eps {b : RE} : j ∈ ends T s (.seq .eps b) i ↔ j ∈ ends T s b i := by
  simp [mem_seq, mem_eps]

theorem seq_eps_right {a : RE} : j ∈ ends T s (.seq a .eps) i ↔ j ∈ ends T s a i := by
  simp [mem_seq, mem_eps]

theorem seq_cls {items : List Item} {neg : Bool} {b : RE} :
    j ∈ ends T s (.seq (.cls items neg) b) i ↔
      i < s.size ∧ clsTest T items neg (code s i) = true ∧ j ∈ ends T s b (i + 1) := by
  simp only [mem_seq, mem_cls]
  constructor
  · rintro ⟨k, ⟨h1, h2, rfl⟩, h3⟩; exact ⟨h1, h2, h3⟩
  · rintro ⟨h1, h2, h3⟩; exact ⟨i + 1, ⟨h1, h2, rfl⟩, h3⟩

theorem seq_seq {a b c : RE} : j ∈ ends T s (.seq (.seq a b) c) i ↔ j ∈ ends T s (.seq a (.seq b c)) i := by
  simp only [mem_seq]
  constructor
  · rintro ⟨k, ⟨m, h1, h2⟩, h3⟩; exact ⟨m, h1, k, h2, h3⟩
  · rintro ⟨m, h1, k, h2, h3⟩; exact ⟨k, ⟨m, h1, h2⟩, h3⟩

theorem seq_alt {a b c : RE} :
    j ∈ ends T s (.seq (.alt a b) c) i ↔ j ∈ ends T s (.seq a c) i ∨ j ∈ ends T s (.seq b c) i := by
  simp only [mem_seq, mem_alt]
  constructor
  · rintro ⟨k, h1 | h1, h2⟩
    · exact .inl ⟨k, h1, h2⟩
    · exact .inr ⟨k, h1, h2⟩
  · rintro (⟨k, h1, h2⟩ | ⟨k, h1, h2⟩)
    · exact ⟨k, .inl h1, h2⟩
    · exact ⟨k, .inr h1, h2⟩

theorem seq_grp {n : Nat} {a c : RE} : j ∈ ends T s (.seq (.grp n a) c) i ↔ j ∈ ends T s (.seq a c) i := by
  simp only [mem_seq, mem_grp]

theorem seq_wordB {b : RE} : j ∈ ends T s (.seq .wordB b) i ↔ isWordB T s i = true ∧ j ∈ ends T s b i := by
  simp only [mem_seq, mem_wordB]
  constructor
  · rintro ⟨k, ⟨h1, rfl⟩, h2⟩; exact ⟨h1, h2⟩
  · rintro ⟨h1, h2⟩; exact ⟨i, ⟨h1, rfl⟩, h2⟩

theorem seq_nwordB {b : RE} : j ∈ ends T s (.seq .nwordB b) i ↔ isWordB T s i = false ∧ j ∈ ends T s b i := by
  simp only [mem_seq, mem_nwordB]
  constructor
  · rintro ⟨k, ⟨h1, rfl⟩, h2⟩; exact ⟨h1, h2⟩
  · rintro ⟨h1, h2⟩; exact ⟨i, ⟨h1, rfl⟩, h2⟩

theorem seq_rep_zero {a c : RE} {mn : Nat} {g : Bool} :
    j ∈ ends T s (.seq (.rep a mn 0 g) c) i ↔ mn = 0 ∧ j ∈ ends T s c i := by
  simp only [mem_seq, mem_rep_zero]
  constructor
  · rintro ⟨k, ⟨h1, rfl⟩, h2⟩; exact ⟨h1, h2⟩
  · rintro ⟨h1, h2⟩; exact ⟨i, ⟨h1, rfl⟩, h2⟩

theorem seq_rep_succ {a c : RE} {mn mx : Nat} {g : Bool} :
    j ∈ ends T s (.seq (.rep a mn (mx + 1) g) c) i ↔
      j ∈ ends T s (.seq a (.seq (.rep a (mn - 1) mx g) c)) i ∨ (mn = 0 ∧ j ∈ ends T s c i) := by
  simp only [mem_seq, mem_rep_succ]
  constructor
  · rintro ⟨k, (⟨m, h1, h2⟩ | ⟨h1, rfl⟩), h3⟩
    · exact .inl ⟨m, h1, k, h2, h3⟩
    · exact .inr ⟨h1, h3⟩
  · rintro (⟨m, h1, k, h2, h3⟩ | ⟨h1, h3⟩)
    · exact ⟨k, .inl ⟨m, h1, h2⟩, h3⟩
    · exact ⟨i, .inr ⟨h1, rfl⟩, h3⟩

/-! ### classes -/

theorem clsTest_range {lo hi c : Nat} : clsTest T [.range lo hi] false c = true ↔ lo ≤ c ∧ c ≤ hi := by
  simp [clsTest, Item.test]

theorem clsTest_digit {c : Nat} : clsTest T [.digit] false c = true ↔ T.digit c = true := by
  simp [clsTest, Item.test]

theorem clsTest_cons {it : Item} {rest : List Item} {c : Nat} :
    clsTest T (it :: rest) false c = true ↔ it.test T c = true ∨ clsTest T rest false c = true := by
  simp [clsTest]

theorem clsTest_nil {c : Nat} : clsTest T [] false c = true ↔ False := by simp [clsTest]

theorem code_lt_size (h : 0 < code s i) : i < s.size := by
  unfold code at h
  by_cases hi : i < s.size
  · exact hi
  · simp [Array.getD, hi] at h

/-- a positive range with `0 < lo` needs no separate in-bounds condition (`code` is `0` past the end) -/
theorem seq_range {lo hi : Nat} {b : RE} (hlo : 0 < lo) :
    j ∈ ends T s (.seq (.cls [.range lo hi] false) b) i ↔
      lo ≤ code s i ∧ code s i ≤ hi ∧ j ∈ ends T s b (i + 1) := by
  rw [seq_cls, clsTest_range]
  constructor
  · rintro ⟨_, ⟨h1, h2⟩, h3⟩; exact ⟨h1, h2, h3⟩
  · rintro ⟨h1, h2, h3⟩; exact ⟨code_lt_size (by omega), ⟨h1, h2⟩, h3⟩

/-! ### the engine's view: first end, finditer -/

theorem firstEnd_mem {r : RE} {k : Nat} (h : firstEnd T s r i = some k) : k ∈ ends T s r i := by
  unfold firstEnd at h
  exact List.mem_of_head? h

/-- if the set of ends from `i` is exactly `{k}`, a backtracking engine reports `k` -/
theorem firstEnd_of_unique {r : RE} {k : Nat} (h : ∀ j, j ∈ ends T s r i ↔ j = k) :
    firstEnd T s r i = some k := by
  unfold firstEnd
  cases hl : ends T s r i with
  | nil => have := (h k).2 rfl; simp [hl] at this
  | cons x xs => have := (h x).1 (by simp [hl]); simp [this]

/-- every span reported by `finditer` is a match of the regex -/
theorem findAllFrom_sound {r : RE} (fuel pos : Nat) :
    ∀ p ∈ findAllFrom T s r fuel pos, p.2 ∈ ends T s r p.1 ∧ pos ≤ p.1 := by
  induction fuel generalizing pos with
  | zero => simp [findAllFrom]
  | succ n ih =>
    intro p hp
    rw [findAllFrom] at hp
    split at hp
    · simp at hp
    · split at hp
      · rename_i k hk
        rcases List.mem_cons.1 hp with rfl | hp
        · exact ⟨firstEnd_mem hk, Nat.le_refl _⟩
        · have := ih _ p hp
          refine ⟨this.1, ?_⟩
          have h2 := this.2
          split at h2 <;> omega
      · have := ih _ p hp
        exact ⟨this.1, by omega⟩

theorem findAll_sound {r : RE} : ∀ p ∈ findAll T s r, Matches T r s p.1 p.2 := by
  intro p hp
  exact (findAllFrom_sound _ _ p hp).1

end RTV.Re
