import RTV.Lemmas.NumExtract
/-!
What a backtracking engine reports FIRST for `BaseNumbers.IntegerRegexDefinition` / `DoubleRegexDefinition`
(`_generate_format_regex`) at the start of a grouped literal — for any number of thousands groups (the repeat
`({mark}\d{3})+` is handled by `rep_det_cons`, i.e. by induction over the number of groups), any number of decimals.
Position language: `a` = start of the literal (the sign if there is one), `a0` = first digit, `h` = length of the
leading group (1..3), `g` = number of thousands groups, `e` = end.
-/
namespace RTV.NumExtract
open RTV.Py RTV.Re RTV.Span

/-- what the theorems need of the engine's `\d \w \s` tables (true of the running engine: `tables_ok`) -/
structure TablesOK (T : Tables) : Prop where
  dig : ∀ c, 48 ≤ c → c ≤ 57 → T.digit c = true
  wrd : ∀ c, 48 ≤ c → c ≤ 57 → T.word c = true
  dsp : ∀ c, 48 ≤ c → c ≤ 57 → T.space c = false
  d32 : T.digit 32 = false
  w32 : T.word 32 = false
  d45 : T.digit 45 = false
  w45 : T.word 45 = false
  d44 : T.digit 44 = false
  w44 : T.word 44 = false
  d46 : T.digit 46 = false
  w46 : T.word 46 = false

/-- an ASCII digit -/
def isDig (c : Nat) : Prop := 48 ≤ c ∧ c ≤ 57

variable {T : Tables} {s : Array Nat}

/-- re-normalise to right-nested sequences after a step -/
local macro "nrm" : tactic =>
  `(tactic| try simp only [ends_seq_grp, ends_seq_seq, ends_seq_alt, ends_seq_eps])

theorem isDig_lt {i : Nat} (h : isDig (code s i)) : i < s.size := code_lt_size (by unfold isDig at h; omega)

theorem digit_step (hT : TablesOK T) {i : Nat} (h : isDig (code s i)) :
    i < s.size ∧ clsTest T [.digit] false (code s i) = true :=
  ⟨isDig_lt h, by simp [clsTest, Item.test, hT.dig _ h.1 h.2]⟩

theorem chr_step {c i : Nat} (hc : 0 < c) (h : code s i = c) :
    i < s.size ∧ clsTest T [.range c c] false (code s i) = true :=
  ⟨code_lt_size (by omega), by simp [clsTest, Item.test, h]⟩

theorem chr_no {c i : Nat} (h : code s i ≠ c) : i < s.size → clsTest T [.range c c] false (code s i) = false := by
  intro _; simp [clsTest, Item.test]; omega

theorem code_size : code s s.size = 0 := by simp [code, Array.getD]

/-! ### pieces -/

/-- `\s*` in front of a character that is not white space consumes nothing -/
theorem ends_blanks_none (C : RE) {p : Nat} (h : p < s.size → T.space (code s p) = false) :
    ends T s (.seq blanks C) p = ends T s C p := by
  unfold blanks
  rw [ends_seq_repU]
  have hf : ends T s (.seq (.cls [.space] false) .eps) p = [] :=
    ends_cls_eps_no (fun hp => by simp [clsTest, Item.test, h hp])
  have : 0 + s.size + 1 = (0 + s.size) + 1 := rfl
  rw [this, repEnds]
  simp [hf]

/-- `(?<=\b)` -/
theorem ends_lookbehind_wordB (C : RE) (a : Nat) :
    ends T s (.seq (.look false false (.seq .wordB .eps)) C) a = if isWordB T s a then ends T s C a else [] := by
  rw [ends_seq_lookbehind]
  have hbody : ∀ k, ends T s (.seq .wordB .eps) k = if isWordB T s k then [k] else [] := by
    intro k; rw [ends_seq_wordB]; simp [ends]
  have hany : ((List.range (a + 1)).any fun k => (ends T s (.seq .wordB .eps) k).contains a) = isWordB T s a := by
    by_cases hw : isWordB T s a = true
    · rw [hw, List.any_eq_true]
      exact ⟨a, by simp, by rw [hbody, hw]; simp⟩
    · simp only [Bool.not_eq_true] at hw
      rw [hw, List.any_eq_false]
      intro k _
      rw [hbody]
      by_cases hk : isWordB T s k = true
      · simp only [hk, ↓reduceIte, List.contains_iff_mem, List.mem_singleton]
        intro h; subst h; simp [hw] at hk
      · simp [hk]
  rw [hany]
  cases isWordB T s a <;> simp

/-- a negative look-behind whose body must start with a digit passes when no digit precedes -/
theorem ends_notAfter (body C : RE) (hb : headS [.digit] body = true) {a : Nat}
    (hpre : ∀ k, k < a → T.digit (code s k) = false) :
    ends T s (.seq (.look false true body) C) a = ends T s C a := by
  rw [ends_seq_lookbehind]
  rw [lookbehind_none hb (fun k hk _ => by simp [clsTest, Item.test, hpre k hk])]
  simp

/-- the left context: nothing but a blank (or the start of the string) before `a`, no digit anywhere before -/
structure LeftCtx (T : Tables) (s : Array Nat) (a : Nat) : Prop where
  noDigit : ∀ k, k < a → T.digit (code s k) = false
  blank : a = 0 ∨ code s (a - 1) = 32

theorem wordAt_before (hT : TablesOK T) {a : Nat} (hl : LeftCtx T s a) : (decide (a > 0) && wordAt T s (a - 1)) = false := by
  rcases hl.blank with h | h
  · simp [h]
  · simp [wordAt, h, hT.w32]

/-- the sign / boundary prefix in front of a negative literal: consumes the `-` -/
theorem ends_signPrefix_neg (hT : TablesOK T) (C : RE) {a : Nat} (hl : LeftCtx T s a)
    (hs : code s a = 45) (hd : isDig (code s (a + 1))) :
    ends T s (.seq signPrefix C) a = ends T s C (a + 1) := by
  unfold signPrefix
  simp only [ends_seq_grp, ends_seq_seq, ends_seq_alt, ends_seq_eps]
  unfold notAfterNumber chr
  rw [ends_notAfter _ _ (by decide) hl.noDigit]
  simp only [ends_seq_seq, ends_seq_eps]
  rw [ends_seq_cls_yes _ (chr_step (T := T) (by omega) hs).1 (chr_step (T := T) (by omega) hs).2]
  nrm
  rw [ends_blanks_none _ (fun _ => hT.dsp _ hd.1 hd.2)]
  nrm
  rw [ends_lookbehind_wordB]
  have hw : isWordB T s a = false := by
    unfold isWordB
    rw [wordAt_before hT hl]
    simp [wordAt, hs, hT.w45]
  simp [hw]

/-- … and in front of an unsigned literal: consumes nothing -/
theorem ends_signPrefix_pos (hT : TablesOK T) (C : RE) {a : Nat} (hl : LeftCtx T s a)
    (hd : isDig (code s a)) :
    ends T s (.seq signPrefix C) a = ends T s C a := by
  unfold signPrefix
  simp only [ends_seq_grp, ends_seq_seq, ends_seq_alt, ends_seq_eps]
  unfold notAfterNumber notAfterMark chr
  rw [ends_notAfter _ _ (by decide) hl.noDigit]
  simp only [ends_seq_seq, ends_seq_eps]
  rw [ends_seq_cls_no _ (chr_no (by unfold isDig at hd; omega))]
  rw [ends_lookbehind_wordB]
  have hw : isWordB T s a = true := by
    unfold isWordB
    rw [wordAt_before hT hl]
    simp [wordAt, isDig_lt hd, hT.wrd _ hd.1 hd.2]
  simp only [hw, ↓reduceIte]
  nrm
  rw [ends_notAfter _ _ (by decide) hl.noDigit]
  nrm
  simp

/-- both cases: `a0` = position of the first digit -/
theorem ends_signPrefix (hT : TablesOK T) (C : RE) {a : Nat} (neg : Bool) (hl : LeftCtx T s a)
    (hs : neg = true → code s a = 45) (hd : isDig (code s (a + if neg then 1 else 0))) :
    ends T s (.seq signPrefix C) a = ends T s C (a + if neg then 1 else 0) := by
  cases neg with
  | true => exact ends_signPrefix_neg hT C hl (hs rfl) (by simpa using hd)
  | false => exact ends_signPrefix_pos hT C hl (by simpa using hd)

/-! ### digit runs and thousands groups -/

/-- `g` thousands groups `mark d d d` from position `i` -/
def GroupsAt (s : Array Nat) (m : Nat) (g i : Nat) : Prop :=
  ∀ u, u < g → code s (i + 4 * u) = m ∧ isDig (code s (i + 4 * u + 1)) ∧ isDig (code s (i + 4 * u + 2)) ∧
    isDig (code s (i + 4 * u + 3))

theorem ends_dig3 (hT : TablesOK T) {k : Nat} (h1 : isDig (code s k)) (h2 : isDig (code s (k + 1)))
    (h3 : isDig (code s (k + 2))) : ends T s (.seq dig3 .eps) k = [k + 3] := by
  unfold dig3
  rw [ends_seq_rep]
  have c : Chain (ends T s (.seq dig .eps)) 1 3 k := chain_cls 3 k (fun t ht => by
    have : t = 0 ∨ t = 1 ∨ t = 2 := by omega
    rcases this with rfl | rfl | rfl
    · exact digit_step hT h1
    · exact digit_step hT h2
    · exact digit_step hT h3)
  obtain ⟨h01, h02, h03, _⟩ := c
  have hr : repEnds (ends T s (.seq dig .eps)) true 3 3 k = [k + 3] := by
    simp [repEnds, h01, h02, h03]
  rw [hr]
  simp [ends]

theorem ends_group3 (hT : TablesOK T) (n m : Nat) (hm : 0 < m) {k : Nat} (h0 : code s k = m)
    (h1 : isDig (code s (k + 1))) (h2 : isDig (code s (k + 2))) (h3 : isDig (code s (k + 3))) :
    ends T s (.seq (group3 n m) .eps) k = [k + 4] := by
  unfold group3 chr
  simp only [ends_seq_grp, ends_seq_seq]
  rw [ends_seq_cls_yes _ (chr_step (T := T) hm h0).1 (chr_step (T := T) hm h0).2]
  have := ends_dig3 hT h1 h2 h3
  rw [ends_seq_eps_right] at this
  rw [ends_seq, ends_seq_eps_right, this]
  simp [ends]

theorem ends_group3_no (n m : Nat) {k : Nat} (h0 : code s k ≠ m) : ends T s (.seq (group3 n m) .eps) k = [] := by
  unfold group3 chr
  simp only [ends_seq_grp, ends_seq_seq]
  exact ends_seq_cls_no _ (chr_no h0)

theorem chain_groups (hT : TablesOK T) (n m : Nat) (hm : 0 < m) :
    ∀ g i, GroupsAt s m g i → Chain (ends T s (.seq (group3 n m) .eps)) 4 g i := by
  intro g
  induction g with
  | zero => intro i _; trivial
  | succ g ih =>
    intro i h
    obtain ⟨h0, h1, h2, h3⟩ := h 0 (by omega)
    refine ⟨ends_group3 hT n m hm (by simpa using h0) (by simpa using h1) (by simpa using h2) (by simpa using h3),
      ih (i + 4) (fun u hu => ?_)⟩
    have := h (u + 1) (by omega)
    have e : i + 4 * (u + 1) = i + 4 + 4 * u := by omega
    rw [e] at this
    exact this

theorem chain_digits (hT : TablesOK T) (g i : Nat) (h : ∀ t, t < g → isDig (code s (i + t))) :
    Chain (ends T s (.seq dig .eps)) 1 g i :=
  chain_cls g i (fun t ht => digit_step hT (h t ht))

/-- the right context: the literal ends at the end of the string or in front of a blank -/
def RightCtx (s : Array Nat) (e : Nat) : Prop := e = s.size ∨ code s e = 32

theorem right_not_digit (hT : TablesOK T) {e : Nat} (hr : RightCtx s e) :
    e < s.size → clsTest T [.digit] false (code s e) = false := by
  intro hlt
  rcases hr with h | h
  · omega
  · simp [clsTest, Item.test, h, hT.d32]

theorem right_not_mark {e m : Nat} (hm : m = 44 ∨ m = 46) (hr : RightCtx s e) : code s e ≠ m := by
  rcases hr with h | h
  · rw [h, code_size]; omega
  · rw [h]; omega

/-- `\d{1,3}` in front of a leading group of `h` digits followed by a non-digit: tries all `h` digits first -/
theorem ends_dig13 (hT : TablesOK T) (C : RE) {p h : Nat} (hh : 1 ≤ h ∧ h ≤ 3)
    (hd : ∀ t, t < h → isDig (code s (p + t))) (hstop : p + h < s.size → T.digit (code s (p + h)) = false) :
    ∃ rest, ends T s (.seq dig13 C) p = ends T s C (p + h) ++ rest := by
  unfold dig13
  rw [ends_seq_rep]
  obtain ⟨rest, hrest⟩ := rep_det_cons (f := ends T s (.seq dig .eps)) (w := 1) h p 1 3 (chain_digits hT h p hd)
    hh.1 hh.2 (Or.inr (by
      rw [Nat.mul_one]
      exact ends_cls_eps_no (fun hlt => by simp [clsTest, Item.test, hstop hlt])))
  rw [hrest, Nat.mul_one]
  exact ⟨rest.flatMap (ends T s C), by simp⟩

/-- `\d+` in front of `f ≥ 1` digits followed by a non-digit -/
theorem ends_digits1 (hT : TablesOK T) (C : RE) {p f : Nat} (hf : 1 ≤ f)
    (hd : ∀ t, t < f → isDig (code s (p + t))) (hstop : p + f < s.size → T.digit (code s (p + f)) = false) :
    ∃ rest, ends T s (.seq digits1 C) p = ends T s C (p + f) ++ rest := by
  unfold digits1
  rw [ends_seq_repU]
  have hsz : p + f ≤ s.size := by
    have := isDig_lt (hd (f - 1) (by omega)); omega
  obtain ⟨rest, hrest⟩ := rep_det_cons (f := ends T s (.seq dig .eps)) (w := 1) f p 1 (1 + s.size + 1)
    (chain_digits hT f p hd) hf (by omega) (Or.inr (by
      rw [Nat.mul_one]
      exact ends_cls_eps_no (fun hlt => by simp [clsTest, Item.test, hstop hlt])))
  rw [hrest, Nat.mul_one]
  exact ⟨rest.flatMap (ends T s C), by simp⟩

/-- `({mark}\d{3})+` in front of `g ≥ 1` groups followed by something that is not the mark -/
theorem ends_groups (hT : TablesOK T) (n m : Nat) (hm : 0 < m) (C : RE) {p g : Nat} (hg : 1 ≤ g)
    (hgr : GroupsAt s m g p) (hstop : code s (p + 4 * g) ≠ m) :
    ∃ rest, ends T s (.seq (.repU (.seq (group3 n m) .eps) 1 true) C) p = ends T s C (p + 4 * g) ++ rest := by
  rw [ends_seq_repU]
  have hsz : p + 4 * g ≤ s.size := by
    have := isDig_lt (hgr (g - 1) (by omega)).2.2.2; omega
  obtain ⟨rest, hrest⟩ := rep_det_cons (f := ends T s (.seq (group3 n m) .eps)) (w := 4) g p 1 (1 + s.size + 1)
    (chain_groups hT n m hm g p hgr) hg (by omega) (Or.inr (by
      have : p + g * 4 = p + 4 * g := by omega
      rw [this]
      exact ends_group3_no n m hstop))
  have : p + g * 4 = p + 4 * g := by omega
  rw [hrest, this]
  exact ⟨rest.flatMap (ends T s C), by simp⟩

/-- … and nothing at all when the first character is not the mark -/
theorem ends_groups_none (n m : Nat) (C : RE) {p : Nat} (hstop : code s p ≠ m) :
    ends T s (.seq (.repU (.seq (group3 n m) .eps) 1 true) C) p = [] := by
  rw [ends_seq_repU]
  rw [rep_det_nil (f := ends T s (.seq (group3 n m) .eps)) (w := 4) 0 p 1 _ trivial (by omega)
    (Or.inr (by simpa using ends_group3_no n m hstop))]
  simp

/-! ### the place holders -/

/-- the three place holders the extractors use (`(?=\D)|\b`, `\D|\b`, `\b`) -/
def IsPlaceHolder (ph : RE) : Prop := ph = placeHolderDefault ∨ ph = placeHolderDefaultEu ∨ ph = placeHolderPure

theorem wordB_at_end (hT : TablesOK T) {e : Nat} (he : 0 < e) (hd : isDig (code s (e - 1))) (hr : RightCtx s e) :
    isWordB T s e = true := by
  unfold isWordB
  have h1 : wordAt T s (e - 1) = true := by simp [wordAt, isDig_lt hd, hT.wrd _ hd.1 hd.2]
  have h2 : wordAt T s e = false := by
    rcases hr with h | h
    · simp [wordAt, h]
    · simp [wordAt, h, hT.w32]
  simp [he, h1, h2]

/-- the look-ahead `(?={placeholder})` succeeds right after the last digit of a literal in its right context -/
theorem lookahead_placeholder (hT : TablesOK T) {ph : RE} (hph : IsPlaceHolder ph) (C : RE) {e : Nat} (he : 0 < e)
    (hd : isDig (code s (e - 1))) (hr : RightCtx s e) :
    ends T s (.seq (.look true false (.seq ph .eps)) C) e = ends T s C e := by
  rw [ends_seq_lookahead]
  have hw := wordB_at_end hT he hd hr
  have hne : (ends T s (.seq ph .eps) e).isEmpty = false := by
    have hsz : e ≤ s.size := by have := isDig_lt hd; omega
    rcases hph with rfl | rfl | rfl
    · unfold placeHolderDefault
      simp only [ends_seq_alt, ends_seq_seq, ends_seq_eps, ends_seq_lookahead, ends_seq_wordB, hw]
      simp [ends]
    · unfold placeHolderDefaultEu
      simp only [ends_seq_alt, ends_seq_seq, ends_seq_eps, ends_seq_wordB, hw]
      simp [ends]
    · unfold placeHolderPure
      simp [ends_seq_wordB, hw, ends]
  simp [hne]

/-! ### IntegerRegexDefinition -/

/-- positions of a grouped integer literal: sign?, `h` leading digits, `g` groups, then the right context -/
structure GroupedIntAt (s : Array Nat) (m : Nat) (neg : Bool) (a h g : Nat) : Prop where
  sign : neg = true → code s a = 45
  hh : 1 ≤ h ∧ h ≤ 3
  hg : 1 ≤ g
  lead : ∀ t, t < h → isDig (code s (a + (if neg then 1 else 0) + t))
  groups : GroupsAt s m g (a + (if neg then 1 else 0) + h)

/-- The engine's first (reported) match of `IntegerRegexDefinition(placeholder, mark)` at the start of a grouped
integer literal — any number `g ≥ 1` of thousands groups — ends at the end of the literal. -/
theorem integerDef_first (hT : TablesOK T) {ph : RE} (hph : IsPlaceHolder ph) {m : Nat} (hm : m = 44 ∨ m = 46)
    {neg : Bool} {a h g : Nat} (hl : LeftCtx T s a) (lit : GroupedIntAt s m neg a h g)
    (hr : RightCtx s (a + (if neg then 1 else 0) + h + 4 * g)) :
    firstEnd T s (integerRegexDefinition ph m) a = some (a + (if neg then 1 else 0) + h + 4 * g) := by
  have hm0 : 0 < m := by omega
  have hmd : T.digit m = false := by rcases hm with rfl | rfl; exact hT.d44; exact hT.d46
  unfold firstEnd integerRegexDefinition
  rw [ends_signPrefix hT _ neg hl lit.sign (by simpa using lit.lead 0 (by have := lit.hh; omega))]
  have lead := lit.lead
  have groups := lit.groups
  generalize a + (if neg then 1 else 0) = a0 at *
  obtain ⟨r1, h1⟩ := ends_dig13 hT
    (.seq (.repU (.seq (group3 4 m) .eps) 1 true) (.seq (.look true false (.seq ph .eps)) .eps)) lit.hh lead
    (fun _ => by have := (groups 0 lit.hg).1; simp at this; rw [this]; exact hmd)
  rw [h1]
  obtain ⟨r2, h2⟩ := ends_groups hT 4 m hm0 (.seq (.look true false (.seq ph .eps)) .eps) lit.hg groups
    (right_not_mark hm hr)
  rw [h2]
  have hlast := (groups (g - 1) (by have := lit.hg; omega)).2.2.2
  rw [lookahead_placeholder hT hph _ (by have := lit.hh; omega) (by
    have : a0 + h + 4 * g - 1 = a0 + h + 4 * (g - 1) + 3 := by have := lit.hg; omega
    rw [this]; exact hlast) hr]
  simp [ends]

/-! ### DoubleRegexDefinition -/

/-- positions of a grouped decimal literal: sign?, `h` leading digits, `g` groups with mark `m`, the decimal mark
`d`, `f ≥ 1` decimals -/
structure GroupedDecAt (s : Array Nat) (m d : Nat) (neg : Bool) (a h g f : Nat) : Prop where
  int : GroupedIntAt s m neg a h g
  mark : code s (a + (if neg then 1 else 0) + h + 4 * g) = d
  hf : 1 ≤ f
  frac : ∀ t, t < f → isDig (code s (a + (if neg then 1 else 0) + h + 4 * g + 1 + t))

/-- the tail shared by both branches: `{decimal mark}\d+(?={placeholder})` after the groups -/
private theorem double_tail (hT : TablesOK T) {ph : RE} (hph : IsPlaceHolder ph) {d : Nat} (hd0 : 0 < d) {q f : Nat}
    (hmark : code s q = d) (hf : 1 ≤ f) (hfrac : ∀ t, t < f → isDig (code s (q + 1 + t)))
    (hr : RightCtx s (q + 1 + f)) :
    ∃ rest, ends T s (.seq (chr d) (.seq .eps (.seq .eps (.seq digits1 (.seq (.look true false (.seq ph .eps)) .eps))))) q =
      (q + 1 + f) :: rest := by
  unfold chr
  rw [ends_seq_cls_yes _ (chr_step (T := T) hd0 hmark).1 (chr_step (T := T) hd0 hmark).2]
  nrm
  obtain ⟨r, hrr⟩ := ends_digits1 hT (.seq (.look true false (.seq ph .eps)) .eps) hf hfrac
    (fun hlt => by have := right_not_digit hT hr hlt; simpa [clsTest, Item.test] using this)
  rw [hrr]
  rw [lookahead_placeholder hT hph _ (by omega) (by
    have : q + 1 + f - 1 = q + 1 + (f - 1) := by omega
    rw [this]; exact hfrac (f - 1) (by omega)) hr]
  exact ⟨r, by simp [ends]⟩

/-- `DoubleRegexDefinition(placeholder, thousandsmark = m, decimalmark = d)` on a literal grouped with `m` and with
decimal mark `d` (first branch `({m}\d{3})+{d}`): the engine's first match is the whole literal. -/
theorem doubleDef_first_own (hT : TablesOK T) {ph : RE} (hph : IsPlaceHolder ph) {m d : Nat} (hm : m = 44 ∨ m = 46)
    (hd : d = 44 ∨ d = 46) (hmd : m ≠ d) {neg : Bool} {a h g f : Nat} (hl : LeftCtx T s a)
    (lit : GroupedDecAt s m d neg a h g f)
    (hr : RightCtx s (a + (if neg then 1 else 0) + h + 4 * g + 1 + f)) :
    firstEnd T s (doubleRegexDefinition ph m d) a = some (a + (if neg then 1 else 0) + h + 4 * g + 1 + f) := by
  have hm0 : 0 < m := by omega
  have hd0 : 0 < d := by omega
  have hmdig : T.digit m = false := by rcases hm with rfl | rfl; exact hT.d44; exact hT.d46
  unfold firstEnd doubleRegexDefinition
  rw [ends_signPrefix hT _ neg hl lit.int.sign (by simpa using lit.int.lead 0 (by have := lit.int.hh; omega))]
  have lead := lit.int.lead
  have groups := lit.int.groups
  have mark := lit.mark
  have frac := lit.frac
  generalize a + (if neg then 1 else 0) = a0 at *
  obtain ⟨r1, h1⟩ := ends_dig13 hT
    (.seq (.grp 4 (.seq (.alt
      (.seq (.repU (.seq (group3 5 m) .eps) 1 true) (.seq (chr d) .eps))
      (.seq (.repU (.seq (group3 6 d) .eps) 1 true) (.seq (chr m) .eps))) .eps))
    (.seq digits1 (.seq (.look true false (.seq ph .eps)) .eps))) lit.int.hh lead
    (fun _ => by have := (groups 0 lit.int.hg).1; simp at this; rw [this]; exact hmdig)
  rw [h1]
  simp only [ends_seq_grp, ends_seq_seq, ends_seq_alt, ends_seq_eps]
  obtain ⟨r2, h2⟩ := ends_groups hT 5 m hm0
    (.seq (.seq (chr d) .eps) (.seq .eps (.seq digits1 (.seq (.look true false (.seq ph .eps)) .eps)))) lit.int.hg groups
    (by rw [mark]; omega)
  rw [h2]
  nrm
  obtain ⟨r3, h3⟩ := double_tail hT hph hd0 mark lit.hf frac hr
  rw [h3]
  simp

/-- `DoubleRegexDefinition(placeholder, thousandsmark = d, decimalmark = m)` — the OTHER culture's definition — on the
same literal: the first branch finds nothing, the second branch `({m}\d{3})+{d}` reports the whole literal. -/
theorem doubleDef_first_swapped (hT : TablesOK T) {ph : RE} (hph : IsPlaceHolder ph) {m d : Nat} (hm : m = 44 ∨ m = 46)
    (hd : d = 44 ∨ d = 46) (hmd : m ≠ d) {neg : Bool} {a h g f : Nat} (hl : LeftCtx T s a)
    (lit : GroupedDecAt s m d neg a h g f)
    (hr : RightCtx s (a + (if neg then 1 else 0) + h + 4 * g + 1 + f)) :
    firstEnd T s (doubleRegexDefinition ph d m) a = some (a + (if neg then 1 else 0) + h + 4 * g + 1 + f) := by
  have hm0 : 0 < m := by omega
  have hd0 : 0 < d := by omega
  have hmdig : T.digit m = false := by rcases hm with rfl | rfl; exact hT.d44; exact hT.d46
  unfold firstEnd doubleRegexDefinition
  rw [ends_signPrefix hT _ neg hl lit.int.sign (by simpa using lit.int.lead 0 (by have := lit.int.hh; omega))]
  have lead := lit.int.lead
  have groups := lit.int.groups
  have mark := lit.mark
  have frac := lit.frac
  generalize a + (if neg then 1 else 0) = a0 at *
  obtain ⟨r1, h1⟩ := ends_dig13 hT
    (.seq (.grp 4 (.seq (.alt
      (.seq (.repU (.seq (group3 5 d) .eps) 1 true) (.seq (chr m) .eps))
      (.seq (.repU (.seq (group3 6 m) .eps) 1 true) (.seq (chr d) .eps))) .eps))
    (.seq digits1 (.seq (.look true false (.seq ph .eps)) .eps))) lit.int.hh lead
    (fun _ => by have := (groups 0 lit.int.hg).1; simp at this; rw [this]; exact hmdig)
  rw [h1]
  simp only [ends_seq_grp, ends_seq_seq, ends_seq_alt, ends_seq_eps]
  rw [ends_groups_none 5 d _ (by have := (groups 0 lit.int.hg).1; simp at this; rw [this]; exact hmd)]
  obtain ⟨r2, h2⟩ := ends_groups hT 6 m hm0
    (.seq (.seq (chr d) .eps) (.seq .eps (.seq digits1 (.seq (.look true false (.seq ph .eps)) .eps)))) lit.int.hg groups
    (by rw [mark]; omega)
  rw [h2]
  nrm
  obtain ⟨r3, h3⟩ := double_tail hT hph hd0 mark lit.hf frac hr
  rw [h3]
  simp

end RTV.NumExtract
