import RTV.Lemmas.Re
import RTV.Gen.Regexes
/-!
Specification predicates for C13 (`ValidV4`, `Oct`, …) and the language lemmas for the regenerated
`BaseIp.Ipv4Regex`.  The hand-written `ipv4RE` is the *shape* the proofs are written against; `gen_ipv4` (by
`decide`) ties it to what the translator emitted from the working tree on this run — if the resource changes, that
tie (and with it every theorem of Props/C13 that goes through it) stops checking.
-/
namespace RTV.Re

/-! ### specification: dotted-quad IPv4 text (independent of the regex) -/

/-- `s[i:j]` as a list of code points -/
def slice (s : Array Nat) (i j : Nat) : List Nat := (s.toList.drop i).take (j - i)

/-- value of a string of ASCII digits -/
def decVal (w : List Nat) : Nat := w.foldl (fun a c => 10 * a + (c - 48)) 0

/-- one decimal octet: 1–3 ASCII digits, value 0..255 (leading zeros allowed, as the regex allows them) -/
def Oct (w : List Nat) : Prop :=
  1 ≤ w.length ∧ w.length ≤ 3 ∧ (∀ c ∈ w, 48 ≤ c ∧ c ≤ 57) ∧ decVal w ≤ 255

/-- four octets separated by `.` -/
def ValidV4 (w : List Nat) : Prop :=
  ∃ a b c d, Oct a ∧ Oct b ∧ Oct c ∧ Oct d ∧ w = a ++ 46 :: (b ++ 46 :: (c ++ 46 :: d))

/-! ### slices -/

theorem slice_nil_of_le {s : Array Nat} {i j : Nat} (h : j ≤ i) : slice s i j = [] := by
  unfold slice; simp [Nat.sub_eq_zero_of_le h]

theorem slice_cons {s : Array Nat} {i j : Nat} (hj : i < j) (hs : i < s.size) :
    slice s i j = code s i :: slice s (i + 1) j := by
  unfold slice code
  have hl : i < s.toList.length := by simpa using hs
  rw [List.drop_eq_getElem_cons hl]
  have : j - i = (j - (i + 1)) + 1 := by omega
  rw [this, List.take_succ_cons]
  simp [Array.getD, hs]

theorem slice_length {s : Array Nat} {i j : Nat} (h : j ≤ s.size) : (slice s i j).length = j - i := by
  unfold slice; simp; omega

theorem slice_append {s : Array Nat} {i k j : Nat} (h1 : i ≤ k) (h2 : k ≤ j) :
    slice s i k ++ slice s k j = slice s i j := by
  unfold slice
  have e : j - i = (k - i) + (j - k) := by omega
  rw [e, List.take_add, List.drop_drop]
  have : i + (k - i) = k := by omega
  rw [this]

theorem slice_eq_cons {s : Array Nat} {i j x : Nat} {r : List Nat} (h : slice s i j = x :: r) :
    i < j ∧ i < s.size ∧ code s i = x ∧ slice s (i + 1) j = r := by
  by_cases hj : i < j
  · by_cases hs : i < s.size
    · rw [slice_cons hj hs] at h
      injection h with h1 h2
      exact ⟨hj, hs, h1, h2⟩
    · exfalso
      unfold slice at h
      rw [List.drop_eq_nil_of_le (by simpa using Nat.le_of_not_lt hs)] at h
      simp at h
  · exfalso
    rw [slice_nil_of_le (Nat.le_of_not_lt hj)] at h
    cases h

/-! ### octets -/

def d (lo hi : Nat) : RE := .cls [.range lo hi] false
def dg : RE := .cls [.digit] false

/-- The octet alternation `1D{2}|2[0-4]D|25[0-5]|0?[1-9]D|0{0,2}D` in the translator's normal form, for a digit
class `D` = `x` (`[0-9]` since /repo commit d5d414a77, `\d` before it). -/
def octetOf (x : RE) : RE :=
  .alt (.seq (d 49 49) (.seq (.rep (.seq x .eps) 2 2 true) .eps))
  (.alt (.seq (d 50 50) (.seq (d 48 52) (.seq x .eps)))
  (.alt (.seq (d 50 50) (.seq (d 53 53) (.seq (d 48 53) .eps)))
  (.alt (.seq (.rep (.seq (d 48 48) .eps) 0 1 true) (.seq (d 49 57) (.seq x .eps)))
        (.seq (.rep (.seq (d 48 48) .eps) 0 2 true) (.seq x .eps)))))

def ipv4Of (x : RE) : RE :=
  .seq .wordB (.seq (.grp 1 (.seq (octetOf x) .eps)) (.seq (.grp 2 (.seq (.rep (.seq (.grp 3 (.seq (d 46 46)
    (.seq (.grp 4 (.seq (octetOf x) .eps)) .eps))) .eps) 3 3 true) .eps)) (.seq .wordB .eps)))

/-- the current pattern: digit class `[0-9]` -/
def octetRE : RE := octetOf (d 48 57)
def ipv4RE : RE := ipv4Of (d 48 57)

/-- REGRESSION ONLY — the pattern as it was before /repo commit d5d414a77 (`\d` instead of `[0-9]`); nothing is
regenerated into this, it is the literal pre-fix shape kept for the negative theorem about defect #8. -/
def ipv4PreFixRE : RE := ipv4Of dg

/-- the tie to the working tree: what the translator emitted for `BaseIp.Ipv4Regex` is this shape -/
theorem gen_ipv4 : RTV.Gen.ipv4Regex = ipv4RE := by decide

/-- `\d` means ASCII digit -/
def AsciiDigits (T : Tables) : Prop := ∀ c, T.digit c = true ↔ 48 ≤ c ∧ c ≤ 57

def isD (c : Nat) : Prop := 48 ≤ c ∧ c ≤ 57

instance : DecidablePred isD := fun c => by unfold isD; exact inferInstance

/-- positional form of "s[i:j] is 1–3 ASCII digits with value ≤ 255" -/
def OctetAt (s : Array Nat) (i j : Nat) : Prop :=
  (j = i + 1 ∧ isD (code s i)) ∨
  (j = i + 2 ∧ isD (code s i) ∧ isD (code s (i+1))) ∨
  (j = i + 3 ∧ isD (code s i) ∧ isD (code s (i+1)) ∧ isD (code s (i+2)) ∧
     100 * (code s i - 48) + 10 * (code s (i+1) - 48) + (code s (i+2) - 48) ≤ 255)

theorem seq_dg {T : Tables} {s : Array Nat} {i j : Nat} {b : RE} (hd : AsciiDigits T) :
    j ∈ ends T s (.seq dg b) i ↔ 48 ≤ code s i ∧ code s i ≤ 57 ∧ j ∈ ends T s b (i + 1) := by
  unfold dg
  rw [seq_cls, clsTest_digit, hd]
  constructor
  · rintro ⟨_, ⟨h1, h2⟩, h3⟩; exact ⟨h1, h2, h3⟩
  · rintro ⟨h1, h2, h3⟩; exact ⟨code_lt_size (by omega), ⟨h1, h2⟩, h3⟩

/-- what the proofs need of the digit class `x`: it accepts exactly one ASCII digit -/
def DigitClass (T : Tables) (x : RE) : Prop :=
  ∀ (s : Array Nat) (b : RE) (i j : Nat),
    j ∈ ends T s (.seq x b) i ↔ 48 ≤ code s i ∧ code s i ≤ 57 ∧ j ∈ ends T s b (i + 1)

/-- `[0-9]` is a digit class for every tables -/
theorem digitClass_range (T : Tables) : DigitClass T (d 48 57) := by
  intro s b i j; unfold d; exact seq_range (by decide)

/-- `\d` is one when `\d` means ASCII digit -/
theorem digitClass_dg {T : Tables} (hd : AsciiDigits T) : DigitClass T dg := by
  intro s b i j; exact seq_dg hd

theorem octetOf_lang {T : Tables} {x : RE} (hx : DigitClass T x) (s : Array Nat) (i j : Nat) :
    j ∈ ends T s (octetOf x) i ↔ OctetAt s i j := by
  unfold octetOf OctetAt isD d
  simp only [mem_alt, seq_rep_succ, seq_rep_zero, seq_seq, seq_eps, hx s,
    seq_range (by decide : 0 < 48), seq_range (by decide : 0 < 49),
    seq_range (by decide : 0 < 50), seq_range (by decide : 0 < 53), mem_eps]
  have e2 : i + 1 + 1 = i + 2 := by omega
  have e3 : i + 1 + 1 + 1 = i + 3 := by omega
  simp only [e2, e3, Nat.add_assoc]
  generalize code s i = a; generalize code s (i+1) = b; generalize code s (i+2) = c
  clear e2 e3
  grind (splits := 60)

theorem seq_octet {T : Tables} {x : RE} (hx : DigitClass T x) {s : Array Nat} {i j : Nat} {b : RE} :
    j ∈ ends T s (.seq (octetOf x) b) i ↔ ∃ k, OctetAt s i k ∧ j ∈ ends T s b k := by
  simp only [mem_seq, octetOf_lang hx]

def DotOct (s : Array Nat) (i j : Nat) : Prop := code s i = 46 ∧ OctetAt s (i + 1) j

/-- positional form of "s[i:j] is a dotted quad" -/
def V4Body (s : Array Nat) (i j : Nat) : Prop :=
  ∃ k1, OctetAt s i k1 ∧ ∃ k2, DotOct s k1 k2 ∧ ∃ k3, DotOct s k2 k3 ∧ DotOct s k3 j

theorem ipv4Of_lang {T : Tables} {x : RE} (hx : DigitClass T x) (s : Array Nat) (i j : Nat) :
    j ∈ ends T s (ipv4Of x) i ↔ isWordB T s i = true ∧ V4Body s i j ∧ isWordB T s j = true := by
  unfold ipv4Of V4Body DotOct d
  simp only [seq_wordB, seq_grp, seq_seq, seq_eps, seq_rep_succ, seq_rep_zero, seq_octet hx,
    seq_range (by decide : 0 < 46), mem_eps, Nat.reduceSub, false_and, or_false, Nat.succ_ne_zero]
  constructor
  · rintro ⟨hb, k1, h1, a1, b1, k2, h2, a2, b2, k3, h3, a3, b3, k4, h4, -, hb', rfl⟩
    exact ⟨hb, ⟨k1, h1, k2, ⟨by omega, h2⟩, k3, ⟨by omega, h3⟩, by omega, h4⟩, hb'⟩
  · rintro ⟨hb, ⟨k1, h1, k2, ⟨a1, h2⟩, k3, ⟨a2, h3⟩, a3, h4⟩, hb'⟩
    exact ⟨hb, k1, h1, by omega, by omega, k2, h2, by omega, by omega, k3, h3, by omega, by omega, j, h4,
      trivial, hb', rfl⟩

/-! ### positional ↔ list-level -/

theorem OctetAt_bounds {s : Array Nat} {i j : Nat} (h : OctetAt s i j) : i < j ∧ j ≤ s.size := by
  unfold OctetAt isD at h
  rcases h with ⟨rfl, h⟩ | ⟨rfl, _, h⟩ | ⟨rfl, _, _, h, _⟩
  · have := code_lt_size (s := s) (i := i) (by omega); omega
  · have := code_lt_size (s := s) (i := i + 1) (by omega); omega
  · have := code_lt_size (s := s) (i := i + 2) (by omega); omega

theorem OctetAt_oct {s : Array Nat} {i j : Nat} (h : OctetAt s i j) : Oct (slice s i j) := by
  have hb := OctetAt_bounds h
  unfold OctetAt isD at h
  rcases h with ⟨rfl, h⟩ | ⟨rfl, h1, h2⟩ | ⟨rfl, h1, h2, h3, h4⟩
  · rw [slice_cons (by omega) (by omega), slice_nil_of_le (by omega)]
    refine ⟨by simp, by simp, by simpa using h, ?_⟩
    simp [decVal]; omega
  · rw [slice_cons (by omega) (by omega), slice_cons (by omega) (by omega), slice_nil_of_le (by omega)]
    refine ⟨by simp, by simp, ?_, ?_⟩
    · intro c hc; simp at hc; rcases hc with rfl | rfl <;> assumption
    · simp [decVal]; omega
  · rw [slice_cons (by omega) (by omega), slice_cons (by omega) (by omega), slice_cons (by omega) (by omega),
      slice_nil_of_le (by omega)]
    refine ⟨by simp, by simp, ?_, ?_⟩
    · intro c hc; simp at hc; rcases hc with rfl | rfl | rfl <;> assumption
    · simp only [Nat.add_assoc] at *
      simp [decVal]; omega

theorem DotOct_split {s : Array Nat} {i j : Nat} (h : DotOct s i j) :
    i + 1 < j ∧ j ≤ s.size ∧ slice s i j = 46 :: slice s (i + 1) j ∧ Oct (slice s (i + 1) j) := by
  have hb := OctetAt_bounds h.2
  refine ⟨by omega, hb.2, ?_, OctetAt_oct h.2⟩
  rw [slice_cons (by omega) (by omega), h.1]

theorem V4Body_valid {s : Array Nat} {i j : Nat} (h : V4Body s i j) : ValidV4 (slice s i j) := by
  obtain ⟨k1, h1, k2, h2, k3, h3, h4⟩ := h
  have b1 := OctetAt_bounds h1
  have ⟨c2, d2, e2, o2⟩ := DotOct_split h2
  have ⟨c3, d3, e3, o3⟩ := DotOct_split h3
  have ⟨c4, d4, e4, o4⟩ := DotOct_split h4
  refine ⟨slice s i k1, slice s (k1 + 1) k2, slice s (k2 + 1) k3, slice s (k3 + 1) j, OctetAt_oct h1, o2, o3, o4, ?_⟩
  rw [← slice_append (i := i) (k := k1) (j := j) (by omega) (by omega),
    ← slice_append (i := k1) (k := k2) (j := j) (by omega) (by omega),
    ← slice_append (i := k2) (k := k3) (j := j) (by omega) (by omega), e2, e3, e4]
  simp

/-- every character of a dotted quad is an ASCII digit or `.` (used to refute validity of concrete strings) -/
theorem ValidV4_chars {w : List Nat} (h : ValidV4 w) : ∀ c ∈ w, c = 46 ∨ (48 ≤ c ∧ c ≤ 57) := by
  obtain ⟨a, b, c, d, ha, hb, hc, hd, rfl⟩ := h
  intro x hx
  simp only [List.mem_append, List.mem_cons] at hx
  rcases hx with hx | rfl | hx | rfl | hx | rfl | hx
  · exact .inr (ha.2.2.1 x hx)
  · exact .inl rfl
  · exact .inr (hb.2.2.1 x hx)
  · exact .inl rfl
  · exact .inr (hc.2.2.1 x hx)
  · exact .inl rfl
  · exact .inr (hd.2.2.1 x hx)

/-- list-level → positional: an octet found as a prefix of a slice -/
theorem oct_prefix {s : Array Nat} {i j : Nat} {a r : List Nat} (ha : Oct a) (h : slice s i j = a ++ r) :
    OctetAt s i (i + a.length) ∧ slice s (i + a.length) j = r := by
  obtain ⟨l1, l3, hdig, hval⟩ := ha
  match a, l1, l3, hdig, hval with
  | [x], _, _, hdig, hval =>
    obtain ⟨_, _, hx, hr⟩ := slice_eq_cons h
    refine ⟨.inl ⟨rfl, ?_⟩, hr⟩
    rw [hx]; exact hdig x (by simp)
  | [x, y], _, _, hdig, hval =>
    obtain ⟨_, _, hx, hr⟩ := slice_eq_cons h
    obtain ⟨_, _, hy, hr⟩ := slice_eq_cons hr
    refine ⟨.inr (.inl ⟨rfl, ?_, ?_⟩), hr⟩
    · rw [hx]; exact hdig x (by simp)
    · rw [hy]; exact hdig y (by simp)
  | [x, y, z], _, _, hdig, hval =>
    obtain ⟨_, _, hx, hr⟩ := slice_eq_cons h
    obtain ⟨_, _, hy, hr⟩ := slice_eq_cons hr
    obtain ⟨_, _, hz, hr⟩ := slice_eq_cons hr
    have dx := hdig x (by simp); have dy := hdig y (by simp); have dz := hdig z (by simp)
    refine ⟨.inr (.inr ⟨rfl, ?_, ?_, ?_, ?_⟩), hr⟩
    · rw [hx]; exact dx
    · rw [hy]; exact dy
    · rw [hz]; exact dz
    · rw [hx, hy, hz]; simp [decVal] at hval; omega
  | [], l1, _, _, _ => simp at l1
  | _ :: _ :: _ :: _ :: _, _, l3, _, _ => simp at l3

theorem valid_V4Body {s : Array Nat} {i j : Nat} (hjs : j ≤ s.size) (h : ValidV4 (slice s i j)) : V4Body s i j := by
  obtain ⟨a, b, c, d, ha, hb, hc, hd, e⟩ := h
  have hj : j = i + a.length + 1 + b.length + 1 + c.length + 1 + d.length := by
    have hl := congrArg List.length e
    rw [slice_length hjs] at hl
    simp at hl
    have := ha.1
    omega
  obtain ⟨o1, r1⟩ := oct_prefix ha e
  obtain ⟨_, _, x1, r1⟩ := slice_eq_cons r1
  obtain ⟨o2, r2⟩ := oct_prefix hb r1
  obtain ⟨_, _, x2, r2⟩ := slice_eq_cons r2
  obtain ⟨o3, r3⟩ := oct_prefix hc r2
  obtain ⟨_, _, x3, r3⟩ := slice_eq_cons r3
  have r3' : slice s (i + a.length + 1 + b.length + 1 + c.length + 1) j = d ++ [] := by simpa using r3
  obtain ⟨o4, _⟩ := oct_prefix hd r3'
  refine ⟨_, o1, _, ⟨x1, o2⟩, _, ⟨x2, o3⟩, x3, ?_⟩
  rw [hj]; exact o4

/-! ### uniqueness of the match end for a delimited token -/

theorem OctetAt_det {s : Array Nat} {i k k' : Nat} (h : OctetAt s i k) (h' : OctetAt s i k')
    (n : ¬ isD (code s k)) (n' : ¬ isD (code s k')) : k = k' := by
  unfold OctetAt at h h'
  rcases h with ⟨rfl, h⟩ | ⟨rfl, h⟩ | ⟨rfl, h⟩ <;> rcases h' with ⟨rfl, h'⟩ | ⟨rfl, h'⟩ | ⟨rfl, h'⟩ <;>
    first | rfl | (exfalso; simp_all)

theorem not_isD_dot {c : Nat} (h : c = 46) : ¬ isD c := by unfold isD; omega

/-- after the last digit of a match a word boundary means "no further digit" (digits are word characters) -/
theorem not_isD_of_wordB {T : Tables} (hw : ∀ c, 48 ≤ c ∧ c ≤ 57 → T.word c = true) {s : Array Nat} {j : Nat}
    (hj : 0 < j) (hp : isD (code s (j - 1))) (hb : isWordB T s j = true) : ¬ isD (code s j) := by
  intro hd
  have h1 : wordAt T s (j - 1) = true := by
    simp [wordAt, hw _ hp, code_lt_size (s := s) (i := j - 1) (by unfold isD at hp; omega)]
  have h2 : wordAt T s j = true := by
    simp [wordAt, hw _ hd, code_lt_size (s := s) (i := j) (by unfold isD at hd; omega)]
  simp [isWordB, h1, h2, hj] at hb

theorem OctetAt_last_digit {s : Array Nat} {i j : Nat} (h : OctetAt s i j) : 0 < j ∧ isD (code s (j - 1)) := by
  unfold OctetAt at h
  rcases h with ⟨rfl, h⟩ | ⟨rfl, _, h⟩ | ⟨rfl, _, _, h, _⟩ <;> exact ⟨by omega, by simpa using h⟩

theorem V4Body_det {T : Tables} (hw : ∀ c, 48 ≤ c ∧ c ≤ 57 → T.word c = true) {s : Array Nat} {i j j' : Nat}
    (h : V4Body s i j) (h' : V4Body s i j') (hb : isWordB T s j = true) (hb' : isWordB T s j' = true) :
    j = j' := by
  obtain ⟨k1, h1, k2, ⟨x1, h2⟩, k3, ⟨x2, h3⟩, x3, h4⟩ := h
  obtain ⟨k1', h1', k2', ⟨x1', h2'⟩, k3', ⟨x2', h3'⟩, x3', h4'⟩ := h'
  have e1 : k1 = k1' := OctetAt_det h1 h1' (not_isD_dot x1) (not_isD_dot x1')
  subst e1
  have e2 : k2 = k2' := OctetAt_det h2 h2' (not_isD_dot x2) (not_isD_dot x2')
  subst e2
  have e3 : k3 = k3' := OctetAt_det h3 h3' (not_isD_dot x3) (not_isD_dot x3')
  subst e3
  have l := OctetAt_last_digit h4
  have l' := OctetAt_last_digit h4'
  exact OctetAt_det h4 h4' (not_isD_of_wordB hw l.1 l.2 hb) (not_isD_of_wordB hw l'.1 l'.2 hb')

end RTV.Re
