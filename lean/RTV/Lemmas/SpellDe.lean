import RTV.Model.SpellEu
import RTV.Model.NumCfg
/-! German numerals below 1000 (`spellEu deSpell`) against `getIntValue` with the regenerated German maps and the
culture's `resolve_composite_number`: kernel evaluation in chunks of 50 (one declaration per chunk keeps the
kernel's caches small), then the case split over the chunk index. -/
namespace RTV.Num

/-- the numerals the statement is about (exact guard: what the faithful model gets right) -/
def deGuard (n : Nat) : Bool := true

def deCheck (n : Nat) : Bool :=
  !deGuard n || decide (getIntValue true asciiDigits de.lang (spellEu deSpell n).2 = .ok n)

def deChunk (k : Nat) : Bool := (List.range 50).all fun i => deCheck (50 * k + i)

theorem de_c0 : deChunk 0 = true := by decide +kernel
theorem de_c1 : deChunk 1 = true := by decide +kernel
theorem de_c2 : deChunk 2 = true := by decide +kernel
theorem de_c3 : deChunk 3 = true := by decide +kernel
theorem de_c4 : deChunk 4 = true := by decide +kernel
theorem de_c5 : deChunk 5 = true := by decide +kernel
theorem de_c6 : deChunk 6 = true := by decide +kernel
theorem de_c7 : deChunk 7 = true := by decide +kernel
theorem de_c8 : deChunk 8 = true := by decide +kernel
theorem de_c9 : deChunk 9 = true := by decide +kernel
theorem de_c10 : deChunk 10 = true := by decide +kernel
theorem de_c11 : deChunk 11 = true := by decide +kernel
theorem de_c12 : deChunk 12 = true := by decide +kernel
theorem de_c13 : deChunk 13 = true := by decide +kernel
theorem de_c14 : deChunk 14 = true := by decide +kernel
theorem de_c15 : deChunk 15 = true := by decide +kernel
theorem de_c16 : deChunk 16 = true := by decide +kernel
theorem de_c17 : deChunk 17 = true := by decide +kernel
theorem de_c18 : deChunk 18 = true := by decide +kernel
theorem de_c19 : deChunk 19 = true := by decide +kernel

theorem de_chunks (k : Nat) (hk : k < 20) : deChunk k = true := by
  match k, hk with
  | 0, _ => exact de_c0
  | 1, _ => exact de_c1
  | 2, _ => exact de_c2
  | 3, _ => exact de_c3
  | 4, _ => exact de_c4
  | 5, _ => exact de_c5
  | 6, _ => exact de_c6
  | 7, _ => exact de_c7
  | 8, _ => exact de_c8
  | 9, _ => exact de_c9
  | 10, _ => exact de_c10
  | 11, _ => exact de_c11
  | 12, _ => exact de_c12
  | 13, _ => exact de_c13
  | 14, _ => exact de_c14
  | 15, _ => exact de_c15
  | 16, _ => exact de_c16
  | 17, _ => exact de_c17
  | 18, _ => exact de_c18
  | 19, _ => exact de_c19
  | k + 20, h => omega

theorem de_all (n : Nat) (h : n < 1000) (hg : deGuard n = true) :
    getIntValue true asciiDigits de.lang (spellEu deSpell n).2 = .ok n := by
  have hc := de_chunks (n / 50) (by omega)
  simp only [deChunk, List.all_eq_true, List.mem_range] at hc
  have := hc (n % 50) (Nat.mod_lt _ (by decide))
  have e : 50 * (n / 50) + n % 50 = n := Nat.div_add_mod n 50
  rw [e] at this
  simpa [deCheck, hg] using this

end RTV.Num
