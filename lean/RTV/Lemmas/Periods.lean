import RTV.Props.C10
import RTV.Props.C11
import RTV.Lemmas.DateUtils
import RTV.Model.Periods
/-!
Helper lemmas for `RTV/Props/C10Periods.lean`: the general `(begin,end,P<n><U>)` date-triple lemma `date_triple_ok`
(generalises `between_dates_consistent` of Props/C10 to weeks, months and years), `rangeOK` (what
`period_wellformed_daterange` of Props/C11 needs) and calendar facts about firsts of months.
-/
set_option linter.unusedVariables false
set_option linter.unusedSimpArgs false
namespace RTV.WF
open RTV.Cal

/-- what a `(begin,end,P<n><U>)` date triple must satisfy (the arithmetic part of `tripleOK`) -/
def durHolds (b e : Date) (n : Nat) (u : DUnit) : Prop :=
  match u with
  | .D => (e.ord : Int) - b.ord = n
  | .W => (e.ord : Int) - b.ord = 7 * n
  | .MON => ((e.y * 12 + e.m : Nat) : Int) - (b.y * 12 + b.m : Nat) = n ∧ b.d = e.d
  | .Y => (e.y : Int) - b.y = n ∧ b.m = e.m ∧ b.d = e.d
  | _ => False

/-- the text `(begin,end,P<n><letter>)` -/
def dateTriple (b e : Date) (n : Nat) (letter : Nat) : Str :=
  [40] ++ formatDate b ++ [44] ++ formatDate e ++ [44] ++ ([80] ++ natStr n ++ [letter]) ++ [41]

theorem date_triple_ok (b e : Date) (hb : b.valid = true) (he : e.valid = true) (n : Nat) (letter : Nat) (u : DUnit)
    (hu : (letter = 68 ∧ u = .D) ∨ (letter = 87 ∧ u = .W) ∨ (letter = 77 ∧ u = .MON) ∨ (letter = 89 ∧ u = .Y))
    (h : durHolds b e n u) :
    tripleOK (dateTriple b e n letter) (some (formatDate b)) (some (formatDate e)) = true := by
  have hlet : letter ≠ 44 := by rcases hu with h | h | h | h <;> omega
  have hs : splitOn 44 (formatDate b ++ 44 :: (formatDate e ++ 44 :: ([80] ++ natStr n ++ [letter]))) =
      [formatDate b, formatDate e, [80] ++ natStr n ++ [letter]] := by
    rw [splitOn_append 44 _ _ (formatDate_no_comma b), splitOn_append 44 _ _ (formatDate_no_comma e),
      splitOn_no_sep]
    intro c hc
    simp only [List.cons_append, List.nil_append, List.mem_cons, List.mem_append, List.mem_singleton] at hc
    rcases hc with hc | hc | hc
    all_goals (first | omega | (have := natStr_digits _ c hc; simp [isDigit] at this; omega) | (simp at hc; omega))
  have hr := duration_timex_reads_back n
  have hd' : parseDuration ([80] ++ natStr n ++ [letter]) = some ((n, 1), u) := by
    rcases hu with ⟨a, c⟩ | ⟨a, c⟩ | ⟨a, c⟩ | ⟨a, c⟩ <;> subst a c
    · simpa [durationTimex] using hr.2.2.2.1
    · simpa [durationTimex] using hr.2.2.2.2.1
    · simpa [durationTimex] using hr.2.2.2.2.2.1
    · simpa [durationTimex] using hr.2.2.2.2.2.2
  have hpb : parsePoint (formatDate b) = some (some b, none) := by simp [parsePoint, parseDate_formatDate b hb]
  have hpe : parsePoint (formatDate e) = some (some e, none) := by simp [parsePoint, parseDate_formatDate e he]
  have hshape : dateTriple b e n letter =
      40 :: ((formatDate b ++ 44 :: (formatDate e ++ 44 :: ([80] ++ natStr n ++ [letter]))) ++ [41]) := by
    simp [dateTriple]
  have hdrop : ((dateTriple b e n letter).drop 1).dropLast =
      formatDate b ++ 44 :: (formatDate e ++ 44 :: ([80] ++ natStr n ++ [letter])) := by
    rw [hshape, List.drop_one, List.tail_cons, List.dropLast_concat]
  have hhead : (dateTriple b e n letter).head? = some 40 := by rw [hshape]; rfl
  have hlast : (dateTriple b e n letter).getLast? = some 41 := by
    rw [hshape, ← List.cons_append, List.getLast?_concat]
  have hne : natStr n ≠ [] := (natDigits_spec (n + 1) n (by omega)).2.1
  obtain ⟨a, t, hnt⟩ := List.exists_cons_of_ne_nil hne
  have ha : a ≠ 84 := by
    have := natStr_digits n a (by rw [hnt]; simp)
    simp [isDigit] at this; omega
  have hp : ([80] ++ natStr n ++ [letter] : Str) = 80 :: a :: (t ++ [letter]) := by simp [hnt]
  rw [hp] at hs hd' hdrop
  unfold tripleOK
  simp only [hhead, hlast, and_self, if_true, hdrop, hs, hpb, hpe, diffSeconds]
  rcases hu with ⟨_, c⟩ | ⟨_, c⟩ | ⟨_, c⟩ | ⟨_, c⟩ <;> subst c <;> simp only [durHolds] at h
  · simp [ha, hd', unitSeconds]; omega
  · simp [ha, hd', unitSeconds]; omega
  · simp [ha, hd']; exact h
  · simp [ha, hd']; exact h

end RTV.WF

/-! ### bridges between the period model and the C10 / C11 predicates -/
namespace RTV.Periods
open RTV.Cal RTV.DateUtils RTV.WF

/-- C11 for a pure date range: both ends valid dates, start strictly before end (neither the minimum date). -/
def rangeOK (b e : DateTime) : Prop :=
  b.date.valid = true ∧ e.date.valid = true ∧ b.date.ord < e.date.ord ∧ b.date ≠ ⟨1, 1, 1⟩ ∧ e.date ≠ ⟨1, 1, 1⟩

/-- `rangeOK` is what `period_wellformed_daterange` (Props/C11) needs: the slot contributes a well-shaped value. -/
theorem rangeOK_shape (timex : Str) (b e : DateTime) (h : rangeOK b e) :
    ∃ v, periodValue sDateRange timex [] (some (formatDate b.date)) (some (formatDate e.date)) = some v ∧ shapeOK v = true :=
  period_wellformed_daterange timex b.date e.date h.1 h.2.1 h.2.2.1 h.2.2.2.1 h.2.2.2.2

theorem ne_min_of_year (x : Date) (h : 2 ≤ x.y) : x ≠ ⟨1, 1, 1⟩ := by
  intro e; rw [e] at h; simp at h

theorem mk_valid (y m d : Nat) (hv : (⟨y, m, d⟩ : Date).valid = true) : mk (y : Int) m d = ⟨⟨y, m, d⟩, 0⟩ :=
  safeCreate_ymd y m d hv

/-- first of the month + one month = first of the next month -/
theorem addMonth_first (y m : Nat) (h1 : 1 ≤ y) (h2 : y ≤ 9999) (h3 : 1 ≤ m) (h4 : m ≤ 12) (hn : ¬ (y = 9999 ∧ m = 12)) :
    datedeltaAdd ⟨y, m, 1⟩ 0 1 0 = some (if m = 12 then ⟨y + 1, 1, 1⟩ else ⟨y, m + 1, 1⟩) := by
  rw [datedeltaAdd_months_eq]
  have ms : monthStep ⟨y, m, 1⟩ 1 = (if m = 12 then ((y : Int) + 1, 1, 1) else ((y : Int), m + 1, 1)) := by
    unfold monthStep
    simp only [ne_eq, Int.one_ne_zero, not_false_eq_true, if_true]
    have hdim : ¬ (1 > (if 1 ≤ ((y : Int) * 12 + ((m : Int) - 1) + 1) / 12 ∧ ((y : Int) * 12 + ((m : Int) - 1) + 1) / 12 ≤ 9999 then
        daysInMonth (((y : Int) * 12 + ((m : Int) - 1) + 1) / 12).toNat ((((y : Int) * 12 + ((m : Int) - 1) + 1) % 12).toNat + 1)
      else 31)) := by
      split
      · have := daysInMonth_ge (((y : Int) * 12 + ((m : Int) - 1) + 1) / 12).toNat
          ((((y : Int) * 12 + ((m : Int) - 1) + 1) % 12).toNat + 1) (by omega) (by omega)
        omega
      · omega
    rw [if_neg hdim]
    by_cases c : m = 12
    · subst c; simp only [if_true]
      rw [Prod.mk.injEq, Prod.mk.injEq]; refine ⟨by omega, by omega, rfl⟩
    · rw [if_neg c, Prod.mk.injEq, Prod.mk.injEq]; refine ⟨by omega, by omega, rfl⟩
  rw [ms]
  by_cases c : m = 12
  · subst c
    simp only [if_true]
    have v := valid_first (y + 1) 1 (by omega) (by omega) (by omega) (by omega)
    have e : (((y : Int) + 1).toNat) = y + 1 := by omega
    rw [if_pos (by omega), e, if_pos v]
  · simp only [if_neg c]
    have v := valid_first y (m + 1) h1 h2 (by omega) (by omega)
    have e : ((y : Int).toNat) = y := by omega
    rw [if_pos (by omega), e, if_pos v]

theorem lt_of_next_first (y m : Nat) (h1 : 1 ≤ y) (h2 : y ≤ 9999) (h3 : 1 ≤ m) (h4 : m ≤ 12) (hn : ¬ (y = 9999 ∧ m = 12)) :
    (⟨y, m, 1⟩ : Date).ord < (if m = 12 then (⟨y + 1, 1, 1⟩ : Date) else ⟨y, m + 1, 1⟩).ord ∧
    (if m = 12 then (⟨y + 1, 1, 1⟩ : Date) else ⟨y, m + 1, 1⟩).valid = true := by
  have v0 := valid_first y m h1 h2 h3 h4
  by_cases c : m = 12
  · subst c; simp only [if_true]
    have v := valid_first (y + 1) 1 (by omega) (by omega) (by omega) (by omega)
    exact ⟨ord_lt_of_lexLt _ _ v0 v (Or.inl (by simp)), v⟩
  · simp only [if_neg c]
    have v := valid_first y (m + 1) h1 h2 (by omega) (by omega)
    exact ⟨ord_lt_of_lexLt _ _ v0 v (Or.inr ⟨rfl, Or.inl (by simp)⟩), v⟩

/-- first of the month after `(y, m)` -/
def nextFirst (y m : Nat) : Date := if m = 12 then ⟨y + 1, 1, 1⟩ else ⟨y, m + 1, 1⟩

theorem addDelta_zero (x : DateTime) (hv : x.date.valid = true) : addDelta x 0 0 0 = some x := by
  rw [addDelta_days x hv]
  unfold DateUtils.addDays
  rw [Date.addDays_zero x.date hv]
  rfl

/-- from the first of a month to the first of a later month: a well-formed range and a consistent `P<n>M` triple -/
theorem first_to_first_ok (y1 m1 y2 m2 n : Nat) (hy : 2 ≤ y1) (hy2 : y2 ≤ 9999) (a1 : 1 ≤ m1) (a2 : m1 ≤ 12)
    (b1 : 1 ≤ m2) (b2 : m2 ≤ 12) (hn : 0 < n) (h : y2 * 12 + m2 = y1 * 12 + m1 + n) :
    tripleOK (dateTriple ⟨y1, m1, 1⟩ ⟨y2, m2, 1⟩ n 77) (some (formatDate ⟨y1, m1, 1⟩)) (some (formatDate ⟨y2, m2, 1⟩)) = true ∧
    rangeOK ⟨⟨y1, m1, 1⟩, 0⟩ ⟨⟨y2, m2, 1⟩, 0⟩ := by
  have hy12 : y1 ≤ y2 := by omega
  have v1 := valid_first y1 m1 (by omega) (by omega) a1 a2
  have v2 := valid_first y2 m2 (by omega) hy2 b1 b2
  refine ⟨date_triple_ok _ _ v1 v2 n 77 .MON (by simp) ?_, v1, v2, ?_, ne_min_of_year _ (by simp only; omega),
    ne_min_of_year _ (by simp only; omega)⟩
  · show ((y2 * 12 + m2 : Nat) : Int) - ((y1 * 12 + m1 : Nat) : Int) = (n : Int) ∧ (1 : Nat) = 1
    exact ⟨by omega, rfl⟩
  · apply ord_lt_of_lexLt _ _ v1 v2
    by_cases c : y1 < y2
    · exact Or.inl c
    · exact Or.inr ⟨by simp only; omega, Or.inl (by simp only; omega)⟩

theorem natStr3 : natStr 3 = [51] := by decide


end RTV.Periods
