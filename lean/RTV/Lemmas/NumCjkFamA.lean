import RTV.Lemmas.NumCjkFam
/-! kernel evaluation: Chinese cardinals and ordinals below 100 through the whole `parse` -/
namespace RTV.NumCjk
theorem zh_int_fam : allBelow 100 zhInt = true := by decide +kernel
theorem zh_ord_fam : allBelow 100 zhOrd = true := by decide +kernel
end RTV.NumCjk
