import RTV.Lemmas.CjkJaBase
/-! kernel evaluation, chunks 75..99 (numerals 7500..9999) -/
namespace RTV.Num
theorem ja_c75 : jaChunk 75 = true := by decide +kernel
theorem ja_c76 : jaChunk 76 = true := by decide +kernel
theorem ja_c77 : jaChunk 77 = true := by decide +kernel
theorem ja_c78 : jaChunk 78 = true := by decide +kernel
theorem ja_c79 : jaChunk 79 = true := by decide +kernel
theorem ja_c80 : jaChunk 80 = true := by decide +kernel
theorem ja_c81 : jaChunk 81 = true := by decide +kernel
theorem ja_c82 : jaChunk 82 = true := by decide +kernel
theorem ja_c83 : jaChunk 83 = true := by decide +kernel
theorem ja_c84 : jaChunk 84 = true := by decide +kernel
theorem ja_c85 : jaChunk 85 = true := by decide +kernel
theorem ja_c86 : jaChunk 86 = true := by decide +kernel
theorem ja_c87 : jaChunk 87 = true := by decide +kernel
theorem ja_c88 : jaChunk 88 = true := by decide +kernel
theorem ja_c89 : jaChunk 89 = true := by decide +kernel
theorem ja_c90 : jaChunk 90 = true := by decide +kernel
theorem ja_c91 : jaChunk 91 = true := by decide +kernel
theorem ja_c92 : jaChunk 92 = true := by decide +kernel
theorem ja_c93 : jaChunk 93 = true := by decide +kernel
theorem ja_c94 : jaChunk 94 = true := by decide +kernel
theorem ja_c95 : jaChunk 95 = true := by decide +kernel
theorem ja_c96 : jaChunk 96 = true := by decide +kernel
theorem ja_c97 : jaChunk 97 = true := by decide +kernel
theorem ja_c98 : jaChunk 98 = true := by decide +kernel
theorem ja_c99 : jaChunk 99 = true := by decide +kernel
end RTV.Num
