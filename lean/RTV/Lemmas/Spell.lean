import RTV.Lemmas.IntValue
import RTV.Model.NumCfg
import RTV.Model.Spell
/-! English numerals (`RTV.Num.pieces`) against `getIntValueF` with the regenerated English maps. The finite
facts concern only *flat* word lists (1..99, cardinal or ordinal, with or without a leading "and") and the round
words, and are proved by kernel evaluation over `RTV.Gen.NumEn`; everything above 99 is composed with
`good_step`. The variant of `__get_int_value` is the one in the tree (`fx = true`). -/
namespace RTV.Num
open RTV.Py

abbrev enL : LangCfg := en.lang
abbrev enT : DigitTab := asciiDigits
abbrev enR : List (Str × Nat) := en.lang.round

def toks (ps : List Piece) : List Str := ps.map (·.1)

theorem toks_append (a b : List Piece) : toks (a ++ b) = toks a ++ toks b := List.map_append

def v0 : Variant := ⟨false, false, false⟩

theorem toks_sub100 (v : Variant) (ord : Bool) (r : Nat) : toks (sub100 v ord r) = toks (sub100 v0 ord r) := by
  unfold sub100 toks
  split
  · rfl
  · split <;> rfl

/-- flat list = optional "and" + the words of 1..99 -/
def flat (ord wa : Bool) (r : Nat) : List Str := (if wa then [w_and] else []) ++ toks (sub100 v0 ord r)

def okNat (r : Except Err Nat) (n : Nat) : Bool :=
  match r with
  | .ok x => x == n
  | .error _ => false

theorem okNat_iff (r : Except Err Nat) (n : Nat) : okNat r n = true ↔ r = .ok n := by
  cases r <;> simp [okNat]

def flatCheck (r : Nat) : Bool :=
  [false, true].all fun ord => [false, true].all fun wa =>
    let ts := flat ord wa r
    okNat (stackEval enT enL ts) r && ts.all fun t => lookup enR t == none

theorem flatCheck_lo : ((List.range 50).all fun r => r == 0 || flatCheck r) = true := by decide +kernel
theorem flatCheck_hi : ((List.range 50).all fun r => flatCheck (r + 50)) = true := by decide +kernel

theorem flat_facts (ord wa : Bool) (r : Nat) (h1 : 1 ≤ r) (h2 : r < 100) :
    stackEval enT enL (flat ord wa r) = .ok r ∧ ∀ t ∈ flat ord wa r, lookup enR t = none := by
  have key : flatCheck r = true := by
    rcases Nat.lt_or_ge r 50 with h | h
    · have := flatCheck_lo
      rw [List.all_eq_true] at this
      have := this r (List.mem_range.mpr h)
      have e : (r == 0) = false := by simp; omega
      simpa [e] using this
    · have := flatCheck_hi
      rw [List.all_eq_true] at this
      have := this (r - 50) (List.mem_range.mpr (by omega))
      have e : r - 50 + 50 = r := by omega
      rwa [e] at this
  simp only [flatCheck, List.all_cons, List.all_nil, Bool.and_true, Bool.and_eq_true, okNat_iff,
    List.all_eq_true, beq_iff_eq] at key
  cases ord <;> cases wa <;> simp_all

/-- the round words the generator uses -/
theorem round_words :
    lookup enR w_hundred = some 100 ∧ lookup enR w_hundredth = some 100 ∧
    lookup enR w_thousand = some 1000 ∧ lookup enR w_thousandth = some 1000 ∧
    lookup enR w_million = some 1000000 ∧ lookup enR w_millionth = some 1000000 ∧
    lookup enR w_billion = some 1000000000 ∧ lookup enR w_billionth = some 1000000000 ∧
    lookup enR w_trillion = some 1000000000000 ∧ lookup enR w_trillionth = some 1000000000000 := by
  decide +kernel

theorem zero_word : okNat (stackEval enT enL [wordAt small 0]) 0 = true ∧ lookup enR (wordAt small 0) = none := by
  decide +kernel

/-! ### composition -/

theorem good_nil (rec : List Str → Res) (round : List (Str × Nat)) : Good true rec round [] 0 1 := by
  simp [Good, scanR, segGo]

/-- a non-empty list without round words is a good rest worth `rec A` -/
theorem good_flat (rec : List Str → Res) (round : List (Str × Nat)) (A : List Str) (n : Nat)
    (hA : ∀ t ∈ A, lookup round t = none) (hne : A ≠ []) (hrec : rec A = .ok n) : Good true rec round A n 1 := by
  have hs := scanR_inert round 1 A (fun t ht => Or.inl (hA t ht))
  refine ⟨by rw [hs], ?_⟩
  rw [hs]
  have := segGo_inert true rec round A [] []
  simp only [List.append_nil] at this
  rw [this]
  have hne' : A.reverse.isEmpty = false := by
    cases A with
    | nil => exact absurd rfl hne
    | cons a as => simp
  simp [segGo, hne', hrec]

theorem eval_flat (tab : DigitTab) (c : LangCfg) (f : Nat) (T : List Str) (hT : ∀ t ∈ T, lookup c.round t = none) :
    getIntValueF true tab c (f + 1) T = Res.ofExcept (stackEval tab c T) := by
  rw [getIntValueF]
  cases T with
  | nil => simp [endFlags]
  | cons t ts =>
    have hs := scanR_inert c.round 1 (t :: ts) (fun x hx => Or.inl (hT x hx))
    simp only [endFlags, if_true, hs]
    simp

theorem eval_of_good (tab : DigitTab) (c : LangCfg) (f : Nat) (T : List Str) (n e : Nat)
    (hg : Good true (getIntValueF true tab c f) c.round T n e) (hT : T ≠ []) (he : e ≠ 1) :
    getIntValueF true tab c (f + 1) T = .ok n := by
  obtain ⟨h1, h2⟩ := hg
  rw [getIntValueF]
  cases T with
  | nil => exact absurd rfl hT
  | cons t ts =>
    simp only [endFlags, if_true]
    have : ((scanR c.round (t :: ts) 1).2 == 1) = false := by simp [h1, he]
    rw [show scanR c.round (t :: ts) 1 = ((scanR c.round (t :: ts) 1).1, (scanR c.round (t :: ts) 1).2) from rfl]
    simp only [this, Bool.false_eq_true, if_false]
    exact h2

theorem flat_unit (h : Nat) (h1 : 1 ≤ h) (h2 : h < 10) : flat false false h = [wordAt small h] := by
  have : h < 20 := by omega
  simp [flat, toks, sub100, this, v0]

theorem rec_flat (f : Nat) (ord wa : Bool) (r : Nat) (h1 : 1 ≤ r) (h2 : r < 100) :
    getIntValueF true enT enL (f + 1) (flat ord wa r) = .ok r := by
  obtain ⟨hv, hn⟩ := flat_facts ord wa r h1 h2
  rw [eval_flat enT enL f _ hn, hv]; rfl

theorem flat_ne_nil (ord wa : Bool) (r : Nat) : flat ord wa r ≠ [] := by
  unfold flat toks sub100
  cases wa <;> simp
  split <;> (try split) <;> simp

/-- the words of `u` (1..999), explicitly -/
theorem toks_sub1000 (v : Variant) (ord : Bool) (u : Nat) (h2 : u < 1000) :
    toks (sub1000 v ord u) =
      if u < 100 then flat ord false u
      else if u % 100 = 0 then [wordAt small (u / 100), if ord then w_hundredth else w_hundred]
      else wordAt small (u / 100) :: w_hundred :: flat ord v.andHundred (u % 100) := by
  unfold sub1000
  split
  · simp [flat, toks_sub100]
  · split
    · rename_i h
      have : u % 100 = 0 := by simpa using h
      simp only [this, if_true]
      cases ord <;> simp [toks]
    · rename_i h
      have : ¬ u % 100 = 0 := by simpa using h
      simp only [this, if_false, toks_append, flat, toks_sub100]
      cases v.andHundred <;> simp [toks]

/-- the words of `u` (1..999), cardinal or ordinal, optionally after "and" when `u < 100`: a good rest worth `u`
whose scan ends at 1 (no `hundred`) or 100. -/
theorem good_sub1000 (f : Nat) (v : Variant) (ord wa : Bool) (u : Nat) (h1 : 1 ≤ u) (h2 : u < 1000)
    (hwa : wa = true → u < 100) :
    ∃ e, Good true (getIntValueF true enT enL (f + 1)) enR
        ((if wa then [w_and] else []) ++ toks (sub1000 v ord u)) u e ∧ e ≤ 100 ∧ (100 ≤ u → e = 100) := by
  rw [toks_sub1000 v ord u h2]
  by_cases hu : u < 100
  · simp only [hu, if_true]
    have e : (if wa then [w_and] else []) ++ flat ord false u = flat ord wa u := by
      cases wa <;> simp [flat]
    rw [e]
    obtain ⟨_, hn⟩ := flat_facts ord wa u h1 hu
    exact ⟨1, good_flat _ _ _ _ hn (flat_ne_nil _ _ _) (rec_flat f ord wa u h1 hu), by omega, by omega⟩
  · have hwf : wa = false := by
      cases wa
      · rfl
      · exact absurd (hwa rfl) hu
    subst hwf
    simp only [hu, if_false, Bool.false_eq_true, List.nil_append]
    have hh1 : 1 ≤ u / 100 := by omega
    have hh2 : u / 100 < 10 := by omega
    have hunit := rec_flat f false false (u / 100) hh1 (by omega)
    rw [flat_unit _ hh1 hh2] at hunit
    have hunitn := (flat_facts false false (u / 100) hh1 (by omega)).2
    rw [flat_unit _ hh1 hh2] at hunitn
    have hin : Inert enR 100 [wordAt small (u / 100)] := fun t ht => Or.inl (hunitn t ht)
    obtain ⟨r1, r2, _⟩ := round_words
    by_cases hz : u % 100 = 0
    · simp only [hz, if_true]
      have hw : lookup enR (if ord then w_hundredth else w_hundred) = some 100 := by cases ord <;> simp [r1, r2]
      have := good_step true _ enR [wordAt small (u / 100)] _ 100 (u / 100) [] 0 1 (good_nil _ _) (by omega) hw
        (by simp) hin hunit
      refine ⟨100, ?_, by omega, fun _ => rfl⟩
      have e : 100 * (u / 100) + 0 = u := by omega
      rw [e] at this
      simpa using this
    · simp only [hz, if_false]
      have hr1 : 1 ≤ u % 100 := by omega
      have hr2 : u % 100 < 100 := by omega
      obtain ⟨_, hn⟩ := flat_facts ord v.andHundred (u % 100) hr1 hr2
      have hg := good_flat (getIntValueF true enT enL (f + 1)) enR _ _ hn (flat_ne_nil _ _ _)
        (rec_flat f ord v.andHundred (u % 100) hr1 hr2)
      have := good_step true _ enR [wordAt small (u / 100)] w_hundred 100 (u / 100) _ _ 1 hg (by omega) r1
        (by simp) hin hunit
      refine ⟨100, ?_, by omega, fun _ => rfl⟩
      have e : 100 * (u / 100) + u % 100 = u := by omega
      rw [e] at this
      simpa using this

/-- a block below 1000 in front of a scale word: its value, it is not empty, and it holds no end word for `R > 100` -/
theorem block_facts (f : Nat) (v : Variant) (g : Nat) (h1 : 1 ≤ g) (h2 : g < 1000) :
    getIntValueF true enT enL (f + 2) (toks (sub1000 v false g)) = .ok g ∧ toks (sub1000 v false g) ≠ [] ∧
      ∀ R, 100 < R → Inert enR R (toks (sub1000 v false g)) := by
  obtain ⟨r1, _⟩ := round_words
  refine ⟨?_, ?_, ?_⟩
  · by_cases hu : g < 100
    · rw [toks_sub1000 v false g h2]; simp only [hu, if_true]
      exact rec_flat (f + 1) false false g h1 hu
    · obtain ⟨e, hg, _, h100⟩ := good_sub1000 f v false false g h1 h2 (by simp)
      simp only [Bool.false_eq_true, if_false, List.nil_append] at hg
      have he : e = 100 := h100 (by omega)
      refine eval_of_good enT enL (f + 1) _ g e hg ?_ (by omega)
      rw [toks_sub1000 v false g h2]; simp only [hu, if_false]
      split <;> simp
  · rw [toks_sub1000 v false g h2]
    split
    · exact flat_ne_nil _ _ _
    · split <;> simp
  · intro R hR
    rw [toks_sub1000 v false g h2]
    have hunit : ∀ h, 1 ≤ h → h < 10 → lookup enR (wordAt small h) = none := by
      intro h a b
      have := (flat_facts false false h a (by omega)).2
      rw [flat_unit h a b] at this
      exact this _ (by simp)
    split
    · rename_i hu
      exact fun t ht => Or.inl ((flat_facts false false g h1 hu).2 t ht)
    · rename_i hu
      have hh := hunit (g / 100) (by omega) (by omega)
      split
      · intro t ht
        simp only [Bool.false_eq_true, if_false, List.mem_cons, List.not_mem_nil, or_false] at ht
        rcases ht with e | e
        · left; rw [e]; exact hh
        · right; exact ⟨100, by rw [e]; exact r1, hR⟩
      · intro t ht
        simp only [List.mem_cons] at ht
        rcases ht with e | e | e
        · left; rw [e]; exact hh
        · right; exact ⟨100, by rw [e]; exact r1, hR⟩
        · left; exact (flat_facts false v.andHundred (g % 100) (by omega) (by omega)).2 t e

/-- one group of three digits with its scale word in front of a good rest -/
theorem good_group (f : Nat) (v : Variant) (g : Nat) (w : Str) (R : Nat) (rest : List Str) (n e : Nat)
    (hg : Good true (getIntValueF true enT enL (f + 2)) enR rest n e) (he : e ≤ R) (hR : 100 < R)
    (hw : lookup enR w = some R) (hg2 : g < 1000) :
    ∃ e', Good true (getIntValueF true enT enL (f + 2)) enR (toks (group v g w) ++ rest) (R * g + n) e' ∧
      e' ≤ R ∧ (g ≠ 0 → e' = R) ∧ (g = 0 → e' = e) := by
  by_cases h0 : g = 0
  · subst h0
    exact ⟨e, by simpa [group, toks] using hg, he, by simp, fun _ => rfl⟩
  · have hb : (g == 0) = false := by simp [h0]
    obtain ⟨hval, hne, hin⟩ := block_facts f v g (by omega) hg2
    have := good_step true _ enR _ w R g rest n e hg he hw hne (hin R hR) hval
    refine ⟨R, ?_, Nat.le_refl _, fun _ => rfl, fun h => absurd h h0⟩
    simpa [group, hb, toks_append, toks] using this

theorem toks_pieces (v : Variant) (ord : Bool) (n : Nat) (h : n ≠ 0) :
    toks (pieces v ord n) =
      toks (group v (n / 1000000000000 % 1000) (if ord && n / 1000000000 % 1000 == 0 && n / 1000000 % 1000 == 0 &&
          n / 1000 % 1000 == 0 && n % 1000 == 0 then w_trillionth else w_trillion)) ++
      (toks (group v (n / 1000000000 % 1000) (if ord && n / 1000000 % 1000 == 0 && n / 1000 % 1000 == 0 &&
          n % 1000 == 0 then w_billionth else w_billion)) ++
      (toks (group v (n / 1000000 % 1000) (if ord && n / 1000 % 1000 == 0 && n % 1000 == 0 then w_millionth
          else w_million)) ++
      (toks (group v (n / 1000 % 1000) (if ord && n % 1000 == 0 then w_thousandth else w_thousand)) ++
       toks (lastGroup v ord (decide (n ≥ 1000)) (n % 1000))))) := by
  have : (n == 0) = false := by simp [h]
  simp [pieces, this, toks_append]

end RTV.Num
