import RTV.Lemmas.IntValue
import RTV.Model.NumCfg
import RTV.Model.Spell
/-! English numerals (`RTV.Num.pieces`) against `getIntValueF` with the regenerated English maps: the finite
facts (blocks below 1000, the last group, small numbers) by kernel evaluation over `RTV.Gen.NumEn`, and the
group-by-group composition. The variant of `__get_int_value` is the one in the tree (`fx = true`). -/
namespace RTV.Num
open RTV.Py

abbrev enL : LangCfg := en.lang
abbrev enT : DigitTab := asciiDigits

def toks (ps : List Piece) : List Str := ps.map (·.1)

theorem toks_append (a b : List Piece) : toks (a ++ b) = toks a ++ toks b := List.map_append

theorem variant_mem (v : Variant) : v ∈ allVariants := by
  rcases v with ⟨a, b, c⟩
  cases a <;> cases b <;> cases c <;> decide

/-- blocks below 1000 in front of a scale word: value, no end word except `hundred`, not empty -/
def blockCheck (g : Nat) (v : Variant) : Bool :=
  let ts := toks (sub1000 v false g)
  decide (getIntValueF true enT enL 2 ts = .ok g) && !ts.isEmpty &&
    ts.all fun t => lookup enL.round t == none || lookup enL.round t == some 100

theorem blockCheck_all : ((List.range 1000).all fun g => g == 0 || allVariants.all fun v => blockCheck g v) = true := by
  decide +kernel

theorem block_facts (v : Variant) (g : Nat) (h1 : 1 ≤ g) (h2 : g < 1000) :
    getIntValueF true enT enL 2 (toks (sub1000 v false g)) = .ok g ∧ toks (sub1000 v false g) ≠ [] ∧
      ∀ R, 100 < R → Inert enL.round R (toks (sub1000 v false g)) := by
  have h := blockCheck_all
  rw [List.all_eq_true] at h
  have hg := h g (List.mem_range.mpr h2)
  have : (g == 0) = false := by simp; omega
  simp only [this, Bool.false_or, List.all_eq_true] at hg
  have hv := hg v (variant_mem v)
  simp only [blockCheck, Bool.and_eq_true, decide_eq_true_eq, Bool.not_eq_true', List.all_eq_true,
    Bool.or_eq_true, beq_iff_eq] at hv
  obtain ⟨⟨hval, hne⟩, hin⟩ := hv
  refine ⟨hval, ?_, ?_⟩
  · intro e; rw [e] at hne; simp at hne
  · intro R hR t ht
    rcases hin t ht with h0 | h100
    · left; exact h0
    · right; exact ⟨100, h100, hR⟩

/-- the last group (cardinal or ordinal, with or without the British "and"): a good rest worth `u`, its scan
ends at most at 100 -/
def lastCheck (u : Nat) (v : Variant) (ord hh : Bool) : Bool :=
  let r := toks (lastGroup v ord hh u)
  decide ((scanR enL.round r 1).2 ≤ 100) &&
    decide (segGo true (getIntValueF true enT enL 2) enL.round (r.zip (scanR enL.round r 1).1) [] = .ok u)

theorem lastCheck_all : ((List.range 1000).all fun u => allVariants.all fun v =>
    lastCheck u v false false && lastCheck u v false true && lastCheck u v true false && lastCheck u v true true) = true := by
  decide +kernel

/-- numbers below 1000 as a whole (cardinal from 0, ordinal from 1) -/
def smallCheck (n : Nat) (v : Variant) : Bool :=
  decide (getIntValueF true enT enL 2 (toks (pieces v false n)) = .ok n) &&
    (n == 0 || decide (getIntValueF true enT enL 2 (toks (pieces v true n)) = .ok n))

theorem smallCheck_all : ((List.range 1000).all fun n => allVariants.all fun v => smallCheck n v) = true := by
  decide +kernel

end RTV.Num
