import RTV.Lemmas.NumCjk
/-! kernel evaluation of the typed `get_int_value` walk (int / binary64), numerals 8000..8999 -/
namespace RTV.NumCjk
theorem ja_l80 : jaLoopChunk 80 = true := by decide +kernel
theorem ja_l81 : jaLoopChunk 81 = true := by decide +kernel
theorem ja_l82 : jaLoopChunk 82 = true := by decide +kernel
theorem ja_l83 : jaLoopChunk 83 = true := by decide +kernel
theorem ja_l84 : jaLoopChunk 84 = true := by decide +kernel
theorem ja_l85 : jaLoopChunk 85 = true := by decide +kernel
theorem ja_l86 : jaLoopChunk 86 = true := by decide +kernel
theorem ja_l87 : jaLoopChunk 87 = true := by decide +kernel
theorem ja_l88 : jaLoopChunk 88 = true := by decide +kernel
theorem ja_l89 : jaLoopChunk 89 = true := by decide +kernel
end RTV.NumCjk
