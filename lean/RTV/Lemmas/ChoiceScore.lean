import RTV.Model.Choice
/-!
`match_value` stays inside `[0, 1]` once `StringUtility.index_of` reports a miss as `-1` (/repo 4afb7c9b1): every
matched token is found at a position `≥ start_pos` and `< len(source)`, positions strictly increase, so
`matched ≤ len(source)`, all distances are `≥ 0`, and `0.4 + 0.6·x` with `x = matched²/((matched+dev)·len(source)) ≤ 1`.
-/
namespace RTV.Choice
open RTV.Py

theorem findTok_bounds (t : Str) : ∀ (l : List Str) (k r : Nat), findTok t l k = some r → k ≤ r ∧ r < k + l.length := by
  intro l
  induction l with
  | nil => intro k r h; simp [findTok] at h
  | cons x xs ih =>
    intro k r h
    rw [findTok] at h
    split at h
    · injection h with h; subst h; simp
    · have := ih (k + 1) r h
      simp; omega

/-- a hit of `index_of` (miss = −1) from a position `p ≥ 0` lies in `[p, len)` -/
theorem indexOf_hit (source : List Str) (t : Str) (p r : Int) (hp : 0 ≤ p) (hr : 0 ≤ r)
    (h : indexOf (-1) source t p = r) : p ≤ r ∧ r < source.length := by
  unfold indexOf at h
  simp only [show ¬ p < 0 by omega, if_false] at h
  cases hf : findTok t (source.drop p.toNat) p.toNat with
  | none => simp [hf] at h; omega
  | some k =>
    simp [hf] at h
    have b := findTok_bounds t _ _ _ hf
    simp at b
    omega

/-- invariant of the loop of `match_value`: from `(matched, dev, startPos)` with `0 ≤ startPos`, the result
`(m', d')` has `d' ≥ dev` and `m' - matched ≤ max 0 (len - startPos)` -/
theorem mvGo_inv (source : List Str) : ∀ (ms : List Str) (matched dev sp : Int), 0 ≤ sp → 0 ≤ matched →
    dev ≤ (mvGo (-1) 2 source ms matched dev sp).2 ∧ matched ≤ (mvGo (-1) 2 source ms matched dev sp).1 ∧
    (mvGo (-1) 2 source ms matched dev sp).1 - matched ≤ max 0 ((source.length : Int) - sp) := by
  intro ms
  induction ms with
  | nil => intro matched dev sp _ _; simp [mvGo]; omega
  | cons t rest ih =>
    intro matched dev sp hsp hm
    rw [mvGo]
    by_cases hpos : indexOf (-1) source t sp ≥ 0
    · have hb := indexOf_hit source t sp _ hsp hpos rfl
      simp only [hpos, if_true]
      by_cases hmp : matched > 0
      · simp only [hmp, if_true]
        by_cases hd : indexOf (-1) source t sp - sp ≤ 2
        · simp only [hd, if_true]
          have := ih (matched + 1) (dev + (indexOf (-1) source t sp - sp)) (indexOf (-1) source t sp + 1)
            (by omega) (by omega)
          omega
        · simp only [hd, if_false]
          have := ih matched dev sp hsp hm
          omega
      · simp only [hmp, if_false, show (0 : Int) ≤ 2 by omega, if_true]
        have := ih (matched + 1) (dev + 0) (indexOf (-1) source t sp + 1) (by omega) (by omega)
        omega
    · simp only [hpos, if_false]
      exact ih matched dev sp hsp hm

/-- C20 (score): for every token lists and every start position `≥ 0`, `match_value` returns a score (no
ZeroDivisionError) and the score `num/den` satisfies `0 ≤ num ≤ den`, `den > 0`, i.e. lies in `[0, 1]`. -/
theorem matchValue_unit_interval (source match_ : List Str) (st : Int) (hst : 0 ≤ st) :
    ∃ sc, matchValue (-1) source match_ st = some sc ∧ 0 < sc.den ∧ 0 ≤ sc.num ∧ sc.num ≤ sc.den := by
  unfold matchValue
  have inv := mvGo_inv source match_ 0 0 st hst (by omega)
  generalize mvGo (-1) 2 source match_ 0 0 st = res at inv
  obtain ⟨m, dev⟩ := res
  obtain ⟨hd, hm0, hm⟩ := inv
  by_cases hc : m > 0 ∧ m = (match_.length : Int)
  · obtain ⟨hmpos, hml⟩ := hc
    subst hml
    have hls : (match_.length : Int) ≤ (source.length : Int) := by omega
    have hmd : 0 < (match_.length : Int) + dev := by omega
    have hprod1 : 0 < (match_.length : Int) * ((match_.length : Int) + dev) := Int.mul_pos (by omega) hmd
    have hD : 0 < (match_.length : Int) * ((match_.length : Int) + dev) * (source.length : Int) :=
      Int.mul_pos hprod1 (by omega)
    have hne : ¬ ((match_.length : Int) * ((match_.length : Int) + dev) * (source.length : Int) = 0) := by omega
    simp only [hmpos, and_self, if_true, hne, if_false]
    refine ⟨_, rfl, ?_, ?_, ?_⟩
    · show 0 < 10 * _; omega
    · show 0 ≤ 4 * _ + 6 * ((match_.length : Int) * (match_.length : Int) * (match_.length : Int))
      have : 0 ≤ (match_.length : Int) * (match_.length : Int) * (match_.length : Int) :=
        Int.mul_nonneg (Int.mul_nonneg (by omega) (by omega)) (by omega)
      omega
    · show 4 * _ + 6 * ((match_.length : Int) * (match_.length : Int) * (match_.length : Int)) ≤ 10 * _
      have h1 : (match_.length : Int) * (match_.length : Int) ≤ ((match_.length : Int) + dev) * (source.length : Int) :=
        Int.mul_le_mul (by omega) hls (by omega) (by omega)
      have h2 := Int.mul_le_mul_of_nonneg_left h1 (show 0 ≤ (match_.length : Int) by omega)
      have e1 : (match_.length : Int) * (match_.length : Int) * (match_.length : Int) =
          (match_.length : Int) * ((match_.length : Int) * (match_.length : Int)) := by rw [Int.mul_assoc]
      have e2 : (match_.length : Int) * ((match_.length : Int) + dev) * (source.length : Int) =
          (match_.length : Int) * (((match_.length : Int) + dev) * (source.length : Int)) := by rw [Int.mul_assoc]
      rw [e1, e2]
      omega
  · simp only [hc, if_false]
    exact ⟨Score.zero, rfl, by decide, by decide, by decide⟩

end RTV.Choice
