import RTV.Model.Choice
/-!
`match_value` stays inside `[0, 1]` once `StringUtility.index_of` reports a miss as `-1` (/repo 4afb7c9b1): every
matched token is found at a position `≥ start_pos` and `< len(source)`, positions strictly increase, so
`matched ≤ len(source)`, all distances are `≥ 0`, and `0.4 + 0.6·x` with `x = matched²/((matched+dev)·len(source)) ≤ 1`.
-/
namespace RTV.Choice
open RTV.Py RTV.Re

theorem findTok_bounds (t : Str) : ∀ (l : List Str) (k r : Nat), findTok t l k = some r → k ≤ r ∧ r < k + l.length := by
  intro l
  induction l with
  | nil => intro k r h; simp [findTok] at h
  | cons x xs ih =>
    intro k r h
    rw [findTok] at h
    split at h
    · injection h with h; subst h; simp
    · have := ih (k + 1) r h
      simp; omega

/-- a hit of `index_of` (miss = −1) from a position `p ≥ 0` lies in `[p, len)` -/
theorem indexOf_hit (source : List Str) (t : Str) (p r : Int) (hp : 0 ≤ p) (hr : 0 ≤ r)
    (h : indexOf (-1) source t p = r) : p ≤ r ∧ r < source.length := by
  unfold indexOf at h
  simp only [show ¬ p < 0 by omega, if_false] at h
  cases hf : findTok t (source.drop p.toNat) p.toNat with
  | none => simp [hf] at h; omega
  | some k =>
    simp [hf] at h
    have b := findTok_bounds t _ _ _ hf
    simp at b
    omega

/-- invariant of the loop of `match_value`: from `(matched, dev, startPos)` with `0 ≤ startPos`, the result
`(m', d')` has `d' ≥ dev` and `m' - matched ≤ max 0 (len - startPos)` -/
theorem mvGo_inv (source : List Str) : ∀ (ms : List Str) (matched dev sp : Int), 0 ≤ sp → 0 ≤ matched →
    dev ≤ (mvGo (-1) 2 source ms matched dev sp).2 ∧ matched ≤ (mvGo (-1) 2 source ms matched dev sp).1 ∧
    (mvGo (-1) 2 source ms matched dev sp).1 - matched ≤ max 0 ((source.length : Int) - sp) := by
  intro ms
  induction ms with
  | nil => intro matched dev sp _ _; simp [mvGo]; omega
  | cons t rest ih =>
    intro matched dev sp hsp hm
    rw [mvGo]
    by_cases hpos : indexOf (-1) source t sp ≥ 0
    · have hb := indexOf_hit source t sp _ hsp hpos rfl
      simp only [hpos, if_true]
      by_cases hmp : matched > 0
      · simp only [hmp, if_true]
        by_cases hd : indexOf (-1) source t sp - sp ≤ 2
        · simp only [hd, if_true]
          have := ih (matched + 1) (dev + (indexOf (-1) source t sp - sp)) (indexOf (-1) source t sp + 1)
            (by omega) (by omega)
          omega
        · simp only [hd, if_false]
          have := ih matched dev sp hsp hm
          omega
      · simp only [hmp, if_false, show (0 : Int) ≤ 2 by omega, if_true]
        have := ih (matched + 1) (dev + 0) (indexOf (-1) source t sp + 1) (by omega) (by omega)
        omega
    · simp only [hpos, if_false]
      exact ih matched dev sp hsp hm

/-- C20 (score): for every token lists and every start position `≥ 0`, `match_value` returns a score (no
ZeroDivisionError) and the score `num/den` satisfies `0 ≤ num ≤ den`, `den > 0`, i.e. lies in `[0, 1]`. -/
theorem matchValue_unit_interval (source match_ : List Str) (st : Int) (hst : 0 ≤ st) :
    ∃ sc, matchValue (-1) source match_ st = some sc ∧ 0 < sc.den ∧ 0 ≤ sc.num ∧ sc.num ≤ sc.den := by
  unfold matchValue
  have inv := mvGo_inv source match_ 0 0 st hst (by omega)
  generalize mvGo (-1) 2 source match_ 0 0 st = res at inv
  obtain ⟨m, dev⟩ := res
  obtain ⟨hd, hm0, hm⟩ := inv
  by_cases hc : m > 0 ∧ m = (match_.length : Int)
  · obtain ⟨hmpos, hml⟩ := hc
    subst hml
    have hls : (match_.length : Int) ≤ (source.length : Int) := by omega
    have hmd : 0 < (match_.length : Int) + dev := by omega
    have hprod1 : 0 < (match_.length : Int) * ((match_.length : Int) + dev) := Int.mul_pos (by omega) hmd
    have hD : 0 < (match_.length : Int) * ((match_.length : Int) + dev) * (source.length : Int) :=
      Int.mul_pos hprod1 (by omega)
    have hne : ¬ ((match_.length : Int) * ((match_.length : Int) + dev) * (source.length : Int) = 0) := by omega
    simp only [hmpos, and_self, if_true, hne, if_false]
    refine ⟨_, rfl, ?_, ?_, ?_⟩
    · show 0 < 10 * _; omega
    · show 0 ≤ 4 * _ + 6 * ((match_.length : Int) * (match_.length : Int) * (match_.length : Int))
      have : 0 ≤ (match_.length : Int) * (match_.length : Int) * (match_.length : Int) :=
        Int.mul_nonneg (Int.mul_nonneg (by omega) (by omega)) (by omega)
      omega
    · show 4 * _ + 6 * ((match_.length : Int) * (match_.length : Int) * (match_.length : Int)) ≤ 10 * _
      have h1 : (match_.length : Int) * (match_.length : Int) ≤ ((match_.length : Int) + dev) * (source.length : Int) :=
        Int.mul_le_mul (by omega) hls (by omega) (by omega)
      have h2 := Int.mul_le_mul_of_nonneg_left h1 (show 0 ≤ (match_.length : Int) by omega)
      have e1 : (match_.length : Int) * (match_.length : Int) * (match_.length : Int) =
          (match_.length : Int) * ((match_.length : Int) * (match_.length : Int)) := by rw [Int.mul_assoc]
      have e2 : (match_.length : Int) * ((match_.length : Int) + dev) * (source.length : Int) =
          (match_.length : Int) * (((match_.length : Int) + dev) * (source.length : Int)) := by rw [Int.mul_assoc]
      rw [e1, e2]
      omega
  · simp only [hc, if_false]
    exact ⟨Score.zero, rfl, by decide, by decide, by decide⟩

/-! ### the reported score: `top_score`, `extract`, `recognize_boolean` -/

/-- a score inside `[0, 1]`: a fraction with a positive denominator and `0 ≤ num ≤ den` -/
def InUnit (s : Score) : Prop := 0 < s.den ∧ 0 ≤ s.num ∧ s.num ≤ s.den

theorem inUnit_zero : InUnit Score.zero := by unfold InUnit Score.zero; decide

theorem topScore_fold_unit (source match_ : List Str) : ∀ (l : List Nat) (acc : Option Score),
    (∀ a, acc = some a → InUnit a) → ∀ t,
    l.foldl (fun acc (i : Nat) =>
      match acc, matchValue (-1) source match_ (i : Int) with
      | some t, some sc => some (if sc.gt t then sc else t)
      | _, _ => none) acc = some t → InUnit t := by
  intro l
  induction l with
  | nil => intro acc h t ht; exact h t ht
  | cons i rest ih =>
    intro acc h t ht
    rw [List.foldl_cons] at ht
    refine ih _ ?_ t ht
    intro a ha
    obtain ⟨sc, hsc, hu⟩ := matchValue_unit_interval source match_ (i : Int) (by omega)
    cases acc with
    | none => simp at ha
    | some t0 =>
      simp only [hsc] at ha
      injection ha with ha
      subst ha
      split
      · exact hu
      · exact h t0 rfl

/-- `top_score` (the maximum of `match_value` over every start position) lies in `[0, 1]` -/
theorem topScore_unit (source match_ : List Str) (t : Score) (h : topScore (-1) source match_ = some t) : InUnit t := by
  unfold topScore at h
  exact topScore_fold_unit source match_ _ _ (by intro a ha; injection ha with ha; subst ha; exact inUnit_zero) t h

theorem partialFor_unit (E : Env) (hm : E.missIndex = -1) (source trimmed : Str) (toks : List Str) (re : RE) (v : Bool)
    (out : List ER) (h : partialFor E source trimmed toks re v = some out) : ∀ e ∈ out, InUnit e.score := by
  unfold partialFor at h
  rw [hm] at h
  revert out
  generalize getMatches E re trimmed = ms
  suffices H : ∀ (ms : List (Nat × Str)) (acc : Option (List ER)), (∀ o, acc = some o → ∀ e ∈ o, InUnit e.score) →
      ∀ out, ms.foldl (fun acc am =>
        let m := am.2
        match acc with
        | none => none
        | some out =>
          match topScore (-1) toks (tokenize E m) with
          | none => none
          | some top =>
            if top.gt Score.zero then
              match (if E.useMatchOffset then some am.1 else findFrom trimmed m 0) with
              | none => none
              | some start =>
                some (out ++ [⟨start, m.length, strip E.isSpace (sliceI source start (start + m.length)), v, top⟩])
            else some out) acc = some out → ∀ e ∈ out, InUnit e.score by
    intro out h
    exact H ms (some []) (by intro o ho; injection ho with ho; subst ho; intro e he; simp at he) out h
  intro ms
  induction ms with
  | nil => intro acc hacc out h; exact hacc out h
  | cons am rest ih =>
    intro acc hacc out h
    rw [List.foldl_cons] at h
    refine ih _ ?_ out h
    intro o ho
    cases acc with
    | none => simp at ho
    | some o0 =>
      simp only at ho
      cases ht : topScore (-1) toks (tokenize E am.2) with
      | none => simp [ht] at ho
      | some top =>
        simp only [ht] at ho
        have hu := topScore_unit _ _ _ ht
        split at ho
        · split at ho
          · simp at ho
          · injection ho with ho
            subst ho
            intro e he
            rcases List.mem_append.1 he with he | he
            · exact hacc o0 rfl e he
            · simp at he; subst he; exact hu
        · injection ho with ho
          subst ho
          exact hacc o0 rfl

theorem mem_insertByStart (x y : ER) : ∀ l : List ER, y ∈ insertByStart x l ↔ y = x ∨ y ∈ l := by
  intro l
  induction l with
  | nil => simp [insertByStart]
  | cons z zs ih =>
    rw [insertByStart]
    split
    · simp
    · simp [ih]; constructor
      · rintro (h | h | h)
        · exact Or.inr (Or.inl h)
        · exact Or.inl h
        · exact Or.inr (Or.inr h)
      · rintro (h | h | h)
        · exact Or.inr (Or.inl h)
        · exact Or.inl h
        · exact Or.inr (Or.inr h)

theorem mem_foldl_insert (y : ER) : ∀ (l acc : List ER),
    y ∈ l.foldl (fun acc x => insertByStart x acc) acc ↔ y ∈ acc ∨ y ∈ l := by
  intro l
  induction l with
  | nil => simp
  | cons x xs ih =>
    intro acc
    rw [List.foldl_cons, ih, mem_insertByStart]
    simp; constructor
    · rintro ((h | h) | h)
      · exact Or.inr (Or.inl h)
      · exact Or.inl h
      · exact Or.inr (Or.inr h)
    · rintro (h | h | h)
      · exact Or.inl (Or.inr h)
      · exact Or.inl (Or.inl h)
      · exact Or.inr h

theorem mem_stableSort (y : ER) (l : List ER) : y ∈ extract.stableSort l ↔ y ∈ l := by
  unfold extract.stableSort; rw [mem_foldl_insert]; simp

theorem zipIdx_bound {α : Type} : ∀ (l : List α) (k : Nat) (p : α × Nat), p ∈ l.zipIdx k → p.2 < k + l.length := by
  intro l
  induction l with
  | nil => intro k p h; simp at h
  | cons a as ih =>
    intro k p h
    rw [List.zipIdx_cons] at h
    rcases List.mem_cons.1 h with h | h
    · subst h; simp
    · have := ih (k + 1) p h
      simp; omega

theorem topIndex_fold (ps : List (ER × Nat)) : ∀ (acc : Score × Nat),
    (ps.foldl (fun (acc : Score × Nat) (p : ER × Nat) => if p.1.score.gt acc.1 then (p.1.score, p.2) else acc) acc).2 = acc.2 ∨
    ∃ p ∈ ps, (ps.foldl (fun (acc : Score × Nat) (p : ER × Nat) =>
      if p.1.score.gt acc.1 then (p.1.score, p.2) else acc) acc).2 = p.2 := by
  induction ps with
  | nil => intro acc; left; rfl
  | cons p rest ih =>
    intro acc
    rw [List.foldl_cons]
    by_cases hg : p.1.score.gt acc.1 = true
    · simp only [hg, if_true]
      rcases ih (p.1.score, p.2) with h | ⟨p', hp', h⟩
      · right; exact ⟨p, List.mem_cons_self, h⟩
      · right; exact ⟨p', List.mem_cons_of_mem _ hp', h⟩
    · simp only [hg]
      rcases ih acc with h | ⟨p', hp', h⟩
      · left; exact h
      · right; exact ⟨p', List.mem_cons_of_mem _ hp', h⟩

theorem topIndex_lt (l : List ER) (hl : l ≠ []) : topIndex l < l.length := by
  unfold topIndex
  rcases topIndex_fold l.zipIdx (Score.zero, 0) with h | ⟨p, hp, h⟩
  · rw [h]; cases l with
    | nil => exact absurd rfl hl
    | cons a as => simp
  · rw [h]; have := zipIdx_bound l 0 p hp; omega

/-- whatever `extract` reports carries a score in `[0, 1]` (`index_of` answering `-1` on a miss) -/
theorem extract_unit (E : Env) (hm : E.missIndex = -1) (q : Str) (ers : List ER) (h : extract E q = some ers) :
    ∀ e ∈ ers, InUnit e.score := by
  unfold extract at h
  simp only at h
  split at h
  · injection h with h; subst h; intro e he; simp at he
  · cases hts : partialFor E q (E.lower q) (tokenize E (E.lower q)) E.trueRe true with
    | none => simp [hts] at h
    | some ts =>
      cases hfs : partialFor E q (E.lower q) (tokenize E (E.lower q)) E.falseRe false with
      | none => simp [hts, hfs] at h
      | some fs =>
        simp only [hts, hfs] at h
        split at h
        · injection h with h; subst h; intro e he; simp at he
        · rename_i hne
          injection h with h
          subst h
          intro e he
          simp only [List.mem_singleton] at he
          have hs : extract.stableSort (ts ++ fs) ≠ [] := by
            intro hnil
            cases hp : ts ++ fs with
            | nil => exact hne hp
            | cons a as =>
              have : a ∈ extract.stableSort (ts ++ fs) := (mem_stableSort a _).2 (by rw [hp]; simp)
              rw [hnil] at this; simp at this
          have hlt := topIndex_lt _ hs
          have hmem : e ∈ extract.stableSort (ts ++ fs) := by
            rw [he, List.getD_eq_getElem?_getD, List.getElem?_eq_getElem hlt]; simp
          have := (mem_stableSort e _).1 hmem
          rcases List.mem_append.1 this with h1 | h1
          · exact partialFor_unit E hm _ _ _ _ _ ts hts e h1
          · exact partialFor_unit E hm _ _ _ _ _ fs hfs e h1

/-- C20 (score, UNIVERSAL): whatever `recognize_boolean` reports carries a score in `[0, 1]` — every query, every
environment in which `index_of` answers `-1` on a miss, both parser variants (the extractor's `top_score` handed on, or
the constructor default `0.0`) -/
theorem recognise_unit (E : Env) (hm : E.missIndex = -1) (q : Str) (rs : List MR) (h : recognise E q = some rs) :
    ∀ r ∈ rs, InUnit r.score := by
  unfold recognise at h
  cases he : extract E q with
  | none =>
    simp only [he] at h
    split at h
    · injection h with h; subst h; intro r hr; simp at hr
    · simp at h
  | some ers =>
    simp only [he] at h
    injection h with h
    subst h
    intro r hr
    obtain ⟨e, hemem, rfl⟩ := List.mem_map.1 hr
    show InUnit (parserScore E e)
    unfold parserScore
    split
    · exact extract_unit E hm q ers he e hemem
    · exact inUnit_zero

end RTV.Choice
