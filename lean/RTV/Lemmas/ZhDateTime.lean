import RTV.Props.C08
import RTV.Lemmas.Periods
import RTV.Model.ZhDateTime
/-!
Helper lemmas for `RTV/Props/C08Zh.lean`: what the functions of `RTV.Model.ZhDateTime` compute, reduced to the Base
functions of `RTV.Model.DateUtils` (whose specifications are in `Lemmas/DateUtils.lean` / `Props/C08.lean`) wherever the
Chinese code re-implements the same arithmetic.
-/
set_option linter.unusedVariables false
set_option linter.unusedSimpArgs false
namespace RTV.ZhDT
open RTV.Cal RTV.DateUtils RTV.WF

/-! ### special days -/

/-- the Chinese special-day branch computes what the Base branch computes (`reference + swift` then midnight, instead
of midnight then `+ swift`) -/
theorem zhSpecialDay_eq_base (R : DateTime) (hv : R.date.valid = true) (k : Int) :
    zhSpecialDay R k = (match DateUtils.specialDay R k with
                        | some (t, v) => .ok t v v
                        | none => .raises) := by
  unfold zhSpecialDay DateUtils.specialDay
  rw [safeCreate_valid R.date hv]
  unfold addDays
  cases hd : R.date.addDays k with
  | none => simp [hd]
  | some d =>
    have s := Date.addDays_spec R.date hv k d hd
    simp only [hd, Option.map_some, safeCreate_valid d s.1]
    rfl

/-! ### relative weekday -/

theorem optDate_ok (o : Option DateTime) (t : Str) (f p : DateTime)
    (h : (match o with | none => DRes.raises | some v => DRes.ok (luisDateOf v) v v) = .ok t f p) :
    o = some f ∧ f = p ∧ t = luisDateOf f := by
  cases o with
  | none => simp at h
  | some v =>
    simp only [DRes.ok.injEq] at h
    obtain ⟨h1, h2, h3⟩ := h
    subst h2 h3
    exact ⟨rfl, rfl, h1.symm⟩

theorem relWeekday_ok (rel : Rel) (R : DateTime) (dow : Nat) (t : Str) (f p : DateTime)
    (h : relWeekday rel R dow = .ok t f p) :
    f = p ∧ t = luisDateOf f ∧
    (match rel with
     | .this => DateUtils.this R dow
     | .next => DateUtils.next R dow
     | .last => DateUtils.last R dow) = some f := by
  cases rel
  · have s := optDate_ok (DateUtils.this R dow) t f p h; exact ⟨s.2.1, s.2.2, s.1⟩
  · have s := optDate_ok (DateUtils.next R dow) t f p h; exact ⟨s.2.1, s.2.2, s.1⟩
  · have s := optDate_ok (DateUtils.last R dow) t f p h; exact ⟨s.2.1, s.2.2, s.1⟩

/-! ### N天前 / N周后 -/

theorem agoLater_days (R : DateTime) (hv : R.date.valid = true) (k : Int) (t : Str) (f p : DateTime)
    (h : (match DateUtils.addDays R k with | none => DRes.raises | some d => DRes.ok (luisDateOf d) d d) = .ok t f p) :
    f = p ∧ f.date.valid = true ∧ (f.date.ord : Int) = R.date.ord + k ∧ f.secs = R.secs ∧ t = luisDateOf f := by
  cases ha : DateUtils.addDays R k with
  | none => simp [ha] at h
  | some d =>
    simp only [ha, DRes.ok.injEq] at h
    obtain ⟨h1, h2, h3⟩ := h
    subst h2 h3
    have s := addDays_spec R hv k _ ha
    exact ⟨rfl, s.1, s.2.1, s.2.2, h1.symm⟩

/-! ### one-word periods -/

theorem ofTriple_ok (o : Option (Str × DateTime × DateTime)) (t : Str) (b e pb pe : DateTime)
    (h : ofTriple o = .ok t b e pb pe) : o = some (t, b, e) ∧ pb = b ∧ pe = e := by
  unfold ofTriple at h
  cases o with
  | none => simp at h
  | some x =>
    obtain ⟨t', b', e'⟩ := x
    simp only [Periods.Res.ok.injEq] at h
    obtain ⟨h1, h2, h3, h4, h5⟩ := h
    subst h1 h2 h3 h4 h5
    exact ⟨rfl, rfl, rfl⟩

theorem oneWord_week (R : DateTime) (src : Str) (h1 : isYearToDate src = false) (h2 : isWeekOnly src = true) :
    oneWord R src none = ofTriple (weekPeriod R (swiftDayOrMonth src)) := by
  unfold oneWord
  simp [h1, h2]

theorem oneWord_weekend (R : DateTime) (src : Str) (h1 : isYearToDate src = false) (h2 : isWeekOnly src = false)
    (h3 : isWeekend src = true) :
    oneWord R src none = ofTriple (weekendPeriod R (swiftDayOrMonth src)) := by
  unfold oneWord
  simp [h1, h2, h3]

theorem oneWord_month (R : DateTime) (src : Str) (h1 : isYearToDate src = false) (h2 : isWeekOnly src = false)
    (h3 : isWeekend src = false) (h4 : isMonthOnly src = true) :
    oneWord R src none = ofTriple (monthPeriod R (swiftDayOrMonth src)) := by
  unfold oneWord
  simp [h1, h2, h3, h4]

theorem oneWord_year (R : DateTime) (src : Str) (h1 : isYearToDate src = false) (h2 : isWeekOnly src = false)
    (h3 : isWeekend src = false) (h4 : isMonthOnly src = false) (h5 : isYearOnly src = true) :
    oneWord R src none = ofTriple (yearPeriod R (swiftDayOrMonth src)) := by
  unfold oneWord
  simp [h1, h2, h3, h4, h5]

/-! ### ranges written as `(begin,end,P<n><U>)` -/

theorem luisOf_eq (x : DateTime) : Periods.luisOf x = formatDate x.date := rfl

theorem triple_text (b e : DateTime) (n : Nat) (letter : Nat) :
    [40] ++ Periods.luisOf b ++ [44] ++ Periods.luisOf e ++ [44, 80] ++ Periods.intStr (n : Int) ++ [letter, 41] =
      dateTriple b.date e.date n letter := by
  have : Periods.intStr (n : Int) = natStr n := by
    unfold Periods.intStr
    rw [if_neg (by omega)]
    simp
  rw [this]
  simp [dateTriple, Periods.luisOf]

/-! ### first of a month + k months -/

/-- `datetime(y, m, 1) + datedelta(months=k)` is the first of the shifted month (the day 1 exists in every month, so the
shim neither rolls forward nor clamps). -/
theorem addMonths_first (y m : Nat) (k : Int) (hk : k ≠ 0) (h1 : 1 ≤ m) (h2 : m ≤ 12)
    (Y M : Nat) (hYM : ((Y : Int), M) = shiftMonth y m k) (hY1 : 1 ≤ Y) (hY2 : Y ≤ 9999) :
    datedeltaAdd ⟨y, m, 1⟩ 0 k 0 = some ⟨Y, M, 1⟩ := by
  rw [datedeltaAdd_months_eq]
  unfold shiftMonth at hYM
  simp only [Prod.mk.injEq] at hYM
  have ms : monthStep ⟨y, m, 1⟩ k = ((Y : Int), M, 1) := by
    unfold monthStep
    simp only [ne_eq, hk, not_false_eq_true, if_true]
    have hdim : ¬ (1 > (if 1 ≤ ((y : Int) * 12 + ((m : Int) - 1) + k) / 12 ∧ ((y : Int) * 12 + ((m : Int) - 1) + k) / 12 ≤ 9999 then
        daysInMonth (((y : Int) * 12 + ((m : Int) - 1) + k) / 12).toNat ((((y : Int) * 12 + ((m : Int) - 1) + k) % 12).toNat + 1)
      else 31)) := by
      split
      · have := daysInMonth_ge (((y : Int) * 12 + ((m : Int) - 1) + k) / 12).toNat
          ((((y : Int) * 12 + ((m : Int) - 1) + k) % 12).toNat + 1) (by omega) (by omega)
        omega
      · omega
    rw [if_neg hdim, ← hYM.1, ← hYM.2]
  have hM : 1 ≤ M ∧ M ≤ 12 := by omega
  have v := valid_first Y M hY1 hY2 hM.1 hM.2
  rw [ms]
  simp only [Int.toNat_natCast]
  rw [if_pos (by omega), if_pos v]

end RTV.ZhDT
