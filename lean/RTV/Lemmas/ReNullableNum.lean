import RTV.Lemmas.ReNullable
import RTV.Gen.NumRegexIndex
import RTV.Gen.NumCjkZh
import RTV.Gen.NumCjkJa
/-! The number side of `RTV/Lemmas/ReNullable.lean`: on every regex the number models hand to `RTV.Re.findAll` — the
digit-family members, `_negative_number_terms` and the ambiguity-filter value regexes of every number extractor
(`RTV.NumExtract.matchesOf / negSpan / ambMatches`), and `point_regex`, `spe_get_number_regex`, `frac_split_regex`,
`digital_number_regex` of the zh-cn / ja-jp parser configurations (`RTV.NumCjk.findTexts / split`) — `findAll` is the
`finditer` of the `regex` module, for every string and any tables. The premises are the generated, kernel-checked
`allExt_finditer_safe` / `finditer_safe` (re-emitted from the working tree on every run). -/
namespace RTV.Re
open RTV.Gen.NumRegex

theorem numExt_findAll_is_finditer (T : Tables) (s : Array Nat) : ∀ e ∈ allExt,
    (∀ p ∈ e.2.fam, findAll T s p.2 = findAllPy T s p.2) ∧
    (∀ r, e.2.neg = some r → findAll T s r = findAllPy T s r) ∧
    (∀ kv ∈ e.2.amb, findAll T s kv.2 = findAllPy T s kv.2) := by
  intro e he
  have h := List.all_eq_true.1 allExt_finditer_safe e he
  simp only [Bool.and_eq_true] at h
  obtain ⟨⟨h1, h2⟩, h3⟩ := h
  refine ⟨fun p hp => ?_, fun r hr => ?_, fun kv hkv => ?_⟩
  · have := List.all_eq_true.1 h1 p hp
    exact findAll_eq_findAllPy (by simp [finditerSafe, this])
  · rw [hr] at h2
    exact findAll_eq_findAllPy (by simp only [finditerSafe, h2, Bool.true_or])
  · have := List.all_eq_true.1 h3 kv hkv
    exact findAll_eq_findAllPy (by simpa [finditerSafe] using this)

theorem findAll_is_finditer_of_all {l : List (Option RE)}
    (h : (l.all fun o => match o with | some r => !nullable r | none => true) = true) (T : Tables) (s : Array Nat)
    (r : RE) (hr : some r ∈ l) : findAll T s r = findAllPy T s r := by
  have := List.all_eq_true.1 h (some r) hr
  simp only at this
  exact findAll_eq_findAllPy (by simp only [finditerSafe, this, Bool.true_or])

theorem numCjkZh_findAll_is_finditer (T : Tables) (s : Array Nat) (r : RE)
    (hr : some r ∈ [RTV.Gen.NumCjkZh.point, RTV.Gen.NumCjkZh.speGetNumber, RTV.Gen.NumCjkZh.fracSplit,
                    RTV.Gen.NumCjkZh.digitalNumber]) : findAll T s r = findAllPy T s r :=
  findAll_is_finditer_of_all RTV.Gen.NumCjkZh.finditer_safe T s r hr

theorem numCjkJa_findAll_is_finditer (T : Tables) (s : Array Nat) (r : RE)
    (hr : some r ∈ [RTV.Gen.NumCjkJa.point, RTV.Gen.NumCjkJa.speGetNumber, RTV.Gen.NumCjkJa.fracSplit,
                    RTV.Gen.NumCjkJa.digitalNumber]) : findAll T s r = findAllPy T s r :=
  findAll_is_finditer_of_all RTV.Gen.NumCjkJa.finditer_safe T s r hr

end RTV.Re
