import RTV.Lemmas.CjkZh0
import RTV.Lemmas.CjkZh1
import RTV.Lemmas.CjkZh2
import RTV.Lemmas.CjkZh3
/-! all chunks together: `spellZh n` is read back as `n` for every guarded `n < 10000` -/
namespace RTV.Num

theorem zh_chunks (k : Nat) (hk : k < 100) : zhChunk k = true := by
  match k, hk with
  | 0, _ => exact zh_c0
  | 1, _ => exact zh_c1
  | 2, _ => exact zh_c2
  | 3, _ => exact zh_c3
  | 4, _ => exact zh_c4
  | 5, _ => exact zh_c5
  | 6, _ => exact zh_c6
  | 7, _ => exact zh_c7
  | 8, _ => exact zh_c8
  | 9, _ => exact zh_c9
  | 10, _ => exact zh_c10
  | 11, _ => exact zh_c11
  | 12, _ => exact zh_c12
  | 13, _ => exact zh_c13
  | 14, _ => exact zh_c14
  | 15, _ => exact zh_c15
  | 16, _ => exact zh_c16
  | 17, _ => exact zh_c17
  | 18, _ => exact zh_c18
  | 19, _ => exact zh_c19
  | 20, _ => exact zh_c20
  | 21, _ => exact zh_c21
  | 22, _ => exact zh_c22
  | 23, _ => exact zh_c23
  | 24, _ => exact zh_c24
  | 25, _ => exact zh_c25
  | 26, _ => exact zh_c26
  | 27, _ => exact zh_c27
  | 28, _ => exact zh_c28
  | 29, _ => exact zh_c29
  | 30, _ => exact zh_c30
  | 31, _ => exact zh_c31
  | 32, _ => exact zh_c32
  | 33, _ => exact zh_c33
  | 34, _ => exact zh_c34
  | 35, _ => exact zh_c35
  | 36, _ => exact zh_c36
  | 37, _ => exact zh_c37
  | 38, _ => exact zh_c38
  | 39, _ => exact zh_c39
  | 40, _ => exact zh_c40
  | 41, _ => exact zh_c41
  | 42, _ => exact zh_c42
  | 43, _ => exact zh_c43
  | 44, _ => exact zh_c44
  | 45, _ => exact zh_c45
  | 46, _ => exact zh_c46
  | 47, _ => exact zh_c47
  | 48, _ => exact zh_c48
  | 49, _ => exact zh_c49
  | 50, _ => exact zh_c50
  | 51, _ => exact zh_c51
  | 52, _ => exact zh_c52
  | 53, _ => exact zh_c53
  | 54, _ => exact zh_c54
  | 55, _ => exact zh_c55
  | 56, _ => exact zh_c56
  | 57, _ => exact zh_c57
  | 58, _ => exact zh_c58
  | 59, _ => exact zh_c59
  | 60, _ => exact zh_c60
  | 61, _ => exact zh_c61
  | 62, _ => exact zh_c62
  | 63, _ => exact zh_c63
  | 64, _ => exact zh_c64
  | 65, _ => exact zh_c65
  | 66, _ => exact zh_c66
  | 67, _ => exact zh_c67
  | 68, _ => exact zh_c68
  | 69, _ => exact zh_c69
  | 70, _ => exact zh_c70
  | 71, _ => exact zh_c71
  | 72, _ => exact zh_c72
  | 73, _ => exact zh_c73
  | 74, _ => exact zh_c74
  | 75, _ => exact zh_c75
  | 76, _ => exact zh_c76
  | 77, _ => exact zh_c77
  | 78, _ => exact zh_c78
  | 79, _ => exact zh_c79
  | 80, _ => exact zh_c80
  | 81, _ => exact zh_c81
  | 82, _ => exact zh_c82
  | 83, _ => exact zh_c83
  | 84, _ => exact zh_c84
  | 85, _ => exact zh_c85
  | 86, _ => exact zh_c86
  | 87, _ => exact zh_c87
  | 88, _ => exact zh_c88
  | 89, _ => exact zh_c89
  | 90, _ => exact zh_c90
  | 91, _ => exact zh_c91
  | 92, _ => exact zh_c92
  | 93, _ => exact zh_c93
  | 94, _ => exact zh_c94
  | 95, _ => exact zh_c95
  | 96, _ => exact zh_c96
  | 97, _ => exact zh_c97
  | 98, _ => exact zh_c98
  | 99, _ => exact zh_c99
  | k + 100, h => omega

theorem zh_all (n : Nat) (h : n < 10000) (hg : zhGuard n = true) :
    cjkIntValue asciiDigits zhCjk (spellZh n) = n := by
  have hc := zh_chunks (n / 100) (by omega)
  simp only [zhChunk, List.all_eq_true, List.mem_range] at hc
  have := hc (n % 100) (Nat.mod_lt _ (by decide))
  have e : 100 * (n / 100) + n % 100 = n := Nat.div_add_mod n 100
  rw [e] at this
  simpa [zhCheck, hg] using this

end RTV.Num
