import RTV.Lemmas.Url
/-! Kernel evaluation of the URL grammar family, chunk 2. -/
namespace RTV.Seq
set_option maxRecDepth 100000
theorem url_family2_fast : urlOK fastSeqEnv RTV.Gen.urlFamily2 = true := by decide +kernel
end RTV.Seq
