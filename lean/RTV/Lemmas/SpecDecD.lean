import RTV.Lemmas.SpecRun
/-! Kernel evaluation of the spec cases (C19 through the model), family `bool`. -/
namespace RTV.Seq
set_option maxRecDepth 100000
theorem spec_bool_fast : boolOK RTV.Choice.fastEnv RTV.Gen.specCases_bool = true := by decide +kernel
end RTV.Seq
