import RTV.Model.TimePeriod
import RTV.Lemmas.WellFormed
import RTV.Lemmas.DtRes
import RTV.Lemmas.DateUtils
/-!
Lemmas for `RTV.TimePeriod` (Props/C07TimePeriod): the `(T…,T…,PT…)` triples the time-period parser writes satisfy the
C10 predicate `tripleOK`; offsets ↔ clock fields; the shift of `specificShift` is a whole number of half days.
-/
namespace RTV.TimePeriod
open RTV.Cal RTV.WF
set_option linter.unusedVariables false

/-- `THH` or `THH:MM` -/
def pt (h m : Nat) (withMin : Bool) : Str := if withMin then [84] ++ pad2 h ++ [58] ++ pad2 m else [84] ++ pad2 h

theorem pad2_zero : pad2 0 = [48, 48] := by decide

theorem parsePoint_pt (h m : Nat) (hh : h < 24) (hm : m < 60) (w : Bool) (h0 : w = false → m = 0) :
    parsePoint (pt h m w) = some (none, some (h * 3600 + m * 60)) := by
  cases w with
  | true =>
    have e := parseTime_formatTime h m 0 hh hm (by omega)
    simp only [formatTime, pad2, List.cons_append, List.nil_append] at e
    simp [pt, parsePoint, parseDate, timexTime, pad2, e]
  | false =>
    have := h0 rfl; subst this
    have e := parseTime_formatTime h 0 0 hh (by omega) (by omega)
    simp only [formatTime, pad2, List.cons_append, List.nil_append] at e
    simp [pt, parsePoint, parseDate, timexTime, pad2, e]

theorem pt_no_comma (h m : Nat) (w : Bool) : ∀ c ∈ pt h m w, c ≠ 44 := by
  intro c hc
  cases w <;> simp [pt, pad2] at hc <;> omega

/-- The general clock triple: two points `THH[:MM]` and a `PT…` text that reads as `n` seconds, where `n` is the distance
from the first to the second point modulo a day. -/
theorem clockTriple_ok (h1 m1 h2 m2 : Nat) (w1 w2 : Bool) (a1 : h1 < 24) (b1 : m1 < 60) (a2 : h2 < 24) (b2 : m2 < 60)
    (z1 : w1 = false → m1 = 0) (z2 : w2 = false → m2 = 0) (rest : Str) (n : Nat) (hrest : rest ≠ [])
    (hpt : ptSeconds (rest.length + 4) rest = some (n, 1)) (hno : ∀ c ∈ rest, c ≠ 44)
    (hn : (((h2 * 3600 + m2 * 60 : Nat) : Int) - ((h1 * 3600 + m1 * 60 : Nat) : Int)) % 86400 = (n : Int)) :
    tripleOK ([40] ++ pt h1 m1 w1 ++ [44] ++ pt h2 m2 w2 ++ [44] ++ (80 :: 84 :: rest) ++ [41])
      (some (formatTime h1 m1 0)) (some (formatTime h2 m2 0)) = true := by
  have hcP : ∀ c ∈ (80 :: 84 :: rest : Str), c ≠ 44 := by
    intro c hc; simp only [List.mem_cons] at hc
    rcases hc with hc | hc | hc
    · omega
    · omega
    · exact hno c hc
  have hs : splitOn 44 (pt h1 m1 w1 ++ 44 :: (pt h2 m2 w2 ++ 44 :: (80 :: 84 :: rest))) =
      [pt h1 m1 w1, pt h2 m2 w2, 80 :: 84 :: rest] := by
    rw [splitOn_append 44 _ _ (pt_no_comma _ _ _), splitOn_append 44 _ _ (pt_no_comma _ _ _), splitOn_no_sep 44 _ hcP]
  have hshape : [40] ++ pt h1 m1 w1 ++ [44] ++ pt h2 m2 w2 ++ [44] ++ (80 :: 84 :: rest) ++ [41] =
      40 :: ((pt h1 m1 w1 ++ 44 :: (pt h2 m2 w2 ++ 44 :: (80 :: 84 :: rest))) ++ [41]) := by simp
  rw [hshape]
  have hdrop : ((40 :: ((pt h1 m1 w1 ++ 44 :: (pt h2 m2 w2 ++ 44 :: (80 :: 84 :: rest))) ++ [41])).drop 1).dropLast =
      pt h1 m1 w1 ++ 44 :: (pt h2 m2 w2 ++ 44 :: (80 :: 84 :: rest)) := by
    rw [List.drop_one, List.tail_cons, List.dropLast_concat]
  have hlast : (40 :: ((pt h1 m1 w1 ++ 44 :: (pt h2 m2 w2 ++ 44 :: (80 :: 84 :: rest))) ++ [41])).getLast? = some 41 := by
    rw [← List.cons_append, List.getLast?_concat]
  unfold tripleOK
  simp only [List.head?_cons, hlast, and_self, if_true, hdrop, hs, parsePoint_pt h1 m1 a1 b1 w1 z1,
    parsePoint_pt h2 m2 a2 b2 w2 z2, diffSeconds, hpt]
  simp [hrest]
  have f1 : ∀ (h m : Nat), h < 24 → m < 60 →
      formatTime ((h * 3600 + m * 60) / 3600) ((h * 3600 + m * 60) / 60 % 60) (h * 3600 % 60) = formatTime h m 0 := by
    intro h m a b
    have e1 : (h * 3600 + m * 60) / 3600 = h := by omega
    have e2 : (h * 3600 + m * 60) / 60 % 60 = m := by omega
    have e3 : h * 3600 % 60 = 0 := by omega
    rw [e1, e2, e3]
  refine ⟨⟨f1 h1 m1 a1 b1, f1 h2 m2 a2 b2⟩, ?_⟩
  rw [← hn]; omega

/-! ### offsets ↔ clock fields -/

theorem off_fields (h m s : Nat) (k : Int) (hh : h < 24) (hm : m < 60) (hs : s < 60) :
    offHour ((h : Int) * 3600 + (m : Int) * 60 + (s : Int) + k * 86400) = h ∧
    offMinute ((h : Int) * 3600 + (m : Int) * 60 + (s : Int) + k * 86400) = m ∧
    offSecond ((h : Int) * 3600 + (m : Int) * 60 + (s : Int) + k * 86400) = s := by
  unfold offHour offMinute offSecond
  refine ⟨?_, ?_, ?_⟩ <;> omega

theorem fmtOff_hms (h m s : Nat) (k : Int) (hh : h < 24) (hm : m < 60) (hs : s < 60) :
    fmtOff ((h : Int) * 3600 + (m : Int) * 60 + (s : Int) + k * 86400) = formatTime h m s := by
  obtain ⟨a, b, c⟩ := off_fields h m s k hh hm hs
  unfold fmtOff; rw [a, b, c]

/-- every offset is `h:m:s` of some day -/
theorem off_decompose (off : Int) :
    off = (offHour off : Int) * 3600 + (offMinute off : Int) * 60 + (offSecond off : Int) + (off / 86400) * 86400 ∧
    offHour off < 24 ∧ offMinute off < 60 ∧ offSecond off < 60 := by
  unfold offHour offMinute offSecond
  refine ⟨?_, ?_, ?_, ?_⟩ <;> omega

/-- what `fmtOff` prints is always a valid time of day -/
theorem fmtOff_valid (off : Int) : ∃ h m s, h < 24 ∧ m < 60 ∧ s < 60 ∧ fmtOff off = formatTime h m s :=
  ⟨offHour off, offMinute off, offSecond off, (off_decompose off).2.1, (off_decompose off).2.2.1, (off_decompose off).2.2.2, rfl⟩

theorem fmtOff_hours (n : Nat) : fmtOff ((n : Int) * 3600) = formatTime (n % 24) 0 0 := by
  have a : offHour ((n : Int) * 3600) = n % 24 := by unfold offHour; omega
  have b : offMinute ((n : Int) * 3600) = 0 := by unfold offMinute; omega
  have c : offSecond ((n : Int) * 3600) = 0 := by unfold offSecond; omega
  unfold fmtOff; rw [a, b, c]

theorem fmt2_lt (n : Nat) (h : n < 100) : fmt2 n = pad2 n := by simp [fmt2, h]

theorem natStr_no_comma (n : Nat) : ∀ c ∈ RTV.WF.natStr n, c ≠ 44 := by
  intro c hc; have := natStr_digits n c hc; simp [isDigit] at this; omega

/-! ### the three duration texts -/

theorem pt_H (d : Nat) : ptSeconds ((RTV.WF.natStr d ++ [72]).length + 4) (RTV.WF.natStr d ++ [72]) = some (d * 3600, 1) := by
  have := ptSeconds_component ((RTV.WF.natStr d).length + 4) d 3600 72 [] 0 (by decide) (by decide) (by decide)
    (ptSeconds_nil _)
  simpa using this

theorem pt_M (d : Nat) : ptSeconds ((RTV.WF.natStr d ++ [77]).length + 4) (RTV.WF.natStr d ++ [77]) = some (d * 60, 1) := by
  have := ptSeconds_component ((RTV.WF.natStr d).length + 4) d 60 77 [] 0 (by decide) (by decide) (by decide)
    (ptSeconds_nil _)
  simpa using this

theorem pt_HM (a b : Nat) :
    ptSeconds ((RTV.WF.natStr a ++ [72] ++ RTV.WF.natStr b ++ [77]).length + 4) (RTV.WF.natStr a ++ [72] ++ RTV.WF.natStr b ++ [77]) =
      some (a * 3600 + b * 60, 1) := by
  have h1 := ptSeconds_component ((RTV.WF.natStr a).length + (RTV.WF.natStr b).length + 4) b 60 77 [] 0 (by decide) (by decide) (by decide)
    (ptSeconds_nil _)
  have h2 := ptSeconds_component ((RTV.WF.natStr a).length + (RTV.WF.natStr b).length + 5) a 3600 72 (RTV.WF.natStr b ++ [77]) (b * 60)
    (by decide) (by decide) (by decide) (by simpa using h1)
  have e : (RTV.WF.natStr a ++ [72] ++ RTV.WF.natStr b ++ [77]).length + 4 = (RTV.WF.natStr a).length + (RTV.WF.natStr b).length + 5 + 1 := by
    simp; omega
  rw [e]
  simpa [List.append_assoc] using h2

/-! ### `parse_specific_time`: shape of the result, consistency of its triple -/

/-- the TIMEX `parse_specific_time` writes for the offsets `b`, `e` and the minute captures `bm`, `em` (−1 = absent) -/
def specTimex (b e bm em : Int) : Str :=
  [40] ++ pointTimex b bm ++ [44] ++ pointTimex e em ++ [44] ++ specificSpan (e - b) ++ [41]

theorem specificCore_shape (v : Variant) (bh eh : Nat) (bm em : Int) (l r t c m : Str) (b e : Int)
    (h : specificCore v bh eh bm em l r = .ok t c m b e) :
    t = specTimex b e bm em ∧ m = [] ∧ (c = [] ∨ c = RTV.DtRes.sAmPm) := by
  unfold specificCore at h
  simp only at h
  by_cases g : (bh > 23 ∨ eh > 23 ∨ (if bm > 0 then bm else 0) > 59 ∨ (if em > 0 then em else 0) > 59)
  · rw [if_pos g] at h; cases h
  · rw [if_neg g] at h
    generalize specificShift v bh eh _ _ _ _ _ _ = s at h
    obtain ⟨b0, e0, amb⟩ := s
    simp only [Res.ok.injEq] at h
    obtain ⟨h1, h2, h3, h4, h5⟩ := h
    subst h4 h5
    refine ⟨h1.symm, h3.symm, ?_⟩
    cases amb <;> simp at h2 <;> simp [h2]

theorem specTimex_triple (b e bm em : Int) (hb : b % 60 = 0) (he : e % 60 = 0) (h1 : b ≤ e) (h2 : e - b < 86400)
    (zb : bm < 0 → b % 3600 = 0) (ze : em < 0 → e % 3600 = 0) :
    tripleOK (specTimex b e bm em) (some (fmtOff b)) (some (fmtOff e)) = true := by
  obtain ⟨db, hb1, hb2, hb3⟩ := off_decompose b
  obtain ⟨de, he1, he2, he3⟩ := off_decompose e
  have sb : offSecond b = 0 := by unfold offSecond; omega
  have se : offSecond e = 0 := by unfold offSecond; omega
  have pb : pointTimex b bm = pt (offHour b) (offMinute b) (decide (bm ≥ 0)) := by
    unfold pointTimex pt
    rw [fmt2_lt _ (by omega), fmt2_lt _ (by omega)]
    by_cases h : bm ≥ 0 <;> simp [h]
  have pe : pointTimex e em = pt (offHour e) (offMinute e) (decide (em ≥ 0)) := by
    unfold pointTimex pt
    rw [fmt2_lt _ (by omega), fmt2_lt _ (by omega)]
    by_cases h : em ≥ 0 <;> simp [h]
  have zb' : decide (bm ≥ 0) = false → offMinute b = 0 := by
    intro h; simp at h; have := zb h; unfold offMinute; omega
  have ze' : decide (em ≥ 0) = false → offMinute e = 0 := by
    intro h; simp at h; have := ze h; unfold offMinute; omega
  have fb : fmtOff b = formatTime (offHour b) (offMinute b) 0 := by unfold fmtOff; rw [sb]
  have fe : fmtOff e = formatTime (offHour e) (offMinute e) 0 := by unfold fmtOff; rw [se]
  have hd : ((((offHour e) * 3600 + (offMinute e) * 60 : Nat) : Int) - (((offHour b) * 3600 + (offMinute b) * 60 : Nat) : Int)) % 86400 = e - b := by
    rw [sb] at db; rw [se] at de; omega
  -- the duration text
  have dH : offHour (e - b) * 3600 + offMinute (e - b) * 60 = (e - b).toNat := by unfold offHour offMinute; omega
  have key : ∀ (rest : Str) (n : Nat), rest ≠ [] → ptSeconds (rest.length + 4) rest = some (n, 1) → (∀ c ∈ rest, c ≠ 44) →
      (n : Int) = e - b → specificSpan (e - b) = 80 :: 84 :: rest →
      tripleOK (specTimex b e bm em) (some (fmtOff b)) (some (fmtOff e)) = true := by
    intro rest n hr hp hno hn hs
    have := clockTriple_ok (offHour b) (offMinute b) (offHour e) (offMinute e) (decide (bm ≥ 0)) (decide (em ≥ 0))
      hb1 hb2 he1 he2 zb' ze' rest n hr hp hno (by rw [hd, hn])
    rw [fb, fe]
    simpa [specTimex, pb, pe, hs] using this
  have nc : ∀ (a : Nat) (u : Nat), u ≠ 44 → ∀ c ∈ RTV.WF.natStr a ++ [u], c ≠ 44 := by
    intro a u hu c hc
    simp only [List.mem_append, List.mem_singleton] at hc
    rcases hc with hc | hc
    · exact natStr_no_comma _ c hc
    · omega
  by_cases c1 : offMinute (e - b) ≠ 0 ∧ offHour (e - b) ≠ 0
  · refine key (RTV.WF.natStr (offHour (e - b)) ++ [72] ++ RTV.WF.natStr (offMinute (e - b)) ++ [77]) _ (by simp) (pt_HM _ _) ?_ ?_ ?_
    · intro c hc
      simp only [List.append_assoc, List.mem_append, List.mem_singleton] at hc
      rcases hc with hc | hc | hc | hc
      · exact natStr_no_comma _ c hc
      · omega
      · exact natStr_no_comma _ c hc
      · omega
    · omega
    · simp [specificSpan, c1, natStr]
  · by_cases c2 : offMinute (e - b) ≠ 0 ∧ offHour (e - b) = 0
    · refine key (RTV.WF.natStr (offMinute (e - b)) ++ [77]) _ (by simp) (pt_M _) (nc _ 77 (by omega)) ?_ ?_
      · omega
      · simp [specificSpan, c2, natStr]
    · refine key (RTV.WF.natStr (offHour (e - b)) ++ [72]) _ (by simp) (pt_H _) (nc _ 72 (by omega)) ?_ ?_
      · have : offMinute (e - b) = 0 := by omega
        omega
      · simp only [specificSpan, natStr]
        rw [if_neg c1, if_neg c2]; simp

set_option linter.unusedSimpArgs false in
/-- every branch of the am / pm logic moves each end by a whole number of half days and leaves them less than a day apart -/
theorem specificShift_spec (v : Variant) (bh eh : Nat) (hbh : bh ≤ 23) (heh : eh ≤ 23) (la lp ra rp : Bool)
    (hl : ¬(la = true ∧ lp = true)) (hr : ¬(ra = true ∧ rp = true)) (b0 e0 : Int)
    (hb0 : (bh : Int) * 3600 ≤ b0 ∧ b0 ≤ (bh : Int) * 3600 + 3540) (he0 : (eh : Int) * 3600 ≤ e0 ∧ e0 ≤ (eh : Int) * 3600 + 3540) :
    ((specificShift v bh eh la lp ra rp b0 e0).1 - b0) % 43200 = 0 ∧
    ((specificShift v bh eh la lp ra rp b0 e0).2.1 - e0) % 43200 = 0 ∧
    -86400 < (specificShift v bh eh la lp ra rp b0 e0).2.1 - (specificShift v bh eh la lp ra rp b0 e0).1 ∧
    (specificShift v bh eh la lp ra rp b0 e0).2.1 - (specificShift v bh eh la lp ra rp b0 e0).1 < 86400 := by
  generalize hge : v.rightAmGe = ge
  cases ge <;> cases la <;> cases lp <;> cases ra <;> cases rp <;> simp at hl hr <;>
    simp only [specificShift, hge, H12, H24, Bool.or_false, Bool.or_true, Bool.false_or, Bool.true_or, Bool.and_self,
      Bool.and_false, Bool.false_and, Bool.and_true, Bool.true_and, if_true, if_false, Bool.false_eq_true, ite_true, ite_false,
      Bool.or_self] <;>
    (repeat' split) <;> (refine ⟨?_, ?_, ?_, ?_⟩ <;> (try dsimp only) <;> omega)


end RTV.TimePeriod
