import RTV.Lemmas.Choice
/-! Kernel evaluation of the affirmative same-polarity pairs with a skin-tone modifier. -/
namespace RTV.Choice
set_option maxRecDepth 100000
theorem same_skin_true_fast : sameSkinOn fastEnv true (alts true) = true := by decide +kernel
end RTV.Choice
