import RTV.Lemmas.NumCjkFam
/-! kernel evaluation: 成 / 折 percentages, every digit combination -/
namespace RTV.NumCjk
theorem zh_cheng2_fam : allBelow 81 zhCheng2 = true := by decide +kernel
theorem zh_zhe2_fam : allBelow 81 zhZhe2 = true := by decide +kernel
theorem zh_cheng1_fam : allBelow 9 zhCheng1 = true := by decide +kernel
theorem zh_zhe1_fam : allBelow 9 zhZhe1 = true := by decide +kernel
theorem zh_cheng_half_fam : allBelow 9 zhChengHalf = true := by decide +kernel
end RTV.NumCjk
