import RTV.Lemmas.SpecRun
/-! Kernel evaluation of the spec cases (C19 through the model), family `ip_zh`. -/
namespace RTV.Seq
set_option maxRecDepth 100000
theorem spec_ip_zh_fast : ipOK fastSeqEnv true RTV.Gen.specCases_ipZh = true := by decide +kernel
end RTV.Seq
