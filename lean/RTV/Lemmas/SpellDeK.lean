import RTV.Lemmas.ThousandEu
import RTV.Lemmas.SpellDe
/-! German: the side facts of `thousand_lift` for every multiplier / remainder 1..999 (kernel evaluation in chunks of
100; only the few forms that differ from the stand-alone numeral are evaluated through `getIntValue`), and the lift. -/
namespace RTV.Num

def deKChunk (j : Nat) : Bool :=
  (List.range 100).all fun i =>
    100 * j + i == 0 || (multFact deBig de.lang (100 * j + i) && restFact deBig de.lang (100 * j + i))

theorem de_k0 : deKChunk 0 = true := by decide +kernel
theorem de_k1 : deKChunk 1 = true := by decide +kernel
theorem de_k2 : deKChunk 2 = true := by decide +kernel
theorem de_k3 : deKChunk 3 = true := by decide +kernel
theorem de_k4 : deKChunk 4 = true := by decide +kernel
theorem de_k5 : deKChunk 5 = true := by decide +kernel
theorem de_k6 : deKChunk 6 = true := by decide +kernel
theorem de_k7 : deKChunk 7 = true := by decide +kernel
theorem de_k8 : deKChunk 8 = true := by decide +kernel
theorem de_k9 : deKChunk 9 = true := by decide +kernel

theorem de_kchunks (j : Nat) (hj : j < 10) : deKChunk j = true := by
  match j, hj with
  | 0, _ => exact de_k0
  | 1, _ => exact de_k1
  | 2, _ => exact de_k2
  | 3, _ => exact de_k3
  | 4, _ => exact de_k4
  | 5, _ => exact de_k5
  | 6, _ => exact de_k6
  | 7, _ => exact de_k7
  | 8, _ => exact de_k8
  | 9, _ => exact de_k9
  | j + 10, h => omega

theorem de_kfacts (n : Nat) (h1 : 1 ≤ n) (h2 : n < 1000) :
    multFact deBig de.lang n = true ∧ restFact deBig de.lang n = true := by
  have hc := de_kchunks (n / 100) (by omega)
  simp only [deKChunk, List.all_eq_true, List.mem_range] at hc
  have := hc (n % 100) (Nat.mod_lt _ (by decide))
  have e : 100 * (n / 100) + n % 100 = n := Nat.div_add_mod n 100
  rw [e] at this
  have hz : (n == 0) = false := by simp; omega
  simpa [hz] using this

theorem de_thousand_word : lookup de.lang.round deBig.thousand = some 1000 := by decide +kernel

theorem de_lift (n : Nat) (h1 : 1000 ≤ n) (h2 : n < 1000000) :
    getIntValue true asciiDigits de.lang (spellEuBig deBig n).2 = .ok n :=
  thousand_lift deBig de.lang de_thousand_word (fun n h => de_all n h rfl)
    (fun k a b => (de_kfacts k a b).1) (fun u a b => (de_kfacts u a b).2) n h1 h2

end RTV.Num
