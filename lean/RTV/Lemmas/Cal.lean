import RTV.Model.Cal
/-!
Foundation lemmas for L5 `Cal` (used by C06–C11, C14/C15). Core tactics only (omega / decide), no Mathlib.

Main results (all hypothesis-free apart from the stated range):
* `dby_succ`        : `daysBeforeYear (y+1) = daysBeforeYear y + daysInYear y`
* `ord_ofOrd`       : `1 ≤ n → n ≤ maxOrd → (Date.ofOrd n).ord = n ∧ (Date.ofOrd n).valid`   (CPython `_ord2ymd` is a right inverse)
* `ofOrd_ord`       : `x.valid → Date.ofOrd x.ord = x`
* `ord_bounds`, `ord_range`, `ord_lt_of_lexLt`, `ord_lt_iff_lexLt`, `ord_inj` (strict monotonicity of `_ymd2ord`)
* `isoWeek1Monday_spec/_succ/_mono`, `isoCalendar_spec` (characterisation of `isocalendar()`), `isoYear_unique`,
  `isoCalendar_weekday`, `isoCalendar_same_week`, `isoYear_of_thursday`, `mondayOrd` (+ `mondayOrd_spec`)
* `weekdayOrd_lt`, `weekdayOrd_add7`, `isoWeekdayOrd_range`, `isoWeekdayOrd_add7`, `weekdayOrd_add_mul7`
The round trip is proved for the transcription of CPython's `_ord2ymd` itself (no simplified `ofOrd'`): year part by
`omega` after generalising the 400/100/4/1-year quotients, in-year part by `decide +kernel` over 365 × 2 cases.
-/
namespace RTV.Cal
set_option linter.unusedVariables false
set_option linter.unusedSimpArgs false

theorem isLeap_iff (y : Nat) : isLeap y = true ↔ (y % 4 = 0 ∧ (y % 100 ≠ 0 ∨ y % 400 = 0)) := by
  simp [isLeap]

theorem dby_eq (y : Nat) : daysBeforeYear y = (y-1)*365 + (y-1)/4 - (y-1)/100 + (y-1)/400 := rfl

theorem diy_eq (y : Nat) : daysInYear y = if (y % 4 = 0 ∧ (y % 100 ≠ 0 ∨ y % 400 = 0)) then 366 else 365 := by
  simp [daysInYear, isLeap]

theorem div_succ (z k : Nat) (hk : 0 < k) : (z + 1) / k = z / k + (if (z + 1) % k = 0 then 1 else 0) := by
  rw [Nat.succ_div]
  simp [Nat.dvd_iff_mod_eq_zero]

theorem dby_succ (y : Nat) (h : 1 ≤ y) : daysBeforeYear (y + 1) = daysBeforeYear y + daysInYear y := by
  rw [dby_eq, dby_eq, diy_eq]
  obtain ⟨z, rfl⟩ : ∃ z, y = z + 1 := ⟨y - 1, by omega⟩
  simp only [Nat.add_sub_cancel]
  rw [div_succ z 4 (by omega), div_succ z 100 (by omega), div_succ z 400 (by omega)]
  have h1 : z / 100 ≤ z / 4 := by omega
  have h2 : (z+1) % 100 = 0 → (z+1) % 4 = 0 := by omega
  have h3 : (z+1) % 400 = 0 → (z+1) % 100 = 0 := by omega
  generalize z / 4 = a at *
  generalize z / 100 = b at *
  generalize z / 400 = c at *
  generalize (z+1) % 4 = r4 at *
  generalize (z+1) % 100 = r100 at *
  generalize (z+1) % 400 = r400 at *
  split <;> split <;> split <;> split <;> omega

theorem year_normal (n400 n100 n4 n1 : Nat) (h100 : n100 ≤ 3) (h4 : n4 ≤ 24) (h1 : n1 ≤ 3) :
    daysBeforeYear (n400 * 400 + 1 + n100 * 100 + n4 * 4 + n1) =
      n400 * 146097 + n100 * 36524 + n4 * 1461 + n1 * 365 := by
  rw [dby_eq]
  have e : n400 * 400 + 1 + n100 * 100 + n4 * 4 + n1 - 1 = n400 * 400 + n100 * 100 + n4 * 4 + n1 := by omega
  rw [e]
  have a : (n400 * 400 + n100 * 100 + n4 * 4 + n1) / 4 = 100 * n400 + 25 * n100 + n4 := by omega
  have b : (n400 * 400 + n100 * 100 + n4 * 4 + n1) / 100 = 4 * n400 + n100 := by omega
  have c : (n400 * 400 + n100 * 100 + n4 * 4 + n1) / 400 = n400 := by omega
  rw [a, b, c]; omega

theorem leap_normal (n400 n100 n4 n1 : Nat) (h100 : n100 ≤ 3) (h4 : n4 ≤ 24) (h1 : n1 ≤ 3) :
    isLeap (n400 * 400 + 1 + n100 * 100 + n4 * 4 + n1) = (n1 == 3 && (n4 != 24 || n100 == 3)) := by
  rw [Bool.eq_iff_iff]
  simp [isLeap]
  omega

def inYear (leapyear : Bool) (n : Nat) : Nat × Nat :=
  let month := (n + 50) / 32
  let preceding := daysBeforeMonthTbl month + (if month > 2 && leapyear then 1 else 0)
  if preceding > n then
    let month := month - 1
    let preceding := preceding - (if month == 2 && leapyear then 29 else daysInMonth 1 month)
    (month, n - preceding + 1)
  else (month, n - preceding + 1)

def yearOf (n0 : Nat) : Nat :=
  n0 / 146097 * 400 + 1 + n0 % 146097 / 36524 * 100 + n0 % 146097 % 36524 / 1461 * 4 +
    n0 % 146097 % 36524 % 1461 / 365

theorem ofOrd_eq (n : Nat) :
    Date.ofOrd n =
      (let n0 := n - 1
       let n100 := n0 % 146097 / 36524
       let n4 := n0 % 146097 % 36524 / 1461
       let n1 := n0 % 146097 % 36524 % 1461 / 365
       let r := n0 % 146097 % 36524 % 1461 % 365
       if n1 == 4 || n100 == 4 then ⟨yearOf n0 - 1, 12, 31⟩
       else ⟨yearOf n0, (inYear (n1 == 3 && (n4 != 24 || n100 == 3)) r).1,
                        (inYear (n1 == 3 && (n4 != 24 || n100 == 3)) r).2⟩) := by
  simp only [Date.ofOrd, inYear, yearOf]
  split
  · rfl
  · split <;> split <;> rfl

def dimL (leap : Bool) (m : Nat) : Nat := if m == 2 && leap then 29 else daysInMonth 1 m

theorem inYear_spec : ∀ leap : Bool, ∀ n, n < 365 →
    1 ≤ (inYear leap n).1 ∧ (inYear leap n).1 ≤ 12 ∧ 1 ≤ (inYear leap n).2 ∧
    (inYear leap n).2 ≤ dimL leap (inYear leap n).1 ∧
    daysBeforeMonthTbl (inYear leap n).1 + (if (inYear leap n).1 > 2 && leap then 1 else 0) + (inYear leap n).2 = n + 1 := by
  decide +kernel

theorem daysInMonth_dimL (y m : Nat) : daysInMonth y m = dimL (isLeap y) m := by
  by_cases hm : m = 2
  · subst hm; cases h : isLeap y <;> simp [dimL, daysInMonth, h, show isLeap 1 = false by decide]
  · simp only [dimL, beq_iff_eq, hm, Bool.false_and, Bool.false_eq_true, if_false]
    unfold daysInMonth
    split <;> simp_all

theorem ord_eq (x : Date) : x.ord = daysBeforeYear x.y + (daysBeforeMonthTbl x.m + (if x.m > 2 && isLeap x.y then 1 else 0)) + x.d := rfl

theorem valid_iff (x : Date) : x.valid = true ↔ 1 ≤ x.y ∧ x.y ≤ 9999 ∧ 1 ≤ x.m ∧ x.m ≤ 12 ∧ 1 ≤ x.d ∧ x.d ≤ daysInMonth x.y x.m := by
  simp [Date.valid, and_assoc]

theorem dby_10000 : daysBeforeYear 10000 = maxOrd := by decide

theorem dby_mono_step (y k : Nat) (h : 1 ≤ y) : daysBeforeYear y + 365 * k ≤ daysBeforeYear (y + k) := by
  induction k with
  | zero => simp
  | succ k ih =>
    have := dby_succ (y + k) (by omega)
    have d := diy_eq (y + k)
    rw [← Nat.add_assoc, this]
    split at d <;> omega

theorem dby_mono {a b : Nat} (ha : 1 ≤ a) (h : a ≤ b) : daysBeforeYear a ≤ daysBeforeYear b := by
  obtain ⟨k, rfl⟩ : ∃ k, b = a + k := ⟨b - a, by omega⟩
  have := dby_mono_step a k ha; omega

theorem dec31_leap (Y n : Nat) (h1 : 1 ≤ Y) (h2 : Y ≤ 9999) (hl : isLeap Y = true)
    (hd : daysBeforeYear (Y + 1) = n) : (⟨Y, 12, 31⟩ : Date).ord = n ∧ (⟨Y, 12, 31⟩ : Date).valid = true := by
  rw [ord_eq, valid_iff]
  have := dby_succ Y h1
  simp [daysInYear, hl, daysInMonth, daysBeforeMonthTbl] at this ⊢
  omega

set_option maxRecDepth 4000 in
/-- `_ord2ymd` followed by `_ymd2ord` is the identity on 1..3652059 and yields a valid date. -/
theorem ord_ofOrd (n : Nat) (h1 : 1 ≤ n) (h2 : n ≤ maxOrd) : (Date.ofOrd n).ord = n ∧ (Date.ofOrd n).valid = true := by
  obtain ⟨n0, rfl⟩ : ∃ n0, n = n0 + 1 := ⟨n - 1, by omega⟩
  have hmax : n0 < 3652059 := by unfold maxOrd at h2; omega
  rw [ofOrd_eq]
  simp only [Nat.add_sub_cancel, yearOf]
  have e1 := Nat.div_add_mod n0 146097
  have l1 := Nat.mod_lt n0 (show 146097 > 0 by omega)
  generalize n0 / 146097 = n400 at *
  generalize n0 % 146097 = r1 at *
  have e2 := Nat.div_add_mod r1 36524
  have l2 := Nat.mod_lt r1 (show 36524 > 0 by omega)
  generalize r1 / 36524 = n100 at *
  generalize r1 % 36524 = r2 at *
  have e3 := Nat.div_add_mod r2 1461
  have l3 := Nat.mod_lt r2 (show 1461 > 0 by omega)
  generalize r2 / 1461 = n4 at *
  generalize r2 % 1461 = r3 at *
  have e4 := Nat.div_add_mod r3 365
  have l4 := Nat.mod_lt r3 (show 365 > 0 by omega)
  generalize r3 / 365 = n1 at *
  generalize r3 % 365 = r4 at *
  have b100 : n100 ≤ 4 := by omega
  have b4 : n4 ≤ 24 := by omega
  have b1 : n1 ≤ 4 := by omega
  have b400 : n400 ≤ 24 := by omega
  split
  next hsp =>
    simp only [Bool.or_eq_true, beq_iff_eq] at hsp
    by_cases c100 : n100 = 4
    · have z2 : r2 = 0 := by omega
      have z4 : n4 = 0 := by omega
      have z1 : n1 = 0 := by omega
      subst c100 z4 z1
      have yn := year_normal (n400 + 1) 0 0 0 (by omega) (by omega) (by omega)
      have e : n400 * 400 + 1 + 4 * 100 + 0 * 4 + 0 - 1 = (n400 + 1) * 400 := by omega
      rw [e]
      apply dec31_leap _ _ (by omega) (by omega)
      · simp [isLeap]; omega
      · have e' : (n400 + 1) * 400 + 1 + 0 * 100 + 0 * 4 + 0 = (n400 + 1) * 400 + 1 := by omega
        rw [e'] at yn; rw [yn]; omega
    · have c1 : n1 = 4 := by omega
      subst c1
      have yn := year_normal n400 n100 (n4 + 1) 0 (by omega) (by omega) (by omega)
      have e : n400 * 400 + 1 + n100 * 100 + n4 * 4 + 4 - 1 = n400 * 400 + n100 * 100 + (n4 + 1) * 4 := by omega
      rw [e]
      apply dec31_leap _ _ (by omega) (by omega)
      · simp [isLeap]; omega
      · have e' : n400 * 400 + 1 + n100 * 100 + (n4 + 1) * 4 + 0 = n400 * 400 + n100 * 100 + (n4 + 1) * 4 + 1 := by omega
        rw [e'] at yn; rw [yn]; omega
  next hsp =>
    simp only [Bool.or_eq_true, beq_iff_eq, not_or] at hsp
    have yn := year_normal n400 n100 n4 n1 (by omega) b4 (by omega)
    have ln := leap_normal n400 n100 n4 n1 (by omega) b4 (by omega)
    rw [← ln]
    generalize hy : n400 * 400 + 1 + n100 * 100 + n4 * 4 + n1 = year at yn ln ⊢
    have sp := inYear_spec (isLeap year) r4 l4
    generalize inYear (isLeap year) r4 = md at sp ⊢
    obtain ⟨m, d⟩ := md
    simp only at sp ⊢
    rw [ord_eq, valid_iff]
    simp only [daysInMonth_dimL]
    refine ⟨by omega, by omega, by omega, sp.1, sp.2.1, sp.2.2.1, sp.2.2.2.1⟩

def dbmL (leap : Bool) (m : Nat) : Nat := daysBeforeMonthTbl m + (if m > 2 && leap then 1 else 0)

theorem dbmL_mono : ∀ leap : Bool, ∀ m, m ≤ 12 → ∀ m', m' ≤ 12 → 1 ≤ m → m < m' →
    dbmL leap m + dimL leap m ≤ dbmL leap m' := by decide +kernel

theorem dbmL_last : ∀ leap : Bool, ∀ m, m ≤ 12 → 1 ≤ m →
    dbmL leap m + dimL leap m ≤ 365 + (if leap then 1 else 0) := by decide +kernel

theorem ord_eq' (x : Date) : x.ord = daysBeforeYear x.y + dbmL (isLeap x.y) x.m + x.d := rfl

/-- a valid date lies inside its year. -/
theorem ord_bounds (x : Date) (hv : x.valid = true) :
    daysBeforeYear x.y + 1 ≤ x.ord ∧ x.ord ≤ daysBeforeYear (x.y + 1) := by
  rw [valid_iff] at hv
  have hl := dbmL_last (isLeap x.y) x.m (by omega) (by omega)
  rw [dby_succ x.y (by omega), ord_eq', daysInYear]
  rw [daysInMonth_dimL] at hv
  cases h : isLeap x.y <;> simp [h] at hl hv ⊢ <;> omega

theorem ord_range (x : Date) (hv : x.valid = true) : 1 ≤ x.ord ∧ x.ord ≤ maxOrd := by
  have b := ord_bounds x hv
  rw [valid_iff] at hv
  have := dby_mono (show 1 ≤ x.y + 1 by omega) (show x.y + 1 ≤ 10000 by omega)
  rw [dby_10000] at this
  omega

/-- lexicographic order on (y, m, d) -/
def Date.lexLt (a b : Date) : Prop := a.y < b.y ∨ (a.y = b.y ∧ (a.m < b.m ∨ (a.m = b.m ∧ a.d < b.d)))

instance (a b : Date) : Decidable (a.lexLt b) := by unfold Date.lexLt; infer_instance

/-- `_ymd2ord` is strictly monotone for the lexicographic order on valid dates. -/
theorem ord_lt_of_lexLt (a b : Date) (ha : a.valid = true) (hb : b.valid = true) (h : a.lexLt b) : a.ord < b.ord := by
  rcases h with h | ⟨hy, h⟩
  · have ba := ord_bounds a ha
    have bb := ord_bounds b hb
    rw [valid_iff] at ha
    have := dby_mono (show 1 ≤ a.y + 1 by omega) (show a.y + 1 ≤ b.y by omega)
    omega
  · rw [valid_iff] at ha hb
    rw [ord_eq', ord_eq', hy]
    rcases h with h | ⟨hm, hd⟩
    · have := dbmL_mono (isLeap b.y) a.m (by omega) b.m (by omega) (by omega) h
      rw [daysInMonth_dimL, hy] at ha
      omega
    · rw [hm]; omega

theorem lex_trichotomy (a b : Date) : a.lexLt b ∨ a = b ∨ b.lexLt a := by
  unfold Date.lexLt
  rcases a with ⟨ay, am, ad⟩; rcases b with ⟨b_y, bm, bd⟩
  simp only [Date.mk.injEq]
  omega

theorem ord_lt_iff_lexLt (a b : Date) (ha : a.valid = true) (hb : b.valid = true) : a.ord < b.ord ↔ a.lexLt b := by
  constructor
  · intro h
    rcases lex_trichotomy a b with h' | h' | h'
    · exact h'
    · subst h'; omega
    · have := ord_lt_of_lexLt b a hb ha h'; omega
  · exact ord_lt_of_lexLt a b ha hb

theorem ord_inj (a b : Date) (ha : a.valid = true) (hb : b.valid = true) (h : a.ord = b.ord) : a = b := by
  rcases lex_trichotomy a b with h' | h' | h'
  · have := ord_lt_of_lexLt a b ha hb h'; omega
  · exact h'
  · have := ord_lt_of_lexLt b a hb ha h'; omega

/-- `_ymd2ord` followed by `_ord2ymd` is the identity on valid dates. -/
theorem ofOrd_ord (x : Date) (hv : x.valid = true) : Date.ofOrd x.ord = x := by
  have r := ord_range x hv
  have := ord_ofOrd x.ord r.1 r.2
  exact ord_inj _ _ this.2 hv this.1

theorem weekdayOrd_lt (n : Nat) : weekdayOrd n < 7 := by unfold weekdayOrd; omega
theorem weekdayOrd_add7 (n : Nat) : weekdayOrd (n + 7) = weekdayOrd n := by unfold weekdayOrd; omega
theorem isoWeekdayOrd_eq (n : Nat) : isoWeekdayOrd n = weekdayOrd n + 1 := rfl
theorem isoWeekdayOrd_range (n : Nat) : 1 ≤ isoWeekdayOrd n ∧ isoWeekdayOrd n ≤ 7 := by unfold isoWeekdayOrd; omega
theorem isoWeekdayOrd_add7 (n : Nat) : isoWeekdayOrd (n + 7) = isoWeekdayOrd n := by unfold isoWeekdayOrd; omega
theorem weekdayOrd_add_mul7 (n k : Nat) : weekdayOrd (n + 7 * k) = weekdayOrd n := by unfold weekdayOrd; omega

/-! ### ISO calendar (`isocalendar`, `_isoweek1monday`) -/

/-- ordinal of the Monday of the ISO week that contains ordinal `n` -/
def mondayOrd (n : Nat) : Nat := n - weekdayOrd n

theorem mondayOrd_spec (n : Nat) (h : 1 ≤ n) :
    1 ≤ mondayOrd n ∧ mondayOrd n ≤ n ∧ n < mondayOrd n + 7 ∧ weekdayOrd (mondayOrd n) = 0 ∧
    n = mondayOrd n + weekdayOrd n := by
  unfold mondayOrd weekdayOrd; omega

theorem jan1_ord (y : Nat) : (⟨y, 1, 1⟩ : Date).ord = daysBeforeYear y + 1 := by
  simp [Date.ord, daysBeforeMonth, daysBeforeMonthTbl]

theorem dby_ge (y : Nat) (h : 2 ≤ y) : 365 ≤ daysBeforeYear y := by
  have := dby_mono_step 1 (y - 1) (by omega)
  have e : 1 + (y - 1) = y := by omega
  rw [e] at this; omega

theorem dby_one : daysBeforeYear 1 = 0 := by decide

/-- `_isoweek1monday(y)` is a Monday within 3 days of January 1st. -/
theorem isoWeek1Monday_spec (y : Nat) (hy : 1 ≤ y) :
    weekdayOrd (isoWeek1Monday y) = 0 ∧ daysBeforeYear y + 1 ≤ isoWeek1Monday y + 3 ∧
    isoWeek1Monday y ≤ daysBeforeYear y + 1 + 3 ∧ 1 ≤ isoWeek1Monday y := by
  unfold isoWeek1Monday
  simp only [jan1_ord]
  by_cases h1 : y = 1
  · subst h1; simp [dby_one, weekdayOrd]
  · have := dby_ge y (by omega)
    unfold weekdayOrd
    generalize daysBeforeYear y = b at *
    split <;> omega

theorem isoWeek1Monday_succ (y : Nat) (hy : 1 ≤ y) :
    isoWeek1Monday (y + 1) = isoWeek1Monday y + 364 ∨ isoWeek1Monday (y + 1) = isoWeek1Monday y + 371 := by
  have a := isoWeek1Monday_spec y hy
  have b := isoWeek1Monday_spec (y + 1) (by omega)
  have s := dby_succ y hy
  have d := diy_eq y
  unfold weekdayOrd at a b
  generalize isoWeek1Monday y = p at *
  generalize isoWeek1Monday (y + 1) = q at *
  generalize daysBeforeYear y = u at *
  generalize daysBeforeYear (y + 1) = v at *
  generalize daysInYear y = w at *
  split at d <;> omega

theorem isoWeek1Monday_mono {a b : Nat} (ha : 1 ≤ a) (h : a < b) : isoWeek1Monday a + 364 ≤ isoWeek1Monday b := by
  obtain ⟨k, rfl⟩ : ∃ k, b = a + 1 + k := ⟨b - a - 1, by omega⟩
  induction k with
  | zero => have := isoWeek1Monday_succ a ha; simp; omega
  | succ k ih =>
    have := isoWeek1Monday_succ (a + 1 + k) (by omega)
    have := ih (by omega)
    rw [← Nat.add_assoc]; omega

/-- Characterisation of `date.isocalendar()`: the ISO year is the one whose week-1 Monday interval contains the
day, week and weekday count from that Monday. -/
theorem isoCalendar_spec (x : Date) (hv : x.valid = true) :
    let r := isoCalendar x
    x.ord = isoWeek1Monday r.1 + 7 * (r.2.1 - 1) + (r.2.2 - 1) ∧ 1 ≤ r.2.1 ∧ 1 ≤ r.2.2 ∧ r.2.2 ≤ 7 ∧
    x.ord < isoWeek1Monday (r.1 + 1) ∧ 1 ≤ r.1 ∧ (r.1 = x.y ∨ r.1 + 1 = x.y ∨ r.1 = x.y + 1) := by
  have bnd := ord_bounds x hv
  rw [valid_iff] at hv
  have hy : 1 ≤ x.y := hv.1
  have w := isoWeek1Monday_spec x.y hy
  have wn := isoWeek1Monday_spec (x.y + 1) (by omega)
  have ws := isoWeek1Monday_succ x.y hy
  have wss := isoWeek1Monday_succ (x.y + 1) (by omega)
  have sy := dby_succ x.y hy
  have dy : daysInYear x.y = 365 ∨ daysInYear x.y = 366 := by
    have := diy_eq x.y; split at this <;> omega
  unfold isoCalendar
  simp only [Int.fdiv_eq_ediv_of_nonneg _ (show (0:Int) ≤ 7 by omega), Int.fmod_eq_emod_of_nonneg _ (show (0:Int) ≤ 7 by omega)]
  unfold weekdayOrd at w wn
  by_cases hneg : ((x.ord : Int) - (isoWeek1Monday x.y : Int)) / 7 < 0
  · simp only [hneg, if_true]
    have y2 : 2 ≤ x.y := by
      by_cases h1 : x.y = 1
      · exfalso
        have : isoWeek1Monday 1 = 1 := by decide
        rw [h1] at hneg bnd; rw [this] at hneg; rw [dby_one] at bnd; omega
      · omega
    have wp := isoWeek1Monday_spec (x.y - 1) (by omega)
    have wps := isoWeek1Monday_succ (x.y - 1) (by omega)
    have e : x.y - 1 + 1 = x.y := by omega
    rw [e] at wps ⊢
    unfold weekdayOrd at wp
    generalize isoWeek1Monday x.y = p at *
    generalize isoWeek1Monday (x.y - 1) = q at *
    generalize x.ord = t at *
    generalize daysBeforeYear x.y = u at *
    refine ⟨?_, ?_, ?_, ?_, ?_, ?_, ?_⟩ <;> first | omega | simp
  · simp only [hneg, if_false]
    by_cases h52 : ((x.ord : Int) - (isoWeek1Monday x.y : Int)) / 7 ≥ 52 ∧ x.ord ≥ isoWeek1Monday (x.y + 1)
    · simp only [h52, and_self, if_true]
      generalize isoWeek1Monday x.y = p at *
      generalize isoWeek1Monday (x.y + 1) = q at *
      generalize isoWeek1Monday (x.y + 1 + 1) = q2 at *
      generalize x.ord = t at *
      generalize daysBeforeYear x.y = u at *
      generalize daysBeforeYear (x.y + 1) = u' at *
      refine ⟨?_, ?_, ?_, ?_, ?_, ?_, ?_⟩ <;> first | omega | simp
    · simp only [h52, if_false]
      generalize isoWeek1Monday x.y = p at *
      generalize isoWeek1Monday (x.y + 1) = q at *
      generalize x.ord = t at *
      generalize daysBeforeYear x.y = u at *
      generalize daysBeforeYear (x.y + 1) = u' at *
      refine ⟨?_, ?_, ?_, ?_, ?_, ?_, ?_⟩ <;> first | omega | simp

theorem isoWeek1Monday_le {a b : Nat} (ha : 1 ≤ a) (h : a ≤ b) : isoWeek1Monday a ≤ isoWeek1Monday b := by
  by_cases e : a = b
  · subst e; omega
  · have := isoWeek1Monday_mono ha (show a < b by omega); omega

/-- The ISO year of a day is determined by the week-1-Monday interval it falls in. -/
theorem isoYear_unique (Y Y' t : Nat) (h : 1 ≤ Y) (h' : 1 ≤ Y')
    (a : isoWeek1Monday Y ≤ t) (b : t < isoWeek1Monday (Y + 1))
    (a' : isoWeek1Monday Y' ≤ t) (b' : t < isoWeek1Monday (Y' + 1)) : Y = Y' := by
  by_cases c1 : Y < Y'
  · have := isoWeek1Monday_le (show 1 ≤ Y + 1 by omega) (show Y + 1 ≤ Y' by omega); omega
  · by_cases c2 : Y' < Y
    · have := isoWeek1Monday_le (show 1 ≤ Y' + 1 by omega) (show Y' + 1 ≤ Y by omega); omega
    · omega

/-- `isocalendar()[2]` is `isoweekday()`. -/
theorem isoCalendar_weekday (x : Date) (hv : x.valid = true) : (isoCalendar x).2.2 = isoWeekdayOrd x.ord := by
  have s := isoCalendar_spec x hv
  simp only at s
  have w := isoWeek1Monday_spec (isoCalendar x).1 s.2.2.2.2.2.1
  unfold weekdayOrd at w
  unfold isoWeekdayOrd
  generalize isoWeek1Monday (isoCalendar x).1 = p at *
  omega

/-- Days of the same Monday-to-Sunday block share ISO year and ISO week number. -/
theorem isoCalendar_same_week (a b : Date) (ha : a.valid = true) (hb : b.valid = true)
    (h : mondayOrd a.ord = mondayOrd b.ord) :
    (isoCalendar a).1 = (isoCalendar b).1 ∧ (isoCalendar a).2.1 = (isoCalendar b).2.1 := by
  have sa := isoCalendar_spec a ha
  have sb := isoCalendar_spec b hb
  simp only at sa sb
  have ra := ord_range a ha
  have rb := ord_range b hb
  have wa := isoWeek1Monday_spec (isoCalendar a).1 sa.2.2.2.2.2.1
  have wa' := isoWeek1Monday_spec ((isoCalendar a).1 + 1) (by omega)
  have wb := isoWeek1Monday_spec (isoCalendar b).1 sb.2.2.2.2.2.1
  have wb' := isoWeek1Monday_spec ((isoCalendar b).1 + 1) (by omega)
  unfold mondayOrd at h
  unfold weekdayOrd at h wa wa' wb wb'
  have hy : (isoCalendar a).1 = (isoCalendar b).1 := by
    apply isoYear_unique _ _ a.ord sa.2.2.2.2.2.1 sb.2.2.2.2.2.1
    · omega
    · omega
    · generalize isoWeek1Monday (isoCalendar b).1 = p at *
      generalize isoWeek1Monday (isoCalendar a).1 = q at *
      omega
    · generalize isoWeek1Monday ((isoCalendar b).1 + 1) = p at *
      generalize isoWeek1Monday ((isoCalendar a).1 + 1) = q at *
      omega
  refine ⟨hy, ?_⟩
  rw [hy] at sa wa
  generalize isoWeek1Monday (isoCalendar b).1 = p at *
  omega

/-- The ISO year of a Thursday is its calendar year (that is how `_parse_one_word_period` reads it off). -/
theorem isoYear_of_thursday (x : Date) (hv : x.valid = true) (h : weekdayOrd x.ord = 3) : (isoCalendar x).1 = x.y := by
  have s := isoCalendar_spec x hv
  simp only at s
  have bnd := ord_bounds x hv
  rw [valid_iff] at hv
  have w := isoWeek1Monday_spec (isoCalendar x).1 s.2.2.2.2.2.1
  have w' := isoWeek1Monday_spec ((isoCalendar x).1 + 1) (by omega)
  unfold weekdayOrd at h w w'
  rcases s.2.2.2.2.2.2 with e | e | e
  · exact e
  · exfalso
    have s5 := s.2.2.2.2.1
    rw [e] at w' s5
    generalize isoWeek1Monday x.y = p at *
    omega
  · exfalso
    have s1 := s.1
    rw [e] at w s1
    generalize isoWeek1Monday (x.y + 1) = p at *
    omega

end RTV.Cal
