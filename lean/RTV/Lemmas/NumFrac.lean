import RTV.Model.NumFrac
import RTV.Lemmas.Num
import RTV.Lemmas.Literal
/-! Lemmas for `Props/C03Frac`: `_fix` is idempotent and bounded; the power argument of `_get_digital_value` is one
more rounded multiplication (`digitalValue_scale`); the suffix-removal loop on `literal ++ blanks ++ word`; the digit
loop of `__get_point_value`; `_get_digital_value` on `a/b` and `w a/b`; integer powers. -/
namespace RTV.Dec

theorem roundHalfEven_le (c s : Nat) : roundHalfEven c s ≤ c / 10 ^ s + 1 := by
  unfold roundHalfEven
  simp only
  split <;> omega

/-- the coefficient `_fix` returns has at most `p` digits -/
theorem fix_coeff_lt (p : Nat) (_hp : 1 ≤ p) (d : Dec) : (fix p d).coeff < 10 ^ p := by
  unfold fix
  simp only
  split
  · rename_i h
    have : d.coeff = 0 := by simpa using h
    rw [this]; exact pow10_pos p
  · rename_i h0
    have hc : d.coeff ≠ 0 := by simpa using h0
    obtain ⟨lb, ub⟩ := ndigits_spec d.coeff hc
    split
    · rename_i hn
      exact Nat.lt_of_lt_of_le ub (pow10_le hn)
    · rename_i hn
      generalize hnd : ndigits d.coeff = n at *
      have hq := roundHalfEven_le d.coeff (n - p)
      have hdiv : d.coeff / 10 ^ (n - p) < 10 ^ p := by
        apply Nat.div_lt_of_lt_mul
        rw [← Nat.pow_add]
        have : n - p + p = n := by omega
        rw [this]; exact ub
      split
      · -- q has more than p digits: q = 10^p, q / 10 = 10^(p-1)
        simp only
        have : roundHalfEven d.coeff (n - p) / 10 ≤ 10 ^ p / 10 := Nat.div_le_div_right (by omega)
        have e : 10 ^ p / 10 < 10 ^ p := Nat.div_lt_self (pow10_pos p) (by decide)
        omega
      · rename_i hq2
        simp only
        rcases Nat.eq_zero_or_pos (roundHalfEven d.coeff (n - p)) with h | h
        · rw [h]; exact pow10_pos p
        · obtain ⟨_, u2⟩ := ndigits_spec _ (by omega : roundHalfEven d.coeff (n - p) ≠ 0)
          exact Nat.lt_of_lt_of_le u2 (pow10_le (by omega))

theorem fix_neg_eq (p : Nat) (d : Dec) : (fix p d).neg = d.neg := by
  unfold fix
  simp only
  split
  · rfl
  · split
    · rfl
    · split <;> rfl

/-- `_fix` commutes with the sign -/
theorem fix_sign (p : Nat) (s : Bool) (c : Nat) (e : Int) : fix p ⟨s, c, e⟩ = { fix p ⟨false, c, e⟩ with neg := s } := by
  cases s
  · have := fix_neg_eq p ⟨false, c, e⟩
    generalize fix p ⟨false, c, e⟩ = r at this
    obtain ⟨rn, rc, re⟩ := r
    simp only at this
    subst this
    rfl
  · exact fix_neg p c e

theorem fix_idem (p : Nat) (hp : 1 ≤ p) (d : Dec) : fix p (fix p d) = fix p d := by
  have h := fix_coeff_lt p hp d
  generalize fix p d = r at h
  obtain ⟨s, c, e⟩ := r
  exact fix_small p s c e hp h

theorem add_coeff_lt (p : Nat) (hp : 1 ≤ p) (a b : Dec) : (add p a b).coeff < 10 ^ p := by
  unfold add
  simp only
  split
  · exact fix_coeff_lt p hp _
  · split
    · exact fix_coeff_lt p hp _
    · split <;> exact fix_coeff_lt p hp _

end RTV.Dec

namespace RTV.Num
open RTV.Py RTV.Dec

/-! ### the power argument of `_get_digital_value` -/

/-- the part of `dvFinish` before the multiplication by the power -/
def calOf (p : Nat) (fraction : Bool) (st : DVState) : Except Err Dec :=
  if fraction then
    match st.tmp :: st.stack with
    | deno :: mole :: rest =>
      match Dec.div p mole deno with
      | none => .error .zeroDiv
      | some q => .ok (rest.reverse.foldl (fun acc n => Dec.add p acc n) (Dec.add p Dec.zero q))
    | _ => .error .indexError
  else .ok ((st.tmp :: st.stack).reverse.foldl (fun acc n => Dec.add p acc n) Dec.zero)

/-- `cal_result * Decimal(power)` and the sign -/
def finishWith (p : Nat) (cal : Dec) (neg : Bool) (k : Nat) : Dec :=
  let c := Dec.mul p cal (Dec.ofNat k)
  if neg then Dec.mul p c (Dec.ofInt (-1)) else c

theorem dvFinish_eq (p : Nat) (fraction : Bool) (st : DVState) (k : Nat) :
    dvFinish p fraction st k = (calOf p fraction st).map (fun cal => finishWith p cal st.negative k) := by
  unfold dvFinish calOf finishWith
  cases fraction
  · simp [bind, Except.bind, pure, Except.pure, Except.map]
  · simp only [if_true, bind, Except.bind, pure, Except.pure]
    cases hs : st.stack with
    | nil => simp [Except.map]
    | cons mole rest =>
      simp only
      cases hd : Dec.div p mole st.tmp with
      | none => simp [Except.map]
      | some q => simp [Except.map]

theorem foldl_add_coeff (p : Nat) (hp : 1 ≤ p) (l : List Dec) (init : Dec) (h : init.coeff < 10 ^ p) :
    (l.foldl (fun acc n => Dec.add p acc n) init).coeff < 10 ^ p := by
  induction l generalizing init with
  | nil => simpa using h
  | cons a r ih => exact ih _ (Dec.add_coeff_lt p hp _ _)

theorem calOf_coeff (p : Nat) (hp : 1 ≤ p) (fraction : Bool) (st : DVState) (cal : Dec)
    (h : calOf p fraction st = .ok cal) : cal.coeff < 10 ^ p := by
  unfold calOf at h
  cases fraction
  · simp only [Bool.false_eq_true, if_false, Except.ok.injEq] at h
    rw [← h]
    exact foldl_add_coeff p hp _ _ (by simp [Dec.zero, Dec.ofNat]; exact Dec.pow10_pos p)
  · simp only [if_true] at h
    cases hs : st.stack with
    | nil => rw [hs] at h; simp at h
    | cons mole rest =>
      rw [hs] at h
      simp only at h
      cases hd : Dec.div p mole st.tmp with
      | none => rw [hd] at h; simp at h
      | some q =>
        rw [hd] at h
        simp only [Except.ok.injEq] at h
        rw [← h]
        exact foldl_add_coeff p hp _ _ (Dec.add_coeff_lt p hp _ _)

/-- with a coefficient of at most `p` digits: the result for power 1 is `cal` with the sign, the result for power `k`
is the single rounding of `cal · k` -/
theorem finishWith_one (p : Nat) (hp : 1 ≤ p) (cal : Dec) (neg : Bool) (h : cal.coeff < 10 ^ p) :
    finishWith p cal neg 1 = ⟨cal.neg != neg, cal.coeff, cal.exp⟩ := by
  obtain ⟨s, c, e⟩ := cal
  simp only at h
  unfold finishWith
  have h1 : Dec.mul p ⟨s, c, e⟩ (Dec.ofNat 1) = ⟨s, c, e⟩ := by
    simp only [Dec.mul, Dec.ofNat, Nat.mul_one, Int.add_zero, Bool.bne_false]
    exact Dec.fix_small p s c e hp h
  simp only [h1]
  cases neg
  · simp
  · simp only [if_true, Dec.mul, Dec.ofInt]
    have : ((-1 : Int) < 0) = True := by simp
    simp only [this, decide_true, Int.reduceNeg, Int.natAbs_neg, Int.natAbs_one, Nat.mul_one, Int.add_zero]
    exact Dec.fix_small p _ c e hp h

theorem finishWith_k (p : Nat) (hp : 1 ≤ p) (cal : Dec) (neg : Bool) (k : Nat) :
    finishWith p cal neg k = { Dec.fix p ⟨false, cal.coeff * k, cal.exp⟩ with neg := (cal.neg != neg) } := by
  obtain ⟨s, c, e⟩ := cal
  unfold finishWith
  have h1 : Dec.mul p ⟨s, c, e⟩ (Dec.ofNat k) = { Dec.fix p ⟨false, c * k, e⟩ with neg := s } := by
    simp only [Dec.mul, Dec.ofNat, Int.add_zero, Bool.bne_false]
    exact Dec.fix_sign p s (c * k) e
  simp only [h1]
  have hlt := Dec.fix_coeff_lt p hp ⟨false, c * k, e⟩
  generalize Dec.fix p ⟨false, c * k, e⟩ = r at hlt
  obtain ⟨rn, rc, re⟩ := r
  simp only at hlt
  cases neg
  · simp
  · simp only [if_true, Dec.mul, Dec.ofInt]
    have : ((-1 : Int) < 0) = True := by simp
    simp only [this, decide_true, Int.reduceNeg, Int.natAbs_neg, Int.natAbs_one, Nat.mul_one, Int.add_zero]
    rw [Dec.fix_small p _ rc re hp hlt]

/-- **The power argument is one rounded multiplication.** Whatever the string: if `_get_digital_value(s, 1)` returns
`r`, then `_get_digital_value(s, k)` returns `r · k` rounded once (half-even) to `p` digits, with the sign of `r`. -/
theorem digitalValue_scale (p : Nat) (hp : 1 ≤ p) (tab : DigitTab) (c : SepCfg) (s : Str) (k : Nat) (r : Dec)
    (h : digitalValue p tab c s 1 = .ok r) :
    digitalValue p tab c s k = .ok { Dec.fix p ⟨false, r.coeff * k, r.exp⟩ with neg := r.neg } := by
  unfold digitalValue at h ⊢
  simp only [bind, Except.bind] at h ⊢
  generalize effectiveSeps c s = es at h ⊢
  obtain ⟨dec, non, hs⟩ := es
  simp only at h ⊢
  cases hl : dvLoop p tab c.multiDec (s.contains 47) dec non hs s.length (leadLen s) s 0 0 {} with
  | error e => rw [hl] at h; simp at h
  | ok st =>
    rw [hl] at h
    simp only at h ⊢
    rw [dvFinish_eq] at h ⊢
    cases hc : calOf p (s.contains 47) st with
    | error e => rw [hc] at h; simp [Except.map] at h
    | ok cal =>
      rw [hc] at h
      simp only [Except.map, Except.ok.injEq] at h ⊢
      have hlt := calOf_coeff p hp _ st cal hc
      rw [finishWith_one p hp cal st.negative hlt] at h
      rw [finishWith_k p hp cal st.negative k, ← h]

end RTV.Num

namespace RTV.NumFrac
open RTV.Py RTV.Dec RTV.Num

/-! ### the suffix-removal loop of `_digit_number_parse` on `literal ++ blanks ++ word` -/

theorem findFrom_go_prefix (A1 A2 w : Str) (x : Nat) (r : Str) (hw : w = x :: r) (hA : ∀ c ∈ A2, c ≠ x) :
    ∀ fuel, A2.length < fuel →
      findFrom.go (A1 ++ A2 ++ w) w (A1 ++ A2 ++ w).length w.length fuel A1.length = some (A1.length + A2.length) := by
  induction A2 generalizing A1 with
  | nil =>
    intro fuel hf
    cases fuel with
    | zero => simp at hf
    | succ f =>
      unfold findFrom.go
      simp only [List.append_nil, List.length_append]
      have h1 : ¬ (A1.length + w.length > A1.length + w.length) := by omega
      simp only [h1, if_false]
      simp
  | cons a A ih =>
    intro fuel hf
    cases fuel with
    | zero => simp at hf
    | succ f =>
      unfold findFrom.go
      have h1 : ¬ (A1.length + w.length > (A1 ++ a :: A ++ w).length) := by simp; omega
      simp only [h1, if_false]
      have hne : ¬ ((List.drop A1.length (A1 ++ a :: A ++ w)).take w.length = w) := by
        have : List.drop A1.length (A1 ++ a :: A ++ w) = a :: (A ++ w) := by simp
        rw [this, hw]
        simp only [List.length_cons, List.take_succ_cons, List.cons.injEq, not_and]
        intro h
        exact absurd h (hA a (by simp))
      simp only [hne, if_false]
      have e : A1 ++ a :: A ++ w = (A1 ++ [a]) ++ A ++ w := by simp
      have := ih (A1 ++ [a]) (fun c hc => hA c (by simp [hc])) f (by simp at hf; omega)
      rw [e]
      simp only [List.length_append, List.length_cons, List.length_nil] at this ⊢
      rw [this]
      congr 1
      omega

/-- `handle.find(w)` on `A ++ w` when no character of `A` is the first character of `w` -/
theorem findFrom_prefix (A w : Str) (x : Nat) (r : Str) (hw : w = x :: r) (hA : ∀ c ∈ A, c ≠ x) :
    findFrom (A ++ w) w 0 = some A.length := by
  unfold findFrom
  simp only
  have := findFrom_go_prefix [] A w x r hw hA ((A ++ w).length + 1 - 0 + 1) (by simp; omega)
  simpa using this

/-- `find(w, start)` fails when less than `len(w)` characters remain -/
theorem findFrom_short (s w : Str) (st : Nat) (h : st + w.length > s.length) : findFrom s w st = none := by
  unfold findFrom
  simp only
  generalize s.length + 1 - st + 1 = fuel
  cases fuel with
  | zero => rfl
  | succ f => unfold findFrom.go; simp [h]

theorem stripLeft_blanks (sp : Nat → Bool) (hsp : sp 32 = true) (k : Nat) (r : Str) :
    stripLeft sp (List.replicate k 32 ++ r) = stripLeft sp r := by
  induction k with
  | zero => rfl
  | succ n ih => simp [List.replicate_succ, stripLeft, hsp, ih]

theorem stripLeft_stop (sp : Nat → Bool) (c : Nat) (r : Str) (h : sp c = false) : stripLeft sp (c :: r) = c :: r := by
  simp [stripLeft, h]

/-- `(lit + blanks).rstrip()` = `lit` when `lit` does not end in white space -/
theorem rstrip_blanks (sp : Nat → Bool) (hsp : sp 32 = true) (lit : Str) (k : Nat)
    (hlast : ∀ c, lit.getLast? = some c → sp c = false) : rstripWs sp (lit ++ List.replicate k 32) = lit := by
  unfold rstripWs
  rw [List.reverse_append, List.reverse_replicate, stripLeft_blanks sp hsp]
  cases h : lit.reverse with
  | nil =>
    have : lit = [] := by simpa using h
    simp [this, stripLeft]
  | cons c r =>
    have hc : lit.getLast? = some c := by
      rw [List.getLast?_eq_head?_reverse, h]; rfl
    rw [stripLeft_stop sp c r (hlast c hc), ← h, List.reverse_reverse]

/-- **the suffix loop**: for `handle = lit ++ blanks ++ w` where `w` is a round word (its first character occurs
nowhere before it, `len(w) ≤ len(match)`), the handle left for `_get_digital_value` is `lit` and the power is the
word's round number. -/
theorem digitHandle_suffix (sp : Nat → Bool) (matchLen : Nat) (round : List (Str × Nat)) (lit : Str) (k : Nat)
    (w : Str) (x : Nat) (rest : Str) (rv : Nat) (hw : w = x :: rest) (hlen : w.length ≤ matchLen)
    (hr : lookup round w = some rv) (hsp : sp 32 = true) (hlast : ∀ c, lit.getLast? = some c → sp c = false)
    (hhead : ∀ c ∈ lit ++ List.replicate k 32, c ≠ x) :
    digitHandle sp matchLen round [w] (lit ++ List.replicate k 32 ++ w) 0 1 = .ok (lit, rv) := by
  unfold digitHandle
  simp only [hr]
  have hfuel : (lit ++ List.replicate k 32 ++ w).length + 1 = ((lit ++ List.replicate k 32 ++ w).length - 1) + 1 + 1 := by
    rw [hw]; simp; omega
  rw [hfuel]
  unfold removeAll
  rw [findFrom_prefix (lit ++ List.replicate k 32) w x rest hw hhead]
  simp only
  have htake : List.take (lit ++ List.replicate k 32).length (lit ++ List.replicate k 32 ++ w) = lit ++ List.replicate k 32 :=
    List.take_left' rfl
  have hdrop : List.drop ((lit ++ List.replicate k 32).length + matchLen) (lit ++ List.replicate k 32 ++ w) = [] := by
    apply List.drop_eq_nil_of_le
    simp only [List.length_append]
    omega
  rw [htake, hdrop, rstrip_blanks sp hsp lit k hlast, List.append_nil]
  unfold removeAll
  rw [findFrom_short lit w lit.length (by rw [hw]; simp)]
  simp [digitHandle]

/-! ### `__get_point_value` on digit words -/

/-- the loop of `__get_point_value` over words for the digits `ds` (`dw d` = a word the cardinal map sends to `d`):
every step adds `d / 10^j` exactly and moves the scale one place down -/
theorem pointLoop_digits (card : List (Str × Nat)) (dw : Nat → Str) (hdw : ∀ d, d < 10 → lookup card (dw d) = some d)
    (ds : List Nat) (hd : ∀ d ∈ ds, d < 10) :
    ∀ (j M : Nat) (res : Dec), Dec.Rep res M j → natOfDigitsFrom M ds < 10 ^ 15 →
      ∃ r, pointLoop 15 card (ds.map dw) (some res) (Dec.scaleAt (j + 1)) = .ok (some r) ∧
        Dec.Rep r (natOfDigitsFrom M ds) (j + ds.length) := by
  induction ds with
  | nil =>
    intro j M res hr _
    exact ⟨res, rfl, by simpa [natOfDigitsFrom] using hr⟩
  | cons d r ih =>
    intro j M res hr hb
    have hd10 : d < 10 := hd d (by simp)
    have hstep : M * 10 + d < 10 ^ 15 := by
      have := natOfDigitsFrom_ge (M * 10 + d) r
      simp only [natOfDigitsFrom, List.foldl_cons] at hb this
      omega
    simp only [List.map_cons, pointLoop, hdw d hd10]
    have hadd := Dec.add_rep 15 res _ (M * 10) d (j + 1) (by decide) (Dec.rep_shift res M j hr)
      (Dec.addend_rep (j + 1) d (by omega) hd10) hstep
    rw [Dec.scale_step (j + 1) (by omega)]
    obtain ⟨r', he, hr'⟩ := ih (fun x hx => hd x (by simp [hx])) (j + 1) (M * 10 + d) _ hadd
      (by simpa [natOfDigitsFrom] using hb)
    refine ⟨r', he, ?_⟩
    simp only [natOfDigitsFrom, List.foldl_cons, List.length_cons]
    have : j + (r.length + 1) = j + 1 + r.length := by omega
    rw [this]
    exact hr'

/-- `__get_point_value` on the words of the digits `d :: ds` (at most 15 of them): exactly `0.d ds…` -/
theorem getPointValue_digits (tab : DigitTab) (lang : LangCfg) (dw : Nat → Str)
    (hdw : ∀ d, d < 10 → lookup lang.cardinal (dw d) = some d) (d : Nat) (ds : List Nat) (hd : ∀ x ∈ d :: ds, x < 10)
    (hb : natOfDigits (d :: ds) < 10 ^ 15) :
    ∃ r, getPointValue 15 tab lang ((d :: ds).map dw) = .ok r ∧ Dec.Rep r (natOfDigits (d :: ds)) (ds.length + 1) := by
  have hd10 : d < 10 := hd d (by simp)
  have hlt : ¬ (d ≥ 10) := by omega
  simp only [getPointValue, List.map_cons, hdw d hd10, hlt, decide_false, Bool.false_eq_true, if_false, pointLoop,
    bind, Except.bind]
  have h0 : Dec.Rep (Dec.add 15 (Dec.mul 15 Dec.pointOne (Dec.ofNat d)) Dec.zero) d 1 := by
    have := Dec.add_rep 15 _ Dec.zero d 0 1 (by decide) (Dec.addend_first d hd10) (Dec.rep_zero 1) (by omega)
    simpa using this
  have hsc : Dec.mul 15 Dec.pointOne Dec.pointOne = Dec.scaleAt (1 + 1) := by
    have := Dec.scale_step 1 (by omega)
    simpa [Dec.scaleAt] using this
  rw [hsc]
  obtain ⟨r, he, hr⟩ := pointLoop_digits lang.cardinal dw hdw ds (fun x hx => hd x (by simp [hx])) 1 d _ h0
    (by simpa [natOfDigits, natOfDigitsFrom] using hb)
  rw [he]
  refine ⟨r, by simp [pure, Except.pure], ?_⟩
  have e : 1 + ds.length = ds.length + 1 := by omega
  rw [e] at hr
  simpa [natOfDigits, natOfDigitsFrom] using hr

/-- an integer as a decimal at scale `n` -/
theorem rep_int_scaled (I n : Nat) : Dec.Rep (Dec.ofNat I) (I * 10 ^ n) n := by
  simp [Dec.Rep, Dec.ofNat]

/-- **the "point" branch**: integer part `I` (from its tokens) and the digit words `d ds…` after the separator:
`_text_number_parse` returns exactly `I + 0.d ds…` while the number has at most 15 digits. -/
theorem textNumberCombine_digits (tab : DigitTab) (lang : LangCfg) (dw : Nat → Str)
    (hdw : ∀ d, d < 10 → lookup lang.cardinal (dw d) = some d) (intToks : List Str) (I : Nat)
    (hI : getIntValue true tab lang intToks = .ok I) (d : Nat) (ds : List Nat) (hd : ∀ x ∈ d :: ds, x < 10)
    (hb : I * 10 ^ (ds.length + 1) + natOfDigits (d :: ds) < 10 ^ 15) :
    ∃ r, textNumberCombine 15 tab lang intToks (some ((d :: ds).map dw)) = .ok r ∧
      Dec.Rep r (I * 10 ^ (ds.length + 1) + natOfDigits (d :: ds)) (ds.length + 1) := by
  obtain ⟨pv, hpv, hrep⟩ := getPointValue_digits tab lang dw hdw d ds hd (by omega)
  simp only [textNumberCombine, hI, liftRes, hpv, bind, Except.bind, pure, Except.pure]
  have h1 := Dec.add_rep 15 Dec.zero pv 0 _ _ (by decide) (Dec.rep_zero _) hrep (by omega)
  rw [Nat.zero_add] at h1
  have h2 := Dec.add_rep 15 (Dec.ofNat I) _ _ _ _ (by decide) (rep_int_scaled I (ds.length + 1)) h1 hb
  exact ⟨_, rfl, h2⟩

/-- multi-digit words after "point": when the first word is a cardinal ≥ 10 the words are read as one integer `n`
and the value is `0.` followed by the decimal digits of `n` ("point twenty five" ↦ 0.25, "point twenty" ↦ 0.20) -/
theorem getPointValue_tens (p : Nat) (tab : DigitTab) (lang : LangCfg) (first : Str) (rest : List Str) (v n : Nat)
    (hv : lookup lang.cardinal first = some v) (h10 : 10 ≤ v) (hn : getIntValue true tab lang (first :: rest) = .ok n) :
    getPointValue p tab lang (first :: rest) = .ok ⟨false, n, -((natStr n).length : Int)⟩ := by
  have : decide (v ≥ 10) = true := by simpa using h10
  simp [getPointValue, hv, this, hn, liftRes, bind, Except.bind, pure, Except.pure]

/-! ### `_get_digital_value` on `a/b`, `w a/b`, `-a/b` -/

/-- a run of ASCII digits in fraction mode (`'/' in digits_str`): the integer accumulates exactly -/
theorem dvLoop_digits_fr (p : Nat) (tab : DigitTab) (ht : tab.Ascii) (multiDec : Bool) (dec non : Nat) (hs : Bool)
    (len lead : Nat) (hp : 1 ≤ p) (rest : Str) (ds : List Nat) (hd : ∀ d ∈ ds, d < 10) :
    ∀ (i prev N : Nat) (ng : Bool) (stk : List Dec), natOfDigitsFrom N ds < 10 ^ p →
      ∃ prev', dvLoop p tab multiDec true dec non hs len lead (digitChars ds ++ rest) i prev
          ⟨⟨false, N, 0⟩, Dec.ofNat 10, false, ng, stk⟩ =
        dvLoop p tab multiDec true dec non hs len lead rest (i + ds.length) prev'
          ⟨⟨false, natOfDigitsFrom N ds, 0⟩, Dec.ofNat 10, false, ng, stk⟩ := by
  induction ds with
  | nil =>
    intro i prev N ng stk _
    exact ⟨prev, by simp [digitChars, natOfDigitsFrom]⟩
  | cons d r ih =>
    intro i prev N ng stk hb
    have hd10 : d < 10 := hd d (by simp)
    have hstep : N * 10 + d < 10 ^ p := by
      have := natOfDigitsFrom_ge (N * 10 + d) r
      simp only [natOfDigitsFrom, List.foldl_cons] at hb this
      omega
    have e32 : (d + 48 == 32) = false := by simp
    have e47 : (d + 48 == 47) = false := by simp
    simp only [digitChars, List.map_cons, List.cons_append]
    rw [dvLoop]
    simp only [e32, e47, Bool.not_true, Bool.false_and, Bool.or_self, Bool.false_eq_true, if_false, ht.isDigit d hd10,
      ht.value d hd10, if_true]
    rw [Dec.intStep_exact p N d hp hstep]
    obtain ⟨prev', he⟩ := ih (fun x hx => hd x (by simp [hx])) (i + 1) (d + 48) (N * 10 + d) ng stk
      (by simpa [natOfDigitsFrom] using hb)
    refine ⟨prev', ?_⟩
    simp only [digitChars] at he
    rw [he]
    simp only [natOfDigitsFrom, List.foldl_cons, List.length_cons]
    congr 1
    omega

/-- a separator (`' '` or `'/'`) in fraction mode pushes the number read so far -/
theorem dvLoop_push (p : Nat) (tab : DigitTab) (multiDec : Bool) (dec non : Nat) (hs : Bool) (len lead : Nat)
    (c : Nat) (hc : c = 32 ∨ c = 47) (rest : Str) (i prev : Nat) (st : DVState) :
    dvLoop p tab multiDec true dec non hs len lead (c :: rest) i prev st =
      dvLoop p tab multiDec true dec non hs len lead rest (i + 1) c { st with stack := st.tmp :: st.stack, tmp := Dec.zero } := by
  rw [dvLoop]
  rcases hc with h | h <;> subst h <;> simp

theorem mul_one_fixed (p : Nat) (hp : 1 ≤ p) (x : Dec) (h : x.coeff < 10 ^ p) : Dec.mul p x (Dec.ofNat 1) = x := by
  obtain ⟨s, c, e⟩ := x
  simp only [Dec.mul, Dec.ofNat, Nat.mul_one, Int.add_zero, Bool.bne_false]
  exact Dec.fix_small p s c e hp h

theorem mul_neg_one_fixed (p : Nat) (hp : 1 ≤ p) (x : Dec) (h : x.coeff < 10 ^ p) :
    Dec.mul p x (Dec.ofInt (-1)) = { x with neg := !x.neg } := by
  obtain ⟨s, c, e⟩ := x
  simp only [Dec.mul, Dec.ofInt]
  have : ((-1 : Int) < 0) = True := by simp
  simp only [this, decide_true, Int.reduceNeg, Int.natAbs_neg, Int.natAbs_one, Nat.mul_one, Int.add_zero]
  rw [Dec.fix_small p _ c e hp h]
  simp

/-- the optional whole part `w ` of a mixed number -/
def wholeText : Option (List Nat) → Str
  | some w => digitChars w ++ [32]
  | none => []

def wholeStack : Option (List Nat) → List Dec
  | some w => [⟨false, natOfDigits w, 0⟩]
  | none => []

/-- `(0 + q) + w`, negated for a leading `-` -/
def fracResult (p : Nat) (ws : Option (List Nat)) (q : Dec) (neg : Bool) : Dec :=
  let v := match ws with
    | some w => Dec.add p (Dec.add p Dec.zero q) ⟨false, natOfDigits w, 0⟩
    | none => Dec.add p Dec.zero q
  ⟨v.neg != neg, v.coeff, v.exp⟩

/-- **fraction notation**: `[-][w ]a/b` with `w`, `a`, `b` runs of ASCII digits of at most `p` digits each. The value is
`(0 + a/b) + w` — `a/b` the `p`-digit half-even quotient of `Decimal.__truediv__`, the sum rounded again — negated for
a leading `-`; `b = 0` raises. Any separator configuration. -/
theorem digitalValue_fraction (p : Nat) (tab : DigitTab) (ht : tab.Ascii) (c : SepCfg) (hc : c.Sane) (hp : 1 ≤ p)
    (neg : Bool) (ws : Option (List Nat)) (as bs : List Nat)
    (hw : ∀ w, ws = some w → (∀ d ∈ w, d < 10) ∧ natOfDigits w < 10 ^ p)
    (ha : ∀ d ∈ as, d < 10) (hb : ∀ d ∈ bs, d < 10) (hA : natOfDigits as < 10 ^ p) (hB : natOfDigits bs < 10 ^ p) :
    digitalValue p tab c ((if neg then [45] else []) ++ wholeText ws ++ digitChars as ++ 47 :: digitChars bs) 1 =
      match Dec.div p ⟨false, natOfDigits as, 0⟩ ⟨false, natOfDigits bs, 0⟩ with
      | none => .error .zeroDiv
      | some q => .ok (fracResult p ws q neg) := by
  generalize htext : ((if neg then [45] else []) ++ wholeText ws ++ digitChars as ++ 47 :: digitChars bs) = text
  have hfr : text.contains 47 = true := by rw [← htext]; simp
  obtain ⟨h1, h2, h3, h4⟩ := effectiveSeps_sane c hc text
  unfold digitalValue
  simp only [hfr]
  generalize effectiveSeps c text = es at h1 h2 h3 h4
  obtain ⟨dec, non, hs⟩ := es
  simp only at h1 h2 h3 h4
  generalize text.length = len
  generalize leadLen text = lead
  rw [← htext]
  -- the sign
  have hsign : ∃ prev0 i0, dvLoop p tab c.multiDec true dec non hs len lead
      ((if neg then [45] else []) ++ wholeText ws ++ digitChars as ++ 47 :: digitChars bs) 0 0 {} =
      dvLoop p tab c.multiDec true dec non hs len lead
        (wholeText ws ++ digitChars as ++ 47 :: digitChars bs) i0 prev0
        ⟨⟨false, 0, 0⟩, Dec.ofNat 10, false, neg, []⟩ := by
    cases neg
    · exact ⟨0, 0, by simp; rfl⟩
    · refine ⟨45, 1, ?_⟩
      simp only [if_true, List.cons_append, List.nil_append, List.append_assoc]
      rw [dvLoop]
      have e1 : (45 == dec) = false := by simp; omega
      have e2 : (45 == non) = false := by simp; omega
      simp only [ht.low 45 (by decide), e1, e2]
      simp
      rfl
  obtain ⟨prev0, i0, hs1⟩ := hsign
  rw [hs1]
  -- the whole part
  have hwhole : ∃ prev1 i1, dvLoop p tab c.multiDec true dec non hs len lead
        (wholeText ws ++ digitChars as ++ 47 :: digitChars bs) i0 prev0
        ⟨⟨false, 0, 0⟩, Dec.ofNat 10, false, neg, []⟩ =
      dvLoop p tab c.multiDec true dec non hs len lead (digitChars as ++ 47 :: digitChars bs) i1 prev1
        ⟨⟨false, 0, 0⟩, Dec.ofNat 10, false, neg, wholeStack ws⟩ := by
    cases ws with
    | none => exact ⟨prev0, i0, by simp [wholeText, wholeStack]⟩
    | some w =>
      obtain ⟨hwd, hwb⟩ := hw w rfl
      obtain ⟨pr, he⟩ := dvLoop_digits_fr p tab ht c.multiDec dec non hs len lead hp
        (32 :: (digitChars as ++ 47 :: digitChars bs)) w hwd i0 prev0 0 neg [] (by simpa [natOfDigits] using hwb)
      refine ⟨32, i0 + w.length + 1, ?_⟩
      simp only [wholeText, wholeStack, List.append_assoc, List.cons_append, List.nil_append]
      rw [he, dvLoop_push p tab c.multiDec dec non hs len lead 32 (Or.inl rfl)]
      rfl
  obtain ⟨prev1, i1, hs2⟩ := hwhole
  rw [hs2]
  -- numerator, slash, denominator
  obtain ⟨pr2, he2⟩ := dvLoop_digits_fr p tab ht c.multiDec dec non hs len lead hp (47 :: digitChars bs) as ha i1 prev1 0 neg
    (wholeStack ws) (by simpa [natOfDigits] using hA)
  rw [he2, dvLoop_push p tab c.multiDec dec non hs len lead 47 (Or.inr rfl)]
  obtain ⟨pr3, he3⟩ := dvLoop_digits_fr p tab ht c.multiDec dec non hs len lead hp [] bs hb (i1 + as.length + 1) 47 0 neg
    (⟨false, natOfDigitsFrom 0 as, 0⟩ :: wholeStack ws) (by simpa [natOfDigits] using hB)
  simp only [List.append_nil] at he3
  have ez : (Dec.zero : Dec) = ⟨false, 0, 0⟩ := rfl
  simp only [ez]
  rw [he3, dvLoop]
  simp only [bind, Except.bind]
  rw [dvFinish_eq]
  simp only [calOf, if_true, natOfDigits]
  cases hq : Dec.div p ⟨false, natOfDigitsFrom 0 as, 0⟩ ⟨false, natOfDigitsFrom 0 bs, 0⟩ with
  | none => simp [Except.map]
  | some q =>
    simp only [Except.map]
    congr 1
    cases ws with
    | none =>
      simp only [wholeStack, List.reverse_nil, List.foldl_nil, fracResult]
      exact finishWith_one p hp _ neg (Dec.add_coeff_lt p hp _ _)
    | some w =>
      simp only [wholeStack, List.reverse_cons, List.reverse_nil, List.nil_append, List.foldl_cons, List.foldl_nil,
        fracResult, natOfDigits]
      exact finishWith_one p hp _ neg (Dec.add_coeff_lt p hp _ _)

/-! ### integer powers (`_mpd_qpow_uint`) -/

/-- value of a bit list read most significant bit first, continuing from `v` -/
def valBits (v : Nat) (bs : List Bool) : Nat := bs.foldl (fun v b => 2 * v + (if b then 1 else 0)) v

theorem valBits_ge (v : Nat) (bs : List Bool) : v ≤ valBits v bs := by
  induction bs generalizing v with
  | nil => exact Nat.le_refl _
  | cons b r ih =>
    simp only [valBits, List.foldl_cons]
    have := ih (2 * v + (if b then 1 else 0))
    simp only [valBits] at this
    omega

theorem valBits_append (v : Nat) (a b : List Bool) : valBits v (a ++ b) = valBits (valBits v a) b := by
  simp [valBits, List.foldl_append]

theorem valBits_shift (v : Nat) (bs : List Bool) : valBits v bs = v * 2 ^ bs.length + valBits 0 bs := by
  induction bs generalizing v with
  | nil => simp [valBits]
  | cons b r ih =>
    simp only [valBits, List.foldl_cons, List.length_cons] at ih ⊢
    rw [ih (2 * v + (if b then 1 else 0)), ih (2 * 0 + (if b then 1 else 0))]
    rw [Nat.pow_succ]
    simp only [Nat.mul_zero, Nat.zero_add, Nat.add_mul]
    have : 2 * v * 2 ^ r.length = v * (2 ^ r.length * 2) := by
      rw [Nat.mul_comm 2 v, Nat.mul_assoc, Nat.mul_comm 2]
    omega

theorem bitsAux_zero (fuel : Nat) (acc : List Bool) : bitsAux fuel 0 acc = acc := by
  cases fuel <;> simp [bitsAux]

theorem bitsAux_val (fuel n : Nat) (acc : List Bool) (hf : n ≤ fuel) :
    valBits 0 (bitsAux fuel n acc) = n * 2 ^ acc.length + valBits 0 acc := by
  induction fuel generalizing n acc with
  | zero =>
    have : n = 0 := by omega
    subst this
    simp [bitsAux]
  | succ f ih =>
    unfold bitsAux
    split
    · rename_i h
      have : n = 0 := by simpa using h
      subst this; simp
    · rename_i h
      have hn : n ≠ 0 := by simpa using h
      rw [ih (n / 2) _ (by omega)]
      have hc : valBits 0 ((n % 2 == 1) :: acc) = (n % 2) * 2 ^ acc.length + valBits 0 acc := by
        have := valBits_shift (2 * 0 + (if (n % 2 == 1) = true then 1 else 0)) acc
        simp only [valBits, List.foldl_cons] at this ⊢
        rw [this]
        congr 1
        rcases Nat.mod_two_eq_zero_or_one n with h2 | h2 <;> simp [h2]
      rw [hc, List.length_cons, Nat.pow_succ]
      have : n / 2 * (2 ^ acc.length * 2) + n % 2 * 2 ^ acc.length = (n / 2 * 2 + n % 2) * 2 ^ acc.length := by
        rw [Nat.add_mul, Nat.mul_assoc, Nat.mul_comm (2 ^ acc.length) 2]
      have e : n / 2 * 2 + n % 2 = n := by omega
      rw [e] at this
      omega

theorem bitsAux_head (fuel n : Nat) (acc : List Bool) (hf : n ≤ fuel) (hn : n ≠ 0) :
    ∃ t, bitsAux fuel n acc = true :: t := by
  induction fuel generalizing n acc with
  | zero => omega
  | succ f ih =>
    unfold bitsAux
    have : (n == 0) = false := by simpa using hn
    simp only [this, Bool.false_eq_true, if_false]
    rcases Nat.eq_zero_or_pos (n / 2) with h | h
    · have h1 : n = 1 := by omega
      subst h1
      exact ⟨acc, by simp [bitsAux_zero]⟩
    · exact ih (n / 2) _ (by omega) (by omega)

/-- the bits after the leading one, read from 1, give `n` back -/
theorem bitsOf_tail (n : Nat) (hn : n ≠ 0) : valBits 1 (bitsOf n).tail = n := by
  obtain ⟨t, ht⟩ := bitsAux_head n n [] (Nat.le_refl _) hn
  have hv := bitsAux_val n n [] (Nat.le_refl _)
  unfold bitsOf
  rw [ht] at hv ⊢
  simp only [List.tail_cons]
  simp only [valBits, List.foldl_cons, List.length_nil, Nat.pow_zero, Nat.mul_one, List.foldl_nil] at hv ⊢
  simpa using hv

/-- square-and-multiply on integers that fit the working precision is exact -/
theorem powFold_exact (wp N : Nat) (hwp : 1 ≤ wp) (hN : 1 ≤ N) (bs : List Bool) :
    ∀ v, N ^ (valBits v bs) < 10 ^ wp →
      bs.foldl (fun r b => let r2 := Dec.mul wp r r; if b then Dec.mul wp r2 ⟨false, N, 0⟩ else r2) ⟨false, N ^ v, 0⟩ =
        ⟨false, N ^ (valBits v bs), 0⟩ := by
  induction bs with
  | nil => intro v _; rfl
  | cons b r ih =>
    intro v hb
    simp only [List.foldl_cons]
    have hv' : valBits v (b :: r) = valBits (2 * v + (if b then 1 else 0)) r := rfl
    rw [hv'] at hb ⊢
    have hle := valBits_ge (2 * v + (if b then 1 else 0)) r
    have hbound : N ^ (2 * v + (if b then 1 else 0)) < 10 ^ wp :=
      Nat.lt_of_le_of_lt (Nat.pow_le_pow_right hN hle) hb
    have hsq : Dec.mul wp ⟨false, N ^ v, 0⟩ ⟨false, N ^ v, 0⟩ = ⟨false, N ^ (2 * v), 0⟩ := by
      simp only [Dec.mul, Int.add_zero, bne_self_eq_false]
      have e : N ^ v * N ^ v = N ^ (2 * v) := by rw [← Nat.pow_add]; congr 1; omega
      rw [e]
      exact Dec.fix_small wp _ _ _ hwp (Nat.lt_of_le_of_lt (Nat.pow_le_pow_right hN (by omega)) hbound)
    simp only [hsq]
    cases b
    · simp only [Bool.false_eq_true, if_false, Nat.add_zero] at hb hbound ⊢
      exact ih (2 * v) hb
    · simp only [if_true] at hb hbound ⊢
      have hm : Dec.mul wp ⟨false, N ^ (2 * v), 0⟩ ⟨false, N, 0⟩ = ⟨false, N ^ (2 * v + 1), 0⟩ := by
        simp only [Dec.mul, Int.add_zero, bne_self_eq_false]
        rw [← Nat.pow_succ]
        exact Dec.fix_small wp _ _ _ hwp hbound
      rw [hm]
      exact ih (2 * v + 1) hb

theorem powUint_exact (wp N E : Nat) (hwp : 1 ≤ wp) (hN : 1 ≤ N) (hE : E ≠ 0) (hb : N ^ E < 10 ^ wp) :
    powUint wp ⟨false, N, 0⟩ E = ⟨false, N ^ E, 0⟩ := by
  unfold powUint
  have h := powFold_exact wp N hwp hN (bitsOf E).tail 1 (by rw [bitsOf_tail E hE]; exact hb)
  rw [bitsOf_tail E hE, Nat.pow_one] at h
  exact h

/-- **integer powers are exact while they fit**: `N ** E` for `N ≥ 2`, `E ≥ 1`, `N^E < 10^p` -/
theorem decPow_nat_exact (p N E : Nat) (hp : 1 ≤ p) (hN : 2 ≤ N) (hE : 1 ≤ E) (hb : N ^ E < 10 ^ p) :
    decPow p (Dec.ofNat N) (Dec.ofNat E) = .ok ⟨false, N ^ E, 0⟩ := by
  have hEi : ((E : Nat) : Int) ≠ 0 := by omega
  have hEn : ¬ (((E : Nat) : Int) < 0) := by omega
  have hN0 : (N == 0) = false := by simp; omega
  have hN1 : (N == 1) = false := by simp; omega
  simp only [decPow, decInt?, Dec.ofNat, Int.le_refl, ge_iff_le, if_true, Int.toNat_zero, Nat.pow_zero, Nat.mul_one,
    Bool.false_eq_true, if_false, Int.one_mul, Bool.false_and, hN0, Int.natCast_eq_zero, Int.neg_zero,
    beq_iff_eq, hEi, hEn, hN1, Bool.and_false, Int.natAbs_natCast, Bool.true_and]
  have hE0 : E ≠ 0 := by omega
  have hwp : p ≤ ((p : Int) + (Dec.ndigits E : Int) + 0 + 2).toNat := by omega
  have hx := powUint_exact ((p : Int) + (Dec.ndigits E : Int) + 0 + 2).toNat N E (by omega) (by omega) hE0
    (Nat.lt_of_lt_of_le hb (Dec.pow10_le hwp))
  rw [hx]
  congr 1
  exact Dec.fix_small p _ _ _ hp hb

/-! ### `_power_number_parse` on `M e [-] E` with an integer mantissa -/

theorem upperAscii_digits (ds : List Nat) (hd : ∀ d ∈ ds, d < 10) : upperAscii (digitChars ds) = digitChars ds := by
  induction ds with
  | nil => rfl
  | cons d r ih =>
    have hd10 : d < 10 := hd d (by simp)
    have : ¬ (97 ≤ d + 48) := by omega
    simp only [upperAscii, digitChars, List.map_cons, List.map_map] at ih ⊢
    simp only [decide_eq_true_eq, this, false_and, if_false, Bool.false_and, Bool.false_eq_true, decide_false]
    congr 1
    exact ih (fun x hx => hd x (by simp [hx]))

/-- a run of digits before any separator accumulates a Python int (no bound) -/
theorem powLoop_digits (tab : DigitTab) (ht : tab.Ascii) (decSep : Nat) (ds : List Nat) (hd : ∀ d ∈ ds, d < 10)
    (rest : Str) (hrest : rest ≠ []) :
    ∀ (N : Nat) (sc : F64) (ng : Bool) (stk : List PyNum),
      powLoop tab decSep (digitChars ds ++ rest) ⟨.int (N : Int), sc, false, ng, stk⟩ =
        powLoop tab decSep rest ⟨.int ((natOfDigitsFrom N ds : Nat) : Int), sc, false, ng, stk⟩ := by
  induction ds with
  | nil =>
    intro N sc ng stk
    simp [digitChars, natOfDigitsFrom]
  | cons d r ih =>
    intro N sc ng stk
    have hd10 : d < 10 := hd d (by simp)
    have e94 : (d + 48 == 94) = false := by simp; omega
    have e69 : (d + 48 == 69) = false := by simp; omega
    have hne : (digitChars r ++ rest).isEmpty = false := by
      cases rest with
      | nil => exact absurd rfl hrest
      | cons a b => simp
    simp only [digitChars, List.map_cons, List.cons_append]
    rw [powLoop]
    simp only [e94, e69, Bool.or_self, Bool.false_eq_true, if_false, ht.isDigit d hd10, ht.value d hd10, if_true]
    simp only [digitChars] at hne
    simp only [hne, Bool.false_eq_true, if_false]
    have := ih (fun x hx => hd x (by simp [hx])) (N * 10 + d) sc ng stk
    simp only [digitChars] at this
    have e : ((N : Int) * 10 + (d : Int)) = ((N * 10 + d : Nat) : Int) := by simp
    rw [e, this]
    simp [natOfDigitsFrom]

/-- … and at the end of the text the number is pushed, negated when a `-` was read -/
theorem powLoop_digits_end (tab : DigitTab) (ht : tab.Ascii) (decSep : Nat) (d : Nat) (ds : List Nat)
    (hd : ∀ x ∈ d :: ds, x < 10) :
    ∀ (N : Nat) (sc : F64) (ng : Bool) (stk : List PyNum),
      powLoop tab decSep (digitChars (d :: ds)) ⟨.int (N : Int), sc, false, ng, stk⟩ =
        .ok (⟨.int ((natOfDigitsFrom N (d :: ds) : Nat) : Int), sc, false, ng, stk⟩ : PowSt).push := by
  induction ds generalizing d with
  | nil =>
    intro N sc ng stk
    have hd10 : d < 10 := hd d (by simp)
    have e94 : (d + 48 == 94) = false := by simp; omega
    have e69 : (d + 48 == 69) = false := by simp; omega
    simp only [digitChars, List.map_cons, List.map_nil]
    rw [powLoop]
    simp only [e94, e69, Bool.or_self, Bool.false_eq_true, if_false, ht.isDigit d hd10, ht.value d hd10, if_true,
      List.isEmpty_nil, powLoop]
    simp [natOfDigitsFrom]
  | cons d2 r ih =>
    intro N sc ng stk
    have hd10 : d < 10 := hd d (by simp)
    have e94 : (d + 48 == 94) = false := by simp; omega
    have e69 : (d + 48 == 69) = false := by simp; omega
    simp only [digitChars, List.map_cons]
    rw [powLoop]
    simp only [e94, e69, Bool.or_self, Bool.false_eq_true, if_false, ht.isDigit d hd10, ht.value d hd10, if_true,
      List.isEmpty_cons]
    have := ih d2 (fun x hx => hd x (List.mem_cons_of_mem _ hx)) (N * 10 + d) sc ng stk
    simp only [digitChars, List.map_cons] at this
    have e : ((N : Int) * 10 + (d : Int)) = ((N * 10 + d : Nat) : Int) := by simp
    rw [e, this]
    simp [natOfDigitsFrom]

theorem upperAscii_append (a b : Str) : upperAscii (a ++ b) = upperAscii a ++ upperAscii b := by
  simp [upperAscii]

theorem digitChars_le (ds : List Nat) (hd : ∀ d ∈ ds, d < 10) : ∀ c ∈ digitChars ds, c ≤ 57 := by
  intro c hc
  simp only [digitChars, List.mem_map] at hc
  obtain ⟨d, hdm, rfl⟩ := hc
  have := hd d hdm
  omega

theorem ofInt_natCast (n : Nat) : Dec.ofInt (n : Int) = Dec.ofNat n := by
  have : ¬ ((n : Int) < 0) := by omega
  simp [Dec.ofInt, Dec.ofNat, this]

/-- **exponent notation, integer mantissa.** `M e E` / `M e -E` (ASCII digits, any length): the text is read as the
Python ints `M` and `±E` (exact, unbounded) and the value is `multiply(Decimal(M), power(Decimal(10), Decimal(±E)))`. -/
theorem powerNumberParse_e (p : Nat) (tab : DigitTab) (ht : tab.Ascii) (decSep : Nat) (hsep : decSep ≠ 45)
    (ms : List Nat) (e0 : Nat) (es : List Nat) (neg : Bool) (hm : ∀ d ∈ ms, d < 10) (he : ∀ d ∈ e0 :: es, d < 10) :
    powerNumberParse false p tab decSep (digitChars ms ++ 101 :: ((if neg then [45] else []) ++ digitChars (e0 :: es))) =
      (decPow p (Dec.ofNat 10) (PyNum.toDec (.int (if neg then -((natOfDigits (e0 :: es) : Nat) : Int)
          else ((natOfDigits (e0 :: es) : Nat) : Int))))).map
        (fun t => Dec.mul p (Dec.ofNat (natOfDigits ms)) t) := by
  have hup : upperAscii (digitChars ms ++ 101 :: ((if neg then [45] else []) ++ digitChars (e0 :: es))) =
      digitChars ms ++ 69 :: ((if neg then [45] else []) ++ digitChars (e0 :: es)) := by
    rw [upperAscii_append, upperAscii_digits ms hm]
    have h101 : ∀ X, upperAscii (101 :: X) = 69 :: upperAscii X := fun X => by simp [upperAscii]
    rw [h101, upperAscii_append, upperAscii_digits (e0 :: es) he]
    cases neg <;> simp [upperAscii]
  have hc : (digitChars ms ++ 101 :: ((if neg then [45] else []) ++ digitChars (e0 :: es))).contains 94 = false := by
    have a := digitChars_le ms hm
    have b := digitChars_le (e0 :: es) he
    simp only [List.contains_eq_mem, List.mem_append, List.mem_cons, decide_eq_false_iff_not, not_or]
    refine ⟨fun h => ?_, by omega, ?_, fun h => ?_⟩
    · have := a 94 h; omega
    · cases neg <;> simp
    · have := b 94 h; omega
  unfold powerNumberParse
  simp only [Bool.false_eq_true, if_false]
  rw [hup, hc]
  have e0' : ({} : PowSt) = ⟨.int ((0 : Nat) : Int), F64.ofNat 10, false, false, []⟩ := rfl
  rw [e0', powLoop_digits tab ht decSep ms hm _ (by simp)]
  rw [powLoop]
  have hne : ((if neg then [45] else []) ++ digitChars (e0 :: es)).isEmpty = false := by
    cases neg <;> simp [digitChars]
  simp only [hne, BEq.rfl, Bool.or_true, if_true, Bool.false_eq_true, if_false, PowSt.push]
  have hrest : powLoop tab decSep ((if neg then [45] else []) ++ digitChars (e0 :: es))
      ⟨.int 0, F64.ofNat 10, false, false, [PyNum.int ((natOfDigitsFrom 0 ms : Nat) : Int)]⟩ =
      powLoop tab decSep (digitChars (e0 :: es))
        ⟨.int ((0 : Nat) : Int), F64.ofNat 10, false, neg, [PyNum.int ((natOfDigitsFrom 0 ms : Nat) : Int)]⟩ := by
    cases neg
    · simp
    · simp only [if_true, List.cons_append, List.nil_append]
      rw [powLoop]
      have e1 : (45 == decSep) = false := by simp; omega
      have hne2 : (digitChars (e0 :: es)).isEmpty = false := by simp [digitChars]
      simp only [ht.low 45 (by decide), e1, hne2]
      simp
  rw [hrest, powLoop_digits_end tab ht decSep e0 es he]
  simp only [bind, Except.bind, PowSt.push, List.reverse_cons, List.reverse_nil, List.nil_append, List.cons_append,
    Bool.not_false, if_true]
  have hb : (if neg = true then (PyNum.int ((natOfDigitsFrom 0 (e0 :: es) : Nat) : Int)).negate
      else PyNum.int ((natOfDigitsFrom 0 (e0 :: es) : Nat) : Int)) =
      PyNum.int (if neg = true then -((natOfDigits (e0 :: es) : Nat) : Int) else ((natOfDigits (e0 :: es) : Nat) : Int)) := by
    cases neg <;> simp [PyNum.negate, natOfDigits]
  rw [hb]
  simp only [PyNum.toDec, ofInt_natCast, natOfDigits]
  cases decPow p (Dec.ofNat 10) (Dec.ofInt (if neg = true then -((natOfDigitsFrom 0 (e0 :: es) : Nat) : Int)
      else ((natOfDigitsFrom 0 (e0 :: es) : Nat) : Int))) <;> simp [Except.map, pure, Except.pure]

/-! ### the `X10^` → `E` variant of `_power_number_parse` -/

theorem splitOn_go_none (sep : Str) (x : Nat) (r : Str) (hsep : sep = x :: r) :
    ∀ (rest cur : Str) (acc : List Str) (fuel : Nat), rest.length < fuel → x ∉ rest →
      Dec.splitOn.go sep sep.length fuel cur rest acc = ((cur.reverse ++ rest) :: acc).reverse := by
  intro rest
  induction rest with
  | nil =>
    intro cur acc fuel hf _
    cases fuel with
    | zero => simp at hf
    | succ f => simp [Dec.splitOn.go]
  | cons c r' ih =>
    intro cur acc fuel hf hx
    cases fuel with
    | zero => simp at hf
    | succ f =>
      unfold Dec.splitOn.go
      have hne : ¬ ((c :: r').take sep.length = sep) := by
        rw [hsep]
        simp only [List.length_cons, List.take_succ_cons, List.cons.injEq, not_and]
        intro h
        exact absurd h.symm (by intro e; exact hx (by simp [e]))
      simp only [hne, Bool.and_false, decide_false, Bool.false_eq_true, if_false]
      rw [ih (c :: cur) acc f (by simp at hf; omega) (fun h => hx (by simp [h]))]
      simp

theorem splitOn_go_one (sep : Str) (x : Nat) (r : Str) (hsep : sep = x :: r) (B : Str) (hB : x ∉ B) :
    ∀ (A cur : Str) (acc : List Str) (fuel : Nat), (A ++ sep ++ B).length < fuel → x ∉ A →
      Dec.splitOn.go sep sep.length fuel cur (A ++ sep ++ B) acc = (B :: (cur.reverse ++ A) :: acc).reverse := by
  intro A
  induction A with
  | nil =>
    intro cur acc fuel hf _
    cases fuel with
    | zero => simp at hf
    | succ f =>
      have hlen : 0 < sep.length := by rw [hsep]; simp
      have hcons : [] ++ sep ++ B = x :: (r ++ B) := by rw [hsep]; simp
      have htake : (x :: (r ++ B)).take sep.length = sep := by
        rw [← hcons]; simp
      have hdrop : (x :: (r ++ B)).drop sep.length = B := by
        rw [← hcons]; simp
      rw [hcons]
      unfold Dec.splitOn.go
      simp only [htake, hdrop, hlen, decide_true, Bool.and_self, if_true]
      rw [splitOn_go_none sep x r hsep B [] _ f (by simp at hf; omega) hB]
      simp
  | cons a A' ih =>
    intro cur acc fuel hf hx
    cases fuel with
    | zero => simp at hf
    | succ f =>
      simp only [List.cons_append]
      unfold Dec.splitOn.go
      have hne : ¬ ((a :: (A' ++ sep ++ B)).take sep.length = sep) := by
        rw [hsep]
        simp only [List.length_cons, List.take_succ_cons, List.cons.injEq, not_and]
        intro h
        exact absurd h.symm (by intro e; exact hx (by simp [e]))
      simp only [List.append_assoc] at hne ⊢
      simp only [hne, Bool.and_false, decide_false, Bool.false_eq_true, if_false]
      have := ih (a :: cur) acc f (by simp at hf ⊢; omega) (fun h => hx (by simp [h]))
      simp only [List.append_assoc] at this
      rw [this]
      simp

/-- `s.replace(sep, new)` leaves a string without the first character of `sep` alone -/
theorem replaceAll_none (sep new s : Str) (x : Nat) (r : Str) (hsep : sep = x :: r) (hx : x ∉ s) :
    replaceAll sep new s = s := by
  unfold replaceAll Dec.splitOn
  simp only
  rw [splitOn_go_none sep x r hsep s [] [] (s.length + 1) (by omega) hx]
  simp [Dec.joinWith]

/-- … and rewrites the one occurrence in `A ++ sep ++ B` -/
theorem replaceAll_one (sep new A B : Str) (x : Nat) (r : Str) (hsep : sep = x :: r) (hA : x ∉ A) (hB : x ∉ B) :
    replaceAll sep new (A ++ sep ++ B) = A ++ new ++ B := by
  unfold replaceAll Dec.splitOn
  simp only
  rw [splitOn_go_one sep x r hsep B hB A [] [] ((A ++ sep ++ B).length + 1) (by omega) hA]
  simp [Dec.joinWith]

theorem upperAscii_no88 (t : Str) (h88 : 88 ∉ t) (h120 : 120 ∉ t) : 88 ∉ upperAscii t := by
  intro h
  simp only [upperAscii, List.mem_map] at h
  obtain ⟨c, hc, he⟩ := h
  split at he
  · rename_i hr
    simp only [Bool.and_eq_true, decide_eq_true_eq] at hr
    have : c = 120 := by omega
    exact h120 (this ▸ hc)
  · exact h88 (he ▸ hc)

theorem upperAscii_contains94 (t : Str) : (upperAscii t).contains 94 = t.contains 94 := by
  induction t with
  | nil => rfl
  | cons c r ih =>
    simp only [upperAscii, List.map_cons, List.contains_cons] at ih ⊢
    rw [ih]
    congr 1
    split
    · rename_i hr
      simp only [Bool.and_eq_true, decide_eq_true_eq] at hr
      have h1 : (94 == c - 32) = false := by simp; omega
      have h2 : (94 == c) = false := by simp; omega
      rw [h1, h2]
    · rfl

/-- on a text without `x` / `X` the two variants of `_power_number_parse` coincide -/
theorem powerNumberParse_fx_noX (p : Nat) (tab : DigitTab) (decSep : Nat) (t : Str) (h88 : 88 ∉ t) (h120 : 120 ∉ t) :
    powerNumberParse true p tab decSep t = powerNumberParse false p tab decSep t := by
  unfold powerNumberParse
  simp only [if_true, Bool.false_eq_true, if_false]
  rw [replaceAll_none x10Caret [69] (upperAscii t) 88 [49, 48, 94] rfl (upperAscii_no88 t h88 h120), upperAscii_contains94]

/-- **the repaired variant reads `A x10^ B` as `A e B`** (no other `x` / `X` in the text) -/
theorem powerNumberParse_x10 (p : Nat) (tab : DigitTab) (decSep : Nat) (A B : Str)
    (hA : 88 ∉ A ∧ 120 ∉ A) (hB : 88 ∉ B ∧ 120 ∉ B) :
    powerNumberParse true p tab decSep (A ++ [120, 49, 48, 94] ++ B) = powerNumberParse true p tab decSep (A ++ 101 :: B) := by
  have hu1 : upperAscii (A ++ [120, 49, 48, 94] ++ B) = upperAscii A ++ x10Caret ++ upperAscii B := by
    simp [upperAscii, x10Caret]
  have hu2 : upperAscii (A ++ 101 :: B) = upperAscii A ++ [69] ++ upperAscii B := by
    simp [upperAscii]
  have nA := upperAscii_no88 A hA.1 hA.2
  have nB := upperAscii_no88 B hB.1 hB.2
  unfold powerNumberParse
  simp only [if_true]
  rw [hu1, hu2, replaceAll_one x10Caret [69] _ _ 88 [49, 48, 94] rfl nA nB,
    replaceAll_none x10Caret [69] (upperAscii A ++ [69] ++ upperAscii B) 88 [49, 48, 94] rfl
      (by simp only [List.mem_append, List.mem_singleton, not_or]; exact ⟨⟨nA, by decide⟩, nB⟩)]

end RTV.NumFrac
