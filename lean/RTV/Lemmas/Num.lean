import RTV.Lemmas.Dec
import RTV.Model.Num
/-! Lemmas about `digitalValue` on digit runs (`Props/C03`). -/
namespace RTV.Num
open RTV.Py RTV.Dec

/-- digit values → characters -/
def digitChars (ds : List Nat) : Str := ds.map (· + 48)

/-- the number a digit string denotes, continuing from `n` -/
def natOfDigitsFrom (n : Nat) (ds : List Nat) : Nat := ds.foldl (fun a d => a * 10 + d) n
def natOfDigits (ds : List Nat) : Nat := natOfDigitsFrom 0 ds

/-- What the theorems need from the interpreter's digit table: ASCII digits are digits with their value. -/
structure DigitTab.Ascii (tab : DigitTab) : Prop where
  isDigit : ∀ d, d < 10 → tab.isDigit (d + 48) = true
  value : ∀ d, d < 10 → tab.value (d + 48) = some d
  minus : tab.isDigit 45 = false

theorem asciiDigits_ascii : DigitTab.Ascii asciiDigits where
  isDigit d h := by simp [asciiDigits]; omega
  value d h := by simp [asciiDigits]; omega
  minus := by decide

/-- The separators are ordinary punctuation: not digits, not `-`, not `/`. -/
structure SepCfg.Sane (c : SepCfg) : Prop where
  dec : c.decSep < 48 ∧ c.decSep ≠ 45 ∧ c.decSep ≠ 47
  non : c.nonDecSep < 48 ∧ c.nonDecSep ≠ 45 ∧ c.nonDecSep ≠ 47

theorem natOfDigitsFrom_ge (n : Nat) (ds : List Nat) : n ≤ natOfDigitsFrom n ds := by
  induction ds generalizing n with
  | nil => simp [natOfDigitsFrom]
  | cons d r ih =>
    simp only [natOfDigitsFrom, List.foldl_cons]
    have := ih (n * 10 + d)
    simp only [natOfDigitsFrom] at this
    omega

theorem skip_digit (multiDec : Bool) (d distEnd distStart : Nat) (hs : Bool) (prev non : Nat) (hn : non < 48) :
    skipNonDecimal multiDec (d + 48) distEnd distStart hs prev non = false := by
  unfold skipNonDecimal
  have : (d + 48 == non) = false := by simp; omega
  simp [this]

/-- The loop over a run of ASCII digits before any decimal separator accumulates the integer exactly, while it
has at most `p` digits. -/
theorem dvLoop_digits (p : Nat) (tab : DigitTab) (ht : tab.Ascii) (multiDec : Bool) (dec non : Nat) (hs : Bool)
    (len lead : Nat) (hnon : non < 48) (hp : 1 ≤ p) (rest : Str) (ds : List Nat) (hd : ∀ d ∈ ds, d < 10) :
    ∀ (i prev N : Nat) (ng : Bool) (stk : List Dec), natOfDigitsFrom N ds < 10 ^ p →
      ∃ prev', dvLoop p tab multiDec false dec non hs len lead (digitChars ds ++ rest) i prev
          ⟨⟨false, N, 0⟩, Dec.ofNat 10, false, ng, stk⟩ =
        dvLoop p tab multiDec false dec non hs len lead rest (i + ds.length) prev'
          ⟨⟨false, natOfDigitsFrom N ds, 0⟩, Dec.ofNat 10, false, ng, stk⟩ ∧ (ds = [] → prev' = prev) := by
  induction ds with
  | nil =>
    intro i prev N ng stk _
    exact ⟨prev, by simp [digitChars, natOfDigitsFrom], fun _ => rfl⟩
  | cons d r ih =>
    intro i prev N ng stk hb
    have hd10 : d < 10 := hd d (by simp)
    have hstep : N * 10 + d < 10 ^ p := by
      have := natOfDigitsFrom_ge (N * 10 + d) r
      simp only [natOfDigitsFrom, List.foldl_cons] at hb this
      omega
    have hsk := skip_digit multiDec d (len - i) (i - lead) hs prev non hnon
    have e32 : (d + 48 == 32) = false := by simp
    have enb : (d + 48 == NBSP) = false := by simp [NBSP]; omega
    have e47 : (d + 48 == 47) = false := by simp
    simp only [digitChars, List.map_cons, List.cons_append]
    rw [dvLoop]
    simp only [hsk, e32, enb, e47, Bool.or_self, Bool.and_false, Bool.false_eq_true, if_false, ht.isDigit d hd10,
      ht.value d hd10, Bool.not_false, Bool.true_and, if_true]
    rw [intStep_exact p N d hp hstep]
    obtain ⟨prev', he, _⟩ := ih (fun x hx => hd x (by simp [hx])) (i + 1) (d + 48) (N * 10 + d) ng stk
      (by simpa [natOfDigitsFrom] using hb)
    refine ⟨prev', ?_, by simp⟩
    simp only [digitChars] at he
    rw [he]
    simp only [natOfDigitsFrom, List.foldl_cons, List.length_cons]
    congr 1
    omega

theorem effectiveSeps_sane (c : SepCfg) (hc : c.Sane) (s : Str) :
    (effectiveSeps c s).1 < 48 ∧ (effectiveSeps c s).1 ≠ 45 ∧ (effectiveSeps c s).2.1 < 48 ∧
      (effectiveSeps c s).2.1 ≠ 45 := by
  obtain ⟨⟨d1, d2, _⟩, ⟨n1, n2, _⟩⟩ := hc
  unfold effectiveSeps
  cases c.multiDec <;> cases c.nonStdVariant <;> simp only [Bool.false_eq_true, if_false, if_true] <;>
    (repeat' split) <;> simp_all

theorem contains_digitChars (ds : List Nat) (hd : ∀ d ∈ ds, d < 10) (x : Nat) (hx : x < 48) :
    (digitChars ds).contains x = false := by
  simp only [digitChars, List.contains_eq_mem, List.mem_map, decide_eq_false_iff_not, not_exists, not_and]
  intro d _ h
  omega

/-- `_get_digital_value` on a run of ASCII digits, optionally preceded by `-`, with at most `p` digits: the
integer written, exactly, as a decimal with exponent 0. Holds for every separator configuration. -/
theorem digitalValue_plain (p : Nat) (tab : DigitTab) (ht : tab.Ascii) (c : SepCfg) (hc : c.Sane) (hp : 1 ≤ p)
    (neg : Bool) (ds : List Nat) (hd : ∀ d ∈ ds, d < 10) (hb : natOfDigits ds < 10 ^ p) :
    digitalValue p tab c ((if neg then [45] else []) ++ digitChars ds) 1 = .ok ⟨neg, natOfDigits ds, 0⟩ := by
  have hfr : ((if neg then [45] else []) ++ digitChars ds).contains 47 = false := by
    have := contains_digitChars ds hd 47 (by omega)
    cases neg <;> simp_all [List.contains_eq_mem]
  obtain ⟨h1, h2, h3, h4⟩ := effectiveSeps_sane c hc ((if neg then [45] else []) ++ digitChars ds)
  unfold digitalValue
  simp only [hfr]
  generalize effectiveSeps c ((if neg then [45] else []) ++ digitChars ds) = es at h1 h2 h3 h4
  obtain ⟨dec, non, hs⟩ := es
  simp only at h1 h2 h3 h4
  generalize ((if neg then [45] else []) ++ digitChars ds).length = len
  generalize leadLen ((if neg then [45] else []) ++ digitChars ds) = lead
  cases neg
  · -- no sign
    obtain ⟨prev', he, _⟩ := dvLoop_digits p tab ht c.multiDec dec non hs len lead h3 hp [] ds hd 0 0 0 false []
      (by simpa [natOfDigits] using hb)
    simp only [List.append_nil] at he
    simp only [Bool.false_eq_true, if_false, List.nil_append]
    have e0 : ({} : DVState) = ⟨⟨false, 0, 0⟩, Dec.ofNat 10, false, false, []⟩ := rfl
    rw [e0, he, dvLoop]
    simp only [bind, Except.bind, pure, Except.pure, Bool.false_eq_true, if_false, List.reverse_cons,
      List.reverse_nil, List.nil_append, List.foldl_cons, List.foldl_nil]
    rw [add_zero_left p _ hp (by simpa [natOfDigits] using hb), mul_one_right p _ _ hp (by simpa [natOfDigits] using hb)]
    rfl
  · -- leading '-'
    simp only [if_true, List.cons_append, List.nil_append]
    rw [dvLoop]
    have hsk : skipNonDecimal c.multiDec 45 (len - 0) (0 - lead) hs 0 non = false := by
      unfold skipNonDecimal
      have : (45 == non) = false := by simp; omega
      simp [this]
    have e1 : (45 == dec) = false := by simp; omega
    have e2 : (45 == non) = false := by simp; omega
    simp only [hsk, ht.minus, e1, e2, NBSP]
    simp only [Bool.false_eq_true, if_false, Bool.or_self, Bool.and_false, Bool.not_false, Bool.and_true,
      BEq.rfl, if_true, Nat.reduceBEq]
    obtain ⟨prev', he, _⟩ := dvLoop_digits p tab ht c.multiDec dec non hs len lead h3 hp [] ds hd 1 45 0 true []
      (by simpa [natOfDigits] using hb)
    simp only [List.append_nil] at he
    have e0 : ({ ({} : DVState) with negative := true }) = ⟨⟨false, 0, 0⟩, Dec.ofNat 10, false, true, []⟩ := rfl
    rw [e0, he, dvLoop]
    simp only [bind, Except.bind, pure, Except.pure, Bool.false_eq_true, if_false, List.reverse_cons,
      List.reverse_nil, List.nil_append, List.foldl_cons, List.foldl_nil, if_true]
    rw [add_zero_left p _ hp (by simpa [natOfDigits] using hb), mul_one_right p _ _ hp (by simpa [natOfDigits] using hb),
      mul_neg_one p _ hp (by simpa [natOfDigits] using hb)]
    rfl

/-- decidable readings of results (closed instances are proved by kernel evaluation) -/
def isOkStr (r : Except Err Str) (s : Str) : Bool :=
  match r with
  | .ok t => t == s
  | .error _ => false

def isOkDec (r : Except Err Dec) (d : Dec) : Bool :=
  match r with
  | .ok t => decide (t = d)
  | .error _ => false

theorem isOkStr_iff (r : Except Err Str) (s : Str) : isOkStr r s = true ↔ r = .ok s := by
  cases r <;> simp [isOkStr]

theorem isOkDec_iff (r : Except Err Dec) (d : Dec) : isOkDec r d = true ↔ r = .ok d := by
  cases r <;> simp [isOkDec]

end RTV.Num
