import RTV.Lemmas.Dec
import RTV.Model.Num
/-! Lemmas about `digitalValue` on digit runs (`Props/C03`). -/
namespace RTV.Num
open RTV.Py RTV.Dec

/-- digit values → characters -/
def digitChars (ds : List Nat) : Str := ds.map (· + 48)

/-- the number a digit string denotes, continuing from `n` -/
def natOfDigitsFrom (n : Nat) (ds : List Nat) : Nat := ds.foldl (fun a d => a * 10 + d) n
def natOfDigits (ds : List Nat) : Nat := natOfDigitsFrom 0 ds

/-- What the theorems need from the interpreter's digit table: ASCII digits are digits with their value. -/
structure DigitTab.Ascii (tab : DigitTab) : Prop where
  isDigit : ∀ d, d < 10 → tab.isDigit (d + 48) = true
  value : ∀ d, d < 10 → tab.value (d + 48) = some d
  low : ∀ c, c < 48 → tab.isDigit c = false

theorem asciiDigits_ascii : DigitTab.Ascii asciiDigits where
  isDigit d h := by simp [asciiDigits]; omega
  value d h := by simp [asciiDigits]; omega
  low c h := by simp [asciiDigits]; omega

/-- The separators are ordinary punctuation: not digits, not `-`, not `/`. -/
structure SepCfg.Sane (c : SepCfg) : Prop where
  dec : c.decSep < 48 ∧ c.decSep ≠ 45 ∧ c.decSep ≠ 47
  non : c.nonDecSep < 48 ∧ c.nonDecSep ≠ 45 ∧ c.nonDecSep ≠ 47

theorem natOfDigitsFrom_ge (n : Nat) (ds : List Nat) : n ≤ natOfDigitsFrom n ds := by
  induction ds generalizing n with
  | nil => simp [natOfDigitsFrom]
  | cons d r ih =>
    simp only [natOfDigitsFrom, List.foldl_cons]
    have := ih (n * 10 + d)
    simp only [natOfDigitsFrom] at this
    omega

theorem skip_digit (multiDec : Bool) (d distEnd distStart : Nat) (hs : Bool) (prev non : Nat) (hn : non < 48) :
    skipNonDecimal multiDec (d + 48) distEnd distStart hs prev non = false := by
  unfold skipNonDecimal
  have : (d + 48 == non) = false := by simp; omega
  simp [this]

/-- The loop over a run of ASCII digits before any decimal separator accumulates the integer exactly, while it
has at most `p` digits. -/
theorem dvLoop_digits (p : Nat) (tab : DigitTab) (ht : tab.Ascii) (multiDec : Bool) (dec non : Nat) (hs : Bool)
    (len lead : Nat) (hnon : non < 48) (hp : 1 ≤ p) (rest : Str) (ds : List Nat) (hd : ∀ d ∈ ds, d < 10) :
    ∀ (i prev N : Nat) (ng : Bool) (stk : List Dec), natOfDigitsFrom N ds < 10 ^ p →
      ∃ prev', dvLoop p tab multiDec false dec non hs len lead (digitChars ds ++ rest) i prev
          ⟨⟨false, N, 0⟩, Dec.ofNat 10, false, ng, stk⟩ =
        dvLoop p tab multiDec false dec non hs len lead rest (i + ds.length) prev'
          ⟨⟨false, natOfDigitsFrom N ds, 0⟩, Dec.ofNat 10, false, ng, stk⟩ ∧ (ds = [] → prev' = prev) := by
  induction ds with
  | nil =>
    intro i prev N ng stk _
    exact ⟨prev, by simp [digitChars, natOfDigitsFrom], fun _ => rfl⟩
  | cons d r ih =>
    intro i prev N ng stk hb
    have hd10 : d < 10 := hd d (by simp)
    have hstep : N * 10 + d < 10 ^ p := by
      have := natOfDigitsFrom_ge (N * 10 + d) r
      simp only [natOfDigitsFrom, List.foldl_cons] at hb this
      omega
    have hsk := skip_digit multiDec d (len - i) (i - lead) hs prev non hnon
    have e32 : (d + 48 == 32) = false := by simp
    have enb : (d + 48 == NBSP) = false := by simp [NBSP]; omega
    have e47 : (d + 48 == 47) = false := by simp
    simp only [digitChars, List.map_cons, List.cons_append]
    rw [dvLoop]
    simp only [hsk, e32, enb, e47, Bool.or_self, Bool.and_false, Bool.false_eq_true, if_false, ht.isDigit d hd10,
      ht.value d hd10, Bool.not_false, Bool.true_and, if_true]
    rw [intStep_exact p N d hp hstep]
    obtain ⟨prev', he, _⟩ := ih (fun x hx => hd x (by simp [hx])) (i + 1) (d + 48) (N * 10 + d) ng stk
      (by simpa [natOfDigitsFrom] using hb)
    refine ⟨prev', ?_, by simp⟩
    simp only [digitChars] at he
    rw [he]
    simp only [natOfDigitsFrom, List.foldl_cons, List.length_cons]
    congr 1
    omega

theorem effectiveSeps_sane (c : SepCfg) (hc : c.Sane) (s : Str) :
    (effectiveSeps c s).1 < 48 ∧ (effectiveSeps c s).1 ≠ 45 ∧ (effectiveSeps c s).2.1 < 48 ∧
      (effectiveSeps c s).2.1 ≠ 45 := by
  obtain ⟨⟨d1, d2, _⟩, ⟨n1, n2, _⟩⟩ := hc
  unfold effectiveSeps
  cases c.multiDec <;> cases c.nonStdVariant <;> simp only [Bool.false_eq_true, if_false, if_true] <;>
    (repeat' split) <;> simp_all

theorem contains_digitChars (ds : List Nat) (hd : ∀ d ∈ ds, d < 10) (x : Nat) (hx : x < 48) :
    (digitChars ds).contains x = false := by
  simp only [digitChars, List.contains_eq_mem, List.mem_map, decide_eq_false_iff_not, not_exists, not_and]
  intro d _ h
  omega

/-- `_get_digital_value` on a run of ASCII digits, optionally preceded by `-`, with at most `p` digits: the
integer written, exactly, as a decimal with exponent 0. Holds for every separator configuration. -/
theorem digitalValue_plain (p : Nat) (tab : DigitTab) (ht : tab.Ascii) (c : SepCfg) (hc : c.Sane) (hp : 1 ≤ p)
    (neg : Bool) (ds : List Nat) (hd : ∀ d ∈ ds, d < 10) (hb : natOfDigits ds < 10 ^ p) :
    digitalValue p tab c ((if neg then [45] else []) ++ digitChars ds) 1 = .ok ⟨neg, natOfDigits ds, 0⟩ := by
  have hfr : ((if neg then [45] else []) ++ digitChars ds).contains 47 = false := by
    have := contains_digitChars ds hd 47 (by omega)
    cases neg <;> simp_all [List.contains_eq_mem]
  obtain ⟨h1, h2, h3, h4⟩ := effectiveSeps_sane c hc ((if neg then [45] else []) ++ digitChars ds)
  unfold digitalValue
  simp only [hfr]
  generalize effectiveSeps c ((if neg then [45] else []) ++ digitChars ds) = es at h1 h2 h3 h4
  obtain ⟨dec, non, hs⟩ := es
  simp only at h1 h2 h3 h4
  generalize ((if neg then [45] else []) ++ digitChars ds).length = len
  generalize leadLen ((if neg then [45] else []) ++ digitChars ds) = lead
  cases neg
  · -- no sign
    obtain ⟨prev', he, _⟩ := dvLoop_digits p tab ht c.multiDec dec non hs len lead h3 hp [] ds hd 0 0 0 false []
      (by simpa [natOfDigits] using hb)
    simp only [List.append_nil] at he
    simp only [Bool.false_eq_true, if_false, List.nil_append]
    have e0 : ({} : DVState) = ⟨⟨false, 0, 0⟩, Dec.ofNat 10, false, false, []⟩ := rfl
    rw [e0, he, dvLoop]
    simp only [dvFinish, bind, Except.bind, pure, Except.pure, Bool.false_eq_true, if_false, List.reverse_cons,
      List.reverse_nil, List.nil_append, List.foldl_cons, List.foldl_nil]
    rw [add_zero_left p _ hp (by simpa [natOfDigits] using hb), mul_one_right p _ _ hp (by simpa [natOfDigits] using hb)]
    rfl
  · -- leading '-'
    simp only [if_true, List.cons_append, List.nil_append]
    rw [dvLoop]
    have hsk : skipNonDecimal c.multiDec 45 (len - 0) (0 - lead) hs 0 non = false := by
      unfold skipNonDecimal
      have : (45 == non) = false := by simp; omega
      simp [this]
    have e1 : (45 == dec) = false := by simp; omega
    have e2 : (45 == non) = false := by simp; omega
    simp only [hsk, ht.low 45 (by decide), e1, e2, NBSP]
    simp only [Bool.false_eq_true, if_false, Bool.or_self, Bool.and_false, Bool.not_false, Bool.and_true,
      BEq.rfl, if_true, Nat.reduceBEq]
    obtain ⟨prev', he, _⟩ := dvLoop_digits p tab ht c.multiDec dec non hs len lead h3 hp [] ds hd 1 45 0 true []
      (by simpa [natOfDigits] using hb)
    simp only [List.append_nil] at he
    have e0 : ({ ({} : DVState) with negative := true }) = ⟨⟨false, 0, 0⟩, Dec.ofNat 10, false, true, []⟩ := rfl
    rw [e0, he, dvLoop]
    simp only [dvFinish, bind, Except.bind, pure, Except.pure, Bool.false_eq_true, if_false, List.reverse_cons,
      List.reverse_nil, List.nil_append, List.foldl_cons, List.foldl_nil, if_true]
    rw [add_zero_left p _ hp (by simpa [natOfDigits] using hb), mul_one_right p _ _ hp (by simpa [natOfDigits] using hb),
      mul_neg_one p _ hp (by simpa [natOfDigits] using hb)]
    rfl

/-! ### general literals: integer part with inert characters, decimal separator, fraction digits -/

/-- the digits among the characters of the integer part -/
def charDigits (cs : Str) : List Nat := cs.filterMap fun c => if 48 ≤ c && c ≤ 57 then some (c - 48) else none

/-- every character of the integer part, at its own position, is an ASCII digit or a mark that
`__skip_non_decimal_separator` skips there -/
def IntPart (multiDec : Bool) (non : Nat) (hs : Bool) (len lead : Nat) : Nat → Nat → Str → Prop
  | _, _, [] => True
  | i, prev, c :: r =>
    ((∃ d, d < 10 ∧ c = d + 48) ∨ (c < 48 ∧ skipNonDecimal multiDec c (len - i) (i - lead) hs prev non = true)) ∧
      IntPart multiDec non hs len lead (i + 1) c r

theorem charDigits_digit (d : Nat) (r : Str) (h : d < 10) : charDigits ((d + 48) :: r) = d :: charDigits r := by
  have hc : (48 ≤ d + 48 && d + 48 ≤ 57) = true := by simp; omega
  unfold charDigits
  rw [List.filterMap_cons, if_pos hc]
  simp

theorem charDigits_low (c : Nat) (r : Str) (h : c < 48) : charDigits (c :: r) = charDigits r := by
  have hc : ¬ ((48 ≤ c && c ≤ 57) = true) := by simp; omega
  unfold charDigits
  rw [List.filterMap_cons, if_neg hc]

theorem dvLoop_intpart (p : Nat) (tab : DigitTab) (ht : tab.Ascii) (multiDec : Bool) (dec non : Nat) (hs : Bool)
    (len lead : Nat) (hnon : non < 48) (hp : 1 ≤ p) (rest : Str) (cs : Str) :
    ∀ (i prev N : Nat) (ng : Bool) (stk : List Dec), IntPart multiDec non hs len lead i prev cs →
      natOfDigitsFrom N (charDigits cs) < 10 ^ p →
      ∃ prev', dvLoop p tab multiDec false dec non hs len lead (cs ++ rest) i prev
          ⟨⟨false, N, 0⟩, Dec.ofNat 10, false, ng, stk⟩ =
        dvLoop p tab multiDec false dec non hs len lead rest (i + cs.length) prev'
          ⟨⟨false, natOfDigitsFrom N (charDigits cs), 0⟩, Dec.ofNat 10, false, ng, stk⟩ := by
  induction cs with
  | nil =>
    intro i prev N ng stk _ _
    exact ⟨prev, by simp [charDigits, natOfDigitsFrom]⟩
  | cons c r ih =>
    intro i prev N ng stk hI hb
    obtain ⟨hc, hI'⟩ := hI
    rcases hc with ⟨d, hd10, hcd⟩ | ⟨hlow, hskip⟩
    · subst hcd
      have hcd := charDigits_digit d r hd10
      rw [hcd] at hb ⊢
      have hstep : N * 10 + d < 10 ^ p := by
        have := natOfDigitsFrom_ge (N * 10 + d) (charDigits r)
        simp only [natOfDigitsFrom, List.foldl_cons] at hb this
        omega
      have hsk := skip_digit multiDec d (len - i) (i - lead) hs prev non hnon
      have e32 : (d + 48 == 32) = false := by simp
      have enb : (d + 48 == NBSP) = false := by simp [NBSP]; omega
      have e47 : (d + 48 == 47) = false := by simp
      simp only [List.cons_append]
      rw [dvLoop]
      simp only [hsk, e32, enb, e47, Bool.or_self, Bool.and_false, Bool.false_eq_true, if_false, ht.isDigit d hd10,
        ht.value d hd10, Bool.not_false, Bool.true_and, if_true]
      rw [intStep_exact p N d hp hstep]
      obtain ⟨prev', he⟩ := ih (i + 1) (d + 48) (N * 10 + d) ng stk hI' (by simpa [natOfDigitsFrom] using hb)
      refine ⟨prev', ?_⟩
      rw [he]
      simp only [natOfDigitsFrom, List.foldl_cons, List.length_cons]
      congr 1
      omega
    · have hcd := charDigits_low c r hlow
      rw [hcd] at hb ⊢
      simp only [List.cons_append]
      rw [dvLoop]
      simp only [hskip, Bool.or_true, Bool.not_false, Bool.and_self, if_true]
      obtain ⟨prev', he⟩ := ih (i + 1) c N ng stk hI' hb
      refine ⟨prev', ?_⟩
      rw [he]
      simp only [List.length_cons]
      congr 1
      omega

/-- the fraction digits: each step adds `d / 10^j` exactly and moves the scale one place down -/
theorem dvLoop_frac (tab : DigitTab) (ht : tab.Ascii) (multiDec : Bool) (dec non : Nat) (hs : Bool)
    (len lead : Nat) (hnon : non < 48) (fs : List Nat) (hd : ∀ d ∈ fs, d < 10) :
    ∀ (i prev M j : Nat) (tmp : Dec) (ng : Bool) (stk : List Dec), Dec.Rep tmp M j →
      natOfDigitsFrom M fs < 10 ^ 15 →
      ∃ tmp', dvLoop 15 tab multiDec false dec non hs len lead (digitChars fs) i prev
          ⟨tmp, Dec.scaleAt (j + 1), true, ng, stk⟩ = .ok ⟨tmp', Dec.scaleAt (j + fs.length + 1), true, ng, stk⟩ ∧
        Dec.Rep tmp' (natOfDigitsFrom M fs) (j + fs.length) := by
  induction fs with
  | nil =>
    intro i prev M j tmp ng stk hr _
    exact ⟨tmp, by simp [digitChars, dvLoop], by simpa [natOfDigitsFrom] using hr⟩
  | cons d r ih =>
    intro i prev M j tmp ng stk hr hb
    have hd10 : d < 10 := hd d (by simp)
    have hstep : M * 10 + d < 10 ^ 15 := by
      have := natOfDigitsFrom_ge (M * 10 + d) r
      simp only [natOfDigitsFrom, List.foldl_cons] at hb this
      omega
    have hsk := skip_digit multiDec d (len - i) (i - lead) hs prev non hnon
    have e32 : (d + 48 == 32) = false := by simp
    have enb : (d + 48 == NBSP) = false := by simp [NBSP]; omega
    have e47 : (d + 48 == 47) = false := by simp
    simp only [digitChars, List.map_cons]
    rw [dvLoop]
    simp only [hsk, e32, enb, e47, Bool.or_self, Bool.and_false, Bool.false_eq_true, if_false, ht.isDigit d hd10,
      ht.value d hd10, if_true]
    have hadd := Dec.add_rep 15 tmp _ (M * 10) d (j + 1) (by decide) (Dec.rep_shift tmp M j hr)
      (Dec.addend_rep (j + 1) d (by omega) hd10) hstep
    rw [Dec.scale_step (j + 1) (by omega)]
    obtain ⟨tmp', he, hr'⟩ := ih (fun x hx => hd x (by simp [hx])) (i + 1) (d + 48) (M * 10 + d) (j + 1) _ ng stk hadd
      (by simpa [natOfDigitsFrom] using hb)
    refine ⟨tmp', ?_, ?_⟩
    · simp only [digitChars] at he
      rw [he]
      simp only [List.length_cons]
      congr 3
      omega
    · simp only [natOfDigitsFrom, List.foldl_cons, List.length_cons]
      have : j + (r.length + 1) = j + 1 + r.length := by omega
      rw [this]
      exact hr'

/-- the tail of `_get_digital_value` keeps an exact value exact and restores the sign -/
theorem dvFinish_rep (tmp : Dec) (ng : Bool) (M k : Nat) (hr : Dec.Rep tmp M k) (hM : M < 10 ^ 15) :
    ∃ r, dvFinish 15 false ⟨tmp, sc, hd, ng, []⟩ 1 = .ok r ∧ r.neg = ng ∧ r.exp ≤ 0 ∧
      r.coeff * 10 ^ k = M * 10 ^ (-r.exp).toNat := by
  have h1 := Dec.add_rep 15 Dec.zero tmp 0 M k (by decide) (Dec.rep_zero k) hr (by omega)
  rw [Nat.zero_add] at h1
  have h2 := Dec.mul_one_rep 15 _ M k (by decide) h1 hM
  simp only [dvFinish, bind, Except.bind, pure, Except.pure, Bool.false_eq_true, if_false, List.reverse_cons,
    List.reverse_nil, List.nil_append, List.foldl_cons, List.foldl_nil]
  generalize Dec.mul 15 (Dec.add 15 Dec.zero tmp) (Dec.ofNat 1) = cal at h2
  obtain ⟨cn, cc, ce⟩ := cal
  obtain ⟨hn, he, hv⟩ := h2
  simp only at hn he hv
  subst hn
  cases ng
  · exact ⟨_, rfl, rfl, he, hv⟩
  · simp only [if_true]
    have hm : Dec.mul 15 ⟨false, cc, ce⟩ (Dec.ofInt (-1)) = { Dec.fix 15 ⟨false, cc, ce⟩ with neg := true } := by
      simp only [Dec.mul, Dec.ofInt]
      simp
      exact Dec.fix_neg 15 cc ce
    rw [hm]
    obtain ⟨_, fe, fv⟩ := Dec.fix_rep 15 cc ce M k (by decide) hM ⟨rfl, he, hv⟩
    exact ⟨_, rfl, rfl, fe, fv⟩

/-- **General literal.** `text = sign ++ ints ++ (dec' :: fraction digits)` where every character of `ints` is an
ASCII digit or a mark that is skipped at its position under the separators in force `(dec', non', hs)`, with at
most 15 digits in all: `_get_digital_value` returns a decimal that denotes exactly
`± digits / 10^(number of fraction digits)`. -/
theorem digitalValue_general (tab : DigitTab) (ht : tab.Ascii) (c : SepCfg) (neg hasFrac : Bool) (ints : Str)
    (fs : List Nat) (dec' non' : Nat) (hs : Bool)
    (hes : effectiveSeps c ((if neg then [45] else []) ++ ints ++ (if hasFrac then dec' :: digitChars fs else [])) =
      (dec', non', hs))
    (hfr : ((if neg then [45] else []) ++ ints ++ (if hasFrac then dec' :: digitChars fs else [])).contains 47 = false)
    (hint : IntPart c.multiDec non' hs
      ((if neg then [45] else []) ++ ints ++ (if hasFrac then dec' :: digitChars fs else [])).length
      (leadLen ((if neg then [45] else []) ++ ints ++ (if hasFrac then dec' :: digitChars fs else [])))
      (if neg then 1 else 0) (if neg then 45 else 0) ints)
    (hdec : dec' < 48 ∧ dec' ≠ 45 ∧ dec' ≠ 32 ∧ dec' ≠ non') (hnon : non' < 48 ∧ non' ≠ 45)
    (hfs : ∀ d ∈ fs, d < 10) (hnf : hasFrac = false → fs = [])
    (hb : natOfDigitsFrom (natOfDigits (charDigits ints)) fs < 10 ^ 15) :
    ∃ r, digitalValue 15 tab c ((if neg then [45] else []) ++ ints ++
        (if hasFrac then dec' :: digitChars fs else [])) 1 = .ok r ∧
      r.neg = neg ∧ r.exp ≤ 0 ∧
      r.coeff * 10 ^ fs.length = natOfDigitsFrom (natOfDigits (charDigits ints)) fs * 10 ^ (-r.exp).toNat := by
  obtain ⟨hd1, hd2, hd3, hd4⟩ := hdec
  obtain ⟨hn1, hn2⟩ := hnon
  unfold digitalValue
  simp only [hfr, hes]
  generalize ((if neg then [45] else []) ++ ints ++ (if hasFrac then dec' :: digitChars fs else [])).length = len at *
  generalize leadLen ((if neg then [45] else []) ++ ints ++ (if hasFrac then dec' :: digitChars fs else [])) = lead at *
  have hNb : natOfDigitsFrom 0 (charDigits ints) < 10 ^ 15 := by
    have := natOfDigitsFrom_ge (natOfDigits (charDigits ints)) fs
    simp only [natOfDigits] at this hb
    omega
  -- the state after the sign
  have hsign : ∃ prev0, dvLoop 15 tab c.multiDec false dec' non' hs len lead
      ((if neg then [45] else []) ++ ints ++ (if hasFrac then dec' :: digitChars fs else [])) 0 0 {} =
      dvLoop 15 tab c.multiDec false dec' non' hs len lead
        (ints ++ (if hasFrac then dec' :: digitChars fs else [])) (if neg then 1 else 0) prev0
        ⟨⟨false, 0, 0⟩, Dec.ofNat 10, false, neg, []⟩ ∧ prev0 = (if neg then 45 else 0) := by
    cases neg
    · exact ⟨0, by simp; rfl, rfl⟩
    · refine ⟨45, ?_, rfl⟩
      simp only [if_true, List.cons_append, List.nil_append]
      rw [dvLoop]
      have hsk : skipNonDecimal c.multiDec 45 (len - 0) (0 - lead) hs 0 non' = false := by
        unfold skipNonDecimal
        have : (45 == non') = false := by simp; omega
        simp [this]
      have e1 : (45 == dec') = false := by simp; omega
      have e2 : (45 == non') = false := by simp; omega
      simp only [hsk, ht.low 45 (by decide), e1, e2, NBSP]
      simp only [Bool.false_eq_true, if_false, Bool.or_self, Bool.and_false, Bool.not_false, BEq.rfl, if_true,
        Nat.reduceBEq]
      rfl
  obtain ⟨prev0, hs1, hp0⟩ := hsign
  rw [hs1]
  subst hp0
  obtain ⟨prev1, hs2⟩ := dvLoop_intpart 15 tab ht c.multiDec dec' non' hs len lead hn1 (by decide)
    (if hasFrac then dec' :: digitChars fs else []) ints _ _ 0 neg [] hint hNb
  rw [hs2]
  cases hasFrac
  · -- no fraction
    have hfs0 := hnf rfl
    subst hfs0
    simp only [Bool.false_eq_true, if_false, dvLoop, bind, Except.bind]
    obtain ⟨r, h1, h2, h3, h4⟩ := dvFinish_rep (sc := Dec.ofNat 10) (hd := false)
      ⟨false, natOfDigitsFrom 0 (charDigits ints), 0⟩ neg _ 0 (Dec.rep_int _) hNb
    exact ⟨r, h1, h2, h3, by simpa [natOfDigitsFrom, natOfDigits] using h4⟩
  · -- decimal separator, then the fraction digits
    simp only [if_true]
    rw [dvLoop]
    have hsk : ∀ a b q, skipNonDecimal c.multiDec dec' a b hs q non' = false := by
      intro a b q
      unfold skipNonDecimal
      have : (dec' == non') = false := by simp; omega
      simp [this]
    have e32 : (dec' == 32) = false := by simp; omega
    have enb : (dec' == NBSP) = false := by simp [NBSP]; omega
    have e47 : (dec' == 47) = false := by
      have := hfr
      simp only [if_true, List.contains_eq_mem, List.mem_append, List.mem_cons, decide_eq_false_iff_not] at this
      simp
      intro h
      exact this (Or.inr (Or.inl h.symm))
    simp only [hsk, e32, enb, e47, ht.low dec' hd1, Bool.or_self, Bool.and_false, Bool.false_eq_true, if_false,
      BEq.rfl, Bool.true_or, if_true]
    have hsc : Dec.pointOne = Dec.scaleAt (0 + 1) := by simp [Dec.scaleAt]
    rw [hsc]
    obtain ⟨tmp', hl, hr⟩ := dvLoop_frac tab ht c.multiDec dec' non' hs len lead hn1 fs hfs _ dec'
      (natOfDigitsFrom 0 (charDigits ints)) 0 ⟨false, natOfDigitsFrom 0 (charDigits ints), 0⟩ neg []
      (Dec.rep_int _) (by simpa [natOfDigits] using hb)
    rw [hl]
    simp only [bind, Except.bind]
    obtain ⟨r, h1, h2, h3, h4⟩ := dvFinish_rep (sc := Dec.scaleAt (0 + fs.length + 1)) (hd := true) tmp' neg _
      (0 + fs.length) hr (by simpa [natOfDigits] using hb)
    exact ⟨r, h1, h2, h3, by simpa [natOfDigits] using h4⟩

/-- decidable readings of results (closed instances are proved by kernel evaluation) -/
def isOkStr (r : Except Err Str) (s : Str) : Bool :=
  match r with
  | .ok t => t == s
  | .error _ => false

def isOkDec (r : Except Err Dec) (d : Dec) : Bool :=
  match r with
  | .ok t => decide (t = d)
  | .error _ => false

theorem isOkStr_iff (r : Except Err Str) (s : Str) : isOkStr r s = true ↔ r = .ok s := by
  cases r <;> simp [isOkStr]

theorem isOkDec_iff (r : Except Err Dec) (d : Dec) : isOkDec r d = true ↔ r = .ok d := by
  cases r <;> simp [isOkDec]

end RTV.Num
