import RTV.Model.TimexCfg
import RTV.Lemmas.Cal
/-! Helper lemmas for the L7 `Timex` properties (C14, C15). -/
namespace RTV.Timex
open RTV.Py RTV.Cal

deriving instance DecidableEq for Except

theorem fmod7 (a : Int) : a.fmod 7 = a % 7 := Int.fmod_eq_emod_of_nonneg a (by omega)

/-- `date ± timedelta(days=k)` inside 0001-01-01 … 9999-12-31 -/
theorem addDays_ok (d : Date) (k : Int) (h1 : 1 ≤ (d.ord : Int) + k) (h2 : (d.ord : Int) + k ≤ maxOrd)
    (h3 : k.natAbs ≤ 999999999) : addDays d k = .ok (Date.ofOrd ((d.ord : Int) + k).toNat) := by
  unfold addDays Date.addDays addDaysOrd
  have : ¬ (k.natAbs > 999999999) := by omega
  simp [this, h1, h2]
  rfl

theorem weekday_lt (d : Date) : d.weekday < 7 := by unfold Date.weekday weekdayOrd; omega

/-- `date_of_last_day(day, ref)` for a reference at least 8 days after 0001-01-01 -/
theorem dateOfLastDay_ok (day : Int) (ref : Date) (hlo : 8 ≤ ref.ord) (hhi : ref.ord ≤ maxOrd) :
    dateOfLastDay day ref =
      .ok (Date.ofOrd (ref.ord - (((6 - day + weekdayOrd ref.ord) % 7) + 1).toNat)) := by
  unfold dateOfLastDay
  rw [fmod7, addDays_ok]
  · congr 2
    unfold Date.weekday
    omega
  · unfold Date.weekday; omega
  · unfold Date.weekday maxOrd at *; omega
  · unfold Date.weekday; omega

theorem dateOfNextDay_ok (day : Int) (ref : Date) (hlo : 1 ≤ ref.ord) (hhi : ref.ord + 7 ≤ maxOrd) :
    dateOfNextDay day ref =
      .ok (Date.ofOrd (ref.ord + (((6 + day - weekdayOrd ref.ord) % 7) + 1).toNat)) := by
  unfold dateOfNextDay
  rw [fmod7, addDays_ok]
  · congr 2
    unfold Date.weekday
    omega
  · unfold Date.weekday; omega
  · unfold Date.weekday maxOrd at *; omega
  · unfold Date.weekday; omega

/-! ## `str(int)` -/

theorem nstrAux_fuel : ∀ (f g n : Nat) (acc : Str), n < f → n < g → nstrAux f n acc = nstrAux g n acc := by
  intro f
  induction f with
  | zero => intro g n acc h; omega
  | succ f ih =>
    intro g n acc hf hg
    cases g with
    | zero => omega
    | succ g =>
      unfold nstrAux
      split
      · rfl
      · exact ih g (n / 10) _ (by omega) (by omega)

theorem nstrAux_acc : ∀ (f n : Nat) (acc : Str), nstrAux f n acc = nstrAux f n [] ++ acc := by
  intro f
  induction f with
  | zero => intro n acc; simp [nstrAux]
  | succ f ih =>
    intro n acc
    unfold nstrAux
    split
    · simp
    · rw [ih (n / 10) ((48 + n % 10) :: acc), ih (n / 10) [48 + n % 10]]
      simp

theorem nstr_lt10 (n : Nat) (h : n < 10) : nstr n = [48 + n] := by
  simp [nstr, nstrAux, h]

theorem nstr_ge10 (n : Nat) (h : 10 ≤ n) : nstr n = nstr (n / 10) ++ [48 + n % 10] := by
  have h' : ¬ n < 10 := by omega
  rw [nstr, nstrAux, if_neg h', nstrAux_acc, nstr]
  rw [nstrAux_fuel n (n / 10 + 1) (n / 10) [] (by omega) (by omega)]

theorem nstr_ne_nil (n : Nat) : nstr n ≠ [] := by
  by_cases h : n < 10
  · simp [nstr_lt10 n h]
  · rw [nstr_ge10 n (by omega)]; simp

theorem istr_nat (n : Nat) : istr (n : Int) = nstr n := by
  unfold istr
  have : ¬ ((n : Int) < 0) := by omega
  simp [this]

/-- `fixed_format_number(n, 2)` for `n < 100`: the two decimal digits -/
theorem fixed2 (n : Nat) (h : n < 100) :
    fixedFormat (some (.int n)) 2 = [48 + n / 10, 48 + n % 10] := by
  simp only [fixedFormat, optStr, Num.str]
  rw [istr_nat]
  by_cases h1 : n < 10
  · rw [nstr_lt10 n h1]
    have : n / 10 = 0 := by omega
    have : n % 10 = n := by omega
    simp [rjust0, *]
  · rw [nstr_ge10 n (by omega), nstr_lt10 (n / 10) (by omega)]
    simp [rjust0]

/-- `fixed_format_number(n, 4)` for `n < 10000`: the four decimal digits -/
theorem fixed4 (n : Nat) (h : n < 10000) :
    fixedFormat (some (.int n)) 4 = [48 + n / 1000, 48 + n / 100 % 10, 48 + n / 10 % 10, 48 + n % 10] := by
  simp only [fixedFormat, optStr, Num.str]
  rw [istr_nat]
  by_cases h1 : n < 10
  · rw [nstr_lt10 n h1]
    have : n / 1000 = 0 := by omega
    have : n / 100 % 10 = 0 := by omega
    have : n / 10 % 10 = 0 := by omega
    have : n % 10 = n := by omega
    simp [rjust0, List.replicate, *]
  · by_cases h2 : n < 100
    · rw [nstr_ge10 n (by omega), nstr_lt10 (n / 10) (by omega)]
      have : n / 1000 = 0 := by omega
      have : n / 100 % 10 = 0 := by omega
      have : n / 10 % 10 = n / 10 := by omega
      simp [rjust0, List.replicate, *]
    · by_cases h3 : n < 1000
      · rw [nstr_ge10 n (by omega), nstr_ge10 (n / 10) (by omega), nstr_lt10 (n / 10 / 10) (by omega)]
        have : n / 1000 = 0 := by omega
        have : n / 10 / 10 = n / 100 % 10 := by omega
        simp [rjust0, List.replicate, *]
      · rw [nstr_ge10 n (by omega), nstr_ge10 (n / 10) (by omega), nstr_ge10 (n / 10 / 10) (by omega),
          nstr_lt10 (n / 10 / 10 / 10) (by omega)]
        have : n / 10 / 10 / 10 = n / 1000 := by omega
        have : n / 10 / 10 % 10 = n / 100 % 10 := by omega
        simp [rjust0, *]

/-- `str(Decimal(n))` for an integral Decimal with exponent 0 is the plain digit string -/
theorem decStr_int (c : Nat) : decStr false c 0 = nstr c := by
  have hne := nstr_ne_nil c
  have hlen : 0 < (nstr c).length := List.length_pos_iff.mpr hne
  unfold decStr
  have h1 : ((0 : Int) ≤ 0 ∧ (0 : Int) + ((nstr c).length : Int) > -6) := by omega
  simp only [h1, if_true, and_self]
  have h2 : ¬ ((0 : Int) + ((nstr c).length : Int) ≤ 0) := by omega
  simp [hne]

/-! ## digit strings -/

/-- all characters are digits with ASCII values (what `nstr` produces and what the theorems feed the parser) -/
def AsciiDigs (s : Str) : Prop := ∀ c ∈ s, 48 ≤ c ∧ c ≤ 57

theorem nstr_ascii (n : Nat) : AsciiDigs (nstr n) := by
  induction n using Nat.strongRecOn with
  | _ n ih =>
    by_cases h : n < 10
    · rw [nstr_lt10 n h]; intro c hc; simp at hc; omega
    · rw [nstr_ge10 n (by omega)]
      intro c hc
      rcases List.mem_append.mp hc with hc | hc
      · exact ih (n / 10) (by omega) c hc
      · simp at hc; omega

theorem dv_ascii {dv : Nat → Option Nat} (h : DvOK dv) (c : Nat) (hc : 48 ≤ c ∧ c ≤ 57) : dv c = some (c - 48) := by
  have := h.1 (c - 48) (by omega)
  rwa [show 48 + (c - 48) = c by omega] at this

theorem takeDigits_append {dv : Nat → Option Nat} (h : DvOK dv) (s rest : Str) (hs : AsciiDigs s) :
    takeDigits dv (s ++ rest) = s ++ takeDigits dv rest := by
  induction s with
  | nil => rfl
  | cons c r ih =>
    have hc := hs c (by simp)
    simp [takeDigits, isDig, dv_ascii h c hc, ih (fun x hx => hs x (by simp [hx]))]

theorem takeDigits_nondigit {dv : Nat → Option Nat} (c : Nat) (rest : Str) (hc : dv c = none) :
    takeDigits dv (c :: rest) = [] := by
  simp [takeDigits, isDig, hc]

theorem parseNatDv_append (dv : Nat → Option Nat) (a : Str) (c : Nat) :
    parseNatDv dv (a ++ [c]) = parseNatDv dv a * 10 + (dv c).getD 0 := by
  simp [parseNatDv, List.foldl_append]

/-- `int(str(n)) = n` -/
theorem parseNatDv_nstr {dv : Nat → Option Nat} (h : DvOK dv) (n : Nat) : parseNatDv dv (nstr n) = n := by
  induction n using Nat.strongRecOn with
  | _ n ih =>
    by_cases hn : n < 10
    · rw [nstr_lt10 n hn]; simp [parseNatDv, h.1 n hn]
    · rw [nstr_ge10 n (by omega), parseNatDv_append, ih (n / 10) (by omega), h.1 (n % 10) (by omega)]
      simp; omega

/-- `(?P<amount>\\d*\\.?\\d+)` on a non-empty ASCII digit string followed by a unit letter -/
theorem matchAmount_int {dv : Nat → Option Nat} (h : DvOK dv) (s : Str) (u : Nat) (rest : Str) (hs : AsciiDigs s)
    (hne : s ≠ []) (hu : dv u = none) (hu46 : u ≠ 46) :
    matchAmount dv (s ++ u :: rest) = some (s, u :: rest) := by
  unfold matchAmount
  rw [takeDigits_append h s _ hs, takeDigits_nondigit u rest hu]
  simp only [List.append_nil, List.drop_left]
  split
  · rename_i heq; simp at heq; exact absurd heq.1 hu46
  · cases s with
    | nil => exact absurd rfl hne
    | cons a r => simp

/-- `Decimal(s)` for an ASCII digit string -/
theorem parseDecimal_int {dv : Nat → Option Nat} (h : DvOK dv) (s : Str) (hs : AsciiDigs s) :
    parseDecimal dv s = .dec false (parseNatDv dv s) 0 := by
  unfold parseDecimal
  have := takeDigits_append h s [] hs
  simp only [List.append_nil] at this
  simp [this, takeDigits]

/-! ## ISO renderings -/

def d2 (n : Nat) : Str := [48 + n / 10, 48 + n % 10]
def d4 (n : Nat) : Str := [48 + n / 1000, 48 + n / 100 % 10, 48 + n / 10 % 10, 48 + n % 10]

/-- `YYYY-MM-DD` -/
def isoDateStr (d : Date) : Str := d4 d.y ++ 45 :: d2 d.m ++ 45 :: d2 d.d

/-- `Thh`, `Thh:mm` or `Thh:mm:ss`: trailing zero parts are dropped -/
def isoTimeStr (h m s : Nat) : Str :=
  if m = 0 ∧ s = 0 then 84 :: d2 h
  else if s = 0 then 84 :: d2 h ++ 58 :: d2 m
  else 84 :: d2 h ++ 58 :: d2 m ++ 58 :: d2 s

theorem valid_bounds (d : Date) (hv : d.valid = true) : d.y < 10000 ∧ d.m < 100 ∧ d.d < 100 := by
  rw [valid_iff] at hv
  obtain ⟨_, h2, _, h4, _, h6⟩ := hv
  have : daysInMonth d.y d.m ≤ 31 := by
    unfold daysInMonth; split <;> try split
    all_goals omega
  omega


/-- `Timex.from_date(d).timex_value()` is `YYYY-MM-DD` for every valid date -/
theorem format_fromDate (d : Date) (hv : d.valid = true) :
    formatT (Timex.fromDate d) = .ok (isoDateStr d) := by
  obtain ⟨hy, hm, hd⟩ := valid_bounds d hv
  simp [formatT, formatFuel, Timex.fromDate, infer, isDate, isDateRange, isDuration, isTime, isDefinite, truthyO,
    truthyS, formatDate, andChainNotNone, fixed4 d.y hy, fixed2 d.m hm, fixed2 d.d hd, isoDateStr, d2, d4,
    bind, Except.bind, pure, Except.pure]

end RTV.Timex
