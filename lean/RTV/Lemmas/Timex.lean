import RTV.Model.TimexCfg
import RTV.Lemmas.Cal
/-! Helper lemmas for the L7 `Timex` properties (C14, C15). -/
namespace RTV.Timex
open RTV.Py RTV.Cal

deriving instance DecidableEq for Except

theorem fmod7 (a : Int) : a.fmod 7 = a % 7 := Int.fmod_eq_emod_of_nonneg a (by omega)

/-- `date ± timedelta(days=k)` inside 0001-01-01 … 9999-12-31 -/
theorem addDays_ok (d : Date) (k : Int) (h1 : 1 ≤ (d.ord : Int) + k) (h2 : (d.ord : Int) + k ≤ maxOrd)
    (h3 : k.natAbs ≤ 999999999) : addDays d k = .ok (Date.ofOrd ((d.ord : Int) + k).toNat) := by
  unfold addDays Date.addDays addDaysOrd
  have : ¬ (k.natAbs > 999999999) := by omega
  simp [this, h1, h2]
  rfl

theorem weekday_lt (d : Date) : d.weekday < 7 := by unfold Date.weekday weekdayOrd; omega

/-- `date_of_last_day(day, ref)` for a reference at least 8 days after 0001-01-01 -/
theorem dateOfLastDay_ok (day : Int) (ref : Date) (hlo : 8 ≤ ref.ord) (hhi : ref.ord ≤ maxOrd) :
    dateOfLastDay day ref =
      .ok (Date.ofOrd (ref.ord - (((6 - day + weekdayOrd ref.ord) % 7) + 1).toNat)) := by
  unfold dateOfLastDay
  rw [fmod7, addDays_ok]
  · congr 2
    unfold Date.weekday
    omega
  · unfold Date.weekday; omega
  · unfold Date.weekday maxOrd at *; omega
  · unfold Date.weekday; omega

theorem dateOfNextDay_ok (day : Int) (ref : Date) (hlo : 1 ≤ ref.ord) (hhi : ref.ord + 7 ≤ maxOrd) :
    dateOfNextDay day ref =
      .ok (Date.ofOrd (ref.ord + (((6 + day - weekdayOrd ref.ord) % 7) + 1).toNat)) := by
  unfold dateOfNextDay
  rw [fmod7, addDays_ok]
  · congr 2
    unfold Date.weekday
    omega
  · unfold Date.weekday; omega
  · unfold Date.weekday maxOrd at *; omega
  · unfold Date.weekday; omega

/-! ## `str(int)` -/

theorem nstrAux_fuel : ∀ (f g n : Nat) (acc : Str), n < f → n < g → nstrAux f n acc = nstrAux g n acc := by
  intro f
  induction f with
  | zero => intro g n acc h; omega
  | succ f ih =>
    intro g n acc hf hg
    cases g with
    | zero => omega
    | succ g =>
      unfold nstrAux
      split
      · rfl
      · exact ih g (n / 10) _ (by omega) (by omega)

theorem nstrAux_acc : ∀ (f n : Nat) (acc : Str), nstrAux f n acc = nstrAux f n [] ++ acc := by
  intro f
  induction f with
  | zero => intro n acc; simp [nstrAux]
  | succ f ih =>
    intro n acc
    unfold nstrAux
    split
    · simp
    · rw [ih (n / 10) ((48 + n % 10) :: acc), ih (n / 10) [48 + n % 10]]
      simp

theorem nstr_lt10 (n : Nat) (h : n < 10) : nstr n = [48 + n] := by
  simp [nstr, nstrAux, h]

theorem nstr_ge10 (n : Nat) (h : 10 ≤ n) : nstr n = nstr (n / 10) ++ [48 + n % 10] := by
  have h' : ¬ n < 10 := by omega
  rw [nstr, nstrAux, if_neg h', nstrAux_acc, nstr]
  rw [nstrAux_fuel n (n / 10 + 1) (n / 10) [] (by omega) (by omega)]

theorem nstr_ne_nil (n : Nat) : nstr n ≠ [] := by
  by_cases h : n < 10
  · simp [nstr_lt10 n h]
  · rw [nstr_ge10 n (by omega)]; simp

theorem istr_nat (n : Nat) : istr (n : Int) = nstr n := by
  unfold istr
  have : ¬ ((n : Int) < 0) := by omega
  simp [this]

/-- `fixed_format_number(n, 2)` for `n < 100`: the two decimal digits -/
theorem fixed2 (n : Nat) (h : n < 100) :
    fixedFormat (some (.int n)) 2 = [48 + n / 10, 48 + n % 10] := by
  simp only [fixedFormat, optStr, Num.str]
  rw [istr_nat]
  by_cases h1 : n < 10
  · rw [nstr_lt10 n h1]
    have : n / 10 = 0 := by omega
    have : n % 10 = n := by omega
    simp [rjust0, *]
  · rw [nstr_ge10 n (by omega), nstr_lt10 (n / 10) (by omega)]
    simp [rjust0]

/-- `fixed_format_number(n, 4)` for `n < 10000`: the four decimal digits -/
theorem fixed4 (n : Nat) (h : n < 10000) :
    fixedFormat (some (.int n)) 4 = [48 + n / 1000, 48 + n / 100 % 10, 48 + n / 10 % 10, 48 + n % 10] := by
  simp only [fixedFormat, optStr, Num.str]
  rw [istr_nat]
  by_cases h1 : n < 10
  · rw [nstr_lt10 n h1]
    have : n / 1000 = 0 := by omega
    have : n / 100 % 10 = 0 := by omega
    have : n / 10 % 10 = 0 := by omega
    have : n % 10 = n := by omega
    simp [rjust0, List.replicate, *]
  · by_cases h2 : n < 100
    · rw [nstr_ge10 n (by omega), nstr_lt10 (n / 10) (by omega)]
      have : n / 1000 = 0 := by omega
      have : n / 100 % 10 = 0 := by omega
      have : n / 10 % 10 = n / 10 := by omega
      simp [rjust0, List.replicate, *]
    · by_cases h3 : n < 1000
      · rw [nstr_ge10 n (by omega), nstr_ge10 (n / 10) (by omega), nstr_lt10 (n / 10 / 10) (by omega)]
        have : n / 1000 = 0 := by omega
        have : n / 10 / 10 = n / 100 % 10 := by omega
        simp [rjust0, List.replicate, *]
      · rw [nstr_ge10 n (by omega), nstr_ge10 (n / 10) (by omega), nstr_ge10 (n / 10 / 10) (by omega),
          nstr_lt10 (n / 10 / 10 / 10) (by omega)]
        have : n / 10 / 10 / 10 = n / 1000 := by omega
        have : n / 10 / 10 % 10 = n / 100 % 10 := by omega
        simp [rjust0, *]

/-- `str(Decimal(n))` for an integral Decimal with exponent 0 is the plain digit string -/
theorem decStr_int (c : Nat) : decStr false c 0 = nstr c := by
  have hne := nstr_ne_nil c
  have hlen : 0 < (nstr c).length := List.length_pos_iff.mpr hne
  unfold decStr
  have h1 : ((0 : Int) ≤ 0 ∧ (0 : Int) + ((nstr c).length : Int) > -6) := by omega
  simp only [h1, if_true, and_self]
  have h2 : ¬ ((0 : Int) + ((nstr c).length : Int) ≤ 0) := by omega
  simp [hne]

/-! ## digit strings -/

/-- all characters are digits with ASCII values (what `nstr` produces and what the theorems feed the parser) -/
def AsciiDigs (s : Str) : Prop := ∀ c ∈ s, 48 ≤ c ∧ c ≤ 57

theorem nstr_ascii (n : Nat) : AsciiDigs (nstr n) := by
  induction n using Nat.strongRecOn with
  | _ n ih =>
    by_cases h : n < 10
    · rw [nstr_lt10 n h]; intro c hc; simp at hc; omega
    · rw [nstr_ge10 n (by omega)]
      intro c hc
      rcases List.mem_append.mp hc with hc | hc
      · exact ih (n / 10) (by omega) c hc
      · simp at hc; omega

theorem dv_ascii {dv : Nat → Option Nat} (h : DvOK dv) (c : Nat) (hc : 48 ≤ c ∧ c ≤ 57) : dv c = some (c - 48) := by
  have := h.1 (c - 48) (by omega)
  rwa [show 48 + (c - 48) = c by omega] at this

theorem takeDigits_append {dv : Nat → Option Nat} (h : DvOK dv) (s rest : Str) (hs : AsciiDigs s) :
    takeDigits dv (s ++ rest) = s ++ takeDigits dv rest := by
  induction s with
  | nil => rfl
  | cons c r ih =>
    have hc := hs c (by simp)
    simp [takeDigits, isDig, dv_ascii h c hc, ih (fun x hx => hs x (by simp [hx]))]

theorem takeDigits_nondigit {dv : Nat → Option Nat} (c : Nat) (rest : Str) (hc : dv c = none) :
    takeDigits dv (c :: rest) = [] := by
  simp [takeDigits, isDig, hc]

theorem parseNatDv_append (dv : Nat → Option Nat) (a : Str) (c : Nat) :
    parseNatDv dv (a ++ [c]) = parseNatDv dv a * 10 + (dv c).getD 0 := by
  simp [parseNatDv, List.foldl_append]

/-- `int(str(n)) = n` -/
theorem parseNatDv_nstr {dv : Nat → Option Nat} (h : DvOK dv) (n : Nat) : parseNatDv dv (nstr n) = n := by
  induction n using Nat.strongRecOn with
  | _ n ih =>
    by_cases hn : n < 10
    · rw [nstr_lt10 n hn]; simp [parseNatDv, h.1 n hn]
    · rw [nstr_ge10 n (by omega), parseNatDv_append, ih (n / 10) (by omega), h.1 (n % 10) (by omega)]
      simp; omega

/-- `(?P<amount>\\d*\\.?\\d+)` on a non-empty ASCII digit string followed by a unit letter -/
theorem matchAmount_int {dv : Nat → Option Nat} (h : DvOK dv) (s : Str) (u : Nat) (rest : Str) (hs : AsciiDigs s)
    (hne : s ≠ []) (hu : dv u = none) (hu46 : u ≠ 46) :
    matchAmount dv (s ++ u :: rest) = some (s, u :: rest) := by
  unfold matchAmount
  rw [takeDigits_append h s _ hs, takeDigits_nondigit u rest hu]
  simp only [List.append_nil, List.drop_left]
  split
  · rename_i heq; simp at heq; exact absurd heq.1 hu46
  · cases s with
    | nil => exact absurd rfl hne
    | cons a r => simp

/-- `Decimal(s)` for an ASCII digit string -/
theorem parseDecimal_int {dv : Nat → Option Nat} (h : DvOK dv) (s : Str) (hs : AsciiDigs s) :
    parseDecimal dv s = .dec false (parseNatDv dv s) 0 := by
  unfold parseDecimal
  have := takeDigits_append h s [] hs
  simp only [List.append_nil] at this
  simp [this, takeDigits]

/-! ## fractional amounts: `str(Decimal)` with a negative exponent, and reading it back -/

theorem decStr_fracA (c k : Nat) (h1 : (nstr c).length ≤ k) (h2 : k < (nstr c).length + 6) :
    decStr false c (-(k : Int)) = 48 :: 46 :: (List.replicate (k - (nstr c).length) 48 ++ nstr c) := by
  have hlen : 0 < (nstr c).length := List.length_pos_iff.mpr (nstr_ne_nil c)
  unfold decStr
  have c1 : (-(k : Int) ≤ 0 ∧ -(k : Int) + ((nstr c).length : Int) > -6) := by omega
  simp only [c1, and_self, if_true]
  have c2 : (-(k : Int) + ((nstr c).length : Int) ≤ 0) := by omega
  simp only [c2, if_true]
  have c3 : (-(-(k : Int) + ((nstr c).length : Int))).toNat = k - (nstr c).length := by omega
  simp [c3]

theorem decStr_fracB (c k : Nat) (h0 : 1 ≤ k) (h1 : k < (nstr c).length) :
    decStr false c (-(k : Int)) = (nstr c).take ((nstr c).length - k) ++ 46 :: (nstr c).drop ((nstr c).length - k) := by
  unfold decStr
  have c1 : (-(k : Int) ≤ 0 ∧ -(k : Int) + ((nstr c).length : Int) > -6) := by omega
  simp only [c1, and_self, if_true]
  have c2 : ¬ (-(k : Int) + ((nstr c).length : Int) ≤ 0) := by omega
  have c4 : ¬ (-(k : Int) + ((nstr c).length : Int) ≥ ((nstr c).length : Int)) := by omega
  simp only [c2, c4, if_false]
  have c3 : (-(k : Int) + ((nstr c).length : Int)).toNat = (nstr c).length - k := by omega
  simp [c3]

theorem asciiDigs_append {a b : Str} (ha : AsciiDigs a) (hb : AsciiDigs b) : AsciiDigs (a ++ b) := by
  intro c hc
  rcases List.mem_append.mp hc with h | h
  · exact ha c h
  · exact hb c h

theorem asciiDigs_replicate (m : Nat) : AsciiDigs (List.replicate m 48) := by
  intro c hc
  have := List.eq_of_mem_replicate hc
  omega

theorem parseNatDv_zeros {dv : Nat → Option Nat} (h : DvOK dv) (m : Nat) (s : Str) :
    parseNatDv dv (List.replicate m 48 ++ s) = parseNatDv dv s := by
  induction m with
  | zero => rfl
  | succ m ih =>
    have h0 := h.1 0 (by omega)
    simp only [Nat.add_zero] at h0
    unfold parseNatDv at ih ⊢
    simp only [List.replicate_succ, List.cons_append, List.foldl_cons, h0]
    simpa using ih

/-- Under the exact guard `k < len(str(c)) + 6` (`k ≥ 1` fractional digits, coefficient `c`) `str(Decimal)` is plain:
a non-empty integer part, a dot and exactly `k` fractional digits whose digits read back to `c`. (When the guard
fails CPython prints scientific notation — the recorded finding `tiny-amount-scientific`.) -/
theorem decStr_frac_shape (c k : Nat) (h0 : 1 ≤ k) (h2 : k < (nstr c).length + 6) :
    ∃ ip fp, decStr false c (-(k : Int)) = ip ++ 46 :: fp ∧ AsciiDigs ip ∧ AsciiDigs fp ∧ ip ≠ [] ∧ fp.length = k ∧
      ∀ dv, DvOK dv → parseNatDv dv (ip ++ fp) = c := by
  by_cases h1 : (nstr c).length ≤ k
  · refine ⟨[48], List.replicate (k - (nstr c).length) 48 ++ nstr c, ?_, ?_, ?_, by simp, ?_, ?_⟩
    · rw [decStr_fracA c k h1 h2]; rfl
    · intro x hx; simp at hx; omega
    · exact asciiDigs_append (asciiDigs_replicate _) (nstr_ascii c)
    · simp; omega
    · intro dv hdv
      have := parseNatDv_zeros hdv (k - (nstr c).length + 1) (nstr c)
      rw [List.replicate_succ] at this
      simpa [parseNatDv_nstr hdv] using this
  · refine ⟨(nstr c).take ((nstr c).length - k), (nstr c).drop ((nstr c).length - k), ?_, ?_, ?_, ?_, ?_, ?_⟩
    · exact decStr_fracB c k h0 (by omega)
    · intro x hx; exact nstr_ascii c x (List.mem_of_mem_take hx)
    · intro x hx; exact nstr_ascii c x (List.mem_of_mem_drop hx)
    · intro hn
      have : ((nstr c).take ((nstr c).length - k)).length = 0 := by rw [hn]; rfl
      rw [List.length_take] at this; omega
    · rw [List.length_drop]; omega
    · intro dv hdv; rw [List.take_append_drop]; exact parseNatDv_nstr hdv c

/-- `(?P<amount>\\d*\\.?\\d+)` on `ip . fp` (integer part possibly empty) followed by a unit letter -/
theorem matchAmount_frac {dv : Nat → Option Nat} (h : DvOK dv) (ip fp : Str) (u : Nat) (rest : Str)
    (hip : AsciiDigs ip) (hfp : AsciiDigs fp) (hne : fp ≠ []) (hu : dv u = none) :
    matchAmount dv (ip ++ 46 :: fp ++ u :: rest) = some (ip ++ 46 :: fp, u :: rest) := by
  unfold matchAmount
  have h46 : dv 46 = none := h.2 46 (by decide)
  have e1 : ip ++ 46 :: fp ++ u :: rest = ip ++ (46 :: (fp ++ u :: rest)) := by simp
  rw [e1, takeDigits_append h ip _ hip, takeDigits_nondigit 46 _ h46]
  simp only [List.append_nil, List.drop_left]
  rw [takeDigits_append h fp _ hfp, takeDigits_nondigit u rest hu]
  cases fp with
  | nil => exact absurd rfl hne
  | cons a r => simp

/-- `Decimal('ip.fp')` -/
theorem parseDecimal_frac {dv : Nat → Option Nat} (h : DvOK dv) (ip fp : Str) (hip : AsciiDigs ip) :
    parseDecimal dv (ip ++ 46 :: fp) = .dec false (parseNatDv dv (ip ++ fp)) (-(fp.length : Int)) := by
  unfold parseDecimal
  have h46 : dv 46 = none := h.2 46 (by decide)
  rw [takeDigits_append h ip _ hip, takeDigits_nondigit 46 _ h46]
  simp

/-! ### below the guard: scientific notation -/

theorem decStr_sci1 (c k : Nat) (h1 : (nstr c).length = 1) (h2 : k ≥ (nstr c).length + 6) :
    decStr false c (-(k : Int)) = nstr c ++ 69 :: 45 :: nstr (k + 1 - (nstr c).length) := by
  unfold decStr
  have c1 : ¬ (-(k : Int) ≤ 0 ∧ -(k : Int) + ((nstr c).length : Int) > -6) := by omega
  simp only [c1, if_false]
  have c2 : ¬ ((1 : Int) ≤ 0) := by omega
  have c3 : ((1 : Int) ≥ ((nstr c).length : Int)) := by omega
  have c4 : ¬ (-(k : Int) + ((nstr c).length : Int) - 1 = 0) := by omega
  have c5 : (-(k : Int) + ((nstr c).length : Int) - 1 < 0) := by omega
  have c6 : (-(k : Int) + ((nstr c).length : Int) - 1).natAbs = k + 1 - (nstr c).length := by omega
  have c7 : ((1 : Int) - ((nstr c).length : Int)).toNat = 0 := by omega
  simp [c2, c3, c4, c5, c6, c7]

theorem decStr_sciN (c k : Nat) (h1 : 1 < (nstr c).length) (h2 : k ≥ (nstr c).length + 6) :
    decStr false c (-(k : Int)) =
      (nstr c).take 1 ++ 46 :: (nstr c).drop 1 ++ 69 :: 45 :: nstr (k + 1 - (nstr c).length) := by
  unfold decStr
  have c1 : ¬ (-(k : Int) ≤ 0 ∧ -(k : Int) + ((nstr c).length : Int) > -6) := by omega
  simp only [c1, if_false]
  have c2 : ¬ ((1 : Int) ≤ 0) := by omega
  have c3 : ¬ ((1 : Int) ≥ ((nstr c).length : Int)) := by omega
  have c4 : ¬ (-(k : Int) + ((nstr c).length : Int) - 1 = 0) := by omega
  have c5 : (-(k : Int) + ((nstr c).length : Int) - 1 < 0) := by omega
  have c6 : (-(k : Int) + ((nstr c).length : Int) - 1).natAbs = k + 1 - (nstr c).length := by omega
  simp [c2, c3, c4, c5, c6]

/-! ## ISO renderings -/

def d2 (n : Nat) : Str := [48 + n / 10, 48 + n % 10]
def d4 (n : Nat) : Str := [48 + n / 1000, 48 + n / 100 % 10, 48 + n / 10 % 10, 48 + n % 10]

/-- `YYYY-MM-DD` -/
def isoDateStr (d : Date) : Str := d4 d.y ++ 45 :: d2 d.m ++ 45 :: d2 d.d

/-- `Thh`, `Thh:mm` or `Thh:mm:ss`: trailing zero parts are dropped -/
def isoTimeStr (h m s : Nat) : Str :=
  if m = 0 ∧ s = 0 then 84 :: d2 h
  else if s = 0 then 84 :: d2 h ++ 58 :: d2 m
  else 84 :: d2 h ++ 58 :: d2 m ++ 58 :: d2 s

theorem valid_bounds (d : Date) (hv : d.valid = true) : d.y < 10000 ∧ d.m < 100 ∧ d.d < 100 := by
  rw [valid_iff] at hv
  obtain ⟨_, h2, _, h4, _, h6⟩ := hv
  have : daysInMonth d.y d.m ≤ 31 := by
    unfold daysInMonth; split <;> try split
    all_goals omega
  omega


/-- `Timex.from_date(d).timex_value()` is `YYYY-MM-DD` for every valid date -/
theorem format_fromDate (d : Date) (hv : d.valid = true) :
    formatT (Timex.fromDate d) = .ok (isoDateStr d) := by
  obtain ⟨hy, hm, hd⟩ := valid_bounds d hv
  simp [formatT, formatFuel, Timex.fromDate, infer, isDate, isDateRange, isDuration, isTime, isDefinite, truthyO,
    truthyS, formatDate, andChainNotNone, fixed4 d.y hy, fixed2 d.m hm, fixed2 d.d hd, isoDateStr, d2, d4,
    bind, Except.bind, pure, Except.pure]

end RTV.Timex
