import RTV.Lemmas.NumCjkJa0
import RTV.Lemmas.NumCjkJa1
import RTV.Lemmas.NumCjkJa2
import RTV.Lemmas.NumCjkJa3
import RTV.Lemmas.NumCjkJa4
import RTV.Lemmas.NumCjkJa5
import RTV.Lemmas.NumCjkJa6
import RTV.Lemmas.NumCjkJa7
import RTV.Lemmas.NumCjkJa8
import RTV.Lemmas.NumCjkJa9
/-! all chunks together -/
namespace RTV.NumCjk
open RTV.Num

theorem ja_loop_chunks (k : Nat) (hk : k < 100) : jaLoopChunk k = true := by
  match k, hk with
  | 0, _ => exact ja_l0
  | 1, _ => exact ja_l1
  | 2, _ => exact ja_l2
  | 3, _ => exact ja_l3
  | 4, _ => exact ja_l4
  | 5, _ => exact ja_l5
  | 6, _ => exact ja_l6
  | 7, _ => exact ja_l7
  | 8, _ => exact ja_l8
  | 9, _ => exact ja_l9
  | 10, _ => exact ja_l10
  | 11, _ => exact ja_l11
  | 12, _ => exact ja_l12
  | 13, _ => exact ja_l13
  | 14, _ => exact ja_l14
  | 15, _ => exact ja_l15
  | 16, _ => exact ja_l16
  | 17, _ => exact ja_l17
  | 18, _ => exact ja_l18
  | 19, _ => exact ja_l19
  | 20, _ => exact ja_l20
  | 21, _ => exact ja_l21
  | 22, _ => exact ja_l22
  | 23, _ => exact ja_l23
  | 24, _ => exact ja_l24
  | 25, _ => exact ja_l25
  | 26, _ => exact ja_l26
  | 27, _ => exact ja_l27
  | 28, _ => exact ja_l28
  | 29, _ => exact ja_l29
  | 30, _ => exact ja_l30
  | 31, _ => exact ja_l31
  | 32, _ => exact ja_l32
  | 33, _ => exact ja_l33
  | 34, _ => exact ja_l34
  | 35, _ => exact ja_l35
  | 36, _ => exact ja_l36
  | 37, _ => exact ja_l37
  | 38, _ => exact ja_l38
  | 39, _ => exact ja_l39
  | 40, _ => exact ja_l40
  | 41, _ => exact ja_l41
  | 42, _ => exact ja_l42
  | 43, _ => exact ja_l43
  | 44, _ => exact ja_l44
  | 45, _ => exact ja_l45
  | 46, _ => exact ja_l46
  | 47, _ => exact ja_l47
  | 48, _ => exact ja_l48
  | 49, _ => exact ja_l49
  | 50, _ => exact ja_l50
  | 51, _ => exact ja_l51
  | 52, _ => exact ja_l52
  | 53, _ => exact ja_l53
  | 54, _ => exact ja_l54
  | 55, _ => exact ja_l55
  | 56, _ => exact ja_l56
  | 57, _ => exact ja_l57
  | 58, _ => exact ja_l58
  | 59, _ => exact ja_l59
  | 60, _ => exact ja_l60
  | 61, _ => exact ja_l61
  | 62, _ => exact ja_l62
  | 63, _ => exact ja_l63
  | 64, _ => exact ja_l64
  | 65, _ => exact ja_l65
  | 66, _ => exact ja_l66
  | 67, _ => exact ja_l67
  | 68, _ => exact ja_l68
  | 69, _ => exact ja_l69
  | 70, _ => exact ja_l70
  | 71, _ => exact ja_l71
  | 72, _ => exact ja_l72
  | 73, _ => exact ja_l73
  | 74, _ => exact ja_l74
  | 75, _ => exact ja_l75
  | 76, _ => exact ja_l76
  | 77, _ => exact ja_l77
  | 78, _ => exact ja_l78
  | 79, _ => exact ja_l79
  | 80, _ => exact ja_l80
  | 81, _ => exact ja_l81
  | 82, _ => exact ja_l82
  | 83, _ => exact ja_l83
  | 84, _ => exact ja_l84
  | 85, _ => exact ja_l85
  | 86, _ => exact ja_l86
  | 87, _ => exact ja_l87
  | 88, _ => exact ja_l88
  | 89, _ => exact ja_l89
  | 90, _ => exact ja_l90
  | 91, _ => exact ja_l91
  | 92, _ => exact ja_l92
  | 93, _ => exact ja_l93
  | 94, _ => exact ja_l94
  | 95, _ => exact ja_l95
  | 96, _ => exact ja_l96
  | 97, _ => exact ja_l97
  | 98, _ => exact ja_l98
  | 99, _ => exact ja_l99
  | k + 100, h => omega

theorem ja_loop_all (n : Nat) (h : n < 10000) (hg : jaGuardN n = true) : loopIs jaCfg (spellJa n) n = true := by
  have hc := ja_loop_chunks (n / 100) (by omega)
  simp only [jaLoopChunk, List.all_eq_true, List.mem_range] at hc
  have := hc (n % 100) (Nat.mod_lt _ (by decide))
  have e : 100 * (n / 100) + n % 100 = n := Nat.div_add_mod n 100
  rw [e] at this
  simpa [hg] using this

end RTV.NumCjk
