import RTV.Lemmas.Thousand
import RTV.Model.SpellEu
/-! From the numerals below 1000 to all numerals below 10^6 for a culture given by `EuBig` tables: the structural
`thousand_group` plus two cheap per-number side facts (decidable, checked per culture by the kernel): the multiplier
holds no end word of 1000 or more and — where its words differ from the stand-alone numeral (apocope) — still has its
value; the remainder's scan stays at most at 1000 and — where it carries a connector — still has its value. -/
namespace RTV.Num
open RTV.Py

def okRes (r : Res) (n : Nat) : Bool := decide (r = .ok n)

/-- side fact about `k` (1..999) in multiplier position -/
def multFact (b : EuBig) (c : LangCfg) (k : Nat) : Bool :=
  let A := (spellMult b k).2
  !A.isEmpty &&
    (A.all fun t => match lookup c.round t with | none => true | some r => decide (r < 1000)) &&
    (A == (spellEu b.base k).2 || okRes (getIntValue true asciiDigits c A) k)

/-- side fact about the remainder `u` (1..999) after the thousand word -/
def restFact (b : EuBig) (c : LangCfg) (u : Nat) : Bool :=
  let R := (restPart b u).2
  !R.isEmpty && decide ((scanR c.round R 1).2 ≤ 1000) &&
    ((scanR c.round R 1).2 != 1 || R.all fun t => (lookup c.round t).isNone) &&
    (R == (spellEu b.base u).2 || okRes (getIntValue true asciiDigits c R) u)

theorem thousand_lift (b : EuBig) (c : LangCfg)
    (hw : lookup c.round b.thousand = some 1000)
    (hsub : ∀ n, n < 1000 → getIntValue true asciiDigits c (spellEu b.base n).2 = .ok n)
    (hmult : ∀ k, 1 ≤ k → k < 1000 → multFact b c k = true)
    (hrest : ∀ u, 1 ≤ u → u < 1000 → restFact b c u = true)
    (n : Nat) (h1 : 1000 ≤ n) (h2 : n < 1000000) :
    getIntValue true asciiDigits c (spellEuBig b n).2 = .ok n := by
  have hk1 : 1 ≤ n / 1000 := by omega
  have hk2 : n / 1000 < 1000 := by omega
  have hu2 : n % 1000 < 1000 := Nat.mod_lt _ (by decide)
  have hn : 1000 * (n / 1000) + n % 1000 = n := Nat.div_add_mod n 1000
  have htok : (spellEuBig b n).2 = (multPart b (n / 1000)).2 ++ b.thousand :: (restPart b (n % 1000)).2 := by
    simp [spellEuBig]
  rw [htok]
  have key := thousand_group asciiDigits c (multPart b (n / 1000)).2 b.thousand (restPart b (n % 1000)).2
    (n / 1000) (n % 1000) ((multPart b (n / 1000)).2.length + 3) ((restPart b (n % 1000)).2.length + 3) hw ?_ ?_
  · rw [hn] at key; exact key
  · -- the multiplier
    unfold multPart
    by_cases ho : (n / 1000 == 1 && b.omitOne) = true
    · left
      simp only [ho, if_true]
      simp only [Bool.and_eq_true, beq_iff_eq] at ho
      exact ⟨trivial, ho.1⟩
    · right
      simp only [ho, Bool.false_eq_true, if_false]
      have hf := hmult (n / 1000) hk1 hk2
      simp only [multFact, Bool.and_eq_true, Bool.not_eq_true', List.all_eq_true, Bool.or_eq_true, beq_iff_eq,
        okRes, decide_eq_true_eq] at hf
      obtain ⟨⟨hne, hin⟩, hval⟩ := hf
      refine ⟨?_, ?_, ?_, Nat.le_refl _⟩
      · intro e; rw [e] at hne; simp at hne
      · intro t ht
        have := hin t ht
        cases hl : lookup c.round t with
        | none => exact Or.inl rfl
        | some r => rw [hl] at this; exact Or.inr ⟨r, rfl, by simpa using this⟩
      · rcases hval with he | hv
        · rw [he]; exact hsub _ hk2
        · exact hv
  · -- the remainder
    by_cases hu0 : n % 1000 = 0
    · left
      simp [restPart, hu0]
    · right
      have hf := hrest (n % 1000) (by omega) hu2
      simp only [restFact, Bool.and_eq_true, Bool.not_eq_true', decide_eq_true_eq, Bool.or_eq_true, bne_iff_ne,
        ne_eq, List.all_eq_true, Option.isNone_iff_eq_none, beq_iff_eq, okRes] at hf
      obtain ⟨⟨⟨hne, hscan⟩, hflat⟩, hval⟩ := hf
      refine ⟨?_, ?_, Nat.le_refl _, hscan, ?_⟩
      · intro e; rw [e] at hne; simp at hne
      · rcases hval with he | hv
        · rw [he]; exact hsub _ hu2
        · exact hv
      · intro h1'
        rcases hflat with hx | hx
        · exact absurd h1' hx
        · exact hx

end RTV.Num
