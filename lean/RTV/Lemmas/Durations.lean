import RTV.Model.Durations
import RTV.Lemmas.WellFormed
set_option linter.unusedVariables false
set_option linter.unusedSimpArgs false
/-!
Lemmas about the software binary64 of `RTV.Model.Durations`: a rational that IS a binary64 (`m / 2^j` with a 53-bit `m`)
is converted without rounding (`roundQ_exact`), hence `float(N)`, `N + 0.5`, `N + 0.25`, `float(Decimal('2.50000'))` and
the product with the unit length are exact on the stated ranges; `float_or_int` of an integral float is the integer.
-/
namespace RTV.Durations
open RTV.WF

theorem roundHE_zero (q d : Nat) (hd : 0 < d) : roundHE q 0 d = q := by
  simp [roundHE]; omega

/-- rounding at a scale at least as fine as the value's own denominator changes nothing -/
theorem roundDown_exact (n d m j sh : Nat) (hd : 0 < d) (h : n * 2 ^ j = m * d) (hsh : j ≤ sh) :
    roundDown n d sh = (m * 2 ^ (sh - j), 2 ^ sh) := by
  have e : n * 2 ^ sh = (m * 2 ^ (sh - j)) * d := by
    have : sh = j + (sh - j) := by omega
    calc n * 2 ^ sh = n * 2 ^ (j + (sh - j)) := by rw [← this]
      _ = (n * 2 ^ j) * 2 ^ (sh - j) := by rw [Nat.pow_add, Nat.mul_assoc]
      _ = (m * d) * 2 ^ (sh - j) := by rw [h]
      _ = (m * 2 ^ (sh - j)) * d := by rw [Nat.mul_assoc, Nat.mul_comm d, ← Nat.mul_assoc]
  unfold roundDown
  rw [e, Nat.mul_div_cancel _ hd, Nat.mul_mod_left, roundHE_zero _ _ hd]

/-- `log2 n + j ≤ log2 d + 53` when `n / d = m / 2^j` with a 53-bit `m` -/
theorem log2_bound (n d m j : Nat) (hn : n ≠ 0) (hd : 0 < d) (hm53 : m < 2 ^ 53) (h : n * 2 ^ j = m * d) :
    n.log2 + j ≤ d.log2 + 53 := by
  have hk : 2 ^ n.log2 ≤ n := Nat.log2_self_le hn
  have hl : d < 2 ^ (d.log2 + 1) := Nat.lt_log2_self
  have h1 : 2 ^ (n.log2 + j) ≤ n * 2 ^ j := by
    rw [Nat.pow_add]; exact Nat.mul_le_mul hk (Nat.le_refl _)
  have h2 : m * d < 2 ^ 53 * 2 ^ (d.log2 + 1) := by
    calc m * d < 2 ^ 53 * d := (Nat.mul_lt_mul_right hd).mpr hm53
      _ ≤ 2 ^ 53 * 2 ^ (d.log2 + 1) := Nat.mul_le_mul (Nat.le_refl _) (Nat.le_of_lt hl)
  have h3 : 2 ^ (n.log2 + j) < 2 ^ (53 + (d.log2 + 1)) := by
    rw [Nat.pow_add 2 53]; omega
  have := (Nat.pow_lt_pow_iff_right (by decide : 1 < 2)).mp h3
  omega

/-- the chosen scale is at least as fine as the value's own denominator -/
theorem shiftOf_ge (n d m j : Nat) (hn : n ≠ 0) (hd : 0 < d) (hm53 : m < 2 ^ 53) (h : n * 2 ^ j = m * d)
    (hk : n.log2 ≤ d.log2 + 52) (hl : j ≤ 1074) : j ≤ shiftOf n d := by
  have key := log2_bound n d m j hn hd hm53 h
  unfold shiftOf
  simp only
  by_cases c : n.log2 + j ≤ d.log2 + 52
  · split <;> omega
  · -- `sh0 = j - 1`: the quotient at that scale is `m / 2 < 2^52`, one more bit is taken
    have hj : 1 ≤ j := by omega
    have hs0 : d.log2 + 52 - n.log2 = j - 1 := by omega
    rw [hs0]
    have hlt : n * 2 ^ (j - 1) / d < 2 ^ 52 := by
      rw [Nat.div_lt_iff_lt_mul hd]
      have e2 : n * 2 ^ j = 2 * (n * 2 ^ (j - 1)) := by
        have : j = (j - 1) + 1 := by omega
        calc n * 2 ^ j = n * 2 ^ ((j - 1) + 1) := by rw [← this]
          _ = 2 * (n * 2 ^ (j - 1)) := by rw [Nat.pow_succ, ← Nat.mul_assoc, Nat.mul_comm]
      have h2 : m * d < 2 ^ 53 * d := (Nat.mul_lt_mul_right hd).mpr hm53
      have e3 : (2 : Nat) ^ 53 * d = 2 * (2 ^ 52 * d) := by
        rw [← Nat.mul_assoc]
      omega
    rw [if_pos hlt]
    omega

/-- **a binary64 converts to itself**: if `n / d = m / 2^j` with `0 < m < 2^53` then `roundQ n d` is `m / 2^j` (written at
a possibly finer scale `2^(j+s)`). No rounding happens. -/
theorem roundQ_exact (n d m j : Nat) (hd : 0 < d) (hm : 0 < m) (hm53 : m < 2 ^ 53) (h : n * 2 ^ j = m * d)
    (hl : j ≤ 1074) : ∃ s, s ≤ 1074 ∧ roundQ n d = some (m * 2 ^ s, 2 ^ (j + s)) := by
  have hn : n ≠ 0 := by
    intro h0; rw [h0] at h
    have h00 : m * d = 0 := by simpa using h.symm
    rcases Nat.mul_eq_zero.mp h00 with h | h <;> omega
  have key := log2_bound n d m j hn hd hm53 h
  unfold roundQ
  rw [if_neg hn]
  by_cases hk : n.log2 ≤ d.log2 + 52
  · rw [if_pos hk]
    have hge := shiftOf_ge n d m j hn hd hm53 h hk hl
    have hle : shiftOf n d ≤ 1074 := by unfold shiftOf; exact Nat.min_le_right _ _
    refine ⟨shiftOf n d - j, by omega, ?_⟩
    rw [roundDown_exact n d m j _ hd h hge]
    have : j + (shiftOf n d - j) = shiftOf n d := by omega
    rw [this]
  · rw [if_neg hk]
    -- only possible with `j = 0` and `log2 n = log2 d + 53`: `n = m * d`, the scale is `2^0`
    have hj : j = 0 := by omega
    have hk2 : n.log2 - d.log2 - 52 = 1 := by omega
    subst hj
    simp only [Nat.pow_zero, Nat.mul_one] at h
    refine ⟨0, by omega, ?_⟩
    unfold roundBig
    simp only [hk2]
    have hlt : n / (d * 2 ^ 1) < 2 ^ 52 := by
      have hd2 : 0 < d * 2 ^ 1 := by omega
      rw [Nat.div_lt_iff_lt_mul hd2, h]
      have h2 : m * d < 2 ^ 53 * d := (Nat.mul_lt_mul_right hd).mpr hm53
      have e3 : (2 : Nat) ^ 52 * (d * 2 ^ 1) = 2 ^ 53 * d := by
        rw [Nat.mul_comm d, ← Nat.mul_assoc]
      omega
    rw [if_pos hlt]
    simp only [Nat.sub_self, Nat.pow_zero, Nat.mul_one]
    rw [h, Nat.mul_div_cancel _ hd, Nat.mul_mod_left, roundHE_zero _ _ hd]
    have : ¬ m ≥ 2 ^ 1024 := by
      have : (2 : Nat) ^ 53 ≤ 2 ^ 1024 := Nat.pow_le_pow_right (by decide) (by decide)
      omega
    rw [if_neg this]

/-- lowest terms: `m·2^s / 2^(j+s)` is `m / 2^j` when `m` is odd or `j = 0` -/
theorem norm2_scale : ∀ (s f m j : Nat), s ≤ f → (j = 0 ∨ m % 2 = 1) → norm2 f (m * 2 ^ s) (2 ^ (j + s)) = (m, 2 ^ j)
  | 0, f, m, j, _, hc => by
    cases f with
    | zero => simp [norm2]
    | succ f =>
      have : ¬ (m % 2 = 0 ∧ 2 ^ j % 2 = 0) := by
        rcases hc with hc | hc
        · subst hc; simp
        · omega
      simp only [Nat.pow_zero, Nat.mul_one, Nat.add_zero]
      unfold norm2
      rw [if_neg this]
  | s + 1, f, m, j, hs, hc => by
    cases f with
    | zero => omega
    | succ f =>
      have e1 : m * 2 ^ (s + 1) = (m * 2 ^ s) * 2 := by rw [Nat.pow_succ, Nat.mul_assoc]
      have e2 : 2 ^ (j + (s + 1)) = (2 ^ (j + s)) * 2 := by rw [← Nat.add_assoc, Nat.pow_succ]
      have c : (m * 2 ^ (s + 1)) % 2 = 0 ∧ (2 ^ (j + (s + 1))) % 2 = 0 := by
        rw [e1, e2]; simp
      unfold norm2
      rw [if_pos c, e1, e2, Nat.mul_div_cancel _ (by decide : 0 < 2), Nat.mul_div_cancel _ (by decide : 0 < 2)]
      exact norm2_scale s f m j (by omega) hc

/-- **conversion of a binary64 value is exact and canonical**: `n / d = m / 2^j`, `0 < m < 2^53`, `m` odd or `j = 0` -/
theorem ofQ_exact (neg : Bool) (n d m j : Nat) (hd : 0 < d) (hm : 0 < m) (hm53 : m < 2 ^ 53) (h : n * 2 ^ j = m * d)
    (hj : j ≤ 1074) (hc : j = 0 ∨ m % 2 = 1) : Dbl.ofQ neg n d = some ⟨neg, m, 2 ^ j⟩ := by
  obtain ⟨s, hs, e⟩ := roundQ_exact n d m j hd hm hm53 h hj
  unfold Dbl.ofQ
  rw [e]
  simp only [Option.map_some, norm2_scale s 1100 m j (by omega) hc]

/-- `float_or_int` of the integral float `N` (at any scale) is the `int` `N` -/
theorem floatOrInt_integral (neg : Bool) (N s : Nat) :
    floatOrInt ⟨neg, N * 2 ^ s, 2 ^ s⟩ = .int (if neg then -(N : Int) else (N : Int)) := by
  have hp : 0 < 2 ^ s := Nat.two_pow_pos s
  unfold floatOrInt
  simp only [Nat.mul_mod_left, if_true, Nat.mul_div_cancel _ hp]

/-- `float_or_int` keeps a float that is not integral: `m / 2^j` with `m` odd and `j ≥ 1` (at any scale) -/
theorem floatOrInt_fraction (neg : Bool) (m j s : Nat) (hodd : m % 2 = 1) (hj : 1 ≤ j) :
    floatOrInt ⟨neg, m * 2 ^ s, 2 ^ (j + s)⟩ = .flt ⟨neg, m * 2 ^ s, 2 ^ (j + s)⟩ := by
  unfold floatOrInt
  have hne : m * 2 ^ s % 2 ^ (j + s) ≠ 0 := by
    intro h0
    have hdvd : 2 ^ (j + s) ∣ m * 2 ^ s := Nat.dvd_of_mod_eq_zero h0
    obtain ⟨c, hc⟩ := hdvd
    have hp : 0 < 2 ^ s := Nat.two_pow_pos s
    have e : m * 2 ^ s = (2 ^ j * c) * 2 ^ s := by
      rw [hc, Nat.pow_add]; rw [Nat.mul_assoc, Nat.mul_comm (2 ^ s) c, ← Nat.mul_assoc]
    have e2 : m = 2 ^ j * c := Nat.eq_of_mul_eq_mul_right hp e
    have : j = (j - 1) + 1 := by omega
    rw [this, Nat.pow_succ] at e2
    have : m % 2 = 0 := by rw [e2, Nat.mul_assoc, Nat.mul_comm]; simp [Nat.mul_assoc]
    omega
  rw [if_neg hne]

theorem lookup_cons_self {β : Type} (k : Str) (v : β) (rest : List (Str × β)) : lookup ((k, v) :: rest) k = some v := by
  simp [lookup, List.find?]

end RTV.Durations
