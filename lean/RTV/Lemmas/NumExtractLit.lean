import RTV.Lemmas.Literal
import RTV.Lemmas.NumExtractDef
/-!
From the text of a `Literal` (RTV/Lemmas/Literal.lean) inside a carrier `pre ++ text ++ post` to the position
language of `RTV.Lemmas.NumExtractDef` (`LeftCtx`, `GroupedIntAt`, `GroupedDecAt`, `RightCtx`).
-/
namespace RTV.NumExtract
open RTV.Py RTV.Re RTV.Span RTV.Num

theorem code_toArray (l : List Nat) (k : Nat) : code l.toArray k = l.getD k 0 := by
  simp [code, Array.getD, List.getD]
  by_cases h : k < l.length <;> simp [h]

theorem getD_app_left (A B : List Nat) (k : Nat) (hk : k < A.length) : (A ++ B).getD k 0 = A.getD k 0 := by
  simp [List.getD_eq_getElem?_getD, List.getElem?_append_left hk]

theorem getD_app_right (A B : List Nat) (k : Nat) (hk : A.length ≤ k) : (A ++ B).getD k 0 = B.getD (k - A.length) 0 := by
  simp [List.getD_eq_getElem?_getD, List.getElem?_append_right hk]

theorem getD_of_lt (l : List Nat) (k : Nat) (hk : k < l.length) : l.getD k 0 = l[k] := by
  simp [List.getD_eq_getElem?_getD, hk]

/-- the character at offset `k` of the middle part -/
theorem code_mid (A X B : List Nat) (k : Nat) (hk : k < X.length) :
    code (A ++ X ++ B).toArray (A.length + k) = X.getD k 0 := by
  rw [code_toArray, List.append_assoc, getD_app_right _ _ _ (by omega)]
  have : A.length + k - A.length = k := by omega
  rw [this, getD_app_left _ _ _ hk]

theorem code_left (A B : List Nat) (k : Nat) (hk : k < A.length) : code (A ++ B).toArray k = A.getD k 0 := by
  rw [code_toArray, getD_app_left _ _ _ hk]

theorem code_after (A B : List Nat) : code (A ++ B).toArray A.length = B.getD 0 0 := by
  rw [code_toArray, getD_app_right _ _ _ (by omega)]
  simp

theorem getD_mem (l : List Nat) (k : Nat) (hk : k < l.length) : l.getD k 0 ∈ l := by
  rw [getD_of_lt _ _ hk]; exact List.getElem_mem hk

theorem isDig_digitChars (ds : List Nat) (hd : ∀ x ∈ ds, x < 10) (k : Nat) (hk : k < ds.length) :
    isDig ((digitChars ds).getD k 0) := by
  unfold digitChars
  rw [getD_of_lt _ _ (by simpa using hk)]
  simp only [List.getElem_map]
  have := hd ds[k] (List.getElem_mem hk)
  unfold isDig; omega

/-- `mark d d d` for every group -/
def groupsText (m : Nat) : List (List Nat) → Str
  | [] => []
  | grp :: rest => m :: digitChars grp ++ groupsText m rest

theorem joinGroups_cons (m : Nat) (a : List Nat) (rest : List (List Nat)) :
    Literal.joinGroups m (a :: rest) = digitChars a ++ groupsText m rest := by
  induction rest generalizing a with
  | nil => simp [Literal.joinGroups, groupsText]
  | cons b rest ih => simp [Literal.joinGroups, groupsText, ih]

theorem length_groupsText (m : Nat) (rest : List (List Nat)) (h3 : ∀ grp ∈ rest, grp.length = 3) :
    (groupsText m rest).length = 4 * rest.length := by
  induction rest with
  | nil => rfl
  | cons b rest ih =>
    have := ih (fun grp hg => h3 grp (by simp [hg]))
    have hb := h3 b (by simp)
    simp [groupsText, digitChars, this, hb]; omega

theorem groupsAt_succ {s : Array Nat} {m g i : Nat}
    (h0 : code s i = m ∧ isDig (code s (i + 1)) ∧ isDig (code s (i + 2)) ∧ isDig (code s (i + 3)))
    (hrest : GroupsAt s m g (i + 4)) : GroupsAt s m (g + 1) i := by
  intro u hu
  cases u with
  | zero => simpa using h0
  | succ u =>
    have := hrest u (by omega)
    have e : i + 4 * (u + 1) = i + 4 + 4 * u := by omega
    rw [e]; exact this

theorem groupsAt_of_list {s : Array Nat} (m : Nat) :
    ∀ (rest : List (List Nat)) (i : Nat), (∀ grp ∈ rest, grp.length = 3 ∧ ∀ x ∈ grp, x < 10) →
      (∀ k, k < (groupsText m rest).length → code s (i + k) = (groupsText m rest).getD k 0) →
      GroupsAt s m rest.length i := by
  intro rest
  induction rest with
  | nil => intro i _ _ u hu; simp at hu
  | cons b rest ih =>
    intro i hwf hcode
    obtain ⟨hb3, hbd⟩ := hwf b (by simp)
    match b, hb3, hbd with
    | [x, y, z], _, hbd =>
      have hx := hbd x (by simp); have hy := hbd y (by simp); have hz := hbd z (by simp)
      have hlen : 4 ≤ (groupsText m ([x, y, z] :: rest)).length := by simp [groupsText, digitChars]
      have c0 := hcode 0 (by omega)
      have c1 := hcode 1 (by omega)
      have c2 := hcode 2 (by omega)
      have c3 := hcode 3 (by omega)
      simp [groupsText, digitChars] at c0 c1 c2 c3
      refine groupsAt_succ ⟨c0, ?_, ?_, ?_⟩ (ih (i + 4) (fun grp hg => hwf grp (by simp [hg])) (fun k hk => ?_))
      · rw [c1]; unfold isDig; omega
      · rw [c2]; unfold isDig; omega
      · rw [c3]; unfold isDig; omega
      · have := hcode (4 + k) (by simp [groupsText, digitChars] at hk ⊢; omega)
        have e : i + (4 + k) = i + 4 + k := by omega
        rw [e] at this
        rw [this]
        simp [groupsText, digitChars, List.getD_cons_succ]
        have e2 : 4 + k = k + 1 + 1 + 1 + 1 := by omega
        rw [e2]
        simp [List.getD_cons_succ]

/-- the sign -/
def signText (neg : Bool) : Str := if neg then [45] else []

theorem length_signText (neg : Bool) : (signText neg).length = if neg then 1 else 0 := by
  cases neg <;> rfl

/-- integer part of a grouped literal: sign, leading group, thousands groups -/
def groupedIntText (m : Nat) (neg : Bool) (a : List Nat) (rest : List (List Nat)) : Str :=
  signText neg ++ digitChars a ++ groupsText m rest

theorem length_groupedIntText (m : Nat) (neg : Bool) (a : List Nat) (rest : List (List Nat))
    (h3 : ∀ grp ∈ rest, grp.length = 3) :
    (groupedIntText m neg a rest).length = (if neg then 1 else 0) + a.length + 4 * rest.length := by
  simp [groupedIntText, length_signText, length_groupsText m rest h3, digitChars]; omega

/-- position facts of a grouped integer part followed by anything (`tail`) -/
theorem groupedIntAt_of_list (pre tail : Str) (m : Nat) (neg : Bool) (a : List Nat) (rest : List (List Nat))
    (ha : 1 ≤ a.length ∧ a.length ≤ 3) (had : ∀ x ∈ a, x < 10) (hrest : rest ≠ [])
    (hwf : ∀ grp ∈ rest, grp.length = 3 ∧ ∀ x ∈ grp, x < 10) :
    GroupedIntAt (pre ++ groupedIntText m neg a rest ++ tail).toArray m neg pre.length a.length rest.length := by
  have hs : (signText neg).length = if neg then 1 else 0 := length_signText neg
  refine ⟨fun hn => ?_, ha, ?_, fun t ht => ?_, ?_⟩
  · subst hn
    have := code_mid pre (groupedIntText m true a rest) tail 0 (by simp [groupedIntText, signText])
    simpa [groupedIntText, signText] using this
  · cases rest with
    | nil => exact absurd rfl hrest
    | cons b r => simp
  · have e : pre ++ groupedIntText m neg a rest ++ tail =
        (pre ++ signText neg) ++ digitChars a ++ (groupsText m rest ++ tail) := by
      simp [groupedIntText, List.append_assoc]
    rw [e]
    have := code_mid (pre ++ signText neg) (digitChars a) (groupsText m rest ++ tail) t (by simpa [digitChars] using ht)
    rw [List.length_append, hs] at this
    rw [this]
    exact isDig_digitChars a had t ht
  · have e : pre ++ groupedIntText m neg a rest ++ tail =
        (pre ++ signText neg ++ digitChars a) ++ groupsText m rest ++ tail := by
      simp [groupedIntText, List.append_assoc]
    rw [e]
    apply groupsAt_of_list m rest _ hwf
    intro k hk
    have := code_mid (pre ++ signText neg ++ digitChars a) (groupsText m rest) tail k hk
    simp only [List.length_append, hs] at this
    have e2 : (digitChars a).length = a.length := by simp [digitChars]
    rw [e2] at this
    exact this

/-! ### the contexts from the carrier -/

/-- the left part of a carrier: empty or ending with a blank; no character that could start a number -/
structure PreOK (T : Tables) (pre : Str) : Prop where
  blank : pre = [] ∨ pre.getLast? = some 32
  inert : ∀ c ∈ pre, clsTest T startItems false c = false

/-- the right part: empty or starting with a blank; no digit; and its first word does not CONTINUE the literal:
`fol post = false`, where `fol` is instantiated in `RTV.Props.C03Extract` with `RTV.NumExtract.isFollower` on the
culture's regenerated follower list (multiplier suffixes `k m b …`, round-number words `thousand dozen …`, fraction
connectors `over in out …`: RTV/Gen/NumFollow.lean).  The theorems below are about a digit FAMILY and do not use this
field; it is part of the carrier contract because the OTHER regexes of the real extractor list read such a word
together with the literal (`a 7777 b`, `total 1,234,567 k`), so without it the statement would not be one about the
real list (audit item 13; `RTV.Props.C03Extract.post_k_excluded` …). -/
structure PostOK (T : Tables) (fol : Str → Bool) (post : Str) : Prop where
  blank : post = [] ∨ post.head? = some 32
  noDigit : ∀ c ∈ post, T.digit c = false
  noFollower : fol post = false

theorem inert_noDigit {T : Tables} {c : Nat} (h : clsTest T startItems false c = false) : T.digit c = false := by
  simp [startItems, clsTest, Item.test] at h
  exact h.2.1

theorem leftCtx_of_pre {T : Tables} (pre body : Str) (h : PreOK T pre) : LeftCtx T (pre ++ body).toArray pre.length := by
  refine ⟨fun k hk => ?_, ?_⟩
  · rw [code_left pre body k hk]
    exact inert_noDigit (h.inert _ (getD_mem pre k hk))
  · rcases h.blank with h0 | h0
    · exact Or.inl (by simp [h0])
    · right
      have hne : pre ≠ [] := by intro h; simp [h] at h0
      have hlen : 0 < pre.length := List.length_pos_iff.2 hne
      rw [code_left pre body (pre.length - 1) (by omega)]
      rw [getD_of_lt _ _ (by omega)]
      rw [List.getLast?_eq_getElem?] at h0
      simpa [List.getElem?_eq_getElem (show pre.length - 1 < pre.length by omega)] using h0

theorem pre_inert_pos {T : Tables} (pre body : Str) (h : PreOK T pre) :
    ∀ k, k < pre.length → k < (pre ++ body).toArray.size →
      clsTest T startItems false (code (pre ++ body).toArray k) = false := by
  intro k hk _
  rw [code_left pre body k hk]
  exact h.inert _ (getD_mem pre k hk)

theorem rightCtx_of_post {T : Tables} {fol : Str → Bool} (A post : Str) (h : PostOK T fol post) : RightCtx (A ++ post).toArray A.length := by
  rcases h.blank with h0 | h0
  · left; simp [h0]
  · right
    rw [code_after]
    cases post with
    | nil => simp at h0
    | cons c r => simp at h0; simp [h0]

theorem post_noDigit_pos {T : Tables} {fol : Str → Bool} (A post : Str) (h : PostOK T fol post) :
    ∀ k, A.length ≤ k → k < (A ++ post).toArray.size → T.digit (code (A ++ post).toArray k) = false := by
  intro k hk hlt
  rw [code_toArray, getD_app_right _ _ _ hk]
  simp at hlt
  exact h.noDigit _ (getD_mem post (k - A.length) (by omega))

/-! ### grouped decimal literal -/

/-- sign, leading group, thousands groups, decimal mark, decimals -/
def groupedDecText (m d : Nat) (neg : Bool) (a : List Nat) (rest : List (List Nat)) (F : List Nat) : Str :=
  groupedIntText m neg a rest ++ d :: digitChars F

theorem length_groupedDecText (m d : Nat) (neg : Bool) (a : List Nat) (rest : List (List Nat)) (F : List Nat)
    (h3 : ∀ grp ∈ rest, grp.length = 3) :
    (groupedDecText m d neg a rest F).length = (if neg then 1 else 0) + a.length + 4 * rest.length + 1 + F.length := by
  simp [groupedDecText, length_groupedIntText m neg a rest h3, digitChars]; omega

theorem groupedDecAt_of_list (pre tail : Str) (m d : Nat) (neg : Bool) (a : List Nat) (rest : List (List Nat))
    (F : List Nat) (ha : 1 ≤ a.length ∧ a.length ≤ 3) (had : ∀ x ∈ a, x < 10) (hrest : rest ≠ [])
    (hwf : ∀ grp ∈ rest, grp.length = 3 ∧ ∀ x ∈ grp, x < 10) (hF : 1 ≤ F.length) (hFd : ∀ x ∈ F, x < 10) :
    GroupedDecAt (pre ++ groupedDecText m d neg a rest F ++ tail).toArray m d neg pre.length a.length rest.length
      F.length := by
  have h3 : ∀ grp ∈ rest, grp.length = 3 := fun grp hg => (hwf grp hg).1
  have hlen := length_groupedIntText m neg a rest h3
  have e1 : pre ++ groupedDecText m d neg a rest F ++ tail =
      pre ++ groupedIntText m neg a rest ++ (d :: digitChars F ++ tail) := by
    simp [groupedDecText, List.append_assoc]
  refine ⟨?_, ?_, hF, fun t ht => ?_⟩
  · rw [e1]; exact groupedIntAt_of_list pre _ m neg a rest ha had hrest hwf
  · rw [e1]
    have := code_after (pre ++ groupedIntText m neg a rest) (d :: digitChars F ++ tail)
    simp only [List.length_append, hlen] at this
    have e : pre.length + (if neg = true then 1 else 0) + a.length + 4 * rest.length =
        pre.length + ((if neg = true then 1 else 0) + a.length + 4 * rest.length) := by omega
    rw [e, this]; simp
  · have e2 : pre ++ groupedDecText m d neg a rest F ++ tail =
        (pre ++ groupedIntText m neg a rest ++ [d]) ++ digitChars F ++ tail := by
      simp [groupedDecText, List.append_assoc]
    rw [e2]
    have := code_mid (pre ++ groupedIntText m neg a rest ++ [d]) (digitChars F) tail t (by simpa [digitChars] using ht)
    simp only [List.length_append, hlen, List.length_singleton] at this
    have e : pre.length + (if neg = true then 1 else 0) + a.length + 4 * rest.length + 1 + t =
        pre.length + ((if neg = true then 1 else 0) + a.length + 4 * rest.length) + 1 + t := by omega
    rw [e, this]
    exact isDig_digitChars F hFd t ht

/-! ### the generic extraction theorems (any family, any carrier) -/

theorem sl_mid (pre X post : Str) : sl (pre ++ X ++ post) pre.length X.length = X := by
  simp [sl, List.append_assoc]

/-- what is asked of the remaining parameters of `BaseNumberExtractor.extract` at the literal `[a, e)`: no negative
term ends at `a`, no ambiguity match meets the literal -/
structure Quiet (neg : Nat → Option (Nat × Nat)) (ambs : List (List (Nat × Nat))) (a e : Nat) : Prop where
  noNeg : neg a = none
  noAmb : ∀ amb ∈ ambs, ∀ p ∈ amb, ¬ (p.1 < e ∧ p.2 > a)

theorem quiet_plain (a e : Nat) : Quiet (fun _ => none) [] a e := ⟨rfl, fun _ h => by cases h⟩

/-- a grouped integer literal in a carrier: ONE result, the WHOLE literal — for every family that is `FamilyOK` and
contains `IntegerRegexDefinition(placeholder, mark)` -/
theorem extract_groupedInt {T : Tables} (hT : TablesOK T) (sp : Nat → Bool) (hsp : ∀ c, isDig c → sp c = false)
    (fam : List (Nat × RE)) (hfam : FamilyOK fam = true) {ph : RE} (hph : IsPlaceHolder ph) {m : Nat}
    (hm : m = 44 ∨ m = 46) {idx : Nat} (hidx : (idx, integerRegexDefinition ph m) ∈ fam)
    (pre post : Str) (hpre : PreOK T pre) {fol : Str → Bool} (hpost : PostOK T fol post) (neg : Bool) (a : List Nat)
    (rest : List (List Nat)) (ha : 1 ≤ a.length ∧ a.length ≤ 3) (had : ∀ x ∈ a, x < 10) (hrest : rest ≠ [])
    (hwf : ∀ grp ∈ rest, grp.length = 3 ∧ ∀ x ∈ grp, x < 10)
    (ng : Nat → Option (Nat × Nat)) (ambs : List (List (Nat × Nat)))
    (hq : Quiet ng ambs pre.length (pre.length + (groupedIntText m neg a rest).length)) :
    ∃ tag, tag ∈ fam.map (·.1) ∧
      numExtract sp (pre ++ groupedIntText m neg a rest ++ post)
        (matchesOf T (pre ++ groupedIntText m neg a rest ++ post).toArray fam) ng ambs =
        [⟨pre.length, (groupedIntText m neg a rest).length, strip sp (groupedIntText m neg a rest), tag⟩] := by
  have h3 : ∀ grp ∈ rest, grp.length = 3 := fun grp hg => (hwf grp hg).1
  have hlen := length_groupedIntText m neg a rest h3
  have lit := groupedIntAt_of_list pre post m neg a rest ha had hrest hwf
  have hl := leftCtx_of_pre pre (groupedIntText m neg a rest ++ post) hpre
  rw [← List.append_assoc] at hl
  have hr := rightCtx_of_post (pre ++ groupedIntText m neg a rest) post hpost
  have hee : (pre ++ groupedIntText m neg a rest).length =
      pre.length + (if neg then 1 else 0) + a.length + 4 * rest.length := by
    rw [List.length_append, hlen]; omega
  rw [hee] at hr
  have hfirst := integerDef_first hT hph hm hl lit hr
  have hpre' := pre_inert_pos pre (groupedIntText m neg a rest ++ post) hpre
  rw [← List.append_assoc] at hpre'
  have hpost' := post_noDigit_pos (pre ++ groupedIntText m neg a rest) post hpost
  rw [hee] at hpost'
  have hdig := lit.lead 0 (by omega)
  obtain ⟨tag, htag, heq⟩ := extract_single (T := T) sp (pre ++ groupedIntText m neg a rest ++ post) fam ng ambs hfam
    (a := pre.length) (e := pre.length + (if neg then 1 else 0) + a.length + 4 * rest.length)
    (by have := ha.1; omega) (by simp [hlen]; omega) hpre' hpost'
    (code (pre ++ groupedIntText m neg a rest ++ post).toArray (pre.length + (if neg then 1 else 0) + 0))
    (by rw [code_toArray]; exact getD_mem _ _ (by simp [hlen]; have := ha.1; omega))
    (hsp _ hdig) ⟨_, hidx, hfirst⟩ hq.noNeg (by
      have := hq.noAmb
      rw [hlen] at this
      intro amb h1 p h2
      have := this amb h1 p h2
      omega)
  refine ⟨tag, htag, ?_⟩
  rw [heq]
  have e1 : pre.length + (if neg then 1 else 0) + a.length + 4 * rest.length - pre.length =
      (groupedIntText m neg a rest).length := by rw [hlen]; omega
  rw [e1, sl_mid]

/-- a grouped decimal literal in a carrier: ONE result, the WHOLE literal — for every family that is `FamilyOK` and
contains `DoubleRegexDefinition(placeholder, tm, dm)` with `{tm, dm}` = the literal's marks, in either order -/
theorem extract_groupedDec {T : Tables} (hT : TablesOK T) (sp : Nat → Bool) (hsp : ∀ c, isDig c → sp c = false)
    (fam : List (Nat × RE)) (hfam : FamilyOK fam = true) {ph : RE} (hph : IsPlaceHolder ph) {m d : Nat}
    (hm : m = 44 ∨ m = 46) (hd : d = 44 ∨ d = 46) (hmd : m ≠ d) {idx : Nat}
    (hidx : (idx, doubleRegexDefinition ph m d) ∈ fam ∨ (idx, doubleRegexDefinition ph d m) ∈ fam)
    (pre post : Str) (hpre : PreOK T pre) {fol : Str → Bool} (hpost : PostOK T fol post) (neg : Bool) (a : List Nat)
    (rest : List (List Nat)) (F : List Nat) (ha : 1 ≤ a.length ∧ a.length ≤ 3) (had : ∀ x ∈ a, x < 10)
    (hrest : rest ≠ []) (hwf : ∀ grp ∈ rest, grp.length = 3 ∧ ∀ x ∈ grp, x < 10) (hF : 1 ≤ F.length)
    (hFd : ∀ x ∈ F, x < 10)
    (ng : Nat → Option (Nat × Nat)) (ambs : List (List (Nat × Nat)))
    (hq : Quiet ng ambs pre.length (pre.length + (groupedDecText m d neg a rest F).length)) :
    ∃ tag, tag ∈ fam.map (·.1) ∧
      numExtract sp (pre ++ groupedDecText m d neg a rest F ++ post)
        (matchesOf T (pre ++ groupedDecText m d neg a rest F ++ post).toArray fam) ng ambs =
        [⟨pre.length, (groupedDecText m d neg a rest F).length, strip sp (groupedDecText m d neg a rest F), tag⟩] := by
  have h3 : ∀ grp ∈ rest, grp.length = 3 := fun grp hg => (hwf grp hg).1
  have hlen := length_groupedDecText m d neg a rest F h3
  have lit := groupedDecAt_of_list pre post m d neg a rest F ha had hrest hwf hF hFd
  have hl := leftCtx_of_pre pre (groupedDecText m d neg a rest F ++ post) hpre
  rw [← List.append_assoc] at hl
  have hr := rightCtx_of_post (pre ++ groupedDecText m d neg a rest F) post hpost
  have hee : (pre ++ groupedDecText m d neg a rest F).length =
      pre.length + (if neg then 1 else 0) + a.length + 4 * rest.length + 1 + F.length := by
    rw [List.length_append, hlen]; omega
  rw [hee] at hr
  have hfirst : ∃ p ∈ fam, firstEnd T (pre ++ groupedDecText m d neg a rest F ++ post).toArray p.2 pre.length =
      some (pre.length + (if neg then 1 else 0) + a.length + 4 * rest.length + 1 + F.length) := by
    rcases hidx with h | h
    · exact ⟨_, h, doubleDef_first_own hT hph hm hd hmd hl lit hr⟩
    · exact ⟨_, h, doubleDef_first_swapped hT hph hm hd hmd hl lit hr⟩
  have hpre' := pre_inert_pos pre (groupedDecText m d neg a rest F ++ post) hpre
  rw [← List.append_assoc] at hpre'
  have hpost' := post_noDigit_pos (pre ++ groupedDecText m d neg a rest F) post hpost
  rw [hee] at hpost'
  have hdig := lit.int.lead 0 (by omega)
  obtain ⟨tag, htag, heq⟩ := extract_single (T := T) sp (pre ++ groupedDecText m d neg a rest F ++ post) fam ng ambs hfam
    (a := pre.length) (e := pre.length + (if neg then 1 else 0) + a.length + 4 * rest.length + 1 + F.length)
    (by omega) (by simp [hlen]; omega) hpre' hpost'
    (code (pre ++ groupedDecText m d neg a rest F ++ post).toArray (pre.length + (if neg then 1 else 0) + 0))
    (by rw [code_toArray]; exact getD_mem _ _ (by simp [hlen]; omega))
    (hsp _ hdig) hfirst hq.noNeg (by
      have := hq.noAmb
      rw [hlen] at this
      intro amb h1 p h2
      have := this amb h1 p h2
      omega)
  refine ⟨tag, htag, ?_⟩
  rw [heq]
  have e1 : pre.length + (if neg then 1 else 0) + a.length + 4 * rest.length + 1 + F.length - pre.length =
      (groupedDecText m d neg a rest F).length := by rw [hlen]; omega
  rw [e1, sl_mid]

end RTV.NumExtract
