import RTV.Lemmas.Ip6
import RTV.Lemmas.IpChars
/-!
What a backtracking engine reports FIRST for the regenerated `BaseIp.Ipv6Regex` at the start of a delimited address
text (`ipv6RE_firstEnd`).  The set of ends is not a singleton (`1::2` is also a match at the start of `1::2:3`), so
this needs the priority order of `ends`: a small calculus of "first end" lemmas for `seq` / `alt` / greedy `rep`, the
observation that on an address text every step of the pattern is deterministic (a hextet is a maximal run of hex
digits), and emptiness of the alternatives that are tried before the one that fits the text's form.
-/
namespace RTV.Re

variable {T : Tables} {s : Array Nat}

/-! ### first-end calculus -/

theorem firstEnd_eq_some_iff {r : RE} {i j : Nat} : firstEnd T s r i = some j ↔ ∃ t, ends T s r i = j :: t := by
  unfold firstEnd
  cases ends T s r i with
  | nil => simp
  | cons x t => simp

theorem ends_nil_of_forall {r : RE} {i : Nat} (h : ∀ j, j ∉ ends T s r i) : ends T s r i = [] :=
  List.eq_nil_iff_forall_not_mem.2 h

theorem firstEnd_seq {a b : RE} {i k j : Nat} (ha : firstEnd T s a i = some k) (hb : firstEnd T s b k = some j) :
    firstEnd T s (.seq a b) i = some j := by
  obtain ⟨ta, ea⟩ := firstEnd_eq_some_iff.1 ha
  obtain ⟨tb, eb⟩ := firstEnd_eq_some_iff.1 hb
  unfold firstEnd
  rw [ends, ea]
  simp [eb]

theorem firstEnd_seq_eps {a : RE} {i : Nat} : firstEnd T s (.seq a .eps) i = firstEnd T s a i := by
  unfold firstEnd
  rw [ends]
  have : ∀ l : List Nat, l.flatMap (ends T s .eps) = l := by
    intro l; induction l with
    | nil => rfl
    | cons x t ih => simp [List.flatMap_cons, ends]
  rw [this]

theorem firstEnd_grp {n : Nat} {a : RE} {i : Nat} : firstEnd T s (.grp n a) i = firstEnd T s a i := by
  unfold firstEnd; rw [ends]

theorem firstEnd_alt_left {a b : RE} {i j : Nat} (h : firstEnd T s a i = some j) :
    firstEnd T s (.alt a b) i = some j := by
  obtain ⟨t, e⟩ := firstEnd_eq_some_iff.1 h
  unfold firstEnd; rw [ends, e]; simp

theorem firstEnd_alt_right {a b : RE} {i : Nat} (h : ends T s a i = []) :
    firstEnd T s (.alt a b) i = firstEnd T s b i := by
  unfold firstEnd; rw [ends, h]; simp

theorem firstEnd_wordB {i : Nat} (h : isWordB T s i = true) : firstEnd T s .wordB i = some i := by
  unfold firstEnd; rw [ends]; simp [h]

theorem firstEnd_nwordB {i : Nat} (h : isWordB T s i = false) : firstEnd T s .nwordB i = some i := by
  unfold firstEnd; rw [ends]; simp [h]

theorem firstEnd_eps {i : Nat} : firstEnd T s .eps i = some i := by unfold firstEnd; rw [ends]; rfl

/-- `n` steps, each the engine's first choice -/
def HeadChain (f : Nat → List Nat) : Nat → Nat → Nat → Prop
  | 0, i, k => k = i
  | n + 1, i, k => ∃ m, (f i).head? = some m ∧ HeadChain f n m k

/-- a greedy repeat first tries as many iterations as possible: if the first choices lead through `n` iterations to
`k` and no further iteration is possible there, `k` is its first end -/
theorem repEnds_first {f : Nat → List Nat} (mx : Nat) :
    ∀ mn i n k, n ≤ mx → mn ≤ n → HeadChain f n i k → (n = mx ∨ f k = []) →
      (repEnds f true mx mn i).head? = some k := by
  induction mx with
  | zero =>
    intro mn i n k h1 h2 hc _
    have : n = 0 := by omega
    subst this
    simp only [HeadChain] at hc
    subst hc
    have : mn = 0 := by omega
    subst this
    simp [repEnds]
  | succ mx ih =>
    intro mn i n k h1 h2 hc hstop
    rw [repEnds]
    cases n with
    | zero =>
      simp only [HeadChain] at hc
      subst hc
      have : mn = 0 := by omega
      subst this
      rcases hstop with h | h
      · omega
      · simp [h]
    | succ n' =>
      obtain ⟨m, hm, hc⟩ := hc
      have hstop' : n' = mx ∨ f k = [] := by
        rcases hstop with h | h
        · exact .inl (by omega)
        · exact .inr h
      have := ih (mn - 1) m n' k (by omega) (by omega) hc hstop'
      cases hf : f i with
      | nil => simp [hf] at hm
      | cons x t =>
        simp [hf] at hm
        subst hm
        cases hr : repEnds f true mx (mn - 1) x with
        | nil => simp [hr] at this
        | cons y t' =>
          simp [hr] at this
          subst this
          simp [hr]

theorem firstEnd_rep {a : RE} {mn mx i n k : Nat} (h1 : n ≤ mx) (h2 : mn ≤ n) (hc : HeadChain (ends T s a) n i k)
    (hstop : n = mx ∨ ends T s a k = []) : firstEnd T s (.rep a mn mx true) i = some k := by
  unfold firstEnd; rw [ends]; exact repEnds_first mx mn i n k h1 h2 hc hstop

theorem Chain_of_Iter {f : Nat → List Nat} {R : Nat → Nat → Prop} (h : ∀ i k, R i k → (f i).head? = some k) (n : Nat) :
    ∀ i k, Iter R n i k → HeadChain f n i k := by
  induction n with
  | zero => intro i k hk; exact hk
  | succ n ih => intro i k ⟨m, hm, hk⟩; exact ⟨m, h _ _ hm, ih _ _ hk⟩

/-! ### the steps of the pattern on an address text -/

theorem not_hex_58 : ¬ isHexI 58 := by unfold isHexI; omega

theorem ends_hexC_pos {i : Nat} (h : isHexI (code s i)) : ends T s (.seq hexC .eps) i = [i + 1] := by
  unfold hexC
  rw [ends, ends]
  have hp : i < s.size := code_lt_size (by unfold isHexI at h; omega)
  simp [hp, clsTest_hexC.2 h, ends]

theorem ends_hexC_neg {i : Nat} (h : ¬ isHexI (code s i)) : ends T s (.seq hexC .eps) i = [] := by
  unfold hexC
  rw [ends, ends]
  have : clsTest T [.range 48 57, .range 65 70, .range 97 102, .range 65 70, .range 97 102] false (code s i) = false := by
    cases hc : clsTest T [.range 48 57, .range 65 70, .range 97 102, .range 65 70, .range 97 102] false (code s i) with
    | false => rfl
    | true => exact absurd (clsTest_hexC.1 hc) h
  simp [this]

/-- a hextet followed by a non-hex character: the engine's first end is the end of the hextet -/
theorem firstEnd_hx {g i k : Nat} (h : HextetAt s i k) (hn : ¬ isHexI (code s k)) : firstEnd T s (hx g) i = some k := by
  obtain ⟨n, n1, n4, hr, rfl⟩ := h
  unfold hx
  rw [firstEnd_grp, firstEnd_seq_eps]
  refine firstEnd_rep (n := n) n4 n1 ?_ (.inr ?_)
  · clear hn n1 n4
    induction n generalizing i with
    | zero => rfl
    | succ n ih =>
      have h0 := (RunAt_succ.1 hr).1
      refine ⟨i + 1, by rw [ends_hexC_pos h0]; rfl, ?_⟩
      have := ih (i := i + 1) (RunAt_succ.1 hr).2
      rwa [show i + 1 + n = i + (n + 1) by omega] at this
  · exact ends_hexC_neg hn

theorem ends_hx_nil {g i : Nat} (hn : ¬ isHexI (code s i)) : ends T s (.seq (hx g) .eps) i = [] := by
  apply ends_nil_of_forall
  intro j hj
  obtain ⟨k, hk, _⟩ := seq_hx.1 hj
  exact hn (HextetAt_first hk)

theorem firstEnd_colon {i : Nat} (h : code s i = 58) : firstEnd T s colon i = some (i + 1) := by
  unfold firstEnd colon
  rw [ends]
  have hp : i < s.size := code_lt_size (by omega)
  simp [hp, clsTest, Item.test, h]

theorem ends_colon_nil {i : Nat} {c : RE} (h : code s i ≠ 58) : ends T s (.seq colon c) i = [] := by
  apply ends_nil_of_forall
  intro j hj
  unfold colon at hj
  have := (seq_range (by decide : 0 < 58)).1 hj
  omega

/-- `(h:)` -/
theorem firstEnd_hcolon {g i k : Nat} (h : HC s i k) : firstEnd T s (.seq (hcolon g) .eps) i = some k := by
  obtain ⟨m, hh, c, rfl⟩ := h
  rw [firstEnd_seq_eps]
  unfold hcolon
  rw [firstEnd_grp]
  refine firstEnd_seq (firstEnd_hx hh (by rw [c]; exact not_hex_58)) ?_
  rw [firstEnd_seq_eps]
  exact firstEnd_colon c

theorem ends_hcolon_nil {g i : Nat} (hn : ¬ isHexI (code s i)) : ends T s (.seq (hcolon g) .eps) i = [] := by
  apply ends_nil_of_forall
  intro j hj
  obtain ⟨m, hh, _⟩ := mem_hcolon.1 hj
  exact hn (HextetAt_first hh)

/-- `(:h)` where the hextet is followed by a non-hex character -/
def CHmax (s : Array Nat) (i k : Nat) : Prop := CH s i k ∧ ¬ isHexI (code s k)

theorem firstEnd_colonh {g i k : Nat} (h : CHmax s i k) : firstEnd T s (.seq (colonh g) .eps) i = some k := by
  obtain ⟨⟨c, hh⟩, hn⟩ := h
  rw [firstEnd_seq_eps]
  unfold colonh
  rw [firstEnd_grp]
  refine firstEnd_seq (firstEnd_colon c) ?_
  rw [firstEnd_seq_eps]
  exact firstEnd_hx hh hn

theorem ends_colonh_nil {g i : Nat} (hn : code s i ≠ 58) : ends T s (.seq (colonh g) .eps) i = [] := by
  apply ends_nil_of_forall
  intro j hj
  exact hn (mem_colonh.1 hj).1

/-- on an address text every `(:h)` step ends at a non-hex character -/
theorem Iter_CHmax {b : Nat} : ∀ {k j : Nat}, Iter (CH s) b k j → ¬ isHexI (code s j) → Iter (CHmax s) b k j := by
  induction b with
  | zero => intro k j h _; exact h
  | succ n ih =>
    intro k j ⟨m, hm, h⟩ hn
    refine ⟨m, ⟨hm, ?_⟩, ih h hn⟩
    cases n with
    | zero => simp only [Iter] at h; subst h; exact hn
    | succ n' =>
      obtain ⟨m', hm', _⟩ := h
      rw [hm'.1]; exact not_hex_58

/-! ### `(h:)` chains are deterministic and stop at the `::` -/

theorem HextetAt_colon_det {i m m' : Nat} (h : HextetAt s i m) (h' : HextetAt s i m')
    (c : ¬ isHexI (code s m)) (c' : ¬ isHexI (code s m')) : m = m' := by
  obtain ⟨n, _, _, r, rfl⟩ := h
  obtain ⟨n', _, _, r', rfl⟩ := h'
  by_cases hlt : n < n'
  · exact absurd (r' n hlt) c
  · by_cases hgt : n' < n
    · exact absurd (r n' hgt) c'
    · omega

theorem HC_det {i k k' : Nat} (h : HC s i k) (h' : HC s i k') : k = k' := by
  obtain ⟨m, hh, c, rfl⟩ := h
  obtain ⟨m', hh', c', rfl⟩ := h'
  have := HextetAt_colon_det hh hh' (by rw [c]; exact not_hex_58) (by rw [c']; exact not_hex_58)
  omega

/-- the left part of an address text: `a` groups `h:` from `i` to `k`, and no further group starts at `k` -/
structure LeftGroups (s : Array Nat) (i a k : Nat) : Prop where
  iter : Iter (HC s) a i k
  stop : ¬ isHexI (code s k)

/-- any `(h:)` chain from `i` is a prefix of the text's chain: at most `a` steps, `a` steps end at `k`, fewer end at a
hex digit -/
theorem LeftGroups_chain {a : Nat} : ∀ {i k : Nat}, LeftGroups s i a k → ∀ n x, Iter (HC s) n i x →
    n ≤ a ∧ (n = a → x = k) ∧ (n < a → isHexI (code s x)) := by
  induction a with
  | zero =>
    intro i k h n x hx
    have hk : k = i := h.iter
    subst hk
    cases n with
    | zero => exact ⟨by omega, fun _ => hx, fun h => by omega⟩
    | succ n' =>
      obtain ⟨m, ⟨m', hh, _⟩, _⟩ := hx
      exact absurd (HextetAt_first hh) h.stop
  | succ a ih =>
    intro i k h n x hx
    obtain ⟨m, hm, hrest⟩ := h.iter
    cases n with
    | zero =>
      simp only [Iter] at hx
      subst hx
      obtain ⟨m', hh, _⟩ := hm
      exact ⟨by omega, fun h => by omega, fun _ => HextetAt_first hh⟩
    | succ n' =>
      obtain ⟨y, hy, hx⟩ := hx
      have := HC_det hm hy
      subst this
      have := ih ⟨hrest, h.stop⟩ n' x hx
      exact ⟨by omega, fun h => this.2.1 (by omega), fun h => this.2.2 (by omega)⟩

/-! ### the pattern, piece by piece -/

/-- `(\b Merged \b)` -/
def sect1 : RE := .seq (.grp 1 (.seq .wordB (.seq merged6 (.seq .wordB .eps)))) .eps

def oth1 : RE := .seq .nwordB (.seq colon (.seq colon (.seq .nwordB .eps)))
def oth2 : RE := .seq .nwordB (.seq colon (.seq (.rep (.seq (colonh 51) .eps) 1 7 true) (.seq .wordB .eps)))
def oth3 : RE := .seq .wordB (.seq (.rep (.seq (hcolon 53) .eps) 1 7 true) (.seq colon (.seq .nwordB .eps)))

theorem ipv6RE_eq : ipv6RE = .seq (.alt sect1 (.seq (.grp 50 (.seq (.alt oth1 (.alt oth2 oth3)) .eps)) .eps)) .eps := rfl

/-- context of an address text at `[i, j)`: hex digits are word characters, `:` is not, no word character touches
the text, and no `:` follows it -/
structure Ctx (T : Tables) (s : Array Nat) (i j : Nat) : Prop where
  hwx : ∀ c, isHexI c → T.word c = true
  hc : T.word 58 = false
  left : i = 0 ∨ wordAt T s (i - 1) = false
  right : wordAt T s j = false
  nocolon : code s j ≠ 58

theorem Ctx.nonhex {i j : Nat} (c : Ctx T s i j) : ¬ isHexI (code s j) := by
  intro h
  have := wordAt_hex c.hwx h
  rw [c.right] at this; cases this

theorem Ctx.wordB_hex {i j : Nat} (c : Ctx T s i j) (h : isHexI (code s i)) : isWordB T s i = true := by
  rw [wordB_left c.left]; exact wordAt_hex c.hwx h

theorem Ctx.wordB_colon {i j : Nat} (c : Ctx T s i j) (h : code s i = 58) : isWordB T s i = false := by
  rw [wordB_left c.left]; exact wordAt_colon c.hc h

theorem Ctx.wordB_end_hex {i j : Nat} (c : Ctx T s i j) (hj : 0 < j) (h : isHexI (code s (j - 1))) :
    isWordB T s j = true := by
  rw [wordB_right c.right hj]; exact wordAt_hex c.hwx h

theorem Ctx.wordB_end_colon {i j : Nat} (c : Ctx T s i j) (hj : 0 < j) (h : code s (j - 1) = 58) :
    isWordB T s j = false := by
  rw [wordB_right c.right hj]; exact wordAt_colon c.hc h

theorem ends_wordB_nil {i : Nat} {c : RE} (h : isWordB T s i = false) : ends T s (.seq .wordB c) i = [] := by
  apply ends_nil_of_forall
  intro j hj
  have := (seq_wordB.1 hj).1
  rw [h] at this; cases this

theorem ends_nwordB_nil {i : Nat} {c : RE} (h : isWordB T s i = true) : ends T s (.seq .nwordB c) i = [] := by
  apply ends_nil_of_forall
  intro j hj
  have := (seq_nwordB.1 hj).1
  rw [h] at this; cases this

/-- the first section, given the engine's first end of `Merged` -/
theorem firstEnd_sect1 {i j : Nat} (hi : isWordB T s i = true) (hj : isWordB T s j = true)
    (hm : firstEnd T s merged6 i = some j) : firstEnd T s sect1 i = some j := by
  unfold sect1
  rw [firstEnd_seq_eps, firstEnd_grp]
  refine firstEnd_seq (firstEnd_wordB hi) (firstEnd_seq hm ?_)
  rw [firstEnd_seq_eps]; exact firstEnd_wordB hj

theorem ends_sect1_nil_of_nwordB {i : Nat} (hi : isWordB T s i = false) : ends T s sect1 i = [] := by
  apply ends_nil_of_forall
  intro j hj
  unfold sect1 at hj
  rw [seq_grp, seq_seq, seq_wordB] at hj
  rw [hi] at hj; cases hj.1

/-! #### `Merged`: what is tried before the alternative that fits -/

theorem ends_basic6_nil {i a k : Nat} (hl : LeftGroups s i a k) (ha : a ≤ 6) : ends T s (.seq basic6 .eps) i = [] := by
  apply ends_nil_of_forall
  intro j hj
  unfold basic6 at hj
  simp only [seq_grp, seq_seq, seq_rep_hcolon] at hj
  obtain ⟨n, n1, _, x, hx, _⟩ := hj
  have := (LeftGroups_chain hl n x hx).1
  omega

theorem ends_ell1_nil {i : Nat} (h : isHexI (code s i)) : ends T s (.seq ell1 .eps) i = [] := by
  apply ends_nil_of_forall
  intro j hj
  unfold ell1 colon at hj
  simp only [seq_grp, seq_seq, seq_range (by decide : 0 < 58)] at hj
  unfold isHexI at h; omega

theorem Iter_CH_first {b k j : Nat} (hb : 1 ≤ b) (h : Iter (CH s) b k j) : code s k = 58 := by
  cases b with
  | zero => omega
  | succ n => obtain ⟨m, hm, _⟩ := h; exact hm.1

theorem ends_ellK_nil {G k' i a k : Nat} (hl : LeftGroups s i a k) (hk : k' < a) :
    ends T s (.seq (ellK G k') .eps) i = [] := by
  apply ends_nil_of_forall
  intro j hj
  unfold ellK at hj
  simp only [seq_grp, seq_seq, seq_eps, seq_rep_hcolon, seq_rep_colonh, mem_eps] at hj
  obtain ⟨n, n1, n2, x, hx, b, b1, _, y, hy, _⟩ := hj
  have hhex := (LeftGroups_chain hl n x hx).2.2 (by omega)
  have := Iter_CH_first b1 hy
  rw [this] at hhex
  exact not_hex_58 hhex

/-- the alternative `(h:){a}((:h){1,7-a})` on a text `a` groups `::` `b` groups -/
theorem firstEnd_ellK {G i a k b j : Nat} (c : Ctx T s i j) (hl : Iter (HC s) a i k) (hr : Iter (CH s) b k j)
    (hb : 1 ≤ b) (hab : a + b ≤ 7) : firstEnd T s (.seq (ellK G a) .eps) i = some j := by
  rw [firstEnd_seq_eps]
  unfold ellK
  rw [firstEnd_grp]
  refine firstEnd_seq (firstEnd_rep (n := a) (Nat.le_refl _) (Nat.le_refl _)
    (Chain_of_Iter (fun _ _ h => firstEnd_hcolon h) a i k hl) (.inl rfl)) ?_
  rw [firstEnd_seq_eps, firstEnd_grp, firstEnd_seq_eps]
  exact firstEnd_rep (n := b) (by omega) hb
    (Chain_of_Iter (fun _ _ h => firstEnd_colonh h) b k j (Iter_CHmax hr c.nonhex)) (.inr (ends_colonh_nil c.nocolon))

theorem firstEnd_basic6 {i k j : Nat} (c : Ctx T s i j) (hl : Iter (HC s) 7 i k) (hh : HextetAt s k j) :
    firstEnd T s (.seq basic6 .eps) i = some j := by
  rw [firstEnd_seq_eps]
  unfold basic6
  rw [firstEnd_grp]
  refine firstEnd_seq (firstEnd_rep (n := 7) (Nat.le_refl _) (Nat.le_refl _)
    (Chain_of_Iter (fun _ _ h => firstEnd_hcolon h) 7 i k hl) (.inl rfl)) ?_
  rw [firstEnd_seq_eps]
  exact firstEnd_hx hh c.nonhex

/-- `Merged` on `a` groups `::` `b` groups, `a, b ≥ 1` -/
theorem firstEnd_merged6_ab {i a k b j : Nat} (c : Ctx T s i j) (hl : Iter (HC s) a i k) (hr : Iter (CH s) b k j)
    (ha : 1 ≤ a) (hb : 1 ≤ b) (hab : a + b ≤ 7) : firstEnd T s merged6 i = some j := by
  have hk58 := Iter_CH_first hb hr
  have lg : LeftGroups s i a k := ⟨hl, by rw [hk58]; exact not_hex_58⟩
  have hhex := Iter_HC_first ha hl
  unfold merged6
  rw [firstEnd_grp, firstEnd_seq_eps, firstEnd_alt_right (ends_basic6_nil lg (by omega)),
    firstEnd_alt_right (ends_ell1_nil hhex)]
  have hmain : ∀ G, firstEnd T s (.seq (ellK G a) .eps) i = some j := fun G => firstEnd_ellK c hl hr hb hab
  have hnil : ∀ G k', k' < a → ends T s (.seq (ellK G k') .eps) i = [] := fun G k' h => ends_ellK_nil lg h
  have : a = 1 ∨ a = 2 ∨ a = 3 ∨ a = 4 ∨ a = 5 ∨ a = 6 := by omega
  rcases this with rfl | rfl | rfl | rfl | rfl | rfl
  · exact firstEnd_alt_left (hmain 10)
  · rw [firstEnd_alt_right (hnil 10 1 (by omega))]
    exact firstEnd_alt_left (hmain 16)
  · rw [firstEnd_alt_right (hnil 10 1 (by omega)), firstEnd_alt_right (hnil 16 2 (by omega))]
    exact firstEnd_alt_left (hmain 22)
  · rw [firstEnd_alt_right (hnil 10 1 (by omega)), firstEnd_alt_right (hnil 16 2 (by omega)),
      firstEnd_alt_right (hnil 22 3 (by omega))]
    exact firstEnd_alt_left (hmain 28)
  · rw [firstEnd_alt_right (hnil 10 1 (by omega)), firstEnd_alt_right (hnil 16 2 (by omega)),
      firstEnd_alt_right (hnil 22 3 (by omega)), firstEnd_alt_right (hnil 28 4 (by omega))]
    exact firstEnd_alt_left (hmain 34)
  · rw [firstEnd_alt_right (hnil 10 1 (by omega)), firstEnd_alt_right (hnil 16 2 (by omega)),
      firstEnd_alt_right (hnil 22 3 (by omega)), firstEnd_alt_right (hnil 28 4 (by omega)),
      firstEnd_alt_right (hnil 34 5 (by omega))]
    exact firstEnd_alt_left (hmain 40)

/-! #### `a` groups then `::` and nothing after it: the first section has no match, the third "other" form fits -/

theorem mem_ellK {G k' i j : Nat} : j ∈ ends T s (.seq (ellK G k') .eps) i ↔
    ∃ x, Iter (HC s) k' i x ∧ ∃ b, 1 ≤ b ∧ b ≤ 7 - k' ∧ Iter (CH s) b x j := by
  unfold ellK
  simp only [seq_grp, seq_seq, seq_eps, seq_rep_hcolon, seq_rep_colonh, mem_eps]
  constructor
  · rintro ⟨n, n1, n2, x, hx, b, b1, b2, y, hy, rfl⟩
    have : n = k' := by omega
    subst this
    exact ⟨x, hx, b, b1, b2, hy⟩
  · rintro ⟨x, hx, b, b1, b2, hy⟩
    exact ⟨k', Nat.le_refl _, Nat.le_refl _, x, hx, b, b1, b2, j, hy, rfl⟩

/-- text: `a ≥ 1` groups `h:` from `i` to `k`, a second `:` at `k`, then the delimiter at `j = k + 1` -/
theorem merged6_ends_b0 {i a k j : Nat} (c : Ctx T s i j) (hl : Iter (HC s) a i k) (ha : 1 ≤ a) (ha7 : a ≤ 7)
    (hk : code s k = 58) (hj : j = k + 1) : ∀ x ∈ ends T s merged6 i, isWordB T s x = false := by
  have lg : LeftGroups s i a k := ⟨hl, by rw [hk]; exact not_hex_58⟩
  have hhex := Iter_HC_first ha hl
  have hell : ∀ G k' x, x ∉ ends T s (.seq (ellK G k') .eps) i := by
    intro G k' x hx
    obtain ⟨y, hy, b, b1, _, hb⟩ := mem_ellK.1 hx
    have ch := LeftGroups_chain lg k' y hy
    have h58 := Iter_CH_first b1 hb
    by_cases hlt : k' < a
    · have := ch.2.2 hlt
      rw [h58] at this; exact not_hex_58 this
    · have : y = k := ch.2.1 (by omega)
      subst this
      cases b with
      | zero => omega
      | succ n =>
        obtain ⟨m, hm, _⟩ := hb
        have := HextetAt_first hm.2
        rw [← hj] at this
        exact c.nonhex this
  intro x hx
  unfold merged6 at hx
  rw [mem_grp, seq_eps_right] at hx
  simp only [mem_alt] at hx
  rcases hx with h | h | h | h | h | h | h | h | h
  · exfalso
    unfold basic6 at h
    simp only [seq_grp, seq_seq, seq_eps, seq_rep_hcolon, seq_hx] at h
    obtain ⟨n, n1, _, y, hy, z, hz, _⟩ := h
    have ch := LeftGroups_chain lg n y hy
    have : y = k := ch.2.1 (by omega)
    subst this
    exact lg.stop (HextetAt_first hz)
  · exfalso
    have := ends_ell1_nil (T := T) hhex
    rw [this] at h; cases h
  · exact absurd h (hell _ _ _)
  · exact absurd h (hell _ _ _)
  · exact absurd h (hell _ _ _)
  · exact absurd h (hell _ _ _)
  · exact absurd h (hell _ _ _)
  · exact absurd h (hell _ _ _)
  · unfold ell8 colon at h
    simp only [seq_grp, seq_seq, seq_eps, seq_rep_hcolon, seq_range (by decide : 0 < 58), mem_eps] at h
    obtain ⟨n, n1, _, y, hy, _, _, rfl⟩ := h
    have ch := LeftGroups_chain lg n y hy
    have : y = k := ch.2.1 (by omega)
    subst this
    rw [← hj]
    exact c.wordB_end_colon (by omega) (by rw [hj]; simpa using hk)

theorem ends_sect1_nil_b0 {i a k j : Nat} (c : Ctx T s i j) (hl : Iter (HC s) a i k) (ha : 1 ≤ a) (ha7 : a ≤ 7)
    (hk : code s k = 58) (hj : j = k + 1) : ends T s sect1 i = [] := by
  apply ends_nil_of_forall
  intro y hy
  unfold sect1 at hy
  rw [seq_grp, seq_seq, seq_wordB] at hy
  obtain ⟨_, h2⟩ := hy
  rw [seq_eps_right] at h2
  obtain ⟨x, hx, hy'⟩ := mem_seq.1 h2
  rw [seq_wordB] at hy'
  have := merged6_ends_b0 c hl ha ha7 hk hj x hx
  rw [this] at hy'; cases hy'.1

theorem firstEnd_oth3 {i a k j : Nat} (c : Ctx T s i j) (hl : Iter (HC s) a i k) (ha : 1 ≤ a) (ha7 : a ≤ 7)
    (hk : code s k = 58) (hj : j = k + 1) : firstEnd T s oth3 i = some j := by
  unfold oth3
  refine firstEnd_seq (firstEnd_wordB (c.wordB_hex (Iter_HC_first ha hl))) ?_
  refine firstEnd_seq (firstEnd_rep (n := a) ha7 ha (Chain_of_Iter (fun _ _ h => firstEnd_hcolon h) a i k hl)
    (.inr (ends_hcolon_nil (by rw [hk]; exact not_hex_58)))) ?_
  refine firstEnd_seq (firstEnd_colon hk) ?_
  rw [firstEnd_seq_eps, ← hj]
  exact firstEnd_nwordB (c.wordB_end_colon (by omega) (by rw [hj]; simpa using hk))

/-! #### texts that begin with `::` -/

theorem ends_oth1_nil {i j b : Nat} (c : Ctx T s i j) (hr : Iter (CH s) b (i + 1) j) (hb : 1 ≤ b) :
    ends T s oth1 i = [] := by
  apply ends_nil_of_forall
  intro y hy
  unfold oth1 colon at hy
  simp only [seq_nwordB, seq_range (by decide : 0 < 58), mem_eps] at hy
  obtain ⟨_, _, _, _, _, hw, _⟩ := hy
  cases b with
  | zero => omega
  | succ n =>
    obtain ⟨m, hm, _⟩ := hr
    have hh := HextetAt_first hm.2
    have : isWordB T s (i + 1 + 1) = true := by
      unfold isWordB
      have h1 : wordAt T s (i + 1) = false := wordAt_colon c.hc hm.1
      have h2 : wordAt T s (i + 1 + 1) = true := wordAt_hex c.hwx hh
      simp [h1, h2]
    rw [this] at hw; cases hw

theorem firstEnd_oth2 {i j b : Nat} (c : Ctx T s i j) (hi : code s i = 58) (hr : Iter (CH s) b (i + 1) j) (hb : 1 ≤ b)
    (hb7 : b ≤ 7) : firstEnd T s oth2 i = some j := by
  unfold oth2
  refine firstEnd_seq (firstEnd_nwordB (c.wordB_colon hi)) (firstEnd_seq (firstEnd_colon hi) ?_)
  refine firstEnd_seq (firstEnd_rep (n := b) hb7 hb
    (Chain_of_Iter (fun _ _ h => firstEnd_colonh h) b (i + 1) j (Iter_CHmax hr c.nonhex))
    (.inr (ends_colonh_nil c.nocolon))) ?_
  rw [firstEnd_seq_eps]
  have l := Iter_CH_last b hb hr
  exact firstEnd_wordB (c.wordB_end_hex l.1 l.2)

theorem firstEnd_oth1 {i j : Nat} (c : Ctx T s i j) (hi : code s i = 58) (hi1 : code s (i + 1) = 58) (hj : j = i + 2) :
    firstEnd T s oth1 i = some j := by
  unfold oth1
  refine firstEnd_seq (firstEnd_nwordB (c.wordB_colon hi)) (firstEnd_seq (firstEnd_colon hi)
    (firstEnd_seq (firstEnd_colon hi1) ?_))
  rw [firstEnd_seq_eps, show i + 1 + 1 = j by omega]
  exact firstEnd_nwordB (c.wordB_end_colon (by omega) (by rw [hj]; simpa using hi1))

/-! ### the whole pattern -/

/-- **What the engine reports at the start of a delimited IPv6 address text**: its end — for the exploded form and
for every compressed form. -/
theorem ipv6RE_firstEnd {i j : Nat} (c : Ctx T s i j) (hv : V6At s i j) : firstEnd T s ipv6RE i = some j := by
  rw [ipv6RE_eq, firstEnd_seq_eps]
  have other : ∀ {r : RE}, firstEnd T s r i = some j → firstEnd T s (.seq (.grp 50 (.seq r .eps)) .eps) i = some j := by
    intro r h; rw [firstEnd_seq_eps, firstEnd_grp, firstEnd_seq_eps]; exact h
  rcases hv with ⟨k, hk, hh⟩ | ⟨a, b, k, hab, hl, hr⟩
  · -- exploded
    have hhex := Iter_HC_first (by omega) hk
    have l := HextetAt_last hh
    refine firstEnd_alt_left (firstEnd_sect1 (c.wordB_hex hhex) (c.wordB_end_hex l.1 l.2) ?_)
    unfold merged6
    rw [firstEnd_grp, firstEnd_seq_eps]
    exact firstEnd_alt_left (firstEnd_basic6 c hk hh)
  · rcases hl with ⟨rfl, hi, rfl⟩ | ⟨a1, hl⟩ <;> rcases hr with ⟨rfl, hk, rfl⟩ | ⟨b1, hr⟩
    · -- `::`
      rw [firstEnd_alt_right (ends_sect1_nil_of_nwordB (c.wordB_colon hi))]
      exact other (firstEnd_alt_left (firstEnd_oth1 c hi hk rfl))
    · -- `::` groups
      rw [firstEnd_alt_right (ends_sect1_nil_of_nwordB (c.wordB_colon hi))]
      refine other ?_
      rw [firstEnd_alt_right (ends_oth1_nil c hr b1)]
      exact firstEnd_alt_left (firstEnd_oth2 c hi hr b1 (by omega))
    · -- groups `::`
      have hw := c.wordB_hex (Iter_HC_first a1 hl)
      rw [firstEnd_alt_right (ends_sect1_nil_b0 c hl a1 (by omega) hk rfl)]
      refine other ?_
      unfold oth1 oth2
      rw [firstEnd_alt_right (ends_nwordB_nil hw), firstEnd_alt_right (ends_nwordB_nil hw)]
      exact firstEnd_oth3 c hl a1 (by omega) hk rfl
    · -- groups `::` groups
      have l := Iter_CH_last b b1 hr
      exact firstEnd_alt_left (firstEnd_sect1 (c.wordB_hex (Iter_HC_first a1 hl)) (c.wordB_end_hex l.1 l.2)
        (firstEnd_merged6_ab c hl hr a1 b1 hab))

end RTV.Re
