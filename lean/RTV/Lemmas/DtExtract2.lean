import RTV.Model.DtExtract2
import RTV.Lemmas.DtExtract
/-! Helper lemmas for `RTV.Props.C01DtExtract2`: the stable sort by start, `skipOverlap`, hypothesis bundles. -/
namespace RTV.DtExtract2
open RTV.Py RTV.Span RTV.DtExtract

theorem mem_insertByStart {α : Type} (key : α → Int) (x y : α) (l : List α) :
    y ∈ insertByStart key x l ↔ y = x ∨ y ∈ l := by
  induction l with
  | nil => simp [insertByStart]
  | cons z r ih =>
    unfold insertByStart
    split
    · simp
    · simp only [List.mem_cons, ih]
      constructor
      · rintro (h | h | h)
        · exact Or.inr (Or.inl h)
        · exact Or.inl h
        · exact Or.inr (Or.inr h)
      · rintro (h | h | h)
        · exact Or.inr (Or.inl h)
        · exact Or.inl h
        · exact Or.inr (Or.inr h)

theorem mem_foldl_insert {α : Type} (key : α → Int) (l acc : List α) (y : α) :
    y ∈ l.foldl (fun acc x => insertByStart key x acc) acc ↔ y ∈ acc ∨ y ∈ l := by
  induction l generalizing acc with
  | nil => simp
  | cons x r ih =>
    simp only [List.foldl_cons, ih, mem_insertByStart, List.mem_cons]
    constructor
    · rintro ((h | h) | h)
      · exact Or.inr (Or.inl h)
      · exact Or.inl h
      · exact Or.inr (Or.inr h)
    · rintro (h | h | h)
      · exact Or.inl (Or.inr h)
      · exact Or.inl (Or.inl h)
      · exact Or.inr h

/-- the sort neither drops nor invents an element. -/
theorem mem_sortByStart {α : Type} (key : α → Int) (l : List α) (y : α) : y ∈ sortByStart key l ↔ y ∈ l := by
  unfold sortByStart
  rw [mem_foldl_insert]
  simp

theorem insertByStart_sorted {α : Type} (key : α → Int) (x : α) (l : List α)
    (h : l.Pairwise fun a b => key a ≤ key b) : (insertByStart key x l).Pairwise fun a b => key a ≤ key b := by
  induction l with
  | nil => simp [insertByStart]
  | cons z r ih =>
    unfold insertByStart
    rw [List.pairwise_cons] at h
    split
    · rename_i hlt
      rw [List.pairwise_cons]
      refine ⟨?_, List.pairwise_cons.mpr h⟩
      intro b hb
      simp only [List.mem_cons] at hb
      rcases hb with rfl | hb
      · omega
      · have := h.1 b hb; omega
    · rename_i hge
      rw [List.pairwise_cons]
      refine ⟨?_, ih h.2⟩
      intro b hb
      rw [mem_insertByStart] at hb
      rcases hb with rfl | hb
      · omega
      · exact h.1 b hb

/-- the result is ordered by the key. -/
theorem sortByStart_sorted {α : Type} (key : α → Int) (l : List α) :
    (sortByStart key l).Pairwise fun a b => key a ≤ key b := by
  unfold sortByStart
  have : ∀ (acc : List α), (acc.Pairwise fun a b => key a ≤ key b) →
      (l.foldl (fun acc x => insertByStart key x acc) acc).Pairwise fun a b => key a ≤ key b := by
    induction l with
    | nil => intro acc h; simpa using h
    | cons x r ih => intro acc h; simp only [List.foldl_cons]; exact ih _ (insertByStart_sorted key x acc h)
  exact this [] List.Pairwise.nil

theorem le_skipOverlap (ers : Array (Ent × Bool)) (i fuel j : Nat) : j ≤ skipOverlap ers i fuel j := by
  induction fuel generalizing j with
  | zero => simp [skipOverlap]
  | succ f ih =>
    unfold skipOverlap
    split
    · split
      · exact Nat.le_trans (Nat.le_succ j) (ih (j + 1))
      · exact Nat.le_refl j
    · exact Nat.le_refl j

/-- hypotheses of the date-time period `match_duration` theorem, in the coordinates of the stripped text of length
`n`: the duration lies in it, the within-next text occurs first at or before the duration, the previous / next
prefix matches lie in front of the duration, the numbers found in the prefix lie in it, the suffix matches lie
behind the duration. -/
def DtpDurOK (n : Int) (f : DtpDurFact) : Prop :=
  f.dur.In n ∧ (0 ≤ f.withinFirst ∧ f.withinFirst ≤ f.dur.start) ∧
  optP f.prev (fun c => c.In f.dur.start) ∧ optP f.next (fun c => c.In f.dur.start) ∧
  (∀ e ∈ f.numsInPrefix, e.In f.dur.start) ∧
  optP f.prevSuffix (fun c => c.In (n - (f.dur.start + f.dur.len))) ∧
  optP f.nextSuffix (fun c => c.In (n - (f.dur.start + f.dur.len))) ∧
  optP f.futureSuffix (fun c => c.In (n - (f.dur.start + f.dur.len)))

/-- hypotheses of `match_time_of_day` for one date result on a text of length `n`. -/
def TodOK (n : Int) (f : TodFact) : Prop :=
  f.er.In n ∧ 1 ≤ f.er.len ∧
  optP f.m1 (fun m => m.In (n - (f.er.start + f.er.len)) ∧ 0 ≤ f.todS ∧ 0 ≤ f.todLen ∧ f.todS + f.todLen ≤ m.e) ∧
  optP f.am (fun m => m.In (n - (f.er.start + f.er.len))) ∧ optP f.pm (fun m => m.In (n - (f.er.start + f.er.len))) ∧
  optP f.m2 (fun m => m.In f.er.start)

end RTV.DtExtract2
