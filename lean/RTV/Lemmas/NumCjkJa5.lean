import RTV.Lemmas.NumCjk
/-! kernel evaluation of the typed `get_int_value` walk (int / binary64), numerals 5000..5999 -/
namespace RTV.NumCjk
theorem ja_l50 : jaLoopChunk 50 = true := by decide +kernel
theorem ja_l51 : jaLoopChunk 51 = true := by decide +kernel
theorem ja_l52 : jaLoopChunk 52 = true := by decide +kernel
theorem ja_l53 : jaLoopChunk 53 = true := by decide +kernel
theorem ja_l54 : jaLoopChunk 54 = true := by decide +kernel
theorem ja_l55 : jaLoopChunk 55 = true := by decide +kernel
theorem ja_l56 : jaLoopChunk 56 = true := by decide +kernel
theorem ja_l57 : jaLoopChunk 57 = true := by decide +kernel
theorem ja_l58 : jaLoopChunk 58 = true := by decide +kernel
theorem ja_l59 : jaLoopChunk 59 = true := by decide +kernel
end RTV.NumCjk
