import RTV.Lemmas.Choice
/-! Kernel evaluation of the neutral pool and of every (affirmative, negative) pair on the regenerated data. -/
namespace RTV.Choice
set_option maxRecDepth 100000
theorem neutral_fast : neutralOK fastEnv = true := by decide +kernel
theorem both_fast : bothOK fastEnv = true := by decide +kernel
end RTV.Choice
