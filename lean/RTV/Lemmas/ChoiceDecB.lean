import RTV.Lemmas.Choice
/-! Kernel evaluation of the neutral sample, of the completeness of the enumeration, and of every (affirmative, negative) pair of words / bare emoji on the regenerated data. -/
namespace RTV.Choice
set_option maxRecDepth 100000
theorem neutral_fast : neutralOK fastEnv = true := by decide +kernel
theorem both_fast : bothOK fastEnv = true := by decide +kernel
theorem alts_complete_fast : (altsComplete true && altsComplete false) = true := by decide +kernel
end RTV.Choice
