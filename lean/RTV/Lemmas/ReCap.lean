import RTV.Lemmas.Re
/-! The capture-threading matcher `endsCap` reports the same ends in the same order as `ends`; hence `findAllCap`
reports the same spans as `findAll` (the captures are extra information about the reported match). -/
namespace RTV.Re

variable {T : Tables} {s : Array Nat}

theorem flatMap_fst {α : Type} (l : List (Nat × α)) (F : Nat × α → List (Nat × α)) (G : Nat → List Nat)
    (h : ∀ p, (F p).map Prod.fst = G p.1) : (l.flatMap F).map Prod.fst = (l.map Prod.fst).flatMap G := by
  induction l with
  | nil => simp
  | cons x xs ih => simp [List.flatMap_cons, h, ih]

theorem map_fst_pair {α : Type} (l : List Nat) (c : α) : (l.map fun k => (k, c)).map Prod.fst = l := by
  induction l <;> simp_all

theorem repEndsCap_fst (fc : Nat → Cap → List (Nat × Cap)) (f : Nat → List Nat) (gr : Bool)
    (h : ∀ i c, (fc i c).map Prod.fst = f i) (mx : Nat) :
    ∀ mn i c, (repEndsCap fc gr mx mn i c).map Prod.fst = repEnds f gr mx mn i := by
  induction mx with
  | zero => intro mn i c; by_cases hm : mn = 0 <;> simp [repEndsCap, repEnds, hm]
  | succ mx ih =>
    intro mn i c
    rw [repEndsCap, repEnds]
    have hm : ((fc i c).flatMap fun p => repEndsCap fc gr mx (mn - 1) p.1 p.2).map Prod.fst =
        (f i).flatMap (repEnds f gr mx (mn - 1)) := by
      rw [flatMap_fst _ _ (repEnds f gr mx (mn - 1)) (fun p => ih (mn - 1) p.1 p.2), h]
    by_cases h0 : mn = 0
    · subst h0
      simp only [Nat.zero_sub] at hm
      cases gr <;> simp [hm]
    · cases gr <;> simp [h0, hm]

theorem endsCap_fst (g : Nat) (r : RE) : ∀ i c, (endsCap T s g r i c).map Prod.fst = ends T s r i := by
  induction r with
  | seq a b iha ihb =>
    intro i c
    rw [endsCap, ends, flatMap_fst _ _ (ends T s b) (fun p => ihb p.1 p.2), iha]
  | alt a b iha ihb => intro i c; rw [endsCap, ends]; simp [iha, ihb]
  | rep a mn mx gr ih => intro i c; rw [endsCap, ends]; exact repEndsCap_fst _ _ gr ih mx mn i c
  | repU a mn gr ih => intro i c; rw [endsCap, ends]; exact repEndsCap_fst _ _ gr ih _ mn i c
  | grp n a ih =>
    intro i c
    rw [endsCap, ends, List.map_map]
    have : (Prod.fst ∘ fun p : Nat × Cap => (p.1, if n = g then some (i, p.1) else p.2)) = Prod.fst := by
      funext p; rfl
    rw [this, ih]
  | eps => intro i c; simp only [endsCap]; exact map_fst_pair _ c
  | cls items neg => intro i c; simp [endsCap, List.map_map, Function.comp_def]
  | wordB => intro i c; simp [endsCap, List.map_map, Function.comp_def]
  | nwordB => intro i c; simp [endsCap, List.map_map, Function.comp_def]
  | bol => intro i c; simp [endsCap, List.map_map, Function.comp_def]
  | eol => intro i c; simp [endsCap, List.map_map, Function.comp_def]
  | eos => intro i c; simp [endsCap, List.map_map, Function.comp_def]
  | look ahead neg a _ => intro i c; simp [endsCap, List.map_map, Function.comp_def]

theorem findAllCapFrom_spans (g : Nat) (r : RE) (fuel : Nat) :
    ∀ pos, (findAllCapFrom T s g r fuel pos).map (fun p => (p.1, p.2.1)) = findAllFrom T s r fuel pos := by
  induction fuel with
  | zero => intro pos; simp [findAllCapFrom, findAllFrom]
  | succ n ih =>
    intro pos
    rw [findAllCapFrom, findAllFrom]
    by_cases hp : pos > s.size
    · simp [hp]
    · simp only [hp, if_false]
      have hf := endsCap_fst (T := T) (s := s) g r pos none
      unfold firstEnd
      rw [← hf]
      cases hh : endsCap T s g r pos none with
      | nil => simp [ih]
      | cons x xs => obtain ⟨j, c⟩ := x; simp [ih]

/-- the spans `findAllCap` reports are exactly those of `findAll` -/
theorem findAllCap_spans (g : Nat) (r : RE) :
    (findAllCap T s g r).map (fun p => (p.1, p.2.1)) = findAll T s r :=
  findAllCapFrom_spans g r _ 0

end RTV.Re
