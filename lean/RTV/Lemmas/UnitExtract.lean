import RTV.Model.UnitExtract
/-! Helper lemmas for the NumberWithUnit extractor model (C05, feeds C01). -/
set_option linter.unusedSimpArgs false
set_option linter.unusedVariables false
namespace RTV.UnitExtract

/-! ### slices -/

theorem slice_length_le (s : List α) (a b : Nat) (h : b ≤ s.length) : (slice s a b).length = b - a := by
  simp [slice]; omega

theorem slice_append_slice (s : List α) (a b c : Nat) (hab : a ≤ b) (hbc : b ≤ c) :
    slice s a b ++ slice s b c = slice s a c := by
  unfold slice
  have h1 : c - a = (b - a) + (c - b) := by omega
  rw [h1, List.take_add]
  congr 1
  rw [List.drop_drop]
  congr 2
  omega

theorem slice_zero_length (s : List α) : slice s 0 s.length = s := by simp [slice]

theorem slice_append_left (p q : List α) : slice (p ++ q) 0 p.length = p := by simp [slice]

theorem slice_append_right (p q : List α) (n : Nat) :
    slice (p ++ q) p.length (p.length + n) = q.take n := by
  simp [slice]

/-- taking a prefix of a slice is a shorter slice -/
theorem slice_take (s : List α) (a b k : Nat) (hk : k ≤ b - a) : (slice s a b).take k = slice s a (a + k) := by
  unfold slice
  rw [List.take_take]
  congr 1
  omega

/-! ### suffix search -/

/-- `end_pos` of a suffix match for a number that ends at `fi` -/
def endPos (fi : Nat) (m : MR) : Nat := m.start + m.len - fi

/-- the match takes part in the search and one of the two rules accepts the text in between -/
def Admissible (c : Cfg) (src : Str) (fi : Nat) (m : MR) : Prop :=
  m.len > 0 ∧ m.start ≥ fi ∧ (plainOK c src fi m = true ∨ bracketOK src fi m = true)

/-- how far an admissible match lets the result reach: a bracketed unit includes the closing bracket -/
def reach (src : Str) (fi : Nat) (m : MR) : Nat :=
  if bracketOK src fi m then endPos fi m + 1 else endPos fi m

theorem suffixStep_eq (c : Cfg) (src : Str) (fi L : Nat) (m : MR) :
    suffixStep c src fi L m =
      if m.len > 0 ∧ m.start ≥ fi then
        if L < m.start + m.len - fi then
          if bracketOK src fi m = true then m.start + m.len - fi + 1
          else if plainOK c src fi m = true then m.start + m.len - fi else L
        else L
      else L := by
  simp only [suffixStep, MR.stop]

theorem suffixStep_mono (c : Cfg) (src : Str) (fi L : Nat) (m : MR) : L ≤ suffixStep c src fi L m := by
  rw [suffixStep_eq]
  repeat' split
  all_goals omega

theorem maxSuffixFrom_mono (c : Cfg) (src : Str) (fi : Nat) (sm : List MR) : ∀ L, L ≤ maxSuffixFrom c src fi sm L := by
  induction sm with
  | nil => intro L; simp [maxSuffixFrom]
  | cons m ms ih =>
    intro L
    simp only [maxSuffixFrom, List.foldl_cons]
    exact Nat.le_trans (suffixStep_mono c src fi L m) (ih _)

theorem suffixStep_ge_endPos (c : Cfg) (src : Str) (fi L : Nat) (m : MR) (h : Admissible c src fi m) :
    endPos fi m ≤ suffixStep c src fi L m := by
  obtain ⟨h1, h2, h3⟩ := h
  rw [suffixStep_eq]
  unfold endPos
  simp only [h1, h2, and_self, if_true]
  rcases h3 with h3 | h3
  · simp only [h3, if_true]; repeat' split
    all_goals omega
  · simp only [h3, if_true]; repeat' split
    all_goals omega

/-- every admissible match is reached: `max_len ≥ end_pos` -/
theorem maxSuffixFrom_ge (c : Cfg) (src : Str) (fi : Nat) (sm : List MR) :
    ∀ L, ∀ m ∈ sm, Admissible c src fi m → endPos fi m ≤ maxSuffixFrom c src fi sm L := by
  induction sm with
  | nil => intro L m hm; simp at hm
  | cons x xs ih =>
    intro L m hm hadm
    simp only [maxSuffixFrom, List.foldl_cons]
    rcases List.mem_cons.mp hm with rfl | hm
    · exact Nat.le_trans (suffixStep_ge_endPos c src fi L m hadm) (maxSuffixFrom_mono c src fi xs _)
    · exact ih _ m hm hadm

theorem suffixStep_cases (c : Cfg) (src : Str) (fi L : Nat) (m : MR) :
    suffixStep c src fi L m = L ∨ (Admissible c src fi m ∧ L < endPos fi m ∧ suffixStep c src fi L m = reach src fi m) := by
  rw [suffixStep_eq]
  by_cases hg : m.len > 0 ∧ m.start ≥ fi
  · simp only [hg, and_self, if_true]
    by_cases hl : L < m.start + m.len - fi
    · simp only [hl, if_true]
      by_cases hb : bracketOK src fi m = true
      · right
        refine ⟨⟨hg.1, hg.2, Or.inr hb⟩, hl, ?_⟩
        simp [hb, reach, endPos, MR.stop]
      · by_cases hp : plainOK c src fi m = true
        · right
          refine ⟨⟨hg.1, hg.2, Or.inl hp⟩, hl, ?_⟩
          simp [hb, hp, reach, endPos]
        · left; simp [hb, hp]
    · left; simp [hl]
  · left; simp [hg]

/-- `max_len` is the starting value or the reach of an admissible match -/
theorem maxSuffixFrom_attained (c : Cfg) (src : Str) (fi : Nat) (sm : List MR) :
    ∀ L, maxSuffixFrom c src fi sm L = L ∨
      ∃ m ∈ sm, Admissible c src fi m ∧ maxSuffixFrom c src fi sm L = reach src fi m := by
  induction sm with
  | nil => intro L; left; rfl
  | cons x xs ih =>
    intro L
    simp only [maxSuffixFrom, List.foldl_cons]
    rcases ih (suffixStep c src fi L x) with h | ⟨m, hm, ha, he⟩
    · rcases suffixStep_cases c src fi L x with h2 | ⟨ha, _, he⟩
      · left; rw [show List.foldl (suffixStep c src fi) (suffixStep c src fi L x) xs = maxSuffixFrom c src fi xs (suffixStep c src fi L x) from rfl, h, h2]
      · right; refine ⟨x, List.mem_cons_self, ha, ?_⟩
        rw [show List.foldl (suffixStep c src fi) (suffixStep c src fi L x) xs = maxSuffixFrom c src fi xs (suffixStep c src fi L x) from rfl, h, he]
    · right; exact ⟨m, List.mem_cons_of_mem _ hm, ha, he⟩

theorem reach_le_of_inside (src : Str) (fi : Nat) (m : MR) (hin : m.start + m.len ≤ src.length) :
    fi + reach src fi m ≤ src.length ∨ m.start + m.len < fi := by
  unfold reach endPos
  by_cases hb : bracketOK src fi m = true
  · simp only [hb, if_true]
    have : m.stop < src.length := by
      unfold bracketOK at hb; simp at hb; exact hb.1
    unfold MR.stop at this
    omega
  · simp only [hb]; simp; omega

/-- `max_len` never reaches past the end of the string when the suffix matches lie inside it -/
theorem maxSuffix_inside (c : Cfg) (src : Str) (fi : Nat) (sm : List MR)
    (hin : ∀ m ∈ sm, m.start + m.len ≤ src.length) (hfi : fi ≤ src.length) :
    fi + maxSuffix c src fi sm ≤ src.length := by
  unfold maxSuffix
  split
  · rcases maxSuffixFrom_attained c src fi sm 0 with h | ⟨m, hm, ha, he⟩
    · rw [h]; omega
    · rw [he]
      rcases reach_le_of_inside src fi m (hin m hm) with h | h
      · exact h
      · have := ha.2.1; have := ha.1; omega
  · omega

/-! ### prefix search -/

theorem bestPrefix_spec (sp : Nat → Bool) (src : Str) (start : Nat) (pm : List MR) (m : MR)
    (h : bestPrefix sp src start pm = some m) :
    m ∈ pm ∧ m.len > 0 ∧ m.start + m.len ≤ start ∧ strip sp (slice src m.start start) = m.text := by
  induction pm with
  | nil => simp [bestPrefix] at h
  | cons x xs ih =>
    unfold bestPrefix at h
    by_cases h1 : x.len > 0 ∧ x.start + x.len > start
    · simp [h1] at h
    · simp only [h1, if_false] at h
      by_cases h2 : x.len > 0 ∧ strip sp (slice src x.start start) = x.text
      · simp only [h2, and_self, if_true, Option.some.injEq] at h
        subst h
        refine ⟨List.mem_cons_self, h2.1, ?_, h2.2⟩
        have := h2.1; omega
      · simp only [h2, if_false] at h
        obtain ⟨a, b⟩ := ih h
        exact ⟨List.mem_cons_of_mem _ a, b⟩

/-- the prefix-unit table: every entry `(offset, unit_str)` under key `k` has `0 < offset ≤ k` and `unit_str` is the
slice of the source right before position `k` -/
def MapOK (src : Str) (mp : List (Nat × (Nat × Str))) : Prop :=
  ∀ k off unit, mget mp k = some (off, unit) → 0 < off ∧ off ≤ k ∧ unit = slice src (k - off) k

theorem mget_append_single {β} (m : List (Nat × β)) (k : Nat) (v : β) (k' : Nat) :
    mget (m ++ [(k, v)]) k' = match mget m k' with
      | some u => some u
      | none => if k = k' then some v else none := by
  induction m with
  | nil => simp [mget]
  | cons kv rest ih =>
    obtain ⟨a, b⟩ := kv
    simp only [List.cons_append, mget]
    by_cases h : a = k' <;> simp [h, ih]

theorem mget_addElement {β} (m : List (Nat × β)) (k : Nat) (v : β) (k' : Nat) :
    mget (addElement m k v) k' = match mget m k' with
      | some u => some u
      | none => if k = k' then some v else none := by
  unfold addElement
  by_cases h : (mget m k).isSome = true
  · simp only [h, if_true]
    cases hk : mget m k' with
    | some u => rfl
    | none =>
      by_cases e : k = k'
      · subst e; simp [hk] at h
      · simp [e]
  · simp only [h]
    simp only [Bool.false_eq_true, if_false, mget_append_single]

theorem MapOK_nil (src : Str) : MapOK src [] := by
  intro k off unit h; simp [mget] at h

theorem prefixSearch_MapOK (c : Cfg) (src : Str) (pm : List MR) (mp : List (Nat × (Nat × Str))) (n : Num)
    (h : MapOK src mp) : MapOK src (prefixSearch c src pm mp n) := by
  unfold prefixSearch
  split
  · cases hb : bestPrefix c.sp src n.start pm with
    | none => simpa using h
    | some m =>
      simp only
      obtain ⟨_, hl, he, _⟩ := bestPrefix_spec _ _ _ _ _ hb
      intro k off unit hk
      rw [mget_addElement] at hk
      cases hm : mget mp k with
      | some u => rw [hm] at hk; simp only [Option.some.injEq] at hk; subst hk; exact h k off unit hm
      | none =>
        rw [hm] at hk
        by_cases e : n.start = k
        · simp only [e, if_true, Option.some.injEq, Prod.mk.injEq] at hk
          obtain ⟨h1, h2⟩ := hk
          subst e
          refine ⟨by omega, by omega, ?_⟩
          rw [← h2, ← h1]
          congr 1 <;> omega
        · simp [e] at hk
  · exact h

/-! ### one iteration of the number loop -/

/-- What one iteration does to `result` / `unit_is_prefix` / the prefix table:
(A) a suffix result (with the prefix unit attached when there is one), (B) a prefix-only result, or (C) nothing. -/
theorem stepSticky_cases (c : Cfg) (src : Str) (pm sm : List MR) (nonUnit : List (Nat × Nat)) (st : St) (n : Num)
    (mp : List (Nat × (Nat × Str))) (pu : Option (Nat × Str)) (L : Nat)
    (hmp : prefixSearch c src pm st.mapping n = mp) (hpu : mget mp n.start = pu)
    (hL : maxSuffix c src (n.start + n.len) sm = L) :
    (stepSticky c src pm sm nonUnit st n).mapping = mp ∧
    ((L ≠ 0 ∧ (c.isDimension && insideNonUnit nonUnit (suffixER src n L pu).1.start (suffixER src n L pu).1.len) = false ∧
        (stepSticky c src pm sm nonUnit st n).result = st.result ++ [(suffixER src n L pu).1] ∧
        (stepSticky c src pm sm nonUnit st n).flags = st.flags ++ [false] ∧
        (stepSticky c src pm sm nonUnit st n).prefixMatched = (st.prefixMatched || pu.isSome)) ∨
     (L = 0 ∧ st.prefixMatched = false ∧ ∃ p, pu = some p ∧
        (stepSticky c src pm sm nonUnit st n).result = st.result ++ [(prefixOnlyER n.start n p).1] ∧
        (stepSticky c src pm sm nonUnit st n).flags = st.flags ++ [true] ∧
        (stepSticky c src pm sm nonUnit st n).prefixMatched = false) ∨
     ((stepSticky c src pm sm nonUnit st n).result = st.result ∧ (stepSticky c src pm sm nonUnit st n).flags = st.flags)) := by
  unfold stepSticky
  simp only [hmp, hpu, hL]
  by_cases h0 : L = 0
  · subst h0
    simp only [ne_eq, not_true_eq_false, if_false]
    cases pu with
    | none => simp
    | some p =>
      cases hm : st.prefixMatched <;> simp [hm]
  · simp only [ne_eq, h0, not_false_eq_true, if_true]
    cases pu with
    | none =>
      simp only [suffixER]
      rcases Bool.eq_false_or_eq_true (c.isDimension && insideNonUnit nonUnit n.start (n.len + L)) with hnu | hnu <;>
        simp [hnu]
    | some p =>
      obtain ⟨off, unit⟩ := p
      simp only [suffixER]
      rcases Bool.eq_false_or_eq_true (c.isDimension && insideNonUnit nonUnit (n.start - off) (n.len + L + off)) with hnu | hnu <;>
        simp [hnu]

/-- The same for the current code (the flag is reset for every number): a prefix-only result is produced whenever the
number has a prefix unit and no suffix result. -/
theorem step_cases (c : Cfg) (src : Str) (pm sm : List MR) (nonUnit : List (Nat × Nat)) (st : St) (n : Num)
    (mp : List (Nat × (Nat × Str))) (pu : Option (Nat × Str)) (L : Nat)
    (hmp : prefixSearch c src pm st.mapping n = mp) (hpu : mget mp n.start = pu)
    (hL : maxSuffix c src (n.start + n.len) sm = L) :
    (step c src pm sm nonUnit st n).mapping = mp ∧
    ((L ≠ 0 ∧ (c.isDimension && insideNonUnit nonUnit (suffixER src n L pu).1.start (suffixER src n L pu).1.len) = false ∧
        (step c src pm sm nonUnit st n).result = st.result ++ [(suffixER src n L pu).1] ∧
        (step c src pm sm nonUnit st n).flags = st.flags ++ [false]) ∨
     (L = 0 ∧ ∃ p, pu = some p ∧
        (step c src pm sm nonUnit st n).result = st.result ++ [(prefixOnlyER n.start n p).1] ∧
        (step c src pm sm nonUnit st n).flags = st.flags ++ [true]) ∨
     ((step c src pm sm nonUnit st n).result = st.result ∧ (step c src pm sm nonUnit st n).flags = st.flags)) := by
  have h := stepSticky_cases c src pm sm nonUnit { st with prefixMatched := false } n mp pu L hmp hpu hL
  unfold step
  refine ⟨h.1, ?_⟩
  rcases h.2 with ⟨a, b, c1, d, _⟩ | ⟨a, _, p, hp, c1, d, _⟩ | ⟨a, b⟩
  · exact Or.inl ⟨a, b, c1, d⟩
  · exact Or.inr (Or.inl ⟨a, p, hp, c1, d⟩)
  · exact Or.inr (Or.inr ⟨a, b⟩)

/-! ### what every result of the loop looks like -/

/-- the number extractor's result lies inside the string and its text is the slice -/
def NumOK (src : Str) (n : Num) : Prop :=
  n.start + n.len ≤ src.length ∧ n.text = slice src n.start (n.start + n.len)

/-- a unit result lies inside `src`, its text is the slice it claims, and the number it carries sits at the stored
relative position: `text = pre ++ number ++ rest` with `data.start = |pre|`, `data.length = |number|` -/
def ResOK (src : Str) (r : ER) : Prop :=
  r.start + r.len ≤ src.length ∧ r.text = slice src r.start (r.start + r.len) ∧
  ∀ d, r.data = some d → ∃ pre rest, r.text = pre ++ d.text ++ rest ∧ d.start = pre.length ∧ d.len = d.text.length

theorem NumOK.len_eq {src : Str} {n : Num} (h : NumOK src n) : n.text.length = n.len := by
  rw [h.2, slice_length_le _ _ _ h.1]; omega

theorem suffixER_ok (src : Str) (n : Num) (L : Nat) (pu : Option (Nat × Str)) (hn : NumOK src n)
    (hL : n.start + n.len + L ≤ src.length)
    (hpu : ∀ off unit, pu = some (off, unit) → 0 < off ∧ off ≤ n.start ∧ unit = slice src (n.start - off) n.start) :
    ResOK src (suffixER src n L pu).1 := by
  have hlen := hn.len_eq
  cases pu with
  | none =>
    simp only [suffixER]
    refine ⟨by simp; omega, by simp; congr 1; omega, ?_⟩
    intro d hd
    simp only [Option.some.injEq] at hd
    subst hd
    refine ⟨[], slice src (n.start + n.len) (n.start + n.len + L), ?_, by simp, by simp [hlen]⟩
    simp only [List.nil_append]
    rw [hn.2, slice_append_slice] <;> omega
  | some p =>
    obtain ⟨off, unit⟩ := p
    obtain ⟨h0, h1, h2⟩ := hpu off unit rfl
    simp only [suffixER]
    have e1 : n.start - off + (n.len + L + off) = n.start + n.len + L := by omega
    refine ⟨by simp only; omega, ?_, ?_⟩
    · simp only [e1]
      rw [h2, slice_append_slice] <;> omega
    · intro d hd
      simp only [Option.some.injEq] at hd
      subst hd
      refine ⟨unit, slice src (n.start + n.len) (n.start + n.len + L), ?_, ?_, by simp [hlen]⟩
      · simp only [List.append_assoc]
        congr 1
        rw [hn.2, slice_append_slice] <;> omega
      · simp only
        rw [h2, slice_length_le] <;> omega

theorem prefixOnlyER_ok (src : Str) (n : Num) (off : Nat) (unit : Str) (hn : NumOK src n)
    (h0 : 0 < off) (h1 : off ≤ n.start) (h2 : unit = slice src (n.start - off) n.start) :
    ResOK src (prefixOnlyER n.start n (off, unit)).1 := by
  have hlen := hn.len_eq
  simp only [prefixOnlyER]
  have e1 : n.start - off + (n.len + off) = n.start + n.len := by omega
  refine ⟨by simp only; have := hn.1; omega, ?_, ?_⟩
  · simp only [e1]
    rw [h2, hn.2, slice_append_slice] <;> omega
  · intro d hd
    simp only [Option.some.injEq] at hd
    subst hd
    refine ⟨unit, [], by simp, ?_, by simp [hlen]⟩
    simp only
    have := hn.1
    rw [h2, slice_length_le] <;> omega

/-- loop invariant -/
def Inv (src : Str) (st : St) : Prop :=
  MapOK src st.mapping ∧ (∀ r ∈ st.result, ResOK src r) ∧ st.flags.length = st.result.length

theorem step_inv (c : Cfg) (src : Str) (pm sm : List MR) (nonUnit : List (Nat × Nat)) (st : St) (n : Num)
    (hsm : ∀ m ∈ sm, m.start + m.len ≤ src.length) (hn : NumOK src n) (h : Inv src st) :
    Inv src (step c src pm sm nonUnit st n) := by
  obtain ⟨hmap, hres, hfl⟩ := h
  have hmp := prefixSearch_MapOK c src pm st.mapping n hmap
  obtain ⟨e1, e2⟩ := step_cases c src pm sm nonUnit st n _ _ _ rfl rfl rfl
  have hLin := maxSuffix_inside c src (n.start + n.len) sm hsm hn.1
  refine ⟨by rw [e1]; exact hmp, ?_, ?_⟩
  · rcases e2 with ⟨_, _, er, _⟩ | ⟨_, p, hp, er, _⟩ | ⟨er, _⟩
    · rw [er]
      intro r hr
      rcases List.mem_append.mp hr with hr | hr
      · exact hres r hr
      · simp only [List.mem_singleton] at hr
        subst hr
        exact suffixER_ok src n _ _ hn (by omega) (fun off unit hpu => by
          have := hmp n.start off unit hpu
          exact ⟨this.1, this.2.1, this.2.2⟩)
    · rw [er]
      intro r hr
      rcases List.mem_append.mp hr with hr | hr
      · exact hres r hr
      · simp only [List.mem_singleton] at hr
        subst hr
        obtain ⟨off, unit⟩ := p
        have := hmp n.start off unit hp
        exact prefixOnlyER_ok src n off unit hn this.1 this.2.1 this.2.2
    · rw [er]; exact hres
  · rcases e2 with ⟨_, _, er, ef⟩ | ⟨_, p, hp, er, ef⟩ | ⟨er, ef⟩ <;> rw [er, ef] <;> simp [hfl]

theorem foldl_step_inv (c : Cfg) (src : Str) (pm sm : List MR) (nonUnit : List (Nat × Nat))
    (hsm : ∀ m ∈ sm, m.start + m.len ≤ src.length) (nums : List Num) :
    ∀ st, (∀ n ∈ nums, NumOK src n) → Inv src st → Inv src (nums.foldl (step c src pm sm nonUnit) st) := by
  induction nums with
  | nil => intro st _ h; exact h
  | cons n ns ih =>
    intro st hn h
    simp only [List.foldl_cons]
    exact ih _ (fun m hm => hn m (List.mem_cons_of_mem _ hm))
      (step_inv c src pm sm nonUnit st n hsm (hn n List.mem_cons_self) h)

theorem coreLoop_inv (c : Cfg) (src : Str) (pm sm : List MR) (nonUnit : List (Nat × Nat)) (nums : List Num)
    (hsm : ∀ m ∈ sm, m.start + m.len ≤ src.length) (hn : ∀ n ∈ nums, NumOK src n) :
    Inv src (coreLoop c src pm sm nonUnit nums) :=
  foldl_step_inv c src pm sm nonUnit hsm nums St.init hn ⟨MapOK_nil src, by simp [St.init], by simp [St.init]⟩

/-! ### the stages after the loop only select among / add well-formed results -/

theorem sepStep_mem (ambTerm : Str) (nonUnit : List (Nat × Nat)) (acc : List Bool × List ER) (m : Nat × Str) (r : ER)
    (h : r ∈ (sepStep ambTerm nonUnit acc m).2) : r ∈ acc.2 ∨ (m.2 ≠ [] ∧ r = ⟨m.1, m.2.length, m.2, none⟩) := by
  unfold sepStep at h
  by_cases h1 : m.2.isEmpty = true
  · simp [h1] at h; exact Or.inl h
  · have hne : m.2 ≠ [] := by simpa using h1
    simp only [h1, Bool.false_eq_true, if_false] at h
    split at h
    · split at h
      · exact Or.inl h
      · rcases List.mem_append.mp h with h | h
        · exact Or.inl h
        · simp only [List.mem_singleton] at h; exact Or.inr ⟨hne, h⟩
    · exact Or.inl h

theorem foldl_sepStep_mem (ambTerm : Str) (nonUnit : List (Nat × Nat)) (sep : List (Nat × Str)) (r : ER) :
    ∀ acc, r ∈ (sep.foldl (sepStep ambTerm nonUnit) acc).2 →
      r ∈ acc.2 ∨ ∃ m ∈ sep, m.2 ≠ [] ∧ r = ⟨m.1, m.2.length, m.2, none⟩ := by
  induction sep with
  | nil => intro acc h; exact Or.inl h
  | cons m ms ih =>
    intro acc h
    simp only [List.foldl_cons] at h
    rcases ih _ h with h | ⟨m', hm', h'⟩
    · rcases sepStep_mem _ _ _ _ _ h with h | h
      · exact Or.inl h
      · exact Or.inr ⟨m, List.mem_cons_self, h⟩
    · exact Or.inr ⟨m', List.mem_cons_of_mem _ hm', h'⟩

theorem separateUnits_mem (srcLen : Nat) (ambTerm : Str) (nonUnit : List (Nat × Nat)) (res : List ER)
    (sep : List (Nat × Str)) (r : ER) (h : r ∈ separateUnits srcLen ambTerm nonUnit res sep) :
    r ∈ res ∨ ∃ m ∈ sep, m.2 ≠ [] ∧ r = ⟨m.1, m.2.length, m.2, none⟩ :=
  foldl_sepStep_mem ambTerm nonUnit sep r _ h

/-! `_filter_ambiguity` only removes -/

theorem ambFilterStep_go_sublist {α} (proj : α → ER) (f : AmbFilter) (xs : List α) : ∀ (cur l : List α), cur.Sublist l →
    (xs.foldl (fun cur x =>
      if f.keyHit (proj x).text then
        (if !f.valMatches.isEmpty then cur.filter (fun y => !overlapsAny f.valMatches (proj y)) else cur)
      else cur) cur).Sublist l := by
  induction xs with
  | nil => intro cur l h; exact h
  | cons x xs ih =>
    intro cur l h
    simp only [List.foldl_cons]
    apply ih
    split
    · split
      · exact (List.filter_sublist).trans h
      · exact h
    · exact h

theorem ambFilterStep_sublist {α} (proj : α → ER) (f : AmbFilter) (ers : List α) :
    (ambFilterStep proj f ers).Sublist ers :=
  ambFilterStep_go_sublist proj f ers ers ers (List.Sublist.refl _)

theorem filterAmbiguity_sublist {α} (proj : α → ER) (srcLen : Nat) (fs : FilterSpec) (ers : List α) :
    (filterAmbiguity proj srcLen fs ers).Sublist ers := by
  unfold filterAmbiguity
  refine (List.filter_sublist).trans ?_
  have gen : ∀ (fl : List AmbFilter) (cur : List α), cur.Sublist ers →
      (fl.foldl (fun cur f => ambFilterStep proj f cur) cur).Sublist ers := by
    intro fl
    induction fl with
    | nil => intro cur h; exact h
    | cons f fl ih => intro cur h; exact ih _ ((ambFilterStep_sublist proj f cur).trans h)
  exact gen _ _ (List.Sublist.refl _)

/-- closed form of one dictionary entry: if the key regex hits the text of some result of the incoming list and the value
regex matches somewhere in the source, every result overlapping a value match goes; otherwise nothing changes -/
theorem ambFilterStep_eq {α} (proj : α → ER) (f : AmbFilter) (ers : List α) :
    ambFilterStep proj f ers =
      if ers.any (fun x => f.keyHit (proj x).text) && !f.valMatches.isEmpty then
        ers.filter (fun y => !overlapsAny f.valMatches (proj y))
      else ers := by
  unfold ambFilterStep
  by_cases hv : f.valMatches.isEmpty = true
  · have hconst : ∀ (xs cur : List α), xs.foldl (fun (cur : List α) (_ : α) => cur) cur = cur := by
      intro xs; induction xs with
      | nil => intro cur; rfl
      | cons x xs ih => intro cur; simpa [List.foldl_cons] using ih cur
    simp [hv, hconst]
  · have hv' : (!f.valMatches.isEmpty) = true := by simpa using hv
    simp only [hv', Bool.and_true, if_true]
    have gen : ∀ (xs : List α) (cur : List α),
        xs.foldl (fun cur x =>
          if f.keyHit (proj x).text then cur.filter (fun y => !overlapsAny f.valMatches (proj y)) else cur) cur =
        if xs.any (fun x => f.keyHit (proj x).text) then cur.filter (fun y => !overlapsAny f.valMatches (proj y)) else cur := by
      intro xs
      induction xs with
      | nil => intro cur; simp
      | cons x xs ih =>
        intro cur
        simp only [List.foldl_cons, List.any_cons]
        by_cases hk : f.keyHit (proj x).text = true
        · simp only [hk, if_true, Bool.true_or]
          rw [ih]
          split <;> simp [List.filter_filter]
        · simp only [hk, Bool.false_eq_true, if_false, Bool.false_or]
          exact ih cur
    exact gen ers ers

theorem tagFlags_map_fst : ∀ (r : List ER) (fl : List Bool), (tagFlags r fl).map (·.1) = r := by
  intro r
  induction r with
  | nil => intro fl; simp [tagFlags]
  | cons e es ih => intro fl; cases fl <;> simp [tagFlags, ih]

theorem mem_dropLast {l : List α} {r : α} (h : r ∈ l.dropLast) : r ∈ l :=
  (List.dropLast_sublist l).subset h

theorem prefixPassStep_mem (acc : Int × List ER) (x : ER × Bool) (r : ER) (h : r ∈ (prefixPassStep acc x).2) :
    r ∈ acc.2 ∨ r = x.1 := by
  unfold prefixPassStep at h
  split at h
  · rcases List.mem_append.mp h with h | h
    · exact Or.inl h
    · simp only [List.mem_singleton] at h; exact Or.inr h
  · split at h
    · rcases List.mem_append.mp h with h | h
      · exact Or.inl (mem_dropLast h)
      · simp only [List.mem_singleton] at h; exact Or.inr h
    · exact Or.inl h

theorem foldl_prefixPassStep_mem (r : ER) (l : List (ER × Bool)) : ∀ (acc : Int × List ER),
    r ∈ (l.foldl prefixPassStep acc).2 → r ∈ acc.2 ∨ ∃ b, (r, b) ∈ l := by
  induction l with
  | nil => intro acc h; exact Or.inl h
  | cons x xs ih =>
    intro acc h
    simp only [List.foldl_cons] at h
    rcases ih _ h with h | ⟨b, hb⟩
    · rcases prefixPassStep_mem _ _ _ h with h | h
      · exact Or.inl h
      · exact Or.inr ⟨x.2, by rw [h]; exact List.mem_cons_self⟩
    · exact Or.inr ⟨b, List.mem_cons_of_mem _ hb⟩

theorem prefixPass_mem (cands : List (ER × Bool)) (r : ER) (h : r ∈ prefixPass cands) : ∃ b, (r, b) ∈ cands := by
  rcases foldl_prefixPassStep_mem r cands _ h with h | h
  · simp at h
  · exact h

theorem suffixPassStep_mem (c1 : Int) (r1 : List ER) (x : ER × Bool) (c2 : Int) (r2 : List ER) (r : ER)
    (h : suffixPassStep (some (c1, r1)) x = some (c2, r2)) (hr : r ∈ r2) : r ∈ r1 ∨ r = x.1 := by
  simp only [suffixPassStep] at h
  split at h
  · simp only [Option.some.injEq, Prod.mk.injEq] at h
    rw [← h.2] at hr
    rcases List.mem_append.mp hr with h | h
    · exact Or.inl h
    · simp only [List.mem_singleton] at h; exact Or.inr h
  · split at h
    · split at h
      · simp at h
      · simp only [Option.some.injEq, Prod.mk.injEq] at h
        rw [← h.2] at hr
        rcases List.mem_append.mp hr with h | h
        · exact Or.inl (mem_dropLast h)
        · simp only [List.mem_singleton] at h; exact Or.inr h
    · simp only [Option.some.injEq, Prod.mk.injEq] at h
      rw [← h.2] at hr; exact Or.inl hr

theorem foldl_suffixPassStep_none (l : List (ER × Bool)) : l.foldl suffixPassStep none = none := by
  induction l with
  | nil => rfl
  | cons x xs ih => simp only [List.foldl_cons, suffixPassStep, ih]

theorem foldl_suffixPassStep_mem (r : ER) (l : List (ER × Bool)) : ∀ (c1 : Int) (r1 : List ER) (c2 : Int) (r2 : List ER),
    l.foldl suffixPassStep (some (c1, r1)) = some (c2, r2) → r ∈ r2 → r ∈ r1 ∨ ∃ b, (r, b) ∈ l := by
  induction l with
  | nil =>
    intro c1 r1 c2 r2 h hr
    simp only [List.foldl_nil, Option.some.injEq, Prod.mk.injEq] at h
    rw [← h.2] at hr; exact Or.inl hr
  | cons x xs ih =>
    intro c1 r1 c2 r2 h hr
    simp only [List.foldl_cons] at h
    cases hs : suffixPassStep (some (c1, r1)) x with
    | none => rw [hs, foldl_suffixPassStep_none] at h; simp at h
    | some p =>
      obtain ⟨c3, r3⟩ := p
      rw [hs] at h
      rcases ih c3 r3 c2 r2 h hr with h' | ⟨b, hb⟩
      · rcases suffixPassStep_mem c1 r1 x c3 r3 r hs h' with h'' | h''
        · exact Or.inl h''
        · exact Or.inr ⟨x.2, by rw [h'']; exact List.mem_cons_self⟩
      · exact Or.inr ⟨b, List.mem_cons_of_mem _ hb⟩

theorem suffixPass_mem (srcLen : Nat) (cands : List (ER × Bool)) (out : List ER) (r : ER)
    (h : suffixPass srcLen cands = some out) (hr : r ∈ out) : ∃ b, (r, b) ∈ cands := by
  unfold suffixPass at h
  cases hf : cands.reverse.foldl suffixPassStep (some ((srcLen : Int), [])) with
  | none => rw [hf] at h; simp at h
  | some p =>
    obtain ⟨cur, res⟩ := p
    rw [hf] at h
    simp only [Option.map_some, Option.some.injEq] at h
    subst h
    rcases foldl_suffixPassStep_mem r _ _ _ cur res hf hr with h | ⟨b, hb⟩
    · simp at h
    · exact ⟨b, List.mem_reverse.mp hb⟩

theorem insertByStart_mem (e : ER) (l : List ER) (r : ER) : r ∈ insertByStart e l ↔ r = e ∨ r ∈ l := by
  induction l with
  | nil => simp [insertByStart]
  | cons x xs ih =>
    simp only [insertByStart]
    split
    · simp
    · simp only [List.mem_cons, ih]
      constructor
      · rintro (h | h | h) <;> simp [h]
      · rintro (h | h | h) <;> simp [h]

theorem sortByStart_mem (l : List ER) (r : ER) : r ∈ sortByStart l ↔ r ∈ l := by
  unfold sortByStart
  have gen : ∀ (l acc : List ER), r ∈ l.foldl (fun acc e => insertByStart e acc) acc ↔ r ∈ acc ∨ r ∈ l := by
    intro l
    induction l with
    | nil => intro acc; simp
    | cons x xs ih =>
      intro acc
      simp only [List.foldl_cons, ih, insertByStart_mem, List.mem_cons]
      constructor
      · rintro ((h | h) | h) <;> simp [h]
      · rintro (h | h | h) <;> simp [h]
  simpa using gen l []

theorem mem_of_mem_zip_take (ers : List ER) (flags : List Bool) (r : ER) (b : Bool)
    (h : (r, b) ∈ (ers.take flags.length).zip flags) : r ∈ ers :=
  (List.take_sublist _ _).subset (List.of_mem_zip h).1

/-- `_select_candidates` returns only results it was given -/
theorem selectCandidates_mem (sp : Nat → Bool) (srcLen : Nat) (ers : List ER) (flags : List Bool) (out : List ER)
    (h : selectCandidates sp srcLen ers flags = some out) : ∀ r ∈ out, r ∈ ers := by
  unfold selectCandidates at h
  simp only [] at h
  split at h
  · simp at h
  · split at h
    · simp only [Option.some.injEq] at h; subst h; exact fun r hr => hr
    · cases hs : suffixPass srcLen ((ers.take flags.length).zip flags) with
      | none => simp [hs] at h
      | some suf =>
        simp only [hs] at h
        have hsep : ∀ r ∈ ers.drop flags.length, r ∈ ers := fun r hr => (List.drop_sublist _ _).subset hr
        split at h
        · simp only [Option.some.injEq] at h; subst h
          intro r hr
          rw [sortByStart_mem] at hr
          rcases List.mem_append.mp hr with hr | hr
          · have := (List.mem_filter.mp hr).1
            obtain ⟨b, hb⟩ := suffixPass_mem srcLen _ suf r hs this
            exact mem_of_mem_zip_take ers flags r b hb
          · exact hsep r hr
        · simp only [Option.some.injEq] at h; subst h
          intro r hr
          rcases List.mem_append.mp hr with hr | hr
          · obtain ⟨b, hb⟩ := prefixPass_mem _ r hr
            exact mem_of_mem_zip_take ers flags r b hb
          · exact hsep r hr

/-! ### the whole `extract` -/

/-- Well-formedness of what `extract` receives, relative to the string the loop works on (`fixedSource`): suffix
matches inside the string; numbers inside the string with text = slice; separate-regex matches inside with text = slice.
(Prefix matches need no hypothesis: the loop compares their text with the source itself.) -/
structure WF (c : Cfg) (i : Inputs) : Prop where
  suffixInside : ∀ m ∈ i.sm, m.start + m.len ≤ (fixedSource c i).length
  numbers : ∀ n ∈ loopNumbers c i, NumOK (fixedSource c i) n
  separate : ∀ m ∈ i.sep, m.1 + m.2.length ≤ (fixedSource c i).length ∧
    m.2 = slice (fixedSource c i) m.1 (m.1 + m.2.length)

theorem loopState_inv (c : Cfg) (i : Inputs) (h : WF c i) : Inv (fixedSource c i) (loopState c i) := by
  unfold loopState
  split
  · exact coreLoop_inv c _ i.pm i.sm i.nonUnit _ h.suffixInside h.numbers
  · exact ⟨MapOK_nil _, by simp [St.init], by simp [St.init]⟩

theorem sepER_ok (src : Str) (m : Nat × Str) (h : m.1 + m.2.length ≤ src.length ∧ m.2 = slice src m.1 (m.1 + m.2.length)) :
    ResOK src ⟨m.1, m.2.length, m.2, none⟩ :=
  ⟨h.1, h.2, by intro d hd; simp at hd⟩

theorem filteredTagged_sublist (c : Cfg) (i : Inputs) :
    ((filteredTagged c i).map (·.1)).Sublist
      (separateUnits (fixedSource c i).length i.ambTerm
        (if (loopState c i).nonUnitComputed then i.nonUnit else []) (loopState c i).result i.sep) := by
  unfold filteredTagged
  simp only []
  have h1 := filterAmbiguity_sublist (α := ER × Option Bool) (·.1) (fixedSource c i).length i.filt1
    (tagFlags (separateUnits (fixedSource c i).length i.ambTerm
      (if (loopState c i).nonUnitComputed then i.nonUnit else []) (loopState c i).result i.sep) (loopState c i).flags)
  have e := tagFlags_map_fst (separateUnits (fixedSource c i).length i.ambTerm
      (if (loopState c i).nonUnitComputed then i.nonUnit else []) (loopState c i).result i.sep) (loopState c i).flags
  split
  · have h2 := (filterAmbiguity_sublist (α := ER × Option Bool) (·.1) (fixedSource c i).length i.filt2 _).trans h1
    have := h2.map (·.1)
    rwa [e] at this
  · have := h1.map (·.1)
    rwa [e] at this

theorem filteredTagged_resOK (c : Cfg) (i : Inputs) (h : WF c i) :
    ∀ r ∈ (filteredTagged c i).map (·.1), ResOK (fixedSource c i) r := by
  have hinv := (loopState_inv c i h).2.1
  intro r hr
  have hr' := (filteredTagged_sublist c i).subset hr
  rcases separateUnits_mem _ _ _ _ _ _ hr' with hr' | ⟨m, hm, _, rfl⟩
  · exact hinv r hr'
  · exact sepER_ok _ m (h.separate m hm)

/-- every result of `extract` (before `expand_half_suffix`) is well formed -/
theorem extractPre_resOK (c : Cfg) (i : Inputs) (h : WF c i) (rs : List ER) (he : extractPre c i = some rs) :
    ∀ r ∈ rs, ResOK (fixedSource c i) r := by
  have hinv := (loopState_inv c i h).2.1
  unfold extractPre at he
  split at he
  · simp only [Option.some.injEq] at he; subst he; intro r hr; simp at hr
  · split at he
    · simp only [] at he
      split at he
      · intro r hr
        exact filteredTagged_resOK c i h r (selectCandidates_mem _ _ _ _ _ he r hr)
      · simp only [Option.some.injEq] at he; subst he; exact filteredTagged_resOK c i h
    · simp only [Option.some.injEq] at he; subst he; exact hinv

theorem expandHalf_no_half (res : List ER) (nums : List Num) (half : List Bool) (h : ∀ b ∈ half, b = false) :
    expandHalf res nums half = res := by
  unfold expandHalf
  have : ((nums.zip half).filterMap fun nb => if nb.2 then some nb.1 else none) = [] := by
    rw [List.filterMap_eq_nil_iff]
    intro nb hnb
    have := h nb.2 (List.of_mem_zip hnb).2
    simp [this]
  simp [this]

/-! ### `BaseMergedUnitExtractor`: merged groups are slices -/

def GroupOK (src : Str) (g : Group) : Prop := g.text = slice src g.start (g.start + g.len)
def ItemOK (src : Str) (it : Item) : Prop := it.text = slice src it.start (it.start + it.len)

theorem slice_trunc (src : Str) (s pe : Nat) : slice src s pe = slice src s (s + (pe - s)) := by
  unfold slice
  congr 1
  omega

theorem setAt_mem (l : List Group) (i : Nat) (g x : Group) (h : x ∈ setAt l i g) : x ∈ l ∨ x = g := by
  unfold setAt at h
  rw [List.mem_mapIdx] at h
  obtain ⟨k, hk, rfl⟩ := h
  split
  · exact Or.inr rfl
  · exact Or.inl (List.getElem_mem hk)

theorem buildGroups_ok (src : Str) : ∀ (l : List (Item × Nat)) (prev : Option Nat) (res out : List Group),
    (∀ p ∈ l, ItemOK src p.1) → (∀ g ∈ res, GroupOK src g) → buildGroups src l prev res = some out →
    ∀ g ∈ out, GroupOK src g := by
  intro l
  induction l with
  | nil => intro prev res out _ hres h; simp only [buildGroups, Option.some.injEq] at h; subst h; exact hres
  | cons p rest ih =>
    intro prev res out hl hres h
    obtain ⟨it, g⟩ := p
    have hit : ItemOK src it := hl (it, g) List.mem_cons_self
    have hrest : ∀ p ∈ rest, ItemOK src p.1 := fun p hp => hl p (List.mem_cons_of_mem _ hp)
    have hres1 : ∀ x ∈ (if prev ≠ some g then res ++ [⟨it.start, it.len, it.text, it.isNum, 1⟩] else res), GroupOK src x := by
      intro x hx
      split at hx
      · rcases List.mem_append.mp hx with hx | hx
        · exact hres x hx
        · simp only [List.mem_singleton] at hx; subst hx; exact hit
      · exact hres x hx
    unfold buildGroups at h
    simp only [] at h
    cases rest with
    | nil => exact ih prev _ out hrest hres1 h |> fun f => f
    | cons q rest' =>
      obtain ⟨nx, g2⟩ := q
      simp only [] at h
      split at h
      · split at h
        · rename_i r hr
          refine ih _ _ out hrest ?_ h
          intro x hx
          rcases setAt_mem _ _ _ _ hx with hx | hx
          · exact hres1 x hx
          · subst hx; exact slice_trunc src _ _
        · simp at h
      · exact ih _ _ out hrest hres1 h

theorem pureNumbers_mem (sp : Nat → Bool) (src : Str) (gapOK : Nat → Nat → Bool) (ers : List Item) (x : Item) :
    ∀ (nums : List Item) (j : Nat), x ∈ pureNumbers sp src gapOK ers nums j → x ∈ nums := by
  intro nums
  induction nums with
  | nil => intro j h; simp [pureNumbers] at h
  | cons n ns ih =>
    intro j h
    unfold pureNumbers at h
    simp only [] at h
    split at h
    · exact List.mem_cons_of_mem _ (ih _ h)
    · split at h
      · split at h
        · rcases List.mem_cons.mp h with h | h
          · exact h ▸ List.mem_cons_self
          · exact List.mem_cons_of_mem _ (ih _ h)
        · exact List.mem_cons_of_mem _ (ih _ h)
      · exact List.mem_cons_of_mem _ (ih _ h)

theorem insertItem_mem (e : Item) (l : List Item) (r : Item) : r ∈ insertItem e l ↔ r = e ∨ r ∈ l := by
  induction l with
  | nil => simp [insertItem]
  | cons x xs ih =>
    simp only [insertItem]
    split
    · simp
    · simp only [List.mem_cons, ih]
      constructor
      · rintro (h | h | h) <;> simp [h]
      · rintro (h | h | h) <;> simp [h]

theorem sortItems_mem (l : List Item) (r : Item) : r ∈ sortItems l ↔ r ∈ l := by
  unfold sortItems
  have gen : ∀ (l acc : List Item), r ∈ l.foldl (fun acc e => insertItem e acc) acc ↔ r ∈ acc ∨ r ∈ l := by
    intro l
    induction l with
    | nil => intro acc; simp
    | cons x xs ih =>
      intro acc
      simp only [List.foldl_cons, ih, insertItem_mem, List.mem_cons]
      constructor
      · rintro ((h | h) | h) <;> simp [h]
      · rintro (h | h | h) <;> simp [h]
  simpa using gen l []

theorem mergePureNumber_mem (sp : Nat → Bool) (src : Str) (gapOK : Nat → Nat → Bool) (ers nums : List Item) (x : Item)
    (h : x ∈ mergePureNumber sp src gapOK ers nums) : x ∈ ers ∨ x ∈ nums := by
  unfold mergePureNumber at h
  simp only [] at h
  rw [sortItems_mem] at h
  have gen : ∀ (us acc : List Item), x ∈ us.foldl (fun acc x =>
      if acc.any (fun er => decide (er.start ≤ x.start) && decide (er.start + er.len ≥ x.start)) then acc else acc ++ [x]) acc →
      x ∈ acc ∨ x ∈ us := by
    intro us
    induction us with
    | nil => intro acc h; exact Or.inl h
    | cons u us ih =>
      intro acc h
      simp only [List.foldl_cons] at h
      rcases ih _ h with h | h
      · split at h
        · exact Or.inl h
        · rcases List.mem_append.mp h with h | h
          · exact Or.inl h
          · simp only [List.mem_singleton] at h; exact Or.inr (h ▸ List.mem_cons_self)
      · exact Or.inr (List.mem_cons_of_mem _ h)
  rcases gen _ _ h with h | h
  · exact Or.inl h
  · exact Or.inr (pureNumbers_mem sp src gapOK ers x nums 0 h)

/-! ### lengths (the lockstep variant of `unit_is_prefix`) -/

theorem sepStep_length (ambTerm : Str) (nonUnit : List (Nat × Nat)) (acc : List Bool × List ER) (m : Nat × Str) :
    acc.2.length ≤ (sepStep ambTerm nonUnit acc m).2.length := by
  unfold sepStep
  repeat' split
  all_goals simp

theorem separateUnits_length_ge (srcLen : Nat) (ambTerm : Str) (nonUnit : List (Nat × Nat)) (res : List ER)
    (sep : List (Nat × Str)) : res.length ≤ (separateUnits srcLen ambTerm nonUnit res sep).length := by
  unfold separateUnits
  have gen : ∀ (sep : List (Nat × Str)) (acc : List Bool × List ER),
      acc.2.length ≤ (sep.foldl (sepStep ambTerm nonUnit) acc).2.length := by
    intro sep
    induction sep with
    | nil => intro acc; simp
    | cons m ms ih => intro acc; exact Nat.le_trans (sepStep_length ambTerm nonUnit acc m) (ih _)
  exact gen sep (List.foldl (fun mk e => markRange mk e.start e.len) (List.replicate srcLen false) res, res)

theorem ResOK.erEnd_le {src : Str} {r : ER} (h : ResOK src r) : erEnd r ≤ (src.length : Int) := by
  have := h.1
  unfold erEnd
  omega


/-! ### separate units: appended after the loop's results, disjoint from them -/

/-- two results share no character position -/
def Disj (a b : ER) : Prop := ∀ k, a.start ≤ k → k < a.start + a.len → b.start ≤ k → k < b.start + b.len → False

theorem markRange_length (marks : List Bool) (s l : Nat) : (markRange marks s l).length = marks.length := by
  simp [markRange]

theorem markRange_getD (marks : List Bool) (s l k : Nat) :
    (markRange marks s l).getD k false = (marks.getD k false || (decide (s ≤ k) && decide (k < s + l) && decide (k < marks.length))) := by
  unfold markRange
  simp only [List.getD_eq_getElem?_getD, List.getElem?_mapIdx]
  by_cases hk : k < marks.length
  · simp [List.getElem?_eq_getElem hk, hk]
  · have : marks[k]? = none := List.getElem?_eq_none (by omega)
    simp [this, hk]

/-- marks that only grow and cover the loop's results -/
def Covers (srcLen : Nat) (res : List ER) (marks : List Bool) : Prop :=
  marks.length = srcLen ∧ ∀ r ∈ res, ∀ k, r.start ≤ k → k < r.start + r.len → k < srcLen → marks.getD k false = true

theorem Covers.markRange {srcLen : Nat} {res : List ER} {marks : List Bool} (h : Covers srcLen res marks) (s l : Nat) :
    Covers srcLen res (markRange marks s l) := by
  refine ⟨by rw [markRange_length]; exact h.1, ?_⟩
  intro r hr k h1 h2 h3
  rw [markRange_getD, h.2 r hr k h1 h2 h3]; rfl

theorem foldl_markRange_covers (srcLen : Nat) (res : List ER) :
    Covers srcLen res (res.foldl (fun mk e => markRange mk e.start e.len) (List.replicate srcLen false)) := by
  have gen : ∀ (l : List ER) (marks : List Bool), marks.length = srcLen →
      (l.foldl (fun mk e => markRange mk e.start e.len) marks).length = srcLen ∧
      (∀ k, marks.getD k false = true → (l.foldl (fun mk e => markRange mk e.start e.len) marks).getD k false = true) ∧
      ∀ r ∈ l, ∀ k, r.start ≤ k → k < r.start + r.len → k < srcLen →
        (l.foldl (fun mk e => markRange mk e.start e.len) marks).getD k false = true := by
    intro l
    induction l with
    | nil => intro marks h; exact ⟨h, fun k hk => hk, by intro r hr; simp at hr⟩
    | cons e es ih =>
      intro marks h
      simp only [List.foldl_cons]
      obtain ⟨a, b, c⟩ := ih (markRange marks e.start e.len) (by rw [markRange_length]; exact h)
      refine ⟨a, ?_, ?_⟩
      · intro k hk; apply b; rw [markRange_getD, hk]; rfl
      · intro r hr k h1 h2 h3
        rcases List.mem_cons.mp hr with rfl | hr
        · apply b; rw [markRange_getD]; simp [h1, h2, h, h3]
        · exact c r hr k h1 h2 h3
  obtain ⟨a, _, c⟩ := gen res (List.replicate srcLen false) (by simp)
  exact ⟨a, c⟩

theorem allFree_spec (marks : List Bool) (s l : Nat) (h : allFree marks s l = true) :
    ∀ i, i < l → marks.getD (s + i) false = false := by
  unfold allFree at h
  rw [List.all_eq_true] at h
  intro i hi
  have := h i (List.mem_range.mpr hi)
  simpa using this

/-- the extract result of a separate-regex match -/
def sepER (m : Nat × Str) : ER := ⟨m.1, m.2.length, m.2, none⟩

theorem sepStep_spec (srcLen : Nat) (ambTerm : Str) (nonUnit : List (Nat × Nat)) (res0 : List ER)
    (acc : List Bool × List ER) (m : Nat × Str) (hc : Covers srcLen res0 acc.1) :
    Covers srcLen res0 (sepStep ambTerm nonUnit acc m).1 ∧
    ((sepStep ambTerm nonUnit acc m).2 = acc.2 ∨
      ((sepStep ambTerm nonUnit acc m).2 = acc.2 ++ [sepER m] ∧ m.2 ≠ [] ∧ ∀ r ∈ res0, r.start + r.len ≤ srcLen → Disj (sepER m) r)) := by
  unfold sepStep
  by_cases h1 : m.2.isEmpty = true
  · simp [h1, hc]
  · simp only [h1, Bool.false_eq_true, if_false]
    by_cases h2 : allFree acc.1 m.1 m.2.length = true
    · simp only [h2, if_true]
      have hfree := allFree_spec _ _ _ h2
      have hd : ∀ r ∈ res0, r.start + r.len ≤ srcLen → Disj (sepER m) r := by
        intro r hr hin k a1 a2 b1 b2
        simp only [sepER] at a1 a2
        have ht := hc.2 r hr k b1 b2 (by omega)
        have hf := hfree (k - m.1) (by omega)
        rw [show m.1 + (k - m.1) = k by omega] at hf
        rw [ht] at hf; cases hf
      split
      · exact ⟨hc.markRange _ _, Or.inl rfl⟩
      · exact ⟨hc.markRange _ _, Or.inr ⟨rfl, by simpa using h1, hd⟩⟩
    · simp [h2, hc]

/-- `_extract_separate_units` appends: the loop's results stay in front, in order; what is added are extract results of
non-empty separate-regex matches, in match order, each sharing no position with any result of the loop -/
theorem separateUnits_spec (srcLen : Nat) (ambTerm : Str) (nonUnit : List (Nat × Nat)) (res : List ER)
    (sep : List (Nat × Str)) :
    ∃ added, separateUnits srcLen ambTerm nonUnit res sep = res ++ added ∧
      added.Sublist (sep.map sepER) ∧
      ∀ u ∈ added, u.text ≠ [] ∧ u.data = none ∧ ∀ r ∈ res, r.start + r.len ≤ srcLen → Disj u r := by
  unfold separateUnits
  have gen : ∀ (sep : List (Nat × Str)) (acc : List Bool × List ER) (pre : List ER), Covers srcLen res acc.1 →
      acc.2 = res ++ pre →
      ∃ added, (sep.foldl (sepStep ambTerm nonUnit) acc).2 = res ++ pre ++ added ∧ added.Sublist (sep.map sepER) ∧
        ∀ u ∈ added, u.text ≠ [] ∧ u.data = none ∧ ∀ r ∈ res, r.start + r.len ≤ srcLen → Disj u r := by
    intro sep
    induction sep with
    | nil => intro acc pre _ h; exact ⟨[], by simp [h], List.Sublist.refl _, by simp⟩
    | cons m ms ih =>
      intro acc pre hc h
      simp only [List.foldl_cons]
      obtain ⟨hc', hs⟩ := sepStep_spec srcLen ambTerm nonUnit res acc m hc
      rcases hs with hs | ⟨hs, hne, hd⟩
      · obtain ⟨added, e, sl, pr⟩ := ih _ pre hc' (by rw [hs, h])
        exact ⟨added, e, sl.trans (by simp), pr⟩
      · obtain ⟨added, e, sl, pr⟩ := ih _ (pre ++ [sepER m]) hc' (by rw [hs, h, List.append_assoc])
        refine ⟨sepER m :: added, by rw [e]; simp, by simpa using sl.cons_cons (sepER m), ?_⟩
        intro u hu
        rcases List.mem_cons.mp hu with rfl | hu
        · exact ⟨by simpa [sepER] using hne, rfl, hd⟩
        · exact pr u hu
  obtain ⟨added, e, sl, pr⟩ := gen sep (_, res) [] (foldl_markRange_covers srcLen res) (by simp)
  exact ⟨added, by simpa using e, sl, pr⟩


/-! ### `expand_half_suffix` -/

/-- what `expand_half_suffix` can do to one result: nothing, or append the one half-number whose (current) start equals
the result's end -/
theorem expandHalf_cases (res : List ER) (nums : List Num) (half : List Bool) :
    ∀ r' ∈ expandHalf res nums half, ∃ r ∈ res, r' = r ∨
      ∃ mr ∈ nums, mr.start = r.start + r.len ∧ r' = { r with len := r.len + mr.len, text := r.text ++ mr.text } := by
  intro r' hr'
  unfold expandHalf at hr'
  simp only [] at hr'
  split at hr'
  · exact ⟨r', hr', Or.inl rfl⟩
  · rw [List.mem_map] at hr'
    obtain ⟨r, hr, e⟩ := hr'
    refine ⟨r, hr, ?_⟩
    split at e
    · rename_i mr hf
      right
      have hm : mr ∈ List.filter (fun mr => mr.start == r.start + r.len)
          ((nums.zip half).filterMap fun nb => if nb.2 then some nb.1 else none) := by rw [hf]; simp
      obtain ⟨h1, h2⟩ := List.mem_filter.mp hm
      obtain ⟨nb, hnb, hq⟩ := List.mem_filterMap.mp h1
      have : nb.1 = mr := by
        split at hq
        · simpa using hq
        · simp at hq
      refine ⟨mr, this ▸ (List.of_mem_zip hnb).1, by simpa using h2, e.symm⟩
    · exact Or.inl e.symm

end RTV.UnitExtract
