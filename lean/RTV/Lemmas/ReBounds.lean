import RTV.Lemmas.Re
/-! Every end the matcher reports lies at or after the start and inside the string. -/
namespace RTV.Re
variable {T : Tables} {s : Array Nat}

theorem repEnds_bounds (f : Nat → List Nat) (g : Bool)
    (hf : ∀ i j, j ∈ f i → i ≤ j ∧ (i ≤ s.size → j ≤ s.size)) (mx : Nat) :
    ∀ mn i j, j ∈ repEnds f g mx mn i → i ≤ j ∧ (i ≤ s.size → j ≤ s.size) := by
  induction mx with
  | zero => intro mn i j h; have := (mem_repEnds_zero.1 h).2; subst this; exact ⟨Nat.le_refl _, id⟩
  | succ mx ih =>
    intro mn i j h
    rcases mem_repEnds_succ.1 h with ⟨k, hk, hj⟩ | ⟨_, rfl⟩
    · have a := hf i k hk
      have b := ih _ k j hj
      exact ⟨by omega, fun hi => b.2 (a.2 hi)⟩
    · exact ⟨Nat.le_refl _, id⟩

theorem ends_bounds (r : RE) : ∀ i j, j ∈ ends T s r i → i ≤ j ∧ (i ≤ s.size → j ≤ s.size) := by
  induction r with
  | eps => intro i j h; have := mem_eps.1 h; subst this; exact ⟨Nat.le_refl _, id⟩
  | cls items neg => intro i j h; obtain ⟨h1, _, rfl⟩ := mem_cls.1 h; exact ⟨by omega, fun _ => by omega⟩
  | seq a b iha ihb =>
    intro i j h
    obtain ⟨k, hk, hj⟩ := mem_seq.1 h
    have x := iha i k hk; have y := ihb k j hj
    exact ⟨by omega, fun hi => y.2 (x.2 hi)⟩
  | alt a b iha ihb => intro i j h; rcases mem_alt.1 h with h | h; exact iha i j h; exact ihb i j h
  | rep a mn mx g ih => intro i j h; rw [ends] at h; exact repEnds_bounds _ g ih mx mn i j h
  | repU a mn g ih => intro i j h; rw [ends] at h; exact repEnds_bounds _ g ih _ mn i j h
  | grp n a ih => intro i j h; exact ih i j (mem_grp.1 h)
  | wordB => intro i j h; have := (mem_wordB.1 h).2; subst this; exact ⟨Nat.le_refl _, id⟩
  | nwordB => intro i j h; have := (mem_nwordB.1 h).2; subst this; exact ⟨Nat.le_refl _, id⟩
  | bol => intro i j h; have := (mem_bol.1 h).2; subst this; exact ⟨Nat.le_refl _, id⟩
  | eos => intro i j h; have := (mem_eos.1 h).2; subst this; exact ⟨Nat.le_refl _, id⟩
  | eol =>
    intro i j h
    rw [ends] at h
    split at h
    · simp at h; subst h; exact ⟨Nat.le_refl _, id⟩
    · simp at h
  | look ahead neg a _ =>
    intro i j h
    cases ahead <;> rw [ends] at h <;> split at h <;> simp at h <;> (subst h; exact ⟨Nat.le_refl _, id⟩)

/-- every span `finditer` reports lies inside the string -/
theorem findAllFrom_bounds (r : RE) (fuel : Nat) : ∀ pos, ∀ p ∈ findAllFrom T s r fuel pos,
    p.1 ≤ p.2 ∧ p.2 ≤ s.size := by
  induction fuel with
  | zero => intro pos p h; simp [findAllFrom] at h
  | succ n ih =>
    intro pos p h
    rw [findAllFrom] at h
    split at h
    · simp at h
    · rename_i hp
      split at h
      · rename_i k hk
        rcases List.mem_cons.1 h with rfl | h
        · have := ends_bounds r pos k (firstEnd_mem hk)
          exact ⟨this.1, this.2 (by omega)⟩
        · exact ih _ p h
      · exact ih _ p h

theorem findAll_bounds (r : RE) : ∀ p ∈ findAll T s r, p.1 ≤ p.2 ∧ p.2 ≤ s.size :=
  findAllFrom_bounds r _ 0

end RTV.Re
