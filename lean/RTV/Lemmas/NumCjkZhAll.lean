import RTV.Lemmas.NumCjkZh0
import RTV.Lemmas.NumCjkZh1
import RTV.Lemmas.NumCjkZh2
import RTV.Lemmas.NumCjkZh3
import RTV.Lemmas.NumCjkZh4
import RTV.Lemmas.NumCjkZh5
import RTV.Lemmas.NumCjkZh6
import RTV.Lemmas.NumCjkZh7
import RTV.Lemmas.NumCjkZh8
import RTV.Lemmas.NumCjkZh9
/-! all chunks together -/
namespace RTV.NumCjk
open RTV.Num

theorem zh_loop_chunks (k : Nat) (hk : k < 100) : zhLoopChunk k = true := by
  match k, hk with
  | 0, _ => exact zh_l0
  | 1, _ => exact zh_l1
  | 2, _ => exact zh_l2
  | 3, _ => exact zh_l3
  | 4, _ => exact zh_l4
  | 5, _ => exact zh_l5
  | 6, _ => exact zh_l6
  | 7, _ => exact zh_l7
  | 8, _ => exact zh_l8
  | 9, _ => exact zh_l9
  | 10, _ => exact zh_l10
  | 11, _ => exact zh_l11
  | 12, _ => exact zh_l12
  | 13, _ => exact zh_l13
  | 14, _ => exact zh_l14
  | 15, _ => exact zh_l15
  | 16, _ => exact zh_l16
  | 17, _ => exact zh_l17
  | 18, _ => exact zh_l18
  | 19, _ => exact zh_l19
  | 20, _ => exact zh_l20
  | 21, _ => exact zh_l21
  | 22, _ => exact zh_l22
  | 23, _ => exact zh_l23
  | 24, _ => exact zh_l24
  | 25, _ => exact zh_l25
  | 26, _ => exact zh_l26
  | 27, _ => exact zh_l27
  | 28, _ => exact zh_l28
  | 29, _ => exact zh_l29
  | 30, _ => exact zh_l30
  | 31, _ => exact zh_l31
  | 32, _ => exact zh_l32
  | 33, _ => exact zh_l33
  | 34, _ => exact zh_l34
  | 35, _ => exact zh_l35
  | 36, _ => exact zh_l36
  | 37, _ => exact zh_l37
  | 38, _ => exact zh_l38
  | 39, _ => exact zh_l39
  | 40, _ => exact zh_l40
  | 41, _ => exact zh_l41
  | 42, _ => exact zh_l42
  | 43, _ => exact zh_l43
  | 44, _ => exact zh_l44
  | 45, _ => exact zh_l45
  | 46, _ => exact zh_l46
  | 47, _ => exact zh_l47
  | 48, _ => exact zh_l48
  | 49, _ => exact zh_l49
  | 50, _ => exact zh_l50
  | 51, _ => exact zh_l51
  | 52, _ => exact zh_l52
  | 53, _ => exact zh_l53
  | 54, _ => exact zh_l54
  | 55, _ => exact zh_l55
  | 56, _ => exact zh_l56
  | 57, _ => exact zh_l57
  | 58, _ => exact zh_l58
  | 59, _ => exact zh_l59
  | 60, _ => exact zh_l60
  | 61, _ => exact zh_l61
  | 62, _ => exact zh_l62
  | 63, _ => exact zh_l63
  | 64, _ => exact zh_l64
  | 65, _ => exact zh_l65
  | 66, _ => exact zh_l66
  | 67, _ => exact zh_l67
  | 68, _ => exact zh_l68
  | 69, _ => exact zh_l69
  | 70, _ => exact zh_l70
  | 71, _ => exact zh_l71
  | 72, _ => exact zh_l72
  | 73, _ => exact zh_l73
  | 74, _ => exact zh_l74
  | 75, _ => exact zh_l75
  | 76, _ => exact zh_l76
  | 77, _ => exact zh_l77
  | 78, _ => exact zh_l78
  | 79, _ => exact zh_l79
  | 80, _ => exact zh_l80
  | 81, _ => exact zh_l81
  | 82, _ => exact zh_l82
  | 83, _ => exact zh_l83
  | 84, _ => exact zh_l84
  | 85, _ => exact zh_l85
  | 86, _ => exact zh_l86
  | 87, _ => exact zh_l87
  | 88, _ => exact zh_l88
  | 89, _ => exact zh_l89
  | 90, _ => exact zh_l90
  | 91, _ => exact zh_l91
  | 92, _ => exact zh_l92
  | 93, _ => exact zh_l93
  | 94, _ => exact zh_l94
  | 95, _ => exact zh_l95
  | 96, _ => exact zh_l96
  | 97, _ => exact zh_l97
  | 98, _ => exact zh_l98
  | 99, _ => exact zh_l99
  | k + 100, h => omega

theorem zh_loop_all (n : Nat) (h : n < 10000) : loopIs zhCfg (spellZh n) n = true := by
  have hc := zh_loop_chunks (n / 100) (by omega)
  simp only [zhLoopChunk, List.all_eq_true, List.mem_range] at hc
  have := hc (n % 100) (Nat.mod_lt _ (by decide))
  have e : 100 * (n / 100) + n % 100 = n := Nat.div_add_mod n 100
  rwa [e] at this

end RTV.NumCjk
