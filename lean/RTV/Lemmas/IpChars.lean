import RTV.Lemmas.Ip
import RTV.Lemmas.Ip6
import RTV.Lemmas.ReBounds
/-!
Character-level facts about IPv4 / IPv6 address texts in positional form (`V4Body`, `V6At`): which characters occur,
where they begin and end.  Used by the extractor-level theorems of `Props/C13Extract.lean` (a delimiter that is no
address character cannot lie inside a match).
-/
namespace RTV.Re

/-! ### IPv4 -/

theorem OctetAt_first_digit {s : Array Nat} {i j : Nat} (h : OctetAt s i j) : isD (code s i) := by
  unfold OctetAt at h
  rcases h with ⟨_, h⟩ | ⟨_, h, _⟩ | ⟨_, h, _⟩ <;> exact h

theorem OctetAt_chars {s : Array Nat} {i j : Nat} (h : OctetAt s i j) : ∀ k, i ≤ k → k < j → isD (code s k) := by
  intro k h1 h2
  unfold OctetAt at h
  rcases h with ⟨rfl, h⟩ | ⟨rfl, ha, hb⟩ | ⟨rfl, ha, hb, hc, _⟩
  · have : k = i := by omega
    subst this; exact h
  · have : k = i ∨ k = i + 1 := by omega
    rcases this with rfl | rfl <;> assumption
  · have : k = i ∨ k = i + 1 ∨ k = i + 2 := by omega
    rcases this with rfl | rfl | rfl <;> assumption

theorem DotOct_chars {s : Array Nat} {i j : Nat} (h : DotOct s i j) :
    i < j ∧ ∀ k, i ≤ k → k < j → code s k = 46 ∨ isD (code s k) := by
  have hb := OctetAt_bounds h.2
  refine ⟨by omega, ?_⟩
  intro k h1 h2
  by_cases hk : k = i
  · subst hk; exact .inl h.1
  · exact .inr (OctetAt_chars h.2 k (by omega) h2)

/-- a dotted quad at `[i, j)`: non-empty, inside the text, begins and ends with a digit, only digits and dots -/
theorem V4Body_chars {s : Array Nat} {i j : Nat} (h : V4Body s i j) :
    i < j ∧ j ≤ s.size ∧ isD (code s i) ∧ isD (code s (j - 1)) ∧
      ∀ k, i ≤ k → k < j → code s k = 46 ∨ isD (code s k) := by
  obtain ⟨k1, h1, k2, h2, k3, h3, h4⟩ := h
  have b1 := OctetAt_bounds h1
  have c2 := DotOct_chars h2
  have c3 := DotOct_chars h3
  have c4 := DotOct_chars h4
  have b4 := OctetAt_bounds h4.2
  refine ⟨by omega, b4.2, OctetAt_first_digit h1, (OctetAt_last_digit h4.2).2, ?_⟩
  intro k hk1 hk2
  by_cases a1 : k < k1
  · exact .inr (OctetAt_chars h1 k hk1 a1)
  · by_cases a2 : k < k2
    · exact c2.2 k (by omega) a2
    · by_cases a3 : k < k3
      · exact c3.2 k (by omega) a3
      · exact c4.2 k (by omega) hk2

/-! ### IPv6 -/

/-- `[i, j)` is non-empty and consists of hex digits and colons -/
def HexColon (s : Array Nat) (i j : Nat) : Prop :=
  i < j ∧ ∀ k, i ≤ k → k < j → isHexI (code s k) ∨ code s k = 58

theorem HexColon_trans {s : Array Nat} {i k j : Nat} (h1 : HexColon s i k) (h2 : HexColon s k j) : HexColon s i j := by
  refine ⟨by have := h1.1; have := h2.1; omega, ?_⟩
  intro m a b
  by_cases hm : m < k
  · exact h1.2 m a hm
  · exact h2.2 m (by omega) b

theorem HextetAt_hexColon {s : Array Nat} {i j : Nat} (h : HextetAt s i j) : HexColon s i j := by
  obtain ⟨n, n1, _, r, rfl⟩ := h
  refine ⟨by omega, ?_⟩
  intro k a b
  have := r (k - i) (by omega)
  rw [show i + (k - i) = k by omega] at this
  exact .inl this

theorem HC_hexColon {s : Array Nat} {i k : Nat} (h : HC s i k) : HexColon s i k := by
  obtain ⟨m, hh, c, rfl⟩ := h
  have := HextetAt_hexColon hh
  refine ⟨by have := this.1; omega, ?_⟩
  intro x a b
  by_cases hx : x < m
  · exact this.2 x a hx
  · have : x = m := by omega
    subst this; exact .inr c

theorem CH_hexColon {s : Array Nat} {i k : Nat} (h : CH s i k) : HexColon s i k := by
  obtain ⟨c, hh⟩ := h
  have := HextetAt_hexColon hh
  refine ⟨by have := this.1; omega, ?_⟩
  intro x a b
  by_cases hx : x = i
  · subst hx; exact .inr c
  · exact this.2 x (by omega) b

theorem Iter_hexColon {s : Array Nat} {R : Nat → Nat → Prop} (hR : ∀ i k, R i k → HexColon s i k) (n : Nat) :
    ∀ i k, 1 ≤ n → Iter R n i k → HexColon s i k := by
  induction n with
  | zero => intro i k h; omega
  | succ n ih =>
    intro i k _ h
    obtain ⟨m, hm, h⟩ := h
    cases n with
    | zero => simp only [Iter] at h; subst h; exact hR _ _ hm
    | succ n' => exact HexColon_trans (hR _ _ hm) (ih m k (by omega) h)

theorem colon_hexColon {s : Array Nat} {i : Nat} (h : code s i = 58) : HexColon s i (i + 1) := by
  refine ⟨by omega, ?_⟩
  intro k a b
  have : k = i := by omega
  subst this; exact .inr h

theorem Iter_HC_last_colon {s : Array Nat} (n : Nat) : ∀ {i k : Nat}, 1 ≤ n → Iter (HC s) n i k →
    0 < k ∧ code s (k - 1) = 58 := by
  induction n with
  | zero => intro i k h; omega
  | succ n ih =>
    intro i k _ h
    obtain ⟨m, hm, h⟩ := h
    cases n with
    | zero =>
      simp only [Iter] at h; subst h
      obtain ⟨m', _, c, rfl⟩ := hm
      exact ⟨by omega, by simpa using c⟩
    | succ n' => exact ih (by omega) h

theorem LeftAt_hexColon {s : Array Nat} {i a k : Nat} (h : LeftAt s i a k) :
    HexColon s i k ∧ code s (k - 1) = 58 := by
  rcases h with ⟨_, c, rfl⟩ | ⟨a1, h⟩
  · exact ⟨colon_hexColon c, by simpa using c⟩
  · exact ⟨Iter_hexColon (fun _ _ => HC_hexColon) a i k a1 h, (Iter_HC_last_colon a a1 h).2⟩

theorem RightAt_hexColon {s : Array Nat} {k b j : Nat} (h : RightAt s k b j) : HexColon s k j := by
  rcases h with ⟨_, c, rfl⟩ | ⟨b1, h⟩
  · exact colon_hexColon c
  · exact Iter_hexColon (fun _ _ => CH_hexColon) b k j b1 h

/-- an IPv6 address text is a non-empty run of hex digits and colons that contains a colon -/
theorem V6At_chars {s : Array Nat} {i j : Nat} (h : V6At s i j) :
    HexColon s i j ∧ ∃ k, i ≤ k ∧ k < j ∧ code s k = 58 := by
  rcases h with ⟨k, hk, hh⟩ | ⟨a, b, k, _, hl, hr⟩
  · have h1 := Iter_hexColon (fun _ _ => HC_hexColon) 7 i k (by omega) hk
    have h2 := HextetAt_hexColon hh
    have hc := Iter_HC_last_colon 7 (by omega) hk
    exact ⟨HexColon_trans h1 h2, k - 1, by have := h1.1; omega, by have := h2.1; omega, hc.2⟩
  · have h1 := LeftAt_hexColon hl
    have h2 := RightAt_hexColon hr
    refine ⟨HexColon_trans h1.1 h2, k - 1, ?_, ?_, h1.2⟩
    · have := h1.1.1; omega
    · have := h1.1.1; have := h2.1; omega

/-- the last character of an address text is a hex digit or the second colon of `::` -/
theorem HexColon_bounds {s : Array Nat} {i j : Nat} (h : HexColon s i j) : j ≤ s.size := by
  have := h.2 (j - 1) (by have := h.1; omega) (by have := h.1; omega)
  have hp : 0 < code s (j - 1) := by
    rcases this with h | h
    · unfold isHexI at h; omega
    · omega
  have := code_lt_size hp
  have := h.1
  omega

end RTV.Re
