import RTV.Model.Factory
/-! Helper lemmas for L9 `Factory` (used by `RTV/Props/C17.lean` and `RTV/Props/C02.lean`). -/
namespace RTV.Factory
open RTV.Py

/-! ### the dict -/

theorem dictGet_mem {k : Key} {d : List (Key × Obj)} {v : Obj} (h : dictGet k d = some v) : (k, v) ∈ d := by
  induction d with
  | nil => simp [dictGet] at h
  | cons e rest ih =>
    obtain ⟨k', v'⟩ := e
    simp only [dictGet] at h
    split at h
    · simp_all
    · simp [ih h]

theorem dictGet_none_not_mem {k : Key} {d : List (Key × Obj)} (h : dictGet k d = none) : ∀ v, (k, v) ∉ d := by
  induction d with
  | nil => simp
  | cons e rest ih =>
    obtain ⟨k', v'⟩ := e
    simp only [dictGet] at h
    split at h
    · simp at h
    · intro v hv
      simp only [List.mem_cons, Prod.mk.injEq] at hv
      rcases hv with ⟨h1, _⟩ | hv
      · exact absurd h1.symm ‹_›
      · exact ih h v hv

theorem dictSet_eq_append {k : Key} {v : Obj} {d : List (Key × Obj)} (h : dictGet k d = none) :
    dictSet k v d = d ++ [(k, v)] := by
  induction d with
  | nil => rfl
  | cons e rest ih =>
    obtain ⟨k', v'⟩ := e
    simp only [dictGet] at h
    split at h
    · simp at h
    · simp [dictSet, *]

theorem mem_dictSet {k : Key} {v : Obj} {d : List (Key × Obj)} {e : Key × Obj} (h : e ∈ dictSet k v d) :
    e = (k, v) ∨ e ∈ d := by
  induction d with
  | nil => simp [dictSet] at h; exact Or.inl h
  | cons e' rest ih =>
    obtain ⟨k', v'⟩ := e'
    simp only [dictSet] at h
    split at h
    · simp only [List.mem_cons] at h
      rcases h with h | h
      · exact Or.inl h
      · exact Or.inr (by simp [h])
    · simp only [List.mem_cons] at h
      rcases h with h | h
      · exact Or.inr (by simp [h])
      · rcases ih h with h | h
        · exact Or.inl h
        · exact Or.inr (by simp [h])

theorem dictSet_mem (k : Key) (v : Obj) (d : List (Key × Obj)) : (k, v) ∈ dictSet k v d := by
  induction d with
  | nil => simp [dictSet]
  | cons e' rest ih =>
    obtain ⟨k', v'⟩ := e'
    simp only [dictSet]
    split <;> simp [*]

/-- the value a dict with unique keys holds for a key is unique -/
theorem nodup_keys_unique {d : List (Key × Obj)} (hn : (d.map (·.1)).Nodup) {k : Key} {v v' : Obj}
    (h : (k, v) ∈ d) (h' : (k, v') ∈ d) : v = v' := by
  induction d with
  | nil => cases h
  | cons e rest ih =>
    simp only [List.map_cons, List.nodup_cons, List.mem_map, not_exists, not_and] at hn
    simp only [List.mem_cons] at h h'
    rcases h with h | h <;> rcases h' with h' | h'
    · rw [← h] at h'; exact (Prod.mk.inj h').2.symm
    · subst h; exact absurd rfl (hn.1 (k, v') h')
    · subst h'; exact absurd rfl (hn.1 (k, v) h)
    · exact ih hn.2 h h'

theorem nodup_serial_unique {d : List (Key × Obj)} (hn : (d.map (·.2.serial)).Nodup) {e e' : Key × Obj}
    (h : e ∈ d) (h' : e' ∈ d) (hs : e.2.serial = e'.2.serial) : e = e' := by
  induction d with
  | nil => cases h
  | cons x rest ih =>
    simp only [List.map_cons, List.nodup_cons, List.mem_map, not_exists, not_and] at hn
    simp only [List.mem_cons] at h h'
    rcases h with h | h <;> rcases h' with h' | h'
    · rw [h, h']
    · subst h; exact absurd hs.symm (hn.1 _ h')
    · subst h'; exact absurd hs (hn.1 _ h)
    · exact ih hn.2 h h'

/-! ### the cache invariant -/

/-- Every cached object sits under the key of the constructor call that built it, that constructor is a
registered one, keys and object identities are unique. -/
structure Inv (cfg : Cfg) (st : State) : Prop where
  wf : ∀ k m, (k, m) ∈ st.cache → k = keyOf m.id ∧ (m.id.type, m.id.culture) ∈ cfg.regs m.id.kind ∧
    m.serial < st.next
  keys : (st.cache.map (·.1)).Nodup
  serials : (st.cache.map (·.2.serial)).Nodup

/-- `st'` extends `st`: nothing is removed or overwritten, the allocation counter does not go back. -/
def Ext (st st' : State) : Prop := (∀ e ∈ st.cache, e ∈ st'.cache) ∧ st.next ≤ st'.next

theorem Ext.refl (st : State) : Ext st st := ⟨fun _ h => h, Nat.le_refl _⟩
theorem Ext.trans {a b c : State} (h₁ : Ext a b) (h₂ : Ext b c) : Ext a c :=
  ⟨fun e h => h₂.1 e (h₁.1 e h), Nat.le_trans h₁.2 h₂.2⟩

theorem inv_init (cfg : Cfg) : Inv cfg State.init := ⟨by simp [State.init], by simp [State.init], by simp [State.init]⟩

/-- The type is registered by no other recogniser kind (model type names are not shared between recognisers). -/
def Owned (cfg : Cfg) (kind : Nat) (t : Str) : Prop := ∀ k' c', (t, c') ∈ cfg.regs k' → k' = kind

/-- Cold answer of `try_get_model`. -/
def tryRoute (cfg : Cfg) (kind : Nat) (t : Str) (c : Option Str) (o : Int) : Option ModelId :=
  match c with
  | some cs => if (t, cs) ∈ cfg.regs kind then some ⟨kind, t, cs, o⟩ else none
  | none => none

theorem route_eq (cfg : Cfg) (kind : Nat) (t : Str) (c : Option Str) (fb : Bool) (o : Int) :
    (route cfg kind t c fb o).toOption =
      ((tryRoute cfg kind t c o).or (if fb then tryRoute cfg kind t (some cfg.fallback) o else none)) := by
  unfold route tryRoute
  by_cases hf : (t, cfg.fallback) ∈ cfg.regs kind <;> cases fb <;> cases c with
  | none => simp [Except.toOption, hf]
  | some cs => by_cases h : (t, cs) ∈ cfg.regs kind <;> simp [Except.toOption, hf, h]

/-- Everything `try_get_model` guarantees, for any cache state satisfying the invariant. -/
theorem tryGet_spec (cfg : Cfg) (kind : Nat) (t : Str) (c : Option Str) (o : Int) (st : State) (h : Inv cfg st) :
    Inv cfg (tryGet cfg kind t c o st).1 ∧ Ext st (tryGet cfg kind t c o st).1 ∧
    (∀ m, (tryGet cfg kind t c o st).2 = some m →
        (keyOf m.id, m) ∈ (tryGet cfg kind t c o st).1.cache ∧ m.id.type = t ∧ c = some m.id.culture ∧
        m.id.options = o ∧ (t, m.id.culture) ∈ cfg.regs m.id.kind) ∧
    ((tryGet cfg kind t c o st).2 = none → tryRoute cfg kind t c o = none) ∧
    (Owned cfg kind t → (tryGet cfg kind t c o st).2.map (·.id) = tryRoute cfg kind t c o) := by
  unfold tryGet
  cases hg : dictGet ⟨t, c, o⟩ st.cache with
  | some m =>
    have hm := dictGet_mem hg
    obtain ⟨hk, hr, _⟩ := h.wf _ _ hm
    have hk' : (⟨t, c, o⟩ : Key) = ⟨m.id.type, some m.id.culture, m.id.options⟩ := hk
    injection hk' with h1 h2 h3
    refine ⟨h, Ext.refl _, ?_, by simp, ?_⟩
    · intro m' hm'
      simp only [Option.some.injEq] at hm'
      subst hm'
      refine ⟨by rw [← hk]; exact hm, h1.symm, h2, h3.symm, by rw [h1]; exact hr⟩
    · intro hown
      have hkind : m.id.kind = kind := hown _ _ (by rw [h1]; exact hr)
      simp only [Option.map_some, tryRoute, h2]
      have : (t, m.id.culture) ∈ cfg.regs kind := by rw [← hkind, h1]; exact hr
      simp only [this, if_true, Option.some.injEq]
      cases hmid : m.id
      simp_all
  | none =>
    cases c with
    | none => exact ⟨h, Ext.refl _, by simp, by simp [tryRoute], by simp [tryRoute]⟩
    | some cs =>
      by_cases hreg : (t, cs) ∈ cfg.regs kind
      · simp only [hreg, if_true]
        rw [dictSet_eq_append hg]
        refine ⟨⟨?_, ?_, ?_⟩, ⟨?_, by simp⟩, ?_, by simp, ?_⟩
        · intro k m hm
          simp only [List.mem_append, List.mem_singleton, Prod.mk.injEq] at hm
          rcases hm with hm | ⟨hk, hm⟩
          · obtain ⟨a, b, c'⟩ := h.wf k m hm
            exact ⟨a, b, Nat.lt_succ_of_lt c'⟩
          · subst hm; subst hk
            exact ⟨rfl, hreg, Nat.lt_succ_self _⟩
        · simp only [List.map_append, List.map_cons, List.map_nil]
          rw [List.nodup_append]
          refine ⟨h.keys, by simp, ?_⟩
          intro a ha b hb
          simp only [List.mem_singleton] at hb
          subst hb
          simp only [List.mem_map] at ha
          obtain ⟨e, he, rfl⟩ := ha
          intro heq
          exact dictGet_none_not_mem hg e.2 (by rw [← heq]; exact he)
        · simp only [List.map_append, List.map_cons, List.map_nil]
          rw [List.nodup_append]
          refine ⟨h.serials, by simp, ?_⟩
          intro a ha b hb
          simp only [List.mem_singleton] at hb
          subst hb
          simp only [List.mem_map] at ha
          obtain ⟨e, he, rfl⟩ := ha
          have := (h.wf e.1 e.2 he).2.2
          omega
        · intro e he
          simp [he]
        · intro m hm
          simp only [Option.some.injEq] at hm
          subst hm
          exact ⟨by simp [keyOf], rfl, rfl, rfl, hreg⟩
        · intro _
          simp [tryRoute, hreg]
      · simp only [hreg, if_false]
        exact ⟨h, Ext.refl _, by simp, by simp [tryRoute, hreg], by simp [tryRoute, hreg]⟩

/-- Erasure of object identity from an output. -/
inductive OutE
  | model (m : ModelId)
  | none
  | err (e : Err)
  | unit
deriving DecidableEq, Repr

def Out.erase : Out → OutE
  | .model m => .model m.id
  | .none => .none
  | .err e => .err e
  | .unit => .unit

def exceptE : Except Err ModelId → OutE
  | .ok m => .model m
  | .error e => .err e

/-- Everything `ModelFactory.get_model` guarantees. -/
theorem factoryGet_spec (cfg : Cfg) (kind : Nat) (t : Str) (c : Option Str) (fb : Bool) (o : Int) (st : State)
    (h : Inv cfg st) :
    Inv cfg (factoryGet cfg kind t c fb o st).1 ∧ Ext st (factoryGet cfg kind t c fb o st).1 ∧
    (∀ m, (factoryGet cfg kind t c fb o st).2 = .ok m →
        (keyOf m.id, m) ∈ (factoryGet cfg kind t c fb o st).1.cache ∧ m.id.type = t ∧ m.id.options = o ∧
        (t, m.id.culture) ∈ cfg.regs m.id.kind ∧
        (c = some m.id.culture ∨ (fb = true ∧ m.id.culture = cfg.fallback ∧ tryRoute cfg kind t c o = none))) ∧
    (Owned cfg kind t →
        (outOfExcept (factoryGet cfg kind t c fb o st).2).erase = exceptE (route cfg kind t c fb o)) := by
  unfold factoryGet
  obtain ⟨i1, e1, s1, n1, r1⟩ := tryGet_spec cfg kind t c o st h
  cases h1 : (tryGet cfg kind t c o st) with
  | mk st₁ res₁ =>
    rw [h1] at i1 e1 s1 n1 r1
    simp only at i1 e1 s1 n1 r1
    cases res₁ with
    | some m =>
      simp only
      refine ⟨i1, e1, ?_, ?_⟩
      · intro m' hm'
        injection hm' with hm'
        subst hm'
        obtain ⟨a, b, c', d, e⟩ := s1 m rfl
        exact ⟨a, b, d, e, Or.inl c'⟩
      · intro hown
        have := r1 hown
        simp only [Option.map_some] at this
        have hr := route_eq cfg kind t c fb o
        rw [← this] at hr
        simp only [Option.some_or] at hr
        cases hrt : route cfg kind t c fb o with
        | ok x => rw [hrt] at hr; simp [Except.toOption] at hr; simp [outOfExcept, Out.erase, exceptE, hr]
        | error x => rw [hrt] at hr; simp [Except.toOption] at hr
    | none =>
      have hn := n1 rfl
      cases fb with
      | false =>
        simp only [Bool.false_eq_true, if_false]
        refine ⟨i1, e1, by simp, ?_⟩
        intro _
        have hr := route_eq cfg kind t c false o
        rw [hn] at hr
        cases hrt : route cfg kind t c false o with
        | ok x => rw [hrt] at hr; simp [Except.toOption] at hr
        | error x => cases x; simp [outOfExcept, Out.erase, exceptE]
      | true =>
        simp only [if_true]
        obtain ⟨i2, e2, s2, n2, r2⟩ := tryGet_spec cfg kind t (some cfg.fallback) o st₁ i1
        cases h2 : (tryGet cfg kind t (some cfg.fallback) o st₁) with
        | mk st₂ res₂ =>
          rw [h2] at i2 e2 s2 n2 r2
          simp only at i2 e2 s2 n2 r2
          have hr := route_eq cfg kind t c true o
          rw [hn] at hr
          simp only [if_true, Option.none_or] at hr
          cases res₂ with
          | some m =>
            simp only
            refine ⟨i2, Ext.trans e1 e2, ?_, ?_⟩
            · intro m' hm'
              injection hm' with hm'
              subst hm'
              obtain ⟨a, b, c', d, e⟩ := s2 m rfl
              refine ⟨a, b, d, e, Or.inr ⟨by simp, ?_, hn⟩⟩
              injection c' with c'
              exact c'.symm
            · intro hown
              have := r2 hown
              simp only [Option.map_some] at this
              rw [← this] at hr
              cases hrt : route cfg kind t c true o with
              | ok x => rw [hrt] at hr; simp [Except.toOption] at hr; simp [outOfExcept, Out.erase, exceptE, hr]
              | error x => rw [hrt] at hr; simp [Except.toOption] at hr
          | none =>
            simp only
            refine ⟨i2, Ext.trans e1 e2, by simp, ?_⟩
            intro hown
            have := r2 hown
            simp only [Option.map_none] at this
            rw [← this] at hr
            cases hrt : route cfg kind t c true o with
            | ok x => rw [hrt] at hr; simp [Except.toOption] at hr
            | error x => cases x; simp [outOfExcept, Out.erase, exceptE]

theorem initModels_spec (cfg : Cfg) (i : Inst) (identical : Bool) (st : State) (h : Inv cfg st) :
    Inv cfg (initModels cfg i identical st) ∧ Ext st (initModels cfg i identical st) := by
  unfold initModels
  generalize cfg.regs i.kind = l
  induction l generalizing st with
  | nil => exact ⟨h, Ext.refl _⟩
  | cons key rest ih =>
    simp only [List.foldl_cons]
    split
    · obtain ⟨i1, e1, _⟩ := tryGet_spec cfg i.kind key.1 (some key.2) i.options st h
      obtain ⟨i2, e2⟩ := ih _ i1
      exact ⟨i2, Ext.trans e1 e2⟩
    · exact ih st h

/-- What is guaranteed about the output of one operation in a state satisfying the invariant. -/
def OutOk (cfg : Cfg) (st' : State) (op : Op) (out : Out) : Prop :=
  (∀ m, out = .model m → (keyOf m.id, m) ∈ st'.cache) ∧
  (∀ k t c fb o, request cfg op = some (k, t, c, fb, o) →
    (∀ m, out = .model m →
      m.id.type = t ∧ m.id.options = o ∧ (t, m.id.culture) ∈ cfg.regs m.id.kind ∧
      (c = some m.id.culture ∨ (fb = true ∧ m.id.culture = cfg.fallback ∧ tryRoute cfg k t c o = none))) ∧
    (Owned cfg k t → out.erase = (match op with
        | .tryGet .. => (match tryRoute cfg k t c o with | some m => OutE.model m | none => OutE.none)
        | _ => exceptE (route cfg k t c fb o))))

theorem step_spec (cfg : Cfg) (st : State) (op : Op) (h : Inv cfg st) :
    Inv cfg (step cfg st op).1 ∧ Ext st (step cfg st op).1 ∧ OutOk cfg (step cfg st op).1 op (step cfg st op).2 := by
  cases op with
  | construct i lazy identical =>
    simp only [step]
    split
    · split
      · obtain ⟨a, b⟩ := initModels_spec cfg i identical st h
        exact ⟨a, b, by simp, by simp [request]⟩
      · exact ⟨h, Ext.refl _, by simp, by simp [request]⟩
    · exact ⟨h, Ext.refl _, by simp, by simp [request]⟩
  | init i identical =>
    obtain ⟨a, b⟩ := initModels_spec cfg i identical st h
    exact ⟨a, b, by simp [step], by simp [request]⟩
  | get i t c fb =>
    obtain ⟨a, b, s, r⟩ := factoryGet_spec cfg i.kind t (resolve cfg i c) fb i.options st h
    refine ⟨a, b, ?_, ?_⟩
    · intro m hm
      simp only [step, recGet] at hm ⊢
      cases hf : (factoryGet cfg i.kind t (resolve cfg i c) fb i.options st).2 with
      | ok x => rw [hf] at hm; simp only [outOfExcept, Out.model.injEq] at hm; subst hm; exact (s x hf).1
      | error x => rw [hf] at hm; simp [outOfExcept] at hm
    · intro k t' c' fb' o hreq
      simp only [request, Option.some.injEq, Prod.mk.injEq] at hreq
      obtain ⟨rfl, rfl, rfl, rfl, rfl⟩ := hreq
      refine ⟨?_, ?_⟩
      · intro m hm
        simp only [step, recGet] at hm
        cases hf : (factoryGet cfg i.kind t (resolve cfg i c) fb i.options st).2 with
        | ok x =>
          rw [hf] at hm; simp only [outOfExcept, Out.model.injEq] at hm; subst hm
          obtain ⟨_, p, q, r', s'⟩ := s x hf
          exact ⟨p, q, r', s'⟩
        | error x => rw [hf] at hm; simp [outOfExcept] at hm
      · intro hown
        simpa [step, recGet] using r hown
  | getW i t cjk c fb =>
    obtain ⟨a, b, s, r⟩ := factoryGet_spec cfg i.kind t (resolve cfg i (wrapCulture cfg cjk c)) fb i.options st h
    refine ⟨a, b, ?_, ?_⟩
    · intro m hm
      simp only [step, recGet] at hm ⊢
      cases hf : (factoryGet cfg i.kind t (resolve cfg i (wrapCulture cfg cjk c)) fb i.options st).2 with
      | ok x => rw [hf] at hm; simp only [outOfExcept, Out.model.injEq] at hm; subst hm; exact (s x hf).1
      | error x => rw [hf] at hm; simp [outOfExcept] at hm
    · intro k t' c' fb' o hreq
      simp only [request, Option.some.injEq, Prod.mk.injEq] at hreq
      obtain ⟨rfl, rfl, rfl, rfl, rfl⟩ := hreq
      refine ⟨?_, ?_⟩
      · intro m hm
        simp only [step, recGet] at hm
        cases hf : (factoryGet cfg i.kind t (resolve cfg i (wrapCulture cfg cjk c)) fb i.options st).2 with
        | ok x =>
          rw [hf] at hm; simp only [outOfExcept, Out.model.injEq] at hm; subst hm
          obtain ⟨_, p, q, r', s'⟩ := s x hf
          exact ⟨p, q, r', s'⟩
        | error x => rw [hf] at hm; simp [outOfExcept] at hm
      · intro hown
        simpa [step, recGet] using r hown
  | factoryGet kind t c fb o =>
    obtain ⟨a, b, s, r⟩ := factoryGet_spec cfg kind t c fb o st h
    refine ⟨a, b, ?_, ?_⟩
    · intro m hm
      simp only [step] at hm ⊢
      cases hf : (factoryGet cfg kind t c fb o st).2 with
      | ok x => rw [hf] at hm; simp only [outOfExcept, Out.model.injEq] at hm; subst hm; exact (s x hf).1
      | error x => rw [hf] at hm; simp [outOfExcept] at hm
    · intro k t' c' fb' o' hreq
      simp only [request, Option.some.injEq, Prod.mk.injEq] at hreq
      obtain ⟨rfl, rfl, rfl, rfl, rfl⟩ := hreq
      refine ⟨?_, ?_⟩
      · intro m hm
        simp only [step] at hm
        cases hf : (factoryGet cfg kind t c fb o st).2 with
        | ok x =>
          rw [hf] at hm; simp only [outOfExcept, Out.model.injEq] at hm; subst hm
          obtain ⟨_, p, q, r', s'⟩ := s x hf
          exact ⟨p, q, r', s'⟩
        | error x => rw [hf] at hm; simp [outOfExcept] at hm
      · intro hown
        simpa [step] using r hown
  | tryGet kind t c o =>
    obtain ⟨a, b, s, n, r⟩ := tryGet_spec cfg kind t c o st h
    simp only [step]
    cases hf : tryGet cfg kind t c o st with
    | mk st' res =>
      rw [hf] at a b s n r
      simp only at a b s n r
      cases res with
      | some m =>
        simp only
        refine ⟨a, b, ?_, ?_⟩
        · intro m' hm'
          injection hm' with hm'
          subst hm'
          exact (s m rfl).1
        · intro k t' c' fb' o' hreq
          simp only [request, Option.some.injEq, Prod.mk.injEq] at hreq
          obtain ⟨rfl, rfl, rfl, rfl, rfl⟩ := hreq
          refine ⟨?_, ?_⟩
          · intro m' hm'
            injection hm' with hm'
            subst hm'
            obtain ⟨_, p, q, r', s'⟩ := s m rfl
            exact ⟨p, r', s', Or.inl q⟩
          · intro hown
            have := r hown
            simp only [Option.map_some] at this
            simp [← this, Out.erase]
      | none =>
        simp only
        refine ⟨a, b, by simp, ?_⟩
        intro k t' c' fb' o' hreq
        simp only [request, Option.some.injEq, Prod.mk.injEq] at hreq
        obtain ⟨rfl, rfl, rfl, rfl, rfl⟩ := hreq
        refine ⟨by simp, ?_⟩
        intro hown
        have := r hown
        simp only [Option.map_none] at this
        simp [← this, Out.erase]

/-- Along any sequential history from a state satisfying the invariant: the invariant is kept, the cache only
grows, and every (operation, output) pair satisfies `OutOk` with respect to the *final* cache. -/
theorem run_spec (cfg : Cfg) (ops : List Op) (st : State) (h : Inv cfg st) :
    Inv cfg (run cfg st ops).1 ∧ Ext st (run cfg st ops).1 ∧
    ∀ p ∈ ops.zip (run cfg st ops).2, OutOk cfg (run cfg st ops).1 p.1 p.2 := by
  induction ops generalizing st with
  | nil => exact ⟨h, Ext.refl _, by simp [run]⟩
  | cons op rest ih =>
    obtain ⟨i1, e1, o1⟩ := step_spec cfg st op h
    obtain ⟨i2, e2, o2⟩ := ih (step cfg st op).1 i1
    simp only [run]
    refine ⟨i2, Ext.trans e1 e2, ?_⟩
    intro p hp
    simp only [List.zip_cons_cons, List.mem_cons] at hp
    rcases hp with rfl | hp
    · refine ⟨?_, o1.2⟩
      intro m hm
      exact e2.1 _ (o1.1 m hm)
    · exact o2 p hp

/-- What an operation is answered when it is the only one ever made (empty cache), object identity erased. -/
def coldAnswer (cfg : Cfg) (op : Op) : OutE := (step cfg State.init op).2.erase

/-- Every request of the operation asks for a model type that only the asking recogniser's kind registers. -/
def OwnType (cfg : Cfg) (op : Op) : Prop := ∀ k t c fb o, request cfg op = some (k, t, c, fb, o) → Owned cfg k t

theorem step_erase_of_no_request (cfg : Cfg) (st st' : State) (op : Op) (h : request cfg op = none) :
    (step cfg st op).2 = (step cfg st' op).2 := by
  cases op <;> simp [request] at h <;> simp [step] <;> split <;> rfl

/-- In any state satisfying the invariant an operation on own model types is answered as if it were alone. -/
theorem step_transparent (cfg : Cfg) (st : State) (h : Inv cfg st) (op : Op) (hown : OwnType cfg op) :
    (step cfg st op).2.erase = coldAnswer cfg op := by
  unfold coldAnswer
  cases hreq : request cfg op with
  | none => rw [step_erase_of_no_request cfg st State.init op hreq]
  | some q =>
    obtain ⟨k, t, c, fb, o⟩ := q
    have a := (step_spec cfg st op h).2.2.2 k t c fb o hreq
    have b := (step_spec cfg State.init op (inv_init cfg)).2.2.2 k t c fb o hreq
    rw [a.2 (hown k t c fb o hreq), b.2 (hown k t c fb o hreq)]

theorem run_length (cfg : Cfg) (ops : List Op) (st : State) : (run cfg st ops).2.length = ops.length := by
  induction ops generalizing st with
  | nil => rfl
  | cons op rest ih => simp [run, ih]

/-! ### culture mapping -/

theorem beforeDash_prefix (s : Str) : startsWith s (beforeDash s) = true := by
  unfold startsWith beforeDash
  simp only [decide_eq_true_eq]
  induction s with
  | nil => rfl
  | cons a r ih =>
    simp only [List.takeWhile_cons]
    split <;> simp [*]

theorem pickStar_cases (cur : Str) (l : List Str) :
    pickStar cur l = cur ∨ (pickStar cur l ∈ l ∧ hasStar (pickStar cur l) = true) := by
  induction l generalizing cur with
  | nil => left; rfl
  | cons a r ih =>
    simp only [pickStar]
    by_cases h : hasStar a = true
    · simp only [h, if_true]
      rcases ih a with h' | ⟨h1, h2⟩
      · right; rw [h']; exact ⟨by simp, h⟩
      · right; exact ⟨by simp [h1], h2⟩
    · simp only [h]
      rcases ih cur with h' | ⟨h1, h2⟩
      · left; simpa using h'
      · right; exact ⟨by simp at h1 ⊢; simp [h1], by simpa using h2⟩

theorem mapToNearest_some (r : Bool) (E : PyStr) (S : List Str) (c : Str) (hc : c ≠ []) :
    mapToNearest r E S (some c) =
      if E.lower c ∈ S then some (E.lower c)
      else some (choose (E.lower c) (candidates r S (langPrefix E (E.lower c)))) := by
  simp [mapToNearest, hc]

theorem specCulture_some (E : PyStr) (S : List Str) (c : Str) (hc : c ≠ []) :
    specCulture E S (some c) =
      if E.lower c ∈ S then some (E.lower c)
      else single? (S.filter (fun s => beforeDash s == langPrefix E (E.lower c))) := by
  simp [specCulture, hc]

theorem candidates_repaired (S : List Str) (p : Str) :
    candidates true S p = S.filter (fun s => beforeDash s == p) := by
  unfold candidates
  congr 1

theorem candidates_current (S : List Str) (p : Str) :
    candidates false S p = S.filter (fun s => startsWith s p) := by
  unfold candidates
  congr 1

/-- comparing language tags is stronger than `startswith` -/
theorem tag_filter_of_current (S : List Str) (p : Str) :
    S.filter (fun s => beforeDash s == p) = (candidates false S p).filter (fun s => beforeDash s == p) := by
  rw [candidates_current, List.filter_filter]
  congr 1
  funext s
  by_cases h : beforeDash s = p
  · have := beforeDash_prefix s
    rw [h] at this
    simp [h, this]
  · simp [h]

theorem route_registered (cfg : Cfg) (kind : Nat) (t cs : Str) (fb : Bool) (o : Int)
    (h : (t, cs) ∈ cfg.regs kind) : route cfg kind t (some cs) fb o = .ok ⟨kind, t, cs, o⟩ := by
  simp [route, h]

theorem route_unreg (cfg : Cfg) (kind : Nat) (t : Str) (c : Option Str) (fb : Bool) (o : Int)
    (h : ∀ cs, c = some cs → (t, cs) ∉ cfg.regs kind) :
    route cfg kind t c fb o = route cfg kind t none fb o := by
  cases c with
  | none => rfl
  | some cs => simp [route, h cs rfl]

/-- Registered cultures are supported cultures without a `*`. -/
def RegsSupported (cfg : Cfg) : Prop :=
  ∀ k p, p ∈ cfg.regs k → p.2 ∈ cfg.supported ∧ hasStar p.2 = false

/-- A supported culture that is the only one of its language is also the only one whose code starts with that
language tag. -/
def UniqueTagOk (S : List Str) : Prop :=
  ∀ x ∈ S, S.filter (fun s => beforeDash s == beforeDash x) = [x] →
    S.filter (fun s => startsWith s (beforeDash x)) = [x]

/-- The exact guard under which the code as it is agrees with the property: when exactly one supported code
starts with the prefix of the requested culture, that code's language tag *is* the prefix. -/
def PrefixIsTag (E : PyStr) (S : List Str) (c : Option Str) : Prop :=
  ∀ cs, c = some cs → cs ≠ [] → E.lower cs ∉ S →
    ∀ x, candidates false S (langPrefix E (E.lower cs)) = [x] → beforeDash x = langPrefix E (E.lower cs)

theorem unreg_of_not_supported_or_star (cfg : Cfg) (hT : RegsSupported cfg) (kind : Nat) (t y : Str)
    (hy : y ∉ cfg.supported ∨ hasStar y = true) : (t, y) ∉ cfg.regs kind := by
  intro hmem
  obtain ⟨a, b⟩ := hT kind (t, y) hmem
  rcases hy with hy | hy
  · exact hy a
  · simp only at b; rw [b] at hy; cases hy

/-- Routing through `map_to_nearest_language` gives the answer the property states — for the repaired
candidate test always, for the code as it is under the guard `PrefixIsTag`. -/
theorem route_map_eq_spec (cfg : Cfg) (hT : RegsSupported cfg)
    (hU : cfg.repaired = false → UniqueTagOk cfg.supported)
    (kind : Nat) (t : Str) (c : Option Str) (fb : Bool) (o : Int)
    (guard : cfg.repaired = false → PrefixIsTag cfg.py cfg.supported c) :
    route cfg kind t (mapToNearest cfg.repaired cfg.py cfg.supported c) fb o =
      route cfg kind t (specCulture cfg.py cfg.supported c) fb o := by
  cases c with
  | none => rfl
  | some cs =>
    by_cases hc : cs = []
    · subst hc; rfl
    · rw [mapToNearest_some _ _ _ _ hc, specCulture_some _ _ _ hc]
      by_cases hs : cfg.py.lower cs ∈ cfg.supported
      · simp only [hs, if_true]
      · simp only [hs, if_false]
        generalize hp : langPrefix cfg.py (cfg.py.lower cs) = p
        have unreg : ∀ y, (y ∉ cfg.supported ∨ hasStar y = true) →
            route cfg kind t (some y) fb o = route cfg kind t none fb o := by
          intro y hy
          apply route_unreg
          intro cs' hcs'
          injection hcs' with hcs'
          subst hcs'
          exact unreg_of_not_supported_or_star cfg hT kind t _ hy
        cases hr : cfg.repaired with
        | true =>
          rw [candidates_repaired]
          generalize hT' : cfg.supported.filter (fun s => beforeDash s == p) = T
          match T with
          | [] => exact unreg _ (Or.inl hs)
          | [x] => rfl
          | a :: b :: rest =>
            simp only [choose, single?]
            rcases pickStar_cases (cfg.py.lower cs) (a :: b :: rest) with h | ⟨_, h⟩
            · rw [h]; exact unreg _ (Or.inl hs)
            · exact unreg _ (Or.inr h)
        | false =>
          have hg := guard hr cs rfl hc hs
          rw [hp] at hg
          rw [tag_filter_of_current]
          generalize hC : candidates false cfg.supported p = C at hg
          match C with
          | [] => simp only [List.filter_nil, choose, single?]; exact unreg _ (Or.inl hs)
          | [x] =>
            have := hg x rfl
            simp [this, choose, single?]
          | a :: b :: rest =>
            simp only [choose]
            have hmap : route cfg kind t (some (pickStar (cfg.py.lower cs) (a :: b :: rest))) fb o =
                route cfg kind t none fb o := by
              rcases pickStar_cases (cfg.py.lower cs) (a :: b :: rest) with h | ⟨_, h⟩
              · rw [h]; exact unreg _ (Or.inl hs)
              · exact unreg _ (Or.inr h)
            rw [hmap]
            generalize hT' : (a :: b :: rest).filter (fun s => beforeDash s == p) = T
            match T with
            | [] => rfl
            | _ :: _ :: _ => rfl
            | [y] =>
              exfalso
              have hy : y ∈ (a :: b :: rest).filter (fun s => beforeDash s == p) := by rw [hT']; simp
              rw [List.mem_filter] at hy
              have hyS : y ∈ cfg.supported := by
                have : y ∈ candidates false cfg.supported p := by rw [hC]; exact hy.1
                rw [candidates_current, List.mem_filter] at this
                exact this.1
              have hyp : beforeDash y = p := by simpa using hy.2
              have h1 : cfg.supported.filter (fun s => beforeDash s == beforeDash y) = [y] := by
                rw [hyp, tag_filter_of_current, hC, hT']
              have h2 := hU hr y hyS h1
              rw [hyp, ← candidates_current, hC] at h2
              simp at h2

end RTV.Factory
