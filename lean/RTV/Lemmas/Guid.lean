import RTV.Lemmas.Re
import RTV.Gen.Regexes
/-!
Language lemmas for the regenerated `BaseGUID.GUIDRegex` (compiled with IGNORECASE: `[a-f0-9]` admits `A-F`).
`guidRE` is the shape the proofs are written against; `gen_guid` ties it to the translator's output of this run.
-/
namespace RTV.Re

/-! ### repeats of a single class -/

/-- `n` consecutive characters from `i` all satisfy `P` -/
def RunAt (P : Nat → Prop) (s : Array Nat) (i n : Nat) : Prop := ∀ p, p < n → P (code s (i + p))

theorem RunAt_zero {P : Nat → Prop} {s : Array Nat} {i : Nat} : RunAt P s i 0 := by intro p hp; omega

theorem RunAt_succ {P : Nat → Prop} {s : Array Nat} {i n : Nat} :
    RunAt P s i (n + 1) ↔ P (code s i) ∧ RunAt P s (i + 1) n := by
  constructor
  · intro h
    refine ⟨by simpa using h 0 (by omega), ?_⟩
    intro p hp
    have := h (p + 1) (by omega)
    rwa [show i + (p + 1) = i + 1 + p by omega] at this
  · rintro ⟨h0, h⟩ p hp
    cases p with
    | zero => simpa using h0
    | succ q =>
      have := h q (by omega)
      rwa [show i + 1 + q = i + (q + 1) by omega] at this

/-- `[cls]{mn,mx}` followed by `c`: some `n` in range, `n` class members, then `c`.  `hpos`: the class has no
member `0`, so no separate in-bounds condition is needed. -/
theorem seq_rep_cls {T : Tables} {s : Array Nat} {items : List Item} {c : RE} {g : Bool} {j : Nat}
    (hpos : ∀ x, clsTest T items false x = true → 0 < x) (mx : Nat) :
    ∀ mn i, j ∈ ends T s (.seq (.rep (.seq (.cls items false) .eps) mn mx g) c) i ↔
      ∃ n, mn ≤ n ∧ n ≤ mx ∧ RunAt (fun x => clsTest T items false x = true) s i n ∧ j ∈ ends T s c (i + n) := by
  induction mx with
  | zero =>
    intro mn i
    rw [seq_rep_zero]
    constructor
    · rintro ⟨rfl, h⟩; exact ⟨0, by omega, by omega, RunAt_zero, by simpa using h⟩
    · rintro ⟨n, h1, h2, _, h4⟩
      have : n = 0 := by omega
      subst this
      exact ⟨by omega, by simpa using h4⟩
  | succ mx ih =>
    intro mn i
    rw [seq_rep_succ, seq_seq, seq_cls, seq_eps, ih]
    constructor
    · rintro (⟨_, ht, n, h1, h2, h3, h4⟩ | ⟨rfl, h⟩)
      · refine ⟨n + 1, by omega, by omega, RunAt_succ.2 ⟨ht, h3⟩, ?_⟩
        rwa [show i + (n + 1) = i + 1 + n by omega]
      · exact ⟨0, by omega, by omega, RunAt_zero, by simpa using h⟩
    · rintro ⟨n, h1, h2, h3, h4⟩
      cases n with
      | zero => exact .inr ⟨by omega, by simpa using h4⟩
      | succ n =>
        have h3' := RunAt_succ.1 h3
        refine .inl ⟨code_lt_size (hpos _ h3'.1), h3'.1, n, by omega, by omega, h3'.2, ?_⟩
        rwa [show i + 1 + n = i + (n + 1) by omega]

/-- `[cls]{n}` followed by `c` -/
theorem seq_rep_exact {T : Tables} {s : Array Nat} {items : List Item} {c : RE} {g : Bool} {i j : Nat}
    (hpos : ∀ x, clsTest T items false x = true → 0 < x) (n : Nat) :
    j ∈ ends T s (.seq (.rep (.seq (.cls items false) .eps) n n g) c) i ↔
      RunAt (fun x => clsTest T items false x = true) s i n ∧ j ∈ ends T s c (i + n) := by
  rw [seq_rep_cls hpos]
  constructor
  · rintro ⟨m, h1, h2, h3, h4⟩
    have : m = n := by omega
    subst this; exact ⟨h3, h4⟩
  · rintro ⟨h3, h4⟩; exact ⟨n, by omega, by omega, h3, h4⟩

/-! ### GUID -/

/-- `[a-f0-9]` under IGNORECASE -/
def hexI : RE := .cls [.range 65 70, .range 97 102, .range 48 57] false

def isHexI (c : Nat) : Prop := (65 ≤ c ∧ c ≤ 70) ∨ (97 ≤ c ∧ c ≤ 102) ∨ (48 ≤ c ∧ c ≤ 57)

theorem clsTest_hexI {T : Tables} {c : Nat} :
    clsTest T [.range 65 70, .range 97 102, .range 48 57] false c = true ↔ isHexI c := by
  simp [clsTest, Item.test, isHexI]

theorem hexI_pos {T : Tables} : ∀ x, clsTest T [.range 65 70, .range 97 102, .range 48 57] false x = true → 0 < x := by
  intro x h; have := clsTest_hexI.1 h; unfold isHexI at this; omega

def dash : RE := .cls [.range 45 45] false

/-- `(([a-f0-9]{8}(-[a-f0-9]{4}){3}-[a-f0-9]{12})|([a-f0-9]{32}))` with the group numbers `g …` of one copy -/
def guidElem (g : Nat) : RE :=
  .grp g (.seq (.alt
    (.seq (.grp (g + 1) (.seq (.rep (.seq hexI .eps) 8 8 true)
      (.seq (.rep (.seq (.grp (g + 2) (.seq dash (.seq (.rep (.seq hexI .eps) 4 4 true) .eps))) .eps) 3 3 true)
      (.seq dash (.seq (.rep (.seq hexI .eps) 12 12 true) .eps))))) .eps)
    (.seq (.grp (g + 3) (.seq (.rep (.seq hexI .eps) 32 32 true) .eps)) .eps)) .eps)

def lit2 (a b : Nat) : RE := .cls [.range a a, .range b b] false
def lit1 (a : Nat) : RE := .cls [.range a a] false

def guidRE : RE :=
  .seq (.grp 1 (.seq (.alt (.seq .wordB (.seq (guidElem 2) (.seq .wordB .eps)))
    (.alt (.seq (lit1 123) (.seq (guidElem 6) (.seq (lit1 125) .eps)))
    (.alt (.seq (lit2 85 117) (.seq (lit2 82 114) (.seq (lit2 78 110) (.seq (lit1 58) (.seq (lit2 85 117)
        (.seq (lit2 85 117) (.seq (.cls [.range 73 73, .range 105 105, .range 304 304] false) (.seq (lit2 68 100)
        (.seq (lit1 58) (.seq (guidElem 10) (.seq .wordB .eps)))))))))))
    (.alt (.seq (lit1 37) (.seq (lit1 55) (.seq (lit2 66 98) (.seq (guidElem 14) (.seq (lit1 37) (.seq (lit1 55)
        (.seq (lit2 68 100) .eps)))))))
      (.seq (lit2 88 120) (.seq (lit1 39) (.seq (guidElem 18) (.seq (lit1 39) .eps)))))))) .eps)) .eps

/-- the tie to the working tree -/
theorem gen_guid : RTV.Gen.guidRegex = guidRE := by decide

/-- `s[i:j]` is a GUID core: `8-4-4-4-12` hex digits with dashes, or 32 hex digits (either letter case) -/
def GuidCoreAt (s : Array Nat) (i j : Nat) : Prop :=
  (j = i + 36 ∧ RunAt isHexI s i 8 ∧ code s (i + 8) = 45 ∧ RunAt isHexI s (i + 9) 4 ∧ code s (i + 13) = 45 ∧
    RunAt isHexI s (i + 14) 4 ∧ code s (i + 18) = 45 ∧ RunAt isHexI s (i + 19) 4 ∧ code s (i + 23) = 45 ∧
    RunAt isHexI s (i + 24) 12) ∨
  (j = i + 32 ∧ RunAt isHexI s i 32)

theorem seq_guidElem {T : Tables} {s : Array Nat} {g i j : Nat} {c : RE} :
    j ∈ ends T s (.seq (guidElem g) c) i ↔ ∃ k, GuidCoreAt s i k ∧ j ∈ ends T s c k := by
  unfold guidElem GuidCoreAt hexI dash
  simp only [seq_grp, seq_seq, seq_eps, seq_alt, seq_rep_exact hexI_pos, seq_rep_succ, seq_rep_zero,
    seq_range (by decide : 0 < 45), Nat.reduceSub, false_and, or_false, Nat.succ_ne_zero, clsTest_hexI,
    Nat.add_assoc, Nat.reduceAdd]
  have e : ∀ x, (45 ≤ x ∧ x ≤ 45) ↔ x = 45 := by intro x; omega
  constructor
  · rintro (⟨h1, a1, a2, h2, b1, b2, h3, c1, c2, h4, -, d1, d2, h5, h6⟩ | ⟨h1, h2⟩)
    · exact ⟨i + 36, .inl ⟨rfl, h1, by omega, h2, by omega, h3, by omega, h4, by omega, h5⟩, h6⟩
    · exact ⟨i + 32, .inr ⟨rfl, h1⟩, h2⟩
  · rintro ⟨k, (⟨rfl, h1, a, h2, b, h3, c', h4, d, h5⟩ | ⟨rfl, h1⟩), h6⟩
    · exact .inl ⟨h1, by omega, by omega, h2, by omega, by omega, h3, by omega, by omega, h4, trivial,
        by omega, by omega, h5, h6⟩
    · exact .inr ⟨h1, h6⟩

end RTV.Re

namespace RTV.Re

theorem seq_lit1 {T : Tables} {s : Array Nat} {i j a : Nat} {c : RE} (ha : 0 < a) :
    j ∈ ends T s (.seq (lit1 a) c) i ↔ code s i = a ∧ j ∈ ends T s c (i + 1) := by
  unfold lit1
  rw [seq_range ha]
  constructor
  · rintro ⟨h1, h2, h3⟩; exact ⟨by omega, h3⟩
  · rintro ⟨h1, h3⟩; exact ⟨by omega, by omega, h3⟩

theorem seq_lit2 {T : Tables} {s : Array Nat} {i j a b : Nat} {c : RE} (ha : 0 < a) (hb : 0 < b) :
    j ∈ ends T s (.seq (lit2 a b) c) i ↔ (code s i = a ∨ code s i = b) ∧ j ∈ ends T s c (i + 1) := by
  unfold lit2
  rw [seq_cls]
  simp only [clsTest_cons, clsTest_nil, Item.test, or_false, Bool.and_eq_true, decide_eq_true_eq]
  constructor
  · rintro ⟨_, h, h3⟩; exact ⟨by omega, h3⟩
  · rintro ⟨h, h3⟩; exact ⟨code_lt_size (by omega), by omega, h3⟩

theorem seq_lit3 {T : Tables} {s : Array Nat} {i j a b d : Nat} {c : RE} (ha : 0 < a) (hb : 0 < b) (hd : 0 < d) :
    j ∈ ends T s (.seq (.cls [.range a a, .range b b, .range d d] false) c) i ↔
      (code s i = a ∨ code s i = b ∨ code s i = d) ∧ j ∈ ends T s c (i + 1) := by
  rw [seq_cls]
  simp only [clsTest_cons, clsTest_nil, Item.test, or_false, Bool.and_eq_true, decide_eq_true_eq]
  constructor
  · rintro ⟨_, h, h3⟩; exact ⟨by omega, h3⟩
  · rintro ⟨h, h3⟩; exact ⟨code_lt_size (by omega), by omega, h3⟩

/-- what `GUIDRegex` accepts from `i` to `j` (positional): a core between word boundaries; `{core}`;
`urn:uuid:core` + word boundary (letters in either case, `i` also as U+0130 — `regex`'s IGNORECASE); `%7bcore%7d`;
`x'core'`. -/
def GuidAt (T : Tables) (s : Array Nat) (i j : Nat) : Prop :=
  (isWordB T s i = true ∧ GuidCoreAt s i j ∧ isWordB T s j = true) ∨
  (code s i = 123 ∧ ∃ k, GuidCoreAt s (i + 1) k ∧ code s k = 125 ∧ j = k + 1) ∨
  ((code s i = 85 ∨ code s i = 117) ∧ (code s (i + 1) = 82 ∨ code s (i + 1) = 114) ∧
    (code s (i + 2) = 78 ∨ code s (i + 2) = 110) ∧ code s (i + 3) = 58 ∧
    (code s (i + 4) = 85 ∨ code s (i + 4) = 117) ∧ (code s (i + 5) = 85 ∨ code s (i + 5) = 117) ∧
    (code s (i + 6) = 73 ∨ code s (i + 6) = 105 ∨ code s (i + 6) = 304) ∧
    (code s (i + 7) = 68 ∨ code s (i + 7) = 100) ∧ code s (i + 8) = 58 ∧
    GuidCoreAt s (i + 9) j ∧ isWordB T s j = true) ∨
  (code s i = 37 ∧ code s (i + 1) = 55 ∧ (code s (i + 2) = 66 ∨ code s (i + 2) = 98) ∧
    ∃ k, GuidCoreAt s (i + 3) k ∧ code s k = 37 ∧ code s (k + 1) = 55 ∧
      (code s (k + 2) = 68 ∨ code s (k + 2) = 100) ∧ j = k + 3) ∨
  ((code s i = 88 ∨ code s i = 120) ∧ code s (i + 1) = 39 ∧
    ∃ k, GuidCoreAt s (i + 2) k ∧ code s k = 39 ∧ j = k + 1)

theorem guidRE_lang {T : Tables} (s : Array Nat) (i j : Nat) :
    j ∈ ends T s guidRE i ↔ GuidAt T s i j := by
  unfold guidRE GuidAt
  simp only [seq_grp, seq_seq, seq_eps, seq_alt, seq_wordB, seq_guidElem, mem_eps,
     seq_lit1, seq_lit2, seq_lit3, Nat.add_assoc, Nat.reduceAdd, Nat.zero_lt_succ]
  constructor
  · rintro (⟨h1, k, h2, h3, rfl⟩ | ⟨h1, k, h2, h3, rfl⟩ | ⟨a0, a1, a2, a3, a4, a5, a6, a7, a8, k, h2, h3, rfl⟩ |
      ⟨a0, a1, a2, k, h2, b0, b1, b2, rfl⟩ | ⟨a0, a1, k, h2, h3, rfl⟩)
    · exact .inl ⟨h1, h2, h3⟩
    · exact .inr (.inl ⟨h1, k, h2, h3, rfl⟩)
    · exact .inr (.inr (.inl ⟨a0, a1, a2, a3, a4, a5, a6, a7, a8, h2, h3⟩))
    · exact .inr (.inr (.inr (.inl ⟨a0, a1, a2, k, h2, b0, b1, b2, rfl⟩)))
    · exact .inr (.inr (.inr (.inr ⟨a0, a1, k, h2, h3, rfl⟩)))
  · rintro (⟨h1, h2, h3⟩ | ⟨h1, k, h2, h3, rfl⟩ | ⟨a0, a1, a2, a3, a4, a5, a6, a7, a8, h2, h3⟩ |
      ⟨a0, a1, a2, k, h2, b0, b1, b2, rfl⟩ | ⟨a0, a1, k, h2, h3, rfl⟩)
    · exact .inl ⟨h1, j, h2, h3, rfl⟩
    · exact .inr (.inl ⟨h1, k, h2, h3, rfl⟩)
    · exact .inr (.inr (.inl ⟨a0, a1, a2, a3, a4, a5, a6, a7, a8, j, h2, h3, rfl⟩))
    · exact .inr (.inr (.inr (.inl ⟨a0, a1, a2, k, h2, b0, b1, b2, rfl⟩)))
    · exact .inr (.inr (.inr (.inr ⟨a0, a1, k, h2, h3, rfl⟩)))

/-! ### uniqueness -/

theorem RunAt_mono {P : Nat → Prop} {s : Array Nat} {i n m : Nat} (h : RunAt P s i n) (hm : m ≤ n) : RunAt P s i m :=
  fun p hp => h p (by omega)

theorem not_hexI_dash : ¬ isHexI 45 := by unfold isHexI; omega

/-- a core starting at `i` has a determined end -/
theorem GuidCoreAt_det {s : Array Nat} {i j j' : Nat} (h : GuidCoreAt s i j) (h' : GuidCoreAt s i j') : j = j' := by
  unfold GuidCoreAt at h h'
  rcases h with ⟨rfl, _, d8, _⟩ | ⟨rfl, r⟩ <;> rcases h' with ⟨rfl, _, d8', _⟩ | ⟨rfl, r'⟩
  · rfl
  · exact absurd (d8 ▸ r' 8 (by omega)) not_hexI_dash
  · exact absurd (d8' ▸ r 8 (by omega)) not_hexI_dash
  · rfl

theorem GuidCoreAt_first_hex {s : Array Nat} {i j : Nat} (h : GuidCoreAt s i j) : isHexI (code s i) := by
  rcases h with ⟨_, r, _⟩ | ⟨_, r⟩
  · simpa using r 0 (by omega)
  · simpa using r 0 (by omega)

end RTV.Re
