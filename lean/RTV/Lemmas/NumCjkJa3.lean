import RTV.Lemmas.NumCjk
/-! kernel evaluation of the typed `get_int_value` walk (int / binary64), numerals 3000..3999 -/
namespace RTV.NumCjk
theorem ja_l30 : jaLoopChunk 30 = true := by decide +kernel
theorem ja_l31 : jaLoopChunk 31 = true := by decide +kernel
theorem ja_l32 : jaLoopChunk 32 = true := by decide +kernel
theorem ja_l33 : jaLoopChunk 33 = true := by decide +kernel
theorem ja_l34 : jaLoopChunk 34 = true := by decide +kernel
theorem ja_l35 : jaLoopChunk 35 = true := by decide +kernel
theorem ja_l36 : jaLoopChunk 36 = true := by decide +kernel
theorem ja_l37 : jaLoopChunk 37 = true := by decide +kernel
theorem ja_l38 : jaLoopChunk 38 = true := by decide +kernel
theorem ja_l39 : jaLoopChunk 39 = true := by decide +kernel
end RTV.NumCjk
