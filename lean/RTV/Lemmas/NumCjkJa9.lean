import RTV.Lemmas.NumCjk
/-! kernel evaluation of the typed `get_int_value` walk (int / binary64), numerals 9000..9999 -/
namespace RTV.NumCjk
theorem ja_l90 : jaLoopChunk 90 = true := by decide +kernel
theorem ja_l91 : jaLoopChunk 91 = true := by decide +kernel
theorem ja_l92 : jaLoopChunk 92 = true := by decide +kernel
theorem ja_l93 : jaLoopChunk 93 = true := by decide +kernel
theorem ja_l94 : jaLoopChunk 94 = true := by decide +kernel
theorem ja_l95 : jaLoopChunk 95 = true := by decide +kernel
theorem ja_l96 : jaLoopChunk 96 = true := by decide +kernel
theorem ja_l97 : jaLoopChunk 97 = true := by decide +kernel
theorem ja_l98 : jaLoopChunk 98 = true := by decide +kernel
theorem ja_l99 : jaLoopChunk 99 = true := by decide +kernel
end RTV.NumCjk
