import RTV.Lemmas.SpellOrdDe
import RTV.Lemmas.SpellDeK
import RTV.Lemmas.SpellBig
/-! German ordinals from 1000 to 10^6 (`spellOrdDe`): the multiplier of `tausend` by the facts of the cardinals
(`de_kfacts`, `Lemmas/SpellDeK`), the remainder 1..999 as written inside the compound by kernel evaluation of its side
facts on the regenerated maps (`deTailFact`, chunks of 100), the step from 1000 to 10^6 by the structural
`thousand_group`. -/
namespace RTV.Num
open RTV.Py

/-- the remainder `u` (1..999) after `tausend`: not empty, its scan ends at most at 1000, flat if it holds no end word,
its value -/
def deTailFact (u : Nat) : Bool :=
  let R := (deOrdTail u).2
  !R.isEmpty && decide ((scanR de.lang.round R 1).2 ≤ 1000) &&
    ((scanR de.lang.round R 1).2 != 1 || R.all fun t => (lookup de.lang.round t).isNone) &&
    okRes (getIntValue true asciiDigits de.lang R) u

def deTailChunk (j : Nat) : Bool := (List.range 100).all fun i => 100 * j + i == 0 || deTailFact (100 * j + i)

theorem de_q0 : deTailChunk 0 = true := by decide +kernel
theorem de_q1 : deTailChunk 1 = true := by decide +kernel
theorem de_q2 : deTailChunk 2 = true := by decide +kernel
theorem de_q3 : deTailChunk 3 = true := by decide +kernel
theorem de_q4 : deTailChunk 4 = true := by decide +kernel
theorem de_q5 : deTailChunk 5 = true := by decide +kernel
theorem de_q6 : deTailChunk 6 = true := by decide +kernel
theorem de_q7 : deTailChunk 7 = true := by decide +kernel
theorem de_q8 : deTailChunk 8 = true := by decide +kernel
theorem de_q9 : deTailChunk 9 = true := by decide +kernel

theorem de_qchunks (j : Nat) (hj : j < 10) : deTailChunk j = true := by
  match j, hj with
  | 0, _ => exact de_q0
  | 1, _ => exact de_q1
  | 2, _ => exact de_q2
  | 3, _ => exact de_q3
  | 4, _ => exact de_q4
  | 5, _ => exact de_q5
  | 6, _ => exact de_q6
  | 7, _ => exact de_q7
  | 8, _ => exact de_q8
  | 9, _ => exact de_q9
  | j + 10, h => omega

theorem de_tailfacts (u : Nat) (h1 : 1 ≤ u) (h2 : u < 1000) : deTailFact u = true := by
  have hc := de_qchunks (u / 100) (by omega)
  simp only [deTailChunk, List.all_eq_true, List.mem_range] at hc
  have := hc (u % 100) (Nat.mod_lt _ (by decide))
  have e : 100 * (u / 100) + u % 100 = u := Nat.div_add_mod u 100
  rw [e] at this
  have hz : (u == 0) = false := by simp; omega
  simpa [hz] using this

/-- every German ordinal from 1000 to 10^6 -/
theorem de_ord_big (n : Nat) (h1 : 1000 ≤ n) (h2 : n < 1000000) :
    getIntValue true asciiDigits de.lang (spellOrdDe n).2 = .ok n := by
  have hs : ¬ n < 1000 := by omega
  have hk1 : 1 ≤ n / 1000 := by omega
  have hk2 : n / 1000 < 1000 := by omega
  have hu2 : n % 1000 < 1000 := Nat.mod_lt _ (by decide)
  have hn : 1000 * (n / 1000) + n % 1000 = n := Nat.div_add_mod n 1000
  have hom : deBig.omitOne = false := rfl
  have hmp : (multPart deBig (n / 1000)).2 = (spellMult deBig (n / 1000)).2 := by simp [multPart, hom]
  have htok : (spellOrdDe n).2 = (spellMult deBig (n / 1000)).2 ++ deBig.thousand ::
      (if n % 1000 == 0 then ([] : List Str) else (deOrdTail (n % 1000)).2) := by
    simp only [spellOrdDe, hs, if_false, hmp]
    split <;> simp
  rw [htok]
  obtain ⟨mne, min, mval⟩ := multPart_facts deBig de.lang (fun n h => de_all n h rfl) (n / 1000) hk2
    (de_kfacts _ hk1 hk2).1
  have key := thousand_group asciiDigits de.lang (spellMult deBig (n / 1000)).2 deBig.thousand
    (if n % 1000 == 0 then ([] : List Str) else (deOrdTail (n % 1000)).2) (n / 1000) (n % 1000)
    ((spellMult deBig (n / 1000)).2.length + 3)
    ((if n % 1000 == 0 then ([] : List Str) else (deOrdTail (n % 1000)).2).length + 3) de_thousand_word
    (Or.inr ⟨mne, min, mval, Nat.le_refl _⟩) ?_
  · rw [hn] at key; exact key
  · by_cases hu0 : n % 1000 = 0
    · left; simp [hu0]
    · right
      have hb : (n % 1000 == 0) = false := by simp [hu0]
      simp only [hb, Bool.false_eq_true, if_false]
      have hf := de_tailfacts (n % 1000) (by omega) hu2
      simp only [deTailFact, Bool.and_eq_true, Bool.not_eq_true', decide_eq_true_eq, Bool.or_eq_true, bne_iff_ne,
        ne_eq, List.all_eq_true, Option.isNone_iff_eq_none, okRes] at hf
      obtain ⟨⟨⟨hne, hscan⟩, hflat⟩, hval⟩ := hf
      refine ⟨?_, hval, Nat.le_refl _, hscan, ?_⟩
      · intro e; rw [e] at hne; simp at hne
      · intro h1'
        rcases hflat with hx | hx
        · exact absurd h1' hx
        · exact hx

end RTV.Num
