import RTV.Lemmas.NumCjk
/-! kernel evaluation of the typed `get_int_value` walk (int / binary64), numerals 9000..9999 -/
namespace RTV.NumCjk
theorem zh_l90 : zhLoopChunk 90 = true := by decide +kernel
theorem zh_l91 : zhLoopChunk 91 = true := by decide +kernel
theorem zh_l92 : zhLoopChunk 92 = true := by decide +kernel
theorem zh_l93 : zhLoopChunk 93 = true := by decide +kernel
theorem zh_l94 : zhLoopChunk 94 = true := by decide +kernel
theorem zh_l95 : zhLoopChunk 95 = true := by decide +kernel
theorem zh_l96 : zhLoopChunk 96 = true := by decide +kernel
theorem zh_l97 : zhLoopChunk 97 = true := by decide +kernel
theorem zh_l98 : zhLoopChunk 98 = true := by decide +kernel
theorem zh_l99 : zhLoopChunk 99 = true := by decide +kernel
end RTV.NumCjk
