import RTV.Lemmas.Choice
/-! Kernel evaluation of the polarity family (every affirmative alternative × letter case × context) on the regenerated data. -/
namespace RTV.Choice
set_option maxRecDepth 100000
theorem polarity_true_fast : polarityOK fastEnv true = true := by decide +kernel
end RTV.Choice
