import RTV.Lemmas.CjkJaBase
/-! kernel evaluation, chunks 50..74 (numerals 5000..7499) -/
namespace RTV.Num
theorem ja_c50 : jaChunk 50 = true := by decide +kernel
theorem ja_c51 : jaChunk 51 = true := by decide +kernel
theorem ja_c52 : jaChunk 52 = true := by decide +kernel
theorem ja_c53 : jaChunk 53 = true := by decide +kernel
theorem ja_c54 : jaChunk 54 = true := by decide +kernel
theorem ja_c55 : jaChunk 55 = true := by decide +kernel
theorem ja_c56 : jaChunk 56 = true := by decide +kernel
theorem ja_c57 : jaChunk 57 = true := by decide +kernel
theorem ja_c58 : jaChunk 58 = true := by decide +kernel
theorem ja_c59 : jaChunk 59 = true := by decide +kernel
theorem ja_c60 : jaChunk 60 = true := by decide +kernel
theorem ja_c61 : jaChunk 61 = true := by decide +kernel
theorem ja_c62 : jaChunk 62 = true := by decide +kernel
theorem ja_c63 : jaChunk 63 = true := by decide +kernel
theorem ja_c64 : jaChunk 64 = true := by decide +kernel
theorem ja_c65 : jaChunk 65 = true := by decide +kernel
theorem ja_c66 : jaChunk 66 = true := by decide +kernel
theorem ja_c67 : jaChunk 67 = true := by decide +kernel
theorem ja_c68 : jaChunk 68 = true := by decide +kernel
theorem ja_c69 : jaChunk 69 = true := by decide +kernel
theorem ja_c70 : jaChunk 70 = true := by decide +kernel
theorem ja_c71 : jaChunk 71 = true := by decide +kernel
theorem ja_c72 : jaChunk 72 = true := by decide +kernel
theorem ja_c73 : jaChunk 73 = true := by decide +kernel
theorem ja_c74 : jaChunk 74 = true := by decide +kernel
end RTV.Num
