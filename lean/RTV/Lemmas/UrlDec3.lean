import RTV.Lemmas.Url
/-! Kernel evaluation of the URL grammar family, chunk 3. -/
namespace RTV.Seq
set_option maxRecDepth 100000
theorem url_family3_fast : urlOK fastSeqEnv RTV.Gen.urlFamily3 = true := by decide +kernel
end RTV.Seq
