import RTV.Lemmas.IntValue
/-! The thousand group, structurally and for any language configuration (variant in the tree, `fx = true`):
`multiplier ++ [thousand-word] ++ rest` evaluates to `1000 · k + u` once the multiplier (worth `k`, no end word of
1000 or more) and the rest (worth `u`, scan ending at most at 1000) are known — by `good_step`, no enumeration. -/
namespace RTV.Num
open RTV.Py

theorem getIntValueF_unfold (tab : DigitTab) (c : LangCfg) (f : Nat) (t : Str) (ts : List Str) :
    getIntValueF true tab c (f + 1) (t :: ts) =
      if (scanR c.round (t :: ts) 1).2 == 1 then Res.ofExcept (stackEval tab c (t :: ts))
      else segGo true (getIntValueF true tab c f) c.round ((t :: ts).zip (scanR c.round (t :: ts) 1).1) [] := by
  rw [getIntValueF]
  simp only [endFlags, if_true]

/-- a list whose value is known is a good rest -/
theorem good_of_value (tab : DigitTab) (c : LangCfg) (R : List Str) (n f0 f : Nat) (hR : R ≠ []) (hf : f0 ≤ f)
    (hv : getIntValueF true tab c f0 R = .ok n)
    (hflat : (scanR c.round R 1).2 = 1 → ∀ t ∈ R, lookup c.round t = none) :
    Good true (getIntValueF true tab c f) c.round R n (scanR c.round R 1).2 := by
  refine ⟨rfl, ?_⟩
  by_cases h1 : (scanR c.round R 1).2 = 1
  · have hnone := hflat h1
    have hs := scanR_inert c.round 1 R (fun t ht => Or.inl (hnone t ht))
    rw [hs]
    have := segGo_inert true (getIntValueF true tab c f) c.round R [] []
    simp only [List.append_nil] at this
    rw [this]
    have hne' : R.reverse.isEmpty = false := by
      cases R with
      | nil => exact absurd rfl hR
      | cons a as => simp
    simp only [segGo, hne', Bool.false_eq_true, if_false, List.reverse_reverse]
    exact getIntValueF_mono true tab c f0 f R n hv hf
  · have hv' := getIntValueF_mono true tab c f0 (f + 1) R n hv (by omega)
    cases R with
    | nil => exact absurd rfl hR
    | cons t ts =>
      rw [getIntValueF_unfold] at hv'
      have : ((scanR c.round (t :: ts) 1).2 == 1) = false := by simp [h1]
      simpa [this] using hv'

/-- the thousand word first (`mil …`, `duizend …`): it counts once -/
theorem good_step_empty (rec : List Str → Res) (round : List (Str × Nat)) (w : Str) (R : Nat) (rest : List Str)
    (n e : Nat) (hg : Good true rec round rest n e) (he : e ≤ R) (hw : lookup round w = some R) :
    Good true rec round (w :: rest) (R * 1 + n) R := by
  obtain ⟨h1, h2⟩ := hg
  have hs : scanR round (w :: rest) 1 = (true :: (scanR round rest 1).1, R) := by
    simp only [scanR, hw, h1]
    have : ¬ e > R := by omega
    simp [this]
  constructor
  · rw [hs]
  · rw [hs]
    simp only [List.zip_cons_cons, segGo, hw, Option.getD_some, List.isEmpty_nil, Bool.and_self, if_true, h2,
      Res.scale, Res.add]

theorem good_nil' (rec : List Str → Res) (round : List (Str × Nat)) : Good true rec round [] 0 1 := by
  simp [Good, scanR, segGo]

/-- **The thousand group.** -/
theorem thousand_group (tab : DigitTab) (c : LangCfg) (A : List Str) (w : Str) (rest : List Str) (k u fA fR : Nat)
    (hw : lookup c.round w = some 1000)
    (hA : (A = [] ∧ k = 1) ∨ (A ≠ [] ∧ Inert c.round 1000 A ∧ getIntValueF true tab c fA A = .ok k ∧ fA ≤ A.length + 3))
    (hrest : (rest = [] ∧ u = 0) ∨ (rest ≠ [] ∧ getIntValueF true tab c fR rest = .ok u ∧ fR ≤ rest.length + 3 ∧
      (scanR c.round rest 1).2 ≤ 1000 ∧ ((scanR c.round rest 1).2 = 1 → ∀ t ∈ rest, lookup c.round t = none))) :
    getIntValue true tab c (A ++ w :: rest) = .ok (1000 * k + u) := by
  unfold getIntValue
  have hlen : (A ++ w :: rest).length = A.length + rest.length + 1 := by simp; omega
  generalize hF : (A ++ w :: rest).length + 2 = F
  have hF3 : (A ++ w :: rest).length + 3 = F + 1 := by omega
  rw [hF3]
  -- the rest
  have hgr : ∃ e, Good true (getIntValueF true tab c F) c.round rest u e ∧ e ≤ 1000 := by
    rcases hrest with ⟨h1, h2⟩ | ⟨h1, h2, h3, h4, h5⟩
    · subst h1; subst h2; exact ⟨1, good_nil' _ _, by omega⟩
    · exact ⟨_, good_of_value tab c rest u fR F h1 (by omega) h2 h5, h4⟩
  obtain ⟨e, hg, he⟩ := hgr
  have hgood : Good true (getIntValueF true tab c F) c.round (A ++ w :: rest) (1000 * k + u) 1000 := by
    rcases hA with ⟨h1, h2⟩ | ⟨h1, h2, h3, h4⟩
    · subst h1; subst h2
      simpa using good_step_empty _ c.round w 1000 rest u e hg he hw
    · exact good_step true _ c.round A w 1000 k rest u e hg he hw h1 h2
        (getIntValueF_mono true tab c fA F A k h3 (by omega))
  obtain ⟨g1, g2⟩ := hgood
  have hne : A ++ w :: rest ≠ [] := by simp
  cases hT : A ++ w :: rest with
  | nil => exact absurd hT hne
  | cons t ts =>
    rw [hT] at g1 g2
    rw [getIntValueF_unfold]
    have : ((scanR c.round (t :: ts) 1).2 == 1) = false := by rw [g1]; rfl
    simp only [this, Bool.false_eq_true, if_false]
    exact g2

end RTV.Num
