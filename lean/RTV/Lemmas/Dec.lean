import RTV.Model.Dec
/-! Lemmas about L3 `Dec` used by `Props/C03`: digit counts, exactness of `fix` below the precision, the
integer accumulation step of `_get_digital_value`, the concrete behaviour of the `Decimal(0.1)` scale. -/
namespace RTV.Dec

theorem ndigitsAux_le (fuel n k : Nat) (hf : n ≤ fuel) (hk : 1 ≤ k) (h : n < 10 ^ k) : ndigitsAux fuel n ≤ k := by
  induction fuel generalizing n k with
  | zero => simp [ndigitsAux]; omega
  | succ f ih =>
    unfold ndigitsAux
    split
    · omega
    · rename_i h10
      have hk2 : 2 ≤ k := by
        rcases Nat.lt_or_ge k 2 with h2 | h2
        · have : k = 1 := by omega
          subst this; simp at h; omega
        · exact h2
      have : n / 10 < 10 ^ (k - 1) := by
        have e : 10 ^ k = 10 ^ (k - 1) * 10 := by
          rw [← Nat.pow_succ]; congr 1; omega
        rw [e] at h
        exact Nat.div_lt_of_lt_mul (by rw [Nat.mul_comm]; exact h)
      have := ih (n / 10) (k - 1) (by omega) (by omega) this
      omega

theorem ndigits_le {n k : Nat} (hk : 1 ≤ k) (h : n < 10 ^ k) : ndigits n ≤ k :=
  ndigitsAux_le n n k (Nat.le_refl _) hk h

/-- `_fix` leaves a coefficient of at most `p` digits alone. -/
theorem fix_small (p : Nat) (s : Bool) (c : Nat) (e : Int) (hp : 1 ≤ p) (h : c < 10 ^ p) :
    fix p ⟨s, c, e⟩ = ⟨s, c, e⟩ := by
  unfold fix
  simp only
  split
  · rfl
  · have := ndigits_le hp h
    simp [this]

/-- One integer-part step of `_get_digital_value`: `tmp = add(multiply(tmp, 10), Decimal(c))`, exact while the
result has at most `p` digits. -/
theorem intStep_exact (p N d : Nat) (hp : 1 ≤ p) (h : N * 10 + d < 10 ^ p) :
    add p (mul p ⟨false, N, 0⟩ (ofNat 10)) (ofNat d) = ⟨false, N * 10 + d, 0⟩ := by
  have h1 : N * 10 < 10 ^ p := by omega
  have hm : mul p ⟨false, N, 0⟩ (ofNat 10) = ⟨false, N * 10, 0⟩ := by
    simp only [mul, ofNat]
    exact fix_small p _ _ _ hp h1
  rw [hm]
  simp only [add, ofNat]
  simp
  exact fix_small p _ _ _ hp h

theorem add_zero_left (p N : Nat) (hp : 1 ≤ p) (h : N < 10 ^ p) : add p zero ⟨false, N, 0⟩ = ⟨false, N, 0⟩ := by
  simp only [add, zero, ofNat]
  simp
  exact fix_small p _ _ _ hp h

theorem mul_one_right (p N : Nat) (s : Bool) (hp : 1 ≤ p) (h : N < 10 ^ p) : mul p ⟨s, N, 0⟩ (ofNat 1) = ⟨s, N, 0⟩ := by
  simp only [mul, ofNat]
  simp
  exact fix_small p _ _ _ hp h

theorem mul_neg_one (p N : Nat) (hp : 1 ≤ p) (h : N < 10 ^ p) : mul p ⟨false, N, 0⟩ (ofInt (-1)) = ⟨true, N, 0⟩ := by
  simp only [mul, ofInt]
  simp
  exact fix_small p _ _ _ hp h

end RTV.Dec

namespace RTV.Dec

/-! ### exact values: `Rep d M j` — the non-negative decimal `d` (exponent ≤ 0) denotes `M / 10^j` -/

theorem ndigitsAux_pos (fuel n : Nat) : 1 ≤ ndigitsAux fuel n := by
  cases fuel with
  | zero => simp [ndigitsAux]
  | succ f => unfold ndigitsAux; split <;> omega

theorem ndigitsAux_spec (fuel n : Nat) (hf : n ≤ fuel) (h0 : n ≠ 0) :
    10 ^ (ndigitsAux fuel n - 1) ≤ n ∧ n < 10 ^ ndigitsAux fuel n := by
  induction fuel generalizing n with
  | zero => omega
  | succ f ih =>
    unfold ndigitsAux
    split
    · simp; omega
    · rename_i h10
      have hk := ndigitsAux_pos f (n / 10)
      obtain ⟨l, u⟩ := ih (n / 10) (by omega) (by omega)
      generalize ndigitsAux f (n / 10) = k at *
      have e1 : k + 1 - 1 = (k - 1) + 1 := by omega
      rw [e1, Nat.pow_succ, Nat.pow_succ]
      omega

theorem ndigits_spec (n : Nat) (h0 : n ≠ 0) : 10 ^ (ndigits n - 1) ≤ n ∧ n < 10 ^ ndigits n :=
  ndigitsAux_spec n n (Nat.le_refl _) h0

def Rep (d : Dec) (M j : Nat) : Prop :=
  d.neg = false ∧ d.exp ≤ 0 ∧ d.coeff * 10 ^ j = M * 10 ^ (-d.exp).toNat

theorem pow10_pos (k : Nat) : 0 < 10 ^ k := Nat.pow_pos (by decide)

theorem pow10_lt {a b : Nat} (h : a < b) : 10 ^ a < 10 ^ b := Nat.pow_lt_pow_right (by decide) h

theorem pow10_le {a b : Nat} (h : a ≤ b) : 10 ^ a ≤ 10 ^ b := Nat.pow_le_pow_right (by decide) h

/-- `_fix` is exact on a value that has at most `p` significant digits. -/
theorem fix_rep (p S : Nat) (e0 : Int) (M j : Nat) (hp : 1 ≤ p) (hM : M < 10 ^ p) (h : Rep ⟨false, S, e0⟩ M j) :
    Rep (fix p ⟨false, S, e0⟩) M j := by
  obtain ⟨_, he0, hv⟩ := h
  simp only at he0 hv
  unfold fix
  simp only
  split
  · exact ⟨rfl, he0, hv⟩
  · rename_i hS0
    have hS : S ≠ 0 := by simpa using hS0
    split
    · exact ⟨rfl, he0, hv⟩
    · rename_i hn
      obtain ⟨lb, ub⟩ := ndigits_spec S hS
      generalize hnd : ndigits S = n at *
      have hnp : p < n := by omega
      generalize hE : (-e0).toNat = E at hv
      -- S ≥ 10^(n-1) ≥ 10^p > M
      have hSM : M < S := by
        have : 10 ^ p ≤ 10 ^ (n - 1) := pow10_le (by omega)
        omega
      -- E > j
      have hEj : j < E := by
        rcases Nat.lt_or_ge j E with h | h
        · exact h
        · exfalso
          have : 10 ^ E ≤ 10 ^ j := pow10_le h
          have h1 : M * 10 ^ E ≤ M * 10 ^ j := Nat.mul_le_mul_left _ this
          have h2 : M * 10 ^ j < S * 10 ^ j := Nat.mul_lt_mul_of_pos_right hSM (pow10_pos j)
          omega
      obtain ⟨t, ht⟩ := Nat.exists_eq_add_of_lt hEj
      -- S = M * 10^(t+1)
      have hSeq : S = M * 10 ^ (t + 1) := by
        have : M * 10 ^ E = (M * 10 ^ (t + 1)) * 10 ^ j := by
          rw [ht, Nat.mul_assoc, ← Nat.pow_add]; congr 2; omega
        rw [this] at hv
        exact Nat.eq_of_mul_eq_mul_right (pow10_pos j) hv
      -- t + 1 ≥ n - p
      have hts : n - p ≤ t + 1 := by
        rcases Nat.lt_or_ge (t + 1) (n - p) with h | h
        · exfalso
          have h1 : 10 ^ (t + 1) ≤ 10 ^ (n - p - 1) := pow10_le (by omega)
          have h2 : M * 10 ^ (t + 1) < 10 ^ p * 10 ^ (n - p - 1) :=
            Nat.lt_of_le_of_lt (Nat.mul_le_mul_left _ h1) (Nat.mul_lt_mul_of_pos_right hM (pow10_pos _))
          rw [← Nat.pow_add] at h2
          have : p + (n - p - 1) = n - 1 := by omega
          rw [this] at h2
          omega
        · exact h
      obtain ⟨u, hu⟩ := Nat.exists_eq_add_of_le hts
      have hSq : S = (M * 10 ^ u) * 10 ^ (n - p) := by
        rw [hSeq, hu, Nat.mul_assoc, ← Nat.pow_add]; congr 2; omega
      have hq : S / 10 ^ (n - p) = M * 10 ^ u := by
        rw [hSq]; exact Nat.mul_div_cancel _ (pow10_pos _)
      have hr : S % 10 ^ (n - p) = 0 := by
        rw [hSq]; exact Nat.mul_mod_left _ _
      have hrhe : roundHalfEven S (n - p) = M * 10 ^ u := by
        unfold roundHalfEven
        simp only [hq, hr]
        have hhalf : 0 < 5 * 10 ^ (n - p - 1) := Nat.mul_pos (by decide) (pow10_pos _)
        have c1 : ¬ (0 > 5 * 10 ^ (n - p - 1)) := by omega
        have c2 : (0 == 5 * 10 ^ (n - p - 1)) = false := by simp; omega
        simp [c1, c2]
      have hqlt : M * 10 ^ u < 10 ^ p := by
        have : S < 10 ^ p * 10 ^ (n - p) := by
          rw [← Nat.pow_add]
          have : p + (n - p) = n := by omega
          rw [this]; exact ub
        rw [hSq] at this
        exact Nat.lt_of_mul_lt_mul_right this
      have hnq : ndigits (M * 10 ^ u) ≤ p := ndigits_le hp hqlt
      rw [hrhe]
      have : ¬ (ndigits (M * 10 ^ u) > p) := by omega
      simp only [this, if_false]
      have hEe : E = (-e0).toNat := hE.symm
      refine ⟨rfl, ?_, ?_⟩
      · simp only; omega
      · simp only
        have : (-(e0 + ((n - p : Nat) : Int))).toNat = u + j := by omega
        rw [this, Nat.mul_assoc, ← Nat.pow_add]

theorem rep_shift (d : Dec) (M j : Nat) (h : Rep d M j) : Rep d (M * 10) (j + 1) := by
  obtain ⟨a, b, c⟩ := h
  refine ⟨a, b, ?_⟩
  rw [Nat.pow_succ, ← Nat.mul_assoc, c, Nat.mul_assoc, Nat.mul_assoc, Nat.mul_comm 10]

/-- `context.add` is exact when the sum has at most `p` significant digits. -/
theorem add_rep (p : Nat) (a b : Dec) (Ma Mb j : Nat) (hp : 1 ≤ p) (ha : Rep a Ma j) (hb : Rep b Mb j)
    (hM : Ma + Mb < 10 ^ p) : Rep (add p a b) (Ma + Mb) j := by
  obtain ⟨an, ae, av⟩ := ha
  obtain ⟨bn, be, bv⟩ := hb
  obtain ⟨aneg, ac, aexp⟩ := a
  obtain ⟨bneg, bc, bexp⟩ := b
  simp only at an ae av bn be bv
  subst an bn
  unfold add
  simp only [BEq.rfl, if_true, Bool.false_and]
  apply fix_rep p _ _ _ _ hp hM
  refine ⟨rfl, by simp only; omega, ?_⟩
  simp only
  rw [Nat.add_mul, Nat.add_mul]
  have e1 : ac * 10 ^ (aexp - min aexp bexp).toNat * 10 ^ j = Ma * 10 ^ (-min aexp bexp).toNat := by
    rw [Nat.mul_right_comm, av, Nat.mul_assoc, ← Nat.pow_add]; congr 2; omega
  have e2 : bc * 10 ^ (bexp - min aexp bexp).toNat * 10 ^ j = Mb * 10 ^ (-min aexp bexp).toNat := by
    rw [Nat.mul_right_comm, bv, Nat.mul_assoc, ← Nat.pow_add]; congr 2; omega
  rw [e1, e2]

theorem rep_zero (j : Nat) : Rep zero 0 j := by simp [Rep, zero, ofNat]

theorem rep_int (N : Nat) : Rep ⟨false, N, 0⟩ N 0 := by simp [Rep]

theorem mul_one_rep (p : Nat) (a : Dec) (M j : Nat) (hp : 1 ≤ p) (ha : Rep a M j) (hM : M < 10 ^ p) :
    Rep (mul p a (ofNat 1)) M j := by
  obtain ⟨aneg, ac, aexp⟩ := a
  obtain ⟨an, ae, av⟩ := ha
  simp only at an ae av
  subst an
  simp only [mul, ofNat, Nat.mul_one, Int.add_zero, bne_self_eq_false]
  exact fix_rep p _ _ _ _ hp hM ⟨rfl, ae, av⟩

theorem fix_neg (p c : Nat) (e : Int) : fix p ⟨true, c, e⟩ = { fix p ⟨false, c, e⟩ with neg := true } := by
  unfold fix
  simp only
  split
  · rfl
  · split
    · rfl
    · split <;> rfl

end RTV.Dec

namespace RTV.Dec

/-! ### the `Decimal(0.1)` scale of `_get_digital_value` -/

/-- the scale in force for the `j`-th fraction digit (`j ≥ 1`): `Decimal(0.1)` itself, then `1.00000000000000E-j` -/
def scaleAt (j : Nat) : Dec := if j = 1 then pointOne else ⟨false, 100000000000000, -(14 + (j : Int))⟩

instance (d : Dec) (M j : Nat) : Decidable (Rep d M j) := by unfold Rep; exact inferInstance

theorem addend_first : ∀ d, d < 10 → Rep (mul 15 pointOne (ofNat d)) d 1 := by decide +kernel

theorem scale_second : mul 15 pointOne pointOne = ⟨false, 100000000000000, -16⟩ := by decide +kernel

theorem scale_next (x : Int) : mul 15 ⟨false, 100000000000000, x⟩ pointOne = ⟨false, 100000000000000, x - 1⟩ := by
  have hn : ndigits (100000000000000 * 1000000000000000055511151231257827021181583404541015625) = 69 := by
    decide +kernel
  have hr : roundHalfEven (100000000000000 * 1000000000000000055511151231257827021181583404541015625) 54 =
      100000000000000 := by decide +kernel
  have hq : ndigits 100000000000000 = 15 := by decide +kernel
  simp only [mul, pointOne, fix, hn, hr, hq]
  simp
  omega

/-- the addend of the `j`-th fraction digit `d` denotes `d / 10^j` -/
theorem addend_rep (j d : Nat) (hj : 1 ≤ j) (hd : d < 10) : Rep (mul 15 (scaleAt j) (ofNat d)) d j := by
  unfold scaleAt
  split
  · rename_i h; subst h; exact addend_first d hd
  · simp only [mul, ofNat, Int.add_zero, bne_self_eq_false]
    rw [fix_small 15 _ _ _ (by decide) (by omega)]
    refine ⟨rfl, by simp only; omega, ?_⟩
    simp only
    have : (-(-(14 + (j : Int)))).toNat = 14 + j := by omega
    rw [this, Nat.pow_add]
    have : (100000000000000 : Nat) = 10 ^ 14 := by decide
    rw [this, Nat.mul_comm (10 ^ 14) d, Nat.mul_assoc]

theorem scale_step (j : Nat) (hj : 1 ≤ j) : mul 15 (scaleAt j) pointOne = scaleAt (j + 1) := by
  unfold scaleAt
  split
  · rename_i h; subst h; simpa using scale_second
  · rename_i h
    have : ¬ (j + 1 = 1) := by omega
    simp only [this, if_false]
    rw [scale_next]
    congr 1
    omega

end RTV.Dec
