import RTV.Model.Dec
/-! Lemmas about L3 `Dec` used by `Props/C03`: digit counts, exactness of `fix` below the precision, the
integer accumulation step of `_get_digital_value`, the concrete behaviour of the `Decimal(0.1)` scale. -/
namespace RTV.Dec

theorem ndigitsAux_le (fuel n k : Nat) (hf : n ≤ fuel) (hk : 1 ≤ k) (h : n < 10 ^ k) : ndigitsAux fuel n ≤ k := by
  induction fuel generalizing n k with
  | zero => simp [ndigitsAux]; omega
  | succ f ih =>
    unfold ndigitsAux
    split
    · omega
    · rename_i h10
      have hk2 : 2 ≤ k := by
        rcases Nat.lt_or_ge k 2 with h2 | h2
        · have : k = 1 := by omega
          subst this; simp at h; omega
        · exact h2
      have : n / 10 < 10 ^ (k - 1) := by
        have e : 10 ^ k = 10 ^ (k - 1) * 10 := by
          rw [← Nat.pow_succ]; congr 1; omega
        rw [e] at h
        exact Nat.div_lt_of_lt_mul (by rw [Nat.mul_comm]; exact h)
      have := ih (n / 10) (k - 1) (by omega) (by omega) this
      omega

theorem ndigits_le {n k : Nat} (hk : 1 ≤ k) (h : n < 10 ^ k) : ndigits n ≤ k :=
  ndigitsAux_le n n k (Nat.le_refl _) hk h

/-- `_fix` leaves a coefficient of at most `p` digits alone. -/
theorem fix_small (p : Nat) (s : Bool) (c : Nat) (e : Int) (hp : 1 ≤ p) (h : c < 10 ^ p) :
    fix p ⟨s, c, e⟩ = ⟨s, c, e⟩ := by
  unfold fix
  simp only
  split
  · rfl
  · have := ndigits_le hp h
    simp [this]

/-- One integer-part step of `_get_digital_value`: `tmp = add(multiply(tmp, 10), Decimal(c))`, exact while the
result has at most `p` digits. -/
theorem intStep_exact (p N d : Nat) (hp : 1 ≤ p) (h : N * 10 + d < 10 ^ p) :
    add p (mul p ⟨false, N, 0⟩ (ofNat 10)) (ofNat d) = ⟨false, N * 10 + d, 0⟩ := by
  have h1 : N * 10 < 10 ^ p := by omega
  have hm : mul p ⟨false, N, 0⟩ (ofNat 10) = ⟨false, N * 10, 0⟩ := by
    simp only [mul, ofNat]
    exact fix_small p _ _ _ hp h1
  rw [hm]
  simp only [add, ofNat]
  simp
  exact fix_small p _ _ _ hp h

theorem add_zero_left (p N : Nat) (hp : 1 ≤ p) (h : N < 10 ^ p) : add p zero ⟨false, N, 0⟩ = ⟨false, N, 0⟩ := by
  simp only [add, zero, ofNat]
  simp
  exact fix_small p _ _ _ hp h

theorem mul_one_right (p N : Nat) (s : Bool) (hp : 1 ≤ p) (h : N < 10 ^ p) : mul p ⟨s, N, 0⟩ (ofNat 1) = ⟨s, N, 0⟩ := by
  simp only [mul, ofNat]
  simp
  exact fix_small p _ _ _ hp h

theorem mul_neg_one (p N : Nat) (hp : 1 ≤ p) (h : N < 10 ^ p) : mul p ⟨false, N, 0⟩ (ofInt (-1)) = ⟨true, N, 0⟩ := by
  simp only [mul, ofInt]
  simp
  exact fix_small p _ _ _ hp h

end RTV.Dec
