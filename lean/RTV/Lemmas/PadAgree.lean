import RTV.Model.DefiniteRange
import RTV.Model.DateUtils
/-! `f'{n:04d}'` / `f'{n:02d}'` as `RTV.DateUtils.pad` (zfill of `str(n)`) and as `RTV.WF.pad4` / `pad2` (digit arithmetic)
agree on every value `datetime` can hold — kernel evaluation over the whole range, in blocks. -/
namespace RTV.DefRange
open RTV.Cal RTV.WF RTV.DateUtils RTV.Py

/-- all `k` with `lo ≤ k < lo + n` satisfy `p` (structural recursion, evaluated by the kernel in blocks) -/
def allFrom (p : Nat → Bool) (lo : Nat) : Nat → Bool
  | 0 => true
  | n + 1 => p (lo + n) && allFrom p lo n

theorem allFrom_spec (p : Nat → Bool) (lo n : Nat) (h : allFrom p lo n = true) : ∀ k, lo ≤ k → k < lo + n → p k = true := by
  induction n with
  | zero => intro k h1 h2; omega
  | succ n ih =>
    simp only [allFrom, Bool.and_eq_true] at h
    intro k h1 h2
    by_cases hk : k = lo + n
    · subst hk; exact h.1
    · exact ih h.2 k h1 (by omega)

theorem pad4_block0 : allFrom (fun y => RTV.DateUtils.pad 4 y == pad4 y) 0 1000 = true := by decide +kernel
theorem pad4_block1 : allFrom (fun y => RTV.DateUtils.pad 4 y == pad4 y) 1000 1000 = true := by decide +kernel
theorem pad4_block2 : allFrom (fun y => RTV.DateUtils.pad 4 y == pad4 y) 2000 1000 = true := by decide +kernel
theorem pad4_block3 : allFrom (fun y => RTV.DateUtils.pad 4 y == pad4 y) 3000 1000 = true := by decide +kernel
theorem pad4_block4 : allFrom (fun y => RTV.DateUtils.pad 4 y == pad4 y) 4000 1000 = true := by decide +kernel
theorem pad4_block5 : allFrom (fun y => RTV.DateUtils.pad 4 y == pad4 y) 5000 1000 = true := by decide +kernel
theorem pad4_block6 : allFrom (fun y => RTV.DateUtils.pad 4 y == pad4 y) 6000 1000 = true := by decide +kernel
theorem pad4_block7 : allFrom (fun y => RTV.DateUtils.pad 4 y == pad4 y) 7000 1000 = true := by decide +kernel
theorem pad4_block8 : allFrom (fun y => RTV.DateUtils.pad 4 y == pad4 y) 8000 1000 = true := by decide +kernel
theorem pad4_block9 : allFrom (fun y => RTV.DateUtils.pad 4 y == pad4 y) 9000 1000 = true := by decide +kernel

/-- `f'{n:04d}'` as `RTV.DateUtils.pad` computes it and as `RTV.WF.pad4` does, for every year `datetime` can hold
(kernel evaluation over all 10,000 values, in blocks of 1,000). -/
theorem pad4_agree (y : Nat) (h : y < 10000) : RTV.DateUtils.pad 4 y = pad4 y := by
  have b0 := pad4_block0
  have b1 := pad4_block1
  have b2 := pad4_block2
  have b3 := pad4_block3
  have b4 := pad4_block4
  have b5 := pad4_block5
  have b6 := pad4_block6
  have b7 := pad4_block7
  have b8 := pad4_block8
  have b9 := pad4_block9
  have key : (RTV.DateUtils.pad 4 y == pad4 y) = true := by
    rcases Nat.lt_or_ge y 1000 with h0 | h0
    · exact allFrom_spec _ _ _ b0 y (by omega) (by omega)
    rcases Nat.lt_or_ge y 2000 with h1 | h1
    · exact allFrom_spec _ _ _ b1 y (by omega) (by omega)
    rcases Nat.lt_or_ge y 3000 with h2 | h2
    · exact allFrom_spec _ _ _ b2 y (by omega) (by omega)
    rcases Nat.lt_or_ge y 4000 with h3 | h3
    · exact allFrom_spec _ _ _ b3 y (by omega) (by omega)
    rcases Nat.lt_or_ge y 5000 with h4 | h4
    · exact allFrom_spec _ _ _ b4 y (by omega) (by omega)
    rcases Nat.lt_or_ge y 6000 with h5 | h5
    · exact allFrom_spec _ _ _ b5 y (by omega) (by omega)
    rcases Nat.lt_or_ge y 7000 with h6 | h6
    · exact allFrom_spec _ _ _ b6 y (by omega) (by omega)
    rcases Nat.lt_or_ge y 8000 with h7 | h7
    · exact allFrom_spec _ _ _ b7 y (by omega) (by omega)
    rcases Nat.lt_or_ge y 9000 with h8 | h8
    · exact allFrom_spec _ _ _ b8 y (by omega) (by omega)
    · exact allFrom_spec _ _ _ b9 y (by omega) (by omega)
  exact eq_of_beq key

theorem pad2_agree (n : Nat) (h : n < 100) : RTV.DateUtils.pad 2 n = pad2 n := by
  have b : allFrom (fun n => RTV.DateUtils.pad 2 n == pad2 n) 0 100 = true := by decide +kernel
  exact eq_of_beq (allFrom_spec _ _ _ b n (by omega) (by omega))

end RTV.DefRange
