import RTV.Lemmas.DtRes
/-!
# Word contract for the month / day tables (C06)

`contracts/C06words.json` says, independently of the tree, what the month and day WORDS of each culture mean
(`enero` = 1, `märz` = 3, `三月` = 3, `1er` = 1 …). Two strengths:
* `wordsPresent r tbl c` — every contract word is a key of `tbl` and its value, after the parser's reduction `r`
  (`id` for `BaseDateParser`, `zhReduce 12` / `zhReduce 31` for `ChineseDateParser`), is the contract's number;
* `wordsPinned r tbl c` — every contract word that is a key of `tbl` has the contract's number (abbreviations and
  regional spellings: support is not demanded, a wrong meaning is excluded).
-/
namespace RTV.DtRes
open RTV.Py

def wordsPresent (r : Nat → Nat) (tbl c : List (Str × Nat)) : Bool :=
  c.all (fun p => (lookup tbl p.1).map r == some p.2)

def wordsPinned (r : Nat → Nat) (tbl c : List (Str × Nat)) : Bool :=
  c.all (fun p => match lookup tbl p.1 with | none => true | some v => r v == p.2)

theorem wordsPresent_lookup (r : Nat → Nat) (tbl c : List (Str × Nat)) (h : wordsPresent r tbl c = true)
    (w : Str) (n : Nat) (hw : (w, n) ∈ c) : ∃ v, lookup tbl w = some v ∧ r v = n := by
  have := List.all_eq_true.1 h (w, n) hw
  simp only [beq_iff_eq] at this
  cases hl : lookup tbl w with
  | none => simp [hl] at this
  | some v => exact ⟨v, rfl, by simpa [hl] using this⟩

theorem wordsPresent_lookup_id (tbl c : List (Str × Nat)) (h : wordsPresent id tbl c = true)
    (w : Str) (n : Nat) (hw : (w, n) ∈ c) : lookup tbl w = some n := by
  obtain ⟨v, hv, rfl⟩ := wordsPresent_lookup id tbl c h w n hw
  simpa using hv

theorem wordsPinned_lookup (r : Nat → Nat) (tbl c : List (Str × Nat)) (h : wordsPinned r tbl c = true)
    (w : Str) (n v : Nat) (hw : (w, n) ∈ c) (hv : lookup tbl w = some v) : r v = n := by
  have := List.all_eq_true.1 h (w, n) hw
  simpa [hv] using this

end RTV.DtRes
