import RTV.Lemmas.NumCjkFam
/-! kernel evaluation: single-digit spelled decimals (with the exact failure set), fractions, digit strings -/
namespace RTV.NumCjk
theorem zh_point_bad : pointBad = [3, 6, 7, 17] := by decide +kernel
theorem zh_frac_fam : allBelow 64 zhFrac = true := by decide +kernel
theorem zh_frac_mixed_fam : allBelow 24 zhFracMixed = true := by decide +kernel
theorem digit_reads_fam : digitSamples.all digitReads = true := by decide +kernel
end RTV.NumCjk
