import RTV.Model.Unit
/-! Helper lemmas for C05 (unit tables, key assembly). -/
set_option linter.unusedSimpArgs false
set_option linter.unusedVariables false
namespace RTV.Unit

theorem dget_append (d : Dict) (a b t : Str) :
    dget (d ++ [(a, b)]) t = match dget d t with
      | some u => some u
      | none => if a = t then some b else none := by
  induction d with
  | nil => simp [dget]
  | cons kv rest ih =>
    obtain ⟨k, v⟩ := kv
    simp only [List.cons_append, dget]
    by_cases h : k = t <;> simp [h, ih]

theorem bindTokens_get (key : Str) (ts : List Str) : ∀ (d : Dict) (t : Str),
    dget (bindTokens d key ts) t = match dget d t with
      | some u => some u
      | none => if t ≠ [] ∧ t ∈ ts then some key else none := by
  induction ts with
  | nil => intro d t; simp [bindTokens]; cases dget d t <;> rfl
  | cons a ts ih =>
    intro d t
    simp only [bindTokens]
    by_cases h : a = [] ∨ dhas d a = true
    · simp only [h, if_true, ih]
      cases hd : dget d t with
      | some u => rfl
      | none =>
        simp only
        rcases h with h | h
        · subst h
          by_cases ht : t = []
          · simp [ht]
          · have h2 : ([] : Str) ≠ t := fun e => ht e.symm
            simp [ht, List.mem_cons, Ne.symm h2]
        · have hat : a ≠ t := by
            intro e; subst e; simp [dhas, hd] at h
          simp [List.mem_cons, Ne.symm hat]
    · simp only [h, if_false, ih, dget_append]
      have ha : a ≠ [] := fun e => h (Or.inl e)
      cases hd : dget d t with
      | some u => rfl
      | none =>
        simp only
        by_cases hat : a = t
        · subst hat; simp [ha]
        · simp [hat, List.mem_cons, Ne.symm hat]

/-- the tokens a table row lists for its unit -/
def tokensOf (sp : Nat → Bool) (source : Str) : List Str := splitBar (strip sp source)

/-- first row (in table order) with a non-empty key that lists `t` -/
def firstKey (sp : Nat → Bool) (tbl : Dict) (t : Str) : Option Str :=
  match tbl with
  | [] => none
  | (k, v) :: rest => if k ≠ [] ∧ t ∈ tokensOf sp v then some k else firstKey sp rest t

theorem bindDictionary_get (sp : Nat → Bool) (tbl : Dict) : ∀ (d : Dict) (t : Str), t ≠ [] →
    dget (bindDictionary sp tbl d) t = match dget d t with
      | some u => some u
      | none => firstKey sp tbl t := by
  induction tbl with
  | nil => intro d t _; simp [bindDictionary, firstKey]; cases dget d t <;> rfl
  | cons kv rest ih =>
    intro d t ht
    obtain ⟨k, v⟩ := kv
    have hstep : bindDictionary sp ((k, v) :: rest) d =
        bindDictionary sp rest (if k = [] then d else bindUnitsString sp d k v) := by
      simp [bindDictionary]
    rw [hstep, ih _ t ht]
    by_cases hk : k = []
    · simp [hk, firstKey]
    · simp only [hk, if_false, bindUnitsString, bindTokens_get]
      cases hd : dget d t with
      | some u => rfl
      | none =>
        simp only [firstKey, tokensOf]
        by_cases hm : t ∈ splitBar (strip sp v)
        · simp [hm, ht, hk]
        · simp [hm]

theorem firstKey_append (sp : Nat → Bool) (a b : Dict) (t : Str) :
    firstKey sp (a ++ b) t = match firstKey sp a t with
      | some u => some u
      | none => firstKey sp b t := by
  induction a with
  | nil => simp [firstKey]
  | cons kv rest ih =>
    obtain ⟨k, v⟩ := kv
    simp only [List.cons_append, firstKey]
    by_cases h : k ≠ [] ∧ t ∈ tokensOf sp v
    · simp [h]
    · simp only [h, if_false, ih]

theorem buildUnitMap_get (sp : Nat → Bool) (tables : List Dict) (t : Str) (ht : t ≠ []) :
    dget (buildUnitMap sp tables) t = firstKey sp tables.flatten t := by
  have gen : ∀ (d : Dict), dget (tables.foldl (fun d t => bindDictionary sp t d) d) t =
      match dget d t with
      | some u => some u
      | none => firstKey sp tables.flatten t := by
    induction tables with
    | nil => intro d; simp [firstKey]; cases dget d t <;> rfl
    | cons tb rest ih =>
      intro d
      simp only [List.foldl_cons, ih, bindDictionary_get sp tb d t ht, List.flatten_cons, firstKey_append]
      cases dget d t with
      | some u => rfl
      | none => simp only
  simpa [buildUnitMap, dget] using gen []


/-- what the loop does when it reaches the end of the text -/
def finish (sp : Nat → Bool) (build : Str) (keys : List Str) : List Str :=
  if build ≠ [] then addIfNotContained keys (strip sp build) else keys

theorem tailLoop (sp : Nat → Bool) (key : Str) (numStart : Int) (numLen : Nat) :
    ∀ (m i fuel : Nat) (build : Str) (keys : List Str), m = key.length - i → i ≤ key.length →
      (∀ j, i ≤ j → (j : Int) ≠ numStart) → m + 1 ≤ fuel →
      keyLoop sp key numStart numLen fuel (i : Int) build keys = finish sp (build ++ key.drop i) keys := by
  intro m
  induction m with
  | zero =>
    intro i fuel build keys hm hi hj hf
    have : i = key.length := by omega
    subst this
    cases fuel with
    | zero => omega
    | succ f =>
      simp [keyLoop, finish]
  | succ m ih =>
    intro i fuel build keys hm hi hj hf
    cases fuel with
    | zero => omega
    | succ f =>
      have h1 : ¬ ((i : Int) > (key.length : Int)) := by omega
      have h2 : ¬ ((i : Int) = (key.length : Int)) := by omega
      have h3 : ¬ ((i : Int) = numStart) := hj i (Nat.le_refl _)
      rw [keyLoop]
      simp only [h1, h2, h3, if_false]
      have := ih (i+1) f (build ++ [key.getD i 0]) keys (by omega) (by omega) (fun j hj' => hj j (by omega)) (by omega)
      have e : ((i : Int) + 1) = ((i + 1 : Nat) : Int) := by omega
      rw [e, Int.toNat_natCast, this]
      congr 1
      have hlt : i < key.length := by omega
      rw [List.append_assoc]
      congr 1
      rw [List.drop_eq_getElem_cons hlt]
      simp [List.getD_eq_getElem?_getD, hlt]


theorem headLoop (sp : Nat → Bool) (key : Str) (p : Nat) (numLen : Nat) (hp : p < key.length) :
    ∀ (m i fuel : Nat) (build : Str) (keys : List Str), m = p - i → i ≤ p → m ≤ fuel →
      keyLoop sp key (p : Int) numLen fuel (i : Int) build keys =
        keyLoop sp key (p : Int) numLen (fuel - m) (p : Int) (build ++ (key.drop i).take m) keys := by
  intro m
  induction m with
  | zero =>
    intro i fuel build keys hm hi hf
    have : i = p := by omega
    subst this; simp
  | succ m ih =>
    intro i fuel build keys hm hi hf
    cases fuel with
    | zero => omega
    | succ f =>
      have h1 : ¬ ((i : Int) > (key.length : Int)) := by omega
      have h2 : ¬ ((i : Int) = (key.length : Int)) := by omega
      have h3 : ¬ ((i : Int) = (p : Int)) := by omega
      rw [keyLoop]
      simp only [h1, h2, h3, if_false]
      have e : ((i : Int) + 1) = ((i + 1 : Nat) : Int) := by omega
      rw [e, Int.toNat_natCast, ih (i+1) f _ keys (by omega) (by omega) (by omega)]
      have hlt : i < key.length := by omega
      have e2 : f + 1 - (m + 1) = f - m := by omega
      rw [e2]
      congr 1
      rw [List.append_assoc]
      congr 1
      have hd : List.drop i key = key[i] :: List.drop (i + 1) key := List.drop_eq_getElem_cons hlt
      rw [hd, List.take_succ_cons]
      simp [List.getD_eq_getElem?_getD, hlt]

theorem unitKeys_suffix (sp : Nat → Bool) (num rest : Str) (hn : num ≠ []) :
    unitKeys sp (num ++ rest) 0 num.length = finish sp rest [] := by
  have hl : 0 < num.length := List.length_pos_iff.mpr hn
  unfold unitKeys
  rw [show (num ++ rest).length + 2 = ((num ++ rest).length + 1) + 1 by omega, keyLoop]
  have h1 : ¬ ((0 : Int) > ((num ++ rest).length : Int)) := by omega
  have h2 : ¬ ((0 : Int) = ((num ++ rest).length : Int)) := by simp; omega
  have h4 : num.length ≠ 0 := by omega
  simp only [h1, h2, if_false, if_true, h4, ne_eq, not_true_eq_false, not_false_eq_true]
  have e : ((0 : Int) + (num.length : Int) - 1 + 1) = ((num.length : Nat) : Int) := by omega
  rw [e, tailLoop sp (num ++ rest) 0 num.length ((num ++ rest).length - num.length) num.length _ [] []
    rfl (by simp) (fun j hj => by omega) (by simp)]
  simp

theorem unitKeys_prefix (sp : Nat → Bool) (pre num : Str) (hp : pre ≠ []) (hn : num ≠ []) :
    unitKeys sp (pre ++ num) pre.length num.length = [strip sp pre] := by
  have hl : 0 < num.length := List.length_pos_iff.mpr hn
  have hpl : 0 < pre.length := List.length_pos_iff.mpr hp
  unfold unitKeys
  have hlen : (pre ++ num).length = pre.length + num.length := by simp
  rw [show ((0 : Int)) = ((0 : Nat) : Int) by rfl,
    headLoop sp (pre ++ num) pre.length num.length (by omega) pre.length 0 _ [] [] (by omega) (by omega) (by omega)]
  simp only [List.drop_zero, List.nil_append, List.take_left']
  have hf : (pre ++ num).length + 2 - pre.length = (num.length + 1) + 1 := by omega
  rw [hf, keyLoop]
  have h1 : ¬ ((pre.length : Int) > ((pre ++ num).length : Int)) := by omega
  have h2 : ¬ ((pre.length : Int) = ((pre ++ num).length : Int)) := by omega
  have h4 : num.length ≠ 0 := by omega
  simp only [h1, h2, if_false, if_true, h4, ne_eq, hp, not_false_eq_true]
  rw [keyLoop]
  have e : ((pre.length : Int) + (num.length : Int) - 1 + 1) = ((pre ++ num).length : Int) := by omega
  simp [e, addIfNotContained]


/-! ### the whole parse (`parseFull`) -/

theorem parseUnit_eq_lookup (sp : Nat → Bool) (lower : Str → Str) (um : Dict) (conn text : Str) (ns : Int) (nl : Nat) :
    parseUnit sp lower um conn text ns nl =
      match (unitKeys sp text ns nl).getLast? with
      | none => none
      | some last => lookupUnit sp lower um conn text last := by
  unfold parseUnit lookupUnit
  cases (unitKeys sp text ns nl).getLast? <;> rfl

theorem isInfix_append_right (f h : Str) : isInfix h (f ++ h) = true := by
  unfold isInfix
  rw [List.any_eq_true]
  refine ⟨f.length, by simp; omega, ?_⟩
  simp

theorem dropHalf_append (f ht : Str) (res : Option Str) (hne : ht ≠ []) :
    dropHalf (f ++ ht) ⟨ht, ht.length, res⟩ = f := by
  have hl : ht.length ≠ 0 := by
    intro e; exact hne (List.length_eq_zero_iff.mp e)
  simp [dropHalf, isInfix_append_right, hl]

end RTV.Unit
