import RTV.Model.SpellEu
import RTV.Model.NumCfg
/-! Italian numerals below 1000 (`spellEu itSpell`) against `getIntValue` with the regenerated Italian maps and the
culture's `resolve_composite_number`: kernel evaluation in chunks of 50 (one declaration per chunk keeps the
kernel's caches small), then the case split over the chunk index. -/
namespace RTV.Num

/-- the numerals the statement is about (exact guard: what the faithful model gets right) -/
def itGuard (n : Nat) : Bool := !(n % 10 == 3 && decide (20 ≤ n % 100))

def itCheck (n : Nat) : Bool :=
  !itGuard n || decide (getIntValue true asciiDigits it.lang (spellEu itSpell n).2 = .ok n)

def itChunk (k : Nat) : Bool := (List.range 50).all fun i => itCheck (50 * k + i)

theorem it_c0 : itChunk 0 = true := by decide +kernel
theorem it_c1 : itChunk 1 = true := by decide +kernel
theorem it_c2 : itChunk 2 = true := by decide +kernel
theorem it_c3 : itChunk 3 = true := by decide +kernel
theorem it_c4 : itChunk 4 = true := by decide +kernel
theorem it_c5 : itChunk 5 = true := by decide +kernel
theorem it_c6 : itChunk 6 = true := by decide +kernel
theorem it_c7 : itChunk 7 = true := by decide +kernel
theorem it_c8 : itChunk 8 = true := by decide +kernel
theorem it_c9 : itChunk 9 = true := by decide +kernel
theorem it_c10 : itChunk 10 = true := by decide +kernel
theorem it_c11 : itChunk 11 = true := by decide +kernel
theorem it_c12 : itChunk 12 = true := by decide +kernel
theorem it_c13 : itChunk 13 = true := by decide +kernel
theorem it_c14 : itChunk 14 = true := by decide +kernel
theorem it_c15 : itChunk 15 = true := by decide +kernel
theorem it_c16 : itChunk 16 = true := by decide +kernel
theorem it_c17 : itChunk 17 = true := by decide +kernel
theorem it_c18 : itChunk 18 = true := by decide +kernel
theorem it_c19 : itChunk 19 = true := by decide +kernel

theorem it_chunks (k : Nat) (hk : k < 20) : itChunk k = true := by
  match k, hk with
  | 0, _ => exact it_c0
  | 1, _ => exact it_c1
  | 2, _ => exact it_c2
  | 3, _ => exact it_c3
  | 4, _ => exact it_c4
  | 5, _ => exact it_c5
  | 6, _ => exact it_c6
  | 7, _ => exact it_c7
  | 8, _ => exact it_c8
  | 9, _ => exact it_c9
  | 10, _ => exact it_c10
  | 11, _ => exact it_c11
  | 12, _ => exact it_c12
  | 13, _ => exact it_c13
  | 14, _ => exact it_c14
  | 15, _ => exact it_c15
  | 16, _ => exact it_c16
  | 17, _ => exact it_c17
  | 18, _ => exact it_c18
  | 19, _ => exact it_c19
  | k + 20, h => omega

theorem it_all (n : Nat) (h : n < 1000) (hg : itGuard n = true) :
    getIntValue true asciiDigits it.lang (spellEu itSpell n).2 = .ok n := by
  have hc := it_chunks (n / 50) (by omega)
  simp only [itChunk, List.all_eq_true, List.mem_range] at hc
  have := hc (n % 50) (Nat.mod_lt _ (by decide))
  have e : 50 * (n / 50) + n % 50 = n := Nat.div_add_mod n 50
  rw [e] at this
  simpa [itCheck, hg] using this

end RTV.Num
