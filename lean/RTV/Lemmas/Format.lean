import RTV.Model.Dec
/-! `str(Decimal)` and `CultureInfo.format` in positional notation (exponent ≤ 0, adjusted exponent ≥ −6): the
characters that can occur in the result. -/
namespace RTV.Dec
open RTV.Py

theorem natStr_digits (n : Nat) : ∀ c ∈ natStr n, 48 ≤ c ∧ c ≤ 57 := by
  intro c hc
  simp only [natStr, List.mem_map] at hc
  obtain ⟨ch, hch, rfl⟩ := hc
  have h1 : ch ∈ Nat.toDigits 10 n := by
    have : (toString n).toList = Nat.toDigits 10 n := by simp [toString, Nat.repr]
    rwa [this] at hch
  have h2 := Nat.isDigit_of_mem_toDigits (by decide) (by decide) h1
  simp only [Char.isDigit, Bool.and_eq_true, decide_eq_true_eq] at h2
  obtain ⟨a, b⟩ := h2
  constructor
  · exact a
  · exact b

/-- characters of a plain decimal rendering: digits, `-`, `.` -/
def PlainChar (c : Nat) : Prop := (48 ≤ c ∧ c ≤ 57) ∨ c = 45 ∨ c = 46

theorem plain_append {a b : Str} (ha : ∀ c ∈ a, PlainChar c) (hb : ∀ c ∈ b, PlainChar c) :
    ∀ c ∈ a ++ b, PlainChar c := by
  intro c hc
  rcases List.mem_append.mp hc with h | h
  · exact ha c h
  · exact hb c h

theorem digitsAux_digits (fuel n : Nat) (acc : Str) (h : ∀ c ∈ acc, 48 ≤ c ∧ c ≤ 57) :
    ∀ c ∈ digitsAux fuel n acc, 48 ≤ c ∧ c ≤ 57 := by
  induction fuel generalizing n acc with
  | zero => simpa [digitsAux] using h
  | succ f ih =>
    unfold digitsAux
    split
    · intro c hc
      simp only [List.mem_cons] at hc
      rcases hc with e | e
      · subst e; omega
      · exact h c e
    · apply ih
      intro c hc
      simp only [List.mem_cons] at hc
      rcases hc with e | e
      · subst e; omega
      · exact h c e

theorem digitsOf_digits (n : Nat) : ∀ c ∈ digitsOf n, 48 ≤ c ∧ c ≤ 57 :=
  digitsAux_digits _ _ [] (by simp)

theorem plain_digits (n : Nat) : ∀ c ∈ digitsOf n, PlainChar c := fun c hc => Or.inl (digitsOf_digits n c hc)

theorem plain_zeros (k : Nat) : ∀ c ∈ List.replicate k 48, PlainChar c := by
  intro c hc
  have := List.eq_of_mem_replicate hc
  subst this
  exact Or.inl ⟨by decide, by decide⟩

theorem parts_plain (ds : Str) (hds : ∀ c ∈ ds, PlainChar c) (dotplace len : Int) :
    (∀ c ∈ (if dotplace ≤ 0 then (([48] : Str), 46 :: (List.replicate (-dotplace).toNat 48 ++ ds))
        else if dotplace ≥ len then (ds ++ List.replicate (dotplace - len).toNat 48, [])
        else (ds.take dotplace.toNat, 46 :: ds.drop dotplace.toNat)).1, PlainChar c) ∧
    (∀ c ∈ (if dotplace ≤ 0 then (([48] : Str), 46 :: (List.replicate (-dotplace).toNat 48 ++ ds))
        else if dotplace ≥ len then (ds ++ List.replicate (dotplace - len).toNat 48, [])
        else (ds.take dotplace.toNat, 46 :: ds.drop dotplace.toNat)).2, PlainChar c) := by
  have h46 : PlainChar 46 := Or.inr (Or.inr rfl)
  have h48 : PlainChar 48 := Or.inl ⟨by decide, by decide⟩
  split
  · constructor
    · intro c hc; simp at hc; subst hc; exact h48
    · intro c hc
      simp only [List.mem_cons, List.mem_append] at hc
      rcases hc with h | h | h
      · subst h; exact h46
      · exact plain_zeros _ c h
      · exact hds c h
  · split
    · exact ⟨plain_append hds (plain_zeros _), by intro c hc; simp at hc⟩
    · constructor
      · intro c hc; exact hds c (List.mem_of_mem_take hc)
      · intro c hc
        simp only [List.mem_cons] at hc
        rcases hc with h | h
        · subst h; exact h46
        · exact hds c (List.mem_of_mem_drop h)

/-- `str(Decimal)` without exponent part: only digits, an optional sign and at most the point. -/
theorem toStr_plain (d : Dec) (he : d.exp ≤ 0) (hadj : d.exp + ((digitsOf d.coeff).length : Int) > -6) :
    ∀ c ∈ toStr d, PlainChar c := by
  unfold toStr
  simp only
  have h1 : (decide (d.exp ≤ 0) && decide (d.exp + ((digitsOf d.coeff).length : Int) > -6)) = true := by
    simp [he, hadj]
  simp only [h1, if_true, BEq.rfl, List.append_nil]
  have hsign : ∀ c ∈ (if d.neg then [45] else []), PlainChar c := by
    intro c hc
    split at hc
    · simp at hc; subst hc; exact Or.inr (Or.inl rfl)
    · simp at hc
  obtain ⟨p1, p2⟩ := parts_plain (digitsOf d.coeff) (plain_digits d.coeff)
    (d.exp + ((digitsOf d.coeff).length : Int)) ((digitsOf d.coeff).length : Int)
  exact plain_append (plain_append hsign p1) p2

theorem mem_rstripChar {x : Nat} {s : Str} {c : Nat} (h : c ∈ rstripChar x s) : c ∈ s := by
  unfold rstripChar at h
  rw [List.mem_reverse] at h
  have := (List.dropWhile_sublist (fun y => y == x) (l := s.reverse)).subset h
  exact List.mem_reverse.mp this

theorem findFrom_go_none (s sub : Str) (x : Nat) (r : Str) (hsub : sub = x :: r) (hx : x ∉ s) :
    ∀ fuel i, findFrom.go s sub s.length sub.length fuel i = none := by
  intro fuel
  induction fuel with
  | zero => intro i; rfl
  | succ f ih =>
    intro i
    unfold findFrom.go
    split
    · rfl
    · have : ¬ ((s.drop i).take sub.length = sub) := by
        intro h
        rw [hsub] at h
        have hmem : x ∈ (s.drop i).take (x :: r).length := by rw [h]; simp
        exact hx (List.mem_of_mem_drop (List.mem_of_mem_take hmem))
      simp only [this, if_false]
      exact ih (i + 1)

theorem contains_false (s sub : Str) (x : Nat) (r : Str) (hsub : sub = x :: r) (hx : x ∉ s) :
    contains s sub = false := by
  unfold contains findFrom
  simp only
  rw [findFrom_go_none s sub x r hsub hx]
  rfl

/-- **`CultureInfo.format` in positional notation.** For a decimal with exponent ≤ 0 and adjusted exponent ≥ −6
(everything `_get_digital_value` returns for a literal of at most 15 digits down to 10^-6) the formatted string
consists of digits, an optional `-`, and the culture's decimal mark only: no exponent part, no grouping mark. -/
theorem format_plain (lf : Option (Nat × Nat)) (d : Dec) (he : d.exp ≤ 0)
    (hadj : d.exp + ((digitsOf d.coeff).length : Int) > -6) :
    ∀ c ∈ format lf d, (48 ≤ c ∧ c ≤ 57) ∨ c = 45 ∨
      c = (match lf with | some (dm, _) => dm | none => 46) := by
  have hp := toStr_plain d he hadj
  unfold format formatStr
  simp only
  -- replace('e','E') changes nothing
  have h1 : (toStr d).map (fun c => if c == 101 then 69 else c) = toStr d := by
    have : ∀ c ∈ toStr d, (fun c => if c == 101 then 69 else c) c = id c := by
      intro c hc
      rcases hp c hc with ⟨a, b⟩ | h | h
      · have : (c == 101) = false := by simp; omega
        simp [this]
      · subst h; rfl
      · subst h; rfl
    rw [List.map_congr_left this, List.map_id]
  rw [h1]
  generalize hs2 : (if (toStr d).contains 46 = true then rstripChar 46 (rstripChar 48 (toStr d)) else toStr d) = s2
  have hp2 : ∀ c ∈ s2, PlainChar c := by
    intro c hc
    rw [← hs2] at hc
    split at hc
    · exact hp c (mem_rstripChar (mem_rstripChar hc))
    · exact hp c hc
  have hE : (69 : Nat) ∉ s2 := by
    intro h
    rcases hp2 69 h with ⟨a, b⟩ | h | h <;> omega
  rw [contains_false s2 [69, 45] 69 [45] rfl hE]
  simp only [Bool.false_eq_true, if_false]
  rw [contains_false s2 [69, 43] 69 [43] rfl hE]
  simp only [Bool.false_eq_true, if_false]
  intro c hc
  unfold changeMarks at hc
  cases lf with
  | none => 
    rcases hp2 c hc with h | h | h
    · exact Or.inl h
    · exact Or.inr (Or.inl h)
    · exact Or.inr (Or.inr h)
  | some p =>
    obtain ⟨dm, tm⟩ := p
    simp only [List.mem_map] at hc
    obtain ⟨x, hx, rfl⟩ := hc
    rcases hp2 x hx with ⟨a, b⟩ | h | h
    · have e1 : (x == 46) = false := by simp; omega
      have e2 : (x == 44) = false := by simp; omega
      simp only [e1, e2, Bool.false_eq_true, if_false]
      exact Or.inl ⟨a, b⟩
    · subst h; exact Or.inr (Or.inl rfl)
    · subst h; exact Or.inr (Or.inr rfl)

end RTV.Dec
