import RTV.Lemmas.NumCjk
/-! kernel evaluation of the typed `get_int_value` walk (int / binary64), numerals 7000..7999 -/
namespace RTV.NumCjk
theorem ja_l70 : jaLoopChunk 70 = true := by decide +kernel
theorem ja_l71 : jaLoopChunk 71 = true := by decide +kernel
theorem ja_l72 : jaLoopChunk 72 = true := by decide +kernel
theorem ja_l73 : jaLoopChunk 73 = true := by decide +kernel
theorem ja_l74 : jaLoopChunk 74 = true := by decide +kernel
theorem ja_l75 : jaLoopChunk 75 = true := by decide +kernel
theorem ja_l76 : jaLoopChunk 76 = true := by decide +kernel
theorem ja_l77 : jaLoopChunk 77 = true := by decide +kernel
theorem ja_l78 : jaLoopChunk 78 = true := by decide +kernel
theorem ja_l79 : jaLoopChunk 79 = true := by decide +kernel
end RTV.NumCjk
