import RTV.Lemmas.DateUtils
import RTV.Model.DateParser
/-!
Helper lemmas about `RTV.Model.DateParser` (property theorems live in `RTV/Props/C09DateParser.lean`).
-/
set_option linter.unusedVariables false
set_option linter.unusedSimpArgs false
namespace RTV.DateParser
open RTV.Cal RTV.DateUtils RTV.Py

/-! ### days inside one month -/

theorem ord_day (y m d : Nat) (hd : 1 ≤ d) : ((⟨y, m, d⟩ : Date).ord : Int) = (⟨y, m, 1⟩ : Date).ord + d - 1 := by
  simp only [Date.ord]; omega

theorem valid_day (y m d : Nat) (hv : (⟨y, m, 1⟩ : Date).valid = true) (h1 : 1 ≤ d) (h2 : d ≤ daysInMonth y m) :
    (⟨y, m, d⟩ : Date).valid = true := by
  rw [valid_iff] at hv ⊢; simp only at hv ⊢; omega

theorem valid_first_of (x : Date) (hv : x.valid = true) : (⟨x.y, x.m, 1⟩ : Date).valid = true := by
  rw [valid_iff] at hv ⊢; simp only at hv ⊢; omega

theorem isValidDate_nat (y m d : Nat) : isValidDate (y : Int) m d = (⟨y, m, d⟩ : Date).valid := by
  unfold isValidDate
  by_cases hv : (⟨y, m, d⟩ : Date).valid = true
  · have := (valid_iff _).1 hv
    simp only at this
    simp [hv]; omega
  · simp [hv]

theorem mkDate_nat (y m d : Nat) :
    mkDate (y : Int) m d = if (⟨y, m, d⟩ : Date).valid = true then some ⟨⟨y, m, d⟩, 0⟩ else none := by
  unfold mkDate; rw [isValidDate_nat]; simp

/-! ### `_compute_date`: the first stated weekday of a month, then `replace(day = first + 7 (cardinal - 1))` -/

/-- day number (1..7) of the first `dow` of the month -/
def firstDow (y mo dow : Nat) : Nat := (target dow + 7 - (⟨y, mo, 1⟩ : Date).isoWeekday) % 7 + 1

theorem target_range (dow : Nat) (hd : dow ≤ 7) : 1 ≤ target dow ∧ target dow ≤ 7 := by unfold target; split <;> omega

theorem firstWeekday_eq (y mo dow : Nat) (hv : (⟨y, mo, 1⟩ : Date).valid = true) (hd : dow ≤ 7) :
    (∃ t, this ⟨⟨y, mo, 1⟩, 0⟩ dow = some t ∧
      (if (if (dow == 0) = true then 7 else dow) < (⟨y, mo, 1⟩ : Date).isoWeekday
        then next ⟨⟨y, mo, 1⟩, 0⟩ (if (dow == 0) = true then 7 else dow) else some t)
        = some ⟨⟨y, mo, firstDow y mo dow⟩, 0⟩) ∧
    1 ≤ firstDow y mo dow ∧ firstDow y mo dow ≤ 7 ∧
    isoWeekdayOrd (⟨y, mo, firstDow y mo dow⟩ : Date).ord = target dow := by
  have tr := target_range dow hd
  have tg : (if (dow == 0) = true then 7 else dow) = target dow := by
    unfold target
    by_cases h0 : dow = 0
    · simp [h0]
    · have : 1 ≤ dow := by omega
      simp [h0, this]
  have tt : target (target dow) = target dow := by unfold target; split <;> simp
  rw [tg]
  have hfd : firstDow y mo dow = (target dow + 7 - (weekdayOrd (⟨y, mo, 1⟩ : Date).ord + 1)) % 7 + 1 := rfl
  generalize firstDow y mo dow = f at hfd ⊢
  have f1 : 1 ≤ f ∧ f ≤ 7 := by omega
  have dim := daysInMonth_ge y mo ((valid_iff _).1 hv).2.2.1 ((valid_iff _).1 hv).2.2.2.1
  have vf : (⟨y, mo, f⟩ : Date).valid = true := valid_day y mo _ hv f1.1 (by omega)
  have v28 : (⟨y, mo, 28⟩ : Date).valid = true := valid_day y mo 28 hv (by omega) (by omega)
  have r1 := ord_range _ hv
  have r28 := ord_range _ v28
  have o28 := ord_day y mo 28 (by omega)
  have of := ord_day y mo f f1.1
  have m := mondayOrd_spec (⟨y, mo, 1⟩ : Date).ord r1.1
  have iso : (⟨y, mo, 1⟩ : Date).isoWeekday = weekdayOrd (⟨y, mo, 1⟩ : Date).ord + 1 := rfl
  have wl := weekdayOrd_lt (⟨y, mo, 1⟩ : Date).ord
  -- `this first dow`
  obtain ⟨t, ht⟩ : ∃ t, this ⟨⟨y, mo, 1⟩, 0⟩ dow = some t := by
    unfold this
    have : (if dow ≥ 1 then dow else 7) = target dow := rfl
    simp only [this]
    apply addDays_isSome <;> simp only <;> omega
  have st := this_spec ⟨⟨y, mo, 1⟩, 0⟩ hv dow t ht
  simp only at st
  have fin : ∀ r : DateTime, r.date.valid = true → r.secs = 0 →
      (r.date.ord : Int) = (⟨y, mo, 1⟩ : Date).ord + f - 1 → r = ⟨⟨y, mo, f⟩, 0⟩ := by
    intro r hr hs ho
    have e : r.date = ⟨y, mo, f⟩ := date_eq_of_ord _ _ hr vf (by omega)
    cases r with
    | mk d s =>
      simp only at e hs
      subst e; subst hs; rfl
  have isoF : isoWeekdayOrd (⟨y, mo, f⟩ : Date).ord = target dow := by
    have wd1 : weekdayOrd (⟨y, mo, 1⟩ : Date).ord = ((⟨y, mo, 1⟩ : Date).ord + 6) % 7 := rfl
    unfold isoWeekdayOrd
    omega
  refine ⟨⟨t, ht, ?_⟩, f1.1, f1.2, isoF⟩
  by_cases c : target dow < (⟨y, mo, 1⟩ : Date).isoWeekday
  · rw [if_pos c]
    obtain ⟨n, hn⟩ : ∃ n, next ⟨⟨y, mo, 1⟩, 0⟩ (target dow) = some n := by
      unfold next
      obtain ⟨t2, ht2⟩ : ∃ t2, this ⟨⟨y, mo, 1⟩, 0⟩ (target dow) = some t2 := by
        unfold this
        have : (if target dow ≥ 1 then target dow else 7) = target dow := by split <;> omega
        simp only [this]
        apply addDays_isSome <;> simp only <;> omega
      have s2 := this_spec ⟨⟨y, mo, 1⟩, 0⟩ hv (target dow) t2 ht2
      rw [tt] at s2
      simp only at s2
      rw [ht2, Option.bind_some]
      apply addDays_isSome <;> omega
    have sn := next_spec ⟨⟨y, mo, 1⟩, 0⟩ hv (target dow) n hn
    rw [tt] at sn
    simp only at sn
    rw [hn]
    congr 1
    apply fin n sn.1 sn.2.1
    rw [iso] at c
    omega
  · rw [if_neg c]
    congr 1
    apply fin t st.1 st.2.1
    rw [iso] at c
    omega

/-- `_compute_date` in closed form: the day `firstDow + 7 (cardinal - 1)` of the month, or `none` (the code raises) when
the month has no such day. -/
theorem computeDateR_eq (c : Int) (dow mo y : Nat) (hv : (⟨y, mo, 1⟩ : Date).valid = true) (hd : dow ≤ 7) :
    computeDateR c dow mo (y : Int) =
      if 1 ≤ (firstDow y mo dow : Int) + 7 * (c - 1) ∧ ((firstDow y mo dow : Int) + 7 * (c - 1)).toNat ≤ daysInMonth y mo
      then some ⟨⟨y, mo, ((firstDow y mo dow : Int) + 7 * (c - 1)).toNat⟩, 0⟩ else none := by
  unfold computeDateR
  rw [isValidDate_nat, hv, if_pos rfl]
  simp only [Int.toNat_natCast]
  have fw := firstWeekday_eq y mo dow hv hd
  obtain ⟨t, ht, hite⟩ := fw.1
  rw [ht, Option.bind_some, hite, Option.bind_some]
  unfold replaceDay
  simp only
  rw [isValidDate_nat]
  by_cases h1 : 1 ≤ (firstDow y mo dow : Int) + 7 * (c - 1)
  · by_cases h2 : ((firstDow y mo dow : Int) + 7 * (c - 1)).toNat ≤ daysInMonth y mo
    · have := valid_day y mo _ hv (by omega) h2
      simp [h1, h2, this]
    · have : ¬ ((⟨y, mo, ((firstDow y mo dow : Int) + 7 * (c - 1)).toNat⟩ : Date).valid = true) := by
        rw [valid_iff]; simp only; omega
      simp [h1, h2, this]
  · simp [h1]

/-! ### the month-by-month searches of "Friday 15": the fuel suffices -/

/-- month index of a date -/
def monthIdx (x : Date) : Nat := x.y * 12 + x.m

theorem monthStep_idx (x : Date) (k : Int) :
    (k = 1 → (x.y : Int) * 12 + x.m + 1 ≤ (monthStep x k).1 * 12 + (monthStep x k).2.1) ∧
    (k = -1 → (monthStep x k).1 * 12 + (monthStep x k).2.1 + 1 = (x.y : Int) * 12 + x.m) := by
  constructor
  · intro k1; subst k1
    unfold monthStep
    simp only [ne_eq, show ¬ ((1 : Int) = 0) by omega, not_false_eq_true, if_true, show ((1 : Int) > 0) = True by simp]
    (repeat' split) <;> (try simp only) <;> omega
  · intro k1; subst k1
    unfold monthStep
    simp only [ne_eq, show ¬ ((-1 : Int) = 0) by omega, not_false_eq_true, if_true, show ((-1 : Int) > 0) = False by simp,
      if_false]
    (repeat' split) <;> (try simp only) <;> omega

theorem addMonth_idx (x : Date) (hv : x.valid = true) (k : Int) (hk : k = 1 ∨ k = -1) (r : Date)
    (h : datedeltaAdd x 0 k 0 = some r) :
    r.valid = true ∧ (k = 1 → monthIdx x + 1 ≤ monthIdx r) ∧ (k = -1 → monthIdx r + 1 = monthIdx x) := by
  rw [datedeltaAdd_months_eq] at h
  have ms := monthStep_idx x k
  by_cases hr : 1 ≤ (monthStep x k).1 ∧ (monthStep x k).1 ≤ 9999
  · rw [if_pos hr] at h
    by_cases hvr : (⟨(monthStep x k).1.toNat, (monthStep x k).2.1, (monthStep x k).2.2⟩ : Date).valid = true
    · rw [if_pos hvr] at h
      simp only [Option.some.injEq] at h
      subst h
      refine ⟨hvr, ?_, ?_⟩
      · intro k1
        have := ms.1 k1
        unfold monthIdx; simp only
        omega
      · intro k1
        have := ms.2 k1
        unfold monthIdx; simp only
        omega
    · rw [if_neg hvr] at h; simp at h
  · rw [if_neg hr] at h; simp at h

theorem addDelta_month_idx (x : DateTime) (hv : x.date.valid = true) (k : Int) (hk : k = 1 ∨ k = -1) (r : DateTime)
    (h : addDelta x 0 k 0 = some r) :
    r.date.valid = true ∧ (k = 1 → monthIdx x.date + 1 ≤ monthIdx r.date) ∧ (k = -1 → monthIdx r.date + 1 = monthIdx x.date) := by
  unfold addDelta at h
  cases hd : datedeltaAdd x.date 0 k 0 with
  | none => simp [hd] at h
  | some d =>
    simp only [hd, Option.map_some, Option.some.injEq] at h
    subst h
    exact addMonth_idx x.date hv k hk d hd

theorem safeCreateFromValue_cases (y m d : Nat) :
    (safeCreateFromValue minValue (y : Int) m d = ⟨⟨y, m, d⟩, 0⟩ ∧ (⟨y, m, d⟩ : Date).valid = true) ∨
    (safeCreateFromValue minValue (y : Int) m d = minValue ∧ (⟨y, m, d⟩ : Date).valid = false) := by
  unfold safeCreateFromValue
  rw [isValidDate_nat]
  by_cases hv : (⟨y, m, d⟩ : Date).valid = true
  · left; simp [hv]
  · right; simp [hv]

theorem minValue_valid : minValue.date.valid = true := by decide

theorem idx_bound (x : Date) (hv : x.valid = true) : 13 ≤ monthIdx x ∧ monthIdx x ≤ 120000 := by
  have := (valid_iff x).1 hv
  unfold monthIdx; omega

/-- The future search cannot use up `fuel` once `fuel + monthIdx cur > 120000`: every round moves at least one month on,
and `datedelta` raises beyond year 9999. (`1 ≤ day`: with day 0 the Python loop itself would not terminate.) -/
theorem futLoop_fuel (ref : DateTime) (day dow : Nat) (hday : 1 ≤ day) :
    ∀ (fuel : Nat) (cur : DateTime), cur.date.valid = true → 120000 < fuel + monthIdx cur.date →
      futLoop ref day dow fuel cur ≠ .fuelOut := by
  intro fuel
  induction fuel with
  | zero =>
    intro cur hv hf
    have := idx_bound cur.date hv
    omega
  | succ n ih =>
    intro cur hv hf
    unfold futLoop
    split
    · cases ha : addDelta cur 0 1 0 with
      | none => simp
      | some nx =>
        simp only
        have s := addDelta_month_idx cur hv 1 (Or.inl rfl) nx ha
        have s2 := s.2.1 rfl
        by_cases hd : daysInMonth nx.date.y nx.date.m ≥ day
        · rw [if_pos hd]
          have vd : (⟨nx.date.y, nx.date.m, day⟩ : Date).valid = true :=
            valid_day _ _ _ (valid_first_of nx.date s.1) hday hd
          rcases safeCreateFromValue_cases nx.date.y nx.date.m day with ⟨e, _⟩ | ⟨_, e⟩
          · rw [e]
            apply ih
            · exact vd
            · have e : monthIdx ⟨nx.date.y, nx.date.m, day⟩ = monthIdx nx.date := rfl
              show 120000 < n + monthIdx ⟨nx.date.y, nx.date.m, day⟩
              rw [e]; omega
          · rw [vd] at e; cases e
        · rw [if_neg hd]
          apply ih nx s.1
          omega
    · simp

/-- The past search cannot use up `fuel` once `fuel > monthIdx cur`. -/
theorem pastLoop_fuel (ref : DateTime) (day dow fm : Nat) :
    ∀ (fuel : Nat) (cur : DateTime), cur.date.valid = true → monthIdx cur.date < fuel →
      pastLoop ref day dow fm fuel cur ≠ .fuelOut := by
  intro fuel
  induction fuel with
  | zero => intro cur hv hf; omega
  | succ n ih =>
    intro cur hv hf
    unfold pastLoop
    split
    · cases ha : addDelta cur 0 (-1) 0 with
      | none => simp
      | some nx =>
        simp only
        have s := addDelta_month_idx cur hv (-1) (Or.inr rfl) nx ha
        have s2 := s.2.2 rfl
        have b := idx_bound nx.date s.1
        by_cases hd : daysInMonth nx.date.y fm ≥ day
        · rw [if_pos hd]
          rcases safeCreateFromValue_cases nx.date.y nx.date.m day with ⟨e, v⟩ | ⟨e, _⟩
          · rw [e]
            apply ih
            · exact v
            · have e : monthIdx ⟨nx.date.y, nx.date.m, day⟩ = monthIdx nx.date := rfl
              show monthIdx ⟨nx.date.y, nx.date.m, day⟩ < n
              rw [e]; omega
          · rw [e]
            apply ih _ minValue_valid
            have : monthIdx minValue.date = 13 := by decide
            omega
        · rw [if_neg hd]
          apply ih nx s.1
          omega
    · simp

/-! ### what a finished search returns -/

theorem futLoop_done (ref : DateTime) (day dow : Nat) :
    ∀ (fuel : Nat) (cur v : DateTime), futLoop ref day dow fuel cur = .done v →
      v.date.isoWeekday = dow ∧ v.date.d = day ∧ v.lt ref = false := by
  intro fuel
  induction fuel with
  | zero => intro cur v h; unfold futLoop at h; cases h
  | succ n ih =>
    intro cur v h
    unfold futLoop at h
    split at h
    · cases ha : addDelta cur 0 1 0 with
      | none => rw [ha] at h; cases h
      | some nx => rw [ha] at h; exact ih _ v h
    · next c =>
      cases h
      simp only [Bool.or_eq_true, bne_iff_ne, ne_eq, not_or, Decidable.not_not, Bool.not_eq_true] at c
      exact ⟨c.1.1, c.1.2, c.2⟩

theorem pastLoop_done (ref : DateTime) (day dow fm : Nat) :
    ∀ (fuel : Nat) (cur v : DateTime), pastLoop ref day dow fm fuel cur = .done v →
      v.date.isoWeekday = dow ∧ v.date.d = day ∧ ref.lt v = false := by
  intro fuel
  induction fuel with
  | zero => intro cur v h; unfold pastLoop at h; cases h
  | succ n ih =>
    intro cur v h
    unfold pastLoop at h
    split at h
    · cases ha : addDelta cur 0 (-1) 0 with
      | none => rw [ha] at h; cases h
      | some nx => rw [ha] at h; exact ih _ v h
    · next c =>
      cases h
      simp only [Bool.or_eq_true, bne_iff_ne, ne_eq, not_or, Decidable.not_not, Bool.not_eq_true] at c
      exact ⟨c.1.1, c.1.2, c.2⟩

/-- ISO weekdays are 1..7: a search for the culture map's Sunday (0) never finishes. -/
theorem isoWeekday_pos (x : Date) : 1 ≤ x.isoWeekday ∧ x.isoWeekday ≤ 7 := isoWeekdayOrd_range x.ord

/-! ### "two mondays from now": `DateUtils.next` iterated -/

theorem relLoop_spec (dow : Nat) (hd : dow ≤ 7) :
    ∀ (k : Nat) (v r : DateTime), v.date.valid = true → relLoop dow k v = some r →
      r.date.valid = true ∧ r.secs = v.secs ∧ (k = 0 → r = v) ∧
      (1 ≤ k → (r.date.ord : Int) = mondayOrd v.date.ord + 7 * k + (target dow : Int) - 1) := by
  intro k
  induction k with
  | zero =>
    intro v r hv h
    unfold relLoop at h
    simp only [Option.some.injEq] at h
    subst h
    exact ⟨hv, rfl, fun _ => rfl, fun c => by omega⟩
  | succ n ih =>
    intro v r hv h
    unfold relLoop at h
    cases hn : next v dow with
    | none => simp [hn] at h
    | some w =>
      simp only [hn, Option.bind_some] at h
      have sn := next_spec v hv dow w hn
      have s := ih w r sn.1 h
      have tr := target_range dow hd
      have m := mondayOrd_spec v.date.ord (ord_range v.date hv).1
      have wk := week_of_ord w.date.ord (mondayOrd v.date.ord + 7) (target dow)
        (by have := m.2.2.2.1; unfold weekdayOrd at this ⊢; omega) tr.1 tr.2 (by omega)
      refine ⟨s.1, by rw [s.2.1, sn.2.1], fun c => by omega, fun _ => ?_⟩
      by_cases h0 : n = 0
      · subst h0
        have := s.2.2.1 rfl
        subst this
        omega
      · have := s.2.2.2 (by omega)
        rw [wk.2] at this
        omega

/-! ### one month on / back from a day every month has -/

theorem addMonth_small (x : Date) (hv : x.valid = true) (hd : x.d ≤ 28) :
    (x.y * 12 + x.m + 1 ≤ 9999 * 12 + 12 →
      datedeltaAdd x 0 1 0 = some (if x.m = 12 then ⟨x.y + 1, 1, x.d⟩ else ⟨x.y, x.m + 1, x.d⟩)) ∧
    (13 < x.y * 12 + x.m →
      datedeltaAdd x 0 (-1) 0 = some (if x.m = 1 then ⟨x.y - 1, 12, x.d⟩ else ⟨x.y, x.m - 1, x.d⟩)) := by
  have hx := (valid_iff x).1 hv
  constructor
  · intro hb
    have tv : (if x.m = 12 then (⟨x.y + 1, 1, x.d⟩ : Date) else ⟨x.y, x.m + 1, x.d⟩).valid = true := by
      split
      · rw [valid_iff]; simp only
        have := daysInMonth_ge (x.y + 1) 1 (by omega) (by omega); omega
      · rw [valid_iff]; simp only
        have := daysInMonth_ge x.y (x.m + 1) (by omega) (by omega); omega
    rw [datedeltaAdd_months_eq]
    have e : monthStep x 1 = (if x.m = 12 then ((x.y : Int) + 1, 1, x.d) else ((x.y : Int), x.m + 1, x.d)) := by
      unfold monthStep
      simp only [ne_eq, show ¬ ((1 : Int) = 0) by omega, not_false_eq_true, if_true]
      have dimge : x.d ≤ (if 1 ≤ ((x.y : Int) * 12 + ((x.m : Int) - 1) + 1) / 12 ∧ ((x.y : Int) * 12 + ((x.m : Int) - 1) + 1) / 12 ≤ 9999 then
          daysInMonth (((x.y : Int) * 12 + ((x.m : Int) - 1) + 1) / 12).toNat ((((x.y : Int) * 12 + ((x.m : Int) - 1) + 1) % 12).toNat + 1)
        else 31) := by
        split
        · have := daysInMonth_ge (((x.y : Int) * 12 + ((x.m : Int) - 1) + 1) / 12).toNat
            ((((x.y : Int) * 12 + ((x.m : Int) - 1) + 1) % 12).toNat + 1) (by omega) (by omega)
          omega
        · omega
      rw [if_neg (by omega)]
      split
      · next c => subst_vars; simp only [Prod.mk.injEq]; refine ⟨by omega, by omega, trivial⟩
      · next c => simp only [Prod.mk.injEq]; refine ⟨by omega, by omega, trivial⟩
    rw [e]
    split
    · next c =>
      simp only
      rw [if_pos (by omega)]
      have : ((x.y : Int) + 1).toNat = x.y + 1 := by omega
      rw [this]
      rw [if_pos c] at tv
      rw [if_pos tv]
    · next c =>
      simp only
      rw [if_pos (by omega)]
      simp only [Int.toNat_natCast]
      rw [if_neg c] at tv
      rw [if_pos tv]
  · intro hb
    have tv : (if x.m = 1 then (⟨x.y - 1, 12, x.d⟩ : Date) else ⟨x.y, x.m - 1, x.d⟩).valid = true := by
      split
      · rw [valid_iff]; simp only
        have := daysInMonth_ge (x.y - 1) 12 (by omega) (by omega); omega
      · rw [valid_iff]; simp only
        have := daysInMonth_ge x.y (x.m - 1) (by omega) (by omega); omega
    rw [datedeltaAdd_months_eq]
    have e : monthStep x (-1) = (if x.m = 1 then ((x.y : Int) - 1, 12, x.d) else ((x.y : Int), x.m - 1, x.d)) := by
      unfold monthStep
      simp only [ne_eq, show ¬ ((-1 : Int) = 0) by omega, not_false_eq_true, if_true]
      have dimge : x.d ≤ (if 1 ≤ ((x.y : Int) * 12 + ((x.m : Int) - 1) + -1) / 12 ∧ ((x.y : Int) * 12 + ((x.m : Int) - 1) + -1) / 12 ≤ 9999 then
          daysInMonth (((x.y : Int) * 12 + ((x.m : Int) - 1) + -1) / 12).toNat ((((x.y : Int) * 12 + ((x.m : Int) - 1) + -1) % 12).toNat + 1)
        else 31) := by
        split
        · have := daysInMonth_ge (((x.y : Int) * 12 + ((x.m : Int) - 1) + -1) / 12).toNat
            ((((x.y : Int) * 12 + ((x.m : Int) - 1) + -1) % 12).toNat + 1) (by omega) (by omega)
          omega
        · omega
      rw [if_neg (by omega)]
      split
      · next c => simp only [Prod.mk.injEq]; refine ⟨by omega, by omega, trivial⟩
      · next c => simp only [Prod.mk.injEq]; refine ⟨by omega, by omega, trivial⟩
    rw [e]
    split
    · next c =>
      simp only
      rw [if_pos (by omega)]
      have : ((x.y : Int) - 1).toNat = x.y - 1 := by omega
      rw [this]
      rw [if_pos c] at tv
      rw [if_pos tv]
    · next c =>
      simp only
      rw [if_pos (by omega)]
      simp only [Int.toNat_natCast]
      rw [if_neg c] at tv
      rw [if_pos tv]

/-- `a < b` or `b ≤ a` on datetimes -/
theorem not_le_lt (a b : DateTime) (h : a.le b = false) : b.lt a = true := by
  have : ¬ (a.le b = true) := by simp [h]
  rw [le_iff] at this
  rw [lt_iff]; omega

theorem not_lt_le (a b : DateTime) (h : a.lt b = false) : b.le a = true := by
  have : ¬ (a.lt b = true) := by simp [h]
  rw [lt_iff] at this
  rw [le_iff]; omega

theorem lt_of_ord (a b : DateTime) (h : a.date.ord < b.date.ord) : a.lt b = true ∧ b.lt a = false := by
  constructor
  · rw [lt_iff]; omega
  · have : ¬ (b.lt a = true) := by rw [lt_iff]; omega
    simpa using this

/-- the same month one year later / earlier is later / earlier than anything in this year -/
theorem ord_year_lt (a b : Date) (ha : a.valid = true) (hb : b.valid = true) (h : a.y < b.y) : a.ord < b.ord :=
  ord_lt_of_lexLt a b ha hb (Or.inl h)


end RTV.DateParser
